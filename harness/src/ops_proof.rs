//! whole-proof ops: line encoding of StarkProof, `verify`, fixture dump.
//! proof = CFG(13) PI(10) UNSENT(7) WITNESS(7) tokens:
//!   UNSENT : traces_original traces_interaction composition oods fri_inner fri_last nonce
//!   WITNESS: orig_values inter_values orig_auths inter_auths comp_values comp_auths fri_layers(leaves|auths;..)
use crate::*;
use crate::ops_full::{fmt_cfg, fmt_pi, parse_cfg, parse_pi, CFG_TOKENS, PI_TOKENS};
use swiftness_commitment::table::types::{Decommitment as TD, Witness as TW};
use swiftness_commitment::vector::types::Witness as VW;
use swiftness_stark::types::*;

pub const PROOF_TOKENS: usize = CFG_TOKENS + PI_TOKENS + 14;

pub fn parse_proof(a: &[&str]) -> StarkProof {
    if a.len() != PROOF_TOKENS { panic!("HX-BAD-INPUT proof token count {}", a.len()) }
    let u = &a[CFG_TOKENS + PI_TOKENS..];
    let tw = |s: &str| TW { vector: VW { authentications: felts(s) } };
    // (assignment on a base value rather than a struct literal: see parse_pi)
    let mut p = fixture_proof();
    p.config = parse_cfg(&a[0..CFG_TOKENS]);
    p.public_input = parse_pi(&a[CFG_TOKENS..CFG_TOKENS + PI_TOKENS]);
    let uc = &mut p.unsent_commitment;
    uc.traces.original = felt(u[0]); uc.traces.interaction = felt(u[1]);
    uc.composition = felt(u[2]);
    uc.oods_values = felts(u[3]);
    uc.fri.inner_layers = felts(u[4]); uc.fri.last_layer_coefficients = felts(u[5]);
    uc.proof_of_work.nonce = u64h(u[6]);
    let w = &mut p.witness;
    w.traces_decommitment.original = TD { values: felts(u[7]) }; w.traces_decommitment.interaction = TD { values: felts(u[8]) };
    w.traces_witness.original = tw(u[9]); w.traces_witness.interaction = tw(u[10]);
    w.composition_decommitment = TD { values: felts(u[11]) };
    w.composition_witness = tw(u[12]);
    w.fri_witness = crate::ops_core::fri_witness(u[13]);
    p
}

pub fn fmt_proof(p: &StarkProof) -> String {
    let u = &p.unsent_commitment; let w = &p.witness;
    let layers = if w.fri_witness.layers.is_empty() { "-".to_string() } else {
        w.fri_witness.layers.iter().map(|l| format!("{}|{}", hxs(&l.leaves), hxs(&l.table_witness.vector.authentications))).collect::<Vec<_>>().join(";") };
    format!("{} {} {} {} {} {} {} {} {:x} {} {} {} {} {} {} {}", fmt_cfg(&p.config), fmt_pi(&p.public_input),
        hx(&u.traces.original), hx(&u.traces.interaction), hx(&u.composition), hxs(&u.oods_values),
        hxs(&u.fri.inner_layers), hxs(&u.fri.last_layer_coefficients), u.proof_of_work.nonce,
        hxs(&w.traces_decommitment.original.values), hxs(&w.traces_decommitment.interaction.values),
        hxs(&w.traces_witness.original.vector.authentications), hxs(&w.traces_witness.interaction.vector.authentications),
        hxs(&w.composition_decommitment.values), hxs(&w.composition_witness.vector.authentications), layers)
}

pub fn verify_layout(layout: &str, p: &StarkProof, sec: Felt) -> Out {
    macro_rules! v { ($m:ident) => {
        match p.verify::<swiftness_air::layout::$m::Layout>(sec) {
            Ok((a, b)) => Out::Ok(format!("{} {}", hx(&a), hx(&b))),
            Err(e) => Out::Err(format!("{:?}", e).chars().take(300).collect()),
        } } }
    match layout {
        "recursive" => v!(recursive),
        #[cfg(feature = "all_layouts")] "dex" => v!(dex),
        #[cfg(feature = "all_layouts")] "recursive_with_poseidon" => v!(recursive_with_poseidon),
        #[cfg(feature = "all_layouts")] "small" => v!(small),
        #[cfg(feature = "all_layouts")] "starknet" => v!(starknet),
        #[cfg(feature = "all_layouts")] "starknet_with_keccak" => v!(starknet_with_keccak),
        #[cfg(feature = "all_layouts")] "dynamic" => v!(dynamic),
        _ => panic!("HX-BAD-INPUT layout {} not in this build", layout),
    }
}

/// the challenges the verifier derives (for comparison with the `V->P` lines Stone recorded)
pub fn challenges_layout(layout: &str, p: &StarkProof) -> Out {
    macro_rules! v { ($m:ident) => { {
        type L = swiftness_air::layout::$m::Layout;
        let d = swiftness_air::domains::StarkDomains::new(p.config.log_trace_domain_size, p.config.log_n_cosets);
        let digest = p.public_input.get_hash(p.config.n_verifier_friendly_commitment_layers);
        let mut t = swiftness_transcript::transcript::Transcript::new(digest);
        match swiftness_stark::commit::stark_commit::<L>(&mut t, &p.public_input, &p.unsent_commitment, &p.config, &d) {
            Err(e) => Out::Err(format!("{:?}", e).chars().take(200).collect()),
            Ok(c) => {
                let q = swiftness_stark::queries::generate_queries(&mut t, p.config.n_queries, d.eval_domain_size);
                let ie = serde_json::to_value(&c.traces.interaction_elements).unwrap();
                let mut iev: Vec<String> = ie.as_object().unwrap().values().map(|x| x.as_str().unwrap().trim_start_matches("0x").trim_start_matches('0').to_string()).collect();
                iev.sort();
                Out::Ok(format!("{} {} {} {} {} {}", hx(&digest), iev.join(","), hx(&c.interaction_after_composition),
                    hx(c.interaction_after_oods.get(1).unwrap_or(&Felt::ZERO)), hxs(&c.fri.eval_points), hxs(&q)))
            }
        } } } }
    match layout {
        "recursive" => v!(recursive),
        #[cfg(feature = "all_layouts")] "dex" => v!(dex),
        #[cfg(feature = "all_layouts")] "recursive_with_poseidon" => v!(recursive_with_poseidon),
        #[cfg(feature = "all_layouts")] "small" => v!(small),
        #[cfg(feature = "all_layouts")] "starknet" => v!(starknet),
        #[cfg(feature = "all_layouts")] "starknet_with_keccak" => v!(starknet_with_keccak),
        #[cfg(feature = "all_layouts")] "dynamic" => v!(dynamic),
        _ => panic!("HX-BAD-INPUT layout {} not in this build", layout),
    }
}

pub fn fixture_proof() -> StarkProof {
    StarkProof { config: swiftness_stark::fixtures::config::get(), public_input: swiftness_air::fixtures::public_input::get(),
        unsent_commitment: swiftness_stark::fixtures::unsent_commitment::get(), witness: swiftness_stark::fixtures::witness::get() }
}

pub fn run(op: &str, a: &[&str]) -> Option<Out> {
    Some(match op {
        // verify <layout> <sec> <proof tokens>
        "verify" => verify_layout(a[0], &parse_proof(&a[2..]), felt(a[1])),
        // verify_seq <layout> <sec> <proof A tokens> <proof B tokens>: verify A, give the SAME object every field of B, verify again.
        // The answer must be verify(B): the verdict is a function of the proof VALUE (no state survives a verification or an edit)
        "verify_seq" => {
            let mut p = parse_proof(&a[2..2 + PROOF_TOKENS]);
            let _ = verify_layout(a[0], &p, felt(a[1]));
            let q = parse_proof(&a[2 + PROOF_TOKENS..]);
            p.config = q.config; crate::ops_full::assign_pi(&mut p.public_input, q.public_input);
            p.unsent_commitment = q.unsent_commitment; p.witness = q.witness;
            verify_layout(a[0], &p, felt(a[1]))
        }
        // challenges <layout> <proof tokens> -> seed, interaction elements (sorted), oods point, oods alpha, fri eval points, queries
        "challenges" => challenges_layout(a[0], &parse_proof(&a[1..])),
        // fixture_proof -> proof tokens
        "fixture_proof" => Out::Ok(fmt_proof(&fixture_proof())),
        // security_bits <proof tokens> -> config.security_bits()
        "security_bits" => Out::Ok(hx(&parse_proof(a).config.security_bits())),
        _ => return None,
    })
}
