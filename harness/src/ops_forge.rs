//! Forgers (regression tests for C01): build a proof for a FALSE statement out of all-zero tables,
//! using only public functions of the real code.  `forge_zero <splice 0|1> <n_queries> <pow_bits>` -> proof tokens.
//! splice=1 is the original universal forgery (two junk values spliced into oods_values: the OODS check reads the
//! last two entries, the DEEP quotient reads entries [M],[M+1]); splice=0 keeps the exact length.
use crate::*;
use starknet_crypto::{poseidon_hash, poseidon_hash_many};
use swiftness_air::domains::StarkDomains;
use swiftness_air::layout::recursive::Layout;
use swiftness_air::layout::{LayoutTrait, StaticLayoutTrait};
use swiftness_commitment::table::types::{Decommitment as TD, Witness as TW};
use swiftness_commitment::vector::types::Witness as VW;
use swiftness_fri::types::{LayerWitness, UnsentCommitment as FriUnsent, Witness as FriWitness};
use swiftness_pow::pow::{verify_pow, UnsentCommitment as PowUnsent};
use swiftness_stark::{queries::generate_queries, types::*};
use swiftness_transcript::transcript::Transcript;

fn uniform_nodes(n_cols: usize, height: usize) -> Vec<Felt> {
    let leaf = if n_cols == 1 { Felt::ZERO } else { poseidon_hash_many(&vec![Felt::ZERO; n_cols]) };
    let mut u = vec![Felt::ZERO; height + 1];
    u[height] = leaf;
    for d in (0..height).rev() { u[d] = poseidon_hash(u[d + 1], u[d + 1]); }
    u
}
fn uniform_auth(u: &[Felt], height: usize, idx: &[u64]) -> Vec<Felt> {
    let mut out = vec![];
    let mut layer: Vec<u64> = idx.to_vec();
    for d in (1..=height).rev() {
        let mut next = vec![];
        let mut i = 0;
        while i < layer.len() {
            let x = layer[i];
            if x % 2 == 0 && i + 1 < layer.len() && layer[i + 1] == x + 1 { i += 2; } else { out.push(u[d]); i += 1; }
            if next.last() != Some(&(x / 2)) { next.push(x / 2); }
        }
        layer = next;
    }
    out
}
fn to_u64(f: &Felt) -> u64 { f.to_biguint().try_into().unwrap() }

pub fn forge_zero(splice: bool, n_queries: u64, pow_bits: u8) -> Result<StarkProof, String> {
    forge_zero_knobs(splice, n_queries, pow_bits, None, None, None, None)
}
/// the same forger with SHAPE knobs: how many FRI inner-layer commitments are sent, how many last-layer coefficients, how many layer
/// witnesses — everything else (transcript replay, proof of work, decommitments) stays consistent with what IS sent, so that a malformed
/// shape is carried as deep into the pipeline as the verifier lets it (a mutated honest proof dies at the proof of work instead)
pub fn forge_zero_knobs(splice: bool, n_queries: u64, pow_bits: u8, inner_sent: Option<usize>, last_len_k: Option<usize>, layers_sent: Option<usize>, comp_cols: Option<usize>) -> Result<StarkProof, String> {
    let mut pi = swiftness_air::fixtures::public_input::get();
    let n = pi.main_page.0.len();
    pi.main_page.0[n - 1].value = Felt::from(0xdeadbeefu64); // FALSE statement: a different program output
    let mut cfg = swiftness_stark::fixtures::config::get();
    cfg.proof_of_work.n_bits = pow_bits;
    cfg.n_queries = Felt::from(n_queries);
    let h = to_u64(&(cfg.log_trace_domain_size + cfg.log_n_cosets)) as usize;
    let m = <Layout as LayoutTrait>::MASK_SIZE;
    let (c1, c2) = (Layout::NUM_COLUMNS_FIRST, Layout::NUM_COLUMNS_SECOND);
    // (comp_cols: the composition table's column count is the one count config validation does not pin — a consistent table of that width
    // decommits fine and reaches the length checks of the DEEP evaluation)
    let cc = comp_cols.unwrap_or(2);
    cfg.composition.n_columns = Felt::from(cc as u64);
    let (u1, u2, u3) = (uniform_nodes(c1, h), uniform_nodes(c2, h), uniform_nodes(cc, h));
    let steps: Vec<usize> = cfg.fri.fri_step_sizes.iter().map(|s| to_u64(s) as usize).collect();
    let mut fri_u = vec![]; let mut hh = h;
    for i in 1..steps.len() { hh -= steps[i]; fri_u.push((uniform_nodes(1 << steps[i], hh), hh, steps[i])); }
    let last_len = last_len_k.unwrap_or(1usize << to_u64(&cfg.fri.log_last_layer_degree_bound));
    let build = |tail: [Felt; 2], nonce: u64| -> StarkUnsentCommitment {
        let mut oods = vec![Felt::ZERO; if splice { m + 2 } else { m }];
        oods.extend(tail);
        StarkUnsentCommitment {
            traces: swiftness_air::trace::UnsentCommitment { original: u1[0], interaction: u2[0] },
            composition: u3[0], oods_values: oods,
            fri: FriUnsent { inner_layers: fri_u.iter().take(inner_sent.unwrap_or(usize::MAX)).map(|x| x.0[0]).collect(), last_layer_coefficients: vec![Felt::ZERO; last_len] },
            proof_of_work: PowUnsent { nonce },
        }
    };
    let domains = StarkDomains::new(cfg.log_trace_domain_size, cfg.log_n_cosets);
    let digest0 = pi.get_hash(cfg.n_verifier_friendly_commitment_layers);
    // pass 1: learn C = composition value at the zero mask from the verifier's own error
    let mut t = Transcript::new(digest0);
    let e = match swiftness_stark::commit::stark_commit::<Layout>(&mut t, &pi, &build([Felt::ZERO; 2], 0), &cfg, &domains) {
        Err(e) => format!("{:?}", e), Ok(_) => return Err("zero tail accepted by the OODS check".into()) };
    let c_hex = match e.split("actual: ").nth(1) { Some(x) => x.trim_end_matches(|ch| ch == ')' || ch == '}' || ch == ' ').to_string(),
        None => return Err(format!("forger stopped early: {}", e.chars().take(120).collect::<String>())) };
    let c = Felt::from_hex(&c_hex).map_err(|_| "bad hex")?;
    // replay the transcript to mine the nonce
    let uc = build([c, Felt::ZERO], 0);
    let mut t = Transcript::new(digest0);
    t.read_felt_from_prover(&uc.traces.original); for _ in 0..6 { t.random_felt_to_prover(); }
    t.read_felt_from_prover(&uc.traces.interaction); t.random_felt_to_prover();
    t.read_felt_from_prover(&uc.composition); t.random_felt_to_prover();
    t.read_felt_vector_from_prover(&uc.oods_values); t.random_felt_to_prover();
    for r in &uc.fri.inner_layers { t.read_felt_from_prover(r); t.random_felt_to_prover(); }
    t.read_felt_vector_from_prover(&uc.fri.last_layer_coefficients);
    let d = t.digest().to_bytes_be();
    let mut nonce = 0u64; while verify_pow(d, pow_bits, nonce).is_err() { nonce += 1; }
    t.read_uint64_from_prover(nonce);
    let queries = generate_queries(&mut t, cfg.n_queries, domains.eval_domain_size);
    let mut q: Vec<u64> = queries.iter().map(to_u64).collect(); q.dedup();
    let nq = q.len();
    let tw = |u: &Vec<Felt>, hgt: usize, idx: &[u64]| TW { vector: VW { authentications: uniform_auth(u, hgt, idx) } };
    let mut layers = vec![]; let mut cur = q.clone();
    for (u, hgt, st) in &fri_u {
        let cs = 1u64 << st;
        let mut cosets: Vec<u64> = cur.iter().map(|x| x / cs).collect(); cosets.dedup();
        let n_leaves = cosets.len() * cs as usize - cur.len();
        layers.push(LayerWitness { leaves: vec![Felt::ZERO; n_leaves], table_witness: tw(u, *hgt, &cosets) });
        cur = cosets;
    }
    layers.truncate(layers_sent.unwrap_or(usize::MAX));
    Ok(StarkProof {
        config: cfg, public_input: pi, unsent_commitment: build([c, Felt::ZERO], nonce),
        witness: StarkWitness {
            traces_decommitment: swiftness_air::trace::Decommitment { original: TD { values: vec![Felt::ZERO; nq * c1] }, interaction: TD { values: vec![Felt::ZERO; nq * c2] } },
            traces_witness: swiftness_air::trace::Witness { original: tw(&u1, h, &q), interaction: tw(&u2, h, &q) },
            composition_decommitment: TD { values: vec![Felt::ZERO; nq * cc] },
            composition_witness: tw(&u3, h, &q),
            fri_witness: FriWitness { layers },
        },
    })
}

pub fn forge_zero_solve(extra_len: usize, free_off: usize, n_queries: u64, pow_bits: u8) -> Result<StarkProof, String> {
    let mut pi = swiftness_air::fixtures::public_input::get();
    let n = pi.main_page.0.len();
    pi.main_page.0[n - 1].value = Felt::from(0xdeadbeefu64); // FALSE statement: a different program output
    let mut cfg = swiftness_stark::fixtures::config::get();
    cfg.proof_of_work.n_bits = pow_bits;
    cfg.n_queries = Felt::from(n_queries);
    let h = to_u64(&(cfg.log_trace_domain_size + cfg.log_n_cosets)) as usize;
    let m = <Layout as LayoutTrait>::MASK_SIZE;
    let (c1, c2) = (Layout::NUM_COLUMNS_FIRST, Layout::NUM_COLUMNS_SECOND);
    let (u1, u2, u3) = (uniform_nodes(c1, h), uniform_nodes(c2, h), uniform_nodes(2, h));
    let steps: Vec<usize> = cfg.fri.fri_step_sizes.iter().map(|s| to_u64(s) as usize).collect();
    let mut fri_u = vec![]; let mut hh = h;
    for i in 1..steps.len() { hh -= steps[i]; fri_u.push((uniform_nodes(1 << steps[i], hh), hh, steps[i])); }
    let last_len = 1usize << to_u64(&cfg.fri.log_last_layer_degree_bound);
    let build = |t: Felt, nonce: u64| -> StarkUnsentCommitment {
        let mut oods = vec![Felt::ZERO; m + 2 + extra_len];
        oods[m + 2 + free_off] = t;
        StarkUnsentCommitment {
            traces: swiftness_air::trace::UnsentCommitment { original: u1[0], interaction: u2[0] },
            composition: u3[0], oods_values: oods,
            fri: FriUnsent { inner_layers: fri_u.iter().map(|x| x.0[0]).collect(), last_layer_coefficients: vec![Felt::ZERO; last_len] },
            proof_of_work: PowUnsent { nonce },
        }
    };
    let domains = StarkDomains::new(cfg.log_trace_domain_size, cfg.log_n_cosets);
    let digest0 = pi.get_hash(cfg.n_verifier_friendly_commitment_layers);
    // black-box affine solve: the OODS check compares two values that are affine in the free entry (everything it depends on is drawn
    // BEFORE oods_values is absorbed); two probes t = 0, 1 determine the t that makes them equal
    let probe = |t: Felt| -> Result<Option<(Felt, Felt)>, String> {
        let mut tr = Transcript::new(digest0);
        match swiftness_stark::commit::stark_commit::<Layout>(&mut tr, &pi, &build(t, 0), &cfg, &domains) {
            Ok(_) => Ok(None),
            Err(e) => {
                let e = format!("{:?}", e);
                let grab = |key: &str| -> Option<Felt> {
                    let x = e.split(key).nth(1)?; let x: String = x.chars().take_while(|ch| ch.is_ascii_hexdigit() || *ch == 'x').collect();
                    Felt::from_hex(&x).ok() };
                match (grab("expected: "), grab("actual: ")) {
                    (Some(a), Some(b)) => Ok(Some((a, b))),
                    _ => Err(format!("forger stopped early: {}", e.chars().take(120).collect::<String>())) } } } };
    let c = match (probe(Felt::ZERO)?, probe(Felt::ONE)?) {
        (None, _) => Felt::ZERO,
        (_, None) => Felt::ONE,
        (Some((e0, a0)), Some((e1, a1))) => {
            let (g0, g1) = (a0 - e0, a1 - e1);
            if g0 == g1 { return Err("forger stopped early: the free entry is not read by the OODS check".into()); }
            (Felt::ZERO - g0) * (g1 - g0).inverse().unwrap() } };
    // replay the transcript to mine the nonce
    let uc = build(c, 0);
    let mut t = Transcript::new(digest0);
    t.read_felt_from_prover(&uc.traces.original); for _ in 0..6 { t.random_felt_to_prover(); }
    t.read_felt_from_prover(&uc.traces.interaction); t.random_felt_to_prover();
    t.read_felt_from_prover(&uc.composition); t.random_felt_to_prover();
    t.read_felt_vector_from_prover(&uc.oods_values); t.random_felt_to_prover();
    for r in &uc.fri.inner_layers { t.read_felt_from_prover(r); t.random_felt_to_prover(); }
    t.read_felt_vector_from_prover(&uc.fri.last_layer_coefficients);
    let d = t.digest().to_bytes_be();
    let mut nonce = 0u64; while verify_pow(d, pow_bits, nonce).is_err() { nonce += 1; }
    t.read_uint64_from_prover(nonce);
    let queries = generate_queries(&mut t, cfg.n_queries, domains.eval_domain_size);
    let mut q: Vec<u64> = queries.iter().map(to_u64).collect(); q.dedup();
    let nq = q.len();
    let tw = |u: &Vec<Felt>, hgt: usize, idx: &[u64]| TW { vector: VW { authentications: uniform_auth(u, hgt, idx) } };
    let mut layers = vec![]; let mut cur = q.clone();
    for (u, hgt, st) in &fri_u {
        let cs = 1u64 << st;
        let mut cosets: Vec<u64> = cur.iter().map(|x| x / cs).collect(); cosets.dedup();
        let n_leaves = cosets.len() * cs as usize - cur.len();
        layers.push(LayerWitness { leaves: vec![Felt::ZERO; n_leaves], table_witness: tw(u, *hgt, &cosets) });
        cur = cosets;
    }
    Ok(StarkProof {
        config: cfg, public_input: pi, unsent_commitment: build(c, nonce),
        witness: StarkWitness {
            traces_decommitment: swiftness_air::trace::Decommitment { original: TD { values: vec![Felt::ZERO; nq * c1] }, interaction: TD { values: vec![Felt::ZERO; nq * c2] } },
            traces_witness: swiftness_air::trace::Witness { original: tw(&u1, h, &q), interaction: tw(&u2, h, &q) },
            composition_decommitment: TD { values: vec![Felt::ZERO; nq * 2] },
            composition_witness: tw(&u3, h, &q),
            fri_witness: FriWitness { layers },
        },
    })
}


// ---------------------------------------------------------------------------------------------------------------------------------
// `forge_vacuous <steps, e.g. 4,4,3> <log_n_cosets> <n_queries> <pow_bits>` -> proof tokens.
// A prover with NO trace that would win if the verifier ever ran FRI with a degree bound equal to the size of the last-layer domain:
// all-zero trace/composition columns, OODS tail = the composition value the verifier derives itself, the (non-polynomial) DEEP
// quotient folded HONESTLY by the real `fri_formula` with the given steps, and a last layer of 2^(log_eval - sum steps) coefficients
// interpolating whatever is left.  The proof body is fully consistent; its config declares exactly what was performed
// (fri_step_sizes = [0] ++ steps, last-layer bound = domain size), which `StarkConfig::validate` must refuse because the folding
// does not add up to the trace length.  tools/props/C01.py then re-declares the config in every way it can think of to get past that
// validation WITHOUT changing the body (the config is not in the stone5 Fiat-Shamir seed): none may be accepted.
fn row_hash(row: &[Felt]) -> Felt {
    const R: Felt = Felt::from_hex_unchecked("0x7FFFFFFFFFFFDF0FFFFFFFFFFFFFFFFFFFFFFFFFFFFFFFFFFFFFFFFFFFFFFE1");
    let m: Vec<Felt> = row.iter().map(|v| *v * R).collect();
    poseidon_hash_many(&m)
}
struct FullTree { nodes: Vec<Felt>, height: usize }
impl FullTree {
    fn new(values: &[Felt], n_columns: usize) -> Self {
        let n_rows = values.len() / n_columns;
        let mut nodes = vec![Felt::ZERO; 2 * n_rows];
        for r in 0..n_rows { nodes[n_rows + r] = row_hash(&values[r * n_columns..(r + 1) * n_columns]); }
        for i in (1..n_rows).rev() { nodes[i] = poseidon_hash(nodes[2 * i], nodes[2 * i + 1]); }
        Self { nodes, height: n_rows.trailing_zeros() as usize }
    }
    fn auth(&self, sorted: &[u64]) -> Vec<Felt> {
        let mut queue: std::collections::VecDeque<u64> = sorted.iter().map(|q| q + (1u64 << self.height)).collect();
        let mut out = vec![];
        while let Some(cur) = queue.pop_front() {
            if cur == 1 { break; }
            if cur % 2 == 0 && queue.front() == Some(&(cur + 1)) { queue.pop_front(); } else { out.push(self.nodes[(cur ^ 1) as usize]); }
            queue.push_back(cur / 2);
        }
        out
    }
}
fn uniform_nodes_m(n_cols: usize, height: usize) -> Vec<Felt> {
    let mut u = vec![Felt::ZERO; height + 1];
    u[height] = row_hash(&vec![Felt::ZERO; n_cols]);
    for d in (0..height).rev() { u[d] = poseidon_hash(u[d + 1], u[d + 1]); }
    u
}

pub fn forge_vacuous(steps: &[u64], log_n_cosets: u64, n_queries: u64, pow_bits: u8) -> Result<StarkProof, String> {
    forge_vacuous_mode(steps, log_n_cosets, n_queries, pow_bits, false)
}
/// `leave_out = true` (needs blow-up 2): the config is FULLY VALID (declared last-layer bound = trace length / folding, half the last
/// domain), but the last layer carries `domain - 1` coefficients interpolating the folded (non-polynomial) function on every point of the
/// last domain except one that no query hits.  Rejected by any verifier that pins the last layer to exactly 2^bound coefficients.
pub fn forge_vacuous_mode(steps: &[u64], log_n_cosets: u64, n_queries: u64, pow_bits: u8, leave_out: bool) -> Result<StarkProof, String> {
    use swiftness_commitment::{table::config::Config as TC, vector::config::Config as VC};
    let mut pi = swiftness_air::fixtures::public_input::get();
    let n = pi.main_page.0.len();
    pi.main_page.0[n - 1].value = Felt::from(0x91u64); // FALSE statement: the fixture program outputs 0x90
    let log_trace: u64 = to_u64(&swiftness_stark::fixtures::config::get().log_trace_domain_size);
    let log_eval = log_trace + log_n_cosets;
    let sum: u64 = steps.iter().sum();
    if sum > log_eval || log_eval > 22 || (leave_out && (log_n_cosets != 1 || sum == log_eval || log_eval - sum > 8)) { return Err("bad forger parameters".into()); }
    let log_last = log_eval - sum;
    let nvf = Felt::from(100u64);
    let tc = |cols: u64, h: u64| TC { n_columns: Felt::from(cols), vector: VC { height: Felt::from(h), n_verifier_friendly_commitment_layers: nvf } };
    let (c1, c2) = (Layout::NUM_COLUMNS_FIRST, Layout::NUM_COLUMNS_SECOND);
    let m = <Layout as LayoutTrait>::MASK_SIZE;
    let mut inner = vec![]; let mut h = log_eval;
    for s in steps { h -= s; inner.push(tc(1 << s, h)); }
    let mut fss = vec![Felt::ZERO]; fss.extend(steps.iter().map(|s| Felt::from(*s)));
    let cfg = swiftness_stark::config::StarkConfig {
        traces: swiftness_air::trace::config::Config { original: tc(c1 as u64, log_eval), interaction: tc(c2 as u64, log_eval) },
        composition: tc(2, log_eval),
        fri: swiftness_fri::config::Config { log_input_size: Felt::from(log_eval), n_layers: Felt::from(steps.len() as u64 + 1), inner_layers: inner,
            fri_step_sizes: fss, log_last_layer_degree_bound: Felt::from(if leave_out { log_last - 1 } else { log_last }) },
        proof_of_work: swiftness_pow::config::Config { n_bits: pow_bits },
        log_trace_domain_size: Felt::from(log_trace), n_queries: Felt::from(n_queries), log_n_cosets: Felt::from(log_n_cosets),
        n_verifier_friendly_commitment_layers: nvf,
    };
    let domains = StarkDomains::new(cfg.log_trace_domain_size, cfg.log_n_cosets);
    let hh = log_eval as usize;
    let (u1, u2, u3) = (uniform_nodes_m(c1, hh), uniform_nodes_m(c2, hh), uniform_nodes_m(2, hh));
    let mut t = Transcript::new(pi.get_hash(cfg.n_verifier_friendly_commitment_layers));
    let unsent_traces = swiftness_air::trace::UnsentCommitment { original: u1[0], interaction: u2[0] };
    let tcm = Layout::traces_commit(&mut t, &unsent_traces, cfg.traces.clone());
    let alpha = t.random_felt_to_prover();
    let pw = |a: Felt, k: usize| { let mut o = Vec::with_capacity(k); let mut v = Felt::ONE; for _ in 0..k { o.push(v); v *= a; } o };
    let tcoef = pw(alpha, <Layout as LayoutTrait>::N_CONSTRAINTS);
    t.read_felt_from_prover(&u3[0]);
    let z = t.random_felt_to_prover();
    let mask = vec![Felt::ZERO; m];
    let comp = Layout::eval_composition_polynomial(&tcm.interaction_elements, &pi, &mask, &tcoef, &z, &domains.trace_domain_size, &domains.trace_generator)
        .map_err(|e| format!("{:?}", e))?;
    let mut oods = mask.clone(); oods.push(comp); oods.push(Felt::ZERO);
    t.read_felt_vector_from_prover(&oods);
    let oa = t.random_felt_to_prover();
    let ocoef = pw(oa, m + 2);
    // DEEP quotient of the zero columns: only the first composition column's term survives
    let kappa = -(ocoef[m] * comp);
    let z2 = z * z;
    let size = 1usize << log_eval;
    let (omega, omega_inv) = (domains.eval_generator, domains.eval_generator.inverse().unwrap());
    let mut xs = vec![Felt::ZERO; size]; let mut xinv = vec![Felt::ZERO; size];
    { let (mut p, mut q) = (Felt::THREE, Felt::ONE);
      for j in 0..size as u64 { let i = (j.reverse_bits() >> (64 - log_eval)) as usize; xs[i] = p; xinv[i] = q; p *= omega; q *= omega_inv; } }
    let mut layer: Vec<Felt> = {
        let mut prefix = Vec::with_capacity(size); let mut acc = Felt::ONE;
        for x in xs.iter() { prefix.push(acc); acc *= *x - z2; }
        let mut inv = acc.inverse().ok_or("oods point in the domain")?;
        let mut out = vec![Felt::ZERO; size];
        for i in (0..size).rev() { out[i] = kappa * inv * prefix[i]; inv *= xs[i] - z2; }
        out };
    let (mut fl, mut ft, mut roots) = (vec![], vec![], vec![]);
    for s in steps {
        let cs = 1usize << s;
        let tree = FullTree::new(&layer, cs);
        t.read_felt_from_prover(&tree.nodes[1]);
        let ep = t.random_felt_to_prover();
        let nn = layer.len() / cs;
        let (mut next, mut nx) = (Vec::with_capacity(nn), Vec::with_capacity(nn));
        for r in 0..nn {
            let xi = xinv[r * cs];
            next.push(swiftness_fri::formula::fri_formula(layer[r * cs..(r + 1) * cs].to_vec(), ep, xi, Felt::from(cs as u64)).map_err(|e| format!("{:?}", e))?);
            nx.push(xi.pow(cs as u128));
        }
        roots.push(tree.nodes[1]); ft.push(tree); fl.push(layer); layer = next; xinv = nx;
    }
    let nl = layer.len();
    let nl_inv = Felt::from(nl as u64).inverse().unwrap();
    let mut last = Vec::with_capacity(nl);
    { let mut p = vec![Felt::ONE; nl];
      for _ in 0..nl { let mut acc = Felt::ZERO; for j in 0..nl { acc += layer[j] * p[j]; p[j] *= xinv[j]; } last.push(acc * nl_inv); } }
    if leave_out {
        // Lagrange interpolation through every point of the last domain but the first: nl - 1 coefficients
        let pts: Vec<Felt> = xinv.iter().skip(1).map(|v| v.inverse().unwrap()).collect();
        let vals: Vec<Felt> = layer.iter().skip(1).cloned().collect();
        let n1 = pts.len();
        let mut coef = vec![Felt::ZERO; n1];
        for a in 0..n1 {
            // numerator polynomial prod_{b != a} (X - x_b), denominator prod (x_a - x_b)
            let mut num = vec![Felt::ONE]; let mut den = Felt::ONE;
            for b in 0..n1 { if b == a { continue; }
                let mut nxt = vec![Felt::ZERO; num.len() + 1];
                for (k, c) in num.iter().enumerate() { nxt[k + 1] += *c; nxt[k] -= *c * pts[b]; }
                num = nxt; den *= pts[a] - pts[b]; }
            let sc = vals[a] * den.inverse().unwrap();
            for k in 0..n1 { coef[k] += num[k] * sc; }
        }
        last = coef;
    }
    t.read_felt_vector_from_prover(&last);
    let d = t.digest().to_bytes_be();
    let (t_dig, t_ctr) = (*t.digest(), *t.counter());
    let mut nonce = 0u64;
    let q: Vec<u64> = loop {
        while verify_pow(d, pow_bits, nonce).is_err() { nonce += 1; }
        t = Transcript::new_with_counter(t_dig, t_ctr);
        t.read_uint64_from_prover(nonce);
        let queries = generate_queries(&mut t, cfg.n_queries, domains.eval_domain_size);
        let mut q: Vec<u64> = queries.iter().map(to_u64).collect(); q.dedup();
        // (leave-one-out: no query may fold onto the point that was left out — last-layer index 0; otherwise grind another nonce)
        if !leave_out || q.iter().all(|x| (x >> sum) != 0) { break q; }
        nonce += 1;
        if nonce > (1u64 << 28) { return Err("forger stopped early: no nonce whose queries miss the left-out point".into()); }
    };
    let nq = q.len();
    let tw = |u: &Vec<Felt>, idx: &[u64]| TW { vector: VW { authentications: uniform_auth(u, hh, idx) } };
    let mut layers = vec![]; let mut cur = q.clone();
    for (i, s) in steps.iter().enumerate() {
        let cs = 1u64 << s;
        let mut cosets: Vec<u64> = cur.iter().map(|x| x / cs).collect(); cosets.dedup();
        let mut leaves = vec![];
        for c in cosets.iter() { for j in 0..cs { let idx = c * cs + j; if !cur.contains(&idx) { leaves.push(fl[i][idx as usize]); } } }
        layers.push(LayerWitness { leaves, table_witness: TW { vector: VW { authentications: ft[i].auth(&cosets) } } });
        cur = cosets;
    }
    Ok(StarkProof {
        config: cfg, public_input: pi,
        unsent_commitment: StarkUnsentCommitment { traces: unsent_traces, composition: u3[0], oods_values: oods,
            fri: FriUnsent { inner_layers: roots, last_layer_coefficients: last }, proof_of_work: PowUnsent { nonce } },
        witness: StarkWitness {
            traces_decommitment: swiftness_air::trace::Decommitment { original: TD { values: vec![Felt::ZERO; nq * c1] }, interaction: TD { values: vec![Felt::ZERO; nq * c2] } },
            traces_witness: swiftness_air::trace::Witness { original: tw(&u1, &q), interaction: tw(&u2, &q) },
            composition_decommitment: TD { values: vec![Felt::ZERO; nq * 2] },
            composition_witness: tw(&u3, &q),
            fri_witness: FriWitness { layers },
        },
    })
}

// ---------------------------------------------------------------------------------------------------------------------------------
// `forge_zero_from <layout> <proof tokens>` -> proof tokens.  The zero-trace forger for ANY layout: takes the public input and the
// config of the given proof (possibly edited by the caller), commits to all-zero tables (uniform Poseidon trees: the config must have
// n_verifier_friendly >= every height), lets the verifier's own OODS error reveal the composition value of the zero mask, mines the
// nonce and answers every query with zero rows.  Such a proof gets past the commitment phase, the proof of work and the three table
// decommitments; it is rejected by FRI (the DEEP quotient of zero columns against a non-zero claimed value is not low degree) — but
// everything BEFORE that point, in particular eval_oods_polynomial at the query points, is reached (C18: must not panic there).
fn forge_zero_generic<L: LayoutTrait + swiftness_air::layout::GenericLayoutTrait>(base: &StarkProof) -> Result<StarkProof, String> {
    let pi = &base.public_input; let cfg = &base.config;
    let h = to_u64(&(cfg.log_trace_domain_size + cfg.log_n_cosets)) as usize;
    if h > 26 { return Err("domain too large for the forger".into()); }
    let m = L::MASK_SIZE;
    let c1 = to_u64(&cfg.traces.original.n_columns) as usize; let c2 = to_u64(&cfg.traces.interaction.n_columns) as usize;
    if c1 > 4096 || c2 > 4096 { return Err("too many columns for the forger".into()); }
    let (u1, u2, u3) = (uniform_nodes_m(c1, h), uniform_nodes_m(c2, h), uniform_nodes_m(2, h));
    let steps: Vec<usize> = cfg.fri.fri_step_sizes.iter().map(|s| to_u64(s) as usize).collect();
    let mut fri_u = vec![]; let mut hh = h;
    for i in 1..steps.len() { if steps[i] > hh { return Err("steps".into()); } hh -= steps[i]; fri_u.push((uniform_nodes_m(1 << steps[i], hh), hh, steps[i])); }
    let last_len = 1usize << to_u64(&cfg.fri.log_last_layer_degree_bound).min(20);
    let build = |tail: [Felt; 2], nonce: u64| -> StarkUnsentCommitment {
        let mut oods = vec![Felt::ZERO; m]; oods.extend(tail);
        StarkUnsentCommitment {
            traces: swiftness_air::trace::UnsentCommitment { original: u1[0], interaction: u2[0] },
            composition: u3[0], oods_values: oods,
            fri: FriUnsent { inner_layers: fri_u.iter().map(|x| x.0[0]).collect(), last_layer_coefficients: vec![Felt::ZERO; last_len] },
            proof_of_work: PowUnsent { nonce },
        }
    };
    let domains = StarkDomains::new(cfg.log_trace_domain_size, cfg.log_n_cosets);
    let digest0 = pi.get_hash(cfg.n_verifier_friendly_commitment_layers);
    let mut t = Transcript::new(digest0);
    let e = match swiftness_stark::commit::stark_commit::<L>(&mut t, pi, &build([Felt::ZERO; 2], 0), cfg, &domains) {
        Err(e) => format!("{:?}", e), Ok(_) => return Err("zero tail accepted by the OODS check".into()) };
    let c_hex = match e.split("actual: ").nth(1) { Some(x) => x.trim_end_matches(|ch| ch == ')' || ch == '}' || ch == ' ').to_string(),
        None => return Err(format!("forger stopped early: {}", e.chars().take(160).collect::<String>())) };
    let c = Felt::from_hex(&c_hex).map_err(|_| "bad hex")?;
    let uc = build([c, Felt::ZERO], 0);
    let mut t = Transcript::new(digest0);
    let _ = L::traces_commit(&mut t, &uc.traces, cfg.traces.clone());
    t.random_felt_to_prover();
    t.read_felt_from_prover(&uc.composition); t.random_felt_to_prover();
    t.read_felt_vector_from_prover(&uc.oods_values); t.random_felt_to_prover();
    for r in &uc.fri.inner_layers { t.read_felt_from_prover(r); t.random_felt_to_prover(); }
    t.read_felt_vector_from_prover(&uc.fri.last_layer_coefficients);
    let d = t.digest().to_bytes_be();
    let pow_bits = cfg.proof_of_work.n_bits;
    if pow_bits > 24 { return Err("too many proof-of-work bits for the forger".into()); }
    let mut nonce = 0u64; while verify_pow(d, pow_bits, nonce).is_err() { nonce += 1; }
    t.read_uint64_from_prover(nonce);
    let queries = generate_queries(&mut t, cfg.n_queries, domains.eval_domain_size);
    let mut q: Vec<u64> = queries.iter().map(to_u64).collect(); q.dedup();
    let nq = q.len();
    let tw = |u: &Vec<Felt>, hgt: usize, idx: &[u64]| TW { vector: VW { authentications: uniform_auth(u, hgt, idx) } };
    let mut layers = vec![]; let mut cur = q.clone();
    for (u, hgt, st) in &fri_u {
        let cs = 1u64 << st;
        let mut cosets: Vec<u64> = cur.iter().map(|x| x / cs).collect(); cosets.dedup();
        let n_leaves = cosets.len() * cs as usize - cur.len();
        layers.push(LayerWitness { leaves: vec![Felt::ZERO; n_leaves], table_witness: tw(u, *hgt, &cosets) });
        cur = cosets;
    }
    Ok(StarkProof {
        config: parse_clone_cfg(cfg), public_input: parse_clone_pi(pi), unsent_commitment: build([c, Felt::ZERO], nonce),
        witness: StarkWitness {
            traces_decommitment: swiftness_air::trace::Decommitment { original: TD { values: vec![Felt::ZERO; nq * c1] }, interaction: TD { values: vec![Felt::ZERO; nq * c2] } },
            traces_witness: swiftness_air::trace::Witness { original: tw(&u1, h, &q), interaction: tw(&u2, h, &q) },
            composition_decommitment: TD { values: vec![Felt::ZERO; nq * 2] },
            composition_witness: tw(&u3, h, &q),
            fri_witness: FriWitness { layers },
        },
    })
}
// StarkConfig / PublicInput are not Clone: round-trip through the token format
fn parse_clone_cfg(c: &swiftness_stark::config::StarkConfig) -> swiftness_stark::config::StarkConfig {
    let s = crate::ops_full::fmt_cfg(c); let v: Vec<&str> = s.split(' ').collect(); crate::ops_full::parse_cfg(&v)
}
fn parse_clone_pi(p: &swiftness_air::public_memory::PublicInput) -> swiftness_air::public_memory::PublicInput {
    let s = crate::ops_full::fmt_pi(p); let v: Vec<&str> = s.split(' ').collect(); crate::ops_full::parse_pi(&v)
}

pub fn run(op: &str, a: &[&str]) -> Option<Out> {
    Some(match op {
        "forge_zero" => match forge_zero(a[0] == "1", u64h(a[1]), u64h(a[2]) as u8) {
            Ok(p) => Out::Ok(crate::ops_proof::fmt_proof(&p)), Err(e) => Out::Err(e) },
        // forge_zero_knobs <splice> <nq> <pow> <inner_sent|-> <last_len|-> <layers_sent|->
        "forge_zero_knobs" => {
            let k = |x: &str| if x == "-" { None } else { Some(u64h(x) as usize) };
            match forge_zero_knobs(a[0] == "1", u64h(a[1]), u64h(a[2]) as u8, k(a[3]), k(a[4]), k(a[5]), if a.len() > 6 { k(a[6]) } else { None }) {
                Ok(p) => Out::Ok(crate::ops_proof::fmt_proof(&p)), Err(e) => Out::Err(e) } }
        "forge_zero_solve" => match forge_zero_solve(u64h(a[0]) as usize, u64h(a[1]) as usize, u64h(a[2]), u64h(a[3]) as u8) {
            Ok(p) => Out::Ok(crate::ops_proof::fmt_proof(&p)), Err(e) => Out::Err(e) },
        "forge_zero_from" => {
            let base = crate::ops_proof::parse_proof(&a[1..]);
            let r = match a[0] {
                "recursive" => forge_zero_generic::<Layout>(&base),
                #[cfg(feature = "all_layouts")]
                "dynamic" => forge_zero_generic::<swiftness_air::layout::dynamic::Layout>(&base),
                #[cfg(feature = "all_layouts")]
                "starknet_with_keccak" => forge_zero_generic::<swiftness_air::layout::starknet_with_keccak::Layout>(&base),
                _ => Err("layout not supported by the forger".into()) };
            match r { Ok(p) => Out::Ok(crate::ops_proof::fmt_proof(&p)), Err(e) => Out::Err(e) } }
        "forge_vacuous" => {
            let steps: Vec<u64> = if a[0] == "-" { vec![] } else { a[0].split(',').map(u64h).collect() };
            match forge_vacuous_mode(&steps, u64h(a[1]), u64h(a[2]), u64h(a[3]) as u8, a.len() > 4 && a[4] == "leave-one-out") {
                Ok(p) => Out::Ok(crate::ops_proof::fmt_proof(&p)), Err(e) => Out::Err(e) } }
        _ => return None,
    })
}
