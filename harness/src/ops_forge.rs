//! Forgers (regression tests for C01): build a proof for a FALSE statement out of all-zero tables,
//! using only public functions of the real code.  `forge_zero <splice 0|1> <n_queries> <pow_bits>` -> proof tokens.
//! splice=1 is the original universal forgery (two junk values spliced into oods_values: the OODS check reads the
//! last two entries, the DEEP quotient reads entries [M],[M+1]); splice=0 keeps the exact length.
use crate::*;
use starknet_crypto::{poseidon_hash, poseidon_hash_many};
use swiftness_air::domains::StarkDomains;
use swiftness_air::layout::recursive::Layout;
use swiftness_air::layout::{LayoutTrait, StaticLayoutTrait};
use swiftness_commitment::table::types::{Decommitment as TD, Witness as TW};
use swiftness_commitment::vector::types::Witness as VW;
use swiftness_fri::types::{LayerWitness, UnsentCommitment as FriUnsent, Witness as FriWitness};
use swiftness_pow::pow::{verify_pow, UnsentCommitment as PowUnsent};
use swiftness_stark::{queries::generate_queries, types::*};
use swiftness_transcript::transcript::Transcript;

fn uniform_nodes(n_cols: usize, height: usize) -> Vec<Felt> {
    let leaf = if n_cols == 1 { Felt::ZERO } else { poseidon_hash_many(&vec![Felt::ZERO; n_cols]) };
    let mut u = vec![Felt::ZERO; height + 1];
    u[height] = leaf;
    for d in (0..height).rev() { u[d] = poseidon_hash(u[d + 1], u[d + 1]); }
    u
}
fn uniform_auth(u: &[Felt], height: usize, idx: &[u64]) -> Vec<Felt> {
    let mut out = vec![];
    let mut layer: Vec<u64> = idx.to_vec();
    for d in (1..=height).rev() {
        let mut next = vec![];
        let mut i = 0;
        while i < layer.len() {
            let x = layer[i];
            if x % 2 == 0 && i + 1 < layer.len() && layer[i + 1] == x + 1 { i += 2; } else { out.push(u[d]); i += 1; }
            if next.last() != Some(&(x / 2)) { next.push(x / 2); }
        }
        layer = next;
    }
    out
}
fn to_u64(f: &Felt) -> u64 { f.to_biguint().try_into().unwrap() }

pub fn forge_zero(splice: bool, n_queries: u64, pow_bits: u8) -> Result<StarkProof, String> {
    let mut pi = swiftness_air::fixtures::public_input::get();
    let n = pi.main_page.0.len();
    pi.main_page.0[n - 1].value = Felt::from(0xdeadbeefu64); // FALSE statement: a different program output
    let mut cfg = swiftness_stark::fixtures::config::get();
    cfg.proof_of_work.n_bits = pow_bits;
    cfg.n_queries = Felt::from(n_queries);
    let h = to_u64(&(cfg.log_trace_domain_size + cfg.log_n_cosets)) as usize;
    let m = <Layout as LayoutTrait>::MASK_SIZE;
    let (c1, c2) = (Layout::NUM_COLUMNS_FIRST, Layout::NUM_COLUMNS_SECOND);
    let (u1, u2, u3) = (uniform_nodes(c1, h), uniform_nodes(c2, h), uniform_nodes(2, h));
    let steps: Vec<usize> = cfg.fri.fri_step_sizes.iter().map(|s| to_u64(s) as usize).collect();
    let mut fri_u = vec![]; let mut hh = h;
    for i in 1..steps.len() { hh -= steps[i]; fri_u.push((uniform_nodes(1 << steps[i], hh), hh, steps[i])); }
    let last_len = 1usize << to_u64(&cfg.fri.log_last_layer_degree_bound);
    let build = |tail: [Felt; 2], nonce: u64| -> StarkUnsentCommitment {
        let mut oods = vec![Felt::ZERO; if splice { m + 2 } else { m }];
        oods.extend(tail);
        StarkUnsentCommitment {
            traces: swiftness_air::trace::UnsentCommitment { original: u1[0], interaction: u2[0] },
            composition: u3[0], oods_values: oods,
            fri: FriUnsent { inner_layers: fri_u.iter().map(|x| x.0[0]).collect(), last_layer_coefficients: vec![Felt::ZERO; last_len] },
            proof_of_work: PowUnsent { nonce },
        }
    };
    let domains = StarkDomains::new(cfg.log_trace_domain_size, cfg.log_n_cosets);
    let digest0 = pi.get_hash(cfg.n_verifier_friendly_commitment_layers);
    // pass 1: learn C = composition value at the zero mask from the verifier's own error
    let mut t = Transcript::new(digest0);
    let e = match swiftness_stark::commit::stark_commit::<Layout>(&mut t, &pi, &build([Felt::ZERO; 2], 0), &cfg, &domains) {
        Err(e) => format!("{:?}", e), Ok(_) => return Err("zero tail accepted by the OODS check".into()) };
    let c_hex = match e.split("actual: ").nth(1) { Some(x) => x.trim_end_matches(|ch| ch == ')' || ch == '}' || ch == ' ').to_string(),
        None => return Err(format!("forger stopped early: {}", e.chars().take(120).collect::<String>())) };
    let c = Felt::from_hex(&c_hex).map_err(|_| "bad hex")?;
    // replay the transcript to mine the nonce
    let uc = build([c, Felt::ZERO], 0);
    let mut t = Transcript::new(digest0);
    t.read_felt_from_prover(&uc.traces.original); for _ in 0..6 { t.random_felt_to_prover(); }
    t.read_felt_from_prover(&uc.traces.interaction); t.random_felt_to_prover();
    t.read_felt_from_prover(&uc.composition); t.random_felt_to_prover();
    t.read_felt_vector_from_prover(&uc.oods_values); t.random_felt_to_prover();
    for r in &uc.fri.inner_layers { t.read_felt_from_prover(r); t.random_felt_to_prover(); }
    t.read_felt_vector_from_prover(&uc.fri.last_layer_coefficients);
    let d = t.digest().to_bytes_be();
    let mut nonce = 0u64; while verify_pow(d, pow_bits, nonce).is_err() { nonce += 1; }
    t.read_uint64_from_prover(nonce);
    let queries = generate_queries(&mut t, cfg.n_queries, domains.eval_domain_size);
    let mut q: Vec<u64> = queries.iter().map(to_u64).collect(); q.dedup();
    let nq = q.len();
    let tw = |u: &Vec<Felt>, hgt: usize, idx: &[u64]| TW { vector: VW { authentications: uniform_auth(u, hgt, idx) } };
    let mut layers = vec![]; let mut cur = q.clone();
    for (u, hgt, st) in &fri_u {
        let cs = 1u64 << st;
        let mut cosets: Vec<u64> = cur.iter().map(|x| x / cs).collect(); cosets.dedup();
        let n_leaves = cosets.len() * cs as usize - cur.len();
        layers.push(LayerWitness { leaves: vec![Felt::ZERO; n_leaves], table_witness: tw(u, *hgt, &cosets) });
        cur = cosets;
    }
    Ok(StarkProof {
        config: cfg, public_input: pi, unsent_commitment: build([c, Felt::ZERO], nonce),
        witness: StarkWitness {
            traces_decommitment: swiftness_air::trace::Decommitment { original: TD { values: vec![Felt::ZERO; nq * c1] }, interaction: TD { values: vec![Felt::ZERO; nq * c2] } },
            traces_witness: swiftness_air::trace::Witness { original: tw(&u1, h, &q), interaction: tw(&u2, h, &q) },
            composition_decommitment: TD { values: vec![Felt::ZERO; nq * 2] },
            composition_witness: tw(&u3, h, &q),
            fri_witness: FriWitness { layers },
        },
    })
}

pub fn run(op: &str, a: &[&str]) -> Option<Out> {
    Some(match op {
        "forge_zero" => match forge_zero(a[0] == "1", u64h(a[1]), u64h(a[2]) as u8) {
            Ok(p) => Out::Ok(crate::ops_proof::fmt_proof(&p)), Err(e) => Out::Err(e) },
        _ => return None,
    })
}
