//! `hx` — line-protocol peer that runs the REAL swiftness code in-process.
//! One case per stdin line: `<op> <arg> <arg> ...`; one answer per line:
//! `ok <values>` | `err` | `panic <file:line>`.
//! Felts are minimal lowercase hex without `0x`; lists are comma separated, `-` = empty list.
use std::cell::RefCell;
use std::io::{BufRead, Write};
use std::panic::{catch_unwind, AssertUnwindSafe};

use starknet_crypto::Felt;

mod ops_core;
#[cfg(feature = "full")]
mod ops_full;
#[cfg(feature = "full")]
mod ops_layout;
#[cfg(feature = "full")]
mod ops_proof;
#[cfg(feature = "full")]
mod ops_forge;
#[cfg(feature = "parser")]
mod ops_parser;

thread_local! { static LAST_PANIC: RefCell<String> = RefCell::new(String::new()); }

pub fn felt(s: &str) -> Felt {
    Felt::from_hex(&format!("0x{}", s)).unwrap_or_else(|_| panic!("HX-BAD-INPUT felt {}", s))
}
pub fn felts(s: &str) -> Vec<Felt> {
    if s == "-" { vec![] } else { s.split(',').map(felt).collect() }
}
pub fn u64h(s: &str) -> u64 {
    u64::from_str_radix(s, 16).unwrap_or_else(|_| panic!("HX-BAD-INPUT u64 {}", s))
}
pub fn usz(s: &str) -> usize { u64h(s) as usize }
pub fn bytes(s: &str) -> Vec<u8> {
    if s == "-" { return vec![]; }
    (0..s.len() / 2).map(|i| u8::from_str_radix(&s[2 * i..2 * i + 2], 16).unwrap()).collect()
}
pub fn hx(f: &Felt) -> String { format!("{:x}", f) }
pub fn hxs(fs: &[Felt]) -> String {
    if fs.is_empty() { "-".to_string() } else { fs.iter().map(hx).collect::<Vec<_>>().join(",") }
}
pub fn hexbytes(b: &[u8]) -> String {
    if b.is_empty() { "-".into() } else { b.iter().map(|x| format!("{:02x}", x)).collect() }
}

/// Outcome of a case.
pub enum Out { Ok(String), Err(String) }

fn vm_hwm_kb() -> u64 {
    std::fs::read_to_string("/proc/self/status").ok().and_then(|s| s.lines().find(|l| l.starts_with("VmHWM:"))
        .and_then(|l| l.split_whitespace().nth(1).and_then(|x| x.parse().ok()))).unwrap_or(0)
}

fn dispatch(op: &str, a: &[&str]) -> Out {
    // timed <op> <args..> : wall time (microseconds), peak RSS (kB) and outcome class of the wrapped op
    if op == "timed" {
        let t0 = std::time::Instant::now();
        let r = catch_unwind(AssertUnwindSafe(|| dispatch(a[0], &a[1..])));
        let cls = match r { Ok(Out::Ok(_)) => "ok", Ok(Out::Err(_)) => "err", Err(_) => "panic" };
        return Out::Ok(format!("{} {} {}", t0.elapsed().as_micros(), vm_hwm_kb(), cls));
    }
    if let Some(o) = ops_core::run(op, a) { return o; }
    #[cfg(feature = "full")]
    if let Some(o) = ops_full::run(op, a) { return o; }
    #[cfg(feature = "full")]
    if let Some(o) = ops_layout::run(op, a) { return o; }
    #[cfg(feature = "full")]
    if let Some(o) = ops_proof::run(op, a) { return o; }
    #[cfg(feature = "full")]
    if let Some(o) = ops_forge::run(op, a) { return o; }
    #[cfg(feature = "parser")]
    if let Some(o) = ops_parser::run(op, a) { return o; }
    panic!("HX-BAD-INPUT unknown op {}", op)
}

fn main() {
    std::panic::set_hook(Box::new(|info| {
        let loc = info.location().map(|l| format!("{}:{}", l.file(), l.line())).unwrap_or_default();
        let msg = if let Some(s) = info.payload().downcast_ref::<&str>() { s.to_string() }
            else if let Some(s) = info.payload().downcast_ref::<String>() { s.clone() } else { String::new() };
        LAST_PANIC.with(|p| *p.borrow_mut() = format!("{} {}", loc, msg.replace('\n', " ")));
    }));
    let stdin = std::io::stdin();
    let stdout = std::io::stdout();
    let mut out = std::io::BufWriter::new(stdout.lock());
    for line in stdin.lock().lines() {
        let line = line.unwrap();
        let line = line.trim();
        if line.is_empty() || line.starts_with('#') { writeln!(out, "{}", line).unwrap(); continue; }
        let toks: Vec<&str> = line.split(' ').collect();
        let r = catch_unwind(AssertUnwindSafe(|| dispatch(toks[0], &toks[1..])));
        match r {
            Ok(Out::Ok(s)) => writeln!(out, "ok {}", s).unwrap(),
            Ok(Out::Err(e)) => writeln!(out, "err {}", e.replace('\n', " ")).unwrap(),
            Err(_) => {
                let p = LAST_PANIC.with(|p| p.borrow().clone());
                if p.contains("HX-BAD-INPUT") { writeln!(out, "badinput {}", p).unwrap() }
                else { writeln!(out, "panic {}", p).unwrap() }
            }
        }
        out.flush().unwrap();
    }
}
