//! ops that need only transcript / pow / commitment / fri crates.
use crate::*;
use starknet_crypto::{pedersen_hash, poseidon_hash, poseidon_hash_many};
use swiftness_commitment::{table, vector};
use swiftness_transcript::transcript::Transcript;

fn r<T, E: std::fmt::Debug>(x: Result<T, E>, f: impl FnOnce(T) -> String) -> Out {
    match x { Ok(v) => Out::Ok(f(v)), Err(e) => Out::Err(format!("{:?}", e)) }
}

pub fn rows(s: &str) -> Vec<Vec<Felt>> {
    if s == "-" { return vec![]; }
    s.split(';').map(|r| r.split(':').map(felt).collect()).collect()
}
fn tcfg(r: &[Felt]) -> table::config::Config {
    if r.len() != 3 { panic!("HX-BAD-INPUT tcfg") }
    table::config::Config { n_columns: r[0], vector: vector::config::Config { height: r[1], n_verifier_friendly_commitment_layers: r[2] } }
}
pub fn fri_cfg(lis: &str, nl: &str, last: &str, steps: &str, inner: &str) -> swiftness_fri::config::Config {
    swiftness_fri::config::Config { log_input_size: felt(lis), n_layers: felt(nl), log_last_layer_degree_bound: felt(last),
        fri_step_sizes: felts(steps), inner_layers: rows(inner).iter().map(|r| tcfg(r)).collect() }
}
pub fn fri_witness(s: &str) -> swiftness_fri::types::Witness {
    let layers = if s == "-" { vec![] } else { s.split(';').map(|l| {
        let (a, b) = l.split_once('|').unwrap_or_else(|| panic!("HX-BAD-INPUT fri witness"));
        swiftness_fri::types::LayerWitness { leaves: felts(a),
            table_witness: table::types::Witness { vector: vector::types::Witness { authentications: felts(b) } } }
    }).collect() };
    swiftness_fri::types::Witness { layers }
}

pub fn run(op: &str, a: &[&str]) -> Option<Out> {
    Some(match op {
        // ---- hash primitives -------------------------------------------------------------
        "poseidon2" => Out::Ok(hx(&poseidon_hash(felt(a[0]), felt(a[1])))),
        "poseidonmany" => Out::Ok(hx(&poseidon_hash_many(&felts(a[0])))),
        "pedersen" => Out::Ok(hx(&pedersen_hash(&felt(a[0]), &felt(a[1])))),
        // ---- felt semantics --------------------------------------------------------------
        "felt_frombytes" => Out::Ok(hx(&Felt::from_bytes_be_slice(&bytes(a[0])))),
        "felt_tobytes" => Out::Ok(hexbytes(&felt(a[0]).to_bytes_be())),
        "felt_pow" => Out::Ok(hx(&felt(a[0]).pow_felt(&felt(a[1])))),
        "felt_div" => {
            let d = starknet_core::types::NonZeroFelt::from_felt_unchecked(felt(a[1]));
            Out::Ok(hx(&felt(a[0]).field_div(&d)))
        }
        "felt_divrem" => {
            let d = starknet_core::types::NonZeroFelt::from_felt_unchecked(felt(a[1]));
            let (q, m) = felt(a[0]).div_rem(&d);
            Out::Ok(format!("{} {}", hx(&q), hx(&m)))
        }
        "felt_lt" => Out::Ok(format!("{}", (felt(a[0]) < felt(a[1])) as u8)),
        // ---- transcript --------------------------------------------------------------------
        // transcript <digest> <counter> <op>... ; ops: f:<felt> v:<list> u:<u64> r
        "transcript" => {
            let mut t = Transcript::new_with_counter(felt(a[0]), felt(a[1]));
            let mut outs = vec![];
            for o in &a[2..] {
                if *o == "r" { outs.push(t.random_felt_to_prover()); }
                else if let Some(x) = o.strip_prefix("R:") { outs.extend(t.random_felts_to_prover(felt(x))); }
                else if let Some(x) = o.strip_prefix("f:") { t.read_felt_from_prover(&felt(x)); }
                else if let Some(x) = o.strip_prefix("v:") { t.read_felt_vector_from_prover(&felts(x)); }
                else if let Some(x) = o.strip_prefix("u:") { t.read_uint64_from_prover(u64h(x)); }
                // a commitment message sent through the commitment crate's own entry points: `c:<root>:<height>:<n_friendly>` =
                // vector_commit, `t:<root>:<n_columns>:<height>:<n_friendly>` = table_commit.  The stored commitment must be the message
                // as sent; if it is not, it is appended to the outputs (so that model and oracle see the difference)
                else if let Some(x) = o.strip_prefix("c:") {
                    let f: Vec<&str> = x.split(':').collect();
                    let c = vector::commit::vector_commit(&mut t, felt(f[0]), vector::config::Config { height: felt(f[1]), n_verifier_friendly_commitment_layers: felt(f[2]) });
                    if c.commitment_hash != felt(f[0]) { outs.push(c.commitment_hash); } }
                else if let Some(x) = o.strip_prefix("t:") {
                    let f: Vec<&str> = x.split(':').collect();
                    let c = swiftness_commitment::table::commit::table_commit(&mut t, felt(f[0]), swiftness_commitment::table::config::Config { n_columns: felt(f[1]),
                        vector: vector::config::Config { height: felt(f[2]), n_verifier_friendly_commitment_layers: felt(f[3]) } });
                    if c.vector_commitment.commitment_hash != felt(f[0]) { outs.push(c.vector_commitment.commitment_hash); } }
                else { panic!("HX-BAD-INPUT transcript op {}", o) }
            }
            Out::Ok(format!("{} {} {}", hxs(&outs), hx(t.digest()), hx(t.counter())))
        }
        // ---- proof of work -------------------------------------------------------------------
        // pow <digest 32 bytes hex> <n_bits hex u8> <nonce hex u64>
        "pow" => {
            let d: [u8; 32] = bytes(a[0]).try_into().unwrap_or_else(|_| panic!("HX-BAD-INPUT digest"));
            r(swiftness_pow::pow::verify_pow(d, u64h(a[1]) as u8, u64h(a[2])), |_| String::new())
        }
        "powcfg" => r(swiftness_pow::config::Config { n_bits: u64h(a[0]) as u8 }.validate(), |_| String::new()),
        // powcommit <digest felt> <counter> <n_bits> <nonce>  -> digest' counter'
        "powcommit" => {
            let mut t = Transcript::new_with_counter(felt(a[0]), felt(a[1]));
            let cfg = swiftness_pow::config::Config { n_bits: u64h(a[2]) as u8 };
            let uc = swiftness_pow::pow::UnsentCommitment { nonce: u64h(a[3]) };
            r(uc.commit(&mut t, &cfg), |_| format!("{} {}", hx(t.digest()), hx(t.counter())))
        }
        // powmine <digest bytes> <n_bits> <start nonce> : smallest accepted nonce >= start (harness utility)
        "powmine" => {
            let d: [u8; 32] = bytes(a[0]).try_into().unwrap();
            let nb = u64h(a[1]) as u8;
            let mut n = u64h(a[2]);
            while swiftness_pow::pow::verify_pow(d, nb, n).is_err() { n += 1; }
            Out::Ok(format!("{:x}", n))
        }
        // ---- vector / table decommitment -----------------------------------------------------
        // vdecommit <root> <height> <n_friendly> <idx list> <val list> <auth list>
        "vdecommit" => {
            let c = vector::types::Commitment {
                config: vector::config::Config { height: felt(a[1]), n_verifier_friendly_commitment_layers: felt(a[2]) },
                commitment_hash: felt(a[0]),
            };
            let idx = felts(a[3]); let val = felts(a[4]);
            if idx.len() != val.len() { panic!("HX-BAD-INPUT idx/val") }
            let q: Vec<vector::types::Query> = idx.iter().zip(val.iter())
                .map(|(i, v)| vector::types::Query { index: *i, value: *v }).collect();
            let w = vector::types::Witness { authentications: felts(a[5]) };
            r(vector::decommit::vector_commitment_decommit(c, &q, w), |_| String::new())
        }
        // tdecommit <root> <n_columns> <height> <n_friendly> <query list> <value list> <auth list>
        "tdecommit" => {
            let c = table::types::Commitment {
                config: table::config::Config {
                    n_columns: felt(a[1]),
                    vector: vector::config::Config { height: felt(a[2]), n_verifier_friendly_commitment_layers: felt(a[3]) },
                },
                vector_commitment: vector::types::Commitment {
                    config: vector::config::Config { height: felt(a[2]), n_verifier_friendly_commitment_layers: felt(a[3]) },
                    commitment_hash: felt(a[0]),
                },
            };
            let d = table::types::Decommitment { values: felts(a[5]) };
            let w = table::types::Witness { vector: vector::types::Witness { authentications: felts(a[6]) } };
            r(table::decommit::table_decommit(c, &felts(a[4]), d, w), |_| String::new())
        }
        // fri <digest> <counter> <lis> <nlayers> <last> <steps> <inner> <roots> <lastcoefs> <queries> <values> <points> <witness>
        "fri" => {
            let mut t = Transcript::new_with_counter(felt(a[0]), felt(a[1]));
            let cfg = fri_cfg(a[2], a[3], a[4], a[5], a[6]);
            let uc = swiftness_fri::types::UnsentCommitment { inner_layers: felts(a[7]), last_layer_coefficients: felts(a[8]) };
            let c = swiftness_fri::fri::fri_commit(&mut t, uc, cfg);
            let d = swiftness_fri::types::Decommitment { values: felts(a[10]), points: felts(a[11]) };
            r(swiftness_fri::fri::fri_verify(&felts(a[9]), c, d, fri_witness(a[12])), |_| format!("{} {}", hx(t.digest()), hx(t.counter())))
        }
        // fri_formula <values> <eval_point> <x_inv> <coset_size>
        "fri_formula" => r(swiftness_fri::formula::fri_formula(felts(a[0]), felt(a[1]), felt(a[2]), felt(a[3])), |v| hx(&v)),
        // next_layer <q idx> <q y> <q xinv> <siblings> <coset_size> <eval_point>
        "next_layer" => {
            let (qi, qy, qx) = (felts(a[0]), felts(a[1]), felts(a[2]));
            if qi.len() != qy.len() || qi.len() != qx.len() { panic!("HX-BAD-INPUT next_layer") }
            let mut qs: Vec<swiftness_fri::layer::FriLayerQuery> = (0..qi.len())
                .map(|i| swiftness_fri::layer::FriLayerQuery { index: qi[i], y_value: qy[i], x_inv_value: qx[i] }).collect();
            let mut sibs = felts(a[3]);
            let params = swiftness_fri::layer::FriLayerComputationParams { coset_size: felt(a[4]),
                fri_group: swiftness_fri::group::get_fri_group(), eval_point: felt(a[5]) };
            r(swiftness_fri::layer::compute_next_layer(&mut qs, &mut sibs, params), |(nq, vi, vy)| format!("{} {} {} {} {}",
                hxs(&nq.iter().map(|q| q.index).collect::<Vec<_>>()), hxs(&nq.iter().map(|q| q.y_value).collect::<Vec<_>>()),
                hxs(&nq.iter().map(|q| q.x_inv_value).collect::<Vec<_>>()), hxs(&vi), hxs(&vy)))
        }
        // last_layer <q y> <q xinv> <coefficients>
        "last_layer" => {
            let (qy, qx) = (felts(a[0]), felts(a[1]));
            if qy.len() != qx.len() { panic!("HX-BAD-INPUT last_layer") }
            let qs: Vec<swiftness_fri::layer::FriLayerQuery> = (0..qy.len())
                .map(|i| swiftness_fri::layer::FriLayerQuery { index: Felt::ZERO, y_value: qy[i], x_inv_value: qx[i] }).collect();
            r(swiftness_fri::last_layer::verify_last_layer(qs, felts(a[2])), |_| String::new())
        }
        // vcfg <height> <nf> <expected height> <expected nf>
        "vcfg" => r(vector::config::Config { height: felt(a[0]), n_verifier_friendly_commitment_layers: felt(a[1]) }
            .validate(felt(a[2]), felt(a[3])), |_| String::new()),
        _ => return None,
    })
}
