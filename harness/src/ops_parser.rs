//! ops that run the REAL proof_parser (compiled from /repo/proof_parser/src) and the REAL cli conversion
//! (/repo/cli/src/transform.rs, included by path).
use crate::*;
#[path = "/repo/cli/src/transform.rs"]
pub mod transform;
use transform::TransformTo;

pub fn load(path: &str) -> Result<swiftness_stark::types::StarkProof, String> {
    let s = std::fs::read_to_string(path).map_err(|e| format!("io {}", e))?;
    let p = swiftness_proof_parser::parse(s).map_err(|e| format!("parse {:?}", e).chars().take(300).collect::<String>())?;
    Ok(p.transform_to())
}

pub fn run(op: &str, a: &[&str]) -> Option<Out> {
    Some(match op {
        // parsefile <path> -> proof tokens (parser + CLI conversion)
        "parsefile" => match load(a[0]) { Ok(p) => Out::Ok(crate::ops_proof::fmt_proof(&p)), Err(e) => Out::Err(e) },
        // verifyfile <layout> <path> : what the CLI does
        "verifyfile" => match load(a[1]) {
            Ok(p) => { let sec = p.config.security_bits(); crate::ops_proof::verify_layout(a[0], &p, sec) }
            Err(e) => Out::Err(e),
        },
        // roundtrip <layout> <path> : serialise/deserialise the verifier-side proof, compare value and verdict
        "roundtrip" => match load(a[1]) {
            Ok(p) => {
                let js = serde_json::to_string(&p).unwrap();
                let q: swiftness_stark::types::StarkProof = match serde_json::from_str(&js) { Ok(q) => q, Err(e) => return Some(Out::Err(format!("deserialize {}", e))) };
                let sec = p.config.security_bits();
                let v1 = match crate::ops_proof::verify_layout(a[0], &p, sec) { Out::Ok(s) => format!("ok:{}", s.replace(' ', ":")), Out::Err(_) => "err".into() };
                let v2 = match crate::ops_proof::verify_layout(a[0], &q, sec) { Out::Ok(s) => format!("ok:{}", s.replace(' ', ":")), Out::Err(_) => "err".into() };
                Out::Ok(format!("{} {} {}", (p == q) as u8, v1, v2))
            }
            Err(e) => Out::Err(e),
        },
        _ => return None,
    })
}
