//! ops that need the air / stark crates.
use crate::*;
use swiftness_air::domains::StarkDomains;
use swiftness_air::public_memory::PublicInput;
use swiftness_air::types::{AddrValue, ContinuousPageHeader, Page, SegmentInfo};
use swiftness_transcript::transcript::Transcript;

#[allow(dead_code)]
fn r<T, E: std::fmt::Debug>(x: Result<T, E>, f: impl FnOnce(T) -> String) -> Out {
    match x { Ok(v) => Out::Ok(f(v)), Err(e) => Out::Err(format!("{:?}", e)) }
}

/// split `a:b;c:d` into rows of felts (`-` = none)
pub fn rows(s: &str) -> Vec<Vec<Felt>> {
    if s == "-" { return vec![]; }
    s.split(';').map(|r| r.split(':').map(felt).collect()).collect()
}
pub fn fmt_rows(r: &[Vec<Felt>]) -> String {
    if r.is_empty() { "-".into() } else { r.iter().map(|x| x.iter().map(hx).collect::<Vec<_>>().join(":")).collect::<Vec<_>>().join(";") }
}

/// PublicInput = 10 tokens: log_n_steps rc_min rc_max layout dyn(-|usize list) segments(b:s;..) pad_addr pad_val main_page(a:v;..) headers(start:size:hash:prod;..)
pub const PI_TOKENS: usize = 10;
pub fn parse_pi(a: &[&str]) -> PublicInput {
    let dynamic_params = if a[4] == "-" { None } else {
        let v: Vec<usize> = a[4].split(',').map(usz).collect();
        if v.len() != 340 { panic!("HX-BAD-INPUT dynamic params length") }
        Some(swiftness_air::dynamic::DynamicParams::from(v))
    };
    // field-by-field assignment on a base value, not a struct literal: a field added to the struct (a cache, a memo) neither breaks the
    // harness nor is reset by it
    let mut p = swiftness_air::fixtures::public_input::get();
    p.log_n_steps = felt(a[0]); p.range_check_min = felt(a[1]); p.range_check_max = felt(a[2]); p.layout = felt(a[3]);
    p.dynamic_params = dynamic_params;
    p.segments = rows(a[5]).iter().map(|r| SegmentInfo { begin_addr: r[0], stop_ptr: r[1] }).collect();
    p.padding_addr = felt(a[6]); p.padding_value = felt(a[7]);
    p.main_page = Page(rows(a[8]).iter().map(|r| AddrValue { address: r[0], value: r[1] }).collect());
    p.continuous_page_headers = rows(a[9]).iter().map(|r| ContinuousPageHeader { start_address: r[0], size: r[1], hash: r[2], prod: r[3] }).collect();
    p
}
/// overwrite every (public) field of `p` with `q`'s, keeping the OBJECT: whatever else the object carries (caches) stays
pub fn assign_pi(p: &mut PublicInput, q: PublicInput) {
    p.log_n_steps = q.log_n_steps; p.range_check_min = q.range_check_min; p.range_check_max = q.range_check_max; p.layout = q.layout;
    p.dynamic_params = q.dynamic_params; p.segments = q.segments; p.padding_addr = q.padding_addr; p.padding_value = q.padding_value;
    p.main_page = q.main_page; p.continuous_page_headers = q.continuous_page_headers;
}
pub fn fmt_pi(p: &PublicInput) -> String {
    let dynp = match &p.dynamic_params { None => "-".to_string(), Some(d) => { let v: Vec<usize> = d.clone().into(); v.iter().map(|x| format!("{:x}", x)).collect::<Vec<_>>().join(",") } };
    format!("{} {} {} {} {} {} {} {} {} {}", hx(&p.log_n_steps), hx(&p.range_check_min), hx(&p.range_check_max), hx(&p.layout), dynp,
        fmt_rows(&p.segments.iter().map(|s| vec![s.begin_addr, s.stop_ptr]).collect::<Vec<_>>()),
        hx(&p.padding_addr), hx(&p.padding_value),
        fmt_rows(&p.main_page.0.iter().map(|c| vec![c.address, c.value]).collect::<Vec<_>>()),
        fmt_rows(&p.continuous_page_headers.iter().map(|h| vec![h.start_address, h.size, h.hash, h.prod]).collect::<Vec<_>>()))
}

fn tcfg(r: &[Felt]) -> swiftness_commitment::table::config::Config {
    swiftness_commitment::table::config::Config { n_columns: r[0],
        vector: swiftness_commitment::vector::config::Config { height: r[1], n_verifier_friendly_commitment_layers: r[2] } }
}
fn fmt_tcfg(c: &swiftness_commitment::table::config::Config) -> Vec<Felt> {
    vec![c.n_columns, c.vector.height, c.vector.n_verifier_friendly_commitment_layers]
}
/// StarkConfig = 13 tokens: t c nq nf pow orig inter comp fri.lis fri.nlayers fri.last steps inner
pub const CFG_TOKENS: usize = 13;
pub fn parse_cfg(a: &[&str]) -> swiftness_stark::config::StarkConfig {
    let one = |s: &str| { let r = rows(s); if r.len() != 1 || r[0].len() != 3 { panic!("HX-BAD-INPUT tcfg") } tcfg(&r[0]) };
    let mut c = swiftness_stark::fixtures::config::get();
    c.traces.original = one(a[5]); c.traces.interaction = one(a[6]);
    c.composition = one(a[7]);
    c.fri.log_input_size = felt(a[8]); c.fri.n_layers = felt(a[9]); c.fri.log_last_layer_degree_bound = felt(a[10]);
    c.fri.fri_step_sizes = felts(a[11]); c.fri.inner_layers = rows(a[12]).iter().map(|r| tcfg(r)).collect();
    c.proof_of_work.n_bits = u64h(a[4]) as u8;
    c.log_trace_domain_size = felt(a[0]); c.log_n_cosets = felt(a[1]); c.n_queries = felt(a[2]);
    c.n_verifier_friendly_commitment_layers = felt(a[3]);
    c
}
pub fn fmt_cfg(c: &swiftness_stark::config::StarkConfig) -> String {
    format!("{} {} {} {} {:x} {} {} {} {} {} {} {} {}", hx(&c.log_trace_domain_size), hx(&c.log_n_cosets), hx(&c.n_queries),
        hx(&c.n_verifier_friendly_commitment_layers), c.proof_of_work.n_bits,
        fmt_rows(&[fmt_tcfg(&c.traces.original)]), fmt_rows(&[fmt_tcfg(&c.traces.interaction)]), fmt_rows(&[fmt_tcfg(&c.composition)]),
        hx(&c.fri.log_input_size), hx(&c.fri.n_layers), hx(&c.fri.log_last_layer_degree_bound), hxs(&c.fri.fri_step_sizes),
        fmt_rows(&c.fri.inner_layers.iter().map(fmt_tcfg).collect::<Vec<_>>()))
}

pub fn run(op: &str, a: &[&str]) -> Option<Out> {
    Some(match op {
        // domains <log_trace> <log_n_cosets>
        "domains" => {
            let d = StarkDomains::new(felt(a[0]), felt(a[1]));
            Out::Ok(format!("{} {} {} {} {} {}", hx(&d.log_eval_domain_size), hx(&d.eval_domain_size), hx(&d.eval_generator),
                hx(&d.log_trace_domain_size), hx(&d.trace_domain_size), hx(&d.trace_generator)))
        }
        // queries <digest> <counter> <n_samples> <upper_bound> -> list digest' counter'
        "queries" => {
            let mut t = Transcript::new_with_counter(felt(a[0]), felt(a[1]));
            let q = swiftness_stark::queries::generate_queries(&mut t, felt(a[2]), felt(a[3]));
            Out::Ok(format!("{} {} {}", hxs(&q), hx(t.digest()), hx(t.counter())))
        }
        // points <log_trace> <log_n_cosets> <query list>
        "points" => {
            let d = StarkDomains::new(felt(a[0]), felt(a[1]));
            Out::Ok(hxs(&swiftness_stark::queries::queries_to_points(&felts(a[2]), &d)))
        }
        // diluted <n_bits> <spacing> <z> <alpha>
        "diluted" => Out::Ok(hx(&swiftness_air::diluted::get_diluted_product(felt(a[0]), felt(a[1]), felt(a[2]), felt(a[3])))),
        // memratio <PI x10> <z> <alpha> <size>
        "memratio" => {
            let pi = parse_pi(&a[0..PI_TOKENS]);
            match pi.get_public_memory_product_ratio(felt(a[10]), felt(a[11]), felt(a[12])) {
                Some(v) => Out::Ok(hx(&v)),
                None => Out::Err("None".into()),
            }
        }
        // pihash <PI x10> <n_verifier_friendly_commitment_layers>
        "pihash" => {
            let pi = parse_pi(&a[0..PI_TOKENS]);
            Out::Ok(hx(&pi.get_hash(felt(a[10]))))
        }
        // pihash_seq <PI x10> <PI x10> <nf>: get_hash of the first input, then the SAME object is given every field of the second input
        // and hashed again: the answer must be the hash of the second input (the digest is a function of the value, not of the history)
        "pihash_seq" => {
            let mut pi = parse_pi(&a[0..PI_TOKENS]);
            let _ = pi.get_hash(felt(a[2 * PI_TOKENS]));
            assign_pi(&mut pi, parse_pi(&a[PI_TOKENS..2 * PI_TOKENS]));
            Out::Ok(hx(&pi.get_hash(felt(a[2 * PI_TOKENS]))))
        }
        // starkcfg <sec> <nc1> <nc2> <CFG x13>
        "starkcfg" => r(parse_cfg(&a[3..3 + CFG_TOKENS]).validate(felt(a[0]), felt(a[1]), felt(a[2])), |_| String::new()),
        // fricfg <log_n_cosets> <nf> <lis> <nlayers> <last> <steps> <inner>
        "fricfg" => {
            let c = swiftness_fri::config::Config { log_input_size: felt(a[2]), n_layers: felt(a[3]), log_last_layer_degree_bound: felt(a[4]),
                fri_step_sizes: felts(a[5]), inner_layers: rows(a[6]).iter().map(|r| tcfg(r)).collect() };
            r(c.validate(felt(a[0]), felt(a[1])), |d| hx(&d))
        }
        "fixture_cfg" => Out::Ok(fmt_cfg(&swiftness_stark::fixtures::config::get())),
        // fixture_pi : the in-tree fixture public input in line format
        "fixture_pi" => Out::Ok(fmt_pi(&swiftness_air::fixtures::public_input::get())),
        _ => return None,
    })
}
