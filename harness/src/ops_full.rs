//! ops that need the air / stark crates.
use crate::*;
use swiftness_air::domains::StarkDomains;
use swiftness_transcript::transcript::Transcript;

#[allow(dead_code)]
fn r<T, E: std::fmt::Debug>(x: Result<T, E>, f: impl FnOnce(T) -> String) -> Out {
    match x { Ok(v) => Out::Ok(f(v)), Err(e) => Out::Err(format!("{:?}", e)) }
}

pub fn run(op: &str, a: &[&str]) -> Option<Out> {
    Some(match op {
        // domains <log_trace> <log_n_cosets>
        "domains" => {
            let d = StarkDomains::new(felt(a[0]), felt(a[1]));
            Out::Ok(format!("{} {} {} {} {} {}", hx(&d.log_eval_domain_size), hx(&d.eval_domain_size), hx(&d.eval_generator),
                hx(&d.log_trace_domain_size), hx(&d.trace_domain_size), hx(&d.trace_generator)))
        }
        // queries <digest> <counter> <n_samples> <upper_bound> -> list digest' counter'
        "queries" => {
            let mut t = Transcript::new_with_counter(felt(a[0]), felt(a[1]));
            let q = swiftness_stark::queries::generate_queries(&mut t, felt(a[2]), felt(a[3]));
            Out::Ok(format!("{} {} {}", hxs(&q), hx(t.digest()), hx(t.counter())))
        }
        // points <log_trace> <log_n_cosets> <query list>
        "points" => {
            let d = StarkDomains::new(felt(a[0]), felt(a[1]));
            Out::Ok(hxs(&swiftness_stark::queries::queries_to_points(&felts(a[2]), &d)))
        }
        // diluted <n_bits> <spacing> <z> <alpha>
        "diluted" => Out::Ok(hx(&swiftness_air::diluted::get_diluted_product(felt(a[0]), felt(a[1]), felt(a[2]), felt(a[3])))),
        _ => return None,
    })
}
