/-
  `drv` — the Lean side of the line protocol.  `drv model <hash> <stone>` answers every case line
  with the MODEL's outcome (same format as `hx`, which answers with the real code's outcome).
-/
import Driver.Proto
import Driver.Ops

open Swiftness Swiftness.Proto

partial def loop (h : IO.FS.Stream) (out : IO.FS.Stream) (f : String → String) : IO Unit := do
  let line ← h.getLine
  if line.isEmpty then return ()
  let l := line.trimAscii.toString
  if l.isEmpty || l.startsWith "#" then out.putStrLn l else out.putStrLn (f l)
  loop h out f

def main (args : List String) : IO UInt32 := do
  let stdin ← IO.getStdin
  let stdout ← IO.getStdout
  match args with
  | ["model", hash, stone] =>
    match Hashes.ofName? hash with
    | none => IO.eprintln "unknown hash"; return 2
    | some H =>
      loop stdin stdout (Driver.answer H (stone == "stone6"))
      return 0
  | _ =>
    IO.eprintln "usage: drv model <k160|k248|b160|b248> <stone5|stone6>"
    return 2
