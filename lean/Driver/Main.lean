/-
  `drv` — the Lean side of the line protocol.  `drv model <hash> <stone>` answers every case line
  with the MODEL's outcome (same format as `hx`, which answers with the real code's outcome).
-/
import Driver.Proto
import Driver.Ops
import Driver.LoadFile
import Swiftness.Generated.DynamicParams
import Swiftness.Generated.Layout.dynamic_asserts

open Swiftness Swiftness.Proto

partial def loop (h : IO.FS.Stream) (out : IO.FS.Stream) (f : String → String) : IO Unit := do
  let line ← h.getLine
  if line.isEmpty then return ()
  let l := line.trimAscii.toString
  if l.isEmpty || l.startsWith "#" then out.putStrLn l
  else if l.startsWith "parsefile " then
    -- the independent Lean loader answers the same op the real parser + CLI conversion answers in `hx`
    out.putStrLn (← Swiftness.Driver.loadFileLine (l.drop 10).toString)
  else out.putStrLn (f l)
  loop h out f

def loadLayout (dir : String) (name : String) : IO (Option Driver.LayoutProgs) := do
  let c ← IO.FS.readFile s!"{dir}/{name}.composition.txt"
  let o ← IO.FS.readFile s!"{dir}/{name}.oods.txt"
  let f ← IO.FS.readFile s!"{dir}/{name}.gvfields.txt"
  match AstText.parseFile c, AstText.parseFile o with
  | some cp, some op => return some ⟨name, cp, op, (f.splitOn "\n").filter (· ≠ "")⟩
  | _, _ => return none

def readLines (path : String) : IO (List String) := do
  let s ← IO.FS.readFile path
  return (s.splitOn "\n").filter (· ≠ "")

def loadData (dir : String) (name : String) (periodic : List (String × List Nat)) : IO (Option LayoutData) := do
  let some L ← loadLayout dir name | return none
  let consts := (← readLines s!"{dir}/{name}.consts.txt").filterMap fun l =>
    match l.splitOn " " with
    | [k, v] => (Felt.natOfHex? v).map fun n => (k, n)
    | _ => none
  let blines ← if name == "dynamic" then pure [] else readLines s!"{dir}/{name}.builtins.txt"
  let builtins := blines.filterMap fun l =>
    match (l.splitOn " ").map String.toNat? with
    | [some a, some b, some c] => some (a, b, c)
    | _ => none
  let ief ← readLines s!"{dir}/{name}.interaction.txt"
  return some { name := name, consts := consts, builtins := builtins, gvFields := L.gvFields, interactionFields := ief,
                composition := L.composition, oods := L.oods, periodic := periodic }

def main (args : List String) : IO UInt32 := do
  let stdin ← IO.getStdin
  let stdout ← IO.getStdout
  match args with
  | "model" :: hash :: stone :: rest =>
    match Hashes.ofName? hash with
    | none => IO.eprintln "unknown hash"; return 2
    | some H =>
      let mut ctx : Driver.Ctx := {}
      match rest with
      | [dir, names] =>
        let periodic := (← readLines s!"{dir}/periodic.txt").filterMap fun l =>
          match l.splitOn " " with
          | [k, v] => ((v.splitOn ",").mapM Felt.natOfHex?).map fun cs => (k, cs)
          | _ => none
        for n in names.splitOn "," do
          match ← loadLayout dir n with
          | some l => ctx := { ctx with layouts := l :: ctx.layouts }
          | none => IO.eprintln s!"cannot parse translated programs of layout {n}"; return 3
          match ← loadData dir n periodic with
          | some d =>
            if n == "dynamic" then
              -- the assertion list and the dynamic-parameter order are the generated Lean terms themselves (the ones the theorems
              -- are about); `dynamic.asserts.txt` must parse to the same list (translator's printer check at start-up)
              let txt ← IO.FS.readFile s!"{dir}/dynamic.asserts.txt"
              if DynAsserts.parseFile txt != some (Swiftness.Gen.Layout.dynamic.usizeMax, Swiftness.Gen.Layout.dynamic.asserts) then
                IO.eprintln "dynamic.asserts.txt differs from the generated Lean assertion list"; return 3
              ctx := { ctx with dyn := some { base := d, dpFields := Swiftness.Gen.DynamicParams.toVecOrder,
                                              usizeMax := Swiftness.Gen.Layout.dynamic.usizeMax, asserts := Swiftness.Gen.Layout.dynamic.asserts } }
            else ctx := { ctx with data := d :: ctx.data }
          | none => IO.eprintln s!"cannot load layout data of {n}"; return 3
      | _ => pure ()
      loop stdin stdout (Driver.answer ctx H (stone == "stone6"))
      return 0
  | _ =>
    IO.eprintln "usage: drv model <k160|k248|b160|b248> <stone5|stone6> [<astdir> <layout,layout,..>]"
    return 2
