/- Dispatch of case lines to model functions. -/
import Driver.Proto
import Swiftness.Model.Domains
import Swiftness.Model.Pow
import Swiftness.Model.Queries
import Swiftness.Model.Diluted
import Swiftness.Model.Table
import Driver.AstLoad
import Swiftness.Prover.MerkleProver
import Swiftness.Prover.FriProver
import Swiftness.Model.LayoutStatic
import Swiftness.Model.LayoutDynamic

namespace Swiftness.Driver
open Swiftness Swiftness.Proto

def transcriptOps (H : Hashes) : Transcript → List String → List Felt → Option (Transcript × List Felt)
  | t, [], acc => some (t, acc.reverse)
  | t, o :: os, acc =>
    if o == "r" then
      let (c, t') := t.randomFelt H
      transcriptOps H t' os (c :: acc)
    else if o.startsWith "R:" then
      (felt? (o.drop 2).toString).bind fun n =>
        let (cs, t') := t.randomFelts H n
        transcriptOps H t' os (cs.reverse ++ acc)
    else if o.startsWith "f:" then
      (felt? (o.drop 2).toString).bind fun v => transcriptOps H (t.readFelt H v) os acc
    else if o.startsWith "v:" then
      (felts? (o.drop 2).toString).bind fun v => transcriptOps H (t.readFeltVector H v) os acc
    else if o.startsWith "u:" then
      (nat? (o.drop 2).toString).bind fun v => transcriptOps H (t.readU64 H v) os acc
    else if o.startsWith "c:" || o.startsWith "t:" then
      -- `vector_commit` / `table_commit`: the root is absorbed as one field element (the config does not enter the transcript)
      match ((o.drop 2).toString.splitOn ":") with
      | root :: _ => (felt? root).bind fun v => transcriptOps H (t.readFelt H v) os acc
      | [] => none
    else none

def unit (_ : Unit) : String := ""

/-- a translated layout: composition program, oods program, global-value field names -/
structure LayoutProgs where
  name : String
  composition : Ast.Prog × Nat
  oods : Ast.Prog × Nat
  gvFields : List String

structure Ctx where
  layouts : List LayoutProgs := []
  /-- full data of the static layouts (for the pipeline ops) -/
  data : List LayoutData := []
  /-- the dynamic layout (translated data + assertion list) -/
  dyn : Option DynData := none

def Ctx.find? (c : Ctx) (n : String) : Option LayoutProgs := c.layouts.find? (·.name == n)
def Ctx.data? (c : Ctx) (n : String) : Option LayoutData := c.data.find? (·.name == n)
/-- the `LayoutOps` of layout `n` (static: generic model over translated data; dynamic: `LayoutDynamic`) and its
    interaction-element field names -/
def Ctx.lay? (c : Ctx) (H : Hashes) (n : String) : Option (LayoutOps × List String) :=
  if n == "dynamic" then c.dyn.map fun D => (D.ops H, D.base.interactionFields)
  else (c.data? n).map fun D => (D.ops H, D.interactionFields)



/-- `name:val;name:val` → values in `fields` order (every field must be present exactly once) -/
def gvArray? (fields : List String) (s : String) : Option (Array Felt) := do
  let parseKV : String → Option (String × Felt) := fun kv =>
    match kv.splitOn ":" with
    | [k, v] => (felt? v).map fun x => (k, x)
    | _ => none
  let kvs ← if s == "-" then some [] else (s.splitOn ";").mapM parseKV
  if kvs.length ≠ fields.length then none else
  let vals ← fields.mapM fun f => (kvs.find? (·.1 == f)).map (·.2)
  pure vals.toArray

def fmtRows (rs : List (List Felt)) : String :=
  if rs.isEmpty then "-" else ";".intercalate (rs.map fun r => ":".intercalate (r.map hx))

/-- FRI layer witnesses: `leaves|auths;leaves|auths` (`-` = no layers) -/
def friWitness? (s : String) : Option (List Fri.LayerWitness) :=
  if s == "-" then some [] else (s.splitOn ";").mapM fun l =>
    match l.splitOn "|" with
    | [a, b] => do pure ⟨← felts? a, ← felts? b⟩
    | _ => none

/-- proof = CFG(13) PI(10) UNSENT(7) WITNESS(7) tokens (see hx `ops_proof.rs`) -/
def parseProof? (toks : List String) : Option Stark.Proof :=
  if toks.length ≠ 37 then none else do
  let cfg ← parseCfg? (toks.take 13)
  let pi ← parsePI? ((toks.drop 13).take 10)
  match toks.drop 23 with
  | [to, ti, comp, oods, fi, fl, nonce, v1, v2, a1, a2, v3, a3, fw] =>
    let ws ← friWitness? fw
    pure { config := cfg, publicInput := pi,
           unsent := { tracesOriginal := ← felt? to, tracesInteraction := ← felt? ti, composition := ← felt? comp,
                       oodsValues := ← felts? oods, friInnerLayers := ← felts? fi, friLastLayerCoefficients := ← felts? fl,
                       powNonce := ← nat? nonce },
           witness := { tracesOriginalValues := ← felts? v1, tracesInteractionValues := ← felts? v2,
                        tracesOriginalAuths := ← felts? a1, tracesInteractionAuths := ← felts? a2,
                        compositionValues := ← felts? v3, compositionAuths := ← felts? a3, friLayers := ws } }
  | _ => none

def fmtFriWitness (ws : List Fri.LayerWitness) : String :=
  if ws.isEmpty then "-" else ";".intercalate (ws.map fun w => s!"{hxs w.leaves}|{hxs w.auths}")

def friConfig? (lis nl last steps inner : String) : Option Fri.Config := do
  pure { logInputSize := ← felt? lis, nLayers := ← felt? nl, innerLayers := ← (← rows? inner).mapM tcfg?,
         friStepSizes := ← felts? steps, logLastLayerDegreeBound := ← felt? last }

/-- `fri_commit` followed by `fri_verify` -/
def friRun (H : Hashes) (t : Transcript) (cfg : Fri.Config) (roots lastCoefs queries values points : List Felt)
    (w : List Fri.LayerWitness) : Outcome Transcript :=
  match Fri.commit H t roots lastCoefs cfg with
  | .ok (t', c) =>
    match Fri.verify H queries c values points w with
    | .ok () => .ok t'
    | .err e => .err e
    | .panic s => .panic s
  | .err e => .err e
  | .panic s => .panic s

/-- answer one case line; `none` = malformed line -/
def answer? (ctx : Ctx) (H : Hashes) (_stone6 : Bool) (toks : List String) : Option String :=
  match toks with
  | ["poseidon2", a, b] => do pure ("ok " ++ hx (H.poseidon2 (← felt? a) (← felt? b)))
  | ["poseidonmany", l] => do pure ("ok " ++ hx (H.poseidonMany (← felts? l)))
  | ["pedersen", a, b] => do pure ("ok " ++ hx (H.pedersen (← felt? a) (← felt? b)))
  | ["felt_frombytes", b] => do pure ("ok " ++ hx (Felt.fromBytesBE (← bytes? b)))
  | ["felt_tobytes", a] => do pure ("ok " ++ hexBytes (← felt? a).toBytesBE)
  | ["felt_pow", a, e] => do pure ("ok " ++ hx (Felt.pow (← felt? a) (← felt? e).val))
  | ["felt_lt", a, b] => do pure ("ok " ++ (if (← felt? a).val < (← felt? b).val then "1" else "0"))
  | "transcript" :: d :: c :: ops => do
    let (t, outs) ← transcriptOps H ⟨← felt? d, ← felt? c⟩ ops []
    pure s!"ok {hxs outs} {hx t.digest} {hx t.counter}"
  | ["pow", d, nb, nonce] => do
    pure (out unit (Pow.verifyPow H (← bytes? d) (← nat? nb) (← nat? nonce)))
  | ["powcfg", nb] => do pure (out unit (Pow.configValidate (← nat? nb)))
  | ["powcommit", d, c, nb, nonce] => do
    pure (out (fun (t : Transcript) => s!"{hx t.digest} {hx t.counter}")
      (Pow.commit H ⟨← felt? d, ← felt? c⟩ (← nat? nb) (← nat? nonce)))
  | ["vdecommit", root, h, nf, idx, val, auths] => do
    let idx ← felts? idx; let val ← felts? val
    if idx.length ≠ val.length then none else
    let qs := (idx.zip val).map fun (i, v) => (⟨i, v⟩ : Vector.Query)
    pure (out unit (Vector.decommit H ⟨⟨← felt? h, ← felt? nf⟩, ← felt? root⟩ qs (← felts? auths)))
  | ["vroot", h, nf, idx, val, auths] => do
    -- the root `compute_root_from_queries` arrives at (for sparse instances of tall trees: the generators take the honest root from here;
    -- C04's theorems cover the model at every height)
    let idx ← felts? idx; let val ← felts? val
    if idx.length ≠ val.length then none else
    let hF ← felt? h
    let shift := Felt.pow 2 hF.val
    let shifted := (idx.zip val).map fun (i, v) => (⟨i + shift, v, hF⟩ : Vector.QD)
    let au ← felts? auths
    pure (out hx (Vector.computeRoot H (← felt? nf) (shifted.length + au.length + 1) shifted au))
  | ["tdecommit", root, nc, h, nf, qs, vals, auths] => do
    pure (out unit (Table.decommit H ⟨← felt? nc, ⟨⟨← felt? h, ← felt? nf⟩, ← felt? root⟩⟩
      (← felts? qs) (← felts? vals) (← felts? auths)))
  | ["vcfg", h, nf, eh, enf] => do
    pure (out unit (Vector.Config.validate ⟨← felt? h, ← felt? nf⟩ (← felt? eh) (← felt? enf)))
  | ["domains", t, c] => do
    pure (out (fun (d : StarkDomains) =>
      s!"{hx d.logEvalDomainSize} {hx d.evalDomainSize} {hx d.evalGenerator} {hx d.logTraceDomainSize} {hx d.traceDomainSize} {hx d.traceGenerator}")
      (StarkDomains.new (← felt? t) (← felt? c)))
  | ["queries", d, c, n, bound] => do
    pure (out (fun ((q, t) : List Felt × Transcript) => s!"{hxs q} {hx t.digest} {hx t.counter}")
      (Queries.generateQueries H ⟨← felt? d, ← felt? c⟩ (← felt? n) (← felt? bound)))
  | ["points", t, c, qs] => do
    match StarkDomains.new (← felt? t) (← felt? c) with
    | .ok d => pure (out hxs (Queries.queriesToPoints (← felts? qs) d))
    | .err _ => pure "err"
    | .panic s => pure ("panic " ++ s)
  | ["diluted", n, s, z, a] => do
    pure ("ok " ++ hx (Diluted.getDilutedProduct (← felt? n) (← felt? s) (← felt? z) (← felt? a)))
  | "starkcfg" :: sec :: nc1 :: nc2 :: rest => do
    let c ← parseCfg? rest
    pure (out unit (c.validate (← felt? sec) (← felt? nc1) (← felt? nc2)))
  | ["fricfg", lnc, nf, lis, nl, last, steps, inner] => do
    let c : Fri.Config := { logInputSize := ← felt? lis, nLayers := ← felt? nl, innerLayers := ← (← rows? inner).mapM tcfg?,
                            friStepSizes := ← felts? steps, logLastLayerDegreeBound := ← felt? last }
    pure (out hx (c.validate (← felt? lnc) (← felt? nf)))
  | "memratio" :: rest =>
    if rest.length ≠ 13 then none else do
    let pi ← parsePI? (rest.take 10)
    match rest.drop 10 with
    | [z, a, sz] => pure (out hx (pi.publicMemoryProductRatio (← felt? z) (← felt? a) (← felt? sz)))
    | _ => none
  | "pihash_seq" :: rest =>
    -- the same OBJECT hashed, overwritten field by field, hashed again: a pure function of the second value
    if rest.length ≠ 21 then none else do
    let pi ← parsePI? ((rest.drop 10).take 10)
    match rest.drop 20 with
    | [nf] => pure ("ok " ++ hx (pi.getHash H _stone6 (← felt? nf)))
    | _ => none
  | "pihash" :: rest =>
    if rest.length ≠ 11 then none else do
    let pi ← parsePI? (rest.take 10)
    match rest.drop 10 with
    | [nf] => pure ("ok " ++ hx (pi.getHash H _stone6 (← felt? nf)))
    | _ => none
  -- honest-prover helpers (Lean spec builder): used by the generators, answered only by `drv`
  | ["merkle_build", h, nf, leaves, q] => do
    let (root, auth) := Prover.buildAuthL H (← felt? nf) (← nat? h) (← felts? leaves) (← nats? q)
    pure s!"ok {hx root} {hxs auth}"
  | ["table_build", h, nf, ncols, cells, q] => do
    let n ← nat? ncols
    let cells ← felts? cells
    let hgt ← nat? h
    let rows : Array (List Felt) := Array.ofFn (n := 2 ^ hgt) fun i => (cells.drop (i.val * n)).take n
    let (root, vals, auth) := Prover.buildTableAuth H (← felt? nf) hgt rows (← nats? q)
    pure s!"ok {hx root} {hxs vals} {hxs auth}"
  | ["fri_build", nf, steps, last, lnc, coeffs, q, d, c] => do
    let nf ← felt? nf; let steps ← nats? steps; let last ← nat? last; let lnc ← nat? lnc
    let inst := Prover.friProve H nf steps last lnc (← felts? coeffs) (← nats? q) ⟨← felt? d, ← felt? c⟩
    let cfg := Prover.friConfig nf steps last lnc
    let ws : List Fri.LayerWitness := inst.layers.map fun l => ⟨l.leaves, l.auths⟩
    pure s!"ok {hx cfg.logInputSize} {hx cfg.nLayers} {hx cfg.logLastLayerDegreeBound} {hxs cfg.friStepSizes} {fmtRows (cfg.innerLayers.map fun t => [t.nColumns, t.vector.height, t.vector.nFriendly])} {hxs inst.roots} {hxs inst.lastCoefs} {hxs ((← nats? q).map Felt.ofNat)} {hxs inst.values} {hxs inst.points} {fmtFriWitness ws}"
  | ["fri", d, c, lis, nl, last, steps, inner, roots, lastCoefs, queries, values, points, w] => do
    let cfg ← friConfig? lis nl last steps inner
    pure (out (fun (t : Transcript) => s!"{hx t.digest} {hx t.counter}")
      (friRun H ⟨← felt? d, ← felt? c⟩ cfg (← felts? roots) (← felts? lastCoefs) (← felts? queries) (← felts? values)
        (← felts? points) (← friWitness? w)))
  | ["fri_formula", vals, e, x, cs] => do
    pure (out hx (Fri.friFormula (← felts? vals) (← felt? e) (← felt? x) (← felt? cs)))
  | ["next_layer", qi, qy, qx, sibs, cs, e] => do
    let qi ← felts? qi; let qy ← felts? qy; let qx ← felts? qx
    if qi.length ≠ qy.length ∨ qi.length ≠ qx.length then none else
    let qs := (qi.zip (qy.zip qx)).map fun (i, y, x) => (⟨i, y, x⟩ : Fri.LayerQuery)
    pure (out (fun (r : Fri.NextLayer) =>
        s!"{hxs (r.nextQueries.map (·.index))} {hxs (r.nextQueries.map (·.yValue))} {hxs (r.nextQueries.map (·.xInvValue))} {hxs r.verifyIndices} {hxs r.verifyYValues}")
      (Fri.computeNextLayer qs (← felts? sibs) (← felt? cs) (← felt? e)))
  | ["last_layer", qy, qx, coefs] => do
    let qy ← felts? qy; let qx ← felts? qx
    if qy.length ≠ qx.length then none else
    let qs := (qy.zip qx).map fun (y, x) => (⟨0, y, x⟩ : Fri.LayerQuery)
    pure (out unit (Fri.verifyLastLayer qs (← felts? coefs)))
  | "validate_pi" :: layout :: rest =>
    if rest.length ≠ 12 then none else do
    let (L, _) ← ctx.lay? H layout
    let pi ← parsePI? (rest.take 10)
    match rest.drop 10 with
    | [t, c] =>
      match StarkDomains.new (← felt? t) (← felt? c) with
      | .ok d => pure (out unit (L.validatePublicInput pi d))
      | .err _ => pure "err"
      | .panic s => pure ("panic " ++ s)
    | _ => none
  | "verify_pi" :: layout :: rest =>
    if rest.length ≠ 10 then none else do
    let (L, _) ← ctx.lay? H layout
    let pi ← parsePI? rest
    pure (out (fun ((a, b) : Felt × Felt) => s!"{hx a} {hx b}") (L.verifyPublicInput pi))
  | "eval_comp" :: layout :: ie :: rest =>
    if rest.length ≠ 15 then none else do
    let (L, ief) ← ctx.lay? H layout
    let pi ← parsePI? (rest.take 10)
    let iev ← gvArray? ief ie
    match rest.drop 10 with
    | [mask, coeffs, point, tds, tgen] =>
      pure (out hx (L.evalComposition iev.toList pi (← felts? mask) (← felts? coeffs) (← felt? point) (← felt? tds) (← felt? tgen)))
    | _ => none
  | "verify_seq" :: layout :: sec :: rest => do
    -- the model is a pure function: the second verification is `verify` of the second value
    let (L, _) ← ctx.lay? H layout
    let p ← parseProof? (rest.drop (rest.length / 2))
    pure (out (fun ((a, b) : Felt × Felt) => s!"{hx a} {hx b}") (Stark.verify L H _stone6 p (← felt? sec)))
  | "verify" :: layout :: sec :: rest => do
    let (L, _) ← ctx.lay? H layout
    let p ← parseProof? rest
    pure (out (fun ((a, b) : Felt × Felt) => s!"{hx a} {hx b}") (Stark.verify L H _stone6 p (← felt? sec)))
  | ["check_asserts", "dynamic", dps, t] => do
    -- the translated `check_asserts` alone: `check_asserts <dynamic params> <trace_length>`
    let D ← ctx.dyn
    pure (out unit (DynAsserts.check D.usizeMax (← nats? dps).toArray (← felt? t) D.asserts))
  | "comp_inner" :: layout :: mask :: coeffs :: point :: tgen :: gv :: rest => do
    let L ← ctx.find? layout
    let dp ← match rest with | [] => some #[] | [d] => (nats? d).map (·.toArray) | _ => none
    let inp : Ast.Inputs := { mask := (← felts? mask).toArray, coeff := (← felts? coeffs).toArray, point := ← felt? point,
                              tgen := ← felt? tgen, gv := ← gvArray? L.gvFields gv, dp := dp }
    pure (out hx (Ast.evalProg inp L.composition.1 L.composition.2))
  | "oods_inner" :: layout :: cols :: oods :: coeffs :: point :: oodsPoint :: tgen :: rest => do
    let L ← ctx.find? layout
    let dp ← match rest with | [] => some #[] | [d] => (nats? d).map (·.toArray) | _ => none
    let inp : Ast.Inputs := { col := (← felts? cols).toArray, oodsv := (← felts? oods).toArray, coeff := (← felts? coeffs).toArray,
                              point := ← felt? point, oodsPoint := ← felt? oodsPoint, tgen := ← felt? tgen, dp := dp }
    pure (out hx (Ast.evalProg inp L.oods.1 L.oods.2))
  | _ => none

def answer (ctx : Ctx) (H : Hashes) (stone6 : Bool) (line : String) : String :=
  match answer? ctx H stone6 (line.splitOn " ") with
  | some s => s
  | none => "badinput"

end Swiftness.Driver
