/- Loader for the translator's text format (`Generated/ast/<layout>.<fn>.txt`) and its printer
   (used by `tools/DumpAst.lean` to check the Lean printer of the translator). -/
import Swiftness.Model.Ast

namespace Swiftness.AstText
open Swiftness.Ast

def parseIx : Nat → List String → Option (Ix × List String)
  | 0, _ => none
  | fuel + 1, toks =>
    match toks with
    | "lit" :: n :: r => n.toNat?.map fun k => (.lit k, r)
    | "dp" :: n :: r => n.toNat?.map fun k => (.dp k, r)
    | "add" :: r => do
      let (a, r) ← parseIx fuel r
      let (b, r) ← parseIx fuel r
      pure (.add a b, r)
    | _ => none

def parseExpr : Nat → List String → Option (Expr × List String)
  | 0, _ => none
  | fuel + 1, toks =>
    let bin (f : Expr → Expr → Expr) (r : List String) : Option (Expr × List String) := do
      let (a, r) ← parseExpr fuel r
      let (b, r) ← parseExpr fuel r
      pure (f a b, r)
    match toks with
    | "const" :: n :: r => n.toNat?.map fun k => (.const k, r)
    | "var" :: n :: r => n.toNat?.map fun k => (.var k, r)
    | "gv" :: n :: r => n.toNat?.map fun k => (.gv k, r)
    | "dp" :: n :: r => n.toNat?.map fun k => (.dp k, r)
    | "mask" :: n :: r => n.toNat?.map fun k => (.mask k, r)
    | "oodsv" :: n :: r => n.toNat?.map fun k => (.oodsv k, r)
    | "coeff" :: n :: r => n.toNat?.map fun k => (.coeff k, r)
    | "col" :: r => (parseIx 64 r).map fun (i, r) => (.col i, r)
    | "point" :: r => some (.point, r)
    | "tgen" :: r => some (.tgen, r)
    | "oodsPoint" :: r => some (.oodsPoint, r)
    | "add" :: r => bin .add r
    | "sub" :: r => bin .sub r
    | "mul" :: r => bin .mul r
    | "fdiv" :: r => bin .fdiv r
    | "floorDiv" :: r => bin .floorDiv r
    | "powFelt" :: r => bin .powFelt r
    | "neg" :: r => (parseExpr fuel r).map fun (a, r) => (.neg a, r)
    | _ => none

def parseGuards (s : String) : Option (List Nat) :=
  if s == "-" then some [] else (s.splitOn ",").mapM (·.toNat?)

def parseLine (line : String) : Option GStmt :=
  match line.splitOn " " with
  | g :: "set" :: s :: rest => do
    let gs ← parseGuards g
    let (e, r) ← parseExpr (rest.length + 1) rest
    if r.isEmpty then pure ⟨gs, .set (← s.toNat?) e⟩ else none
  | g :: "acc" :: d :: s :: i :: rest => do
    let gs ← parseGuards g
    let (e, r) ← parseExpr (rest.length + 1) rest
    if r.isEmpty then pure ⟨gs, .acc (← d.toNat?) (← s.toNat?) (← i.toNat?) e⟩ else none
  | _ => none

/-- whole file: first line `res <slot>` -/
def parseFile (text : String) : Option (Prog × Nat) :=
  match (text.splitOn "\n").filter (· ≠ "") with
  | hd :: lines =>
    match hd.splitOn " " with
    | ["res", r] => do
      let p ← lines.mapM parseLine
      pure (p, ← r.toNat?)
    | _ => none
  | [] => none

def ixText : Ix → String
  | .lit n => s!"lit {n}"
  | .dp n => s!"dp {n}"
  | .add a b => s!"add {ixText a} {ixText b}"

def exprText : Expr → String
  | .const n => s!"const {n}" | .var n => s!"var {n}" | .gv n => s!"gv {n}" | .dp n => s!"dp {n}"
  | .mask n => s!"mask {n}" | .oodsv n => s!"oodsv {n}" | .coeff n => s!"coeff {n}"
  | .col i => s!"col {ixText i}"
  | .point => "point" | .tgen => "tgen" | .oodsPoint => "oodsPoint"
  | .add a b => s!"add {exprText a} {exprText b}"
  | .sub a b => s!"sub {exprText a} {exprText b}"
  | .mul a b => s!"mul {exprText a} {exprText b}"
  | .neg a => s!"neg {exprText a}"
  | .fdiv a b => s!"fdiv {exprText a} {exprText b}"
  | .floorDiv a b => s!"floorDiv {exprText a} {exprText b}"
  | .powFelt a b => s!"powFelt {exprText a} {exprText b}"

def stmtText (g : GStmt) : String :=
  let gs := if g.guards.isEmpty then "-" else ",".intercalate (g.guards.map toString)
  match g.stmt with
  | .set s e => s!"{gs} set {s} {exprText e}"
  | .acc d s i e => s!"{gs} acc {d} {s} {i} {exprText e}"

def progText (p : Prog) (res : Nat) : String :=
  s!"res {res}\n" ++ "\n".intercalate (p.map stmtText) ++ "\n"

end Swiftness.AstText
