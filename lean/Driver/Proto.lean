/- Line-protocol helpers shared by the driver modes. -/
import Swiftness.Model.Felt
import Swiftness.Model.Outcome
import Swiftness.Model.PublicInput
import Swiftness.Model.StarkConfig

namespace Swiftness.Proto
open Swiftness

def felt? (s : String) : Option Felt := (Felt.natOfHex? s).bind fun n => if n < P then some (Felt.ofNat n) else none
def nat? (s : String) : Option Nat := Felt.natOfHex? s

def felts? (s : String) : Option (List Felt) :=
  if s == "-" then some [] else (s.splitOn ",").mapM felt?

def nats? (s : String) : Option (List Nat) :=
  if s == "-" then some [] else (s.splitOn ",").mapM nat?

def bytesAux : List Char → Option (List UInt8)
  | [] => some []
  | [_] => none
  | a :: b :: t => do
    let x ← Felt.hexVal a; let y ← Felt.hexVal b
    let r ← bytesAux t
    pure (UInt8.ofNat (x * 16 + y) :: r)

def bytes? (s : String) : Option (List UInt8) := if s == "-" then some [] else bytesAux s.toList

def hx (a : Felt) : String := a.toHex
def hxs (l : List Felt) : String := if l.isEmpty then "-" else ",".intercalate (l.map hx)
def hexByte (b : UInt8) : String := String.ofList [Felt.hexDigit (b.toNat / 16), Felt.hexDigit (b.toNat % 16)]
def hexBytes (l : List UInt8) : String := if l.isEmpty then "-" else String.join (l.map hexByte)

/-- `a:b;c:d` → rows of felts (`-` = none) -/
def rows? (s : String) : Option (List (List Felt)) :=
  if s == "-" then some [] else (s.splitOn ";").mapM fun r => (r.splitOn ":").mapM felt?

def out {α} (show_ : α → String) : Outcome α → String
  | .ok a => let s := show_ a; if s.isEmpty then "ok" else "ok " ++ s
  | .err _ => "err"
  | .panic s => "panic " ++ s

/-- PublicInput = 10 tokens (see `hx`): log_n_steps rc_min rc_max layout dyn segments pad_addr pad_val main_page headers -/
def parsePI? : List String → Option PublicInput
  | [lns, rmin, rmax, layout, dyn, segs, pa, pv, mp, hs] => do
    let dynp ← if dyn == "-" then some none else (nats? dyn).map some
    let segs ← (← rows? segs).mapM fun r => match r with | [b, s] => some (⟨b, s⟩ : SegmentInfo) | _ => none
    let mp ← (← rows? mp).mapM fun r => match r with | [a, v] => some (⟨a, v⟩ : AddrValue) | _ => none
    let hs ← (← rows? hs).mapM fun r => match r with
      | [a, b, c, d] => some (⟨a, b, c, d⟩ : ContinuousPageHeader) | _ => none
    pure { logNSteps := ← felt? lns, rangeCheckMin := ← felt? rmin, rangeCheckMax := ← felt? rmax, layout := ← felt? layout,
           dynamicParams := dynp, segments := segs, paddingAddr := ← felt? pa, paddingValue := ← felt? pv,
           mainPage := mp, continuousPageHeaders := hs }
  | _ => none

def tcfg? : List Felt → Option Fri.TableConfig
  | [n, h, f] => some ⟨n, ⟨h, f⟩⟩
  | _ => none

def oneTcfg? (s : String) : Option Fri.TableConfig := do
  match ← rows? s with
  | [r] => tcfg? r
  | _ => none

/-- StarkConfig = 13 tokens: t c nq nf pow orig inter comp fri.lis fri.nlayers fri.last steps inner -/
def parseCfg? : List String → Option StarkConfig
  | [t, c, nq, nf, pow, orig, inter, comp, lis, nl, last, steps, inner] => do
    pure { traces := ⟨← oneTcfg? orig, ← oneTcfg? inter⟩, composition := ← oneTcfg? comp,
           fri := { logInputSize := ← felt? lis, nLayers := ← felt? nl, innerLayers := ← (← rows? inner).mapM tcfg?,
                    friStepSizes := ← felts? steps, logLastLayerDegreeBound := ← felt? last },
           powBits := ← nat? pow, logTraceDomainSize := ← felt? t, nQueries := ← felt? nq, logNCosets := ← felt? c,
           nFriendly := ← felt? nf }
  | _ => none

end Swiftness.Proto
