/-
  Driver op `loadfile <path>`: run the independent Lean loader (`Swiftness.Loader.loadProof`) on a Stone
  proof file and print the resulting verifier-side proof in EXACTLY the 37-token format of the harness op
  `parsefile` (`/verif/harness/src/ops_proof.rs` `fmt_proof`, `ops_full.rs` `fmt_cfg` / `fmt_pi`), which
  runs the real parser + CLI conversion.  `parseProof?` (Driver/Ops.lean) reads the same format back.
-/
import Swiftness.Model.Loader
import Driver.Proto

namespace Swiftness.Driver
open Swiftness Swiftness.Proto

namespace LoadFile

def rowsStr (rs : List (List Felt)) : String :=
  if rs.isEmpty then "-" else ";".intercalate (rs.map fun r => ":".intercalate (r.map hx))

def tcfgRow (c : Fri.TableConfig) : List Felt := [c.nColumns, c.vector.height, c.vector.nFriendly]

/-- 13 tokens: t c nq nf pow orig inter comp fri.lis fri.nlayers fri.last steps inner -/
def fmtCfg (c : StarkConfig) : String :=
  " ".intercalate
    [hx c.logTraceDomainSize, hx c.logNCosets, hx c.nQueries, hx c.nFriendly, Felt.natToHex c.powBits,
     rowsStr [tcfgRow c.traces.original], rowsStr [tcfgRow c.traces.interaction], rowsStr [tcfgRow c.composition],
     hx c.fri.logInputSize, hx c.fri.nLayers, hx c.fri.logLastLayerDegreeBound, hxs c.fri.friStepSizes,
     rowsStr (c.fri.innerLayers.map tcfgRow)]

/-- 10 tokens: log_n_steps rc_min rc_max layout dyn segments pad_addr pad_val main_page headers -/
def fmtPI (p : PublicInput) : String :=
  let dyn := match p.dynamicParams with
    | none => "-"
    | some d => ",".intercalate (d.map Felt.natToHex)
  " ".intercalate
    [hx p.logNSteps, hx p.rangeCheckMin, hx p.rangeCheckMax, hx p.layout, dyn,
     rowsStr (p.segments.map fun s => [s.beginAddr, s.stopPtr]),
     hx p.paddingAddr, hx p.paddingValue,
     rowsStr (p.mainPage.map fun c => [c.address, c.value]),
     rowsStr (p.continuousPageHeaders.map fun h => [h.startAddress, h.size, h.hash, h.prod])]

def fmtFri (ws : List Fri.LayerWitness) : String :=
  if ws.isEmpty then "-" else ";".intercalate (ws.map fun w => s!"{hxs w.leaves}|{hxs w.auths}")

/-- 37 tokens: CFG(13) PI(10) UNSENT(7) WITNESS(7) -/
def fmtProof (p : Stark.Proof) : String :=
  let u := p.unsent; let w := p.witness
  " ".intercalate
    [fmtCfg p.config, fmtPI p.publicInput,
     hx u.tracesOriginal, hx u.tracesInteraction, hx u.composition, hxs u.oodsValues,
     hxs u.friInnerLayers, hxs u.friLastLayerCoefficients, Felt.natToHex u.powNonce,
     hxs w.tracesOriginalValues, hxs w.tracesInteractionValues,
     hxs w.tracesOriginalAuths, hxs w.tracesInteractionAuths,
     hxs w.compositionValues, hxs w.compositionAuths, fmtFri w.friLayers]

def oneLine (s : String) : String := s.map fun c => if c = '\n' ∨ c = '\r' then ' ' else c

end LoadFile

/-- `"ok " ++ <37 tokens>` or `"err <msg>"` -/
def loadFileLine (path : String) : IO String := do
  let text ← try
      pure (some (← IO.FS.readFile path))
    catch _ => pure none
  match text with
  | none => pure "err io"
  | some s =>
    match Loader.loadProof s with
    | .ok p => pure ("ok " ++ LoadFile.fmtProof p)
    | .error e => pure ("err " ++ LoadFile.oneLine e)

end Swiftness.Driver
