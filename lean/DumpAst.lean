/- Prints the ELABORATED generated programs back in the translator's text format, so that ./check can
   compare them byte-for-byte with Generated/ast/*.txt (validates the translator's Lean printer:
   the theorems are about exactly the program the driver evaluates).
   usage: lake env lean --run DumpAst.lean <outdir> -/
import Driver.AstLoad
import Swiftness.Generated.Layout.dex
import Swiftness.Generated.Layout.dynamic
import Swiftness.Generated.Layout.recursive
import Swiftness.Generated.Layout.recursive_with_poseidon
import Swiftness.Generated.Layout.small
import Swiftness.Generated.Layout.starknet
import Swiftness.Generated.Layout.starknet_with_keccak
import Swiftness.Generated.Layout.dynamic_asserts
open Swiftness Swiftness.AstText Swiftness.Gen.Layout

def main (args : List String) : IO UInt32 := do
  let dir := args.headD "."
  let all : List (String × Ast.Prog × Nat × Ast.Prog × Nat) := [
    ("dex", dex.composition, dex.compositionRes, dex.oods, dex.oodsRes),
    ("dynamic", dynamic.composition, dynamic.compositionRes, dynamic.oods, dynamic.oodsRes),
    ("recursive", recursive.composition, recursive.compositionRes, recursive.oods, recursive.oodsRes),
    ("recursive_with_poseidon", recursive_with_poseidon.composition, recursive_with_poseidon.compositionRes, recursive_with_poseidon.oods, recursive_with_poseidon.oodsRes),
    ("small", small.composition, small.compositionRes, small.oods, small.oodsRes),
    ("starknet", starknet.composition, starknet.compositionRes, starknet.oods, starknet.oodsRes),
    ("starknet_with_keccak", starknet_with_keccak.composition, starknet_with_keccak.compositionRes, starknet_with_keccak.oods, starknet_with_keccak.oodsRes)]
  for (n, c, cr, o, or_) in all do
    IO.FS.writeFile s!"{dir}/{n}.composition.txt" (progText c cr)
    IO.FS.writeFile s!"{dir}/{n}.oods.txt" (progText o or_)
  IO.FS.writeFile s!"{dir}/dynamic.asserts.txt" (Swiftness.DynAsserts.fileText dynamic.usizeMax dynamic.asserts)
  return 0
