import Swiftness.Model.Felt
import Swiftness.Model.Outcome
