/-
  C14 (dynamic layout) helper lemmas, part 4: the three unit-budget sums do not wrap, and the main
  equivalence `validate_public_input = Ok ↔ Spec.DynPublicInputOK`.
-/
import Swiftness.Proofs.DynValidateRaw
import Swiftness.Proofs.DynValidateRows
import Swiftness.Proofs.DynAssertsGen

namespace Swiftness.Proofs.DynPIC
open Swiftness Swiftness.LayoutData Swiftness.Spec Swiftness.DynData Swiftness.DynAsserts
attribute [-instance] Fin.instOfNat

/-! ### the sums -/

theorem two_pow_170_lt_P : 2 ^ 170 < P := by decide +kernel

theorem dot_foldl (ks ns : List ℕ) (acc : ℕ) :
    (ks.zip (ns.map Felt.ofNat)).foldl (fun s (kc : ℕ × Felt) => s + Felt.ofNat kc.1 * kc.2) ((acc : ℕ) : Felt) =
      ((acc + (List.zipWith (· * ·) ks ns).sum : ℕ) : Felt) := by
  induction ks generalizing ns acc with
  | nil => simp
  | cons k ks ih =>
    cases ns with
    | nil => simp
    | cons n ns =>
      simp only [List.map_cons, List.zip_cons_cons, List.foldl_cons, List.zipWith_cons_cons, List.sum_cons]
      have : ((acc : ℕ) : Felt) + Felt.ofNat k * Felt.ofNat n = ((acc + k * n : ℕ) : Felt) := by
        rw [Felt.ofNat_eq_cast, Felt.ofNat_eq_cast]; push_cast; rfl
      rw [this, ih]
      congr 1
      ring

theorem dot_map (ks ns : List ℕ) :
    dot ks (ns.map Felt.ofNat) = (((List.zipWith (· * ·) ks ns).sum : ℕ) : Felt) := by
  unfold dot
  have := dot_foldl ks ns 0
  rw [Nat.cast_zero, Nat.zero_add] at this
  rw [Proofs.zero_felt]
  exact this

theorem pow2_steps (l : ℕ) (hl : l < 80) :
    Felt.pow (@OfNat.ofNat Felt 2 Fin.instOfNat) l = (((2 ^ l : ℕ)) : Felt) := by
  have hP := two_pow_160_lt_P
  rw [Proofs.pow2_model l (by omega)]
  push_cast; rfl

theorem two_pow_lt {l : ℕ} (hl : l < 80) : 2 ^ l < 2 ^ 80 := Nat.pow_lt_pow_right (by norm_num) hl

theorem dynBuiltinCells_le (D : DynData) (dp : Array ℕ) (T : ℕ) : dynBuiltinCells D dp T ≤ 55 * T := by
  unfold dynBuiltinCells
  have h : ∀ (l : List (String × String × String × ℕ)),
      (l.map fun row => row.2.2.2 * dynCopies D dp T row.1 row.2.1).sum ≤ (l.map fun row => row.2.2.2).sum * T := by
    intro l
    induction l with
    | nil => simp
    | cons b bs ih =>
      simp only [List.map_cons, List.sum_cons]
      have := Nat.mul_le_mul_left b.2.2.2 (dynCopies_le D dp T b.1 b.2.1)
      rw [Nat.add_mul]
      omega
  exact h builtinTable

theorem cells_zip (D : DynData) (dp : Array ℕ) (T : ℕ) :
    (List.zipWith (· * ·) [3, 1, 2, 5, 7, 16, 6, 1, 7, 7]
      (builtinTable.map fun row => dynCopies D dp T row.1 row.2.1)).sum = dynBuiltinCells D dp T := rfl

/-- the list of copies the model computes, for the specification's numbers of instances -/
def copiesList (D : DynData) (dp : Array ℕ) (T : ℕ) : List Felt :=
  builtinTable.map fun row => Felt.ofNat (dynCopies D dp T row.1 row.2.1)

theorem copiesList_eq (D : DynData) (dp : Array ℕ) (T : ℕ) :
    copiesList D dp T = (builtinTable.map fun row => dynCopies D dp T row.1 row.2.1).map Felt.ofNat := by
  unfold copiesList; rw [List.map_map]; rfl

theorem memSum_val (D : DynData) (hpmf : D.base.constD "PUBLIC_MEMORY_FRACTION" = 8) (pi : PublicInput)
    (dp : Array ℕ) (T : Felt) (hT148 : T.val < 2 ^ 148) (hl : pi.logNSteps.val < 80) (m : ℕ) :
    (memSum D pi (Felt.ofNat (T.val / m)) (copiesList D dp T.val)).val =
      4 * 2 ^ pi.logNSteps.val + T.val / m / 8 + dynBuiltinCells D dp T.val := by
  have hP := two_pow_160_lt_P
  have h8 : (Felt.ofNat 8).val = 8 := DynAsserts.ofNat_val_of_lt (by omega)
  have hc := dynBuiltinCells_le D dp T.val
  have hq : T.val / m / 8 ≤ T.val := le_trans (Nat.div_le_self _ _) (Nat.div_le_self _ _)
  have h2 := two_pow_lt hl
  unfold memSum
  rw [hpmf, h8, div_val, copiesList_eq, dot_map, cells_zip, pow2_steps _ hl, Felt.ofNat_eq_cast,
    Felt.ofNat_eq_cast]
  have : ((4 : ℕ) : Felt) * ((2 ^ pi.logNSteps.val : ℕ) : Felt) + ((T.val / m / 8 : ℕ) : Felt) +
      ((dynBuiltinCells D dp T.val : ℕ) : Felt) =
      ((4 * 2 ^ pi.logNSteps.val + T.val / m / 8 + dynBuiltinCells D dp T.val : ℕ) : Felt) := by
    push_cast; rfl
  rw [this, Felt.val_cast_of_lt (by omega)]

theorem rcSum_val (D : DynData) (pi : PublicInput) (dp : Array ℕ) (T : Felt) (hT148 : T.val < 2 ^ 148)
    (hl : pi.logNSteps.val < 80) :
    (rcSum pi (copiesList D dp T.val)).val =
      3 * 2 ^ pi.logNSteps.val +
        8 * dynCopies D dp T.val "uses_range_check_builtin" "range_check_builtin_row_ratio" +
        6 * dynCopies D dp T.val "uses_range_check96_builtin" "range_check96_builtin_row_ratio" +
        66 * dynCopies D dp T.val "uses_mul_mod_builtin" "mul_mod_row_ratio" := by
  have hP := two_pow_160_lt_P
  have h1 := dynCopies_le D dp T.val "uses_range_check_builtin" "range_check_builtin_row_ratio"
  have h7 := dynCopies_le D dp T.val "uses_range_check96_builtin" "range_check96_builtin_row_ratio"
  have h9 := dynCopies_le D dp T.val "uses_mul_mod_builtin" "mul_mod_row_ratio"
  have h2 := two_pow_lt hl
  have e1 : (copiesList D dp T.val).getD 1 (@OfNat.ofNat Felt 0 Fin.instOfNat) =
      Felt.ofNat (dynCopies D dp T.val "uses_range_check_builtin" "range_check_builtin_row_ratio") := rfl
  have e7 : (copiesList D dp T.val).getD 7 (@OfNat.ofNat Felt 0 Fin.instOfNat) =
      Felt.ofNat (dynCopies D dp T.val "uses_range_check96_builtin" "range_check96_builtin_row_ratio") := rfl
  have e9 : (copiesList D dp T.val).getD 9 (@OfNat.ofNat Felt 0 Fin.instOfNat) =
      Felt.ofNat (dynCopies D dp T.val "uses_mul_mod_builtin" "mul_mod_row_ratio") := rfl
  unfold rcSum
  rw [e1, e7, e9, pow2_steps _ hl]
  simp only [Felt.ofNat_eq_cast]
  have : ∀ a b c n : ℕ, ((3 : ℕ) : Felt) * ((n : ℕ) : Felt) + ((8 : ℕ) : Felt) * ((a : ℕ) : Felt) +
      ((6 : ℕ) : Felt) * ((b : ℕ) : Felt) + ((66 : ℕ) : Felt) * ((c : ℕ) : Felt) =
      ((3 * n + 8 * a + 6 * b + 66 * c : ℕ) : Felt) := by
    intro a b c n; push_cast; rfl
  rw [this, Felt.val_cast_of_lt (by omega)]

theorem dSum_val (D : DynData) (dp : Array ℕ) (T : Felt) (hT148 : T.val < 2 ^ 148) :
    (dSum (copiesList D dp T.val)).val =
      68 * dynCopies D dp T.val "uses_bitwise_builtin" "bitwise_row_ratio" +
        16384 * dynCopies D dp T.val "uses_keccak_builtin" "keccak_row_ratio" := by
  have hP := two_pow_170_lt_P
  have h3 := dynCopies_le D dp T.val "uses_bitwise_builtin" "bitwise_row_ratio"
  have h5 := dynCopies_le D dp T.val "uses_keccak_builtin" "keccak_row_ratio"
  have e3 : (copiesList D dp T.val).getD 3 (@OfNat.ofNat Felt 0 Fin.instOfNat) =
      Felt.ofNat (dynCopies D dp T.val "uses_bitwise_builtin" "bitwise_row_ratio") := rfl
  have e5 : (copiesList D dp T.val).getD 5 (@OfNat.ofNat Felt 0 Fin.instOfNat) =
      Felt.ofNat (dynCopies D dp T.val "uses_keccak_builtin" "keccak_row_ratio") := rfl
  unfold dSum
  rw [e3, e5]
  simp only [Felt.ofNat_eq_cast]
  have : ∀ a b : ℕ, ((68 : ℕ) : Felt) * ((a : ℕ) : Felt) + ((16384 : ℕ) : Felt) * ((b : ℕ) : Felt) =
      ((68 * a + 16384 * b : ℕ) : Felt) := by
    intro a b; push_cast; rfl
  rw [this, Felt.val_cast_of_lt (by omega)]

/-! ### the main equivalence -/

theorem steps_lt (l s : ℕ) (hl : l < 80) (hs : s < 2 ^ 64) : 2 ^ l * 16 * s < 2 ^ 148 := by
  have h2 := two_pow_lt hl
  have h3 : 2 ^ l * 16 < 2 ^ 84 := by omega
  calc 2 ^ l * 16 * s < 2 ^ 84 * 2 ^ 64 := Nat.mul_lt_mul'' h3 hs
    _ = 2 ^ 148 := by norm_num

theorem trace_len_check (l s : ℕ) (hl : l < 80) (hs : s < 2 ^ 64) (T : Felt) :
    Felt.pow (@OfNat.ofNat Felt 2 Fin.instOfNat) l * Felt.ofNat 16 * Felt.ofNat s = T ↔
      2 ^ l * 16 * s = T.val := by
  have hP := two_pow_160_lt_P
  have hlt := steps_lt l s hl hs
  have hc : Felt.pow (@OfNat.ofNat Felt 2 Fin.instOfNat) l * Felt.ofNat 16 * Felt.ofNat s =
      ((2 ^ l * 16 * s : ℕ) : Felt) := by
    rw [pow2_steps l hl, Felt.ofNat_eq_cast, Felt.ofNat_eq_cast]; push_cast; rfl
  rw [hc]
  constructor
  · intro h
    rw [← h, Felt.val_cast_of_lt (by omega)]
  · intro h
    rw [h, Felt.cast_val]

theorem pmf_ne_zero : Felt.ofNat 8 ≠ (@OfNat.ofNat Felt 0 Fin.instOfNat) := by decide +kernel

theorem table_cells : ∀ row ∈ builtinTable, 1 ≤ row.2.2.2 ∧ row.2.2.2 ≤ 16 := by decide

/-- everything between the scalar tests and `check_asserts`, given what the accepted assertion list says
    about the divisors -/
theorem tail_iff (D : DynData) (hpmf : D.base.constD "PUBLIC_MEMORY_FRACTION" = 8) (pi : PublicInput)
    (dp : Array ℕ) (T : Felt) (hT148 : T.val < 2 ^ 148) (hl : pi.logNSteps.val < 80)
    (facts : AssertFacts D dp T.val) :
    (∃ cs, D.allCopies pi dp T builtinTable = .ok cs ∧
      ∃ mu, fieldDivTry T (D.dpf dp "memory_units_row_ratio") = .ok mu ∧
        Felt.ofNat (D.base.constD "PUBLIC_MEMORY_FRACTION") ≠ (@OfNat.ofNat Felt 0 Fin.instOfNat) ∧
        (memSum D pi mu cs).val ≤ mu.val ∧
      ∃ ru, fieldDivTry T (D.dpf dp "range_check_units_row_ratio") = .ok ru ∧
        (rcSum pi cs).val ≤ ru.val ∧
      ∃ du, fieldDivTry T (D.dpf dp "diluted_units_row_ratio") = .ok du ∧
        (dSum cs).val ≤ du.val) ↔
    ((∀ row ∈ builtinTable, DynBuiltinRowOK D pi dp T.val row) ∧
      4 * 2 ^ pi.logNSteps.val + T.val / D.dpv dp "memory_units_row_ratio" / 8 +
          dynBuiltinCells D dp T.val ≤ T.val / D.dpv dp "memory_units_row_ratio" ∧
      3 * 2 ^ pi.logNSteps.val +
          8 * dynCopies D dp T.val "uses_range_check_builtin" "range_check_builtin_row_ratio" +
          6 * dynCopies D dp T.val "uses_range_check96_builtin" "range_check96_builtin_row_ratio" +
          66 * dynCopies D dp T.val "uses_mul_mod_builtin" "mul_mod_row_ratio" ≤
        T.val / D.dpv dp "range_check_units_row_ratio" ∧
      68 * dynCopies D dp T.val "uses_bitwise_builtin" "bitwise_row_ratio" +
          16384 * dynCopies D dp T.val "uses_keccak_builtin" "keccak_row_ratio" ≤
        T.val / D.dpv dp "diluted_units_row_ratio") := by
  have hT := facts.tpow
  have hall := allCopies_iff D pi dp T hT hT148 builtinTable
    (fun row hr => ⟨(table_cells row hr).1, (table_cells row hr).2, facts.rows row hr⟩)
  have hmu : fieldDivTry T (D.dpf dp "memory_units_row_ratio") =
      .ok (Felt.ofNat (T.val / D.dpv dp "memory_units_row_ratio")) :=
    fieldDivTry_pow2 T hT (facts.units _ (by simp))
  have hru : fieldDivTry T (D.dpf dp "range_check_units_row_ratio") =
      .ok (Felt.ofNat (T.val / D.dpv dp "range_check_units_row_ratio")) :=
    fieldDivTry_pow2 T hT (facts.units _ (by simp))
  have hdu : fieldDivTry T (D.dpf dp "diluted_units_row_ratio") =
      .ok (Felt.ofNat (T.val / D.dpv dp "diluted_units_row_ratio")) :=
    fieldDivTry_pow2 T hT (facts.units _ (by simp))
  constructor
  · rintro ⟨cs, hcs, mu, hmu', _, hmem, ru, hru', hrc, du, hdu', hdil⟩
    obtain ⟨hcs', hrows⟩ := (hall cs).mp hcs
    rw [hmu] at hmu'; cases hmu'
    rw [hru] at hru'; cases hru'
    rw [hdu] at hdu'; cases hdu'
    change cs = copiesList D dp T.val at hcs'
    subst hcs'
    rw [memSum_val D hpmf pi dp T hT148 hl, div_val] at hmem
    rw [rcSum_val D pi dp T hT148 hl, div_val] at hrc
    rw [dSum_val D dp T hT148, div_val] at hdil
    exact ⟨hrows, hmem, hrc, hdil⟩
  · rintro ⟨hrows, hmem, hrc, hdil⟩
    refine ⟨copiesList D dp T.val, (hall _).mpr ⟨rfl, hrows⟩, _, hmu, ?_, ?_, _, hru, ?_, _, hdu, ?_⟩
    · rw [hpmf]; exact pmf_ne_zero
    · rw [memSum_val D hpmf pi dp T hT148 hl, div_val]; exact hmem
    · rw [rcSum_val D pi dp T hT148 hl, div_val]; exact hrc
    · rw [dSum_val D dp T hT148, div_val]; exact hdil

theorem dpv_lt (D : DynData) {dp : Array ℕ} (hdp : ∀ i, dp.getD i 0 < 2 ^ 64) (n : String) :
    D.dpv dp n < 2 ^ 64 := hdp _

theorem rawOK_iff (D : DynData) (hD : DynWellFormed D) (pi : PublicInput) (d : StarkDomains)
    (dp : Array ℕ) (hdp : ∀ i, dp.getD i 0 < 2 ^ 64) :
    RawOK D pi d dp ↔ DynPublicInputOKWith D pi dp d.traceDomainSize.val := by
  unfold RawOK DynPublicInputOKWith
  generalize d.traceDomainSize = T
  rw [hD.maxLogNSteps, hD.maxRangeCheck, hD.cpuHeight, ofNat_val_self, hD.asserts]
  have htl : ∀ hl : pi.logNSteps.val < 80, _ := fun hl =>
    trace_len_check pi.logNSteps.val (D.dpv dp "cpu_component_step") hl (dpv_lt D hdp _) T
  constructor
  · rintro ⟨a1, a2, a3, a4, a5, a6, a7, cs, hcs, mu, hmu, hp, hmem, ru, hru, hrc, du, hdu, hdil, hC⟩
    have a2n := (htl a1).mp a2
    have hT148 : T.val < 2 ^ 148 := by
      rw [← a2n]; exact steps_lt _ _ a1 (dpv_lt D hdp _)
    have facts := assertFacts D hD.dpFields hdp hC
    obtain ⟨hrows, hm, hr, hd⟩ := (tail_iff D hD.publicMemoryFraction pi dp T hT148 a1 facts).mp
      ⟨cs, hcs, mu, hmu, hp, hmem, ru, hru, hrc, du, hdu, hdil⟩
    rw [hD.publicMemoryFraction]
    exact ⟨a1, a2n, a3, a4, a5, a6, a7, hrows, hm, hr, hd, hC⟩
  · rintro ⟨a1, a2n, a3, a4, a5, a6, a7, hrows, hm, hr, hd, hC⟩
    rw [hD.publicMemoryFraction] at hm
    have hT148 : T.val < 2 ^ 148 := by
      rw [← a2n]; exact steps_lt _ _ a1 (dpv_lt D hdp _)
    have facts := assertFacts D hD.dpFields hdp hC
    obtain ⟨cs, hcs, mu, hmu, hp, hmem, ru, hru, hrc, du, hdu, hdil⟩ :=
      (tail_iff D hD.publicMemoryFraction pi dp T hT148 a1 facts).mpr ⟨hrows, hm, hr, hd⟩
    exact ⟨a1, (htl a1).mpr a2n, a3, a4, a5, a6, a7, cs, hcs, mu, hmu, hp, hmem, ru, hru, hrc, du, hdu,
      hdil, hC⟩

/-- MAIN: acceptance by the dynamic layout's `validate_public_input` is exactly the natural-number
    specification -/
theorem validate_iff (D : DynData) (hD : DynWellFormed D) (pi : PublicInput)
    (hpi : ∀ dpl, pi.dynamicParams = some dpl → ∀ x ∈ dpl, x < 2 ^ 64) (d : StarkDomains) :
    D.validatePublicInput pi d = .ok () ↔ DynPublicInputOK D pi d.traceDomainSize.val := by
  rw [validate_ok_raw]
  unfold DynPublicInputOK
  refine exists_congr fun dpl => and_congr_right fun hdpl => ?_
  exact rawOK_iff D hD pi d dpl.toArray (DynAsserts.getD_lt_of_forall (hpi dpl hdpl))

end Swiftness.Proofs.DynPIC
