/-
  Soundness of `checkScope` (property C16, "no term silently vanishes"): under the flag discipline
  (`flagMap p` is defined: guard slots are loaded once, before use, and never rewritten) a statement
  that is EXECUTED never reads a non-accumulator slot whose most recent assignment (in program
  order) was SKIPPED or does not exist — the value read is the one that assignment computed, not a
  stale/default one.

  `staleReads inp p A` lists (statement index, slot) of all such reads in the actual run of `p` on
  `inp`; the theorem is `staleReads inp p A = []`.
-/
import Swiftness.Model.AstCheck
import Swiftness.Proofs.AstChainFlags

namespace Swiftness.Proofs.AstLinear
open Swiftness Swiftness.Ast
attribute [-instance] Fin.instOfNat

/-! ### the semantic notion -/

/-- Ghost run.  `stale v = true` iff the most recent statement (in program order) that writes `v`
    was skipped because its guard was off, or no statement has written `v` yet.  Returns the reads
    of stale non-accumulator slots by executed statements, as (statement index, slot). -/
def staleFrom (inp : Inputs) (A : Nat) : Prog → Store → (Nat → Bool) → Nat → List (Nat × Nat)
  | [], _, _, _ => []
  | g :: rest, st, stale, k =>
    if guardsHold st g.guards then
      ((g.stmt.reads.filter fun v => !A.testBit v && stale v).map fun v => (k, v)) ++
        match g.stmt.exec inp st with
        | .ok st' => staleFrom inp A rest st' (fun v => if v = g.stmt.dst then false else stale v) (k + 1)
        | _ => []
    else staleFrom inp A rest st (fun v => if v = g.stmt.dst then true else stale v) (k + 1)

/-- the stale reads of the run of `p` on `inp` from the all-zero store -/
def staleReads (inp : Inputs) (p : Prog) (A : Nat) : List (Nat × Nat) :=
  staleFrom inp A p (fun _ => 0) (fun _ => true) 0

/-! ### bit lemmas -/

theorem testBit_bit (x y : Nat) : (1 <<< x).testBit y = decide (x = y) := by
  rw [Nat.one_shiftLeft, Nat.testBit_two_pow]

/-! ### the checker state after a write -/

theorem Expr.allVars_eq (f : Nat → Bool) (e : Expr) : e.allVars f = e.vars.all f := by
  induction e with
  | var s => simp [Expr.allVars, Expr.vars]
  | add a b iha ihb => simp [Expr.allVars, Expr.vars, iha, ihb]
  | sub a b iha ihb => simp [Expr.allVars, Expr.vars, iha, ihb]
  | mul a b iha ihb => simp [Expr.allVars, Expr.vars, iha, ihb]
  | fdiv a b iha ihb => simp [Expr.allVars, Expr.vars, iha, ihb]
  | floorDiv a b iha ihb => simp [Expr.allVars, Expr.vars, iha, ihb]
  | powFelt a b iha ihb => simp [Expr.allVars, Expr.vars, iha, ihb]
  | neg a iha => simp [Expr.allVars, Expr.vars, iha]
  | _ => simp [Expr.allVars, Expr.vars]

theorem Stmt.allReads_eq (f : Nat → Bool) (s : Stmt) : s.allReads f = s.reads.all f := by
  cases s <;> simp [Stmt.allReads, Stmt.reads, Expr.allVars_eq]

theorem guardMask_set (l : List (Nat × Nat)) (g x g' : Nat) :
    guardMask (guardMaskSet l g x) g' =
      if g' = g then guardMask l g ||| (1 <<< x) else guardMask l g' := by
  induction l with
  | nil =>
    simp only [guardMaskSet, guardMask]
    by_cases h : g' = g
    · subst h; simp
    · have : ¬ g = g' := fun e => h e.symm
      simp [h, this]
  | cons e rest ih =>
    obtain ⟨k, m⟩ := e
    simp only [guardMaskSet]
    by_cases hk : k = g
    · subst hk
      simp only [if_true, guardMask]
      by_cases h : g' = k
      · subst h; simp
      · have : ¬ k = g' := fun e => h e.symm
        simp [h, this]
    · simp only [hk, if_false, guardMask]
      by_cases h : g' = g
      · subst h
        simp only [hk, if_false, ih, if_true]
      · simp only [h, if_false]
        by_cases hk' : k = g'
        · simp [hk']
        · simp only [hk', if_false, ih, h]

/-! ### frame properties -/

theorem exec_dst (inp : Inputs) (st st1 : Store) (s : Stmt) (h : s.exec inp st = .ok st1) :
    ∀ y, y ≠ s.dst → st1 y = st y := by
  intro y hy
  cases s with
  | set x e =>
    simp only [Stmt.exec] at h
    split at h
    · cases h; exact set_ne _ hy
    · cases h
    · cases h
  | acc dst src i e =>
    simp only [Stmt.exec] at h
    split at h
    · cases h; exact set_ne _ hy
    all_goals cases h

theorem flagStep_facts {φ φ1 : FlagState} {gs : List Nat} {s : Stmt}
    (h : flagStep φ gs s = some φ1) :
    (∀ g ∈ gs, φ.mask.testBit g = true) ∧ φ.mask.testBit s.dst = false ∧
    (∀ y, φ.mask.testBit y = true → φ1.mask.testBit y = true) := by
  unfold flagStep at h
  split at h
  · next hc =>
    simp only [Bool.and_eq_true, Bool.not_eq_true', List.all_eq_true] at hc
    refine ⟨hc.1, hc.2, ?_⟩
    split at h
    · cases h
      intro y hy
      simp only [testBit_or_bit, hy, Bool.true_or]
    · cases h
      exact fun y hy => hy
  · cases h

/-! ### the invariant -/

structure SInv (A : Nat) (σ : ScopeState) (φ : FlagState) (st : Store) (stale : Nat → Bool) :
    Prop where
  /-- non-accumulator slot, written, never under a guard: the latest writer was executed -/
  plain : ∀ v, A.testBit v = false → σ.wr.testBit v = true → σ.gd.testBit v = false →
    stale v = false
  /-- written under `g`: `g` is a loaded flag, and if it is on, the latest writer was executed -/
  guarded : ∀ g v, (guardMask σ.byGuard g).testBit v = true →
    φ.mask.testBit g = true ∧ σ.wr.testBit v = true ∧ σ.gd.testBit v = true ∧
    A.testBit v = false ∧ (st g ≠ 0 → stale v = false)
  /-- no slot is written under two different guards -/
  uniq : ∀ g g' v, (guardMask σ.byGuard g).testBit v = true →
    (guardMask σ.byGuard g').testBit v = true → g = g'

theorem SInv.init (A : Nat) (φ : FlagState) (st : Store) :
    SInv A ⟨A, 0, []⟩ φ st (fun _ => true) :=
  ⟨fun v hA hw => by simp only at hw; rw [hA] at hw; exact Bool.noConfusion hw,
   fun g v h => by simp [guardMask] at h, fun g g' v h => by simp [guardMask] at h⟩

/-- a write to an accumulator slot leaves the checker state alone -/
theorem SInv.step_acc {A : Nat} {σ : ScopeState} {φ φ1 : FlagState} {st st1 : Store}
    {stale : Nat → Bool} (gs : List Nat) (s : Stmt) (b : Bool) (h : SInv A σ φ st stale)
    (hA : A.testBit s.dst = true) (hfl : flagStep φ gs s = some φ1)
    (hframe : ∀ y, y ≠ s.dst → st1 y = st y) :
    SInv A σ φ1 st1 (fun v => if v = s.dst then b else stale v) := by
  obtain ⟨-, hdst, hmono⟩ := flagStep_facts hfl
  refine ⟨?_, ?_, h.uniq⟩
  · intro v hv hw hg
    have hne : v ≠ s.dst := by intro e; rw [e, hA] at hv; exact Bool.noConfusion hv
    simp only [if_neg hne]
    exact h.plain v hv hw hg
  · intro g v hm
    obtain ⟨h1, h2, h3, h4, h5⟩ := h.guarded g v hm
    have hne : v ≠ s.dst := by intro e; rw [e, hA] at h4; exact Bool.noConfusion h4
    refine ⟨hmono g h1, h2, h3, h4, fun hn => ?_⟩
    simp only [if_neg hne]
    have hgx : g ≠ s.dst := by intro e; rw [e, hdst] at h1; exact Bool.noConfusion h1
    rw [hframe g hgx] at hn
    exact h5 hn

/-- an unguarded statement (always executed) -/
theorem SInv.step_plain {A : Nat} {σ σ1 : ScopeState} {φ φ1 : FlagState} {st st1 : Store}
    {stale : Nat → Bool} (s : Stmt) (h : SInv A σ φ st stale)
    (hsc : scopeStep A σ [] s = some σ1) (hfl : flagStep φ [] s = some φ1)
    (hframe : ∀ y, y ≠ s.dst → st1 y = st y) :
    (s.reads.filter fun v => !A.testBit v && stale v) = [] ∧
    SInv A σ1 φ1 st1 (fun v => if v = s.dst then false else stale v) := by
  obtain ⟨-, hdst, hmono⟩ := flagStep_facts hfl
  simp only [scopeStep, Stmt.allReads_eq] at hsc
  split at hsc
  · next hall =>
    constructor
    · rw [List.filter_eq_nil_iff]
      intro v hv
      simp only [List.all_eq_true, Bool.and_eq_true, Bool.not_eq_true'] at hall
      obtain ⟨hw, hg⟩ := hall v hv
      by_cases hA : A.testBit v = true
      · simp [hA]
      · have hA' : A.testBit v = false := by simpa using hA
        simp [h.plain v hA' hw hg]
    · split at hsc
      · next hAd =>
        cases hsc
        exact h.step_acc [] s false hAd hfl hframe
      · next hAd =>
        have hAd' : A.testBit s.dst = false := by simpa using hAd
        cases hsc
        refine ⟨?_, ?_, ?_⟩
        · intro v hA hw hg
          by_cases hv : v = s.dst
          · simp [hv]
          · simp only [if_neg hv]
            simp only [testBit_or_bit, Bool.or_eq_true, decide_eq_true_eq] at hw
            rcases hw with hw | hw
            · exact h.plain v hA hw hg
            · exact absurd hw.symm hv
        · intro g v hm
          obtain ⟨h1, h2, h3, h4, h5⟩ := h.guarded g v hm
          refine ⟨hmono g h1, by simp [h2], h3, h4, fun hne => ?_⟩
          by_cases hv : v = s.dst
          · simp [hv]
          · simp only [if_neg hv]
            have hgx : g ≠ s.dst := by
              intro e; rw [e, hdst] at h1; exact Bool.noConfusion h1
            rw [hframe g hgx] at hne
            exact h5 hne
        · exact h.uniq
  · cases hsc

/-- a statement guarded by `[g]`; `b = true` iff it is skipped -/
theorem SInv.step_guarded {A : Nat} {σ σ1 : ScopeState} {φ φ1 : FlagState} {st st1 : Store}
    {stale : Nat → Bool} (g : Nat) (s : Stmt) (b : Bool) (h : SInv A σ φ st stale)
    (hsc : scopeStep A σ [g] s = some σ1) (hfl : flagStep φ [g] s = some φ1)
    (hframe : ∀ y, y ≠ s.dst → st1 y = st y) (hb : b = true → st g = 0) :
    (st g ≠ 0 → (s.reads.filter fun v => !A.testBit v && stale v) = []) ∧
    SInv A σ1 φ1 st1 (fun v => if v = s.dst then b else stale v) := by
  obtain ⟨hG, hdst, hmono⟩ := flagStep_facts hfl
  have hgm : φ.mask.testBit g = true := hG g (by simp)
  have hstg : ∀ g', φ.mask.testBit g' = true → st1 g' = st g' := by
    intro g' hg'
    apply hframe
    intro e; rw [e, hdst] at hg'; exact Bool.noConfusion hg'
  simp only [scopeStep, Stmt.allReads_eq] at hsc
  split at hsc
  · next hreads =>
    simp only [List.all_eq_true, Bool.and_eq_true, Bool.or_eq_true, Bool.not_eq_true'] at hreads
    constructor
    · intro hne
      rw [List.filter_eq_nil_iff]
      intro v hv
      by_cases hA : A.testBit v = true
      · simp [hA]
      · have hA' : A.testBit v = false := by simpa using hA
        obtain ⟨hw, hg | hm⟩ := hreads v hv
        · simp [h.plain v hA' hw hg]
        · simp [(h.guarded g v hm).2.2.2.2 hne]
    · split at hsc
      · next hAd =>
        cases hsc
        exact h.step_acc [g] s b hAd hfl hframe
      · next hAd =>
        have hAd' : A.testBit s.dst = false := by simpa using hAd
        split at hsc
        · next hwrite =>
          cases hsc
          simp only [Bool.or_eq_true, Bool.not_eq_true'] at hwrite
          -- the slot written now is under no other guard
          have hother : ∀ g', g' ≠ g → (guardMask σ.byGuard g').testBit s.dst = false := by
            intro g' hne
            by_contra hc
            have hc' : (guardMask σ.byGuard g').testBit s.dst = true := by simpa using hc
            rcases hwrite with hg | hm
            · have := (h.guarded g' s.dst hc').2.2.1
              rw [hg] at this; exact Bool.noConfusion this
            · exact hne (h.uniq g' g s.dst hc' hm)
          have hmask : ∀ g' v, (guardMask (guardMaskSet σ.byGuard g s.dst) g').testBit v = true →
              (g' = g ∧ v = s.dst) ∨ (guardMask σ.byGuard g').testBit v = true := by
            intro g' v hm
            rw [guardMask_set] at hm
            split at hm
            · next hgg =>
              simp only [testBit_or_bit, Bool.or_eq_true, decide_eq_true_eq] at hm
              rcases hm with hm | hm
              · right; rw [hgg]; exact hm
              · left; exact ⟨hgg, hm.symm⟩
            · right; exact hm
          refine ⟨?_, ?_, ?_⟩
          · intro v hA hw hg
            simp only [testBit_or_bit, Bool.or_eq_false_iff, decide_eq_false_iff_not] at hg
            have hv : v ≠ s.dst := fun e => hg.2 e.symm
            simp only [if_neg hv]
            simp only [testBit_or_bit, Bool.or_eq_true, decide_eq_true_eq] at hw
            rcases hw with hw | hw
            · exact h.plain v hA hw hg.1
            · exact absurd hw.symm hv
          · intro g' v hm
            rcases hmask g' v hm with ⟨hgg, hvx⟩ | hold
            · subst hgg; subst hvx
              refine ⟨hmono _ hgm, by simp, by simp, hAd', fun hne => ?_⟩
              simp only [if_true]
              rw [hstg _ hgm] at hne
              cases b with
              | false => rfl
              | true => exact absurd (hb rfl) hne
            · obtain ⟨h1, h2, h3, h4, h5⟩ := h.guarded g' v hold
              refine ⟨hmono g' h1, by simp [h2], by simp [h3], h4, fun hne => ?_⟩
              rw [hstg g' h1] at hne
              by_cases hv : v = s.dst
              · subst hv
                simp only [if_true]
                have hgg : g' = g := by
                  by_contra hc
                  rw [hother g' hc] at hold
                  exact Bool.noConfusion hold
                subst hgg
                cases b with
                | false => rfl
                | true => exact absurd (hb rfl) hne
              · simp only [if_neg hv]
                exact h5 hne
          · intro g1 g2 v hm1 hm2
            rcases hmask g1 v hm1 with ⟨hg1, hv1⟩ | hold1
            · rcases hmask g2 v hm2 with ⟨hg2, -⟩ | hold2
              · rw [hg1, hg2]
              · subst hv1
                by_contra hc
                have : g2 ≠ g := fun e => hc (by rw [hg1, e])
                rw [hother g2 this] at hold2
                exact Bool.noConfusion hold2
            · rcases hmask g2 v hm2 with ⟨hg2, hv2⟩ | hold2
              · subst hv2
                by_contra hc
                have : g1 ≠ g := fun e => hc (by rw [hg2, e])
                rw [hother g1 this] at hold1
                exact Bool.noConfusion hold1
              · exact h.uniq g1 g2 v hold1 hold2
        · cases hsc
  · cases hsc

/-! ### whole programs -/

theorem stale_run (inp : Inputs) (A : Nat) (p : Prog) :
    ∀ {σ σf : ScopeState} {φ φf : FlagState} {st : Store} {stale : Nat → Bool} (k : Nat),
      scopeFrom A p σ = some σf → flagsFrom p φ = some φf → SInv A σ φ st stale →
      staleFrom inp A p st stale k = [] := by
  induction p with
  | nil => intros; rfl
  | cons g rest ih =>
    intro σ σf φ φf st stale k hsc hfl hinv
    obtain ⟨gs, s⟩ := g
    simp only [scopeFrom] at hsc
    simp only [flagsFrom] at hfl
    cases hs : scopeStep A σ gs s with
    | none => simp [hs] at hsc
    | some σ1 =>
      cases hf : flagStep φ gs s with
      | none => simp [hf] at hfl
      | some φ1 =>
        simp only [hs] at hsc
        simp only [hf] at hfl
        simp only [staleFrom]
        cases gs with
        | nil =>
          simp only [guardsHold_nil, if_true]
          cases hex : s.exec inp st with
          | ok st1 =>
            obtain ⟨hfresh, hinv1⟩ := hinv.step_plain s hs hf (exec_dst inp st st1 s hex)
            rw [hfresh]
            exact ih (k + 1) hsc hfl hinv1
          | err x =>
            obtain ⟨hfresh, -⟩ := hinv.step_plain (st1 := st) s hs hf (fun _ _ => rfl)
            rw [hfresh]; rfl
          | panic x =>
            obtain ⟨hfresh, -⟩ := hinv.step_plain (st1 := st) s hs hf (fun _ _ => rfl)
            rw [hfresh]; rfl
        | cons g gs' =>
          cases gs' with
          | cons g2 gs'' => simp [scopeStep] at hs
          | nil =>
            rw [guardsHold_single]
            by_cases hg0 : st g = 0
            · have : (st g != 0) = false := by simp [hg0]
              simp only [this, Bool.false_eq_true, if_false]
              obtain ⟨-, hinv1⟩ := hinv.step_guarded (st1 := st) g s true hs hf (fun _ _ => rfl)
                (fun _ => hg0)
              exact ih (k + 1) hsc hfl hinv1
            · have : (st g != 0) = true := by simp [hg0]
              simp only [this, if_true]
              cases hex : s.exec inp st with
              | ok st1 =>
                obtain ⟨hfresh, hinv1⟩ := hinv.step_guarded g s false hs hf
                  (exec_dst inp st st1 s hex) (fun e => Bool.noConfusion e)
                rw [hfresh hg0]
                exact ih (k + 1) hsc hfl hinv1
              | err x =>
                obtain ⟨hfresh, -⟩ := hinv.step_guarded (st1 := st) g s false hs hf
                  (fun _ _ => rfl) (fun e => Bool.noConfusion e)
                rw [hfresh hg0]; rfl
              | panic x =>
                obtain ⟨hfresh, -⟩ := hinv.step_guarded (st1 := st) g s false hs hf
                  (fun _ _ => rfl) (fun e => Bool.noConfusion e)
                rw [hfresh hg0]; rfl

/-- **Soundness of `checkScope`.**  For every input, in the run of `p` no executed statement reads
    a non-accumulator slot whose most recent assignment was skipped (or is missing). -/
theorem scope_sound (p : Prog) (A : Nat) (hs : checkScope p A = true)
    (hf : (flagMap p).isSome = true) (inp : Inputs) : staleReads inp p A = [] := by
  unfold checkScope at hs
  unfold flagMap at hf
  obtain ⟨σf, hσ⟩ := Option.isSome_iff_exists.1 hs
  cases hφ : flagsFrom p ⟨0, []⟩ with
  | none => simp [hφ] at hf
  | some φf =>
    exact stale_run inp A p 0 hσ hφ (SInv.init A _ _)

/-! ### the unpacked evaluator, `++` homomorphism and tactics -/

theorem scopeGo_eq (A : Nat) (p : Prog) (wr gd : Nat) (bg : List (Nat × Nat)) :
    scopeGo A p wr gd bg = scopeFrom A p ⟨wr, gd, bg⟩ := by
  induction p generalizing wr gd bg with
  | nil => rfl
  | cons g rest ih =>
    obtain ⟨gs, s⟩ := g
    cases gs with
    | nil =>
      simp only [scopeGo, scopeFrom, scopeStep]
      split
      · split
        · exact ih _ _ _
        · exact ih _ _ _
      · rfl
    | cons k gs' =>
      cases gs' with
      | nil =>
        simp only [scopeGo, scopeFrom, scopeStep]
        split
        · split
          · exact ih _ _ _
          · split
            · exact ih _ _ _
            · rfl
        · rfl
      | cons k2 gs'' => simp only [scopeGo, scopeFrom, scopeStep]

theorem scopeFrom_append (A : Nat) (p q : Prog) (σ : ScopeState) :
    scopeFrom A (p ++ q) σ = (scopeFrom A p σ).bind (scopeFrom A q) := by
  induction p generalizing σ with
  | nil => rfl
  | cons g rest ih =>
    simp only [List.cons_append, scopeFrom]
    cases scopeStep A σ g.guards g.stmt with
    | none => rfl
    | some σ1 => exact ih σ1

theorem scopeGo_append (A : Nat) (p q : Prog) (wr gd : Nat) (bg : List (Nat × Nat)) :
    scopeGo A (p ++ q) wr gd bg =
      (scopeGo A p wr gd bg).bind fun σ => scopeGo A q σ.wr σ.gd σ.byGuard := by
  rw [scopeGo_eq, scopeFrom_append, ← scopeGo_eq]
  congr 1
  funext σ
  rw [scopeGo_eq]

theorem checkScope_of_go (p : Prog) (A : Nat) (h : (scopeGo A p A 0 []).isSome = true) :
    checkScope p A = true := by
  unfold checkScope
  rwa [← scopeGo_eq]

/-- `ast_scope f` proves `checkScope f A = true` -/
macro "ast_scope " f:ident : tactic =>
  `(tactic| (apply checkScope_of_go; unfold $f; (try simp only [scopeGo_append]); decide +kernel))

/-- `ast_flags f` proves `(flagMap f).isSome = true` -/
macro "ast_flags " f:ident : tactic =>
  `(tactic| (unfold flagMap $f; (try simp only [flagsFrom_append]); decide +kernel))

end Swiftness.Proofs.AstLinear
