/-
  C17, instrumented semantics, part 1: `queries.rs` — twins and erasure.  Core Lean only.
  (conventions: `Proofs/TickedBasic.lean`)
-/
import Swiftness.Proofs.TickedBasic

namespace Swiftness.Ticked
open Swiftness Queries

/-- twin of `Queries.sample`: per sample one loop iteration and one transcript squeeze -/
def sampleT (H : Hashes) (bound : Nat) : Nat → Transcript → Tk (List Felt × Transcript)
  | 0, t => pure ([], t)
  | n + 1, t => do
    Tk.tick 1
    let (r, t') ← randomFeltT H t
    let s := Felt.ofNat ((r.val % DIVISOR) % bound)
    let (rest, t'') ← sampleT H bound n t'
    pure (s :: rest, t'')

def insertSortedT (x : Felt) : List Felt → Tk (List Felt)
  | [] => do Tk.tick 1; pure [x]
  | y :: ys => do
    Tk.tick 1
    if x.val ≤ y.val then pure (x :: y :: ys)
    else do
      let r ← insertSortedT x ys
      pure (y :: r)

def sortT : List Felt → Tk (List Felt)
  | [] => pure []
  | x :: xs => do
    Tk.tick 1
    let s ← sortT xs
    insertSortedT x s

def dedupT : List Felt → Tk (List Felt)
  | [] => pure []
  | [x] => do Tk.tick 1; pure [x]
  | x :: y :: t => do
    Tk.tick 1
    if x = y then dedupT (y :: t)
    else do
      let r ← dedupT (y :: t)
      pure (x :: r)

def generateQueriesT (H : Hashes) (t : Transcript) (nSamples bound : Felt) : TO (List Felt × Transcript) := do
  TO.tick 1
  if nSamples.val ≥ 2 ^ 128 then TO.panic "queries.rs:generate_queries:unwrap:0"
  else if nSamples.val > 0 ∧ bound = 0 then TO.panic "queries.rs:generate_queries:unwrap:1"
  else do
    let (s, t') ← sampleT H bound.val nSamples.val t
    let s1 ← sortT s
    let s2 ← dedupT s1
    pure (s2, t')

def reverseBits64AuxT : Nat → Nat → Nat → Tk Nat
  | 0, _, acc => pure acc
  | k + 1, n, acc => do
    Tk.tick 1
    reverseBits64AuxT k (n / 2) (acc * 2 + n % 2)

def reverseBits64T (n : Nat) : Tk Nat := reverseBits64AuxT 64 n 0

def pointsLoopT (shift : Felt) (evalGen : Felt) : List Felt → TO (List Felt)
  | [] => pure []
  | q :: qs => do
    TO.tick 1
    let idx := (q * shift).val
    if idx ≥ 2 ^ 64 then TO.panic "queries.rs:queries_to_points:unwrap"
    else do
      let ps ← pointsLoopT shift evalGen qs
      let r ← reverseBits64T idx
      let x ← powT evalGen r
      pure (FIELD_GENERATOR * x :: ps)

def queriesToPointsT (queries : List Felt) (d : StarkDomains) : TO (List Felt) := do
  TO.tick 1
  if d.logEvalDomainSize.val > MAX_DOMAIN_SIZE then TO.panic "queries.rs:queries_to_points:assert"
  else do
    let shift ← powT 2 (Felt.ofNat MAX_DOMAIN_SIZE - d.logEvalDomainSize).val
    pointsLoopT shift d.evalGenerator queries

/-! ### erasure -/

@[simp] theorem sampleT_val (H : Hashes) (bound n : Nat) (t : Transcript) :
    (sampleT H bound n t).val = sample H bound n t := by
  induction n generalizing t with
  | zero => rfl
  | succ n ih => simp [sampleT, sample, ih]

@[simp] theorem insertSortedT_val (x : Felt) (l : List Felt) : (insertSortedT x l).val = insertSorted x l := by
  induction l with
  | nil => rfl
  | cons y ys ih =>
    simp only [insertSortedT, insertSorted, Tk.bind_val]
    split <;> simp [ih]

@[simp] theorem sortT_val (l : List Felt) : (sortT l).val = sort l := by
  induction l with
  | nil => rfl
  | cons x xs ih => simp [sortT, sort, ih]

@[simp] theorem dedupT_val (l : List Felt) : (dedupT l).val = dedup l := by
  fun_induction dedup l <;> simp_all [dedupT]

@[simp] theorem generateQueriesT_out (H : Hashes) (t : Transcript) (n bound : Felt) :
    (generateQueriesT H t n bound).out = generateQueries H t n bound := by
  simp only [generateQueriesT, generateQueries, TO.bind_out, TO.tick_out, Outcome.bind_ok]
  repeat' split
  all_goals simp

@[simp] theorem reverseBits64AuxT_val (k n acc : Nat) :
    (reverseBits64AuxT k n acc).val = reverseBits64Aux k n acc := by
  induction k generalizing n acc with
  | zero => rfl
  | succ k ih => simp [reverseBits64AuxT, reverseBits64Aux, ih]

@[simp] theorem reverseBits64T_val (n : Nat) : (reverseBits64T n).val = reverseBits64 n :=
  reverseBits64AuxT_val 64 n 0

@[simp] theorem pointsLoopT_out (shift g : Felt) (qs : List Felt) :
    (pointsLoopT shift g qs).out = pointsLoop shift g qs := by
  induction qs with
  | nil => rfl
  | cons q qs ih =>
    simp only [pointsLoopT, pointsLoop, TO.bind_out, TO.tick_out, Outcome.bind_ok]
    repeat' split
    all_goals simp_all

@[simp] theorem queriesToPointsT_out (qs : List Felt) (d : StarkDomains) :
    (queriesToPointsT qs d).out = queriesToPoints qs d := by
  simp only [queriesToPointsT, queriesToPoints, TO.bind_out, TO.tick_out, Outcome.bind_ok]
  split <;> simp

end Swiftness.Ticked
