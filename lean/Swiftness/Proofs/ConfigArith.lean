/-
  C11 helper lemmas, part 2: the field-level acceptance condition is the natural-number
  condition `Spec.ConfigOK` — no accepted equality holds only modulo `P`.
-/
import Swiftness.Proofs.ConfigBasic

namespace Swiftness.Proofs.ConfigLemmas
open Swiftness Swiftness.Spec
attribute [-instance] Fin.instOfNat

/-! ### field ↔ natural-number conversions -/

theorem val_add_of_lt (a b : Felt) (h : a.val + b.val < P) : (a + b).val = a.val + b.val :=
  Fin.val_add_eq_of_add_lt h

theorem eq_add_of_val (a b c : Felt) (h : a.val = b.val + c.val) : a = b + c := by
  rw [← Felt.cast_val a, h]; push_cast; rw [Felt.cast_val, Felt.cast_val]

theorem eq_add_iff (a b c : Felt) (h : b.val + c.val < P) : a = b + c ↔ a.val = b.val + c.val := by
  constructor
  · intro e; rw [e, val_add_of_lt b c h]
  · exact eq_add_of_val a b c

theorem sub_cast_val (a : Felt) (k : ℕ) (hk : k ≤ a.val) : (a - ((k : ℕ) : Felt)).val = a.val - k := by
  have h1 : a - ((k : ℕ) : Felt) = (((a.val - k : ℕ)) : Felt) := by
    have : a = (((a.val - k : ℕ)) : Felt) + ((k : ℕ) : Felt) := by
      rw [← Nat.cast_add, Nat.sub_add_cancel hk, Felt.cast_val]
    conv_lhs => rw [this]
    ring
  rw [h1]
  apply Felt.val_cast_of_lt
  have := a.isLt
  omega

theorem eq_sub_cast_iff (h a : Felt) (k : ℕ) (hk : k ≤ a.val) :
    h = a - ((k : ℕ) : Felt) ↔ h.val + k = a.val := by
  rw [Fin.ext_iff, sub_cast_val a k hk]
  omega

theorem small_lt_P (n : ℕ) (h : n ≤ 2 ^ 128) : n < P :=
  lt_of_le_of_lt h PowLemmas.two_pow_128_lt_P

theorem pow2_eq_iff (x s : Felt) (hs : s.val ≤ 4) :
    x = Felt.pow two' s.val ↔ x.val = 2 ^ s.val := by
  rw [Fin.ext_iff, PowLemmas.pow2_val _ (by omega)]

theorem securityBits_val (c : StarkConfig) (hq : c.nQueries.val ≤ 48) (hc : c.logNCosets.val ≤ 16)
    (hp : c.powBits ≤ 50) :
    c.securityBits.val = c.nQueries.val * c.logNCosets.val + c.powBits := by
  unfold StarkConfig.securityBits
  have hm : c.nQueries.val * c.logNCosets.val ≤ 48 * 16 := Nat.mul_le_mul hq hc
  have h1 : (c.nQueries * c.logNCosets).val = c.nQueries.val * c.logNCosets.val := by
    rw [Fin.val_mul]
    exact Nat.mod_eq_of_lt (small_lt_P _ (by norm_num; omega))
  have h2 : (Felt.ofNat c.powBits).val = c.powBits := by
    rw [Felt.ofNat_eq_cast]
    exact Felt.val_cast_of_lt (small_lt_P _ (by norm_num; omega))
  rw [val_add_of_lt _ _ (by rw [h1, h2]; exact small_lt_P _ (by norm_num; omega)), h1, h2]

/-! ### sums of steps -/

theorem natSum_le (l : List Felt) (h : ∀ x ∈ l, x.val ≤ 4) : natSum l ≤ 4 * l.length := by
  induction l with
  | nil => simp [natSum_nil]
  | cons a l ih =>
    rw [natSum_cons, List.length_cons]
    have h1 := h a (by simp)
    have h2 := ih (fun x hx => h x (by simp [hx]))
    omega

theorem natSum_take_mono (l : List Felt) (j k : ℕ) (hjk : j ≤ k) :
    natSum (l.take j) ≤ natSum (l.take k) := by
  induction l generalizing j k with
  | nil => simp
  | cons a l ih =>
    cases j with
    | zero => simp [natSum_nil]
    | succ j =>
      cases k with
      | zero => omega
      | succ k =>
        simp only [List.take_succ_cons, natSum_cons]
        have := ih j k (by omega)
        omega

theorem stepSum_mono (steps : List Felt) (j k : ℕ) (hjk : j ≤ k) :
    stepSum steps j ≤ stepSum steps k := by
  rw [stepSum_eq, stepSum_eq]; exact natSum_take_mono _ j k hjk

/-- if the steps `1 .. n-1` are all at most 4, the sum of the first `k ≤ n-1` of them is at most `4k` -/
theorem stepSum_le (steps : List Felt) (n k : ℕ) (hk : k ≤ n - 1)
    (h : ∀ i, 1 ≤ i → i < n → ∀ s, steps[i]? = some s → s.val ≤ 4) :
    stepSum steps k ≤ 4 * k := by
  rw [stepSum_eq]
  have hlen : ((steps.drop 1).take k).length ≤ k := by simp [List.length_take]
  refine le_trans (natSum_le _ ?_) (by omega)
  intro x hx
  obtain ⟨j, hj⟩ := List.mem_iff_getElem?.mp hx
  rw [List.getElem?_take] at hj
  split at hj
  · next hjk =>
    rw [List.getElem?_drop] at hj
    exact h (1 + j) (by omega) (by omega) x hj
  · exact absurd hj (by simp)

/-! ### the loop, indexed -/

theorem LoopOK_iff_indexed (nf : Felt) (ss : List Felt) (tcs : List Fri.TableConfig) (lis : Felt) :
    LoopOK nf ss tcs lis ↔
      ss.length ≤ tcs.length ∧
      ∀ j, j < ss.length → ∃ s tc, ss[j]? = some s ∧ tcs[j]? = some tc ∧
        (1 ≤ s.val ∧ s.val ≤ 4) ∧ tc.nColumns = Felt.pow two' s.val ∧
        tc.vector.height = lis - ((natSum (ss.take (j + 1)) : ℕ) : Felt) ∧
        tc.vector.nFriendly = nf := by
  induction ss generalizing tcs lis with
  | nil => simp [LoopOK]
  | cons s ss ih =>
    cases tcs with
    | nil => simp [LoopOK]
    | cons tc tcs =>
      unfold LoopOK
      rw [ih]
      have hcast : ∀ j, lis - s - ((natSum (ss.take (j + 1)) : ℕ) : Felt) =
          lis - ((natSum ((s :: ss).take (j + 1 + 1)) : ℕ) : Felt) := by
        intro j
        rw [List.take_succ_cons, natSum_cons]; push_cast; rw [Felt.cast_val]; ring
      have h0 : lis - s = lis - ((natSum ((s :: ss).take (0 + 1)) : ℕ) : Felt) := by
        simp [natSum_cons, natSum_nil, Felt.cast_val]
      constructor
      · rintro ⟨hs, hcol, ⟨hh, hf⟩, hlen, hall⟩
        refine ⟨by simpa using hlen, ?_⟩
        intro j hj
        cases j with
        | zero => exact ⟨s, tc, by simp, by simp, hs, hcol, h0 ▸ hh, hf⟩
        | succ j =>
          obtain ⟨s', tc', e1, e2, b, cl, hh', hf'⟩ := hall j (by simpa using hj)
          exact ⟨s', tc', by simpa using e1, by simpa using e2, b, cl, hcast j ▸ hh', hf'⟩
      · rintro ⟨hlen, hall⟩
        obtain ⟨s', tc', e1, e2, b, cl, hh', hf'⟩ := hall 0 (by simp)
        have e1' : s' = s := by simpa using e1.symm
        have e2' : tc' = tc := by simpa using e2.symm
        subst e1' e2'
        refine ⟨b, cl, ⟨h0 ▸ hh', hf'⟩, by simpa using hlen, ?_⟩
        intro j hj
        obtain ⟨s'', tc'', e1, e2, b, cl, hh', hf'⟩ := hall (j + 1) (by simpa using hj)
        exact ⟨s'', tc'', by simpa using e1, by simpa using e2, b, cl, (hcast j).symm ▸ hh', hf'⟩

/-- inner layer `i` at the field level -/
def InnerFelt (fri : Fri.Config) (nf : Felt) (i : ℕ) : Prop :=
  ∃ step tc, fri.friStepSizes[i]? = some step ∧ fri.innerLayers[i - 1]? = some tc ∧
    (1 ≤ step.val ∧ step.val ≤ 4) ∧ tc.nColumns = Felt.pow two' step.val ∧
    tc.vector.height = fri.logInputSize - ((stepSum fri.friStepSizes i : ℕ) : Felt) ∧
    tc.vector.nFriendly = nf

theorem loop_iff_inner (fri : Fri.Config) (nf : Felt)
    (h1 : fri.nLayers.val ≤ fri.friStepSizes.length)
    (h2 : fri.nLayers.val - 1 ≤ fri.innerLayers.length) :
    LoopOK nf ((fri.friStepSizes.drop 1).take (fri.nLayers.val - 1))
      (fri.innerLayers.take (fri.nLayers.val - 1)) fri.logInputSize ↔
    ∀ i, 1 ≤ i → i < fri.nLayers.val → InnerFelt fri nf i := by
  rcases fri with ⟨lis, nL, inner, steps, last⟩
  simp only at h1 h2 ⊢
  generalize nL.val = n at h1 h2 ⊢
  rw [LoopOK_iff_indexed]
  have hl1 : ((steps.drop 1).take (n - 1)).length = n - 1 := by
    simp only [List.length_take, List.length_drop]; omega
  have hl2 : (inner.take (n - 1)).length = n - 1 := by
    simp only [List.length_take]; omega
  have hss : ∀ j, j < n - 1 → ((steps.drop 1).take (n - 1))[j]? = steps[j + 1]? := by
    intro j hj
    rw [List.getElem?_take, if_pos hj, List.getElem?_drop, Nat.add_comm]
  have htc : ∀ j, j < n - 1 → (inner.take (n - 1))[j]? = inner[j]? := by
    intro j hj
    rw [List.getElem?_take, if_pos hj]
  have htk : ∀ j, j < n - 1 →
      natSum (((steps.drop 1).take (n - 1)).take (j + 1)) = stepSum steps (j + 1) := by
    intro j hj
    rw [stepSum_eq, List.take_take, min_eq_left (by omega)]
  rw [hl1, hl2]
  unfold InnerFelt
  simp only
  constructor
  · rintro ⟨_, hall⟩ i hi1 hi2
    obtain ⟨s, tc, e1, e2, b, cl, hh, hf⟩ := hall (i - 1) (by omega)
    rw [hss _ (by omega)] at e1
    rw [htc _ (by omega)] at e2
    rw [htk _ (by omega)] at hh
    have e : i - 1 + 1 = i := by omega
    rw [e] at e1 hh
    exact ⟨s, tc, e1, e2, b, cl, hh, hf⟩
  · intro hall
    refine ⟨le_refl _, ?_⟩
    intro j hj
    obtain ⟨s, tc, e1, e2, b, cl, hh, hf⟩ := hall (j + 1) (by omega) (by omega)
    refine ⟨s, tc, ?_, ?_, b, cl, ?_, hf⟩
    · rw [hss _ hj]; exact e1
    · rw [htc _ hj]; simpa using e2
    · rw [htk _ hj]; exact hh

theorem innerFelt_iff (fri : Fri.Config) (nf : Felt) (i : ℕ)
    (hle : stepSum fri.friStepSizes i ≤ fri.logInputSize.val) :
    InnerFelt fri nf i ↔ InnerLayerOK fri nf i := by
  unfold InnerFelt InnerLayerOK
  constructor
  · rintro ⟨s, tc, e1, e2, ⟨b1, b2⟩, cl, hh, hf⟩
    exact ⟨s, tc, e1, e2, b1, b2, (pow2_eq_iff _ _ b2).mp cl,
      (eq_sub_cast_iff _ _ _ hle).mp hh, hf⟩
  · rintro ⟨s, tc, e1, e2, b1, b2, cl, hh, hf⟩
    exact ⟨s, tc, e1, e2, ⟨b1, b2⟩, (pow2_eq_iff _ _ b2).mpr cl,
      (eq_sub_cast_iff _ _ _ hle).mpr hh, hf⟩

/-! ### FRI configuration: field level ↔ natural numbers -/

/-- natural-number reading of the FRI part of `Spec.ConfigOK` -/
def FriOKNat (fri : Fri.Config) (lnc nf t : Felt) : Prop :=
  (2 ≤ fri.nLayers.val ∧ fri.nLayers.val ≤ 15) ∧ fri.logLastLayerDegreeBound.val ≤ 15 ∧
  fri.friStepSizes[0]? = some zero' ∧
  (fri.nLayers.val ≤ fri.friStepSizes.length ∧ fri.nLayers.val - 1 ≤ fri.innerLayers.length) ∧
  (∀ i, 1 ≤ i → i < fri.nLayers.val → InnerLayerOK fri nf i) ∧
  fri.logInputSize.val =
    stepSum fri.friStepSizes (fri.nLayers.val - 1) + fri.logLastLayerDegreeBound.val + lnc.val ∧
  fri.logInputSize.val = t.val + lnc.val

theorem fri_arith (fri : Fri.Config) (lnc nf t : Felt) (hlnc : lnc.val ≤ 16) :
    FriOKFelt fri lnc nf t ↔ FriOKNat fri lnc nf t := by
  unfold FriOKFelt FriOKNat
  constructor
  · rintro ⟨hn, hl, h0, hlen, hloop, hdeg, hsum⟩
    rw [loop_iff_inner fri nf hlen.1 hlen.2] at hloop
    have hst : ∀ i, 1 ≤ i → i < fri.nLayers.val → ∀ s, fri.friStepSizes[i]? = some s → s.val ≤ 4 := by
      intro i h1 h2 s hs
      obtain ⟨s', tc, e1, _, b, _⟩ := hloop i h1 h2
      rw [hs] at e1; injection e1 with e1; subst e1; exact b.2
    have hS := stepSum_le fri.friStepSizes fri.nLayers.val (fri.nLayers.val - 1) (le_refl _) hst
    have hcastS : (((stepSum fri.friStepSizes (fri.nLayers.val - 1) : ℕ)) : Felt).val =
        stepSum fri.friStepSizes (fri.nLayers.val - 1) :=
      Felt.val_cast_of_lt (small_lt_P _ (by norm_num; omega))
    have ht : t.val = stepSum fri.friStepSizes (fri.nLayers.val - 1) +
        fri.logLastLayerDegreeBound.val := by
      rw [hdeg, val_add_of_lt _ _ (by rw [hcastS]; exact small_lt_P _ (by norm_num; omega)), hcastS]
    have hlis : fri.logInputSize.val = t.val + lnc.val := by
      rw [← hsum, val_add_of_lt _ _ (small_lt_P _ (by norm_num; omega))]
    refine ⟨hn, hl, h0, hlen, ?_, by omega, hlis⟩
    intro i h1 h2
    have hm := stepSum_mono fri.friStepSizes i (fri.nLayers.val - 1) (by omega)
    exact (innerFelt_iff fri nf i (by omega)).mp (hloop i h1 h2)
  · rintro ⟨hn, hl, h0, hlen, hinner, hlis1, hlis2⟩
    have hst : ∀ i, 1 ≤ i → i < fri.nLayers.val → ∀ s, fri.friStepSizes[i]? = some s → s.val ≤ 4 := by
      intro i h1 h2 s hs
      obtain ⟨s', tc, e1, _, _, b, _⟩ := hinner i h1 h2
      rw [hs] at e1; injection e1 with e1; subst e1; exact b
    have hS := stepSum_le fri.friStepSizes fri.nLayers.val (fri.nLayers.val - 1) (le_refl _) hst
    have hcastS : (((stepSum fri.friStepSizes (fri.nLayers.val - 1) : ℕ)) : Felt).val =
        stepSum fri.friStepSizes (fri.nLayers.val - 1) :=
      Felt.val_cast_of_lt (small_lt_P _ (by norm_num; omega))
    refine ⟨hn, hl, h0, hlen, ?_, ?_, ?_⟩
    · rw [loop_iff_inner fri nf hlen.1 hlen.2]
      intro i h1 h2
      have hm := stepSum_mono fri.friStepSizes i (fri.nLayers.val - 1) (by omega)
      exact (innerFelt_iff fri nf i (by omega)).mpr (hinner i h1 h2)
    · apply eq_add_of_val; rw [hcastS]; omega
    · exact (eq_add_of_val _ _ _ hlis2).symm

/-! ### the whole configuration -/

theorem starkOKFelt_iff_spec (c : StarkConfig) (sec nc1 nc2 : Felt)
    (hcols : 1 ≤ nc1.val ∧ nc1.val ≤ 128 ∧ 1 ≤ nc2.val ∧ nc2.val ≤ 128) :
    StarkOKFelt c sec nc1 nc2 ↔ ConfigOK c sec nc1 nc2 := by
  unfold StarkOKFelt ConfigOK VectorOK
  constructor
  · rintro ⟨hp, hc, hq, hsec, ⟨_, _, e1, e2, ⟨hh1, hf1⟩, ⟨hh2, hf2⟩⟩, ⟨hh3, hf3⟩, hfri⟩
    rw [fri_arith _ _ _ _ hc.2] at hfri
    obtain ⟨hn, hl, h0, hlen, hinner, hlis1, hlis2⟩ := hfri
    have hltP : c.logTraceDomainSize.val + c.logNCosets.val < P := by
      rw [← hlis2]; exact c.fri.logInputSize.isLt
    rw [securityBits_val c hq.2 hc.2 hp.2] at hsec
    exact ⟨hp, hc, hq, hsec, e1, e2, ⟨(eq_add_iff _ _ _ hltP).mp hh1, hf1⟩,
      ⟨(eq_add_iff _ _ _ hltP).mp hh2, hf2⟩, ⟨(eq_add_iff _ _ _ hltP).mp hh3, hf3⟩,
      hn, hlen.1, hlen.2, h0, hinner, hl, hlis1, hlis2⟩
  · rintro ⟨hp, hc, hq, hsec, e1, e2, ⟨hh1, hf1⟩, ⟨hh2, hf2⟩, ⟨hh3, hf3⟩,
      hn, hlen1, hlen2, h0, hinner, hl, hlis1, hlis2⟩
    rw [fri_arith _ _ _ _ hc.2, securityBits_val c hq.2 hc.2 hp.2]
    refine ⟨hp, hc, hq, hsec, ⟨?_, ?_, e1, e2, ⟨eq_add_of_val _ _ _ hh1, hf1⟩,
      ⟨eq_add_of_val _ _ _ hh2, hf2⟩⟩, ⟨eq_add_of_val _ _ _ hh3, hf3⟩,
      hn, hl, h0, ⟨hlen1, hlen2⟩, hinner, hlis1, hlis2⟩
    · rw [e1]; exact ⟨hcols.1, hcols.2.1⟩
    · rw [e2]; exact ⟨hcols.2.2.1, hcols.2.2.2⟩

end Swiftness.Proofs.ConfigLemmas
