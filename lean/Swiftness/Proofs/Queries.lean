/-
  Helper lemmas for C10 (`crates/stark/src/queries.rs`): sampling, sort/dedup, bit reversal,
  query points.
-/
import Swiftness.Model.Queries
import Swiftness.Proofs.FeltField
import Swiftness.Proofs.Domains

namespace Swiftness.Proofs
open Swiftness Swiftness.Queries
attribute [-instance] Fin.instOfNat

/-! ### raw samples -/

/-- the `k`-th raw sample drawn from transcript `t`: `(poseidon2 digest (counter+k)) mod 2^128 mod bound`
    on canonical representatives -/
def rawSample (H : Hashes) (t : Transcript) (bound : ℕ) (k : ℕ) : ℕ :=
  (H.poseidon2 t.digest (t.counter + (k : Felt))).val % 2 ^ 128 % bound

theorem DIVISOR_eq : DIVISOR = 2 ^ 128 := by decide +kernel

theorem one_felt : (@OfNat.ofNat Felt 1 Fin.instOfNat) = (1 : Felt) := by
  rw [felt_ofNat, Nat.cast_one]

theorem sample_eq (H : Hashes) (bound n : ℕ) (t : Transcript) :
    sample H bound n t =
      ((List.range n).map (fun k => Felt.ofNat (rawSample H t bound k)),
        { t with counter := t.counter + (n : Felt) }) := by
  induction n generalizing t with
  | zero =>
    cases t
    simp [sample]
  | succ n ih =>
    simp only [sample, Transcript.randomFelt, ih]
    rw [List.range_succ_eq_map, List.map_cons, List.map_map]
    have h0 : rawSample H t bound 0 = (H.poseidon2 t.digest t.counter).val % DIVISOR % bound := by
      simp [rawSample, DIVISOR_eq]
    have hk : ∀ k, rawSample H { digest := t.digest, counter := t.counter + 1 } bound k
        = rawSample H t bound (k + 1) := by
      intro k
      simp only [rawSample]
      rw [one_felt]
      push_cast
      rw [add_assoc, add_comm (1 : Felt)]
    rw [h0]
    congr 1
    · congr 1
      apply List.map_congr_left
      intro k _
      simp only [Function.comp]
      rw [one_felt] at *
      rw [hk]
    · rw [one_felt]
      push_cast
      congr 1
      ring

theorem rawSample_lt (H : Hashes) (t : Transcript) (bound k : ℕ) (hb : 0 < bound) :
    rawSample H t bound k < bound := Nat.mod_lt _ hb

theorem ofNat_rawSample_val (H : Hashes) (t : Transcript) (bound : Felt) (k : ℕ)
    (hb : 0 < bound.val) :
    (Felt.ofNat (rawSample H t bound.val k)).val = rawSample H t bound.val k := by
  have h1 := rawSample_lt H t bound.val k hb
  have h2 : bound.val < P := bound.isLt
  show rawSample H t bound.val k % P = _
  exact Nat.mod_eq_of_lt (by omega)

/-! ### sort / dedup -/

theorem mem_insertSorted (x y : Felt) (l : List Felt) :
    y ∈ insertSorted x l ↔ y = x ∨ y ∈ l := by
  induction l with
  | nil => simp [insertSorted]
  | cons z zs ih =>
    simp only [insertSorted]
    split
    · simp
    · simp only [List.mem_cons, ih]
      tauto

theorem mem_sort (y : Felt) (l : List Felt) : y ∈ sort l ↔ y ∈ l := by
  induction l with
  | nil => simp [sort]
  | cons z zs ih => simp [sort, mem_insertSorted, ih]

theorem length_insertSorted (x : Felt) (l : List Felt) :
    (insertSorted x l).length = l.length + 1 := by
  induction l with
  | nil => simp [insertSorted]
  | cons z zs ih =>
    simp only [insertSorted]
    split <;> simp [ih]

theorem length_sort (l : List Felt) : (sort l).length = l.length := by
  induction l with
  | nil => simp [sort]
  | cons z zs ih => simp [sort, length_insertSorted, ih]

theorem insertSorted_sorted (x : Felt) (l : List Felt)
    (h : l.Pairwise (fun a b => a.val ≤ b.val)) :
    (insertSorted x l).Pairwise (fun a b => a.val ≤ b.val) := by
  induction l with
  | nil => simp [insertSorted]
  | cons z zs ih =>
    simp only [insertSorted]
    rw [List.pairwise_cons] at h
    split
    · next hle =>
      refine List.pairwise_cons.2 ⟨?_, List.pairwise_cons.2 h⟩
      intro a ha
      rcases List.mem_cons.1 ha with rfl | ha
      · exact hle
      · exact Nat.le_trans hle (h.1 a ha)
    · next hle =>
      refine List.pairwise_cons.2 ⟨?_, ih h.2⟩
      intro a ha
      rcases (mem_insertSorted x a zs).1 ha with rfl | ha
      · omega
      · exact h.1 a ha

theorem sort_sorted (l : List Felt) : (sort l).Pairwise (fun a b => a.val ≤ b.val) := by
  induction l with
  | nil => simp [sort]
  | cons z zs ih => exact insertSorted_sorted z _ ih

theorem mem_dedup (y : Felt) (l : List Felt) : y ∈ dedup l ↔ y ∈ l := by
  fun_induction dedup l with
  | case1 => simp
  | case2 x => simp
  | case3 x t ih =>
    rw [ih]; simp
  | case4 x z t h ih =>
    simp only [List.mem_cons] at ih ⊢
    rw [ih]

theorem length_dedup (l : List Felt) : (dedup l).length ≤ l.length := by
  fun_induction dedup l with
  | case1 => simp
  | case2 x => simp
  | case3 x t ih => simp only [List.length_cons] at ih ⊢; omega
  | case4 x z t h ih => simp only [List.length_cons] at ih ⊢; omega

theorem dedup_strict (l : List Felt) (hs : l.Pairwise (fun a b => a.val ≤ b.val)) :
    (dedup l).Pairwise (fun a b => a.val < b.val) := by
  fun_induction dedup l with
  | case1 => simp
  | case2 x => simp
  | case3 x t ih => exact ih (List.pairwise_cons.1 hs).2
  | case4 x z t h ih =>
    rw [List.pairwise_cons] at hs
    refine List.pairwise_cons.2 ⟨?_, ih hs.2⟩
    intro a ha
    rw [mem_dedup] at ha
    have hxz : x.val ≤ z.val := hs.1 z (List.mem_cons_self)
    have hne : x.val ≠ z.val := fun e => h (Fin.ext e)
    rcases List.mem_cons.1 ha with rfl | ha
    · omega
    · have := (List.pairwise_cons.1 hs.2).1 a ha
      omega

/-! ### `generate_queries` -/

theorem generateQueries_eq (H : Hashes) (t : Transcript) (n bound : Felt)
    (hn : n.val < 2 ^ 128) (hb : bound ≠ 0 ∨ n = 0) :
    generateQueries H t n bound =
      .ok (dedup (sort ((List.range n.val).map (fun k => Felt.ofNat (rawSample H t bound.val k)))),
        { t with counter := t.counter + n }) := by
  unfold generateQueries
  rw [if_neg (by omega)]
  have hc : ¬ (n.val > 0 ∧ bound = (@OfNat.ofNat Felt 0 Fin.instOfNat)) := by
    rw [zero_felt]
    rintro ⟨h1, h2⟩
    rcases hb with hb | hb
    · exact hb h2
    · subst hb; simp at h1
  rw [if_neg hc, sample_eq, Felt.cast_val]

theorem generateQueries_no_err (H : Hashes) (t : Transcript) (n bound : Felt) (e : String) :
    generateQueries H t n bound ≠ .err e := by
  unfold generateQueries
  split
  · simp
  · split <;> simp

theorem generateQueries_panic_iff (H : Hashes) (t : Transcript) (n bound : Felt) :
    (∃ s, generateQueries H t n bound = .panic s) ↔
      (2 ^ 128 ≤ n.val ∨ (n ≠ 0 ∧ bound = 0)) := by
  constructor
  · rintro ⟨s, hs⟩
    by_contra hcon
    push Not at hcon
    have hb : bound ≠ 0 ∨ n = 0 := by
      by_cases h : n = 0
      · exact Or.inr h
      · exact Or.inl (hcon.2 h)
    rw [generateQueries_eq H t n bound hcon.1 hb] at hs
    cases hs
  · intro h
    unfold generateQueries
    by_cases h1 : n.val ≥ 2 ^ 128
    · rw [if_pos h1]; exact ⟨_, rfl⟩
    · rw [if_neg h1]
      rcases h with h | ⟨h2, h3⟩
      · exact absurd h h1
      · have : n.val > 0 ∧ bound = (@OfNat.ofNat Felt 0 Fin.instOfNat) := by
          rw [zero_felt]
          refine ⟨?_, h3⟩
          rcases Nat.eq_zero_or_pos n.val with h0 | h0
          · exact absurd (Fin.ext (by rw [h0]; rfl)) h2
          · exact h0
        rw [if_pos this]; exact ⟨_, rfl⟩

theorem bound_pos {bound : Felt} (hb : bound ≠ 0) : 0 < bound.val := by
  rcases Nat.eq_zero_or_pos bound.val with h0 | h0
  · exact absurd (Fin.ext (by rw [h0]; rfl)) hb
  · exact h0

section ok
variable {H : Hashes} {t t' : Transcript} {n bound : Felt} {qs : List Felt}

theorem queries_shape (h : generateQueries H t n bound = .ok (qs, t')) (hb : bound ≠ 0) :
    qs = dedup (sort ((List.range n.val).map (fun k => Felt.ofNat (rawSample H t bound.val k)))) ∧
      t' = { t with counter := t.counter + n } := by
  have hn : n.val < 2 ^ 128 := by
    by_contra hcon
    unfold generateQueries at h
    rw [if_pos (by omega)] at h
    cases h
  rw [generateQueries_eq H t n bound hn (Or.inl hb)] at h
  injection h with h
  injection h with h1 h2
  exact ⟨h1.symm, h2.symm⟩

theorem queries_mem_iff (h : generateQueries H t n bound = .ok (qs, t')) (hb : bound ≠ 0)
    (q : Felt) : q ∈ qs ↔ ∃ k, k < n.val ∧ q = Felt.ofNat (rawSample H t bound.val k) := by
  rw [(queries_shape h hb).1, mem_dedup, mem_sort, List.mem_map]
  constructor
  · rintro ⟨k, hk, rfl⟩
    exact ⟨k, List.mem_range.1 hk, rfl⟩
  · rintro ⟨k, hk, rfl⟩
    exact ⟨k, List.mem_range.2 hk, rfl⟩

theorem queries_in_range (h : generateQueries H t n bound = .ok (qs, t')) (hb : bound ≠ 0) :
    ∀ q ∈ qs, q.val < bound.val := by
  intro q hq
  obtain ⟨k, _, rfl⟩ := (queries_mem_iff h hb q).1 hq
  rw [ofNat_rawSample_val H t bound k (bound_pos hb)]
  exact rawSample_lt H t _ k (bound_pos hb)

theorem queries_strict (h : generateQueries H t n bound = .ok (qs, t')) (hb : bound ≠ 0) :
    qs.Pairwise (fun a b => a.val < b.val) := by
  rw [(queries_shape h hb).1]
  exact dedup_strict _ (sort_sorted _)

theorem queries_length_le (h : generateQueries H t n bound = .ok (qs, t')) (hb : bound ≠ 0) :
    qs.length ≤ n.val := by
  rw [(queries_shape h hb).1]
  refine Nat.le_trans (length_dedup _) ?_
  rw [length_sort]; simp

theorem queries_counter (h : generateQueries H t n bound = .ok (qs, t')) (hb : bound ≠ 0) :
    t'.counter = t.counter + n ∧ t'.digest = t.digest := by
  rw [(queries_shape h hb).2]; exact ⟨rfl, rfl⟩

theorem queries_set (h : generateQueries H t n bound = .ok (qs, t')) (hb : bound ≠ 0) (v : ℕ) :
    (∃ q ∈ qs, q.val = v) ↔ ∃ k, k < n.val ∧ v = rawSample H t bound.val k := by
  constructor
  · rintro ⟨q, hq, rfl⟩
    obtain ⟨k, hk, rfl⟩ := (queries_mem_iff h hb q).1 hq
    exact ⟨k, hk, ofNat_rawSample_val H t bound k (bound_pos hb)⟩
  · rintro ⟨k, hk, rfl⟩
    exact ⟨_, (queries_mem_iff h hb _).2 ⟨k, hk, rfl⟩, ofNat_rawSample_val H t bound k (bound_pos hb)⟩

end ok

/-! ### bit reversal -/

/-- `k`-bit reversal: bit `j` of `i` (for `j < k`) moves to position `k-1-j`; higher bits of `i`
    are ignored.  `bitrev k i = Σ_{j<k} bit_j(i)·2^(k-1-j)`. -/
def bitrev : ℕ → ℕ → ℕ
  | 0, _ => 0
  | k + 1, i => (i % 2) * 2 ^ k + bitrev k (i / 2)

theorem bitrev_lt (k i : ℕ) : bitrev k i < 2 ^ k := by
  induction k generalizing i with
  | zero => simp [bitrev]
  | succ k ih =>
    have := ih (i / 2)
    have h2 : i % 2 < 2 := Nat.mod_lt _ (by norm_num)
    simp only [bitrev, pow_succ]
    nlinarith

theorem reverseBits64Aux_eq (k n acc : ℕ) :
    reverseBits64Aux k n acc = acc * 2 ^ k + bitrev k n := by
  induction k generalizing n acc with
  | zero => simp [reverseBits64Aux, bitrev]
  | succ k ih =>
    simp only [reverseBits64Aux, bitrev, ih, pow_succ]
    ring

theorem reverseBits64_eq (n : ℕ) : reverseBits64 n = bitrev 64 n := by
  simp [reverseBits64, reverseBits64Aux_eq]

theorem bitrev_succ_double (k i : ℕ) : bitrev (k + 1) (i * 2) = bitrev k i := by
  simp [bitrev]

theorem bitrev_add_shift (k d i : ℕ) : bitrev (k + d) (i * 2 ^ d) = bitrev k i := by
  induction d with
  | zero => simp
  | succ d ih =>
    rw [← add_assoc, pow_succ, ← mul_assoc, bitrev_succ_double, ih]

theorem reverseBits64_spec (k i : ℕ) (hk : k ≤ 64) :
    reverseBits64 (i * 2 ^ (64 - k)) = bitrev k i := by
  rw [reverseBits64_eq]
  have : 64 = k + (64 - k) := by omega
  conv_lhs => rw [this]
  rw [Nat.add_sub_cancel_left, bitrev_add_shift]

/-- bit `j` of the reversal is bit `k-1-j` of the input -/
theorem bitrev_testBit (k i j : ℕ) (hj : j < k) :
    (bitrev k i).testBit j = i.testBit (k - 1 - j) := by
  induction k generalizing i j with
  | zero => omega
  | succ k ih =>
    simp only [bitrev]
    by_cases hjk : j = k
    · subst hjk
      have hlt := bitrev_lt j (i / 2)
      rw [Nat.mul_comm, Nat.testBit_two_pow_mul_add _ hlt]
      simp [Nat.testBit_zero]
    · have hj' : j < k := by omega
      have hlt := bitrev_lt k (i / 2)
      rw [Nat.mul_comm, Nat.testBit_two_pow_mul_add _ hlt]
      rw [if_pos hj', ih _ _ hj']
      have : k + 1 - 1 - j = (k - 1 - j) + 1 := by omega
      rw [this, Nat.testBit_succ]

/-! ### query points -/

theorem FIELD_GENERATOR_eq' : Queries.FIELD_GENERATOR = (3 : Felt) := by
  have : Queries.FIELD_GENERATOR = ((3 : ℕ) : Felt) := rfl
  rw [this]; norm_num

theorem MAX_DOMAIN_SIZE_eq : MAX_DOMAIN_SIZE = 64 := rfl

theorem two_pow_val (k : ℕ) (hk : k ≤ 64) : ((2 : Felt) ^ k).val = 2 ^ k := by
  have : ((2 : Felt) ^ k) = ((2 ^ k : ℕ) : Felt) := by push_cast; rfl
  rw [this]
  apply Felt.val_cast_of_lt
  calc 2 ^ k ≤ 2 ^ 64 := Nat.pow_le_pow_right (by norm_num) hk
    _ < P := by decide +kernel

theorem shift_eq (l : Felt) (hk : l.val ≤ 64) :
    Felt.pow (@OfNat.ofNat Felt 2 Fin.instOfNat) (Felt.ofNat MAX_DOMAIN_SIZE - l).val
      = (2 : Felt) ^ (64 - l.val) := by
  have hv : (Felt.ofNat MAX_DOMAIN_SIZE - l).val = 64 - l.val := by
    have h64 : (Felt.ofNat MAX_DOMAIN_SIZE).val = 64 := by decide +kernel
    have hle : l ≤ Felt.ofNat MAX_DOMAIN_SIZE := by
      rw [Fin.le_def, h64]; exact hk
    rw [Fin.sub_val_of_le hle, h64]
  rw [hv, pow2_model _ (by have : 64 < P := by decide +kernel
                           omega)]

theorem pointsLoop_eq (k : ℕ) (hk : k ≤ 64) (g : Felt) (qs : List Felt)
    (hq : ∀ q ∈ qs, q.val < 2 ^ k) :
    pointsLoop ((2 : Felt) ^ (64 - k)) g qs = .ok (qs.map fun q => 3 * g ^ bitrev k q.val) := by
  induction qs with
  | nil => simp [pointsLoop]
  | cons q qs ih =>
    have hq0 := hq q (List.mem_cons_self)
    have hidx : (q * (2 : Felt) ^ (64 - k)).val = q.val * 2 ^ (64 - k) := by
      have h1 : q.val * 2 ^ (64 - k) < 2 ^ 64 := by
        have : 2 ^ 64 = 2 ^ k * 2 ^ (64 - k) := by rw [← pow_add]; congr 1; omega
        rw [this]
        exact Nat.mul_lt_mul_of_pos_right hq0 (by positivity)
      have h2 : (2 : ℕ) ^ 64 < P := by decide +kernel
      rw [Fin.val_mul, two_pow_val _ (by omega)]
      exact Nat.mod_eq_of_lt (by omega)
    have hlt : q.val * 2 ^ (64 - k) < 2 ^ 64 := by
      have : 2 ^ 64 = 2 ^ k * 2 ^ (64 - k) := by rw [← pow_add]; congr 1; omega
      rw [this]
      exact Nat.mul_lt_mul_of_pos_right hq0 (by positivity)
    simp only [pointsLoop, hidx]
    rw [if_neg (by omega), ih (fun a ha => hq a (List.mem_cons_of_mem _ ha))]
    simp only [List.map_cons]
    rw [reverseBits64_spec k q.val hk, FIELD_GENERATOR_eq', Felt.pow_eq]
    calc bitrev k q.val < 2 ^ k := bitrev_lt _ _
      _ ≤ 2 ^ 256 := Nat.pow_le_pow_right (by norm_num) (by omega)

theorem points_formula (qs : List Felt) (d : StarkDomains) (k : ℕ)
    (hd : d.logEvalDomainSize.val = k) (hk : k ≤ 64) (hq : ∀ q ∈ qs, q.val < 2 ^ k) :
    queriesToPoints qs d = .ok (qs.map fun q => 3 * d.evalGenerator ^ bitrev k q.val) := by
  unfold queriesToPoints
  rw [if_neg (by rw [MAX_DOMAIN_SIZE_eq]; omega)]
  simp only
  rw [shift_eq _ (by omega), hd]
  exact pointsLoop_eq k hk _ qs hq

theorem points_panic_large (qs : List Felt) (d : StarkDomains)
    (hk : 64 < d.logEvalDomainSize.val) :
    queriesToPoints qs d = .panic "queries.rs:queries_to_points:assert" := by
  unfold queriesToPoints
  rw [if_pos (by rw [MAX_DOMAIN_SIZE_eq]; exact hk)]

end Swiftness.Proofs
