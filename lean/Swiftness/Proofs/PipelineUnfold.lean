/-
  C01 helper lemmas, part 1: an accepting `StarkProof::verify` went through every check.
  Pure case analysis of `Stark.verify`, `Stark.verifyPhase`, `Stark.evalOodsBoundary`,
  `Stark.oodsEvalLoop`, `Stark.verifyOods` (for an arbitrary layout `L` and arbitrary hashes `H`).
-/
import Swiftness.Model.Stark

namespace Swiftness.Proofs.Pipeline
open Swiftness

variable {L : LayoutOps} {H : Hashes}

/-! ### `StarkProof::verify` -/

/-- everything `StarkProof::verify` computed on the way to `Ok` -/
structure Accepting (L : LayoutOps) (H : Hashes) (stone6 : Bool) (p : Stark.Proof) (sec : Felt)
    (r : Felt × Felt) (n1 n2 : Nat) (d : StarkDomains) (t' : Transcript) (c : Stark.Commitment)
    (queries : List Felt) (tq : Transcript) : Prop where
  cols1 : L.numColumnsFirst p.publicInput = some n1
  cols2 : L.numColumnsSecond p.publicInput = some n2
  config : p.config.validate sec (Felt.ofNat n1) (Felt.ofNat n2) = .ok ()
  domains : StarkDomains.new p.config.logTraceDomainSize p.config.logNCosets = .ok d
  publicInput : L.validatePublicInput p.publicInput d = .ok ()
  commit : Stark.commit L H (Transcript.new (p.publicInput.getHash H stone6 p.config.nFriendly))
      p.publicInput p.unsent p.config d = .ok (t', c)
  sampled : Queries.generateQueries H t' p.config.nQueries d.evalDomainSize = .ok (queries, tq)
  phase : Stark.verifyPhase L H n1 n2 p.publicInput queries c p.witness d = .ok ()
  result : L.verifyPublicInput p.publicInput = .ok r

theorem verify_ok_elim {stone6 : Bool} {p : Stark.Proof} {sec : Felt} {r : Felt × Felt}
    (hok : Stark.verify L H stone6 p sec = .ok r) :
    ∃ n1 n2 d t' c queries tq, Accepting L H stone6 p sec r n1 n2 d t' c queries tq := by
  unfold Stark.verify at hok
  split at hok
  · next n1 n2 h1 h2 =>
    split at hok
    · simp at hok
    · simp at hok
    · next hcfg =>
      split at hok
      · simp at hok
      · simp at hok
      · next d hd =>
        split at hok
        · simp at hok
        · simp at hok
        · next hpi =>
          simp only at hok
          split at hok
          · simp at hok
          · simp at hok
          · next t' c hc =>
            split at hok
            · simp at hok
            · simp at hok
            · next qs tq hq =>
              split at hok
              · simp at hok
              · simp at hok
              · next hph => exact ⟨n1, n2, d, t', c, qs, tq, h1, h2, hcfg, hd, hpi, hc, hq, hph, hok⟩
  · simp at hok

/-- conversely these facts are all there is: they imply acceptance with the same result -/
theorem verify_ok_intro {stone6 : Bool} {p : Stark.Proof} {sec : Felt} {r : Felt × Felt}
    {n1 n2 : Nat} {d : StarkDomains} {t' : Transcript} {c : Stark.Commitment} {queries : List Felt}
    {tq : Transcript} (h : Accepting L H stone6 p sec r n1 n2 d t' c queries tq) :
    Stark.verify L H stone6 p sec = .ok r := by
  unfold Stark.verify
  simp only [h.cols1, h.cols2, h.config, h.domains, h.publicInput, h.commit, h.sampled, h.phase,
    h.result]

/-! ### `stark_verify` -/

theorem verifyPhase_ok_elim {n1 n2 : Nat} {pi : PublicInput} {queries : List Felt}
    {c : Stark.Commitment} {w : Stark.Witness} {d : StarkDomains}
    (hok : Stark.verifyPhase L H n1 n2 pi queries c w d = .ok ()) :
    Table.decommit H c.tracesOriginal queries w.tracesOriginalValues w.tracesOriginalAuths = .ok () ∧
    Table.decommit H c.tracesInteraction queries w.tracesInteractionValues
      w.tracesInteractionAuths = .ok () ∧
    Table.decommit H c.composition queries w.compositionValues w.compositionAuths = .ok () ∧
    d.logEvalDomainSize.val ≤ 64 ∧
    ∃ points evals,
      Queries.queriesToPoints queries d = .ok points ∧
      Stark.evalOodsBoundary L n1 n2 pi c.oodsValues c.interactionAfterOods
        c.interactionAfterComposition d.traceGenerator points w.tracesOriginalValues
        w.tracesInteractionValues w.compositionValues = .ok evals ∧
      Fri.verify H queries c.fri evals points w.friLayers = .ok () := by
  unfold Stark.verifyPhase at hok
  simp only at hok
  split at hok
  · simp at hok
  · simp at hok
  · simp at hok
  · simp at hok
  · next hr1 hr2 =>
    split at hok
    · simp at hok
    · simp at hok
    · next hr3 =>
      split at hok
      · simp at hok
      · next hle =>
        split at hok
        · simp at hok
        · simp at hok
        · next points hp =>
          split at hok
          · simp at hok
          · simp at hok
          · next evals he =>
            exact ⟨hr1, hr2, hr3, by omega, points, evals, hp, he, hok⟩

theorem verifyPhase_ok_intro {n1 n2 : Nat} {pi : PublicInput} {queries : List Felt}
    {c : Stark.Commitment} {w : Stark.Witness} {d : StarkDomains} {points evals : List Felt}
    (h1 : Table.decommit H c.tracesOriginal queries w.tracesOriginalValues w.tracesOriginalAuths = .ok ())
    (h2 : Table.decommit H c.tracesInteraction queries w.tracesInteractionValues
      w.tracesInteractionAuths = .ok ())
    (h3 : Table.decommit H c.composition queries w.compositionValues w.compositionAuths = .ok ())
    (h4 : d.logEvalDomainSize.val ≤ 64)
    (h5 : Queries.queriesToPoints queries d = .ok points)
    (h6 : Stark.evalOodsBoundary L n1 n2 pi c.oodsValues c.interactionAfterOods
        c.interactionAfterComposition d.traceGenerator points w.tracesOriginalValues
        w.tracesInteractionValues w.compositionValues = .ok evals)
    (h7 : Fri.verify H queries c.fri evals points w.friLayers = .ok ()) :
    Stark.verifyPhase L H n1 n2 pi queries c w d = .ok () := by
  unfold Stark.verifyPhase
  simp only [h1, h2, h3, h5, h6, h7, if_neg (Nat.not_lt.mpr h4)]

/-! ### `queries_to_points` keeps the number of queries -/

theorem pointsLoop_length (shift g : Felt) : ∀ (qs ps : List Felt),
    Queries.pointsLoop shift g qs = .ok ps → ps.length = qs.length
  | [], ps, h => by
    simp only [Queries.pointsLoop, Outcome.ok.injEq] at h
    subst h; rfl
  | q :: qs, ps, h => by
    simp only [Queries.pointsLoop] at h
    split at h
    · simp at h
    · split at h
      · next ps' hps =>
        simp only [Outcome.ok.injEq] at h
        subst h
        simp [pointsLoop_length shift g qs ps' hps]
      · simp at h
      · simp at h

theorem queriesToPoints_length {qs ps : List Felt} {d : StarkDomains}
    (h : Queries.queriesToPoints qs d = .ok ps) : ps.length = qs.length := by
  unfold Queries.queriesToPoints at h
  split at h
  · simp at h
  · exact pointsLoop_length _ _ _ _ h

/-! ### `eval_oods_boundary_poly_at_points` -/

/-- row `i` of a row-major table with `n` columns -/
def row (n : Nat) (values : List Felt) (i : Nat) : List Felt := (values.drop (i * n)).take n

theorem row_zero (n : Nat) (values : List Felt) : row n values 0 = values.take n := by
  simp [row]

theorem row_succ (n : Nat) (values : List Felt) (i : Nat) :
    row n values (i + 1) = row n (values.drop n) i := by
  simp only [row, List.drop_drop]
  congr 2
  rw [Nat.add_mul, Nat.one_mul, Nat.add_comm]

/-- the loop evaluates the layout's DEEP combination once per point, on the `i`-th rows of the three
    value lists, with the same OODS values / coefficients / OODS point / generator every time -/
theorem oodsEvalLoop_spec {pi : PublicInput} {n1 n2 : Nat} {oodsValues coefs : List Felt}
    {z g : Felt} : ∀ (points v1 v2 v3 evals : List Felt),
    Stark.oodsEvalLoop L pi n1 n2 oodsValues coefs z g points v1 v2 v3 = .ok evals →
    evals.length = points.length ∧
    ∀ i (hi : i < points.length), ∃ y, evals[i]? = some y ∧
      L.evalOods pi (row n1 v1 i ++ row n2 v2 i ++ row L.constraintDegree v3 i) oodsValues coefs
        points[i] z g = .ok y
  | [], v1, v2, v3, evals, h => by
    simp only [Stark.oodsEvalLoop, Outcome.ok.injEq] at h
    subst h
    exact ⟨rfl, fun i hi => absurd hi (by simp)⟩
  | pt :: ps, v1, v2, v3, evals, h => by
    simp only [Stark.oodsEvalLoop] at h
    split at h
    · simp at h
    · simp at h
    · next y hy =>
      split at h
      · next ys hys =>
        simp only [Outcome.ok.injEq] at h
        subst h
        obtain ⟨hl, hrow⟩ := oodsEvalLoop_spec ps _ _ _ ys hys
        refine ⟨by simp [hl], fun i hi => ?_⟩
        cases i with
        | zero =>
          refine ⟨y, by simp, ?_⟩
          simpa [row_zero] using hy
        | succ i =>
          have hi' : i < ps.length := by simpa using hi
          obtain ⟨y', hy1, hy2⟩ := hrow i hi'
          refine ⟨y', by simpa using hy1, ?_⟩
          simpa [row_succ] using hy2
      · next o hne => cases o <;> simp_all

theorem evalOodsBoundary_ok_elim {pi : PublicInput} {n1 n2 : Nat} {oodsValues coefs : List Felt}
    {z g : Felt} {points v1 v2 v3 evals : List Felt}
    (h : Stark.evalOodsBoundary L n1 n2 pi oodsValues coefs z g points v1 v2 v3 = .ok evals) :
    v1.length = points.length * n1 ∧ v2.length = points.length * n2 ∧
    v3.length = points.length * L.constraintDegree ∧
    evals.length = points.length ∧
    ∀ i (hi : i < points.length), ∃ y, evals[i]? = some y ∧
      L.evalOods pi (row n1 v1 i ++ row n2 v2 i ++ row L.constraintDegree v3 i) oodsValues coefs
        points[i] z g = .ok y := by
  unfold Stark.evalOodsBoundary at h
  split at h
  · simp at h
  · next h1 =>
    split at h
    · simp at h
    · next h2 =>
      split at h
      · simp at h
      · next h3 =>
        obtain ⟨hl, hrow⟩ := oodsEvalLoop_spec _ _ _ _ _ h
        exact ⟨by simpa using h1, by simpa using h2, by simpa using h3, hl, hrow⟩

/-! ### the first FRI layer is built from exactly these values -/

theorem gatherFirstLayer_values : ∀ (queries values points : List Felt) (fq : List Fri.LayerQuery),
    queries.length = values.length → Fri.gatherFirstLayer queries values points = .ok fq →
    fq.map (·.index) = queries ∧ fq.map (·.yValue) = values ∧
    fq.map (·.xInvValue) =
      (points.take queries.length).map (fun x => Felt.inv (x * Fri.FIELD_GENERATOR_INVERSE))
  | [], values, points, fq, hl, h => by
    simp only [Fri.gatherFirstLayer, Outcome.ok.injEq] at h
    subst h
    cases values with
    | nil => simp
    | cons v vs => simp at hl
  | q :: qs, values, points, fq, hl, h => by
    cases points with
    | nil => simp [Fri.gatherFirstLayer] at h
    | cons x xs =>
      cases values with
      | nil => simp at hl
      | cons y ys =>
        simp only [Fri.gatherFirstLayer] at h
        split at h
        · simp at h
        · split at h
          · next r hr =>
            simp only [Outcome.ok.injEq] at h
            subst h
            obtain ⟨h1, h2, h3⟩ := gatherFirstLayer_values qs ys xs r (by simpa using hl) hr
            simp [h1, h2, h3]
          · next o hne => cases o <;> simp_all

theorem fri_verify_first_layer {queries : List Felt} {c : Fri.Commitment} {values points : List Felt}
    {w : List Fri.LayerWitness} (h : Fri.verify H queries c values points w = .ok ()) :
    queries.length = values.length ∧
    ∃ fq, Fri.gatherFirstLayer queries values points = .ok fq := by
  unfold Fri.verify at h
  split at h
  · simp at h
  · next hl =>
    split at h
    · next fq hfq => exact ⟨by simpa using hl, fq, hfq⟩
    · simp at h
    · simp at h

/-! ### the rows hashed by `table_decommit` are the rows handed to the DEEP combination -/

theorem row_map (f : Felt → Felt) (n : Nat) (values : List Felt) (i : Nat) :
    row n (values.map f) i = (row n values i).map f := by
  simp [row, List.map_take, List.map_drop]

theorem vectorQueries_rows (n : Nat) (fr : Bool) : ∀ (qs values : List Felt) (i : Nat)
    (hi : i < qs.length),
    (Table.vectorQueries H n fr qs values)[i]? = some ⟨qs[i], Table.rowHash H n fr (row n values i)⟩
  | [], _, i, hi => absurd hi (by simp)
  | q :: qs, values, 0, _ => by simp [Table.vectorQueries, row_zero]
  | q :: qs, values, i + 1, hi => by
    have hi' : i < qs.length := by simpa using hi
    simpa [Table.vectorQueries, row_succ] using vectorQueries_rows n fr qs (values.drop n) i hi'

/-! ### `verify_oods` -/

/-- An accepted `verify_oods`: the list has exactly `MASK_SIZE + CONSTRAINT_DEGREE ≥ 2` entries,
    all but the last two are the mask handed to the composition evaluator, and the last two are
    the halves `a`, `b` of the claimed composition value `a + b·z`. -/
theorem verifyOods_ok_elim {oods interaction : List Felt} {pi : PublicInput} {coefs : List Felt}
    {z tds tg : Felt}
    (h : Stark.verifyOods L oods interaction pi coefs z tds tg = .ok ()) :
    oods.length = L.maskSize + L.constraintDegree ∧ 2 ≤ oods.length ∧
    ∃ fromTrace a b,
      L.evalComposition interaction pi (oods.take (oods.length - 2)) coefs z tds tg = .ok fromTrace ∧
      oods[oods.length - 2]? = some a ∧ oods[oods.length - 1]? = some b ∧
      fromTrace = a + b * z := by
  unfold Stark.verifyOods at h
  split at h
  · simp at h
  · next hlen =>
    split at h
    · simp at h
    · simp at h
    · next fromTrace hft =>
      split at h
      · next a b ha hb =>
        split at h
        · simp at h
        · next hlt =>
          split at h
          · next heq =>
            exact ⟨by simpa using hlen, by omega, fromTrace, a, b, hft, ha, hb, heq⟩
          · simp at h
      · simp at h

/-! ### the shape check on the FRI part of `stark_commit` -/

theorem commit_fri_shape {t t' : Transcript} {pi : PublicInput} {u : Stark.UnsentCommitment}
    {cfg : StarkConfig} {d : StarkDomains} {c : Stark.Commitment}
    (h : Stark.commit L H t pi u cfg d = .ok (t', c)) :
    (Felt.ofNat u.friInnerLayers.length + 1).val ≥ cfg.fri.nLayers.val ∧
    Felt.pow 2 cfg.fri.logLastLayerDegreeBound.val = Felt.ofNat u.friLastLayerCoefficients.length ∧
    c.tracesOriginal = Stark.tableCommitment cfg.traces.original u.tracesOriginal ∧
    c.tracesInteraction = Stark.tableCommitment cfg.traces.interaction u.tracesInteraction ∧
    c.composition = Stark.tableCommitment cfg.composition u.composition ∧
    c.oodsValues = u.oodsValues := by
  unfold Stark.commit at h
  simp only at h
  split at h
  · simp at h
  · simp at h
  · split at h
    · simp at h
    · next hshape =>
      split at h
      · simp at h
      · simp at h
      · split at h
        · simp at h
        · simp at h
        · simp only [Outcome.ok.injEq, Prod.mk.injEq] at h
          obtain ⟨_, rfl⟩ := h
          have hs := Decidable.not_not.mp hshape
          exact ⟨hs.1, hs.2, rfl, rfl, rfl, rfl⟩

end Swiftness.Proofs.Pipeline
