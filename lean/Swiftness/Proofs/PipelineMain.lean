/-
  C01 helper lemmas, part 2: what the checks of an accepting run imply about the parameters
  (configuration ↔ domains ↔ FRI input size ↔ queries ↔ decommitment lengths).
-/
import Swiftness.Proofs.PipelineUnfold
import Swiftness.Proofs.TranscriptCommit
import Swiftness.Proofs.ConfigMain
import Swiftness.Proofs.Domains
import Swiftness.Proofs.Queries
import Swiftness.Proofs.TableProofs

namespace Swiftness.Proofs.Pipeline
open Swiftness Swiftness.Spec
attribute [-instance] Fin.instOfNat

variable {L : LayoutOps} {H : Hashes} {stone6 : Bool} {p : Stark.Proof} {sec : Felt}
  {r : Felt × Felt} {n1 n2 : Nat} {d : StarkDomains} {t' : Transcript} {c : Stark.Commitment}
  {queries : List Felt} {tq : Transcript}

/-- the intermediate values are determined: an accepting run with given outputs of the domain
    construction, the commitment phase and the query sampling is `Accepting` for exactly those -/
theorem accepting_of_parts (hok : Stark.verify L H stone6 p sec = .ok r)
    (hd : StarkDomains.new p.config.logTraceDomainSize p.config.logNCosets = .ok d)
    (hc : Stark.commit L H (Transcript.new (p.publicInput.getHash H stone6 p.config.nFriendly))
      p.publicInput p.unsent p.config d = .ok (t', c))
    (hq : Queries.generateQueries H t' p.config.nQueries d.evalDomainSize = .ok (queries, tq)) :
    ∃ n1 n2, Accepting L H stone6 p sec r n1 n2 d t' c queries tq := by
  obtain ⟨n1, n2, d0, t0, c0, q0, tq0, A⟩ := verify_ok_elim hok
  have e1 : d0 = d := by
    have := A.domains; rw [hd] at this; injection this with this; exact this.symm
  subst e1
  have e2 : t0 = t' ∧ c0 = c := by
    have := A.commit; rw [hc] at this; injection this with this; injection this with a b
    exact ⟨a.symm, b.symm⟩
  obtain ⟨rfl, rfl⟩ := e2
  have e3 : q0 = queries ∧ tq0 = tq := by
    have := A.sampled; rw [hq] at this; injection this with this; injection this with a b
    exact ⟨a.symm, b.symm⟩
  obtain ⟨rfl, rfl⟩ := e3
  exact ⟨n1, n2, A⟩

theorem Accepting.cols_eq (A : Accepting L H stone6 p sec r n1 n2 d t' c queries tq) {m1 m2 : Nat}
    (h1 : L.numColumnsFirst p.publicInput = some m1)
    (h2 : L.numColumnsSecond p.publicInput = some m2) : n1 = m1 ∧ n2 = m2 := by
  have a := A.cols1; rw [h1] at a; injection a with a
  have b := A.cols2; rw [h2] at b; injection b with b
  exact ⟨a.symm, b.symm⟩

/-- the same with the column counts named -/
theorem accepting_of_parts' (hok : Stark.verify L H stone6 p sec = .ok r)
    (h1 : L.numColumnsFirst p.publicInput = some n1)
    (h2 : L.numColumnsSecond p.publicInput = some n2)
    (hd : StarkDomains.new p.config.logTraceDomainSize p.config.logNCosets = .ok d)
    (hc : Stark.commit L H (Transcript.new (p.publicInput.getHash H stone6 p.config.nFriendly))
      p.publicInput p.unsent p.config d = .ok (t', c))
    (hq : Queries.generateQueries H t' p.config.nQueries d.evalDomainSize = .ok (queries, tq)) :
    Accepting L H stone6 p sec r n1 n2 d t' c queries tq := by
  obtain ⟨m1, m2, A⟩ := accepting_of_parts hok hd hc hq
  obtain ⟨rfl, rfl⟩ := A.cols_eq h1 h2
  exact A

/-- the same naming only the domains and the commitment -/
theorem accepting_of_commit (hok : Stark.verify L H stone6 p sec = .ok r)
    (hd : StarkDomains.new p.config.logTraceDomainSize p.config.logNCosets = .ok d)
    (hc : Stark.commit L H (Transcript.new (p.publicInput.getHash H stone6 p.config.nFriendly))
      p.publicInput p.unsent p.config d = .ok (t', c)) :
    ∃ n1 n2 queries tq, Accepting L H stone6 p sec r n1 n2 d t' c queries tq := by
  obtain ⟨n1, n2, d0, t0, c0, q0, tq0, A⟩ := verify_ok_elim hok
  have e1 : d0 = d := by
    have := A.domains; rw [hd] at this; injection this with this; exact this.symm
  subst e1
  have hq := A.sampled
  have e2 : t0 = t' ∧ c0 = c := by
    have := A.commit; rw [hc] at this; injection this with this; injection this with a b
    exact ⟨a.symm, b.symm⟩
  obtain ⟨rfl, rfl⟩ := e2
  exact ⟨n1, n2, q0, tq0, A⟩

/-! ### configuration -/

theorem config_cols {cfg : StarkConfig} {nc1 nc2 : Felt} (h : cfg.validate sec nc1 nc2 = .ok ()) :
    1 ≤ nc1.val ∧ nc1.val ≤ 128 ∧ 1 ≤ nc2.val ∧ nc2.val ≤ 128 ∧
    cfg.traces.original.nColumns = nc1 ∧ cfg.traces.interaction.nColumns = nc2 := by
  rw [ConfigLemmas.stark_validate_ok_iff] at h
  obtain ⟨_, _, _, _, ⟨a, b, e1, e2, _⟩, _⟩ := h
  subst e1 e2
  exact ⟨a.1, a.2, b.1, b.2, rfl, rfl⟩

theorem config_ok {cfg : StarkConfig} {nc1 nc2 : Felt} (h : cfg.validate sec nc1 nc2 = .ok ()) :
    ConfigOK cfg sec nc1 nc2 := by
  obtain ⟨a, b, c', d', _, _⟩ := config_cols h
  exact (ConfigLemmas.validate_iff cfg sec nc1 nc2 ⟨a, b, c', d'⟩).mp h

/-! ### queries -/

theorem queries_nonempty {t : Transcript} {n bound : Felt} {qs : List Felt}
    (h : Queries.generateQueries H t n bound = .ok (qs, tq)) (hb : bound ≠ 0) (hn : 1 ≤ n.val) :
    1 ≤ qs.length := by
  have hm := (Proofs.queries_mem_iff h hb (Felt.ofNat (Proofs.rawSample H t bound.val 0))).2
    ⟨0, by omega, rfl⟩
  exact List.length_pos_of_mem hm

/-! ### the numbers of an accepting run -/

/-- domain sizes, FRI input size, FRI degree bound, query facts -/
theorem Accepting.domain_facts (A : Accepting L H stone6 p sec r n1 n2 d t' c queries tq) :
    let t := p.config.logTraceDomainSize.val
    let k := p.config.logNCosets.val
    (1 ≤ k ∧ k ≤ 16) ∧ t ≤ 71 ∧ t + k ≤ 64 ∧
    (d.evalDomainSize.val = 2 ^ (t + k) ∧ d.traceDomainSize.val = 2 ^ t ∧
      d.logEvalDomainSize.val = t + k ∧ d.logTraceDomainSize = p.config.logTraceDomainSize) ∧
    p.config.fri.logInputSize.val = t + k ∧
    stepSum p.config.fri.friStepSizes (p.config.fri.nLayers.val - 1) +
      p.config.fri.logLastLayerDegreeBound.val = t ∧
    (orderOf d.evalGenerator = 2 ^ (t + k) ∧ orderOf d.traceGenerator = 2 ^ t ∧
      d.traceGenerator = d.evalGenerator ^ (2 ^ k)) ∧
    (∀ q ∈ queries, q.val < 2 ^ (t + k)) ∧
    queries.Pairwise (fun a b => a.val < b.val) ∧
    (1 ≤ queries.length ∧ queries.length ≤ p.config.nQueries.val ∧ p.config.nQueries.val ≤ 48) := by
  intro t k
  have hcfg := config_ok A.config
  obtain ⟨_, hk, hnq, _, _, _, _, _, _, _, _, _, _, _, _, hlis1, hlis2⟩ := hcfg
  have hb := (ConfigLemmas.accepted_facts _ _ _ _ A.config).2
  have ht : t ≤ 71 := hb.1
  have h192 : p.config.logTraceDomainSize.val + p.config.logNCosets.val ≤ 192 := by
    show t + k ≤ 192
    have : k ≤ 16 := hk.2
    omega
  have hs := Proofs.sizes_eq _ _ h192 d A.domains
  obtain ⟨_, _, _, h64, _⟩ := verifyPhase_ok_elim A.phase
  have hbound : d.evalDomainSize ≠ 0 := by
    intro h0
    have := hs.1
    rw [h0] at this
    have hpos : 0 < 2 ^ (p.config.logTraceDomainSize.val + p.config.logNCosets.val) := by positivity
    have hz : (0 : Felt).val = 0 := rfl
    omega
  refine ⟨hk, ht, ?_, hs, hlis2, ?_, ⟨Proofs.eval_generator_order _ _ h192 d A.domains,
    Proofs.trace_generator_order _ _ h192 d A.domains,
    Proofs.trace_eq_eval_pow _ _ h192 d A.domains⟩, ?_, Proofs.queries_strict A.sampled hbound,
    queries_nonempty A.sampled hbound hnq.1, Proofs.queries_length_le A.sampled hbound, hnq.2⟩
  · rw [hs.2.2.1] at h64; exact h64
  · show _ = p.config.logTraceDomainSize.val
    omega
  · intro q hq
    have := Proofs.queries_in_range A.sampled hbound q hq
    rw [hs.1] at this; exact this

/-- the decommitment lengths, and the column counts they force -/
theorem Accepting.shape_facts (A : Accepting L H stone6 p sec r n1 n2 d t' c queries tq) :
    (1 ≤ n1 ∧ n1 ≤ 128 ∧ 1 ≤ n2 ∧ n2 ≤ 128) ∧
    (p.config.traces.original.nColumns.val = n1 ∧ p.config.traces.interaction.nColumns.val = n2 ∧
      p.config.composition.nColumns.val = L.constraintDegree) ∧
    (p.witness.tracesOriginalValues.length = n1 * queries.length ∧
      p.witness.tracesInteractionValues.length = n2 * queries.length ∧
      p.witness.compositionValues.length = L.constraintDegree * queries.length) := by
  obtain ⟨_, _, _, _, _, _, _, _, _, hqs⟩ := A.domain_facts
  have hq1 : 0 < queries.length := hqs.1
  obtain ⟨a1, a2, b1, b2, e1, e2⟩ := config_cols A.config
  obtain ⟨hr1, hr2, hr3, _, points, evals, hp, he, _⟩ := verifyPhase_ok_elim A.phase
  have hpl := queriesToPoints_length hp
  obtain ⟨l1, l2, l3, _, _⟩ := evalOodsBoundary_ok_elim he
  rw [hpl] at l1 l2 l3
  obtain ⟨hs1, hs2, hs3, hs4, hs5, _⟩ := commit_fri_shape A.commit
  have t1 := (Table.table_length_of_ok _ _ _ _ hr1).2
  have t2 := (Table.table_length_of_ok _ _ _ _ hr2).2
  have t3 := (Table.table_length_of_ok _ _ _ _ hr3).2
  rw [hs3] at t1; rw [hs4] at t2; rw [hs5] at t3
  simp only [Stark.tableCommitment] at t1 t2 t3
  have c1 : p.config.traces.original.nColumns.val = n1 := by
    have : p.config.traces.original.nColumns.val * queries.length = queries.length * n1 := by
      rw [← t1, l1]
    rw [Nat.mul_comm] at this
    exact Nat.eq_of_mul_eq_mul_left hq1 this
  have c2 : p.config.traces.interaction.nColumns.val = n2 := by
    have : p.config.traces.interaction.nColumns.val * queries.length = queries.length * n2 := by
      rw [← t2, l2]
    rw [Nat.mul_comm] at this
    exact Nat.eq_of_mul_eq_mul_left hq1 this
  have c3 : p.config.composition.nColumns.val = L.constraintDegree := by
    have : p.config.composition.nColumns.val * queries.length =
        queries.length * L.constraintDegree := by
      rw [← t3, l3]
    rw [Nat.mul_comm] at this
    exact Nat.eq_of_mul_eq_mul_left hq1 this
  rw [e1] at c1; rw [e2] at c2
  refine ⟨by omega, ⟨by rw [e1]; exact c1, by rw [e2]; exact c2, c3⟩, ?_, ?_, ?_⟩
  · rw [l1, Nat.mul_comm]
  · rw [l2, Nat.mul_comm]
  · rw [l3, Nat.mul_comm]

/-- the FRI part of the unsent commitment has the shape the configuration announces -/
theorem Accepting.fri_shape (A : Accepting L H stone6 p sec r n1 n2 d t' c queries tq) :
    p.config.fri.logLastLayerDegreeBound.val ≤ 15 ∧
    p.unsent.friLastLayerCoefficients.length % P = 2 ^ p.config.fri.logLastLayerDegreeBound.val ∧
    (p.config.fri.nLayers - 1).val = p.config.fri.nLayers.val - 1 ∧
    p.config.fri.nLayers.val - 1 ≤ p.unsent.friInnerLayers.length ∧
    c.fri.config = p.config.fri ∧
    c.fri.lastLayerCoefficients = p.unsent.friLastLayerCoefficients ∧
    c.fri.evalPoints.length = p.config.fri.nLayers.val - 1 := by
  have hcfg := config_ok A.config
  obtain ⟨_, _, _, _, _, _, _, _, _, hn, _, _, _, _, hl, _, _⟩ := hcfg
  obtain ⟨_, hpow, _⟩ := commit_fri_shape A.commit
  obtain ⟨_, _, _, _, _, _, _, he, hi, _, hlc, _, _⟩ := Tr.commit_run H L _ _ _ _ _ _ _ A.commit
  have hsub : (p.config.fri.nLayers - 1).val = p.config.fri.nLayers.val - 1 := by
    have h1 : ((1 : Felt)).val = 1 := rfl
    rw [Fin.sub_val_of_le (by rw [Fin.le_def, h1]; omega), h1]
  have hfc : c.fri.config = p.config.fri := by
    have hc := A.commit
    unfold Stark.commit at hc
    simp only at hc
    split at hc
    · simp at hc
    · simp at hc
    · split at hc
      · simp at hc
      · split at hc
        · simp at hc
        · simp at hc
        · next tf fc hfri =>
          split at hc
          · simp at hc
          · simp at hc
          · simp only [Outcome.ok.injEq, Prod.mk.injEq] at hc
            obtain ⟨_, rfl⟩ := hc
            exact (Tr.friCommit_run H _ _ _ _ _ _ hfri).2.2.2.1
  refine ⟨hl, ?_, hsub, by rw [← hsub]; exact hi, hfc, hlc, by rw [he, hsub]⟩
  have hv := congrArg Fin.val hpow
  rw [Proofs.pow2_model _ (by have : 15 < P := by decide +kernel
                              omega), Proofs.two_pow_val _ (by omega)] at hv
  rw [hv]
  rfl

/-! ### the OODS consistency check and the DEEP values use the same list -/

theorem Accepting.oods_facts (A : Accepting L H stone6 p sec r n1 n2 d t' c queries tq) :
    let t0 := Transcript.new (p.publicInput.getHash H stone6 p.config.nFriendly)
    let n := L.nInteractionElements
    let u := p.unsent
    let a := compositionAlpha H t0 n u.tracesOriginal u.tracesInteraction
    let z := oodsPoint H t0 n u.tracesOriginal u.tracesInteraction u.composition
    let b := oodsAlpha H t0 n u.tracesOriginal u.tracesInteraction u.composition u.oodsValues
    let m := L.maskSize + L.constraintDegree
    c.oodsValues = u.oodsValues ∧ u.oodsValues.length = m ∧ 2 ≤ m ∧
    c.interactionElements = interactionElements H t0 n u.tracesOriginal ∧
    c.interactionAfterComposition = z ∧
    c.interactionAfterOods = Stark.powersArray m 1 b ∧
    ∃ fromTrace x y,
      L.evalComposition c.interactionElements p.publicInput (u.oodsValues.take (m - 2))
        (Stark.powersArray L.nConstraints 1 a) z d.traceDomainSize d.traceGenerator = .ok fromTrace ∧
      u.oodsValues[m - 2]? = some x ∧ u.oodsValues[m - 1]? = some y ∧
      fromTrace = x + y * z := by
  intro t0 n u a z b m
  obtain ⟨_, _, _, _, hie, _, hz, _, _, hov, _, hcoef, hoods⟩ :=
    Tr.commit_run H L _ _ _ _ _ _ _ A.commit
  obtain ⟨hlen, h2, ft, x, y, hft, hx, hy, heq⟩ := verifyOods_ok_elim hoods
  rw [hlen] at h2 hft hx hy
  rw [hz] at hft heq
  exact ⟨hov, hlen, h2, hie, hz, hcoef, ft, x, y, hft, hx, hy, heq⟩

theorem Accepting.deep_facts (A : Accepting L H stone6 p sec r n1 n2 d t' c queries tq) :
    let t0 := Transcript.new (p.publicInput.getHash H stone6 p.config.nFriendly)
    let n := L.nInteractionElements
    let u := p.unsent
    let z := oodsPoint H t0 n u.tracesOriginal u.tracesInteraction u.composition
    let b := oodsAlpha H t0 n u.tracesOriginal u.tracesInteraction u.composition u.oodsValues
    let m := L.maskSize + L.constraintDegree
    let w := p.witness
    let K := p.config.logTraceDomainSize.val + p.config.logNCosets.val
    ∃ points evals fq,
      Queries.queriesToPoints queries d = .ok points ∧
      points = queries.map (fun q => 3 * d.evalGenerator ^ bitrev K q.val) ∧
      Stark.evalOodsBoundary L n1 n2 p.publicInput u.oodsValues (Stark.powersArray m 1 b) z
        d.traceGenerator points w.tracesOriginalValues w.tracesInteractionValues
        w.compositionValues = .ok evals ∧
      evals.length = queries.length ∧ points.length = queries.length ∧
      (∀ i (hi : i < points.length), ∃ y, evals[i]? = some y ∧
        L.evalOods p.publicInput
          (row n1 w.tracesOriginalValues i ++ row n2 w.tracesInteractionValues i ++
            row L.constraintDegree w.compositionValues i)
          u.oodsValues (Stark.powersArray m 1 b) points[i] z d.traceGenerator = .ok y) ∧
      Fri.verify H queries c.fri evals points w.friLayers = .ok () ∧
      Fri.gatherFirstLayer queries evals points = .ok fq ∧
      fq.map (·.index) = queries ∧ fq.map (·.yValue) = evals ∧
      fq.map (·.xInvValue) = points.map (fun x => Felt.inv (x * Fri.FIELD_GENERATOR_INVERSE)) := by
  intro t0 n u z b m w K
  obtain ⟨hov, _, _, _, hz, hcoef, _⟩ := A.oods_facts
  obtain ⟨_, _, h64, hs, _, _, _, hrange, _, _⟩ := A.domain_facts
  obtain ⟨_, _, _, _, points, evals, hp, he, hfri⟩ := verifyPhase_ok_elim A.phase
  rw [hov, hz, hcoef] at he
  have hpl := queriesToPoints_length hp
  obtain ⟨_, _, _, hel, hrow⟩ := evalOodsBoundary_ok_elim he
  obtain ⟨hql, fq, hfq⟩ := fri_verify_first_layer hfri
  obtain ⟨g1, g2, g3⟩ := gatherFirstLayer_values _ _ _ _ hql hfq
  have hform := Proofs.points_formula queries d K hs.2.2.1 h64 hrange
  have hpts : points = queries.map (fun q => 3 * d.evalGenerator ^ bitrev K q.val) := by
    rw [hp] at hform; injection hform
  refine ⟨points, evals, fq, hp, hpts, he, by rw [hel, hpl], hpl, hrow, hfri, hfq, g1, g2, ?_⟩
  rw [g3, ← hpl, List.take_length]

end Swiftness.Proofs.Pipeline
