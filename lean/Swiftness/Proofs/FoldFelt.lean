/-
  C06 over `Felt`: facts about the generated constants (`OMEGA_*`, `friGroup`), the model's
  `formula4/8/16` are instances of the generic recursive fold, and the fold identity for `friFormula`.
-/
import Swiftness.Model.Fri
import Swiftness.Proofs.Fold
import Swiftness.Proofs.FeltField
import Mathlib.Tactic.FieldSimp

namespace Swiftness.Proofs
open Swiftness Fri FoldSpec
attribute [-instance] Fin.instOfNat

/-! ### constants (closed kernel computations) -/

theorem omega4_sq : OMEGA_4 ^ 2 = -1 := by decide +kernel
theorem omega8_sq : OMEGA_8 ^ 2 = OMEGA_4 := by decide +kernel
theorem omega16_sq : OMEGA_16 ^ 2 = OMEGA_8 := by decide +kernel
theorem omega16_pow8 : OMEGA_16 ^ 8 = -1 := by decide +kernel
theorem omega16_pow16 : OMEGA_16 ^ 16 = 1 := by decide +kernel
theorem friGroup_length : friGroup.length = 16 := by decide +kernel
theorem friGroup_zero : friGroup.getD 0 0 = 1 := by decide +kernel
theorem friGroup_one : friGroup.getD 1 0 = -1 := by decide +kernel
theorem friGroup_last : friGroup.getD 15 0 = OMEGA_16 := by decide +kernel

/-- `friGroup[i] = g^(bitrev₄ i)` for the generator `g = OMEGA_16⁻¹` of the order-16 subgroup. -/
theorem friGroup_bitrev : ∀ i < 16, friGroup.getD i 0 * OMEGA_16 ^ bitrev 4 i = 1 := by
  decide +kernel

/-- the same, without inverses: `friGroup[8] = g` and `friGroup[i] = friGroup[8]^(bitrev₄ i)` -/
theorem friGroup_pow : ∀ i < 16, friGroup.getD i 0 = friGroup.getD 8 0 ^ bitrev 4 i := by
  decide +kernel

/-- the first `2^k` entries are the subgroup of order `2^k`, again bit-reversed:
    `friGroup[i] = (g^(16/2^k))^(bitrev_k i)`. -/
theorem friGroup_sub : ∀ k < 5, ∀ i < 2 ^ k,
    friGroup.getD i 0 = (friGroup.getD 8 0 ^ 2 ^ (4 - k)) ^ bitrev k i := by
  decide +kernel

theorem friGroup_ne_zero : ∀ i < 16, friGroup.getD i 0 ≠ 0 := by decide +kernel

/-- `friGroup[8] = 3^((P-1)/16)`: the generator `g` is the canonical one used for the domains. -/
theorem friGroup_gen : friGroup.getD 8 0 = (3 : Felt) ^ ((P - 1) / 2 ^ 4) := by
  have h : (3 : Felt) ^ ((P - 1) / 2 ^ 4) = ((powMod 3 ((P - 1) / 2 ^ 4) P : ℕ) : Felt) :=
    zpow3 ((P - 1) / 2 ^ 4)
  have h2 : friGroup.getD 8 0 = ((powMod 3 ((P - 1) / 2 ^ 4) P : ℕ) : Felt) := by decide +kernel
  rw [h]; exact h2

theorem friGroup_gen_order : orderOf (friGroup.getD 8 0) = 16 := by
  rw [friGroup_gen]; exact gen_order 4 (by norm_num)

theorem field_generator_inverse : FIELD_GENERATOR_INVERSE * 3 = 1 := by decide +kernel

/-! ### the model's formulas are the generic recursive fold -/

/-- `om k` is the constant by which `formula_{2^k}` multiplies `x_inv` for its second half. -/
def om : ℕ → Felt
  | 1 => -1
  | 2 => OMEGA_4
  | 3 => OMEGA_8
  | 4 => OMEGA_16
  | _ => 1

/-- `wi k = (om k)⁻¹ = friGroup[2^(k-1)]` -/
def wi (k : ℕ) : Felt := friGroup.getD (2 ^ (k - 1)) 0

theorem om_pow : ∀ k < 4, om (k + 1) ^ 2 ^ k = -1 := by decide +kernel
theorem wi_mul_om : ∀ k < 4, wi (k + 1) * om (k + 1) = 1 := by decide +kernel
theorem cosetW_eq : ∀ k < 5, ∀ j < 2 ^ k, cosetW wi k j = friGroup.getD j 0 := by decide +kernel

theorem formula2_eq (a b e x : Felt) : formula2 a b e x = foldRec om 1 [a, b] e x := by
  simp only [foldRec, f2, formula2, List.take, List.drop, List.headD, pow_zero, pow_one]

theorem formula4_eq (v : List Felt) (e x : Felt) (h : v.length = 4) :
    formula4 v e x = .ok (foldRec om 2 v e x) := by
  match v, h with
  | [a, b, c, d], _ =>
    simp only [formula4, foldRec, f2, formula2, om, List.take, List.drop, List.headD, pow_zero,
      pow_one, Nat.reduceAdd]
    congr 1
    ring

theorem formula8_eq (v : List Felt) (e x : Felt) (h : v.length = 8) :
    formula8 v e x = .ok (foldRec om 3 v e x) := by
  have h1 : (v.take 4).length = 4 := by simp [h]
  have h2 : (v.drop 4).length = 4 := by simp [h]
  have hr : foldRec om 3 v e x = f2 (foldRec om 2 (v.take 4) e x)
      (foldRec om 2 (v.drop 4) e (x * OMEGA_8)) (e ^ 4) (x ^ 4) := foldRec_succ om 2 v e x
  unfold formula8
  rw [if_neg (by simp [h]), formula4_eq _ _ _ h1, formula4_eq _ _ _ h2, hr]
  simp only [formula2, f2]
  refine congrArg Outcome.ok ?_
  ring

theorem formula16_eq (v : List Felt) (e x : Felt) (h : v.length = 16) :
    formula16 v e x = .ok (foldRec om 4 v e x) := by
  have h1 : (v.take 8).length = 8 := by simp [h]
  have h2 : (v.drop 8).length = 8 := by simp [h]
  have hr : foldRec om 4 v e x = f2 (foldRec om 3 (v.take 8) e x)
      (foldRec om 3 (v.drop 8) e (x * OMEGA_16)) (e ^ 8) (x ^ 8) := foldRec_succ om 3 v e x
  unfold formula16
  rw [if_neg (by simp [h]), formula8_eq _ _ _ h1, formula8_eq _ _ _ h2, hr]
  simp only [formula2, f2]
  refine congrArg Outcome.ok ?_
  ring

theorem cast_pow_val : ∀ k < 5, (((2 ^ k : ℕ) : Felt)).val = 2 ^ k := by decide +kernel

/-- `friFormula` on a list of the right length is the recursive fold. -/
theorem friFormula_eq_foldRec (k : ℕ) (hk1 : 1 ≤ k) (hk4 : k ≤ 4) (v : List Felt) (e x : Felt)
    (h : v.length = 2 ^ k) :
    friFormula v e x ((2 ^ k : ℕ) : Felt) = .ok (foldRec om k v e x) := by
  unfold friFormula
  rw [cast_pow_val k (by omega)]
  have hlt : ¬ (2 ^ k ≥ 2 ^ 64) := by
    have : 2 ^ k ≤ 2 ^ 4 := Nat.pow_le_pow_right (by norm_num) hk4
    omega
  rw [if_neg hlt]
  have hcases : k = 1 ∨ k = 2 ∨ k = 3 ∨ k = 4 := by omega
  rcases hcases with rfl | rfl | rfl | rfl
  · match v, h with
    | [a, b], _ => simp only [Nat.reducePow, if_pos, formula2_eq]
  · simp only [Nat.reducePow, Nat.reduceEqDiff, if_false, if_true]
    exact formula4_eq v e x h
  · simp only [Nat.reducePow, Nat.reduceEqDiff, if_false, if_true]
    exact formula8_eq v e x h
  · simp only [Nat.reducePow, Nat.reduceEqDiff, if_false, if_true]
    exact formula16_eq v e x h

theorem ofFn_eq_range_map {α : Type} (n : ℕ) (g : ℕ → α) :
    List.ofFn (fun j : Fin n => g j.val) = (List.range n).map g := by
  apply List.ext_getElem <;> simp

/-- **Fold identity** (values given as `List.map` over `List.range`). -/
theorem fold_identity_range (k : ℕ) (hk1 : 1 ≤ k) (hk4 : k ≤ 4) (cs : List Felt) (x xinv b : Felt)
    (hx : x * xinv = 1) :
    friFormula ((List.range (2 ^ k)).map (fun j => evalL cs (x * friGroup.getD j 0))) b xinv
        ((2 ^ k : ℕ) : Felt)
      = .ok (((2 ^ k : ℕ) : Felt)
          * ∑ j ∈ Finset.range (2 ^ k), b ^ j * evalL (split k cs j) (x ^ 2 ^ k)) := by
  rw [friFormula_eq_foldRec k hk1 hk4 _ _ _ (by simp)]
  have hmap : (List.range (2 ^ k)).map (fun j => evalL cs (x * friGroup.getD j 0))
      = (List.range (2 ^ k)).map (fun j => evalL cs (x * cosetW wi k j)) := by
    apply List.map_congr_left
    intro j hj
    rw [cosetW_eq k (by omega) j (List.mem_range.mp hj)]
  rw [hmap, foldRec_spec om wi 4 om_pow wi_mul_om cs b k hk4 x xinv hx]
  push_cast
  rfl

/-- **Fold identity.** Folding the values of `P` on the coset `x·friGroup[0..2^k)` with challenge `b`
    yields `2^k · Σ_j b^j · P_j(x^(2^k))`. -/
theorem fold_identity (k : ℕ) (hk1 : 1 ≤ k) (hk4 : k ≤ 4) (cs : List Felt) (x xinv b : Felt)
    (hx : x * xinv = 1) :
    friFormula (List.ofFn (fun j : Fin (2 ^ k) => evalL cs (x * friGroup.getD j.val 0))) b xinv
        ((2 ^ k : ℕ) : Felt)
      = .ok (((2 ^ k : ℕ) : Felt)
          * ∑ j ∈ Finset.range (2 ^ k), b ^ j * evalL (split k cs j) (x ^ 2 ^ k)) := by
  rw [ofFn_eq_range_map (2 ^ k) (fun j => evalL cs (x * friGroup.getD j 0))]
  exact fold_identity_range k hk1 hk4 cs x xinv b hx

/-- If the query at offset `i` of a coset has x-inverse `(x·friGroup[i])⁻¹`, then `cosetLoop`'s
    `coset_x_inv = q.x_inv · friGroup[i]` is `x⁻¹`, the x-inverse of the first element of the coset. -/
theorem coset_xinv_consistent (x : Felt) (hx : x ≠ 0) (i : ℕ) (hi : i < 16) :
    (x * friGroup.getD i 0)⁻¹ * friGroup.getD i 0 = x⁻¹ := by
  have hg := friGroup_ne_zero i hi
  field_simp

end Swiftness.Proofs
