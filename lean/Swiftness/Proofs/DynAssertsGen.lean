/-
  The generated assertion list of the dynamic layout (`Generated/Layout/dynamic_asserts.lean`) passes the
  syntactic divisor check (closed computation), hence `check_asserts` never panics on it; and the
  dynamic layout's `validate_public_input` (`Model/LayoutDynamic.lean`) can panic only inside
  `check_asserts`.  Core Lean only.
-/
import Swiftness.Proofs.DynAssertsSound
import Swiftness.Generated.Layout.dynamic_asserts
import Swiftness.Model.LayoutDynamic

namespace Swiftness.DynAsserts
open Swiftness

/-- closed fact: every reachable `floor_div` divisor of the translated list is justified -/
theorem gen_guardsOK : guardsOK Gen.Layout.dynamic.asserts = true := by decide +kernel

theorem gen_check_no_panic (u : Nat) (dp : Array Nat) (hdp : ∀ i, dp.getD i 0 < 2 ^ 64) (tl : Felt) :
    (check u dp tl Gen.Layout.dynamic.asserts).isPanic = false :=
  guardsOK_sound u _ gen_guardsOK dp hdp tl

/-- a list of `u64` values, read as the parameter array -/
theorem getD_lt_of_forall {l : List Nat} (h : ∀ x ∈ l, x < 2 ^ 64) (i : Nat) :
    l.toArray.getD i 0 < 2 ^ 64 := by
  rw [Array.getD_eq_getD_getElem?, List.getElem?_toArray]
  cases hi : l[i]? with
  | none => exact Nat.pos_of_ne_zero (by decide)
  | some x => exact h x (List.mem_of_getElem? hi)

end Swiftness.DynAsserts

namespace Swiftness.DynData
open Swiftness LayoutData

theorem fieldDivTry_ne_panic (t r : Felt) (s : String) : fieldDivTry t r ≠ .panic s := by
  unfold fieldDivTry; split <;> simp

theorem copiesOf_ne_panic (D : DynData) (dp : Array Nat) (t : Felt) (u r : String) (s : String) :
    copiesOf D dp t u r ≠ .panic s := by
  unfold copiesOf; split
  · simp
  · exact fieldDivTry_ne_panic _ _ _

theorem builtinCopies_ne_panic (D : DynData) (pi : PublicInput) (dp : Array Nat) (t : Felt)
    (b : String × String × String × Nat) (s : String) : builtinCopies D pi dp t b ≠ .panic s := by
  obtain ⟨u, r, sg, c⟩ := b
  simp only [builtinCopies]
  repeat' split
  all_goals first
    | (intro h; cases h; done)
    | (next s' h => exact absurd h (copiesOf_ne_panic _ _ _ _ _ _))

theorem allCopies_ne_panic (D : DynData) (pi : PublicInput) (dp : Array Nat) (t : Felt)
    (bs : List (String × String × String × Nat)) (s : String) : allCopies D pi dp t bs ≠ .panic s := by
  induction bs with
  | nil => simp [allCopies]
  | cons b bs ih =>
    unfold allCopies
    split
    · split
      · simp
      · next o hno => exact ih
    · simp
    · next s' h => exact absurd h (builtinCopies_ne_panic _ _ _ _ _ _)

/-- `validate_public_input` of the dynamic layout panics only inside `check_asserts` -/
theorem validate_panic (D : DynData) (pi : PublicInput) (d : StarkDomains) (s : String)
    (h : D.validatePublicInput pi d = .panic s) :
    ∃ dpl, pi.dynamicParams = some dpl ∧
      DynAsserts.check D.usizeMax dpl.toArray d.traceDomainSize D.asserts = .panic s := by
  unfold validatePublicInput at h
  split at h
  · cases h
  · next dpl hdpl =>
    refine ⟨dpl, hdpl, ?_⟩
    generalize builtinTable = bt at h
    dsimp only at h
    by_cases c1 : ¬ (pi.logNSteps.val < D.base.MAX_LOG_N_STEPS)
    · rw [if_pos c1] at h; cases h
    rw [if_neg c1] at h
    by_cases c2 : Felt.pow 2 pi.logNSteps.val * Felt.ofNat (D.base.constD "CPU_COMPONENT_HEIGHT") * D.dpf dpl.toArray "cpu_component_step" ≠ d.traceDomainSize
    · rw [if_pos c2] at h; cases h
    rw [if_neg c2] at h
    by_cases c3 : pi.segments.length ≠ D.base.constD "SEG_N_SEGMENTS"
    · rw [if_pos c3] at h; cases h
    rw [if_neg c3] at h
    by_cases c4 : ¬ (pi.rangeCheckMin.val < pi.rangeCheckMax.val)
    · rw [if_pos c4] at h; cases h
    rw [if_neg c4] at h
    by_cases c5 : ¬ (pi.rangeCheckMax.val ≤ D.base.MAX_RANGE_CHECK)
    · rw [if_pos c5] at h; cases h
    rw [if_neg c5] at h
    by_cases c6 : pi.layout ≠ Felt.ofNat (D.base.constD "LAYOUT_CODE")
    · rw [if_pos c6] at h; cases h
    rw [if_neg c6] at h
    cases hout : seg? pi (D.base.constD "SEG_OUTPUT") with
    | none => rw [hout] at h; cases h
    | some out =>
    rw [hout] at h; dsimp only at h
    by_cases c7 : ¬ ((out.stopPtr - out.beginAddr).val ≤ U128_MAX)
    · rw [if_pos c7] at h; cases h
    rw [if_neg c7] at h
    cases hcs : D.allCopies pi dpl.toArray d.traceDomainSize bt with
    | err e => rw [hcs] at h; cases h
    | panic s' => exact absurd hcs (allCopies_ne_panic _ _ _ _ _ _)
    | ok cs =>
    rw [hcs] at h; dsimp only at h
    cases hmu : fieldDivTry d.traceDomainSize (D.dpf dpl.toArray "memory_units_row_ratio") with
    | err e => rw [hmu] at h; cases h
    | panic s' => exact absurd hmu (fieldDivTry_ne_panic _ _ _)
    | ok mu =>
    rw [hmu] at h; dsimp only at h
    by_cases c8 : Felt.ofNat (D.base.constD "PUBLIC_MEMORY_FRACTION") = 0
    · rw [if_pos c8] at h; cases h
    rw [if_neg c8] at h
    split at h
    · cases h
    cases hru : fieldDivTry d.traceDomainSize (D.dpf dpl.toArray "range_check_units_row_ratio") with
    | err e => rw [hru] at h; cases h
    | panic s' => exact absurd hru (fieldDivTry_ne_panic _ _ _)
    | ok ru =>
    rw [hru] at h; dsimp only at h
    split at h
    · cases h
    cases hdu : fieldDivTry d.traceDomainSize (D.dpf dpl.toArray "diluted_units_row_ratio") with
    | err e => rw [hdu] at h; cases h
    | panic s' => exact absurd hdu (fieldDivTry_ne_panic _ _ _)
    | ok du =>
    rw [hdu] at h; dsimp only at h
    split at h
    · cases h
    exact h

/-- with the generated assertion list and `u64` dynamic parameters it never panics -/
theorem validate_no_panic (D : DynData) (hA : D.asserts = Gen.Layout.dynamic.asserts)
    (pi : PublicInput) (hpi : ∀ dpl, pi.dynamicParams = some dpl → ∀ x ∈ dpl, x < 2 ^ 64)
    (d : StarkDomains) : (D.validatePublicInput pi d).isPanic = false := by
  cases hv : D.validatePublicInput pi d with
  | ok _ => rfl
  | err _ => rfl
  | panic s =>
    obtain ⟨dpl, hdpl, hc⟩ := validate_panic D pi d s hv
    have := DynAsserts.gen_check_no_panic D.usizeMax dpl.toArray
      (DynAsserts.getD_lt_of_forall (hpi dpl hdpl)) d.traceDomainSize
    rw [← hA, hc] at this
    cases this

end Swiftness.DynData
