/-
  C18, the STARK pipeline relative to the callbacks' behaviour ON THE PROOF'S OWN PUBLIC INPUT.

  `Proofs/NoPanicStark.lean` derives `Stark.verify … = panic s → A s` from `CallbacksOK L A`, which asks
  the layout callbacks to panic only at sites in `A` on EVERY public input.  For the dynamic layout that
  is too strong: its `eval_oods_polynomial` indexes `column_values` by dynamic parameters, which are in
  range only once `validate_public_input` (whose last step is `check_asserts`) has ACCEPTED the same
  public input, and its evaluators read the parameter vector of that public input.  Here the requirement
  is localised: `CallbacksOKAt L A pi` speaks about the one public input `pi`, and its `oods` clause may
  assume `validate_public_input pi d = Ok` for some domains `d` — which is the situation in which
  `Stark.verify` calls it (it validates first).  `CallbacksOK L A` implies `CallbacksOKAt L A pi` for every
  `pi`, so the existing statements are instances.
-/
import Swiftness.Proofs.NoPanicStark

namespace Swiftness.Proofs.NoPanic
open Swiftness Stark
open Swiftness.Proofs
attribute [-instance] Fin.instOfNat

/-- the layout callbacks panic only at sites in `A` on the public input `pi` (argument shapes as supplied
    by `Stark.verify`); `eval_oods_polynomial` only after `validate_public_input pi` has succeeded -/
structure CallbacksOKAt (L : LayoutOps) (A : String → Prop) (pi : PublicInput) : Prop where
  comp : ∀ (interaction mask coeffs : List Felt) (pt tds tg : Felt) (s : String),
    interaction.length = L.nInteractionElements →
    mask.length = L.maskSize + L.constraintDegree - 2 → coeffs.length = L.nConstraints →
    L.evalComposition interaction pi mask coeffs pt tds tg = .panic s → A s
  oods : ∀ (d : StarkDomains), L.validatePublicInput pi d = .ok () →
    ∀ (n1 n2 : ℕ) (cols oods coeffs : List Felt) (pt op tg : Felt) (s : String),
    L.numColumnsFirst pi = some n1 → L.numColumnsSecond pi = some n2 →
    cols.length = n1 + n2 + L.constraintDegree →
    oods.length = L.maskSize + L.constraintDegree → coeffs.length = L.maskSize + L.constraintDegree →
    L.evalOods pi cols oods coeffs pt op tg = .panic s → A s
  validate : ∀ (d : StarkDomains) (s : String), L.validatePublicInput pi d = .panic s → A s
  verify : ∀ (s : String), L.verifyPublicInput pi = .panic s → A s

variable {A : String → Prop}

theorem CallbacksOK.at {L : LayoutOps} (hL : CallbacksOK L A) (pi : PublicInput) : CallbacksOKAt L A pi where
  comp := fun i m c pt tds tg s h1 h2 h3 h => hL.comp i pi m c pt tds tg s h1 h2 h3 h
  oods := fun _ _ n1 n2 cols o c pt op tg s h1 h2 h3 h4 h5 h => hL.oods pi n1 n2 cols o c pt op tg s h1 h2 h3 h4 h5 h
  validate := fun d s h => hL.validate pi d s h
  verify := fun s h => hL.verify pi s h

theorem verifyOods_panic_at (L : LayoutOps) (pi : PublicInput) (hL : CallbacksOKAt L A pi)
    (h2 : 2 ≤ L.maskSize + L.constraintDegree)
    (oods interaction : List Felt) (coeffs : List Felt) (pt tds tg : Felt) (s : String)
    (hi : interaction.length = L.nInteractionElements) (hc : coeffs.length = L.nConstraints)
    (h : verifyOods L oods interaction pi coeffs pt tds tg = .panic s) : A s := by
  unfold verifyOods at h
  split at h
  · cases h
  · next hlen =>
    have hlen' : oods.length = L.maskSize + L.constraintDegree := by omega
    split at h
    · cases h
    · next s' hs' =>
      injection h with h; subst h
      exact hL.comp _ _ _ _ _ _ _ hi (by rw [List.length_take]; omega) hc hs'
    · obtain ⟨a, ha⟩ : ∃ a, oods[oods.length - 2]? = some a :=
        ⟨_, List.getElem?_eq_getElem (by omega)⟩
      obtain ⟨b, hb⟩ : ∃ b, oods[oods.length - 1]? = some b :=
        ⟨_, List.getElem?_eq_getElem (by omega)⟩
      rw [ha, hb] at h
      simp only at h
      rw [if_neg (by omega)] at h
      split at h <;> cases h

/-- the shape of an accepted commitment does not depend on the callbacks' panic behaviour -/
theorem commit_facts (L : LayoutOps) (h2 : 2 ≤ L.maskSize + L.constraintDegree)
    (H : Hashes) (t : Transcript) (pi : PublicInput) (u : UnsentCommitment) (cfg : StarkConfig)
    (d : StarkDomains) (hcfg : CfgFacts cfg) (t' : Transcript) (c : Commitment)
    (h : Stark.commit L H t pi u cfg d = .ok (t', c)) : CommitFacts L cfg c :=
  (commit_np (A := fun _ => True) L
    ⟨fun _ _ _ _ _ _ _ _ _ _ _ _ => trivial, fun _ _ _ _ _ _ _ _ _ _ _ _ _ _ _ _ => trivial,
      fun _ _ _ _ => trivial, fun _ _ _ => trivial⟩ h2 H t pi u cfg d hcfg).2 t' c h

theorem commit_panic_at (L : LayoutOps) (pi : PublicInput) (hL : CallbacksOKAt L A pi)
    (h2 : 2 ≤ L.maskSize + L.constraintDegree)
    (H : Hashes) (t : Transcript) (u : UnsentCommitment) (cfg : StarkConfig)
    (d : StarkDomains) (hcfg : CfgFacts cfg) (s : String)
    (h : Stark.commit L H t pi u cfg d = .panic s) : A s := by
  unfold Stark.commit at h
  simp only [] at h
  split at h
  · cases h
  · next s' hs' =>
    injection h with h; subst h
    exact verifyOods_panic_at L pi hL h2 _ _ _ _ _ _ _ (squeezeN_length _ _ _) (powersArray_length _ _ _) hs'
  · split at h
    · cases h
    · next hg =>
      rw [not_not] at hg
      have hf := friCommit_np H
        ((((((((t.readFelt H u.tracesOriginal |> squeezeN H L.nInteractionElements).2.readFelt H
          u.tracesInteraction).randomFelt H).2.readFelt H u.composition).randomFelt H).2.readFeltVector H
          u.oodsValues).randomFelt H).2) u.friInnerLayers u.friLastLayerCoefficients cfg.fri
        ⟨by have := hcfg.layers; omega, hcfg.layers.2⟩ hcfg.innerLen
        (len_of_guard _ _ hcfg.layers.1 hg.1) hg.2
      split at h
      · cases h
      · next s' hs' => exact absurd hs' (hf.1 _)
      · split at h
        · cases h
        · next s' hs' => exact absurd hs' (powCommit_no_panic _ _ _ _ (by have := hcfg.pow; omega) _)
        · cases h

/-- `StarkProof::verify`: the only panics are those of the layout callbacks on the proof's own public
    input (`eval_oods_polynomial` only after that input was validated) -/
theorem verify_panic_at (L : LayoutOps) (H : Hashes) (stone6 : Bool) (p : Proof) (sec : Felt)
    (hL : CallbacksOKAt L A p.publicInput) (h2 : 2 ≤ L.maskSize + L.constraintDegree) (s : String)
    (h : Stark.verify L H stone6 p sec = .panic s) : A s := by
  unfold Stark.verify at h
  split at h
  · next n1 n2 hn1 hn2 =>
    split at h
    · cases h
    · next s' hs' => exact absurd hs' (ConfigLemmas.stark_validate_no_panic _ _ _ _ _)
    · next hval =>
      have hcfg := cfgFacts_of_validate _ _ _ _ hval
      have htc : p.config.logTraceDomainSize.val + p.config.logNCosets.val ≤ 192 := by
        have := hcfg.trace; have := hcfg.cosets; omega
      split at h
      · cases h
      · next s' hs' =>
        obtain ⟨d, hd⟩ := domains_new_ok p.config.logTraceDomainSize p.config.logNCosets
        rw [hd] at hs'; cases hs'
      · next d hd =>
        have hsz := sizes_eq _ _ htc d hd
        have hgen : d.evalGenerator ≠ 0 ∧ d.evalDomainSize ≠ 0 := by
          rw [domains_new_eq] at hd
          injection hd with hd; subst hd
          exact ⟨pow_ne_zero _ three_ne_zero_felt, pow_ne_zero _ two_ne_zero_felt⟩
        split at h
        · cases h
        · next s' hs' => injection h with h; subst h; exact hL.validate _ _ hs'
        · next hvok =>
          simp only [] at h
          split at h
          · cases h
          · next s' hs' =>
            injection h with h; subst h
            exact commit_panic_at L p.publicInput hL h2 H _ p.unsent p.config d hcfg _ hs'
          · next t c hc =>
            have hcf := commit_facts L h2 H _ p.publicInput p.unsent p.config d hcfg _ _ hc
            split at h
            · cases h
            · next s' hs' =>
              have hr := generateQueries_eq H t p.config.nQueries d.evalDomainSize
                (lt_of_le_of_lt hcfg.queries (by norm_num)) (Or.inl hgen.2)
              rw [hr] at hs'; cases hs'
            · next queries t2 hqs =>
              have hqr := queries_in_range hqs hgen.2
              split at h
              · cases h
              · next s' hs' =>
                injection h with h; subst h
                refine verifyPhase_panic L H n1 n2 p.publicInput queries c p.witness d p.config _ ?_
                  hcfg hcf ?_ hgen.1 hs'
                · intro cols oods coeffs pt op tg h1 h2' h3 h4
                  exact hL.oods d hvok _ _ _ _ _ _ _ _ _ hn1 hn2 h1 h2' h3 h4
                · intro q hq
                  have := hqr q hq
                  rw [hsz.1] at this
                  rw [hsz.2.2.1]; exact this
              · exact hL.verify _ h
  · cases h

end Swiftness.Proofs.NoPanic
