/-
  C17, instrumented semantics: tick bounds for `crates/fri`, part 2 (`fri_verify_layers`, `fri_verify`).
  Uses the per-function counts of `Proofs/CostLoops.lean`: a layer never produces more queries, rows
  or row values than `n_queries`, `n_queries`, `n_queries · coset_size`.
-/
import Swiftness.Proofs.TickedBoundsFri
import Swiftness.Proofs.CostLoops

namespace Swiftness.Ticked
open Swiftness Fri

/-- one FRI layer for at most `nq` queries and coset size `cs`: the coset-size exponentiation,
    `compute_next_layer`, and the table decommitment of at most `nq` rows of `cs` values -/
def Cost'.layer (nq cs : ℕ) (w : LayerWitness) : ℕ :=
  1 + Cost.F + Cost'.nextLayer nq cs + Cost'.tableDecommit nq (nq * cs) w.auths.length

/-- `fri_verify_layers`: one `layer` per (step, witness) pair -/
def Cost'.layers (nq : ℕ) : List Felt → List LayerWitness → ℕ
  | st :: steps, w :: ws => Cost'.layer nq (Cost.cosetSize st) w + Cost'.layers nq steps ws
  | _, _ => 0

theorem verifyLayersT_ticks (H : Hashes) (nq : ℕ) (n : ℕ) : ∀ (cs : List Table.Commitment)
    (ws : List LayerWitness) (es steps : List Felt) (qs : List LayerQuery), qs.length ≤ nq →
    (verifyLayersT H n cs ws es steps qs).ticks ≤ Cost'.layers nq (steps.take n) ws + 1 := by
  induction n with
  | zero => intro cs ws es steps qs _; simp [verifyLayersT]
  | succ n ih =>
    intro cs ws es steps qs hq
    simp only [verifyLayersT, TO.bind_ticks, TO.tick_ticks, TO.tick_out, TO.rest_ok]
    repeat' split
    all_goals try (simp only [TO.panic_ticks, TO.err_ticks]; omega)
    rename_i w ws' _ c cs' _ st steps' _ e es'
    simp only [TO.bind_ticks, TO.monadLift_ticks, TO.monadLift_out, TO.rest_ok, powT_ticks, powT_val,
      TO.mapErr_ticks, List.take_succ_cons, Cost'.layers, Cost'.layer]
    have h1 : (computeNextLayerT qs w.leaves (Felt.pow 2 st.val) e).ticks ≤
        Cost'.nextLayer nq (Cost.cosetSize st) :=
      Nat.le_trans (computeNextLayerT_ticks _ _ _ _) (Cost'.nextLayer_mono hq (Nat.le_refl _))
    refine Nat.le_trans (Nat.add_le_add_left (Nat.add_le_add_left (Nat.add_le_add h1
      (TO.rest_le _ _ (Cost'.tableDecommit nq (nq * Cost.cosetSize st) w.auths.length
        + (Cost'.layers nq (steps'.take n) ws' + 1)) ?_)) _) 1) (by omega)
    intro nl hnl
    have hnl' := TO.mapErr_out_ok _ _ _ hnl
    rw [computeNextLayerT_out] at hnl'
    obtain ⟨c1, c2, c3⟩ := Proofs.Cost.computeNextLayer_counts _ _ _ _ _ hnl'
    simp only [TO.bind_ticks]
    have hmul : qs.length * (Felt.pow 2 st.val).val ≤ nq * Cost.cosetSize st :=
      Nat.mul_le_mul hq (Nat.le_refl _)
    have hcs : Cost.cosetSize st = (Felt.pow 2 st.val).val := rfl
    refine Nat.add_le_add (Nat.le_trans (tableDecommitT_ticks H c _ _ _)
      (Cost'.tableDecommit_mono (by omega) (by omega) (Nat.le_refl _))) (TO.rest_le _ _ _ ?_)
    intro _ _
    exact ih _ _ _ _ _ (by omega)

theorem Cost'.layers_mono {a a' : ℕ} (ha : a ≤ a') : ∀ (steps : List Felt) (ws : List LayerWitness),
    Cost'.layers a steps ws ≤ Cost'.layers a' steps ws := by
  intro steps
  induction steps with
  | nil => intro ws; simp [Cost'.layers]
  | cons st steps ih =>
    intro ws
    cases ws with
    | nil => simp [Cost'.layers]
    | cons w ws =>
      simp only [Cost'.layers, Cost'.layer]
      have := ih ws
      have := Cost'.nextLayer_mono ha (Nat.le_refl (Cost.cosetSize st))
      have := Cost'.tableDecommit_mono ha (Nat.mul_le_mul ha (Nat.le_refl (Cost.cosetSize st)))
        (Nat.le_refl w.auths.length)
      omega

/-- `fri_verify` for at most `nq` queries: first layer (one inversion per query), the inner layers,
    the last layer (per query one inversion and a Horner evaluation of `nlc` coefficients) -/
def Cost'.friVerify (nq : ℕ) (cfg : Fri.Config) (ws : List LayerWitness) (nlc : ℕ) : ℕ :=
  1 + nq * (1 + Cost.F) + (1 + (Cost'.layers nq ((cfg.friStepSizes.drop 1).take (Cost.rounds cfg)) ws + 1)
    + Cost.F + nq * (1 + Cost.F + nlc))

theorem friVerifyT_ticks (H : Hashes) (queries : List Felt) (c : Fri.Commitment) (values points : List Felt)
    (witness : List LayerWitness) (nq : ℕ) (hq : queries.length ≤ nq) :
    (friVerifyT H queries c values points witness).ticks ≤
      Cost'.friVerify nq c.config witness c.lastLayerCoefficients.length := by
  unfold Cost'.friVerify
  have hmul1 : queries.length * (1 + Cost.F) ≤ nq * (1 + Cost.F) := Nat.mul_le_mul_right _ hq
  simp only [friVerifyT, TO.bind_ticks, TO.tick_ticks, TO.tick_out, TO.rest_ok]
  split
  · simp only [TO.err_ticks]; omega
  · simp only [TO.bind_ticks]
    refine Nat.le_trans (Nat.add_le_add_left (Nat.add_le_add
      (Nat.le_trans (gatherFirstLayerT_ticks queries values points) hmul1)
      (TO.rest_le _ _ (1 + (Cost'.layers nq ((c.config.friStepSizes.drop 1).take (Cost.rounds c.config)) witness + 1)
        + Cost.F + nq * (1 + Cost.F + c.lastLayerCoefficients.length)) ?_)) 1) (by omega)
    intro fq hfq
    rw [gatherFirstLayerT_out] at hfq
    have hfql := Proofs.Cost.gatherFirstLayer_length _ _ _ _ hfq
    repeat' split
    all_goals try (simp only [TO.panic_ticks]; omega)
    simp only [TO.bind_ticks, TO.monadLift_ticks, TO.monadLift_out, TO.rest_ok, dropT_ticks, dropT_val]
    have hl := verifyLayersT_ticks H nq (c.config.nLayers - 1).val c.innerLayers witness c.evalPoints
      (c.config.friStepSizes.drop 1) fq (by omega)
    have hr : Cost.rounds c.config = (c.config.nLayers - 1).val := rfl
    rw [hr]
    refine Nat.le_trans (Nat.add_le_add (Nat.min_le_left _ _) (Nat.add_le_add hl
      (TO.rest_le _ _ (Cost.F + nq * (1 + Cost.F + c.lastLayerCoefficients.length)) ?_))) (by omega)
    intro last hlast
    rw [verifyLayersT_out] at hlast
    have hll := Proofs.Cost.verifyLayers_length _ _ _ _ _ _ _ _ hlast
    have hmul2 : last.length * (1 + Cost.F + c.lastLayerCoefficients.length)
        ≤ nq * (1 + Cost.F + c.lastLayerCoefficients.length) := Nat.mul_le_mul_right _ (by omega)
    simp only [TO.bind_ticks, TO.monadLift_ticks, TO.monadLift_out, TO.rest_ok, powT_ticks]
    split
    · simp only [TO.err_ticks]; omega
    · have := verifyLastLayerT_ticks last c.lastLayerCoefficients
      simp only [TO.mapErr_ticks]; omega

end Swiftness.Ticked
