/-
  C14 (dynamic layout) helper lemmas, part 5: the generated data is well-formed; concrete public inputs
  (the shipped dynamic example proof's public input is accepted; variants are rejected).
-/
import Swiftness.Spec.DynPublicInputOK
import Swiftness.Proofs.DynExampleData

namespace Swiftness.Proofs.DynEx
open Swiftness Swiftness.Spec

theorem dynData_wellFormed : DynWellFormed dynData where
  maxLogNSteps := by decide
  maxRangeCheck := by decide
  cpuHeight := by decide
  publicMemoryFraction := by decide
  dpFields := rfl
  asserts := rfl

theorem shippedDp_u64 : ∀ x ∈ shippedDp, x < 2 ^ 64 := by decide +kernel

theorem shippedPi_u64 : ∀ dpl, shippedPi.dynamicParams = some dpl → ∀ x ∈ dpl, x < 2 ^ 64 := by
  intro dpl h
  cases h
  exact shippedDp_u64

theorem shippedPi_validate : dynData.validatePublicInput shippedPi (mkDomains 131072) = .ok () := by
  decide +kernel

/-- the shipped input with 5 cells of BITWISE usage although `uses_bitwise_builtin = 0` -/
def offBuiltinUsedPi : PublicInput :=
  { shippedPi with segments := [seg 1 5, seg 454 1568, seg 1568 1572, seg 1572 1620, seg 1764 1775,
      seg 1828 1828, seg 1828 1833, seg 1828 1828, seg 1828 1828, seg 1828 1828, seg 1828 1828,
      seg 1828 1828, seg 1828 1828] }

theorem offBuiltinUsedPi_validate :
    dynData.validatePublicInput offBuiltinUsedPi (mkDomains 131072) = .err "UsesInvalid" := by
  decide +kernel

/-- the shipped input with 49 cells of PEDERSEN usage (not a whole number of 3-cell instances) -/
def fractionalPi : PublicInput :=
  { shippedPi with segments := [seg 1 5, seg 454 1568, seg 1568 1572, seg 1572 1621, seg 1764 1775,
      seg 1828 1828, seg 1828 1828, seg 1828 1828, seg 1828 1828, seg 1828 1828, seg 1828 1828,
      seg 1828 1828, seg 1828 1828] }

theorem fractionalPi_validate :
    dynData.validatePublicInput fractionalPi (mkDomains 131072) = .err "UsesInvalid" := by
  decide +kernel

/-- the shipped input with `pedersen_builtin_row_ratio` (index 287) raised from `2048` to `2^18`, more than
    the trace length `2^17`: the field quotient `copies` is huge, the usage test passes, the budget test
    happens to fail -/
def longRatioPi : PublicInput :=
  { shippedPi with dynamicParams := some (shippedDp.set 287 262144) }

theorem longRatioPi_validate :
    dynData.validatePublicInput longRatioPi (mkDomains 131072) = .err "CopiesInvalid" := by
  decide +kernel

end Swiftness.Proofs.DynEx
