/-
  C07, "no query is skipped", the whole of `Fri.verify`: acceptance implies that the last-layer
  polynomial check was applied to the image of EVERY query index (see `Proofs/FriNoSkip.lean`).
-/
import Swiftness.Proofs.FriNoSkip
import Swiftness.Proofs.FriSoundLast
import Swiftness.Proofs.FriSoundVerify

namespace Swiftness.Proofs.FriNoSkip

open Swiftness Fri FoldSpec
open Swiftness.Proofs.FriSound

/-- the first-layer queries are the query indices, one by one -/
theorem gatherFirstLayer_mem {queries values points : List Felt} {fq : List LayerQuery}
    (h : gatherFirstLayer queries values points = .ok fq) :
    ∀ qi ∈ queries, ∃ q ∈ fq, q.index = qi := by
  intro qi hqi
  have := (gatherFirstLayer_spec queries values points fq h).1
  rw [← this] at hqi
  obtain ⟨q, hq, rfl⟩ := List.mem_map.mp hqi
  exact ⟨q, hq, rfl⟩

/-- a coset size `2^step` as computed by the verifier is the natural number `2^step` (no wrap for
    `step ≤ 251`; config validation enforces `step ≤ 4`) -/
theorem pow_two_val (b : Felt) (hb : b.val ≤ 251) : (Felt.pow 2 b.val).val = 2 ^ b.val := by
  rw [pow_two_eq_cast]
  exact Felt.val_cast_of_lt
    (lt_of_le_of_lt (Nat.pow_le_pow_right (by norm_num) hb) two_pow_251_lt_P)

/-- for steps that do not wrap, the product of the coset sizes is `2^(sum of the steps)` -/
theorem cosetProd_eq_pow : ∀ (n : Nat) (steps : List Felt), (∀ st ∈ steps.take n, st.val ≤ 251) →
    cosetProd n steps = 2 ^ ((steps.take n).map (·.val)).sum := by
  intro n
  induction n with
  | zero => intro steps _; simp [cosetProd]
  | succ n ih =>
    intro steps h
    cases steps with
    | nil => simp [cosetProd]
    | cons st steps =>
      simp only [List.take_succ_cons, List.mem_cons, forall_eq_or_imp] at h
      simp only [cosetProd, List.take_succ_cons, List.map_cons, List.sum_cons, Nat.pow_add]
      rw [pow_two_val st h.1, ih steps h.2]

attribute [-instance] Fin.instOfNat

/-- **Every query reaches the last-layer check.**  If `Fri.verify` accepts then there are the
    first-layer queries `fq` (one per query index), the last-layer queries `last` produced from them by
    `fri_verify_layers`, `verify_last_layer last` passed, and for every query index `qi` its image
    `qi / ∏ cosetSizes` is the index of a last-layer query `q'` on which the last-layer polynomial
    was evaluated and compared: `q'.xInvValue ≠ 0` and `P_last(1 / q'.xInvValue) = q'.yValue`. -/
theorem verify_checks_every_query (H : Hashes) (queries : List Felt) (c : Commitment)
    (values points : List Felt) (ws : List LayerWitness)
    (hok : Fri.verify H queries c values points ws = .ok ())
    (hb : ∀ qi ∈ queries, qi.val + 16 ≤ P) :
    ∃ fq last, gatherFirstLayer queries values points = .ok fq ∧
      verifyLayers H (c.config.nLayers - 1).val c.innerLayers ws c.evalPoints
        (c.config.friStepSizes.drop 1) fq = .ok last ∧
      verifyLastLayer last c.lastLayerCoefficients = .ok () ∧
      ∀ qi ∈ queries, ∃ q' ∈ last,
        q'.index.val = qi.val / cosetProd (c.config.nLayers - 1).val (c.config.friStepSizes.drop 1) ∧
        q'.xInvValue ≠ 0 ∧ evalL c.lastLayerCoefficients (q'.xInvValue)⁻¹ = q'.yValue := by
  obtain ⟨_, _, _, _, fq, last, hg, hv, hll⟩ := (verify_ok_iff H queries c values points ws).mp hok
  refine ⟨fq, last, hg, hv, hll, ?_⟩
  intro qi hqi
  obtain ⟨q, hq, rfl⟩ := gatherFirstLayer_mem hg qi hqi
  have hbq : ∀ q ∈ fq, q.index.val + 16 ≤ P := by
    intro q hq
    apply hb
    rw [← (gatherFirstLayer_spec queries values points fq hg).1]
    exact List.mem_map_of_mem hq
  obtain ⟨q', hq', hv'⟩ := verifyLayers_covers H _ _ _ _ _ _ _ hv hbq q hq
  obtain ⟨h1, h2⟩ := verifyLastLayer_ok_imp last c.lastLayerCoefficients hll q' hq'
  exact ⟨q', hq', hv', h1, h2⟩

end Swiftness.Proofs.FriNoSkip
