/-
  C06, per-layer step, part 2: `nextLayerLoop` / `computeNextLayer` on well-formed input
  (sorted query indices, exactly the sibling values of the non-queried positions of the touched cosets).
-/
import Swiftness.Proofs.FriLayerCoset
import Mathlib.Data.List.Basic

namespace Swiftness.Proofs
open Swiftness Fri FoldSpec
attribute [-instance] Fin.instOfNat

theorem sorted_filter_split (l : List ℕ) (p : ℕ → Bool) (hl : l.Pairwise (· < ·))
    (hp : ∀ a ∈ l, ∀ b ∈ l, a < b → p b = true → p a = true) :
    l = l.filter p ++ l.filter (fun a => !p a) := by
  induction l with
  | nil => rfl
  | cons a t ih =>
    have ht := (List.pairwise_cons.mp hl).2
    have hat := (List.pairwise_cons.mp hl).1
    have iht := ih ht
      (fun x hx y hy => hp x (List.mem_cons_of_mem _ hx) y (List.mem_cons_of_mem _ hy))
    by_cases hpa : p a = true
    · simp only [List.filter_cons, hpa, if_true, Bool.not_true, Bool.false_eq_true, if_false,
        List.cons_append]
      rw [← iht]
    · have hall : ∀ b ∈ t, ¬ (p b = true) := fun b hb h =>
        hpa (hp a (List.mem_cons_self ..) b (List.mem_cons_of_mem _ hb) (hat b hb) h)
      have h1 : t.filter p = [] := List.filter_eq_nil_iff.mpr hall
      have h2 : t.filter (fun a => !p a) = t :=
        List.filter_eq_self.mpr (fun b hb => by simpa using hall b hb)
      have hpa' : p a = false := by simpa using hpa
      simp [hpa', h1, h2]

theorem expectedSiblings_congr {α : Type} (n : ℕ) (yv : ℕ → α) (cidx qi qi' : List ℕ)
    (h : ∀ c ∈ cidx, ∀ i < n, (c * n + i ∈ qi ↔ c * n + i ∈ qi')) :
    expectedSiblings n yv cidx qi = expectedSiblings n yv cidx qi' := by
  unfold expectedSiblings
  apply List.flatMap_congr
  intro c hc
  congr 1
  apply List.filter_congr
  intro i hi
  have := h c hc i (List.mem_range.mp hi)
  simp only [this]

theorem coset_div (c n j : ℕ) (hj : j < n) : (c * n + j) / n = c := by
  apply Nat.div_eq_of_lt_le (by omega)
  rw [Nat.add_mul, Nat.one_mul]; omega

theorem div_bounds (a n c : ℕ) (hn : 0 < n) (h : a / n = c) : c * n ≤ a ∧ a < c * n + n := by
  have h1 : a / n * n ≤ a := Nat.div_mul_le_self a n
  have h2 : a < n * (a / n + 1) := Nat.lt_mul_div_succ a hn
  rw [h] at h1 h2
  have : n * (c + 1) = c * n + n := by ring
  omega

/-- Decomposition of a sorted index list whose smallest coset is `c`: the queries of coset `c`
    (non-empty, `a0 :: A'`) followed by the queries `B` of the remaining cosets `cs'`. -/
theorem coset_decomp {α : Type} (yv : ℕ → α) (n : ℕ) (hn1 : 1 ≤ n) (c : ℕ) (cs' qi : List ℕ)
    (hq : qi.Pairwise (· < ·)) (hqb : ∀ q ∈ qi, q < 2 ^ 64) (hc : (c :: cs').Pairwise (· < ·))
    (hmem : ∀ c', c' ∈ c :: cs' ↔ ∃ q ∈ qi, q / n = c') :
    ∃ (a0 : ℕ) (A' B : List ℕ),
      qi = (a0 :: A') ++ B ∧ (a0 :: A').Pairwise (· < ·) ∧ B.Pairwise (· < ·) ∧
      (∀ a ∈ a0 :: A', c * n ≤ a ∧ a < c * n + n) ∧ c * n + n < 2 ^ 64 + n ∧
      (∀ b ∈ B, b ∈ qi ∧ b / n ≠ c) ∧
      (∀ c', c' ∈ cs' ↔ ∃ q ∈ B, q / n = c') ∧
      expectedSiblings n yv (c :: cs') qi
        = ((List.range n).filter (fun j => decide (c * n + j ∉ a0 :: A'))).map
            (fun j => yv (c * n + j)) ++ expectedSiblings n yv cs' B := by
  have hcs' := (List.pairwise_cons.mp hc).2
  have hclt := (List.pairwise_cons.mp hc).1
  have hn0 : 0 < n := hn1
  have hmin : ∀ a ∈ qi, c ≤ a / n := fun a ha => by
    have : a / n ∈ c :: cs' := (hmem _).mpr ⟨a, ha, rfl⟩
    rcases List.mem_cons.mp this with h | h
    · omega
    · exact le_of_lt (hclt _ h)
  obtain ⟨p, hp⟩ : ∃ p : ℕ → Bool, p = fun a => decide (a / n = c) := ⟨_, rfl⟩
  have hpt : ∀ a, p a = true ↔ a / n = c := by intro a; simp [hp]
  have hdown : ∀ a ∈ qi, ∀ b' ∈ qi, a < b' → p b' = true → p a = true := by
    intro a ha b' _ hab hpb
    rw [hpt] at hpb ⊢
    have h1 := Nat.div_le_div_right (c := n) (le_of_lt hab)
    have h2 := hmin a ha
    omega
  have hsplit := sorted_filter_split qi p hq hdown
  obtain ⟨A, hAdef⟩ : ∃ A, A = qi.filter p := ⟨_, rfl⟩
  obtain ⟨B, hBdef⟩ : ∃ B, B = qi.filter (fun a => !p a) := ⟨_, rfl⟩
  rw [← hAdef, ← hBdef] at hsplit
  have hAmem : ∀ a, a ∈ A ↔ a ∈ qi ∧ a / n = c := by
    intro a; rw [hAdef, List.mem_filter, hpt]
  have hBmem : ∀ a, a ∈ B ↔ a ∈ qi ∧ a / n ≠ c := by
    intro a; rw [hBdef, List.mem_filter]
    simp only [Bool.not_eq_true', ne_eq]
    rw [← hpt a]; simp
  obtain ⟨q0, hq0, hq0c⟩ := (hmem c).mp (List.mem_cons_self ..)
  have hAne : A ≠ [] := List.ne_nil_of_mem ((hAmem q0).mpr ⟨hq0, hq0c⟩)
  obtain ⟨a0, A', hAeq⟩ := List.exists_cons_of_ne_nil hAne
  have hAsorted : A.Pairwise (· < ·) := by
    rw [hAdef]; exact List.Pairwise.sublist List.filter_sublist hq
  have hBsorted : B.Pairwise (· < ·) := by
    rw [hBdef]; exact List.Pairwise.sublist List.filter_sublist hq
  have hAr : ∀ a ∈ A, c * n ≤ a ∧ a < c * n + n := fun a ha =>
    div_bounds a n c hn0 ((hAmem a).mp ha).2
  have hb : c * n + n < 2 ^ 64 + n := by
    have h1 := (div_bounds q0 n c hn0 hq0c).1
    have h2 := hqb q0 hq0
    omega
  have hmemB : ∀ c', c' ∈ cs' ↔ ∃ q ∈ B, q / n = c' := by
    intro c'
    constructor
    · intro hc'
      obtain ⟨q, hqm, hqc⟩ := (hmem c').mp (List.mem_cons_of_mem _ hc')
      exact ⟨q, (hBmem q).mpr ⟨hqm, by rw [hqc]; exact (ne_of_lt (hclt c' hc')).symm⟩, hqc⟩
    · rintro ⟨q, hqm, hqc⟩
      have hq' := (hBmem q).mp hqm
      have : c' ∈ c :: cs' := (hmem c').mpr ⟨q, hq'.1, hqc⟩
      rcases List.mem_cons.mp this with h | h
      · exact absurd (hqc.trans h) hq'.2
      · exact h
  have hsibs : expectedSiblings n yv (c :: cs') qi
      = ((List.range n).filter (fun j => decide (c * n + j ∉ a0 :: A'))).map
          (fun j => yv (c * n + j)) ++ expectedSiblings n yv cs' B := by
    have h1 : expectedSiblings n yv (c :: cs') qi
        = ((List.range n).filter (fun j => decide (c * n + j ∉ qi))).map
            (fun j => yv (c * n + j)) ++ expectedSiblings n yv cs' qi := by
      simp only [expectedSiblings, List.flatMap_cons]
    rw [h1, ← hAeq]
    congr 1
    · congr 1
      apply List.filter_congr
      intro j hj
      have hj' := List.mem_range.mp hj
      have : c * n + j ∈ A ↔ c * n + j ∈ qi := by
        rw [hAmem]; exact ⟨fun h => h.1, fun h => ⟨h, coset_div c n j hj'⟩⟩
      simp only [this]
    · apply expectedSiblings_congr
      intro c' hc' i hi
      rw [hBmem]
      constructor
      · intro h
        refine ⟨h, ?_⟩
        rw [coset_div c' n i hi]
        exact (ne_of_lt (hclt c' hc')).symm
      · exact fun h => h.1
  exact ⟨a0, A', B, hAeq ▸ hsplit, hAeq ▸ hAsorted, hBsorted, hAeq ▸ hAr, hb,
    fun b hb' => (hBmem b).mp hb', hmemB, hsibs⟩

theorem rest_index_ne (yv xi : ℕ → Felt) (n c : ℕ) (hn : n ≤ 16) (hb : c * n + n < 2 ^ 64 + n)
    (qi B : List ℕ) (hqb : ∀ q ∈ qi, q < 2 ^ 64) (hB : ∀ b ∈ B, b ∈ qi ∧ b / n ≠ c) :
    ∀ q ∈ B.map (mkQ yv xi), ∀ j < n, q.index ≠ ((c * n + j : ℕ) : Felt) := by
  have hP : (2 : ℕ) ^ 65 < P := by decide +kernel
  intro q hqm j hj
  obtain ⟨b', hb', rfl⟩ := List.mem_map.mp hqm
  have hb'' := hB b' hb'
  have hlt := hqb b' hb''.1
  show ((b' : ℕ) : Felt) ≠ _
  rw [Ne, cast_inj_of_lt (by omega) (by omega)]
  intro heq
  exact hb''.2 (by rw [heq]; exact coset_div c n j hj)

/-- the while-loop of `compute_next_layer` on well-formed input, for arbitrary value table `yv`,
    x-inverse table `xi` and per-coset fold result `fv`. -/
theorem nextLayerLoop_spec (yv xi fv : ℕ → Felt) (b : Felt) (n : ℕ) (hn1 : 1 ≤ n) (hn : n ≤ 16)
    (hX : ∀ c i, i < n → xi (c * n + i) * friGroup.getD i 0 = xi (c * n))
    (hfv : ∀ c, friFormula ((List.range n).map (fun i => yv (c * n + i))) b (xi (c * n))
      ((n : ℕ) : Felt) = .ok (fv c))
    (extra : List Felt) :
    ∀ (cidx qi : List ℕ), qi.Pairwise (· < ·) → (∀ q ∈ qi, q < 2 ^ 64) → cidx.Pairwise (· < ·) →
      (∀ c, c ∈ cidx ↔ ∃ q ∈ qi, q / n = c) →
      ∀ (fuel : ℕ), qi.length < fuel → ∀ (nq : List LayerQuery) (vi vy : List Felt),
      nextLayerLoop ((n : ℕ) : Felt) b fuel (qi.map (mkQ yv xi))
        (expectedSiblings n yv cidx qi ++ extra) nq vi vy
      = .ok ⟨nq.reverse ++ cidx.map (fun c => ⟨((c : ℕ) : Felt), fv c, xi (c * n) ^ n⟩),
             vi.reverse ++ cidx.map (fun c => ((c : ℕ) : Felt)),
             vy ++ cosetValues n yv cidx, extra⟩ := by
  intro cidx
  induction cidx with
  | nil =>
    intro qi _ _ _ hmem fuel hfuel nq vi vy
    have hqi : qi = [] := by
      cases qi with
      | nil => rfl
      | cons q t => exact absurd ((hmem _).mpr ⟨q, List.mem_cons_self .., rfl⟩) (by simp)
    subst hqi
    obtain ⟨f, rfl⟩ : ∃ f, fuel = f + 1 := ⟨fuel - 1, by omega⟩
    simp [nextLayerLoop, expectedSiblings, cosetValues]
  | cons c cs' ih =>
    intro qi hq hqb hc hmem fuel hfuel nq vi vy
    obtain ⟨a0, A', B, hsplit, hAsorted, hBsorted, hAr, hb, hB, hmemB, hsibs⟩ :=
      coset_decomp yv n hn1 c cs' qi hq hqb hc hmem
    have hrest := rest_index_ne yv xi n c hn hb qi B hqb hB
    obtain ⟨f, rfl⟩ : ∃ f, fuel = f + 1 := ⟨fuel - 1, by omega⟩
    have hlen : B.length < f := by
      have h1 := congrArg List.length hsplit
      rw [List.length_append, List.length_cons] at h1
      omega
    have hmap : qi.map (mkQ yv xi) = (a0 :: A').map (mkQ yv xi) ++ B.map (mkQ yv xi) := by
      rw [← List.map_append, ← hsplit]
    rw [hmap, hsibs, List.append_assoc,
      nextLayerLoop_step yv xi b c n hn1 hn (by omega) (hX c) a0 A' hAsorted hAr
        (B.map (mkQ yv xi)) hrest (fv c) (hfv c),
      ih B hBsorted (fun q hqm => hqb q (hB q hqm).1) (List.pairwise_cons.mp hc).2 hmemB f hlen]
    simp [cosetValues, List.flatMap_cons]

end Swiftness.Proofs
