/-
  C14 helper lemmas, part 2: `validate_public_input` of the static layouts against the
  natural-number specification `Spec.PublicInputOK`.
-/
import Swiftness.Spec.PublicInputOK
import Swiftness.Proofs.PublicInputCheckArith
import Swiftness.Proofs.Domains

namespace Swiftness.Proofs.PIC
open Swiftness Swiftness.LayoutData Swiftness.Spec
attribute [-instance] Fin.instOfNat

/-! ### one builtin row -/

theorem builtinOK_ne_panic (pi : PublicInput) (tl : Felt) (row : Nat × Nat × Nat) (s : String) :
    builtinOK pi tl row ≠ .panic s := by
  obtain ⟨seg, ratio, cells⟩ := row
  simp only [builtinOK]
  split
  · simp
  · split_ifs <;> simp

theorem builtinsOK_ne_panic (pi : PublicInput) (tl : Felt) (l : List (Nat × Nat × Nat)) (s : String) :
    builtinsOK pi tl l ≠ .panic s := by
  induction l with
  | nil => simp [builtinsOK]
  | cons b bs ih =>
    unfold builtinsOK
    split
    · exact ih
    · exact builtinOK_ne_panic pi tl b s

theorem builtinsOK_iff (pi : PublicInput) (tl : Felt) (l : List (Nat × Nat × Nat)) :
    builtinsOK pi tl l = .ok () ↔ ∀ row ∈ l, builtinOK pi tl row = .ok () := by
  induction l with
  | nil => simp [builtinsOK]
  | cons b bs ih =>
    unfold builtinsOK
    split
    · next h => rw [ih]; simp [h]
    · next h =>
      constructor
      · intro h2; exact absurd h2 (h)
      · intro h2; exact absurd (h2 b (by simp)) h

/-- the model's test for one row: `copies` is `u128`-small and `uses ≤ copies` -/
theorem builtinOK_eq (pi : PublicInput) (tl : Felt) (seg ratio cells : ℕ) :
    builtinOK pi tl (seg, ratio, cells) = .ok () ↔
      ∃ s, pi.segments[seg]? = some s ∧
        (tl * Felt.inv (Felt.ofNat ratio)).val ≤ 2 ^ 128 - 1 ∧
        (if cells = 1 then s.stopPtr - s.beginAddr
          else (s.stopPtr - s.beginAddr) * Felt.inv (Felt.ofNat cells)).val ≤
        (tl * Felt.inv (Felt.ofNat ratio)).val := by
  simp only [builtinOK, seg?, U128_MAX]
  split
  · next h => simp [h]
  · next s h =>
    simp only [h, Option.some.injEq, exists_eq_left']
    split_ifs <;> simp_all

/-- `uses ≤ m` for the model's `uses` (no division at all when `cells = 1`) -/
theorem uses_le_iff (cells : ℕ) (h1 : 1 ≤ cells) (h16 : cells ≤ 16) (diff : Felt) (m : ℕ)
    (hm : m * 16 < P) :
    (if cells = 1 then diff else diff * Felt.inv (Felt.ofNat cells)).val ≤ m ↔
      (cells ∣ diff.val ∧ diff.val / cells ≤ m) := by
  have h16P : 16 < P := by decide +kernel
  split
  · next h => subst h; simp
  · exact uses_field_div cells h1 (by omega) diff m
      (lt_of_le_of_lt (Nat.mul_le_mul_left m h16) hm)

theorem two_pow_128_mul : (2 : ℕ) ^ 128 * 2 ^ 20 < P := by decide +kernel

/-- one row: the model's test is the natural-number one (INCLUDING `ratio ∣ T`: a `u128`-small
    field quotient `copies` forces the row ratio to divide the trace length) -/
theorem builtinOK_iff (pi : PublicInput) (T : ℕ) (hT : T < 2 ^ 112) (seg ratio cells : ℕ)
    (h1 : 1 ≤ cells) (h16 : cells ≤ 16) (hr : 0 < ratio) (hr20 : ratio ≤ 2 ^ 20) :
    builtinOK pi (Felt.ofNat T) (seg, ratio, cells) = .ok () ↔ BuiltinRowOK pi T (seg, ratio, cells) := by
  have hP := two_pow_128_mul
  have hTP : T < P := by omega
  rw [builtinOK_eq]
  unfold BuiltinRowOK usage
  have hm : T / ratio * 16 < P := by
    have : T / ratio ≤ T := Nat.div_le_self _ _
    omega
  constructor
  · rintro ⟨s, hs, hc, h⟩
    have hdvd : ratio ∣ T := copies_small_dvd T ratio hr (by omega) hTP (2 ^ 128 - 1)
      (lt_of_le_of_lt (Nat.mul_le_mul (Nat.sub_le _ _) hr20) hP) hc
    rw [copies_exact_gen T ratio hr hTP hdvd] at h
    exact ⟨s, hs, hdvd, (uses_le_iff cells h1 h16 _ _ hm).mp h⟩
  · rintro ⟨s, hs, hdvd, h⟩
    refine ⟨s, hs, ?_, ?_⟩
    · rw [copies_exact_gen T ratio hr hTP hdvd]
      have : T / ratio ≤ T := Nat.div_le_self _ _
      omega
    · rw [copies_exact_gen T ratio hr hTP hdvd]
      exact (uses_le_iff cells h1 h16 _ _ hm).mpr h

/-! ### the scalar checks -/

theorem trace_len_check (n h s T : ℕ) (hn : n < 80) (hhs : h * s < 2 ^ 32) (hT : T < P) :
    (Felt.pow (@OfNat.ofNat Felt 2 Fin.instOfNat) n * Felt.ofNat h * Felt.ofNat s = Felt.ofNat T) ↔
      2 ^ n * h * s = T := by
  have h112 : (2 : ℕ) ^ 80 * 2 ^ 32 < P := by decide +kernel
  have hnP : n < P := by omega
  rw [pow2_model n hnP, Felt.ofNat_eq_cast, Felt.ofNat_eq_cast, Felt.ofNat_eq_cast]
  have hlt : 2 ^ n * h * s < P := by
    have h1 : 2 ^ n ≤ 2 ^ 80 := Nat.pow_le_pow_right (by norm_num) (le_of_lt hn)
    calc 2 ^ n * h * s = 2 ^ n * (h * s) := Nat.mul_assoc _ _ _
      _ ≤ 2 ^ 80 * (h * s) := Nat.mul_le_mul_right _ h1
      _ ≤ 2 ^ 80 * 2 ^ 32 := Nat.mul_le_mul_left _ (le_of_lt hhs)
      _ < P := h112
  have hc : (2 : Felt) ^ n * ((h : ℕ) : Felt) * ((s : ℕ) : Felt) = (((2 ^ n * h * s : ℕ)) : Felt) := by
    push_cast; ring
  rw [hc]
  constructor
  · exact cast_inj hlt hT
  · intro h; rw [h]

/-- the model's `validate_public_input` as a conjunction of its own tests -/
theorem validate_eq (D : LayoutData) (pi : PublicInput) (d : StarkDomains) :
    D.validatePublicInput pi d = .ok () ↔
      pi.logNSteps.val < D.MAX_LOG_N_STEPS ∧
      Felt.pow (@OfNat.ofNat Felt 2 Fin.instOfNat) pi.logNSteps.val *
          Felt.ofNat (D.constD "CPU_COMPONENT_HEIGHT") * Felt.ofNat (D.constD "CPU_COMPONENT_STEP") =
        d.traceDomainSize ∧
      pi.segments.length = D.constD "SEG_N_SEGMENTS" ∧
      pi.rangeCheckMin.val < pi.rangeCheckMax.val ∧
      pi.rangeCheckMax.val ≤ D.MAX_RANGE_CHECK ∧
      pi.layout = Felt.ofNat (D.constD "LAYOUT_CODE") ∧
      (∃ out, pi.segments[D.constD "SEG_OUTPUT"]? = some out ∧ usage out ≤ 2 ^ 128 - 1) ∧
      builtinsOK pi d.traceDomainSize D.builtins = .ok () := by
  simp only [validatePublicInput, seg?, usage, U128_MAX, ne_eq, ite_not]
  split_ifs <;> try (simp_all; done)
  all_goals
    split
    · simp_all
    · simp_all
      split_ifs with h9
      · simp; intro h10; omega
      · simp; intro _; omega

theorem validate_ne_panic (D : LayoutData) (pi : PublicInput) (d : StarkDomains) (s : String) :
    D.validatePublicInput pi d ≠ .panic s := by
  simp only [validatePublicInput, ne_eq, ite_not]
  split_ifs <;> try simp
  all_goals
    split
    · simp
    · split_ifs
      · exact builtinsOK_ne_panic _ _ _ _
      · simp

/-- everything before the builtin rows -/
theorem validate_scalar (D : LayoutData) (hD : WellFormed D) (pi : PublicInput) (d : StarkDomains)
    (T : ℕ) (hT : T < P) (hd : d.traceDomainSize = Felt.ofNat T) :
    D.validatePublicInput pi d = .ok () ↔
      pi.logNSteps.val < 80 ∧
      2 ^ pi.logNSteps.val * D.constD "CPU_COMPONENT_HEIGHT" * D.constD "CPU_COMPONENT_STEP" = T ∧
      pi.segments.length = D.constD "SEG_N_SEGMENTS" ∧
      pi.rangeCheckMin.val < pi.rangeCheckMax.val ∧
      pi.rangeCheckMax.val ≤ 65535 ∧
      pi.layout = Felt.ofNat (D.constD "LAYOUT_CODE") ∧
      (∃ out, pi.segments[D.constD "SEG_OUTPUT"]? = some out ∧ usage out ≤ 2 ^ 128 - 1) ∧
      ∀ row ∈ D.builtins, builtinOK pi (Felt.ofNat T) row = .ok () := by
  rw [validate_eq, hD.maxLogNSteps, hD.maxRangeCheck, hd, builtinsOK_iff]
  constructor
  · rintro ⟨h1, h2, rest⟩
    exact ⟨h1, (trace_len_check _ _ _ T h1 hD.cpu hT).mp h2, rest⟩
  · rintro ⟨h1, h2, rest⟩
    exact ⟨h1, (trace_len_check _ _ _ T h1 hD.cpu hT).mpr h2, rest⟩

/-- a trace length that passes the step-count test is `< 2^112` -/
theorem trace_len_small (D : LayoutData) (hD : WellFormed D) (n T : ℕ) (hn : n < 80)
    (h : 2 ^ n * D.constD "CPU_COMPONENT_HEIGHT" * D.constD "CPU_COMPONENT_STEP" = T) : T < 2 ^ 112 := by
  have h1 : 2 ^ n ≤ 2 ^ 80 := Nat.pow_le_pow_right (by norm_num) (le_of_lt hn)
  have := hD.cpu
  rw [← h]
  calc 2 ^ n * D.constD "CPU_COMPONENT_HEIGHT" * D.constD "CPU_COMPONENT_STEP"
      = 2 ^ n * (D.constD "CPU_COMPONENT_HEIGHT" * D.constD "CPU_COMPONENT_STEP") := Nat.mul_assoc _ _ _
    _ ≤ 2 ^ 80 * (D.constD "CPU_COMPONENT_HEIGHT" * D.constD "CPU_COMPONENT_STEP") :=
        Nat.mul_le_mul_right _ h1
    _ < 2 ^ 80 * 2 ^ 32 := Nat.mul_lt_mul_of_pos_left this (by positivity)
    _ = 2 ^ 112 := by norm_num

/-- MAIN: acceptance is exactly the natural-number specification (no proviso on the trace length) -/
theorem validate_iff (D : LayoutData) (hD : WellFormed D) (pi : PublicInput) (d : StarkDomains)
    (T : ℕ) (hT : T < P) (hd : d.traceDomainSize = Felt.ofNat T) :
    D.validatePublicInput pi d = .ok () ↔ PublicInputOK D pi T := by
  rw [validate_scalar D hD pi d T hT hd]
  unfold PublicInputOK
  have hrow : ∀ (hT112 : T < 2 ^ 112), ∀ row ∈ D.builtins,
      (builtinOK pi (Felt.ofNat T) row = .ok () ↔ BuiltinRowOK pi T row) := by
    intro hT112 row hmem
    obtain ⟨h1, h16, r, hr20, hr⟩ := hD.rows row hmem
    obtain ⟨seg, ratio, cells⟩ := row
    simp only at h1 h16 hr
    exact builtinOK_iff pi T hT112 seg ratio cells h1 h16 (by rw [hr]; positivity)
      (by rw [hr]; exact Nat.pow_le_pow_right (by norm_num) hr20)
  constructor
  · rintro ⟨h1, h2, h3, h4, h5, h6, h7, h8⟩
    have hT112 := trace_len_small D hD _ T h1 h2
    exact ⟨h1, h2, h3, h4, h5, h6, h7, fun row hm => (hrow hT112 row hm).mp (h8 row hm)⟩
  · rintro ⟨h1, h2, h3, h4, h5, h6, h7, h8⟩
    have hT112 := trace_len_small D hD _ T h1 h2
    exact ⟨h1, h2, h3, h4, h5, h6, h7, fun row hm => (hrow hT112 row hm).mpr (h8 row hm)⟩

/-! ### short traces are rejected -/

/-- a trace `2^t` SHORTER than a row ratio `2^r`: `copies = P - (P-1)/2^(r-t) ≥ 2^250` fails the
    `copies <= u128::MAX` test, whatever the usage -/
theorem builtinOK_short_trace (pi : PublicInput) (t r seg cells : ℕ) (htr : t < r) (hr : r ≤ 192) :
    builtinOK pi (Felt.ofNat (2 ^ t)) (seg, 2 ^ r, cells) ≠ .ok () := by
  rw [Ne, builtinOK_eq]
  rintro ⟨s, _, hc, _⟩
  have := copies_short_ge t r htr hr
  have h250 : (2 : ℕ) ^ 128 ≤ 2 ^ 250 := Nat.pow_le_pow_right (by norm_num) (by norm_num)
  omega

end Swiftness.Proofs.PIC
