/-
  C07: all layers together.  For sorted distinct query indices `< 2^64`, an accepting run of
  `Fri.verify` has sorted query lists and sorted coset indices in EVERY layer, hence the per-layer
  soundness theorem applies to every layer whose commitment is the commitment of a table.
-/
import Swiftness.Proofs.FriSoundLayer
import Swiftness.Proofs.FriSoundSorted

namespace Swiftness.Proofs.FriSound

open Swiftness Fri Swiftness.Merkle Swiftness.TableSpec

variable {H : Hashes}

/-- sortedness, the `u64` bound and non-emptiness propagate through all layers of an accepting run -/
theorem trace_sorted {queries : List Felt} {c : Commitment} {values points : List Felt}
    {ws : List LayerWitness} {q : Nat → List LayerQuery} {nl : Nat → NextLayer}
    (ht : AcceptTrace H queries c values points ws q nl)
    (hs : (queries.map (·.val)).Pairwise (· < ·)) (hb : ∀ x ∈ queries, x.val < 2 ^ 64) :
    ∀ i, i ≤ (c.config.nLayers - 1).val →
      ((q i).map (·.index.val)).Pairwise (· < ·) ∧ (∀ x ∈ q i, x.index.val < 2 ^ 64) ∧
      (queries ≠ [] → q i ≠ []) := by
  intro i
  induction i with
  | zero =>
    intro _
    obtain ⟨h1, _, _⟩ := gatherFirstLayer_spec _ _ _ _ ht.first
    have h2 : (q 0).map (·.index.val) = queries.map (·.val) := by
      rw [← h1, List.map_map]; rfl
    refine ⟨by rw [h2]; exact hs, ?_, ?_⟩
    · intro x hx
      exact hb x.index (by rw [← h1]; exact List.mem_map_of_mem hx)
    · intro hne h0
      rw [h0] at h1
      exact hne h1.symm
  | succ i ih =>
    intro hi
    obtain ⟨ih1, ih2, ih3⟩ := ih (by omega)
    obtain ⟨ci, wi, ei, sti, _, _, _, _, hnl, _⟩ := ht.layer i (by omega)
    obtain ⟨g1, _, _, g4, g5, _, g7⟩ := computeNextLayer_indices _ _ _ _ _ hnl ih1 ih2
    rw [ht.next i (by omega)]
    refine ⟨g5, g7, ?_⟩
    intro hne h0
    rw [h0] at g4
    exact g1 (ih3 hne) g4.symm

/-- the coset indices of every layer: non-empty, strictly increasing, quotients of the layer's
    query indices by the coset size -/
theorem trace_verifyIndices {queries : List Felt} {c : Commitment} {values points : List Felt}
    {ws : List LayerWitness} {q : Nat → List LayerQuery} {nl : Nat → NextLayer}
    (ht : AcceptTrace H queries c values points ws q nl) (hne : queries ≠ [])
    (hs : (queries.map (·.val)).Pairwise (· < ·)) (hb : ∀ x ∈ queries, x.val < 2 ^ 64) :
    ∀ i, i < (c.config.nLayers - 1).val →
      (nl i).verifyIndices ≠ [] ∧ ((nl i).verifyIndices.map (·.val)).Pairwise (· < ·) ∧
      ∀ st, c.config.friStepSizes[i + 1]? = some st → ∀ x ∈ (nl i).verifyIndices,
        ∃ y ∈ q i, x.val = y.index.val / (Felt.pow 2 st.val).val := by
  intro i hi
  obtain ⟨ih1, ih2, ih3⟩ := trace_sorted ht hs hb i (by omega)
  obtain ⟨ci, wi, ei, sti, _, _, _, hst, hnl, _⟩ := ht.layer i hi
  obtain ⟨g1, g2, g3, _⟩ := computeNextLayer_indices _ _ _ _ _ hnl ih1 ih2
  refine ⟨g1 (ih3 hne), g2, ?_⟩
  intro st hst'
  rw [hst] at hst'
  cases hst'
  exact g3

/-- range of the indices: if `B i` bounds the query indices of layer `i` and shrinks by the coset size
    from layer to layer, then the coset indices of layer `i` are `< B (i+1)`. -/
theorem trace_range {queries : List Felt} {c : Commitment} {values points : List Felt}
    {ws : List LayerWitness} {q : Nat → List LayerQuery} {nl : Nat → NextLayer}
    (ht : AcceptTrace H queries c values points ws q nl) (hne : queries ≠ [])
    (hs : (queries.map (·.val)).Pairwise (· < ·)) (hb : ∀ x ∈ queries, x.val < 2 ^ 64)
    (B : Nat → Nat) (hB0 : ∀ x ∈ queries, x.val < B 0)
    (hB : ∀ i, i < (c.config.nLayers - 1).val → ∀ st, c.config.friStepSizes[i + 1]? = some st →
      B i ≤ B (i + 1) * (Felt.pow 2 st.val).val) :
    (∀ i, i ≤ (c.config.nLayers - 1).val → ∀ x ∈ q i, x.index.val < B i) ∧
    ∀ i, i < (c.config.nLayers - 1).val → ∀ x ∈ (nl i).verifyIndices, x.val < B (i + 1) := by
  have step : ∀ i, i < (c.config.nLayers - 1).val → (∀ x ∈ q i, x.index.val < B i) →
      ∀ x ∈ (nl i).verifyIndices, x.val < B (i + 1) := by
    intro i hi hq x hx
    obtain ⟨_, _, g3⟩ := trace_verifyIndices ht hne hs hb i hi
    obtain ⟨ci, wi, ei, sti, _, _, _, hst, _, _⟩ := ht.layer i hi
    obtain ⟨y, hy, hxy⟩ := g3 sti hst x hx
    have h1 := hq y hy
    have h2 := hB i hi sti hst
    have h3 : y.index.val < B (i + 1) * (Felt.pow 2 sti.val).val := Nat.lt_of_lt_of_le h1 h2
    have hpos : 0 < (Felt.pow 2 sti.val).val := by
      rcases Nat.eq_zero_or_pos (Felt.pow 2 sti.val).val with h0 | h0
      · rw [h0, Nat.mul_zero] at h3; exact absurd h3 (Nat.not_lt_zero _)
      · exact h0
    rw [hxy]
    exact (Nat.div_lt_iff_lt_mul hpos).mpr h3
  have hall : ∀ i, i ≤ (c.config.nLayers - 1).val → ∀ x ∈ q i, x.index.val < B i := by
    intro i
    induction i with
    | zero =>
      intro _ x hx
      obtain ⟨h1, _, _⟩ := gatherFirstLayer_spec _ _ _ _ ht.first
      exact hB0 x.index (by rw [← h1]; exact List.mem_map_of_mem hx)
    | succ i ih =>
      intro hi x hx
      have hv := step i (by omega) (ih (by omega))
      obtain ⟨ci, wi, ei, sti, _, _, _, _, hnl, _⟩ := ht.layer i (by omega)
      obtain ⟨ih1, ih2, _⟩ := trace_sorted ht hs hb i (by omega)
      obtain ⟨_, _, _, g4, _⟩ := computeNextLayer_indices _ _ _ _ _ hnl ih1 ih2
      rw [ht.next i (by omega)] at hx
      exact hv x.index (by rw [← g4]; exact List.mem_map_of_mem hx)
  exact ⟨hall, fun i hi => step i hi (hall i (by omega))⟩

/-- **FRI verification is sound layer by layer.**  An accepting run on non-empty, strictly increasing
    query indices `< 2^64` has a trace in which every inner layer `i` whose commitment is the
    commitment of a table `cell` (height `h ≤ 250`, coset indices in range) is bound to that table:
    queried values, consumed sibling leaves, folded rows and consumed authentication nodes are the
    committed ones — or there is an explicit hash collision. -/
theorem fri_verify_sound (queries : List Felt) (c : Commitment) (values points : List Felt)
    (ws : List LayerWitness) (hok : verify H queries c values points ws = .ok ())
    (hne : queries ≠ []) (hs : (queries.map (·.val)).Pairwise (· < ·))
    (hb : ∀ x ∈ queries, x.val < 2 ^ 64) :
    ∃ q nl, AcceptTrace H queries c values points ws q nl ∧
      ∀ i, i < (c.config.nLayers - 1).val →
        ∀ (nf : Felt) (h : Nat) (nc : Felt) (cell : Nat → Nat → Felt),
        c.innerLayers[i]? = some ⟨nc, ⟨⟨Felt.ofNat h, nf⟩, tableRoot H nf h nc.val cell⟩⟩ →
        h ≤ 250 → (∀ x ∈ (nl i).verifyIndices, x.val < 2 ^ h) →
        ∃ wi e st, ws[i]? = some wi ∧ c.evalPoints[i]? = some e ∧
          c.config.friStepSizes[i + 1]? = some st ∧
          ((LayerBound nc cell (q i) wi.leaves (Felt.pow 2 st.val) e (nl i) ∧
              ∃ extra, wi.auths = authPath H nf h (tableLeaf H nf h nc.val cell)
                ((nl i).verifyIndices.map (·.val)) ++ extra) ∨
            Collision H ∨ ManyCollision H ∨ MaskedCollision H) := by
  obtain ⟨_, _, _, _, q, nl, ht⟩ := (verify_ok_iff_trace H queries c values points ws).mp hok
  refine ⟨q, nl, ht, ?_⟩
  intro i hi nf h nc cell hc hh hr
  obtain ⟨g1, g2, _⟩ := trace_verifyIndices ht hne hs hb i hi
  obtain ⟨ci, wi, ei, sti, h1, h2, h3, h4, h5, h6⟩ := ht.layer i hi
  rw [hc] at h1
  cases h1
  exact ⟨wi, ei, sti, h2, h3, h4, fri_layer_sound hh nc cell _ _ _ _ _ _ h5 g1 g2 hr h6⟩

/-- `fri_verify_sound` with the range side condition discharged by a bound function `B`
    (`B 0` above all queries, `B i ≤ B (i+1) · coset size`, `B (i+1) ≤ 2^h_i`). -/
theorem fri_verify_sound_ranged (queries : List Felt) (c : Commitment) (values points : List Felt)
    (ws : List LayerWitness) (hok : verify H queries c values points ws = .ok ())
    (hne : queries ≠ []) (hs : (queries.map (·.val)).Pairwise (· < ·))
    (hb : ∀ x ∈ queries, x.val < 2 ^ 64)
    (B : Nat → Nat) (hB0 : ∀ x ∈ queries, x.val < B 0)
    (hB : ∀ i, i < (c.config.nLayers - 1).val → ∀ st, c.config.friStepSizes[i + 1]? = some st →
      B i ≤ B (i + 1) * (Felt.pow 2 st.val).val) :
    ∃ q nl, AcceptTrace H queries c values points ws q nl ∧
      ∀ i, i < (c.config.nLayers - 1).val →
        ∀ (nf : Felt) (h : Nat) (nc : Felt) (cell : Nat → Nat → Felt),
        c.innerLayers[i]? = some ⟨nc, ⟨⟨Felt.ofNat h, nf⟩, tableRoot H nf h nc.val cell⟩⟩ →
        h ≤ 250 → B (i + 1) ≤ 2 ^ h →
        ∃ wi e st, ws[i]? = some wi ∧ c.evalPoints[i]? = some e ∧
          c.config.friStepSizes[i + 1]? = some st ∧
          ((LayerBound nc cell (q i) wi.leaves (Felt.pow 2 st.val) e (nl i) ∧
              ∃ extra, wi.auths = authPath H nf h (tableLeaf H nf h nc.val cell)
                ((nl i).verifyIndices.map (·.val)) ++ extra) ∨
            Collision H ∨ ManyCollision H ∨ MaskedCollision H) := by
  obtain ⟨q, nl, ht, hsound⟩ := fri_verify_sound queries c values points ws hok hne hs hb
  refine ⟨q, nl, ht, ?_⟩
  intro i hi nf h nc cell hc hh hBh
  have hr := (trace_range ht hne hs hb B hB0 hB).2 i hi
  exact hsound i hi nf h nc cell hc hh (fun x hx => Nat.lt_of_lt_of_le (hr x hx) hBh)

end Swiftness.Proofs.FriSound
