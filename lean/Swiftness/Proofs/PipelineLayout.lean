/-
  C03 helper lemmas: what an accepted `validate_public_input` / `verify_public_input` of a static
  layout (`LayoutData.ops`) says about the public input.  Core Lean only (no field algebra needed).
-/
import Swiftness.Model.LayoutStatic
import Swiftness.Proofs.PipelineUnfold

namespace Swiftness.Proofs.Pipeline
open Swiftness Swiftness.LayoutData

/-! ### `validate_public_input` -/

theorem validatePublicInput_ok_elim {D : LayoutData} {pi : PublicInput} {d : StarkDomains}
    (h : validatePublicInput D pi d = .ok ()) :
    pi.logNSteps.val < D.MAX_LOG_N_STEPS ∧
    Felt.pow 2 pi.logNSteps.val * Felt.ofNat (D.constD "CPU_COMPONENT_HEIGHT") *
      Felt.ofNat (D.constD "CPU_COMPONENT_STEP") = d.traceDomainSize ∧
    pi.segments.length = D.constD "SEG_N_SEGMENTS" ∧
    pi.rangeCheckMin.val < pi.rangeCheckMax.val ∧ pi.rangeCheckMax.val ≤ D.MAX_RANGE_CHECK ∧
    pi.layout = Felt.ofNat (D.constD "LAYOUT_CODE") ∧
    ∃ out, seg? pi (D.constD "SEG_OUTPUT") = some out ∧
      (out.stopPtr - out.beginAddr).val ≤ U128_MAX ∧
      builtinsOK pi d.traceDomainSize D.builtins = .ok () := by
  unfold validatePublicInput at h
  split at h
  · simp at h
  · next h1 =>
    simp only at h
    split at h
    · simp at h
    · next h2 =>
      split at h
      · simp at h
      · next h3 =>
        split at h
        · simp at h
        · next h4 =>
          split at h
          · simp at h
          · next h5 =>
            split at h
            · simp at h
            · next h6 =>
              split at h
              · simp at h
              · next out hout =>
                split at h
                · simp at h
                · next h7 =>
                  exact ⟨Decidable.not_not.mp h1, Decidable.not_not.mp h2, Decidable.not_not.mp h3,
                    Decidable.not_not.mp h4, Decidable.not_not.mp h5, Decidable.not_not.mp h6,
                    out, hout, Decidable.not_not.mp h7, h⟩

/-! ### `verify_public_input` -/

theorem addressesFrom_spec (start : Felt) : ∀ (cells : List AddrValue) (k : Nat),
    addressesFrom start cells k = true →
    ∀ i (hi : i < cells.length), cells[i].address = start + Felt.ofNat (k + i)
  | [], _, _, i, hi => absurd hi (by simp)
  | c :: cs, k, h, i, hi => by
    simp only [addressesFrom, Bool.and_eq_true, beq_iff_eq] at h
    cases i with
    | zero => simpa using h.1
    | succ i =>
      have := addressesFrom_spec start cs (k + 1) h.2 i (by simpa using hi)
      simp only [List.getElem_cons_succ]
      rw [this]
      congr 2
      omega

theorem addressesFrom_of_spec (start : Felt) : ∀ (cells : List AddrValue) (k : Nat),
    (∀ i (hi : i < cells.length), cells[i].address = start + Felt.ofNat (k + i)) →
    addressesFrom start cells k = true
  | [], _, _ => rfl
  | c :: cs, k, h => by
    simp only [addressesFrom, Bool.and_eq_true, beq_iff_eq]
    refine ⟨by have := h 0 (by simp); simpa using this,
      addressesFrom_of_spec start cs (k + 1) fun i hi => ?_⟩
    have := h (i + 1) (by simpa using hi)
    simp only [List.getElem_cons_succ] at this
    rw [this]
    congr 2
    omega

/-- what `verify_public_input` checked and returned -/
structure PublicMemoryOK (D : LayoutData) (H : Hashes) (pi : PublicInput) (a b : Felt)
    (prog exec out : SegmentInfo) : Prop where
  segProgram : seg? pi (D.constD "SEG_PROGRAM") = some prog
  segExecution : seg? pi (D.constD "SEG_EXECUTION") = some exec
  segOutput : seg? pi (D.constD "SEG_OUTPUT") = some out
  initialAp : exec.beginAddr.val < D.MAX_ADDRESS
  finalAp : exec.stopPtr.val < D.MAX_ADDRESS
  noContinuousPages : pi.continuousPageHeaders = []
  initialPc : prog.beginAddr = Felt.ofNat D.INITIAL_PC
  finalPc : prog.stopPtr = Felt.ofNat D.INITIAL_PC + Felt.ofNat 4
  fits : (exec.beginAddr - Felt.ofNat 2 - prog.beginAddr).val + (out.stopPtr - out.beginAddr).val
      ≤ pi.mainPage.length
  fits64 : (exec.beginAddr - Felt.ofNat 2 - prog.beginAddr).val + (out.stopPtr - out.beginAddr).val
      < 2 ^ 64
  programAddr : ∀ i, i < (exec.beginAddr - Felt.ofNat 2 - prog.beginAddr).val →
    ∃ cell, pi.mainPage[i]? = some cell ∧ cell.address = Felt.ofNat D.INITIAL_PC + Felt.ofNat i
  outputAddr : ∀ i, i < (out.stopPtr - out.beginAddr).val →
    ∃ cell, pi.mainPage[pi.mainPage.length - (out.stopPtr - out.beginAddr).val + i]? = some cell ∧
      cell.address = out.beginAddr + Felt.ofNat i
  programHash : a = hashChain H
    ((pi.mainPage.take (exec.beginAddr - Felt.ofNat 2 - prog.beginAddr).val).map (·.value))
  outputHash : b = hashChain H
    ((pi.mainPage.drop (pi.mainPage.length - (out.stopPtr - out.beginAddr).val)).map (·.value))

theorem verifyPublicInput_ok_elim {D : LayoutData} {H : Hashes} {pi : PublicInput} {a b : Felt}
    (h : verifyPublicInput D H pi = .ok (a, b)) :
    ∃ prog exec out, PublicMemoryOK D H pi a b prog exec out := by
  unfold verifyPublicInput at h
  split at h
  · next prog exec out hp he ho =>
    simp only at h
    split at h
    · simp at h
    · next h1 =>
      split at h
      · simp at h
      · next h2 =>
        split at h
        · simp at h
        · next h3 =>
          split at h
          · simp at h
          · next h4 =>
            split at h
            · simp at h
            · next h5 =>
              split at h
              · simp at h
              · next h6 =>
                split at h
                · simp at h
                · next h7 =>
                  split at h
                  · simp at h
                  · next h8 =>
                    split at h
                    · simp at h
                    · next h9 =>
                      have h8' := Decidable.not_not.mp h8
                      have h9' := Decidable.not_not.mp h9
                      simp only [Bool.and_eq_true] at h9'
                      simp only [Outcome.ok.injEq, Prod.mk.injEq] at h
                      have two : (2 : Felt) = Felt.ofNat 2 := rfl
                      have four : (4 : Felt) = Felt.ofNat 4 := rfl
                      rw [two] at h8' h9' h
                      have hpc : prog.beginAddr = Felt.ofNat D.INITIAL_PC := Decidable.not_not.mp h4
                      refine ⟨prog, exec, out, hp, he, ho, Decidable.not_not.mp h1,
                        Decidable.not_not.mp h2, ?_, hpc, ?_, h8'.2, h8'.1, ?_, ?_, h.1.symm, h.2.symm⟩
                      · have := Decidable.not_not.mp h3
                        simpa using this
                      · rw [← four]; exact Decidable.not_not.mp h5
                      · intro i hi
                        have hlen : i < (pi.mainPage.take
                            (exec.beginAddr - Felt.ofNat 2 - prog.beginAddr).val).length := by
                          rw [List.length_take]; omega
                        have := addressesFrom_spec _ _ _ h9'.1 i hlen
                        rw [List.getElem_take, Nat.zero_add] at this
                        exact ⟨_, List.getElem?_eq_getElem (by omega), this.trans (by rw [hpc])⟩
                      · intro i hi
                        have hlen : i < (pi.mainPage.drop (pi.mainPage.length -
                            (out.stopPtr - out.beginAddr).val)).length := by
                          rw [List.length_drop]; omega
                        have := addressesFrom_spec _ _ _ h9'.2 i hlen
                        rw [List.getElem_drop, Nat.zero_add] at this
                        exact ⟨_, List.getElem?_eq_getElem (by omega), this⟩
  · simp at h

/-! ### the pipeline instantiated with a static layout -/

variable {D : LayoutData} {H : Hashes} {stone6 : Bool} {p : Stark.Proof} {sec : Felt}

theorem static_accept_elim {r : Felt × Felt} (hok : Stark.verify (D.ops H) H stone6 p sec = .ok r) :
    (∃ d, StarkDomains.new p.config.logTraceDomainSize p.config.logNCosets = .ok d ∧
      validatePublicInput D p.publicInput d = .ok ()) ∧
    verifyPublicInput D H p.publicInput = .ok r := by
  obtain ⟨n1, n2, d, t', c, qs, tq, A⟩ := verify_ok_elim hok
  exact ⟨⟨d, A.domains, A.publicInput⟩, A.result⟩

end Swiftness.Proofs.Pipeline
