/-
  Per-layout kernel-checked facts for C16, "no coefficient position is identically zero" (restated in
  `Props/C16.lean`): on the generated witness input the fast shadow run (`Model/AstFast.lean`) executes ALL
  accumulate statements of the generated program and every term is non-zero.  Split over several modules so
  that they build in parallel.  Programs and witnesses are referred to by name only.
-/
import Swiftness.Proofs.AstFast
import Swiftness.Generated.Consts
import Swiftness.Generated.Layout.dynamic
import Swiftness.Generated.Witness.dynamic

set_option maxRecDepth 100000

namespace Swiftness.Proofs.AstFast.Facts
open Swiftness Swiftness.Ast Swiftness.Ast.Fast Swiftness.Gen Swiftness.Gen.Layout

theorem nz_dynamic_oods :
    nzCount dynamic.witnessOods dynamic.witnessOodsInv dynamic.oods = some (dynamic.MASK_SIZE + dynamic.CONSTRAINT_DEGREE) := by
  ast_nz dynamic.oods

end Swiftness.Proofs.AstFast.Facts
