/-
  C06, per-layer step, facts for ARBITRARY input: `computeNextLayer` never exhausts its fuel (every
  iteration of the while-loop consumes at least one query) and the only errors are those of `friFormula`.
-/
import Swiftness.Proofs.FriLayerCoset
namespace Swiftness.Proofs
open Swiftness Fri FoldSpec
attribute [-instance] Fin.instOfNat

/-- the only error of `cosetLoop` is the exhausted sibling witness -/
theorem cosetLoop_err (start : Felt) (m i : ℕ) (qs : List LayerQuery) (sibs : List Felt) (x : Felt)
    (acc : List Felt) (e : String) (h : cosetLoop start m i qs sibs x acc = .err e) :
    e = "SiblingWitnessTooShort" := by
  fun_induction cosetLoop start m i qs sibs x acc <;> simp_all

theorem cosetLoop_queries_length (start : Felt) (m i : ℕ) (qs : List LayerQuery) (sibs : List Felt)
    (x : Felt) (acc : List Felt) (r : CosetResult) (h : cosetLoop start m i qs sibs x acc = .ok r) :
    r.queries.length ≤ qs.length := by
  fun_induction cosetLoop start m i qs sibs x acc <;> simp_all
  · subst h; simp
  all_goals omega

theorem cosetLoop_progress (start : Felt) (m i : ℕ) (q : LayerQuery) (qs : List LayerQuery) (sibs : List Felt)
    (x : Felt) (acc : List Felt) (r : CosetResult) (h : cosetLoop start m i (q :: qs) sibs x acc = .ok r)
    (hj : ∃ j, i ≤ j ∧ j < i + m ∧ q.index = start + Felt.ofNat j) :
    r.queries.length < (q :: qs).length := by
  induction m generalizing i sibs x acc with
  | zero => obtain ⟨j, h1, h2, _⟩ := hj; omega
  | succ m ih =>
    obtain ⟨j, h1, h2, h3⟩ := hj
    simp only [cosetLoop] at h
    split at h
    · next heq =>
      split at h
      · have := cosetLoop_queries_length _ _ _ _ _ _ _ _ h
        simp only [List.length_cons]; omega
      · cases h
    · next hne =>
      split at h
      · apply ih _ _ _ _ h
        refine ⟨j, ?_, by omega, h3⟩
        rcases Nat.lt_or_ge i j with h | h
        · omega
        · have : i = j := by omega
          subst this; exact absurd h3 hne
      · cases h

theorem formula4_err (v : List Felt) (e x : Felt) (s : String) (h : formula4 v e x = .err s) :
    s = "InvalidValuesLength" := by
  unfold formula4 at h
  split at h
  · cases h
  · cases h; rfl

theorem formula8_err (v : List Felt) (e x : Felt) (s : String) (h : formula8 v e x = .err s) :
    s = "InvalidValuesLength" := by
  unfold formula8 at h
  split at h
  · cases h; rfl
  · split at h
    · cases h
    · exact formula4_err _ _ _ _ h
    · next h1 => 
      rcases hf : formula4 (List.take 4 v) e x with g | s' | s'
      · simp_all
      · rw [hf] at h; cases h; exact formula4_err _ _ _ _ hf
      · rw [hf] at h; cases h


theorem formula16_err (v : List Felt) (e x : Felt) (s : String) (h : formula16 v e x = .err s) :
    s = "InvalidValuesLength" := by
  unfold formula16 at h
  split at h
  · cases h; rfl
  · split at h
    · cases h
    · exact formula8_err _ _ _ _ h
    · rcases hf : formula8 (List.take 8 v) e x with g | s' | s'
      · simp_all
      · rw [hf] at h; cases h; exact formula8_err _ _ _ _ hf
      · rw [hf] at h; cases h

theorem friFormula_err (v : List Felt) (e x n : Felt) (s : String) (h : friFormula v e x n = .err s) :
    s ≠ "fuel" := by
  unfold friFormula at h
  split at h
  · cases h; decide
  · split at h
    · split at h
      · cases h
      · cases h; decide
    · split at h
      · rw [formula4_err _ _ _ _ h]; decide
      · split at h
        · rw [formula8_err _ _ _ _ h]; decide
        · split at h
          · rw [formula16_err _ _ _ _ h]; decide
          · cases h

theorem index_decomp (q cs : Felt) :
    q = Felt.ofNat (q.val / cs.val) * cs + Felt.ofNat (q.val % cs.val) := by
  rw [Felt.ofNat_eq_cast, Felt.ofNat_eq_cast]
  conv_lhs => rw [← Felt.cast_val q, ← Nat.div_add_mod' q.val cs.val]
  conv_rhs => rw [← Felt.cast_val cs]
  push_cast
  rw [Felt.cast_val cs]

theorem nextLayerLoop_fuel (cs e : Felt) : ∀ (fuel : ℕ) (qs : List LayerQuery) (sibs : List Felt)
    (nq : List LayerQuery) (vi vy : List Felt), qs.length < fuel →
    nextLayerLoop cs e fuel qs sibs nq vi vy ≠ .err "fuel" := by
  intro fuel
  induction fuel with
  | zero => intro qs _ _ _ _ h; omega
  | succ f ih =>
    intro qs sibs nq vi vy hlen
    cases qs with
    | nil => simp [nextLayerLoop]
    | cons q qs' =>
      rw [nextLayerLoop]
      split
      · simp
      · next hcs0 =>
        dsimp only
        split
        · next r hr =>
          split
          · next y hy =>
            apply ih
            unfold cosetElements at hr
            split at hr
            · cases hr
            · have hpos : 0 < cs.val := by
                rcases Nat.eq_zero_or_pos cs.val with h | h
                · exfalso; apply hcs0; apply Fin.ext; rw [h]; rfl
                · exact h
              have := cosetLoop_progress _ _ _ _ _ _ _ _ _ hr
                ⟨q.index.val % cs.val, Nat.zero_le _, by have := Nat.mod_lt q.index.val hpos; omega,
                  index_decomp q.index cs⟩
              simp only [List.length_cons] at this hlen
              omega
          · next s hs => intro h; injection h with h; exact friFormula_err _ _ _ _ _ hs h
          · simp
        · next s hs =>
          unfold cosetElements at hs
          split at hs
          · cases hs
          · rw [cosetLoop_err _ _ _ _ _ _ _ _ hs]
            intro h; injection h with h; revert h; decide
        · simp

theorem computeNextLayer_fuel (qs : List LayerQuery) (sibs : List Felt) (cs e : Felt) :
    computeNextLayer qs sibs cs e ≠ .err "fuel" :=
  nextLayerLoop_fuel cs e _ qs sibs [] [] [] (Nat.lt_succ_self _)

end Swiftness.Proofs
