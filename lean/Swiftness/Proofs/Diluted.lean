/-
  C15 (first half): `get_diluted_product` computes the defining recurrence over all `2^n_bits`
  diluted values.
-/
import Swiftness.Model.Diluted
import Swiftness.Spec.DilutedSpec
import Swiftness.Proofs.FeltField
import Swiftness.Proofs.Domains
import Mathlib.Algebra.BigOperators.Group.Finset.Basic

namespace Swiftness.Proofs
open Swiftness Swiftness.DilutedSpec Swiftness.Diluted
attribute [-instance] Fin.instOfNat

/-! ### `dilute` on naturals -/

theorem dilute_zero (s : ℕ) : dilute s 0 = 0 := by
  rw [dilute]; simp

theorem dilute_unfold (s j : ℕ) : dilute s j = j % 2 + 2 ^ s * dilute s (j / 2) := by
  by_cases h : j = 0
  · subst h; simp [dilute_zero]
  · conv_lhs => rw [dilute]
    rw [dif_neg h]

/-- `dilute s j = Σ_{b<n} bit_b(j) · 2^(b·s)` for `j < 2^n` -/
theorem dilute_eq_sum (s n j : ℕ) (hj : j < 2 ^ n) :
    dilute s j = ∑ b ∈ Finset.range n, (j / 2 ^ b % 2) * 2 ^ (b * s) := by
  induction n generalizing j with
  | zero =>
    have : j = 0 := by simpa using hj
    subst this; simp [dilute_zero]
  | succ n ih =>
    rw [dilute_unfold, Finset.sum_range_succ', ih (j / 2) (by rw [pow_succ] at hj; omega),
      Finset.mul_sum]
    simp only [pow_zero, Nat.div_one, zero_mul, mul_one]
    rw [add_comm]
    congr 1
    apply Finset.sum_congr rfl
    intro b _
    rw [Nat.div_div_eq_div_mul, pow_succ, mul_comm 2 (2 ^ b)]
    ring

theorem dilute_two_pow_add (s i m : ℕ) (hm : m < 2 ^ i) :
    dilute s (2 ^ i + m) = 2 ^ (i * s) + dilute s m := by
  induction i generalizing m with
  | zero =>
    have : m = 0 := by simpa using hm
    subst this
    rw [dilute_unfold]
    simp [dilute_zero]
  | succ i ih =>
    rw [dilute_unfold s (2 ^ (i + 1) + m), dilute_unfold s m]
    have h1 : (2 ^ (i + 1) + m) % 2 = m % 2 := by rw [pow_succ]; omega
    have h2 : (2 ^ (i + 1) + m) / 2 = 2 ^ i + m / 2 := by rw [pow_succ]; omega
    rw [h1, h2, ih (m / 2) (by rw [pow_succ] at hm; omega)]
    ring

/-! ### `u` in the field -/

theorem u_def (s j : ℕ) :
    u s j = ((dilute s j : ℕ) : Felt) - ((dilute s (j - 1) : ℕ) : Felt) := rfl

theorem cast_two_pow_mul (s i : ℕ) : (((2 ^ (i * s) : ℕ)) : Felt) = ((2 : Felt) ^ s) ^ i := by
  push_cast
  rw [mul_comm, pow_mul]

theorem u_one (s : ℕ) : u s 1 = 1 := by
  rw [u_def]
  have : dilute s 1 = 1 := by
    have := dilute_two_pow_add s 0 0 (by norm_num)
    simpa [dilute_zero] using this
  rw [this, Nat.sub_self, dilute_zero]
  simp

/-- `u` depends only on the number of trailing zeros: periodicity below a power of two -/
theorem u_periodic (s i m : ℕ) (h0 : 0 < m) (hm : m < 2 ^ i) : u s (2 ^ i + m) = u s m := by
  rw [u_def, u_def]
  have e : 2 ^ i + m - 1 = 2 ^ i + (m - 1) := by omega
  rw [e, dilute_two_pow_add s i m hm, dilute_two_pow_add s i (m - 1) (by omega)]
  push_cast
  ring

/-- `u_{2^(i+1)} = u_{2^i} + 2^((i+1)·s) − 2^(i·s+1)` -/
theorem u_two_pow_succ (s i : ℕ) :
    u s (2 ^ (i + 1)) = u s (2 ^ i) + ((2 : Felt) ^ s) ^ i * ((2 : Felt) ^ s - 2) := by
  have hpos : 0 < 2 ^ i := by positivity
  have a1 : dilute s (2 ^ (i + 1)) = 2 ^ ((i + 1) * s) := by
    have := dilute_two_pow_add s (i + 1) 0 (by positivity)
    simpa [dilute_zero] using this
  have a2 : dilute s (2 ^ (i + 1) - 1) = 2 ^ (i * s) + dilute s (2 ^ i - 1) := by
    have e : 2 ^ (i + 1) - 1 = 2 ^ i + (2 ^ i - 1) := by rw [pow_succ]; omega
    rw [e, dilute_two_pow_add s i _ (by omega)]
  have a3 : dilute s (2 ^ i) = 2 ^ (i * s) := by
    have := dilute_two_pow_add s i 0 (by positivity)
    simpa [dilute_zero] using this
  rw [u_def, u_def, a1, a2, a3, Nat.cast_add, cast_two_pow_mul, cast_two_pow_mul]
  ring

/-! ### the recurrence as a composition of affine maps -/

theorem r_one (s : ℕ) (z alpha : Felt) : r s z alpha 1 = 1 := by
  simp only [r]

theorem r_succ (s : ℕ) (z alpha : Felt) (j : ℕ) (hj : 1 ≤ j) :
    r s z alpha (j + 1) = r s z alpha j * (1 + z * u s j) + alpha * (u s j) ^ 2 := by
  obtain ⟨k, rfl⟩ : ∃ k, j = k + 1 := ⟨j - 1, by omega⟩
  simp only [r]
  rw [← Felt.one_eq, pow_two]

/-- coefficients `(A, B)` of the affine map `ρ ↦ A·ρ + alpha·B` obtained by composing the steps
    `a, a+1, …, a+l-1` of the recurrence:
    `A = ∏ (1 + z·v_n)`, `B = Σ_n v_n² ∏_{m>n} (1 + z·v_m)`. -/
def acc (v : ℕ → Felt) (z : Felt) (a : ℕ) : ℕ → Felt × Felt
  | 0 => (1, 0)
  | l + 1 =>
    ((acc v z a l).1 * (1 + z * v (a + l)),
     (acc v z a l).2 * (1 + z * v (a + l)) + v (a + l) ^ 2)

theorem r_acc (s : ℕ) (z alpha : Felt) (a l : ℕ) (ha : 1 ≤ a) :
    r s z alpha (a + l) =
      (acc (u s) z a l).1 * r s z alpha a + alpha * (acc (u s) z a l).2 := by
  induction l with
  | zero => simp [acc]
  | succ l ih =>
    rw [← add_assoc, r_succ s z alpha (a + l) (by omega), ih]
    simp only [acc]
    ring

theorem acc_add (v : ℕ → Felt) (z : Felt) (a l₁ l₂ : ℕ) :
    acc v z a (l₁ + l₂) =
      ((acc v z a l₁).1 * (acc v z (a + l₁) l₂).1,
       (acc v z a l₁).2 * (acc v z (a + l₁) l₂).1 + (acc v z (a + l₁) l₂).2) := by
  induction l₂ with
  | zero => simp [acc]
  | succ l₂ ih =>
    rw [← add_assoc]
    simp only [acc, ih, add_assoc]
    refine Prod.ext ?_ ?_ <;> simp only <;> ring

theorem acc_congr (v : ℕ → Felt) (z : Felt) (a a' l : ℕ)
    (h : ∀ m, m < l → v (a + m) = v (a' + m)) : acc v z a l = acc v z a' l := by
  induction l with
  | zero => simp [acc]
  | succ l ih =>
    simp only [acc]
    rw [ih (fun m hm => h m (by omega)), h l (by omega)]

/-- the doubling step: `p_{i+1} = p_i (1 + z x_i) p_i`,
    `q_{i+1} = (q_i (1 + z x_i) + x_i²) p_i + q_i` with `x_i = u_{2^i}`. -/
theorem acc_double (s : ℕ) (z : Felt) (i : ℕ) :
    acc (u s) z 1 (2 ^ (i + 1) - 1) =
      ((acc (u s) z 1 (2 ^ i - 1)).1 * (1 + z * u s (2 ^ i)) * (acc (u s) z 1 (2 ^ i - 1)).1,
       ((acc (u s) z 1 (2 ^ i - 1)).2 * (1 + z * u s (2 ^ i)) + u s (2 ^ i) ^ 2)
          * (acc (u s) z 1 (2 ^ i - 1)).1 + (acc (u s) z 1 (2 ^ i - 1)).2) := by
  have hpos : 0 < 2 ^ i := by positivity
  have e : 2 ^ (i + 1) - 1 = (2 ^ i - 1 + 1) + (2 ^ i - 1) := by rw [pow_succ]; omega
  have hc : acc (u s) z (1 + (2 ^ i - 1 + 1)) (2 ^ i - 1) = acc (u s) z 1 (2 ^ i - 1) := by
    apply acc_congr
    intro m hm
    have e2 : 1 + (2 ^ i - 1 + 1) + m = 2 ^ i + (1 + m) := by omega
    rw [e2, u_periodic s i (1 + m) (by omega) (by omega)]
  have e3 : 1 + (2 ^ i - 1) = 2 ^ i := by omega
  rw [e, acc_add, hc]
  simp only [acc, e3]

/-! ### the loop invariant -/

/-- after `k` iterations: `x = u_{2^k}`, `diffX = 2^(k·s)·(2^s − 2)`, `p = p_{k+1}`, `q = q_{k+1}`
    in the notation of the Rust comment -/
structure Inv (s : ℕ) (z : Felt) (k : ℕ) (st : St) : Prop where
  x : st.x = u s (2 ^ k)
  d : st.diffX = ((2 : Felt) ^ s) ^ k * ((2 : Felt) ^ s - 2)
  p : st.p = (acc (u s) z 1 (2 ^ (k + 1) - 1)).1
  q : st.q = (acc (u s) z 1 (2 ^ (k + 1) - 1)).2

theorem step_inv (s : ℕ) (z : Felt) (k : ℕ) (st : St) (h : Inv s z k st) :
    Inv s z (k + 1) (stepSt ((2 : Felt) ^ s) z st) := by
  have hx : st.x + st.diffX = u s (2 ^ (k + 1)) := by
    rw [h.x, h.d, u_two_pow_succ]
  refine ⟨?_, ?_, ?_, ?_⟩
  · simp only [stepSt]; exact hx
  · simp only [stepSt]; rw [h.d, pow_succ]; ring
  · simp only [stepSt]
    rw [acc_double s z (k + 1), hx, ← h.p]
    simp only
    ring
  · simp only [stepSt]
    rw [acc_double s z (k + 1), hx, ← h.p, ← h.q]
    simp only
    ring

theorem iter_inv (s : ℕ) (z : Felt) (n k : ℕ) (st : St) (h : Inv s z k st) :
    Inv s z (k + n) (iter ((2 : Felt) ^ s) z n st) := by
  induction n generalizing k st with
  | zero => simpa [iter] using h
  | succ n ih =>
    simp only [iter]
    have := ih (k + 1) _ (step_inv s z k st h)
    rwa [add_assoc, add_comm 1 n] at this

theorem init_inv (s : ℕ) (z : Felt) :
    Inv s z 0 { x := 1, diffX := (2 : Felt) ^ s - 2, p := z + 1, q := 1 } := by
  refine ⟨?_, ?_, ?_, ?_⟩
  · simp [u_one]
  · simp
  · simp [acc, u_one]; ring
  · simp [acc, u_one]

/-! ### main statements -/

theorem cast_sub_one_val (n : ℕ) (h1 : 1 ≤ n) (hn : n < P) : ((n : Felt) - 1).val = n - 1 := by
  have : ((n : Felt) - 1) = ((n - 1 : ℕ) : Felt) := by
    rw [Nat.cast_sub h1, Nat.cast_one]
  rw [this]
  exact Felt.val_cast_of_lt (by omega)

theorem zero_sub_one_val : ((0 : Felt) - 1).val = P - 1 := by
  have : ((0 : Felt) - 1) = ((P - 1 : ℕ) : Felt) := by
    have hp : ((P : ℕ) : Felt) = 0 := ZMod.natCast_self P
    have h1 : 1 ≤ P := by decide +kernel
    rw [Nat.cast_sub h1, hp, Nat.cast_one]
  rw [this]
  exact Felt.val_cast_of_lt (by have : 0 < P := by decide +kernel
                                omega)

/-- the model with literals normalised: `iterations` loop bodies from the initial state -/
theorem getDilutedProduct_unfold (nBits spacing z alpha : Felt) :
    getDilutedProduct nBits spacing z alpha =
      (iter ((2 : Felt) ^ spacing.val) z (nBits - 1).val
          { x := 1, diffX := (2 : Felt) ^ spacing.val - 2, p := z + 1, q := 1 }).p
        + (iter ((2 : Felt) ^ spacing.val) z (nBits - 1).val
          { x := 1, diffX := (2 : Felt) ^ spacing.val - 2, p := z + 1, q := 1 }).q * alpha := by
  unfold getDilutedProduct
  simp only [felt_ofNat]
  push_cast
  rw [Felt.pow_val_eq]

theorem diluted_closed_form (n : ℕ) (h1 : 1 ≤ n) (hn : n < P) (spacing z alpha : Felt) :
    getDilutedProduct (n : Felt) spacing z alpha = r spacing.val z alpha (2 ^ n) := by
  rw [getDilutedProduct_unfold, cast_sub_one_val n h1 hn]
  have hI := iter_inv spacing.val z (n - 1) 0 _ (init_inv spacing.val z)
  have hpos : 0 < 2 ^ n := by positivity
  have e : 0 + (n - 1) + 1 = n := by omega
  rw [hI.p, hI.q, e]
  have e2 : 2 ^ n = 1 + (2 ^ n - 1) := by omega
  conv_rhs => rw [e2]
  rw [r_acc spacing.val z alpha 1 _ le_rfl, r_one]
  ring

end Swiftness.Proofs
