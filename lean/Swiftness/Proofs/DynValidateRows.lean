/-
  C14 (dynamic layout) helper lemmas, part 3: field division versus natural division for the dynamic
  layout's builtin rows.  When the row ratio is a power of two not exceeding the (power-of-two) trace
  length, the FIELD quotient `trace_length * ratio⁻¹` computed by the code is the natural quotient, and the
  `uses <= copies` test is the natural-number one.
-/
import Swiftness.Spec.DynPublicInputOK
import Swiftness.Proofs.DynValidateFacts
import Swiftness.Proofs.PublicInputCheckValidate

namespace Swiftness.Proofs.DynPIC
open Swiftness Swiftness.LayoutData Swiftness.Spec Swiftness.DynData Swiftness.DynAsserts
attribute [-instance] Fin.instOfNat

theorem two_pow_160_lt_P : 2 ^ 160 < P := by decide +kernel

theorem ofNat_val_self (x : Felt) : Felt.ofNat x.val = x := by
  rw [Felt.ofNat_eq_cast, Felt.cast_val]

theorem pow2Le_dvd {r T : ℕ} (h : Pow2Le r T) (hT : ∃ t, T = 2 ^ t) : r ∣ T ∧ 0 < r := by
  obtain ⟨⟨k, rfl⟩, hle⟩ := h
  obtain ⟨t, rfl⟩ := hT
  have hkt : k ≤ t := (Nat.pow_le_pow_iff_right (by norm_num)).mp hle
  exact ⟨pow_dvd_pow 2 hkt, by positivity⟩

/-- the code's `field_div` by a divisor of the representative: the natural quotient -/
theorem fieldDivTry_exact (T : Felt) (R : ℕ) (hR : 0 < R) (hdvd : R ∣ T.val) (hT0 : T.val ≠ 0) :
    fieldDivTry T (Felt.ofNat R) = .ok (Felt.ofNat (T.val / R)) := by
  have hRP : R < P := lt_of_le_of_lt (Nat.le_of_dvd (Nat.pos_of_ne_zero hT0) hdvd) T.isLt
  unfold fieldDivTry
  split
  · next h0 =>
    exfalso
    rw [Proofs.zero_felt, Felt.ofNat_eq_cast] at h0
    exact PIC.cast_ne_zero hR hRP h0
  · refine congrArg Outcome.ok ?_
    apply Fin.ext
    have := PIC.copies_exact_gen T.val R hR T.isLt hdvd
    rw [ofNat_val_self] at this
    rw [this, DynAsserts.ofNat_val_of_lt]
    exact lt_of_le_of_lt (Nat.div_le_self _ _) T.isLt

theorem fieldDivTry_pow2 (T : Felt) (hT : ∃ t, T.val = 2 ^ t) {r : ℕ} (h : Pow2Le r T.val) :
    fieldDivTry T (Felt.ofNat r) = .ok (Felt.ofNat (T.val / r)) := by
  obtain ⟨hdvd, hpos⟩ := pow2Le_dvd h hT
  obtain ⟨t, ht⟩ := hT
  exact fieldDivTry_exact T r hpos hdvd (by rw [ht]; positivity)

theorem div_val (T : Felt) (r : ℕ) : (Felt.ofNat (T.val / r)).val = T.val / r :=
  DynAsserts.ofNat_val_of_lt (lt_of_le_of_lt (Nat.div_le_self _ _) T.isLt)

theorem dynCopies_le (D : DynData) (dp : Array ℕ) (T : ℕ) (uses ratio : String) :
    dynCopies D dp T uses ratio ≤ T := by
  unfold dynCopies
  split
  · exact Nat.zero_le _
  · exact Nat.div_le_self _ _

theorem copiesOf_eq (D : DynData) (dp : Array ℕ) (T : Felt) (hT : ∃ t, T.val = 2 ^ t) (uses ratio : String)
    (h : D.dpv dp uses ≠ 0 → Pow2Le (D.dpv dp ratio) T.val) :
    copiesOf D dp T uses ratio = .ok (Felt.ofNat (dynCopies D dp T.val uses ratio)) := by
  unfold copiesOf dynCopies
  by_cases h0 : D.dpv dp uses = 0
  · rw [if_pos h0, if_pos h0]; rfl
  · rw [if_neg h0, if_neg h0]
    exact fieldDivTry_pow2 T hT (h h0)

/-- one row of the builtin table -/
theorem builtinCopies_iff (D : DynData) (pi : PublicInput) (dp : Array ℕ) (T : Felt)
    (hT : ∃ t, T.val = 2 ^ t) (hT148 : T.val < 2 ^ 148) (uses ratio seg : String) (cells : ℕ)
    (h1 : 1 ≤ cells) (h16 : cells ≤ 16)
    (h : D.dpv dp uses ≠ 0 → Pow2Le (D.dpv dp ratio) T.val) (c : Felt) :
    builtinCopies D pi dp T (uses, ratio, seg, cells) = .ok c ↔
      c = Felt.ofNat (dynCopies D dp T.val uses ratio) ∧
      DynBuiltinRowOK D pi dp T.val (uses, ratio, seg, cells) := by
  have hle := dynCopies_le D dp T.val uses ratio
  have hP := two_pow_160_lt_P
  have hval : (Felt.ofNat (dynCopies D dp T.val uses ratio)).val = dynCopies D dp T.val uses ratio :=
    DynAsserts.ofNat_val_of_lt (by omega)
  have hdvd : D.dpv dp uses ≠ 0 → D.dpv dp ratio ∣ T.val := fun h0 => (pow2Le_dvd (h h0) hT).1
  simp only [builtinCopies, copiesOf_eq D dp T hT uses ratio h, seg?, DynBuiltinRowOK, usage]
  cases hs : pi.segments[D.base.constD seg]? with
  | none => simp
  | some s =>
    simp only [Option.some.injEq, exists_eq_left']
    rw [hval]
    have hu := PIC.uses_le_iff cells h1 h16 (s.stopPtr - s.beginAddr)
      (dynCopies D dp T.val uses ratio) (by omega)
    generalize (if cells = 1 then s.stopPtr - s.beginAddr
      else (s.stopPtr - s.beginAddr) * Felt.inv (Felt.ofNat cells)) = used at hu ⊢
    split
    · next hle' =>
      constructor
      · intro e; cases e; exact ⟨rfl, hdvd, hu.mp hle'⟩
      · rintro ⟨rfl, _⟩; rfl
    · next hnle =>
      constructor
      · intro e; cases e
      · rintro ⟨_, _, h3⟩; exact absurd (hu.mpr h3) hnle

/-- all rows -/
theorem allCopies_iff (D : DynData) (pi : PublicInput) (dp : Array ℕ) (T : Felt)
    (hT : ∃ t, T.val = 2 ^ t) (hT148 : T.val < 2 ^ 148) (bt : List (String × String × String × ℕ))
    (hbt : ∀ row ∈ bt, 1 ≤ row.2.2.2 ∧ row.2.2.2 ≤ 16 ∧
      (D.dpv dp row.1 ≠ 0 → Pow2Le (D.dpv dp row.2.1) T.val)) (cs : List Felt) :
    allCopies D pi dp T bt = .ok cs ↔
      cs = bt.map (fun row => Felt.ofNat (dynCopies D dp T.val row.1 row.2.1)) ∧
      ∀ row ∈ bt, DynBuiltinRowOK D pi dp T.val row := by
  induction bt generalizing cs with
  | nil =>
    simp only [allCopies, List.map_nil, List.not_mem_nil, false_imp_iff, implies_true, and_true]
    constructor
    · intro e; cases e; rfl
    · rintro rfl; rfl
  | cons b bs ih =>
    obtain ⟨uses, ratio, seg, cells⟩ := b
    obtain ⟨h1, h16, hrow⟩ := hbt _ List.mem_cons_self
    have ih' := ih (fun row hr => hbt row (List.mem_cons_of_mem _ hr))
    have hb := builtinCopies_iff D pi dp T hT hT148 uses ratio seg cells h1 h16 hrow
    unfold allCopies
    cases hbc : builtinCopies D pi dp T (uses, ratio, seg, cells) with
    | ok c =>
      obtain ⟨hc, hok⟩ := (hb c).mp hbc
      dsimp only
      cases hac : allCopies D pi dp T bs with
      | ok cs' =>
        obtain ⟨hcs', hall⟩ := (ih' cs').mp hac
        dsimp only
        constructor
        · intro e; cases e
          refine ⟨by rw [hc, hcs']; rfl, ?_⟩
          intro row hr
          rcases List.mem_cons.mp hr with rfl | hr
          · exact hok
          · exact hall row hr
        · rintro ⟨rfl, _⟩
          rw [hc, hcs']; rfl
      | err e =>
        dsimp only
        constructor
        · intro e'; cases e'
        · rintro ⟨_, hall⟩
          have := (ih' _).mpr ⟨rfl, fun row hr => hall row (List.mem_cons_of_mem _ hr)⟩
          rw [hac] at this; cases this
      | panic s =>
        dsimp only
        constructor
        · intro e'; cases e'
        · rintro ⟨_, hall⟩
          have := (ih' _).mpr ⟨rfl, fun row hr => hall row (List.mem_cons_of_mem _ hr)⟩
          rw [hac] at this; cases this
    | err e =>
      dsimp only
      constructor
      · intro e'; cases e'
      · rintro ⟨_, hall⟩
        have := (hb _).mpr ⟨rfl, hall _ List.mem_cons_self⟩
        rw [hbc] at this; cases this
    | panic s =>
      dsimp only
      constructor
      · intro e'; cases e'
      · rintro ⟨_, hall⟩
        have := (hb _).mpr ⟨rfl, hall _ List.mem_cons_self⟩
        rw [hbc] at this; cases this

end Swiftness.Proofs.DynPIC
