/-
  C06, per-layer step, part 3: `computeNextLayer` on an honest layer (values of a polynomial on a
  coset-wise laid out domain) produces the layer of the folded polynomial.
-/
import Swiftness.Proofs.FriLayerStep
import Swiftness.Proofs.FriLayerCount
import Swiftness.Proofs.FriLayerFuel
import Mathlib.Data.Finset.Sort

namespace Swiftness.Proofs
open Swiftness Fri FoldSpec
attribute [-instance] Fin.instOfNat

theorem pow_le_16 (k : ℕ) (hk4 : k ≤ 4) : 2 ^ k ≤ 16 :=
  Nat.pow_le_pow_right (by norm_num) hk4

theorem next_layer_step (k : ℕ) (hk1 : 1 ≤ k) (hk4 : k ≤ 4) (cs : List Felt) (b : Felt)
    (pt : ℕ → Felt) (hpt0 : ∀ idx, pt idx ≠ 0)
    (hpt : ∀ c i, i < 2 ^ k → pt (c * 2 ^ k + i) = pt (c * 2 ^ k) * friGroup.getD i 0)
    (qi cidx : List ℕ) (hq : qi.Pairwise (· < ·)) (hqb : ∀ q ∈ qi, q < 2 ^ 64)
    (hc : cidx.Pairwise (· < ·)) (hmem : ∀ c, c ∈ cidx ↔ ∃ q ∈ qi, q / 2 ^ k = c)
    (extra : List Felt) :
    computeNextLayer (qi.map fun idx : ℕ => (⟨(idx : Felt), evalL cs (pt idx), (pt idx)⁻¹⟩ : LayerQuery))
        (expectedSiblings (2 ^ k) (fun idx => evalL cs (pt idx)) cidx qi ++ extra)
        ((2 ^ k : ℕ) : Felt) b
      = .ok ⟨cidx.map fun c : ℕ => (⟨(c : Felt),
                ((2 ^ k : ℕ) : Felt) * ∑ j ∈ Finset.range (2 ^ k),
                  b ^ j * evalL (split k cs j) (pt (c * 2 ^ k) ^ 2 ^ k),
                ((pt (c * 2 ^ k))⁻¹) ^ 2 ^ k⟩ : LayerQuery),
             cidx.map (fun c : ℕ => (c : Felt)),
             cosetValues (2 ^ k) (fun idx => evalL cs (pt idx)) cidx,
             extra⟩ := by
  have hn := pow_le_16 k hk4
  have hn1 : 1 ≤ 2 ^ k := Nat.one_le_two_pow
  have hX : ∀ c i, i < 2 ^ k →
      (fun idx => (pt idx)⁻¹) (c * 2 ^ k + i) * friGroup.getD i 0 = (fun idx => (pt idx)⁻¹) (c * 2 ^ k) := by
    intro c i hi
    simp only [hpt c i hi]
    exact coset_xinv_consistent _ (hpt0 _) i (by omega)
  have hfv : ∀ c, friFormula ((List.range (2 ^ k)).map (fun i => (fun idx => evalL cs (pt idx)) (c * 2 ^ k + i)))
      b ((fun idx => (pt idx)⁻¹) (c * 2 ^ k)) ((2 ^ k : ℕ) : Felt)
      = .ok ((fun c => ((2 ^ k : ℕ) : Felt) * ∑ j ∈ Finset.range (2 ^ k),
                  b ^ j * evalL (split k cs j) (pt (c * 2 ^ k) ^ 2 ^ k)) c) := by
    intro c
    have h := fold_identity_range k hk1 hk4 cs (pt (c * 2 ^ k)) (pt (c * 2 ^ k))⁻¹ b
      (mul_inv_cancel₀ (hpt0 _))
    rw [← h]
    congr 1
    apply List.map_congr_left
    intro i hi
    simp only [hpt c i (List.mem_range.mp hi)]
  have h := nextLayerLoop_spec (fun idx => evalL cs (pt idx)) (fun idx => (pt idx)⁻¹) _ b (2 ^ k) hn1 hn
    hX hfv extra cidx qi hq hqb hc hmem (qi.length + 1) (Nat.lt_succ_self _) [] [] []
  unfold computeNextLayer
  rw [List.length_map]
  simp only [List.reverse_nil, List.nil_append] at h
  exact h

/-- a successful `computeNextLayer` on sorted, bounded query indices (arbitrary values) consumes exactly
    `expectedSiblings.length` sibling values -/
theorem nextLayer_count (k : ℕ) (hk4 : k ≤ 4) (b : Felt) (yv xi : ℕ → Felt)
    (qi cidx : List ℕ) (hq : qi.Pairwise (· < ·)) (hqb : ∀ q ∈ qi, q < 2 ^ 64)
    (hc : cidx.Pairwise (· < ·)) (hmem : ∀ c, c ∈ cidx ↔ ∃ q ∈ qi, q / 2 ^ k = c)
    (sibs : List Felt) (r : NextLayer)
    (h : computeNextLayer (qi.map fun idx : ℕ => (⟨(idx : Felt), yv idx, xi idx⟩ : LayerQuery)) sibs
      ((2 ^ k : ℕ) : Felt) b = .ok r) :
    sibs.length = (expectedSiblings (2 ^ k) yv cidx qi).length + r.siblingsLeft.length :=
  nextLayerLoop_count yv xi b (2 ^ k) Nat.one_le_two_pow (pow_le_16 k hk4) cidx qi hq hqb hc hmem
    _ sibs [] [] [] r h

theorem nextLayer_consumes (k : ℕ) (hk4 : k ≤ 4) (b : Felt) (yv xi : ℕ → Felt)
    (qi cidx : List ℕ) (hq : qi.Pairwise (· < ·)) (hqb : ∀ q ∈ qi, q < 2 ^ 64)
    (hc : cidx.Pairwise (· < ·)) (hmem : ∀ c, c ∈ cidx ↔ ∃ q ∈ qi, q / 2 ^ k = c)
    (sibs : List Felt) (hshort : sibs.length < (expectedSiblings (2 ^ k) yv cidx qi).length) :
    ∀ r, computeNextLayer (qi.map fun idx : ℕ => (⟨(idx : Felt), yv idx, xi idx⟩ : LayerQuery)) sibs
      ((2 ^ k : ℕ) : Felt) b ≠ .ok r := by
  intro r h
  have := nextLayer_count k hk4 b yv xi qi cidx hq hqb hc hmem sibs r h
  omega

/-- on well-formed query indices `computeNextLayer` returns `ok` or `err "SiblingWitnessTooShort"` -/
theorem nextLayer_wf (k : ℕ) (hk1 : 1 ≤ k) (hk4 : k ≤ 4) (b : Felt) (yv xi : ℕ → Felt)
    (qi cidx : List ℕ) (hq : qi.Pairwise (· < ·)) (hqb : ∀ q ∈ qi, q < 2 ^ 64)
    (hc : cidx.Pairwise (· < ·)) (hmem : ∀ c, c ∈ cidx ↔ ∃ q ∈ qi, q / 2 ^ k = c)
    (sibs : List Felt) :
    (∃ r, computeNextLayer (qi.map fun idx : ℕ => (⟨(idx : Felt), yv idx, xi idx⟩ : LayerQuery)) sibs
      ((2 ^ k : ℕ) : Felt) b = .ok r) ∨
    computeNextLayer (qi.map fun idx : ℕ => (⟨(idx : Felt), yv idx, xi idx⟩ : LayerQuery)) sibs
      ((2 ^ k : ℕ) : Felt) b = .err "SiblingWitnessTooShort" := by
  have h := nextLayerLoop_wf yv xi b k hk1 hk4 cidx qi hq hqb hc hmem (qi.length + 1)
    (Nat.lt_succ_self _) sibs [] [] []
  unfold computeNextLayer
  rw [List.length_map]
  exact h

/-- with fewer sibling values than needed the result is exactly `err "SiblingWitnessTooShort"` -/
theorem nextLayer_consumes_err (k : ℕ) (hk1 : 1 ≤ k) (hk4 : k ≤ 4) (b : Felt) (yv xi : ℕ → Felt)
    (qi cidx : List ℕ) (hq : qi.Pairwise (· < ·)) (hqb : ∀ q ∈ qi, q < 2 ^ 64)
    (hc : cidx.Pairwise (· < ·)) (hmem : ∀ c, c ∈ cidx ↔ ∃ q ∈ qi, q / 2 ^ k = c)
    (sibs : List Felt) (hshort : sibs.length < (expectedSiblings (2 ^ k) yv cidx qi).length) :
    computeNextLayer (qi.map fun idx : ℕ => (⟨(idx : Felt), yv idx, xi idx⟩ : LayerQuery)) sibs
      ((2 ^ k : ℕ) : Felt) b = .err "SiblingWitnessTooShort" := by
  rcases nextLayer_wf k hk1 hk4 b yv xi qi cidx hq hqb hc hmem sibs with ⟨r, h⟩ | h
  · exact absurd h (nextLayer_consumes k hk4 b yv xi qi cidx hq hqb hc hmem sibs hshort r)
  · exact h

/-- the list of touched cosets exists (and is unique, being sorted with prescribed members) -/
theorem cosetIndices_exists (qi : List ℕ) (n : ℕ) :
    ∃ cidx : List ℕ, cidx.Pairwise (· < ·) ∧ ∀ c, c ∈ cidx ↔ ∃ q ∈ qi, q / n = c := by
  refine ⟨((qi.map (· / n)).toFinset).sort (· ≤ ·), ?_, ?_⟩
  · exact (Finset.sortedLT_sort _).pairwise
  · intro c; simp [Finset.mem_sort]

end Swiftness.Proofs
