/-
  Recursion depth of the Merkle walk, part 2: the bound at the level of `Vector.decommit` and
  `Table.decommit`.  For a tree of height `h ≤ 250` and in-range query indices the shifted heap indices
  lie in `[2^h, 2^(h+1))`, so `Nat.log2 index = h` and `computeRootCalls_le` gives
  `calls ≤ 1 + queries.length * h`, whatever authentication vector the prover supplies.
  (Definitions and the core lemmas: `Proofs/MerkleDepthCore.lean`, core Lean only.)
-/
import Swiftness.Proofs.MerkleDepthCore
import Swiftness.Proofs.MerklePow
import Swiftness.Proofs.TableProofs

namespace Swiftness.Proofs.MerkleDepth
open Swiftness Swiftness.Vector
open Swiftness.Proofs.Merkle (pow_two_val two251_lt_P)

variable {H : Hashes}

theorem two_pow_succ_le_251 {h : ℕ} (hh : h ≤ 250) : 2 ^ h + 2 ^ h ≤ 2 ^ 251 := by
  have : 2 ^ (h + 1) ≤ 2 ^ 251 := Nat.pow_le_pow_right (by omega) (by omega)
  rw [Nat.pow_succ] at this; omega

/-- the heap indices `decommit` starts from: for `height ≤ m ≤ 250` and query indices `< 2^m` the
    sum `index + 2^height` does not wrap around, is non-zero and has at most `m + 1` bits -/
theorem shiftedQueue_index_le (c : Commitment) (queries : List Query) (m : ℕ) (hm : m ≤ 250)
    (hh : c.config.height.val ≤ m) (hr : ∀ q ∈ queries, q.index.val < 2 ^ m) :
    ∀ e ∈ shiftedQueue c queries, 2 ^ c.config.height.val ≤ e.index.val ∧ e.index.val < 2 ^ (m + 1) := by
  intro e he
  unfold shiftedQueue at he
  rw [List.mem_map] at he
  obtain ⟨q, hq, rfl⟩ := he
  have hS : (Felt.pow 2 c.config.height.val).val = 2 ^ c.config.height.val :=
    pow_two_val c.config.height.val (by omega)
  have h251 := two_pow_succ_le_251 hm
  have hq := hr q hq
  have hle : 2 ^ c.config.height.val ≤ 2 ^ m := Nat.pow_le_pow_right (by omega) hh
  have hv : (q.index + Felt.pow 2 c.config.height.val).val = q.index.val + 2 ^ c.config.height.val := by
    rw [Fin.val_add, hS]
    exact Nat.mod_eq_of_lt (by have := two251_lt_P; omega)
  show 2 ^ c.config.height.val ≤ (q.index + Felt.pow 2 c.config.height.val).val ∧
    (q.index + Felt.pow 2 c.config.height.val).val < 2 ^ (m + 1)
  rw [hv, Nat.pow_succ]
  omega

/-- general form: height `≤ m ≤ 250`, query indices `< 2^m` (not necessarily `< 2^height`): at most
    `1 + queries.length * m` recursive calls — for every `auths` -/
theorem decommit_calls_le_of_lt (c : Commitment) (queries : List Query) (auths : List Felt) (m : ℕ)
    (hm : m ≤ 250) (hh : c.config.height.val ≤ m) (hr : ∀ q ∈ queries, q.index.val < 2 ^ m) :
    decommitCalls H c queries auths ≤ 1 + queries.length * m := by
  have hidx := shiftedQueue_index_le c queries m hm hh hr
  have hpos : ∀ e ∈ shiftedQueue c queries, 1 ≤ e.index.val := by
    intro e he
    have := (hidx e he).1
    have : 0 < 2 ^ c.config.height.val := Nat.pow_pos (by omega)
    omega
  have hlog : ∀ e ∈ shiftedQueue c queries, Nat.log2 e.index.val ≤ m := by
    intro e he
    have h1 := hpos e he
    have := (Nat.log2_lt (n := e.index.val) (k := m + 1) (by omega)).mpr (hidx e he).2
    omega
  have h1 := computeRootCalls_le (H := H) (nf := c.config.nFriendly)
    ((shiftedQueue c queries).length + auths.length + 1) (shiftedQueue c queries) auths hpos
  have h2 := logSum_le m (shiftedQueue c queries) hlog
  have h3 : (shiftedQueue c queries).length = queries.length := by simp [shiftedQueue]
  unfold decommitCalls
  rw [h3] at h2
  omega

/-- **Depth of `Vector.decommit`.**  Height `≤ 250`, query indices `< 2^height`: at most
    `1 + queries.length * height` recursive calls — for every `auths`. -/
theorem decommit_calls_le (c : Commitment) (queries : List Query) (auths : List Felt)
    (hh : c.config.height.val ≤ 250) (hr : ∀ q ∈ queries, q.index.val < 2 ^ c.config.height.val) :
    decommitCalls H c queries auths ≤ 1 + queries.length * c.config.height.val :=
  decommit_calls_le_of_lt c queries auths c.config.height.val hh (Nat.le_refl _) hr

/-- in that case every shifted index has exactly `height + 1` bits: the measure of
    `computeRootCalls_le` is exactly `queries.length * height` -/
theorem shiftedQueue_log2 (c : Commitment) (queries : List Query) (hh : c.config.height.val ≤ 250)
    (hr : ∀ q ∈ queries, q.index.val < 2 ^ c.config.height.val) :
    ∀ e ∈ shiftedQueue c queries, Nat.log2 e.index.val = c.config.height.val := by
  intro e he
  have h := shiftedQueue_index_le c queries c.config.height.val hh (Nat.le_refl _) hr e he
  have : 0 < 2 ^ c.config.height.val := Nat.pow_pos (by omega)
  exact (Nat.log2_eq_iff (by omega)).mpr h

/-- **Depth of `Table.decommit`** (the entry point the pipeline uses), general form: the row values
    and the authentication nodes are arbitrary. -/
theorem tableDecommit_calls_le_of_lt (c : Table.Commitment) (queries values auths : List Felt) (m : ℕ)
    (hm : m ≤ 250) (hh : c.vector.config.height.val ≤ m) (hr : ∀ q ∈ queries, q.val < 2 ^ m) :
    tableDecommitCalls H c queries values auths ≤ 1 + queries.length * m := by
  by_cases h1 : c.nColumns.val ≥ 2 ^ 32
  · unfold tableDecommitCalls; simp only []; rw [if_pos h1]; omega
  by_cases h2 : c.nColumns.val * queries.length ≠ values.length
  · unfold tableDecommitCalls; simp only []; rw [if_neg h1, if_pos h2]; omega
  rw [tableDecommitCalls_eq c queries values auths h1 h2]
  generalize hvq : Table.vectorQueries H c.nColumns.val _ queries _ = vq
  have hidx : vq.map (·.index) = queries := by
    rw [← hvq]; exact Swiftness.Proofs.Table.vectorQueries_index _ _ _ _
  have hlen : vq.length = queries.length := by rw [← hidx, List.length_map]
  have hr' : ∀ q ∈ vq, q.index.val < 2 ^ m := by
    intro q hq
    exact hr q.index (by rw [← hidx]; exact List.mem_map_of_mem hq)
  have := decommit_calls_le_of_lt (H := H) c.vector vq auths m hm hh hr'
  rw [hlen] at this
  exact this

/-- height `≤ 250`, query indices `< 2^height` -/
theorem tableDecommit_calls_le (c : Table.Commitment) (queries values auths : List Felt)
    (hh : c.vector.config.height.val ≤ 250)
    (hr : ∀ q ∈ queries, q.val < 2 ^ c.vector.config.height.val) :
    tableDecommitCalls H c queries values auths ≤ 1 + queries.length * c.vector.config.height.val :=
  tableDecommit_calls_le_of_lt c queries values auths _ hh (Nat.le_refl _) hr

/-- the form used for the pipeline: at most `nq` queries, all `< 2^m`, height at most `m` -/
theorem tableDecommit_calls_le_const (c : Table.Commitment) (queries values auths : List Felt)
    (nq m : ℕ) (hm : m ≤ 250) (hh : c.vector.config.height.val ≤ m)
    (hn : queries.length ≤ nq) (hr : ∀ q ∈ queries, q.val < 2 ^ m) :
    tableDecommitCalls H c queries values auths ≤ 1 + nq * m := by
  have h1 := tableDecommit_calls_le_of_lt (H := H) c queries values auths m hm hh hr
  have h2 : queries.length * m ≤ nq * m := Nat.mul_le_mul_right _ hn
  omega

end Swiftness.Proofs.MerkleDepth
