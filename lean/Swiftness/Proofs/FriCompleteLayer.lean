/-
  C06b (FRI completeness), part 2: the spec-level honest prover (`friLayersSpec`, `friProveSpec`:
  `Prover.friLayers` / `Prover.friProve` with the executable Merkle builder replaced by the SPEC
  functions `TableSpec.tableRoot` / `Merkle.authPath`) and completeness of ONE layer:
  `next_layer_step` + `table_complete`.
-/
import Swiftness.Proofs.FriCompleteBasic
import Swiftness.Props.C05
import Swiftness.Props.C06

namespace Swiftness.Proofs.FriComplete
open Swiftness Fri FoldSpec Prover
attribute [-instance] Fin.instOfNat

/-- the model files' `evalL` (core `Fin` instances) is the proof files' `evalL` -/
theorem evalL_core :
    @evalL Felt (@Zero.ofOfNat0 Felt (@Fin.instOfNat P _ 0)) Fin.instAdd Fin.instMul = @evalL Felt _ _ _ :=
  rfl

/-! ### the spec-level prover -/

/-- `Prover.friLayers` with `buildTableAuth` replaced by the spec root / authentication path of the
    table whose row `r` is coset `r` of the layer: `cell r c = P(layerPoint L (r·n + c))`. -/
def friLayersSpec (H : Hashes) (nf : Felt) : List Nat → Nat → List Felt → List Nat → Transcript →
    List Felt × List Felt × List FriLayerOut × List Felt × Transcript
  | [], _, cs, _, t => ([], [], [], cs, t)
  | step :: steps, L, cs, Q, t =>
    let n := 2 ^ step
    let yv : Nat → Felt := fun idx => evalL cs (layerPoint L idx)
    let cell : Nat → Nat → Felt := fun r c => yv (r * n + c)
    let cidx := cosetIdx n Q
    let root := TableSpec.tableRoot H nf (L - step) n cell
    let auth := Merkle.authPath H nf (L - step) (TableSpec.tableLeaf H nf (L - step) n cell) cidx
    let t1 := t.readFelt H root
    let (b, t2) := t1.randomFelt H
    let leaves := expectedSiblings n yv cidx Q
    let (roots, es, outs, last, t3) := friLayersSpec H nf steps (L - step) (foldPoly step b cs) cidx t2
    (root :: roots, b :: es, ⟨root, leaves, auth⟩ :: outs, last, t3)

/-- `Prover.friProve` over `friLayersSpec` -/
def friProveSpec (H : Hashes) (nf : Felt) (steps : List Nat) (lastBound logNCosets : Nat) (cs : List Felt)
    (Q : List Nat) (t : Transcript) : FriInstance :=
  let L := steps.foldl (· + ·) 0 + lastBound + logNCosets
  let values := Q.map fun q => evalL cs (layerPoint L q)
  let points := Q.map fun q => 3 * layerPoint L q
  let (roots, es, outs, last, t1) := friLayersSpec H nf steps L cs Q t
  let lastCoefs := (List.range (2 ^ lastBound)).map fun i => last.getD i 0
  ⟨roots, lastCoefs, es, values, points, outs, t1.readFeltVector H lastCoefs⟩

/-! ### honest queries -/

/-- the honest layer queries of polynomial `cs` on the layer of log-size `L` at indices `Q` -/
def honestQueries (cs : List Felt) (L : ℕ) (Q : List ℕ) : List LayerQuery :=
  Q.map fun idx : ℕ => (⟨(idx : Felt), evalL cs (layerPoint L idx), (layerPoint L idx)⁻¹⟩ : LayerQuery)

theorem two_felt' : (@OfNat.ofNat Felt 2 Fin.instOfNat) = (2 : Felt) := by
  rw [felt_ofNat]; norm_num

theorem P_gt_two_pow_64 : 2 ^ 64 < P := by decide +kernel

theorem ofNat_val_of_lt (n : ℕ) (h : n < 2 ^ 64) : (Felt.ofNat n).val = n := by
  rw [Felt.ofNat_eq_cast]
  exact Felt.val_cast_of_lt (lt_trans h P_gt_two_pow_64)

/-- the verifier's coset size `Felt.pow 2 step.val` for the step `Felt.ofNat k` -/
theorem cosetSize_eq (k : ℕ) (hk : k ≤ 64) :
    Felt.pow (@OfNat.ofNat Felt 2 Fin.instOfNat) (Felt.ofNat k).val = ((2 ^ k : ℕ) : Felt) := by
  have h64 : k < 2 ^ 64 := lt_of_le_of_lt hk (by norm_num)
  rw [ofNat_val_of_lt k h64, Felt.pow_eq _ _ (lt_trans h64 (by norm_num)), two_felt']
  push_cast
  rfl

/-- **Completeness of one FRI layer** for the honest prover: on the honest queries of `cs` and the
    prover's sibling values, `compute_next_layer` yields the honest queries of the folded polynomial
    `foldPoly k b cs` on the next layer at the touched cosets … -/
theorem one_layer_next (k L : ℕ) (hk1 : 1 ≤ k) (hk4 : k ≤ 4) (hkL : k ≤ L) (hL : L ≤ 64)
    (cs : List Felt) (b : Felt) (Q : List ℕ) (hQ : Q.Pairwise (· < ·)) (hQb : ∀ q ∈ Q, q < 2 ^ L) :
    computeNextLayer (honestQueries cs L Q)
        (expectedSiblings (2 ^ k) (fun idx => evalL cs (layerPoint L idx)) (cosetIdx (2 ^ k) Q) Q)
        (Felt.pow (@OfNat.ofNat Felt 2 Fin.instOfNat) (Felt.ofNat k).val) b
      = .ok ⟨honestQueries (foldPoly k b cs) (L - k) (cosetIdx (2 ^ k) Q),
             (cosetIdx (2 ^ k) Q).map Felt.ofNat,
             cosetValues (2 ^ k) (fun idx => evalL cs (layerPoint L idx)) (cosetIdx (2 ^ k) Q),
             []⟩ := by
  have hL192 : L ≤ 192 := by omega
  have h := C06.next_layer_step k hk1 hk4 cs b (layerPoint L) (layerPoint_ne_zero L hL192)
    (fun c i hi => layerPoint_coset k L hk4 hkL hL192 c i hi) Q (cosetIdx (2 ^ k) Q) hQ
    (fun q hq => lt_of_lt_of_le (hQb q hq) (Nat.pow_le_pow_right (by norm_num) hL))
    (cosetIdx_pairwise _ Q hQ) (cosetIdx_mem _ Q) []
  rw [List.append_nil] at h
  rw [cosetSize_eq k (by omega)]
  unfold honestQueries
  rw [h]
  congr 2
  apply List.map_congr_left
  intro c _
  rw [foldPoly_eval k hk4, layerPoint_next k L hkL hL192 c, inv_pow]

/-- … and the table decommitment of all values of the touched cosets against the prover's (spec)
    table root with the prover's (spec) authentication path is accepted. -/
theorem one_layer_decommit (H : Hashes) (nf : Felt) (k L : ℕ) (hk4 : k ≤ 4) (hkL : k ≤ L)
    (hL : L ≤ 64) (yv : ℕ → Felt) (Q : List ℕ) (hne : Q ≠ []) (hQ : Q.Pairwise (· < ·))
    (hQb : ∀ q ∈ Q, q < 2 ^ L) :
    Table.decommit H
        ⟨Felt.ofNat (2 ^ k), ⟨⟨Felt.ofNat (L - k), nf⟩,
          TableSpec.tableRoot H nf (L - k) (2 ^ k) (fun r c => yv (r * 2 ^ k + c))⟩⟩
        ((cosetIdx (2 ^ k) Q).map Felt.ofNat)
        (cosetValues (2 ^ k) yv (cosetIdx (2 ^ k) Q))
        (Merkle.authPath H nf (L - k)
          (TableSpec.tableLeaf H nf (L - k) (2 ^ k) (fun r c => yv (r * 2 ^ k + c)))
          (cosetIdx (2 ^ k) Q)) = .ok () := by
  have h := C05.table_complete H nf (L - k) (by omega) (2 ^ k)
    (lt_of_le_of_lt (Nat.pow_le_pow_right (by norm_num) hk4) (by norm_num))
    (fun r c => yv (r * 2 ^ k + c)) (cosetIdx (2 ^ k) Q) [] (cosetIdx_ne_nil _ Q hne)
    (cosetIdx_pairwise _ Q hQ) (cosetIdx_lt k L hkL Q hQb)
  rw [List.append_nil] at h
  exact h

end Swiftness.Proofs.FriComplete
