/-
  C02 helper lemmas, part 2: which mutations move the Fiat–Shamir challenges.

  * `seed_eq_of_fields`, `commit_same_challenges`, `same_transcript_prefix` (A): agreement on the
    hashed public-input fields, on the unsent commitment and on the number of FRI layers gives the
    same seed, the same commitment transcript, the same challenges, the same query-sampling state.
  * `run_challenges_differ`, `split_challenges_differ`, `commit_position_differs` (F): a different
    message at one absorbed position makes EVERY later challenge (and the query-sampling state)
    different, or exhibits a collision.
-/
import Swiftness.Props.C13
import Swiftness.Proofs.TranscriptCommit
import Swiftness.Proofs.PipelineUnfold

namespace Swiftness.Proofs.Tamper

open Swiftness Swiftness.Transcript Swiftness.Spec Swiftness.PublicInput
attribute [-instance] Fin.instOfNat

variable {H : Hashes} {L : LayoutOps}

/-! ## A. same challenges -/

/-- agreement on the hashed fields gives the same seed (under Stone 5 the friendly-layer count is
    not hashed; `prod` of a continuous-page header never is) -/
theorem seed_eq_of_fields (s : Bool) (nfA nfB : Felt) (a b : PublicInput)
    (h : SeedFieldsEq s nfA nfB a b) : getHash H s nfA a = getHash H s nfB b := by
  cases s with
  | false =>
    obtain ⟨e1, e2, e3, e4, e5, e6, e7, e8, e9, e10, _⟩ := h
    exact (C13.getHash_stone5 H nfA nfB a).trans
      (C13.getHash_ignores_prod H false nfB a b ⟨e1, e2, e3, e4, e5, e6, e7, e8, e9, e10, fun _ => rfl⟩)
  | true =>
    have hn : nfA = nfB := h.2.2.2.2.2.2.2.2.2.2 rfl
    subst hn
    exact C13.getHash_ignores_prod H true nfA a b h

theorem commitScriptBeforeNonce_congr (u : Stark.UnsentCommitment) {cfg cfg' : StarkConfig}
    (hn : cfg.fri.nLayers = cfg'.fri.nLayers) :
    commitScriptBeforeNonce L u cfg = commitScriptBeforeNonce L u cfg' := by
  simp only [commitScriptBeforeNonce, hn]

/-- Two accepting commitment phases from the same transcript state on the same unsent commitment
    and the same number of FRI layers — whatever the public inputs, the rest of the configurations
    and the domains are — return the same state and the same challenges. -/
theorem commit_same_challenges {t : Transcript} {pi pi' : PublicInput} {u : Stark.UnsentCommitment}
    {cfg cfg' : StarkConfig} {d d' : StarkDomains} {t1 t1' : Transcript} {c c' : Stark.Commitment}
    (hn : cfg.fri.nLayers = cfg'.fri.nLayers)
    (hc : Stark.commit L H t pi u cfg d = .ok (t1, c))
    (hc' : Stark.commit L H t pi' u cfg' d' = .ok (t1', c')) :
    t1 = t1' ∧ c.interactionElements = c'.interactionElements ∧
    c.interactionAfterComposition = c'.interactionAfterComposition ∧
    c.interactionAfterOods = c'.interactionAfterOods ∧
    c.fri.evalPoints = c'.fri.evalPoints ∧ c.oodsValues = c'.oodsValues ∧
    c.fri.lastLayerCoefficients = c'.fri.lastLayerCoefficients := by
  obtain ⟨s, h1, _, h3, h4, _, h6, _, _, h9, h10, h11, _⟩ := Tr.commit_run H L _ _ _ _ _ _ _ hc
  obtain ⟨s', g1, _, g3, g4, _, g6, _, _, g9, g10, g11, _⟩ := Tr.commit_run H L _ _ _ _ _ _ _ hc'
  rw [commitScriptBeforeNonce_congr u hn, g1] at h1
  obtain ⟨hs, hl⟩ := Prod.mk.inj h1
  rw [h4, h6, g4, g6] at hl
  have he := List.append_cancel_left hl
  refine ⟨by rw [h3, g3, hs], by rw [h4, g4], by rw [h6, g6], by rw [h11, g11], he.symm,
    by rw [h9, g9], by rw [h10, g10]⟩

/-! ## F. different message ⇒ all later challenges differ -/

/-- from two states with different digests, through two histories with the same sequence of
    operation kinds: all challenges differ pairwise and the final digests differ — or there is a
    collision -/
theorem run_challenges_differ (hP2 : ¬ Poseidon2Collision H) (hPM : ¬ PoseidonManyCollision H) :
    ∀ (t t' : Transcript) (h h' : List Op), SameKind h h' → t.digest ≠ t'.digest →
      List.Forall₂ (· ≠ ·) (run H t h).2 (run H t' h').2 ∧
        (run H t h).1.digest ≠ (run H t' h').1.digest
  | _, _, [], [], _, hd => ⟨List.Forall₂.nil, hd⟩
  | t, t', op :: ops, op' :: ops', hk, hd => by
    have hstep : (step H t op).1.digest ≠ (step H t' op').1.digest := by
      rcases Tr.step_digest_ne H t t' op op' hk.1 hd with h1 | h1
      · exact h1
      · exact absurd h1 hPM
    obtain ⟨ih1, ih2⟩ := run_challenges_differ hP2 hPM _ _ ops ops' hk.2 hstep
    rw [Tr.run_cons, Tr.run_cons]
    refine ⟨?_, ih2⟩
    rcases Tr.sameKind_message hk.1 with ⟨_, _, rfl, rfl⟩ | ⟨m, m', hm, hm'⟩
    · simp only [Tr.step_squeeze]
      refine List.Forall₂.cons ?_ ih1
      intro he
      exact hP2 ⟨_, _, _, _, fun hpair => hd (Prod.mk.inj hpair).1, he⟩
    · have e1 : (step H t op).2 = none := by
        cases op <;> first | rfl | simp [Op.message] at hm
      have e2 : (step H t' op').2 = none := by
        cases op' <;> first | rfl | simp [Op.message] at hm'
      simp only [e1, e2]
      exact ih1
  | _, _, [], _ :: _, hk, _ => hk.elim
  | _, _, _ :: _, [], hk, _ => hk.elim

/-- number of challenges = number of squeezes: the same for two histories of the same kinds -/
theorem run_challenges_length : ∀ (t t' : Transcript) (h h' : List Op), SameKind h h' →
    (run H t h).2.length = (run H t' h').2.length
  | _, _, [], [], _ => rfl
  | t, t', op :: ops, op' :: ops', hk => by
    have ih := run_challenges_length (step H t op).1 (step H t' op').1 ops ops' hk.2
    rw [Tr.run_cons, Tr.run_cons]
    rcases Tr.sameKind_message hk.1 with ⟨_, _, rfl, rfl⟩ | ⟨m, m', hm, hm'⟩
    · simp only [Tr.step_squeeze] at ih ⊢
      simp only [List.length_cons, ih]
    · have e1 : (step H t op).2 = none := by
        cases op <;> first | rfl | simp [Op.message] at hm
      have e2 : (step H t' op').2 = none := by
        cases op' <;> first | rfl | simp [Op.message] at hm'
      simp only [e1, e2]
      exact ih
  | _, _, [], _ :: _, hk => hk.elim
  | _, _, _ :: _, [], hk => hk.elim

/-- number of squeeze operations -/
def squeezes (h : List Op) : Nat := (h.filter (· = Op.squeeze)).length

theorem run_challenges_count : ∀ (t : Transcript) (h : List Op), (run H t h).2.length = squeezes h
  | _, [] => rfl
  | t, op :: ops => by
    have ih := run_challenges_count (step H t op).1 ops
    rw [Tr.run_cons]
    cases op <;> simp [squeezes, step] at ih ⊢ <;> exact ih

/-- Decomposed form: the two histories are `pre ++ op :: post` and `pre' ++ op' :: post'`, the
    operations `op`, `op'` absorb different messages (same kind), `post`, `post'` have the same
    kinds; NOTHING is assumed about the start states or the prefixes.  Then every challenge
    produced after that operation differs between the two runs, and so do the final digests. -/
theorem split_challenges_differ (hP2 : ¬ Poseidon2Collision H) (hPM : ¬ PoseidonManyCollision H)
    (t t' : Transcript) (pre pre' post post' : List Op) (op op' : Op)
    (hk : Op.sameKind op op') (hm : Op.message op ≠ Op.message op') (hpost : SameKind post post') :
    List.Forall₂ (· ≠ ·) ((run H t (pre ++ op :: post)).2.drop (squeezes pre))
        ((run H t' (pre' ++ op' :: post')).2.drop (squeezes pre')) ∧
      (run H t (pre ++ op :: post)).1.digest ≠ (run H t' (pre' ++ op' :: post')).1.digest := by
  have hstep : (step H (run H t pre).1 op).1.digest ≠ (step H (run H t' pre').1 op').1.digest := by
    rcases Tr.step_message_ne H (run H t pre).1 (run H t' pre').1 op op' hk hm with h1 | h1
    · exact h1
    · exact absurd h1 hPM
  obtain ⟨h1, h2⟩ := run_challenges_differ hP2 hPM _ _ post post' hpost hstep
  have hnone : ∀ (s : Transcript) (o o2 : Op), Op.sameKind o o2 → Op.message o ≠ Op.message o2 →
      (step H s o).2 = none := by
    intro s o o2 hk' hm'
    cases o <;> cases o2 <;> first | rfl | exact False.elim hk' | exact absurd rfl hm'
  have e1 := hnone (run H t pre).1 op op' hk hm
  have hk' : Op.sameKind op' op := by
    cases op <;> cases op' <;> first | exact False.elim hk | exact True.intro
  have e2 := hnone (run H t' pre').1 op' op hk' (fun h => hm h.symm)
  rw [Tr.run_append, Tr.run_append, Tr.run_cons, Tr.run_cons]
  simp only [e1, e2]
  rw [← run_challenges_count (H := H) t pre, ← run_challenges_count (H := H) t' pre',
    List.drop_left, List.drop_left]
  exact ⟨h1, h2⟩

/-! ### the script of `stark_commit`, position by position -/

theorem sameKind_refl : ∀ h : List Op, SameKind h h
  | [] => trivial
  | op :: ops => ⟨by cases op <;> trivial, sameKind_refl ops⟩

theorem sameKind_append : ∀ {a a' b b' : List Op}, SameKind a a' → SameKind b b' →
    SameKind (a ++ b) (a' ++ b')
  | [], [], _, _, _, hb => hb
  | _ :: _, _ :: _, _, _, ha, hb => ⟨ha.1, sameKind_append ha.2 hb⟩
  | [], _ :: _, _, _, ha, _ => ha.elim
  | _ :: _, [], _, _, ha, _ => ha.elim

theorem sameKind_friRounds : ∀ (r r' : List Felt), r.length = r'.length →
    SameKind (friRoundsScript r) (friRoundsScript r')
  | [], [], _ => trivial
  | _ :: r, _ :: r', hl => by
    simp only [friRoundsScript, List.flatMap_cons, List.cons_append, List.nil_append]
    exact ⟨trivial, trivial, sameKind_friRounds r r' (by simpa using hl)⟩
  | [], _ :: _, hl => by simp at hl
  | _ :: _, [], hl => by simp at hl

theorem friRounds_append (a b : List Felt) :
    friRoundsScript (a ++ b) = friRoundsScript a ++ friRoundsScript b := by
  simp [friRoundsScript]

theorem squeezes_append (a b : List Op) : squeezes (a ++ b) = squeezes a + squeezes b := by
  simp [squeezes]

theorem squeezes_replicate (n : Nat) : squeezes (List.replicate n Op.squeeze) = n := by
  induction n with
  | zero => rfl
  | succ n ih =>
    simp only [squeezes, List.replicate_succ, List.filter_cons] at ih ⊢
    simp

theorem squeezes_friRounds (r : List Felt) : squeezes (friRoundsScript r) = r.length := by
  induction r with
  | nil => rfl
  | cons x r ih =>
    simp only [friRoundsScript, List.flatMap_cons, squeezes, List.cons_append, List.nil_append,
      List.filter_cons] at ih ⊢
    simp [ih]

/-- the prover messages absorbed by `stark_commit`, in protocol order (`friInnerLayer j` is the
    root of FRI inner layer `j`, absorbed only if `j < n_layers - 1`) -/
inductive Position where
  | tracesOriginal | tracesInteraction | composition | oodsValues
  | friInnerLayer (j : Nat) | friLastLayer | powNonce

/-- the two unsent commitments differ at this position (`m = n_layers - 1` inner-layer roots are
    read; the nonce is a `u64`) -/
def Position.Differs (m : Nat) (u u' : Stark.UnsentCommitment) : Position → Prop
  | .tracesOriginal => u.tracesOriginal ≠ u'.tracesOriginal
  | .tracesInteraction => u.tracesInteraction ≠ u'.tracesInteraction
  | .composition => u.composition ≠ u'.composition
  | .oodsValues => u.oodsValues ≠ u'.oodsValues
  | .friInnerLayer j => j < m ∧ u.friInnerLayers[j]? ≠ u'.friInnerLayers[j]?
  | .friLastLayer => u.friLastLayerCoefficients ≠ u'.friLastLayerCoefficients
  | .powNonce => u.powNonce < 2 ^ 64 ∧ u'.powNonce < 2 ^ 64 ∧ u.powNonce ≠ u'.powNonce

/-- number of challenges drawn BEFORE the message at this position is absorbed (`nI` interaction
    elements, then the composition challenge, the OODS point, the DEEP challenge, one folding point
    per inner layer) -/
def Position.challengesBefore (nI m : Nat) : Position → Nat
  | .tracesOriginal => 0
  | .tracesInteraction => nI
  | .composition => nI + 1
  | .oodsValues => nI + 2
  | .friInnerLayer j => nI + 3 + j
  | .friLastLayer => nI + 3 + m
  | .powNonce => nI + 3 + m

theorem u64_message_ne {n n' : ℕ} (hn : n < 2 ^ 64) (hn' : n' < 2 ^ 64) (hne : n ≠ n') :
    Op.message (.absorbU64 n) ≠ Op.message (.absorbU64 n') := by
  have h64 : 2 ^ 64 < P := by decide +kernel
  simp only [Op.message, ne_eq, Option.some.injEq, List.cons.injEq, and_true]
  exact fun h => hne (Tr.ofNat_injOn (lt_trans hn h64) (lt_trans hn' h64) h)

/-- The decomposition of the two scripts at a differing position. -/
theorem script_split (nI m : Nat) (u u' : Stark.UnsentCommitment)
    (hl : m ≤ u.friInnerLayers.length) (hl' : m ≤ u'.friInnerLayers.length)
    (pos : Position) (hdiff : pos.Differs m u u') :
    ∃ pre pre' op op' post post',
      ([Op.absorbFelt u.tracesOriginal] ++ List.replicate nI Op.squeeze ++
        [Op.absorbFelt u.tracesInteraction, Op.squeeze, Op.absorbFelt u.composition, Op.squeeze,
         Op.absorbVec u.oodsValues, Op.squeeze] ++
        friRoundsScript (u.friInnerLayers.take m) ++
        [Op.absorbVec u.friLastLayerCoefficients, Op.absorbU64 u.powNonce]) = pre ++ op :: post ∧
      ([Op.absorbFelt u'.tracesOriginal] ++ List.replicate nI Op.squeeze ++
        [Op.absorbFelt u'.tracesInteraction, Op.squeeze, Op.absorbFelt u'.composition, Op.squeeze,
         Op.absorbVec u'.oodsValues, Op.squeeze] ++
        friRoundsScript (u'.friInnerLayers.take m) ++
        [Op.absorbVec u'.friLastLayerCoefficients, Op.absorbU64 u'.powNonce]) =
          pre' ++ op' :: post' ∧
      Op.sameKind op op' ∧ Op.message op ≠ Op.message op' ∧ SameKind post post' ∧
      squeezes pre = pos.challengesBefore nI m ∧ squeezes pre' = pos.challengesBefore nI m := by
  have hlen : (u.friInnerLayers.take m).length = (u'.friInnerLayers.take m).length := by
    simp only [List.length_take]; omega
  have hRd := sameKind_friRounds _ _ hlen
  have hR := sameKind_refl (List.replicate nI Op.squeeze)
  have hlm : (u.friInnerLayers.take m).length = m := by simp only [List.length_take]; omega
  have hlm' : (u'.friInnerLayers.take m).length = m := by simp only [List.length_take]; omega
  have hE : SameKind [Op.absorbVec u.friLastLayerCoefficients, Op.absorbU64 u.powNonce]
      [Op.absorbVec u'.friLastLayerCoefficients, Op.absorbU64 u'.powNonce] :=
    ⟨trivial, trivial, trivial⟩
  have sq1 : ∀ a : Felt, squeezes [Op.absorbFelt a] = 0 := fun _ => rfl
  have sq2 : ∀ a : Felt, squeezes [Op.absorbFelt a, Op.squeeze] = 1 := fun _ => rfl
  have sq4 : ∀ a b : Felt, squeezes [Op.absorbFelt a, Op.squeeze, Op.absorbFelt b, Op.squeeze] = 2 :=
    fun _ _ => rfl
  have sq6 : ∀ (a b : Felt) (v : List Felt), squeezes [Op.absorbFelt a, Op.squeeze, Op.absorbFelt b,
      Op.squeeze, Op.absorbVec v, Op.squeeze] = 3 := fun _ _ _ => rfl
  have sqV : ∀ v : List Felt, squeezes [Op.absorbVec v] = 0 := fun _ => rfl
  cases pos with
  | tracesOriginal =>
    refine ⟨[], [], .absorbFelt u.tracesOriginal, .absorbFelt u'.tracesOriginal,
      List.replicate nI Op.squeeze ++
        [Op.absorbFelt u.tracesInteraction, Op.squeeze, Op.absorbFelt u.composition, Op.squeeze,
         Op.absorbVec u.oodsValues, Op.squeeze] ++
        friRoundsScript (u.friInnerLayers.take m) ++
        [Op.absorbVec u.friLastLayerCoefficients, Op.absorbU64 u.powNonce],
      List.replicate nI Op.squeeze ++
        [Op.absorbFelt u'.tracesInteraction, Op.squeeze, Op.absorbFelt u'.composition, Op.squeeze,
         Op.absorbVec u'.oodsValues, Op.squeeze] ++
        friRoundsScript (u'.friInnerLayers.take m) ++
        [Op.absorbVec u'.friLastLayerCoefficients, Op.absorbU64 u'.powNonce],
      by simp only [List.append_assoc, List.cons_append, List.nil_append],
      by simp only [List.append_assoc, List.cons_append, List.nil_append], trivial, ?_, ?_,
      rfl, rfl⟩
    · simpa [Op.message, Position.Differs] using hdiff
    · have hB : SameKind [Op.absorbFelt u.tracesInteraction, Op.squeeze, Op.absorbFelt u.composition,
          Op.squeeze, Op.absorbVec u.oodsValues, Op.squeeze]
          [Op.absorbFelt u'.tracesInteraction, Op.squeeze, Op.absorbFelt u'.composition,
          Op.squeeze, Op.absorbVec u'.oodsValues, Op.squeeze] :=
        ⟨trivial, trivial, trivial, trivial, trivial, trivial, trivial⟩
      exact sameKind_append (sameKind_append (sameKind_append hR hB) hRd) hE
  | tracesInteraction =>
    refine ⟨[Op.absorbFelt u.tracesOriginal] ++ List.replicate nI Op.squeeze,
      [Op.absorbFelt u'.tracesOriginal] ++ List.replicate nI Op.squeeze,
      .absorbFelt u.tracesInteraction, .absorbFelt u'.tracesInteraction,
      [Op.squeeze, Op.absorbFelt u.composition, Op.squeeze, Op.absorbVec u.oodsValues, Op.squeeze] ++
        friRoundsScript (u.friInnerLayers.take m) ++
        [Op.absorbVec u.friLastLayerCoefficients, Op.absorbU64 u.powNonce],
      [Op.squeeze, Op.absorbFelt u'.composition, Op.squeeze, Op.absorbVec u'.oodsValues, Op.squeeze] ++
        friRoundsScript (u'.friInnerLayers.take m) ++
        [Op.absorbVec u'.friLastLayerCoefficients, Op.absorbU64 u'.powNonce],
      by simp only [List.append_assoc, List.cons_append, List.nil_append],
      by simp only [List.append_assoc, List.cons_append, List.nil_append], trivial, ?_, ?_,
      ?_, ?_⟩
    · simpa [Op.message, Position.Differs] using hdiff
    · have hB : SameKind [Op.squeeze, Op.absorbFelt u.composition,
          Op.squeeze, Op.absorbVec u.oodsValues, Op.squeeze]
          [Op.squeeze, Op.absorbFelt u'.composition,
          Op.squeeze, Op.absorbVec u'.oodsValues, Op.squeeze] :=
        ⟨trivial, trivial, trivial, trivial, trivial, trivial⟩
      exact sameKind_append (sameKind_append hB hRd) hE
    · rw [squeezes_append, squeezes_replicate, sq1]; simp [Position.challengesBefore]
    · rw [squeezes_append, squeezes_replicate, sq1]; simp [Position.challengesBefore]
  | composition =>
    refine ⟨[Op.absorbFelt u.tracesOriginal] ++ List.replicate nI Op.squeeze ++
        [Op.absorbFelt u.tracesInteraction, Op.squeeze],
      [Op.absorbFelt u'.tracesOriginal] ++ List.replicate nI Op.squeeze ++
        [Op.absorbFelt u'.tracesInteraction, Op.squeeze],
      .absorbFelt u.composition, .absorbFelt u'.composition,
      [Op.squeeze, Op.absorbVec u.oodsValues, Op.squeeze] ++
        friRoundsScript (u.friInnerLayers.take m) ++
        [Op.absorbVec u.friLastLayerCoefficients, Op.absorbU64 u.powNonce],
      [Op.squeeze, Op.absorbVec u'.oodsValues, Op.squeeze] ++
        friRoundsScript (u'.friInnerLayers.take m) ++
        [Op.absorbVec u'.friLastLayerCoefficients, Op.absorbU64 u'.powNonce],
      by simp only [List.append_assoc, List.cons_append, List.nil_append],
      by simp only [List.append_assoc, List.cons_append, List.nil_append], trivial, ?_, ?_,
      ?_, ?_⟩
    · simpa [Op.message, Position.Differs] using hdiff
    · have hB : SameKind [Op.squeeze, Op.absorbVec u.oodsValues, Op.squeeze]
          [Op.squeeze, Op.absorbVec u'.oodsValues, Op.squeeze] :=
        ⟨trivial, trivial, trivial, trivial⟩
      exact sameKind_append (sameKind_append hB hRd) hE
    · rw [squeezes_append, squeezes_append, squeezes_replicate, sq1, sq2]
      simp [Position.challengesBefore]
    · rw [squeezes_append, squeezes_append, squeezes_replicate, sq1, sq2]
      simp [Position.challengesBefore]
  | oodsValues =>
    refine ⟨[Op.absorbFelt u.tracesOriginal] ++ List.replicate nI Op.squeeze ++
        [Op.absorbFelt u.tracesInteraction, Op.squeeze, Op.absorbFelt u.composition, Op.squeeze],
      [Op.absorbFelt u'.tracesOriginal] ++ List.replicate nI Op.squeeze ++
        [Op.absorbFelt u'.tracesInteraction, Op.squeeze, Op.absorbFelt u'.composition, Op.squeeze],
      .absorbVec u.oodsValues, .absorbVec u'.oodsValues,
      [Op.squeeze] ++ friRoundsScript (u.friInnerLayers.take m) ++
        [Op.absorbVec u.friLastLayerCoefficients, Op.absorbU64 u.powNonce],
      [Op.squeeze] ++ friRoundsScript (u'.friInnerLayers.take m) ++
        [Op.absorbVec u'.friLastLayerCoefficients, Op.absorbU64 u'.powNonce],
      by simp only [List.append_assoc, List.cons_append, List.nil_append],
      by simp only [List.append_assoc, List.cons_append, List.nil_append], trivial, ?_, ?_,
      ?_, ?_⟩
    · simpa [Op.message, Position.Differs] using hdiff
    · have hB : SameKind [Op.squeeze] [Op.squeeze] := ⟨trivial, trivial⟩
      exact sameKind_append (sameKind_append hB hRd) hE
    · rw [squeezes_append, squeezes_append, squeezes_replicate, sq1, sq4]
      simp [Position.challengesBefore]
    · rw [squeezes_append, squeezes_append, squeezes_replicate, sq1, sq4]
      simp [Position.challengesBefore]
  | friInnerLayer j =>
    obtain ⟨hj, hne⟩ := hdiff
    have hj1 : j < u.friInnerLayers.length := by omega
    have hj2 : j < u'.friInnerLayers.length := by omega
    have hsp : ∀ (l : List Felt) (hjl : j < l.length), m ≤ l.length →
        l.take m = l.take j ++ l[j] :: (l.drop (j + 1)).take (m - (j + 1)) := by
      intro l hjl _
      have h1 : m = j + ((m - (j + 1)) + 1) := by omega
      conv_lhs => rw [h1, List.take_add, List.drop_eq_getElem_cons hjl, List.take_succ_cons]
    have hfr : ∀ (l : List Felt) (hjl : j < l.length), m ≤ l.length →
        friRoundsScript (l.take m) = friRoundsScript (l.take j) ++
          Op.absorbFelt l[j] :: ([Op.squeeze] ++
            friRoundsScript ((l.drop (j + 1)).take (m - (j + 1)))) := by
      intro l hjl hml
      rw [hsp l hjl hml, friRounds_append]
      simp [friRoundsScript]
    refine ⟨[Op.absorbFelt u.tracesOriginal] ++ List.replicate nI Op.squeeze ++
        [Op.absorbFelt u.tracesInteraction, Op.squeeze, Op.absorbFelt u.composition, Op.squeeze,
         Op.absorbVec u.oodsValues, Op.squeeze] ++ friRoundsScript (u.friInnerLayers.take j),
      [Op.absorbFelt u'.tracesOriginal] ++ List.replicate nI Op.squeeze ++
        [Op.absorbFelt u'.tracesInteraction, Op.squeeze, Op.absorbFelt u'.composition, Op.squeeze,
         Op.absorbVec u'.oodsValues, Op.squeeze] ++ friRoundsScript (u'.friInnerLayers.take j),
      .absorbFelt u.friInnerLayers[j], .absorbFelt u'.friInnerLayers[j],
      [Op.squeeze] ++ friRoundsScript ((u.friInnerLayers.drop (j + 1)).take (m - (j + 1))) ++
        [Op.absorbVec u.friLastLayerCoefficients, Op.absorbU64 u.powNonce],
      [Op.squeeze] ++ friRoundsScript ((u'.friInnerLayers.drop (j + 1)).take (m - (j + 1))) ++
        [Op.absorbVec u'.friLastLayerCoefficients, Op.absorbU64 u'.powNonce],
      by rw [hfr _ hj1 hl]; simp only [List.append_assoc, List.cons_append, List.nil_append],
      by rw [hfr _ hj2 hl']; simp only [List.append_assoc, List.cons_append, List.nil_append],
      trivial, ?_, ?_, ?_, ?_⟩
    · simp only [Op.message, ne_eq, Option.some.injEq, List.cons.injEq, and_true]
      intro he
      apply hne
      rw [List.getElem?_eq_getElem hj1, List.getElem?_eq_getElem hj2, he]
    · have hB : SameKind [Op.squeeze] [Op.squeeze] := ⟨trivial, trivial⟩
      refine sameKind_append (sameKind_append hB (sameKind_friRounds _ _ ?_)) hE
      simp only [List.length_take, List.length_drop]; omega
    · rw [squeezes_append, squeezes_append, squeezes_append, squeezes_replicate,
        squeezes_friRounds, List.length_take, sq1, sq6]
      simp only [Position.challengesBefore]
      omega
    · rw [squeezes_append, squeezes_append, squeezes_append, squeezes_replicate,
        squeezes_friRounds, List.length_take, sq1, sq6]
      simp only [Position.challengesBefore]
      omega
  | friLastLayer =>
    refine ⟨[Op.absorbFelt u.tracesOriginal] ++ List.replicate nI Op.squeeze ++
        [Op.absorbFelt u.tracesInteraction, Op.squeeze, Op.absorbFelt u.composition, Op.squeeze,
         Op.absorbVec u.oodsValues, Op.squeeze] ++ friRoundsScript (u.friInnerLayers.take m),
      [Op.absorbFelt u'.tracesOriginal] ++ List.replicate nI Op.squeeze ++
        [Op.absorbFelt u'.tracesInteraction, Op.squeeze, Op.absorbFelt u'.composition, Op.squeeze,
         Op.absorbVec u'.oodsValues, Op.squeeze] ++ friRoundsScript (u'.friInnerLayers.take m),
      .absorbVec u.friLastLayerCoefficients, .absorbVec u'.friLastLayerCoefficients,
      [Op.absorbU64 u.powNonce], [Op.absorbU64 u'.powNonce],
      rfl, rfl, trivial, ?_, ⟨trivial, trivial⟩, ?_, ?_⟩
    · simpa [Op.message, Position.Differs] using hdiff
    · rw [squeezes_append, squeezes_append, squeezes_append, squeezes_replicate,
        squeezes_friRounds, hlm, sq1, sq6]
      simp only [Position.challengesBefore]
      omega
    · rw [squeezes_append, squeezes_append, squeezes_append, squeezes_replicate,
        squeezes_friRounds, hlm', sq1, sq6]
      simp only [Position.challengesBefore]
      omega
  | powNonce =>
    obtain ⟨h1, h2, h3⟩ := hdiff
    refine ⟨[Op.absorbFelt u.tracesOriginal] ++ List.replicate nI Op.squeeze ++
        [Op.absorbFelt u.tracesInteraction, Op.squeeze, Op.absorbFelt u.composition, Op.squeeze,
         Op.absorbVec u.oodsValues, Op.squeeze] ++ friRoundsScript (u.friInnerLayers.take m) ++
        [Op.absorbVec u.friLastLayerCoefficients],
      [Op.absorbFelt u'.tracesOriginal] ++ List.replicate nI Op.squeeze ++
        [Op.absorbFelt u'.tracesInteraction, Op.squeeze, Op.absorbFelt u'.composition, Op.squeeze,
         Op.absorbVec u'.oodsValues, Op.squeeze] ++ friRoundsScript (u'.friInnerLayers.take m) ++
        [Op.absorbVec u'.friLastLayerCoefficients],
      .absorbU64 u.powNonce, .absorbU64 u'.powNonce, [], [],
      by simp only [List.append_assoc, List.cons_append, List.nil_append],
      by simp only [List.append_assoc, List.cons_append, List.nil_append],
      trivial, u64_message_ne h1 h2 h3, trivial, ?_, ?_⟩
    · rw [squeezes_append, squeezes_append, squeezes_append, squeezes_append, squeezes_replicate,
        squeezes_friRounds, hlm, sq1, sq6, sqV]
      simp only [Position.challengesBefore]
      omega
    · rw [squeezes_append, squeezes_append, squeezes_append, squeezes_append, squeezes_replicate,
        squeezes_friRounds, hlm', sq1, sq6, sqV]
      simp only [Position.challengesBefore]
      omega

/-- all challenges of the commitment phase, in the order drawn: the interaction elements, the
    composition challenge, the OODS point, the DEEP challenge, the FRI folding points -/
def challenges (H : Hashes) (L : LayoutOps) (t : Transcript) (u : Stark.UnsentCommitment)
    (c : Stark.Commitment) : List Felt :=
  c.interactionElements ++
    [compositionAlpha H t L.nInteractionElements u.tracesOriginal u.tracesInteraction,
     c.interactionAfterComposition,
     oodsAlpha H t L.nInteractionElements u.tracesOriginal u.tracesInteraction u.composition
       u.oodsValues] ++ c.fri.evalPoints

theorem commit_challenges {t t1 : Transcript} {pi : PublicInput} {u : Stark.UnsentCommitment}
    {cfg : StarkConfig} {d : StarkDomains} {c : Stark.Commitment}
    (hc : Stark.commit L H t pi u cfg d = .ok (t1, c)) :
    run H t (commitScript L u cfg) = (t1, challenges H L t u c) ∧
    (cfg.fri.nLayers - 1).val ≤ u.friInnerLayers.length ∧
    (challenges H L t u c).length = L.nInteractionElements + 3 + (cfg.fri.nLayers - 1).val := by
  obtain ⟨s, h1, _, h3, _, h5, _, h7, h8, _⟩ := Tr.commit_run H L _ _ _ _ _ _ _ hc
  refine ⟨?_, h8, ?_⟩
  · rw [Tr.commitScript_eq, Tr.run_append, h1, h3]
    simp [challenges]
  · simp only [challenges, List.length_append, h5, h7, List.length_cons, List.length_nil]

/-- **F.**  Two accepting commitment phases (same layout, same number of FRI layers; arbitrary start
    states, public inputs, configurations, domains) whose unsent commitments differ at the
    position `pos`: all challenges drawn after that message differ pairwise between the two runs
    and the returned transcript states (from which the queries are sampled) have different
    digests — or a collision of `poseidon_hash` / `poseidon_hash_many` exists. -/
theorem commit_position_differs {t t' t1 t1' : Transcript} {pi pi' : PublicInput}
    {u u' : Stark.UnsentCommitment} {cfg cfg' : StarkConfig} {d d' : StarkDomains}
    {c c' : Stark.Commitment}
    (hn : cfg.fri.nLayers = cfg'.fri.nLayers)
    (hc : Stark.commit L H t pi u cfg d = .ok (t1, c))
    (hc' : Stark.commit L H t' pi' u' cfg' d' = .ok (t1', c'))
    (pos : Position) (hdiff : pos.Differs (cfg.fri.nLayers - 1).val u u') :
    (List.Forall₂ (· ≠ ·)
        ((challenges H L t u c).drop
          (pos.challengesBefore L.nInteractionElements (cfg.fri.nLayers - 1).val))
        ((challenges H L t' u' c').drop
          (pos.challengesBefore L.nInteractionElements (cfg.fri.nLayers - 1).val)) ∧
      t1.digest ≠ t1'.digest) ∨ Poseidon2Collision H ∨ PoseidonManyCollision H := by
  by_cases hP2 : Poseidon2Collision H
  · exact Or.inr (Or.inl hP2)
  by_cases hPM : PoseidonManyCollision H
  · exact Or.inr (Or.inr hPM)
  left
  obtain ⟨hr, hl, _⟩ := commit_challenges hc
  obtain ⟨hr', hl', _⟩ := commit_challenges hc'
  rw [← hn] at hl'
  obtain ⟨pre, pre', op, op', post, post', e1, e2, hk, hm, hpost, s1, s2⟩ :=
    script_split L.nInteractionElements (cfg.fri.nLayers - 1).val u u' hl hl' pos hdiff
  have hs : commitScript L u cfg = pre ++ op :: post := e1
  have hs' : commitScript L u' cfg' = pre' ++ op' :: post' := by
    rw [← e2]; simp only [commitScript, hn]
  have := split_challenges_differ hP2 hPM t t' pre pre' post post' op op' hk hm hpost
  rw [← hs, ← hs', hr, hr', s1, s2] at this
  exact this

/-- the seed: two start states with different digests (different public-input hashes) make ALL
    challenges and the returned state differ -/
theorem commit_seed_differs {t t' t1 t1' : Transcript} {pi pi' : PublicInput}
    {u u' : Stark.UnsentCommitment} {cfg cfg' : StarkConfig} {d d' : StarkDomains}
    {c c' : Stark.Commitment}
    (hn : cfg.fri.nLayers = cfg'.fri.nLayers)
    (hc : Stark.commit L H t pi u cfg d = .ok (t1, c))
    (hc' : Stark.commit L H t' pi' u' cfg' d' = .ok (t1', c'))
    (hd : t.digest ≠ t'.digest) :
    (List.Forall₂ (· ≠ ·) (challenges H L t u c) (challenges H L t' u' c') ∧
      t1.digest ≠ t1'.digest) ∨ Poseidon2Collision H ∨ PoseidonManyCollision H := by
  by_cases hP2 : Poseidon2Collision H
  · exact Or.inr (Or.inl hP2)
  by_cases hPM : PoseidonManyCollision H
  · exact Or.inr (Or.inr hPM)
  left
  obtain ⟨hr, hl, _⟩ := commit_challenges hc
  obtain ⟨hr', hl', _⟩ := commit_challenges hc'
  rw [← hn] at hl'
  have hlen : (u.friInnerLayers.take (cfg.fri.nLayers - 1).val).length =
      (u'.friInnerLayers.take (cfg.fri.nLayers - 1).val).length := by
    simp only [List.length_take]; omega
  have hk : SameKind (commitScript L u cfg) (commitScript L u' cfg') := by
    simp only [commitScript, ← hn]
    have hA : SameKind [Op.absorbFelt u.tracesOriginal] [Op.absorbFelt u'.tracesOriginal] :=
      ⟨trivial, trivial⟩
    have hB : SameKind [Op.absorbFelt u.tracesInteraction, Op.squeeze, Op.absorbFelt u.composition,
        Op.squeeze, Op.absorbVec u.oodsValues, Op.squeeze]
        [Op.absorbFelt u'.tracesInteraction, Op.squeeze, Op.absorbFelt u'.composition,
        Op.squeeze, Op.absorbVec u'.oodsValues, Op.squeeze] :=
      ⟨trivial, trivial, trivial, trivial, trivial, trivial, trivial⟩
    have hE : SameKind [Op.absorbVec u.friLastLayerCoefficients, Op.absorbU64 u.powNonce]
        [Op.absorbVec u'.friLastLayerCoefficients, Op.absorbU64 u'.powNonce] :=
      ⟨trivial, trivial, trivial⟩
    exact sameKind_append (sameKind_append (sameKind_append (sameKind_append hA (sameKind_refl _))
      hB) (sameKind_friRounds _ _ hlen)) hE
  have := run_challenges_differ hP2 hPM t t' _ _ hk hd
  rw [hr, hr'] at this
  exact this

end Swiftness.Proofs.Tamper
