/-
  C02 helper lemmas, part 1: TWO accepting openings of the SAME root at the SAME indices agree,
  or an explicit collision exists.  Nothing is assumed about the root (it need not be the root of
  any committed tree): the two climbs are walked in lock-step from the root down, the second run
  playing the role the committed tree plays in `climb_sound`.

  * `layerStep_two`, `climb_two`  — the pure layer-by-layer evaluation;
  * `decommit_two_openings`       — `Vector.decommit`;
  * `table_two_openings`          — `Table.decommit` (values AND consumed authentication prefix).
-/
import Swiftness.Proofs.TableProofs

namespace Swiftness.Proofs.Tamper

open Swiftness Swiftness.Merkle Swiftness.Vector Swiftness.TableSpec Swiftness.Proofs.Merkle
open Swiftness.Proofs.Table

variable {H : Hashes} {nf : Felt}

/-! ### one layer -/

/-- Two successful layer steps over the same index list that produce the SAME parent nodes
    consumed the same children and the same sibling nodes — or there is a collision. -/
theorem layerStep_two {fr : Bool} {L : List Node} {a : List Felt} :
    ∀ {M : List Node} {b : List Felt} {L' : List Node} {a' b' : List Felt},
    L.map Prod.fst = M.map Prod.fst →
    layerStep H fr L a = some (L', a') → layerStep H fr M b = some (L', b') →
    (L = M ∧ ∃ pre, a = pre ++ a' ∧ b = pre ++ b') ∨ Collision H := by
  fun_induction layerStep H fr L a with
  | case1 a =>
    intro M b L' a' b' hidx h1 h2
    have hM : M = [] := by simpa using hidx.symm
    subst hM
    simp only [layerStep, Option.some.injEq, Prod.mk.injEq] at h1 h2
    obtain ⟨_, rfl⟩ := h1
    obtain ⟨_, rfl⟩ := h2
    exact Or.inl ⟨rfl, [], rfl, rfl⟩
  | case2 i x =>
    intro M b L' a' b' _ h1 _
    simp at h1
  | case3 i x s a'' =>
    intro M b L' a' b' hidx h1 h2
    match M, hidx with
    | [(i', y)], hidx =>
      simp only [List.map_cons, List.map_nil, List.cons.injEq, and_true] at hidx
      subst hidx
      cases b with
      | nil => simp [layerStep] at h2
      | cons s2 b'' =>
        simp only [layerStep, Option.some.injEq, Prod.mk.injEq] at h1 h2
        obtain ⟨rfl, rfl⟩ := h1
        obtain ⟨h2, rfl⟩ := h2
        simp only [List.cons.injEq, Prod.mk.injEq, true_and, and_true] at h2
        by_cases hi : i % 2 = 0
        · simp only [hi, if_true] at h2
          rcases pair_or_collision h2 with ⟨rfl, rfl⟩ | hc
          · exact Or.inl ⟨rfl, [s2], rfl, rfl⟩
          · exact Or.inr hc
        · simp only [hi, if_false] at h2
          rcases pair_or_collision h2 with ⟨rfl, rfl⟩ | hc
          · exact Or.inl ⟨rfl, [s2], rfl, rfl⟩
          · exact Or.inr hc
  | case4 i x j y t a hc ih =>
    intro M b L' a' b' hidx h1 h2
    match M, hidx with
    | (i', x2) :: (j', y2) :: t2, hidx =>
      simp only [List.map_cons, List.cons.injEq] at hidx
      obtain ⟨rfl, rfl, hidx⟩ := hidx
      simp only [layerStep, hc, and_self, if_true] at h1 h2
      cases hr : layerStep H fr t a with
      | none => simp [hr] at h1
      | some r =>
        obtain ⟨r1, r2⟩ := r
        cases hr2 : layerStep H fr t2 b with
        | none => simp [hr2] at h2
        | some r' =>
          obtain ⟨s1, s2⟩ := r'
          simp only [hr, hr2, Option.map_some, Option.some.injEq, Prod.mk.injEq] at h1 h2
          obtain ⟨rfl, rfl⟩ := h1
          obtain ⟨h2, rfl⟩ := h2
          simp only [List.cons.injEq, Prod.mk.injEq, true_and] at h2
          obtain ⟨hv, rfl⟩ := h2
          rcases ih hidx hr hr2 with ⟨rfl, pre, rfl, rfl⟩ | hcol
          · rcases pair_or_collision hv with ⟨rfl, rfl⟩ | hcol
            · exact Or.inl ⟨rfl, pre, rfl, rfl⟩
            · exact Or.inr hcol
          · exact Or.inr hcol
  | case5 i x j y t hc =>
    intro M b L' a' b' _ h1 _
    simp at h1
  | case6 i x j y t hc s a'' ih =>
    intro M b L' a' b' hidx h1 h2
    match M, hidx with
    | (i', x2) :: (j', y2) :: t2, hidx =>
      simp only [List.map_cons, List.cons.injEq] at hidx
      obtain ⟨rfl, rfl, hidx⟩ := hidx
      cases b with
      | nil => simp [layerStep, hc] at h2
      | cons s' b'' =>
        simp only [layerStep, hc, if_false] at h1 h2
        cases hr : layerStep H fr ((j, y) :: t) a'' with
        | none => simp [hr] at h1
        | some r =>
          obtain ⟨r1, r2⟩ := r
          cases hr2 : layerStep H fr ((j, y2) :: t2) b'' with
          | none => simp [hr2] at h2
          | some r' =>
            obtain ⟨s1, s2⟩ := r'
            simp only [hr, hr2, Option.map_some, Option.some.injEq, Prod.mk.injEq] at h1 h2
            obtain ⟨rfl, rfl⟩ := h1
            obtain ⟨h2, rfl⟩ := h2
            simp only [List.cons.injEq, Prod.mk.injEq, true_and] at h2
            obtain ⟨hv, rfl⟩ := h2
            have hidx' : ((j, y) :: t).map Prod.fst = ((j, y2) :: t2).map Prod.fst := by
              simp only [List.map_cons, hidx]
            rcases ih hidx' hr hr2 with ⟨he, pre, rfl, rfl⟩ | hcol
            · simp only [List.cons.injEq, Prod.mk.injEq, true_and] at he
              obtain ⟨rfl, rfl⟩ := he
              by_cases hi : i % 2 = 0
              · simp only [hi, if_true] at hv
                rcases pair_or_collision hv with ⟨rfl, rfl⟩ | hcol
                · exact Or.inl ⟨rfl, s' :: pre, rfl, rfl⟩
                · exact Or.inr hcol
              · simp only [hi, if_false] at hv
                rcases pair_or_collision hv with ⟨rfl, rfl⟩ | hcol
                · exact Or.inl ⟨rfl, s' :: pre, rfl, rfl⟩
                · exact Or.inr hcol
            · exact Or.inr hcol

/-! ### all layers -/

/-- Two successful climbs from the same index list to the SAME root value: the presented node
    values are equal and the authentication nodes agree on the consumed prefix (what is left
    over, `ra` resp. `rb`, is never read) — or there is a collision. -/
theorem climb_two : ∀ (d : Nat) (L M : List Node) (a b : List Felt) (v : Felt) (ra rb : List Felt),
    L.map Prod.fst = M.map Prod.fst →
    climb H nf d L a = some (v, ra) → climb H nf d M b = some (v, rb) →
    (L = M ∧ ∃ pre, a = pre ++ ra ∧ b = pre ++ rb) ∨ Collision H := by
  intro d
  induction d with
  | zero =>
    intro L M a b v ra rb hidx h1 h2
    match L, M, h1, h2 with
    | [n], [m], h1, h2 =>
      simp only [climb, Option.some.injEq, Prod.mk.injEq] at h1 h2
      obtain ⟨hn, rfl⟩ := h1
      obtain ⟨hm, rfl⟩ := h2
      simp only [List.map_cons, List.map_nil, List.cons.injEq, and_true] at hidx
      left
      refine ⟨?_, [], rfl, rfl⟩
      rw [Prod.ext hidx (hn.trans hm.symm)]
  | succ d ih =>
    intro L M a b v ra rb hidx h1 h2
    simp only [climb] at h1 h2
    cases hs1 : layerStep H (decide (nf.val ≥ d + 1)) L a with
    | none => simp only [hs1, reduceCtorEq] at h1
    | some r =>
      obtain ⟨L1, a1⟩ := r
      cases hs2 : layerStep H (decide (nf.val ≥ d + 1)) M b with
      | none => simp only [hs2, reduceCtorEq] at h2
      | some r' =>
        obtain ⟨M1, b1⟩ := r'
        simp only [hs1] at h1
        simp only [hs2] at h2
        have hidx1 : L1.map Prod.fst = M1.map Prod.fst := by
          rw [(layerStep_shape hs1).1, (layerStep_shape hs2).1, hidx]
        rcases ih L1 M1 a1 b1 v ra rb hidx1 h1 h2 with ⟨rfl, pre1, rfl, rfl⟩ | hcol
        · rcases layerStep_two hidx hs1 hs2 with ⟨rfl, pre0, rfl, rfl⟩ | hcol
          · exact Or.inl ⟨rfl, pre0 ++ pre1, by simp, by simp⟩
          · exact Or.inr hcol
        · exact Or.inr hcol

/-! ### `Vector.decommit` -/

variable {h : Nat}

/-- what `decommit … = .ok ()` says about the climb -/
theorem decommit_ok_climb (hh : h ≤ 250) (r : Felt) (queries : List Query) (auths : List Felt)
    (hne : queries ≠ []) (hs : (queries.map (·.index.val)).Pairwise (· < ·))
    (hr : ∀ q ∈ queries, q.index.val < 2 ^ h)
    (hok : Vector.decommit H ⟨⟨Felt.ofNat h, nf⟩, r⟩ queries auths = .ok ()) :
    ∃ rest, climb H nf h (nodesOf h queries) auths = some (r, rest) := by
  rw [decommit_eq hh _ _ _ hne hs hr] at hok
  cases hc : climb H nf h (nodesOf h queries) auths with
  | none => simp [hc] at hok
  | some p =>
    obtain ⟨v, rest⟩ := p
    simp only [hc] at hok
    by_cases hv : r = v
    · subst hv; exact ⟨rest, rfl⟩
    · simp [hv] at hok

/-- number of authentication nodes consumed from layer to layer: per layer, the siblings that
    are not themselves known (`Merkle.siblings`), then on to the parents -/
def authCountLayers : Nat → List Nat → Nat
  | 0, _ => 0
  | n + 1, I => (siblings I).length + authCountLayers n (parents I)

/-- number of authentication nodes the set `Q` of leaf numbers of a tree of height `h` needs (it
    does not depend on the tree: it is the length of `Merkle.authPath` for any leaves) -/
def authCount (h : Nat) (Q : List Nat) : Nat := authCountLayers h (Q.map (· + 2 ^ h))

theorem authLayers_length (H : Hashes) (nf : Felt) (h : Nat) (leaf : Nat → Felt) :
    ∀ (n k : Nat) (I : List Nat), (authLayers H nf h leaf n k I).length = authCountLayers n I := by
  intro n
  induction n with
  | zero => intro k I; rfl
  | succ n ih =>
    intro k I
    simp only [authLayers, authCountLayers, List.length_append, List.length_map, ih]

theorem authPath_length (H : Hashes) (nf : Felt) (h : Nat) (leaf : Nat → Felt) (Q : List Nat) :
    (authPath H nf h leaf Q).length = authCount h Q :=
  authLayers_length H nf h leaf h 0 _

theorem climb_consumed {d : Nat} {L : List Node} {a : List Felt} {v : Felt} {rest : List Felt}
    (hc : climb H nf d L a = some (v, rest)) :
    a.length = authCountLayers d (L.map Prod.fst) + rest.length := by
  have h1 := climb_length d L a v rest hc 0 (fun _ => v) 0
  rw [authLayers_length] at h1
  exact h1

/-- an accepted vector opening consumed `authCount` authentication nodes: there are at least
    that many (unconditionally) -/
theorem decommit_auths_length_ge (hh : h ≤ 250) (r : Felt) (qs : List Query) (a : List Felt)
    (hne : qs ≠ []) (hs : (qs.map (·.index.val)).Pairwise (· < ·))
    (hr : ∀ q ∈ qs, q.index.val < 2 ^ h)
    (h1 : Vector.decommit H ⟨⟨Felt.ofNat h, nf⟩, r⟩ qs a = .ok ()) :
    authCount h (qs.map (·.index.val)) ≤ a.length := by
  obtain ⟨ra, hc1⟩ := decommit_ok_climb hh r qs a hne hs hr h1
  have := climb_consumed hc1
  rw [nodesOf_fst] at this
  unfold authCount
  omega

/-- **Two accepted vector openings of the same root at the same indices** present the same values
    and agree on the consumed prefix of the authentication nodes (of length `authCount`), or a
    collision of the node hash is exhibited.  The root `r` is arbitrary. -/
theorem decommit_two_openings (hh : h ≤ 250) (r : Felt) (qs qs' : List Query) (a a' : List Felt)
    (hne : qs ≠ []) (hs : (qs.map (·.index.val)).Pairwise (· < ·))
    (hr : ∀ q ∈ qs, q.index.val < 2 ^ h)
    (hidx : qs.map (·.index) = qs'.map (·.index))
    (h1 : Vector.decommit H ⟨⟨Felt.ofNat h, nf⟩, r⟩ qs a = .ok ())
    (h2 : Vector.decommit H ⟨⟨Felt.ofNat h, nf⟩, r⟩ qs' a' = .ok ()) :
    (qs = qs' ∧ ∃ pre ra rb, a = pre ++ ra ∧ a' = pre ++ rb ∧
        pre.length = authCount h (qs.map (·.index.val))) ∨ Collision H := by
  have hidxv : qs.map (·.index.val) = qs'.map (·.index.val) := by
    have := congrArg (List.map Fin.val) hidx
    simpa [List.map_map, Function.comp_def] using this
  have hne' : qs' ≠ [] := by
    intro h0; rw [h0] at hidx; simp at hidx; exact hne hidx
  have hs' : (qs'.map (·.index.val)).Pairwise (· < ·) := hidxv ▸ hs
  have hr' : ∀ q ∈ qs', q.index.val < 2 ^ h := by
    intro q hq
    have : q.index.val ∈ qs'.map (·.index.val) := List.mem_map_of_mem (f := (·.index.val)) hq
    rw [← hidxv] at this
    obtain ⟨q0, hq0, he⟩ := List.mem_map.1 this
    rw [← he]; exact hr q0 hq0
  obtain ⟨ra, hc1⟩ := decommit_ok_climb hh r qs a hne hs hr h1
  obtain ⟨rb, hc2⟩ := decommit_ok_climb hh r qs' a' hne' hs' hr' h2
  have hfst : (nodesOf h qs).map Prod.fst = (nodesOf h qs').map Prod.fst := by
    rw [nodesOf_fst, nodesOf_fst, hidxv]
  rcases climb_two h _ _ _ _ r ra rb hfst hc1 hc2 with ⟨hn, pre, hp1, hp2⟩ | hcol
  · left
    have hq : qs = qs' := by
      have hval : qs.map (·.value) = qs'.map (·.value) := by
        have := congrArg (List.map Prod.snd) hn
        simpa [nodesOf, List.map_map, Function.comp_def] using this
      have : ∀ (l l' : List Query), l.map (·.index) = l'.map (·.index) →
          l.map (·.value) = l'.map (·.value) → l = l' := by
        intro l
        induction l with
        | nil => intro l' h1 _; cases l' with
          | nil => rfl
          | cons _ _ => simp at h1
        | cons x l ih => intro l' h1 h2; cases l' with
          | nil => simp at h1
          | cons y l' =>
            simp only [List.map_cons, List.cons.injEq] at h1 h2
            have : x = y := by cases x; cases y; simp_all
            rw [this, ih l' h1.2 h2.2]
      exact this _ _ hidx hval
    refine ⟨hq, pre, ra, rb, hp1, hp2, ?_⟩
    have hl := climb_consumed hc1
    rw [hp1, List.length_append, nodesOf_fst] at hl
    unfold authCount
    omega
  · exact Or.inr hcol

/-! ### `Table.decommit` -/

/-- equal vector queries built from two value lists of the declared size: equal values, or an
    explicit collision of the row hash in use -/
theorem rows_two {n : Nat} {fr : Bool} : ∀ (qs vals vals' : List Felt),
    vals.length = n * qs.length → vals'.length = n * qs.length →
    Table.vectorQueries H n fr qs (vals.map (· * Table.MONTGOMERY_R)) =
      Table.vectorQueries H n fr qs (vals'.map (· * Table.MONTGOMERY_R)) →
    vals = vals' ∨ RowCollision H n fr := by
  intro qs
  induction qs with
  | nil =>
    intro vals vals' hl hl' _
    left
    simp at hl hl'
    rw [hl, hl']
  | cons q qs ih =>
    intro vals vals' hl hl' he
    simp only [Table.vectorQueries, List.cons.injEq, Vector.Query.mk.injEq, true_and] at he
    obtain ⟨he1, he2⟩ := he
    have hl1 : n ≤ vals.length := by rw [hl, List.length_cons, Nat.mul_succ]; omega
    have hl1' : n ≤ vals'.length := by rw [hl', List.length_cons, Nat.mul_succ]; omega
    have hl2 : (vals.drop n).length = n * qs.length := by
      rw [List.length_drop, hl, List.length_cons, Nat.mul_succ]; omega
    have hl2' : (vals'.drop n).length = n * qs.length := by
      rw [List.length_drop, hl', List.length_cons, Nat.mul_succ]; omega
    rw [← List.map_drop, ← List.map_drop] at he2
    rw [← List.map_take, ← List.map_take] at he1
    have htl : ((vals.take n).map (· * Table.MONTGOMERY_R)).length = n := by simp; omega
    have htl' : ((vals'.take n).map (· * Table.MONTGOMERY_R)).length = n := by simp; omega
    rcases rowHash_inj htl htl' he1 with hrow | hc
    · rcases ih (vals.drop n) (vals'.drop n) hl2 hl2' he2 with hrest | hc
      · left
        have := map_mont_injective hrow
        rw [← List.take_append_drop n vals, ← List.take_append_drop n vals', this, hrest]
      · exact Or.inr hc
    · exact Or.inr hc

theorem ofNat_val_self (x : Felt) : Felt.ofNat x.val = x :=
  Fin.ext (Nat.mod_eq_of_lt x.isLt)

/-- **Two accepted table openings of the same commitment at the same rows** present the same
    cells and agree on the consumed prefix of the authentication nodes, or an explicit collision
    is exhibited.  The commitment `c` is ARBITRARY (its root need not be the root of a table);
    only `height ≤ 250` (so that heap indices do not wrap; configuration validation gives
    `height ≤ 64`) and strictly increasing in-range row indices are needed. -/
theorem table_two_openings (c : Table.Commitment) (hh : c.vector.config.height.val ≤ 250)
    (queries v v' a a' : List Felt) (hne : queries ≠ [])
    (hs : (queries.map (·.val)).Pairwise (· < ·))
    (hr : ∀ q ∈ queries, q.val < 2 ^ c.vector.config.height.val)
    (h1 : Table.decommit H c queries v a = .ok ())
    (h2 : Table.decommit H c queries v' a' = .ok ()) :
    (v = v' ∧ ∃ pre ra rb, a = pre ++ ra ∧ a' = pre ++ rb ∧
        pre.length = authCount c.vector.config.height.val (queries.map (·.val))) ∨
      Collision H ∨ ManyCollision H ∨ MaskedCollision H := by
  obtain ⟨nc, ⟨⟨hF, nf⟩, r⟩⟩ := c
  simp only at hh hr ⊢
  have hl1 := (table_length_of_ok _ _ _ _ h1).2
  have hl2 := (table_length_of_ok _ _ _ _ h2).2
  simp only at hl1 hl2
  unfold Table.decommit at h1 h2
  simp only at h1 h2
  split at h1
  · simp at h1
  split at h1
  · simp at h1
  split at h2
  · simp at h2
  split at h2
  · simp at h2
  generalize hfr : decide (nf.val ≥ (hF + 1).val) = fr at h1 h2
  rw [← ofNat_val_self hF] at h1 h2
  have hi1 := vectorQueries_index (H := H) nc.val fr queries (v.map (· * Table.MONTGOMERY_R))
  have hi2 := vectorQueries_index (H := H) nc.val fr queries (v'.map (· * Table.MONTGOMERY_R))
  have hi1v : (Table.vectorQueries H nc.val fr queries
      (v.map (· * Table.MONTGOMERY_R))).map (·.index.val) = queries.map (·.val) := by
    conv_rhs => rw [← hi1]
    rw [List.map_map]; rfl
  rcases decommit_two_openings hh r _ _ a a'
      (by intro h0; rw [h0] at hi1; exact hne hi1.symm)
      (by rw [hi1v]; exact hs)
      (by
        intro vq hvq
        have : vq.index ∈ queries := by rw [← hi1]; exact List.mem_map_of_mem (f := (·.index)) hvq
        exact hr _ this)
      (hi1.trans hi2.symm) h1 h2 with ⟨hq, pre, ra, rb, hp1, hp2, hlen⟩ | hcol
  · rcases rows_two queries v v' hl1 hl2 hq with hv | hc
    · left
      rw [hi1v] at hlen
      exact ⟨hv, pre, ra, rb, hp1, hp2, hlen⟩
    · exact Or.inr (Or.inr hc.weaken)
  · exact Or.inr (Or.inl hcol)

/-- an accepted table opening carries at least `authCount` authentication nodes -/
theorem table_auths_length_ge (c : Table.Commitment) (hh : c.vector.config.height.val ≤ 250)
    (queries v a : List Felt) (hne : queries ≠ [])
    (hs : (queries.map (·.val)).Pairwise (· < ·))
    (hr : ∀ q ∈ queries, q.val < 2 ^ c.vector.config.height.val)
    (h1 : Table.decommit H c queries v a = .ok ()) :
    authCount c.vector.config.height.val (queries.map (·.val)) ≤ a.length := by
  obtain ⟨nc, ⟨⟨hF, nf⟩, r⟩⟩ := c
  simp only at hh hr ⊢
  unfold Table.decommit at h1
  simp only at h1
  split at h1
  · simp at h1
  split at h1
  · simp at h1
  generalize hfr : decide (nf.val ≥ (hF + 1).val) = fr at h1
  rw [← ofNat_val_self hF] at h1
  have hi1 := vectorQueries_index (H := H) nc.val fr queries (v.map (· * Table.MONTGOMERY_R))
  have hi1v : (Table.vectorQueries H nc.val fr queries
      (v.map (· * Table.MONTGOMERY_R))).map (·.index.val) = queries.map (·.val) := by
    conv_rhs => rw [← hi1]
    rw [List.map_map]; rfl
  have := decommit_auths_length_ge hh r _ a
      (by intro h0; rw [h0] at hi1; exact hne hi1.symm)
      (by rw [hi1v]; exact hs)
      (by
        intro vq hvq
        have : vq.index ∈ queries := by rw [← hi1]; exact List.mem_map_of_mem (f := (·.index)) hvq
        exact hr _ this) h1
  rw [hi1v] at this
  exact this

end Swiftness.Proofs.Tamper
