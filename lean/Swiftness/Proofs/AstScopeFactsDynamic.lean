/-
  Per-layout kernel-checked facts for C16 (restated in `Props/C16.lean`); split over several modules so
  that they build in parallel.  The generated programs are referred to by name only.
-/
import Swiftness.Proofs.AstLinearCover
import Swiftness.Proofs.AstChain
import Swiftness.Proofs.AstChainFlags
import Swiftness.Proofs.AstScope
import Swiftness.Generated.Consts
import Swiftness.Generated.DynamicParams
import Swiftness.Generated.Layout.dynamic

set_option maxRecDepth 100000

namespace Swiftness.Proofs.AstLinear.Facts
open Swiftness Swiftness.Ast Swiftness.Gen Swiftness.Gen.Layout

theorem scope_dynamic_composition : checkScope dynamic.composition dynamic.compositionAcc = true := by
  ast_scope dynamic.composition

theorem scope_dynamic_oods : checkScope dynamic.oods dynamic.oodsAcc = true := by
  ast_scope dynamic.oods

theorem dynamic_composition_guards :
    (accGuards dynamic.composition).all (fun x => decide (x.2.length ≤ 1)) = true ∧
    (accGuardSlots dynamic.composition).length = 10 ∧
    (accGuardParams dynamic.composition).all (·.isSome) = true ∧
    (sortNat ((accGuardParams dynamic.composition).map (·.getD 0))).map
        (fun j => DynamicParams.fields.getD j "") =
      ["uses_add_mod_builtin", "uses_bitwise_builtin", "uses_ec_op_builtin", "uses_ecdsa_builtin",
       "uses_keccak_builtin", "uses_mul_mod_builtin", "uses_pedersen_builtin",
       "uses_poseidon_builtin", "uses_range_check96_builtin", "uses_range_check_builtin"] := by
  have hp : (accGuardParams dynamic.composition).all (·.isSome) = true ∧
      sortNat ((accGuardParams dynamic.composition).map (·.getD 0)) = List.range' 330 10 := by
    unfold accGuardParams accGuardSlots dynamic.composition
    simp only [Proofs.AstLinear.accGuards_append, List.flatMap_append,
      Proofs.AstLinear.writers_append]
    decide +kernel
  refine ⟨?_, ?_, hp.1, ?_⟩
  · unfold dynamic.composition
    simp only [Proofs.AstLinear.accGuards_append, List.all_append]
    decide +kernel
  · unfold accGuardSlots dynamic.composition
    simp only [Proofs.AstLinear.accGuards_append, List.flatMap_append]
    decide +kernel
  · rw [hp.2]; rfl

end Swiftness.Proofs.AstLinear.Facts
