/-
  C02 helper lemmas, part 3 (E): the configuration numbers that `Spec.ConfigOK` (C11) expresses
  through the others are DETERMINED by them — two accepted configurations that agree on the
  remaining numbers agree on these.  Pure arithmetic on `ConfigOK`; no hashes.
-/
import Swiftness.Proofs.PipelineMain

namespace Swiftness.Proofs.Tamper

open Swiftness Swiftness.Spec
attribute [-instance] Fin.instOfNat

theorem tableConfig_ext (a b : Fri.TableConfig) (h1 : a.nColumns = b.nColumns)
    (h2 : a.vector.height = b.vector.height) (h3 : a.vector.nFriendly = b.vector.nFriendly) :
    a = b := by
  obtain ⟨n, ⟨h, f⟩⟩ := a
  obtain ⟨n', ⟨h', f'⟩⟩ := b
  simp_all

theorem vectorConfig_ext (a b : Vector.Config) (h2 : a.height = b.height)
    (h3 : a.nFriendly = b.nFriendly) : a = b := by
  obtain ⟨h, f⟩ := a
  obtain ⟨h', f'⟩ := b
  simp_all

/-- `stepSum steps k` reads only `steps[1], …, steps[k]` -/
theorem stepSum_congr (s s' : List Felt) (k : ℕ) (h : ∀ i, i ≤ k → s[i]? = s'[i]?) :
    stepSum s k = stepSum s' k := by
  unfold stepSum
  congr 2
  apply List.ext_getElem?
  intro i
  rw [List.getElem?_take, List.getElem?_take]
  split
  · rw [List.getElem?_drop, List.getElem?_drop]; exact h _ (by omega)
  · rfl

theorem stepSum_succ (s : List Felt) (k : ℕ) (x : Felt) (hx : s[k + 1]? = some x) :
    stepSum s (k + 1) = stepSum s k + x.val := by
  unfold stepSum
  have h1 : (s.drop 1)[k]? = some x := by rw [List.getElem?_drop, Nat.add_comm]; exact hx
  obtain ⟨hk, hxe⟩ := List.getElem?_eq_some_iff.mp h1
  rw [List.take_succ_eq_append_getElem hk, List.map_append, List.sum_append, hxe]
  simp

theorem stepSum_mono (s : List Felt) {k k' : ℕ} (h : k ≤ k') : stepSum s k ≤ stepSum s k' := by
  unfold stepSum
  obtain ⟨j, rfl⟩ := Nat.exists_eq_add_of_le h
  rw [List.take_add, List.map_append, List.sum_append]
  omega

/-- the configuration numbers NOT expressed through others by `ConfigOK`: the two domain
    exponents, the global friendly-layer count, the number of FRI layers and the FRI step sizes
    that are read (`steps[0], …, steps[n_layers - 1]`).  (The proof-of-work difficulty and the query
    count are free too, but nothing is derived from them.) -/
structure FreeEq (c c' : StarkConfig) : Prop where
  logTrace : c.logTraceDomainSize = c'.logTraceDomainSize
  logNCosets : c.logNCosets = c'.logNCosets
  nFriendly : c.nFriendly = c'.nFriendly
  nLayers : c.fri.nLayers = c'.fri.nLayers
  steps : ∀ i, i < c.fri.nLayers.val → c.fri.friStepSizes[i]? = c'.fri.friStepSizes[i]?

/-- the numbers `ConfigOK` derives from them (plus the layout's column counts): both trace table
    configurations (column count, height, friendly count), the composition vector configuration,
    the FRI input-size exponent, the last-layer degree-bound exponent and every inner-layer table
    configuration that is read (column count `2^step`, telescoping height, friendly count) -/
structure PinnedEq (c c' : StarkConfig) : Prop where
  original : c.traces.original = c'.traces.original
  interaction : c.traces.interaction = c'.traces.interaction
  compositionVector : c.composition.vector = c'.composition.vector
  logInputSize : c.fri.logInputSize = c'.fri.logInputSize
  lastBound : c.fri.logLastLayerDegreeBound = c'.fri.logLastLayerDegreeBound
  inner : c.fri.innerLayers.take (c.fri.nLayers.val - 1) =
    c'.fri.innerLayers.take (c.fri.nLayers.val - 1)

theorem vectorOK_eq {v v' : Vector.Config} {c c' : StarkConfig} (h : VectorOK v c)
    (h' : VectorOK v' c') (ht : c.logTraceDomainSize = c'.logTraceDomainSize)
    (hk : c.logNCosets = c'.logNCosets) (hnf : c.nFriendly = c'.nFriendly) : v = v' := by
  apply vectorConfig_ext
  · apply Fin.ext; rw [h.1, h'.1, ht, hk]
  · rw [h.2, h'.2, hnf]

/-- **E, arithmetic core.**  Two configurations accepted for the same layout column counts that agree
    on the free numbers agree on all derived ones. -/
theorem config_pinned {c c' : StarkConfig} {sec sec' nc1 nc2 : Felt}
    (h : ConfigOK c sec nc1 nc2) (h' : ConfigOK c' sec' nc1 nc2) (hf : FreeEq c c') :
    PinnedEq c c' := by
  obtain ⟨_, _, _, _, a5, a6, a7, a8, a9, a10, a11, a12, _, a14, _, a16, a17⟩ := h
  obtain ⟨_, _, _, _, b5, b6, b7, b8, b9, _, b11, b12, _, b14, _, b16, b17⟩ := h'
  obtain ⟨ht, hk, hnf, hn, hs⟩ := hf
  have hlis : c.fri.logInputSize = c'.fri.logInputSize := by
    apply Fin.ext; rw [a17, b17, ht, hk]
  have hsum : ∀ k, k < c.fri.nLayers.val →
      stepSum c.fri.friStepSizes k = stepSum c'.fri.friStepSizes k :=
    fun k hk' => stepSum_congr _ _ k (fun i hi => hs i (by omega))
  refine ⟨?_, ?_, vectorOK_eq a9 b9 ht hk hnf, hlis, ?_, ?_⟩
  · exact tableConfig_ext _ _ (by rw [a5, b5]) (congrArg (·.height) (vectorOK_eq a7 b7 ht hk hnf))
      (congrArg (·.nFriendly) (vectorOK_eq a7 b7 ht hk hnf))
  · exact tableConfig_ext _ _ (by rw [a6, b6]) (congrArg (·.height) (vectorOK_eq a8 b8 ht hk hnf))
      (congrArg (·.nFriendly) (vectorOK_eq a8 b8 ht hk hnf))
  · apply Fin.ext
    have e1 := hsum (c.fri.nLayers.val - 1) (by omega)
    have e2 : c.fri.logInputSize.val = c'.fri.logInputSize.val := by rw [hlis]
    have e3 : c.logNCosets.val = c'.logNCosets.val := by rw [hk]
    rw [← hn] at b16
    omega
  · apply List.ext_getElem?
    intro i
    rw [List.getElem?_take, List.getElem?_take]
    split
    · next hi =>
      obtain ⟨st, tc, x1, x2, _, x4, x5, x6, x7⟩ := a14 (i + 1) (by omega) (by omega)
      obtain ⟨st', tc', y1, y2, _, y4, y5, y6, y7⟩ := b14 (i + 1) (by omega) (by rw [← hn]; omega)
      simp only [Nat.add_sub_cancel] at x2 y2
      rw [x2, y2]
      have hst : st = st' := by
        have := hs (i + 1) (by omega)
        rw [x1, y1] at this
        exact Option.some.inj this
      subst hst
      congr 1
      apply tableConfig_ext
      · apply Fin.ext; rw [x5, y5]
      · apply Fin.ext
        have e1 := hsum (i + 1) (by omega)
        have e2 : c.fri.logInputSize.val = c'.fri.logInputSize.val := by rw [hlis]
        omega
      · rw [x7, y7, hnf]
    · rfl

/-! ### the free numbers that the others nevertheless determine one at a time -/

/-- the global friendly-layer count is the one of (any of) the vector configurations -/
theorem nFriendly_pinned {c c' : StarkConfig} {sec sec' nc1 nc2 nc1' nc2' : Felt}
    (h : ConfigOK c sec nc1 nc2) (h' : ConfigOK c' sec' nc1' nc2')
    (hv : c.traces.original.vector.nFriendly = c'.traces.original.vector.nFriendly) :
    c.nFriendly = c'.nFriendly := by
  obtain ⟨_, _, _, _, _, _, a7, _⟩ := h
  obtain ⟨_, _, _, _, _, _, b7, _⟩ := h'
  rw [← a7.2, ← b7.2, hv]

/-- trace-length exponent + blow-up exponent = the height of (any of) the three commitments: each
    of the two is determined by the other and that height -/
theorem domain_exponents_pinned {c c' : StarkConfig} {sec sec' nc1 nc2 nc1' nc2' : Felt}
    (h : ConfigOK c sec nc1 nc2) (h' : ConfigOK c' sec' nc1' nc2')
    (hv : c.traces.original.vector.height = c'.traces.original.vector.height) :
    (c.logNCosets = c'.logNCosets → c.logTraceDomainSize = c'.logTraceDomainSize) ∧
    (c.logTraceDomainSize = c'.logTraceDomainSize → c.logNCosets = c'.logNCosets) := by
  obtain ⟨_, _, _, _, _, _, a7, _⟩ := h
  obtain ⟨_, _, _, _, _, _, b7, _⟩ := h'
  have e : c.logTraceDomainSize.val + c.logNCosets.val =
      c'.logTraceDomainSize.val + c'.logNCosets.val := by rw [← a7.1, ← b7.1, hv]
  constructor
  · intro hk; apply Fin.ext; have : c.logNCosets.val = c'.logNCosets.val := by rw [hk]
    omega
  · intro ht; apply Fin.ext
    have : c.logTraceDomainSize.val = c'.logTraceDomainSize.val := by rw [ht]
    omega

/-- the number of FRI layers is determined by the step sizes, the last-layer bound, the blow-up
    exponent and the FRI input size (every step that is read is at least 1) -/
theorem nLayers_pinned {c c' : StarkConfig} {sec sec' nc1 nc2 nc1' nc2' : Felt}
    (h : ConfigOK c sec nc1 nc2) (h' : ConfigOK c' sec' nc1' nc2')
    (hs : c.fri.friStepSizes = c'.fri.friStepSizes)
    (hl : c.fri.logLastLayerDegreeBound = c'.fri.logLastLayerDegreeBound)
    (hk : c.logNCosets = c'.logNCosets) (hlis : c.fri.logInputSize = c'.fri.logInputSize) :
    c.fri.nLayers = c'.fri.nLayers := by
  obtain ⟨_, _, _, _, _, _, _, _, _, a10, _, _, _, a14, _, a16, _⟩ := h
  obtain ⟨_, _, _, _, _, _, _, _, _, b10, _, _, _, b14, _, b16, _⟩ := h'
  have e1 : c.fri.logInputSize.val = c'.fri.logInputSize.val := by rw [hlis]
  have e2 : c.logNCosets.val = c'.logNCosets.val := by rw [hk]
  have e3 : c.fri.logLastLayerDegreeBound.val = c'.fri.logLastLayerDegreeBound.val := by rw [hl]
  rw [← hs] at b16
  have hsum : stepSum c.fri.friStepSizes (c.fri.nLayers.val - 1) =
      stepSum c.fri.friStepSizes (c'.fri.nLayers.val - 1) := by omega
  apply Fin.ext
  by_contra hne
  rcases Nat.lt_or_gt_of_ne hne with hlt | hlt
  · obtain ⟨st, tc, y1, _, y3, _⟩ := b14 c.fri.nLayers.val (by omega) hlt
    rw [← hs] at y1
    have h1 := stepSum_succ c.fri.friStepSizes (c.fri.nLayers.val - 1) st
      (by rw [show c.fri.nLayers.val - 1 + 1 = c.fri.nLayers.val by omega]; exact y1)
    have h2 := stepSum_mono c.fri.friStepSizes
      (show c.fri.nLayers.val - 1 + 1 ≤ c'.fri.nLayers.val - 1 by omega)
    omega
  · obtain ⟨st, tc, y1, _, y3, _⟩ := a14 c'.fri.nLayers.val (by omega) hlt
    have h1 := stepSum_succ c.fri.friStepSizes (c'.fri.nLayers.val - 1) st
      (by rw [show c'.fri.nLayers.val - 1 + 1 = c'.fri.nLayers.val by omega]; exact y1)
    have h2 := stepSum_mono c.fri.friStepSizes
      (show c'.fri.nLayers.val - 1 + 1 ≤ c.fri.nLayers.val - 1 by omega)
    omega

/-! ### at the level of `StarkProof::verify` -/

variable {L : LayoutOps} {H : Hashes} {stone6 stone6' : Bool} {p p' : Stark.Proof}
  {sec sec' : Felt} {r r' : Felt × Felt}

/-- the `ConfigOK` of an accepted proof, for the layout's column counts -/
theorem accept_configOK (hok : Stark.verify L H stone6 p sec = .ok r) :
    ∃ n1 n2, L.numColumnsFirst p.publicInput = some n1 ∧ L.numColumnsSecond p.publicInput = some n2 ∧
      ConfigOK p.config sec (Felt.ofNat n1) (Felt.ofNat n2) ∧
      p.config.composition.nColumns.val = L.constraintDegree := by
  obtain ⟨n1, n2, d, t', c, qs, tq, A⟩ := Pipeline.verify_ok_elim hok
  exact ⟨n1, n2, A.cols1, A.cols2, Pipeline.config_ok A.config, A.shape_facts.2.1.2.2⟩

/-- **E.**  Two accepted proofs with the same public input (so the same layout column counts) whose
    configurations agree on the free numbers agree on every derived number, including the
    composition table's column count (which `StarkConfig::validate` does not look at). -/
theorem accept_config_pinned (hok : Stark.verify L H stone6 p sec = .ok r)
    (hok' : Stark.verify L H stone6' p' sec' = .ok r')
    (hpi : p.publicInput = p'.publicInput) (hf : FreeEq p.config p'.config) :
    PinnedEq p.config p'.config ∧ p.config.composition = p'.config.composition := by
  obtain ⟨n1, n2, h1, h2, hc, hcomp⟩ := accept_configOK hok
  obtain ⟨m1, m2, g1, g2, hc', hcomp'⟩ := accept_configOK hok'
  rw [← hpi, h1] at g1
  rw [← hpi, h2] at g2
  cases g1; cases g2
  have hp := config_pinned hc hc' hf
  refine ⟨hp, tableConfig_ext _ _ (Fin.ext (by rw [hcomp, hcomp'])) ?_ ?_⟩
  · exact congrArg (·.height) hp.compositionVector
  · exact congrArg (·.nFriendly) hp.compositionVector

end Swiftness.Proofs.Tamper
