/-
  C06b, Merkle side: the executable builder `Prover.buildAuth` / `Prover.buildTableAuth` computes the
  SPEC root and authentication path (`Merkle.root`, `Merkle.authPath`, `TableSpec.tableRoot`).
-/
import Swiftness.Prover.MerkleProver
import Swiftness.Proofs.MerkleIdx

namespace Swiftness.Proofs.FriComplete
open Swiftness Prover Merkle Swiftness.Proofs.Merkle

/-! ### `hashLayer` -/

theorem hashLayer_toList (H : Hashes) (f : Bool) (layer : Array Felt) :
    (hashLayer H f layer).toList = (List.range (layer.size / 2)).map fun i =>
      Vector.hashFU H (layer.getD (2 * i) 0) (layer.getD (2 * i + 1) 0) f := by
  unfold hashLayer
  simp only [Std.Legacy.Range.forIn_eq_forIn_range', Std.Legacy.Range.size]
  simp only [Nat.sub_zero, Nat.add_sub_cancel, Nat.div_one]
  rw [List.forIn_pure_yield_eq_foldl]
  simp [List.range_eq_range']

theorem hashLayer_size (H : Hashes) (f : Bool) (layer : Array Felt) :
    (hashLayer H f layer).size = layer.size / 2 := by
  rw [← Array.length_toList, hashLayer_toList]; simp

theorem hashLayer_getD (H : Hashes) (f : Bool) (layer : Array Felt) (j : Nat)
    (hj : j < layer.size / 2) :
    (hashLayer H f layer).getD j 0
      = Vector.hashFU H (layer.getD (2 * j) 0) (layer.getD (2 * j + 1) 0) f := by
  have hs : j < (hashLayer H f layer).size := by rw [hashLayer_size]; exact hj
  rw [Array.getD_eq_getD_getElem?, Array.getElem?_eq_getElem hs, Option.getD_some,
    ← Array.getElem_toList]
  simp [hashLayer_toList]

/-! ### `buildAuth` as a fold -/

/-- one iteration of `buildAuth`'s outer loop; state `(layer, idx, auth)` -/
def stepB (H : Hashes) (nf : Felt) (h : Nat) (k : Nat) (s : Array Felt × List Nat × Array Felt) :
    Array Felt × List Nat × Array Felt :=
  (hashLayer H (decide (nf.val ≥ h - k)) s.1, parents s.2.1,
    (siblings s.2.1).foldl (fun a x => a.push (s.1.getD (x - 2 ^ (h - k)) 0)) s.2.2)

theorem buildAuth_eq_foldl (H : Hashes) (nf : Felt) (h : Nat) (leaves : Array Felt) (Q : List Nat) :
    buildAuth H nf h leaves Q =
      ((((List.range' 0 h 1).foldl (fun s k => stepB H nf h k s)
        (Array.ofFn (n := 2 ^ h) fun i => leaves.getD i.val 0, Q.map (· + 2 ^ h), #[])).1).getD 0 0,
       (((List.range' 0 h 1).foldl (fun s k => stepB H nf h k s)
        (Array.ofFn (n := 2 ^ h) fun i => leaves.getD i.val 0, Q.map (· + 2 ^ h), #[])).2.2).toList) := by
  unfold buildAuth
  simp only [Std.Legacy.Range.forIn_eq_forIn_range', Std.Legacy.Range.size]
  simp only [Nat.sub_zero, Nat.add_sub_cancel, Nat.div_one]
  simp only [List.forIn_pure_yield_eq_foldl, bind_pure_comp, map_pure]
  rfl

theorem foldl_push_toList {α β : Type} (g : β → α) (l : List β) (acc : Array α) :
    (l.foldl (fun (b : Array α) a => b.push (g a)) acc).toList = acc.toList ++ l.map g := by
  induction l generalizing acc with
  | nil => simp
  | cons a l ih => simp

/-! ### index facts -/

theorem mem_siblings {L : List Nat} {s : Nat} (hs : s ∈ siblings L) : ∃ m ∈ L, s = sibling m := by
  fun_induction siblings L with
  | case1 => simp at hs
  | case2 i => simp at hs; exact ⟨i, by simp, hs⟩
  | case3 i j t hc ih =>
    obtain ⟨m, hm, rfl⟩ := ih hs
    exact ⟨m, by simp [hm], rfl⟩
  | case4 i j t hc ih =>
    rcases List.mem_cons.1 hs with rfl | hs
    · exact ⟨i, by simp, rfl⟩
    · obtain ⟨m, hm, rfl⟩ := ih hs
      exact ⟨m, List.mem_cons_of_mem _ hm, rfl⟩

theorem sibling_range {d m : Nat} (hm : 2 ^ (d + 1) ≤ m ∧ m < 2 ^ (d + 1 + 1)) :
    2 ^ (d + 1) ≤ sibling m ∧ sibling m < 2 ^ (d + 1 + 1) := by
  unfold sibling
  have h1 : 2 ^ (d + 1) = 2 * 2 ^ d := by rw [Nat.pow_succ]; omega
  have h2 : 2 ^ (d + 1 + 1) = 2 * (2 * 2 ^ d) := by rw [Nat.pow_succ, h1]; omega
  split <;> omega

/-! ### the loop invariant -/

/-- invariant after `k` iterations (leaf function `leaf`, queries `Q`) -/
structure Inv (H : Hashes) (nf : Felt) (h : Nat) (leaf : Nat → Felt) (Q : List Nat) (k : Nat)
    (s : Array Felt × List Nat × Array Felt) : Prop where
  size : s.1.size = 2 ^ (h - k)
  vals : ∀ j < 2 ^ (h - k), s.1.getD j 0 = nodeAt H nf h leaf k (j + 2 ^ (h - k))
  layer : Layer (h - k) s.2.1
  auth : s.2.2.toList ++ authLayers H nf h leaf (h - k) k s.2.1 = authPath H nf h leaf Q

theorem Inv.step {H : Hashes} {nf : Felt} {h : Nat} {leaf : Nat → Felt} {Q : List Nat} {k : Nat}
    {s : Array Felt × List Nat × Array Felt} (hk : k < h) (inv : Inv H nf h leaf Q k s) :
    Inv H nf h leaf Q (k + 1) (stepB H nf h k s) := by
  obtain ⟨d, hd⟩ : ∃ d, h - k = d + 1 := ⟨h - k - 1, by omega⟩
  have hd' : h - (k + 1) = d := by omega
  have hpow : 2 ^ (d + 1) = 2 * 2 ^ d := by rw [Nat.pow_succ]; omega
  have hsz := inv.size
  have hv := inv.vals
  have hl := inv.layer
  have ha := inv.auth
  rw [hd] at hsz hv hl ha
  refine ⟨?_, ?_, ?_, ?_⟩
  · simp only [stepB, hashLayer_size, hsz, hd', hpow]
    omega
  · intro j hj
    rw [hd'] at hj ⊢
    simp only [stepB]
    rw [hashLayer_getD _ _ _ _ (by rw [hsz, hpow]; omega), hv (2 * j) (by omega),
      hv (2 * j + 1) (by omega)]
    simp only [nodeAt]
    rw [show 2 * (j + 2 ^ d) = 2 * j + 2 ^ (d + 1) by omega,
      show 2 * j + 2 ^ (d + 1) + 1 = 2 * j + 1 + 2 ^ (d + 1) by omega]
  · rw [hd']
    exact hl.parents
  · rw [hd']
    simp only [stepB, foldl_push_toList]
    rw [← ha, hd]
    simp only [authLayers, List.append_assoc]
    congr 2
    apply List.map_congr_left
    intro x hx
    obtain ⟨m, hm, rfl⟩ := mem_siblings hx
    have hr := sibling_range (hl.2 m hm)
    have := hv (sibling m - 2 ^ (d + 1)) (by omega)
    rw [this]
    congr 1
    omega

theorem Inv.foldl {H : Hashes} {nf : Felt} {h : Nat} {leaf : Nat → Felt} {Q : List Nat} (n : Nat) :
    ∀ (k : Nat) (s : Array Felt × List Nat × Array Felt), k + n ≤ h → Inv H nf h leaf Q k s →
      Inv H nf h leaf Q (k + n) ((List.range' k n 1).foldl (fun s k => stepB H nf h k s) s) := by
  induction n with
  | zero => intro k s _ inv; simpa using inv
  | succ n ih =>
    intro k s hk inv
    simp only [List.range'_succ, List.foldl_cons]
    have := ih (k + 1) _ (by omega) (inv.step (by omega))
    rw [show k + (n + 1) = k + 1 + n by omega]
    exact this

/-- **`buildAuth` computes the spec root and authentication path** of any leaf function that agrees
    with the leaf array on `[0, 2^h)` (beyond its size the array is read as `0`), for strictly
    increasing in-range queries. -/
theorem buildAuth_spec' (H : Hashes) (nf : Felt) (h : Nat) (leaves : Array Felt) (leaf : Nat → Felt)
    (hleaf : ∀ j < 2 ^ h, leaves.getD j 0 = leaf j) (Q : List Nat)
    (hs : Q.Pairwise (· < ·)) (hr : ∀ i ∈ Q, i < 2 ^ h) :
    buildAuth H nf h leaves Q = (root H nf h leaf, authPath H nf h leaf Q) := by
  have init : Inv H nf h leaf Q 0
      (Array.ofFn (n := 2 ^ h) fun i => leaves.getD i.val 0, Q.map (· + 2 ^ h), #[]) := by
    refine ⟨by simp, ?_, layer_of_queries hs hr, by simp [authPath]⟩
    intro j hj
    simp only [Nat.sub_zero] at hj ⊢
    simp only [nodeAt, Nat.add_sub_cancel]
    rw [← hleaf j hj, Array.getD_eq_getD_getElem?, Array.getElem?_ofFn]
    simp [hj]
  have fin := Inv.foldl h 0 _ (by omega) init
  rw [Nat.zero_add] at fin
  rw [buildAuth_eq_foldl]
  congr 1
  · have := fin.vals 0 (by simp)
    rw [this]
    simp [root]
  · have := fin.auth
    simpa [authLayers] using this

theorem buildAuth_spec (H : Hashes) (nf : Felt) (h : Nat) (leaves : Array Felt) (Q : List Nat)
    (hs : Q.Pairwise (· < ·)) (hr : ∀ i ∈ Q, i < 2 ^ h) :
    buildAuth H nf h leaves Q
      = (root H nf h (fun i => leaves.getD i 0), authPath H nf h (fun i => leaves.getD i 0) Q) :=
  buildAuth_spec' H nf h leaves _ (fun _ _ => rfl) Q hs hr

/-- **`buildTableAuth` computes the spec table root / authentication path** for a table given by
    `2^h` rows `row r = [cell r 0, …, cell r (n-1)]`. -/
theorem buildTableAuth_spec (H : Hashes) (nf : Felt) (h n : Nat) (cell : Nat → Nat → Felt)
    (Q : List Nat) (hs : Q.Pairwise (· < ·)) (hr : ∀ i ∈ Q, i < 2 ^ h) :
    buildTableAuth H nf h
        (Array.ofFn (n := 2 ^ h) fun r => (List.range n).map fun i => cell r.val i) Q
      = (TableSpec.tableRoot H nf h n cell,
         TableSpec.rowValues cell n Q,
         authPath H nf h (TableSpec.tableLeaf H nf h n cell) Q) := by
  unfold buildTableAuth
  have hleaf : ∀ j < 2 ^ h,
      (tableLeaves H nf h (Array.ofFn (n := 2 ^ h) fun r => (List.range n).map fun i => cell r.val i)).getD j 0
        = TableSpec.tableLeaf H nf h n cell j := by
    intro j hj
    unfold tableLeaves
    rw [Array.getD_eq_getD_getElem?]
    simp [hj, TableSpec.tableLeaf, TableSpec.montRow]
    rfl
  rw [buildAuth_spec' H nf h _ _ hleaf Q hs hr]
  simp only [TableSpec.tableRoot]
  congr 2
  unfold TableSpec.rowValues
  clear hs hleaf
  induction Q with
  | nil => rfl
  | cons r Q ih =>
    have hr0 := hr r (List.mem_cons_self ..)
    simp only [List.flatMap_cons, ih (fun i hi => hr i (List.mem_cons_of_mem _ hi))]
    congr 1
    rw [Array.getD_eq_getD_getElem?]
    simp [hr0]

end Swiftness.Proofs.FriComplete
