/-
  The data structures of `Model/AstFast.lean` (property C16, kernel evaluation of the translated
  programs): packed vectors (`rawGet` / `rawSet` / `packAux`), stamped pages, the radix-4 page tree and
  the store operations `getS` / `setS` behave like a function `Nat → Nat` with point updates.
-/
import Swiftness.Model.AstFast
import Mathlib.Tactic.Ring
import Mathlib.Tactic.NormNum

namespace Swiftness.Proofs.AstFast
open Swiftness Swiftness.Ast Swiftness.Ast.Fast

theorem sel_true {α : Type} (t f : α) : sel true t f = t := rfl
theorem sel_false {α : Type} (t f : α) : sel false t f = f := rfl
theorem sel_eq {α : Type} (b : Bool) (t f : α) : sel b t f = if b then t else f := by
  cases b <;> rfl

theorem force_eq {α : Type} (n : Nat) (k : Nat → α) : force n k = k n := by
  cases n <;> rfl

theorem B_eq : B = 2 ^ 256 := by decide

theorem rawGet_def (S i : Nat) : rawGet S i = (S >>> (256 * i)) % B := rfl
theorem rawSet_def (S i v : Nat) : rawSet S i v = S ^^^ ((rawGet S i ^^^ v) <<< (256 * i)) := rfl

theorem rawGet_lt (S i : Nat) : rawGet S i < B := by
  rw [rawGet_def]; exact Nat.mod_lt _ (by decide)

theorem rawGet_zero (i : Nat) : rawGet 0 i = 0 := by
  simp [rawGet_def]

theorem testBit_of_lt_B {v : Nat} (hv : v < B) {b : Nat} (hb : 256 ≤ b) : v.testBit b = false := by
  apply Nat.testBit_lt_two_pow
  calc v < 2 ^ 256 := by rwa [B_eq] at hv
    _ ≤ 2 ^ b := Nat.pow_le_pow_right (by decide) hb

theorem rawGet_rawSet (S i v j : Nat) (hv : v < B) :
    rawGet (rawSet S i v) j = if j = i then v else rawGet S j := by
  apply Nat.eq_of_testBit_eq
  intro b
  simp only [rawGet_def, rawSet_def, B_eq, Nat.testBit_mod_two_pow, Nat.testBit_shiftRight,
    Nat.testBit_xor, Nat.testBit_shiftLeft]
  by_cases hb : b < 256
  · simp only [hb, decide_true, Bool.true_and]
    by_cases hji : j = i
    · subst hji
      have h1 : 256 * j + b ≥ 256 * j := by omega
      have h2 : 256 * j + b - 256 * j = b := by omega
      simp [h1, h2, hb]
    · simp only [hji, if_false, Nat.testBit_mod_two_pow, Nat.testBit_shiftRight, hb, decide_true, Bool.true_and]
      by_cases hlt : j < i
      · have h1 : ¬ (256 * j + b ≥ 256 * i) := by omega
        simp [h1]
      · have h1 : 256 * j + b ≥ 256 * i := by omega
        have h2 : ¬ (256 * j + b - 256 * i < 256) := by omega
        have h3 : v.testBit (256 * j + b - 256 * i) = false := testBit_of_lt_B hv (by omega)
        simp [h1, h2, h3]
  · have hb' : 256 ≤ b := by omega
    simp only [hb, decide_false, Bool.false_and]
    split
    · exact (testBit_of_lt_B hv hb').symm
    · rw [← B_eq, ← rawGet_def]
      exact (testBit_of_lt_B (rawGet_lt S j) hb').symm


/-! ### packing a list -/

theorem packAux_nil {β : Type} (i S : Nat) (c : Nat → Option β) : packAux [] i S c = c S := rfl

theorem packAux_cons {β : Type} (x : Nat) (xs : List Nat) (i S : Nat) (c : Nat → Option β) :
    packAux (x :: xs) i S c = sel (Nat.blt x B) (packAux xs (i + 1) (rawSet S i x) c) none := by
  show sel _ (force _ _) none = _
  rw [force_eq, force_eq]
  rfl

/-- a successful `packAux` calls its continuation on a vector that holds `xs` at `i, i+1, …` and is
    unchanged elsewhere -/
theorem packAux_sound {β : Type} (xs : List Nat) : ∀ (i S : Nat) (c : Nat → Option β) (r : β),
    packAux xs i S c = some r →
    ∃ S', c S' = some r ∧
      ∀ j, rawGet S' j = if i ≤ j ∧ j < i + xs.length then xs.getD (j - i) 0 else rawGet S j := by
  induction xs with
  | nil =>
    intro i S c r h
    exact ⟨S, h, fun j => by simp⟩
  | cons x xs ih =>
    intro i S c r h
    rw [packAux_cons, sel_eq] at h
    by_cases hx : x < B
    · have hb : Nat.blt x B = true := by rw [Nat.blt_eq]; exact hx
      rw [hb, if_pos rfl] at h
      obtain ⟨S', hc, hS'⟩ := ih (i + 1) (rawSet S i x) c r h
      refine ⟨S', hc, fun j => ?_⟩
      rw [hS' j, rawGet_rawSet S i x j hx]
      simp only [List.length_cons]
      by_cases h1 : i + 1 ≤ j ∧ j < i + 1 + xs.length
      · have h2 : i ≤ j ∧ j < i + (xs.length + 1) := by omega
        have h3 : j - i = (j - (i + 1)) + 1 := by omega
        rw [if_pos h1, if_pos h2, h3, List.getD_cons_succ]
      · rw [if_neg h1]
        by_cases hji : j = i
        · subst hji
          have h2 : j ≤ j ∧ j < j + (xs.length + 1) := by omega
          rw [if_pos rfl, if_pos h2, Nat.sub_self, List.getD_cons_zero]
        · have h2 : ¬ (i ≤ j ∧ j < i + (xs.length + 1)) := by omega
          rw [if_neg hji, if_neg h2]
    · have hb : Nat.blt x B = false := by
        rw [← Bool.not_eq_true, Nat.blt_eq]; exact hx
      rw [hb] at h
      simp at h

/-- … and every entry fits a slot -/
theorem packAux_lt {β : Type} (xs : List Nat) : ∀ (i S : Nat) (c : Nat → Option β) (r : β),
    packAux xs i S c = some r → ∀ x ∈ xs, x < B := by
  induction xs with
  | nil => intro i S c r _ x hx; cases hx
  | cons x xs ih =>
    intro i S c r h y hy
    rw [packAux_cons, sel_eq] at h
    by_cases hx : x < B
    · have hb : Nat.blt x B = true := by rw [Nat.blt_eq]; exact hx
      rw [hb, if_pos rfl] at h
      rcases List.mem_cons.1 hy with rfl | hy
      · exact hx
      · exact ih _ _ _ _ h y hy
    · have hb : Nat.blt x B = false := by
        rw [← Bool.not_eq_true, Nat.blt_eq]; exact hx
      rw [hb] at h
      simp at h

theorem listLen_eq (xs : List Nat) : ∀ n, listLen xs n = n + xs.length := by
  induction xs with
  | nil => intro n; rfl
  | cons x xs ih =>
    intro n
    show listLen xs (Nat.succ n) = _
    rw [ih, List.length_cons]; omega

/-! ### pages -/

theorem pageGet_pageSet (pg j v j' : Nat) (hv : v < B) :
    pageGet (pageSet pg j v) j' = if j' = j then v else pageGet pg j' := by
  show rawGet (rawSet (rawSet pg (j + 1) v) 0 (Nat.succ (rawGet pg 0) % B)) (j' + 1) = _
  rw [rawGet_rawSet _ _ _ _ (Nat.mod_lt _ (by decide)), if_neg (by omega), rawGet_rawSet _ _ _ _ hv]
  by_cases h : j' = j
  · rw [if_pos h, if_pos (by omega)]
  · rw [if_neg h, if_neg (by omega)]; rfl

theorem pageGet_zero (j : Nat) : pageGet 0 j = 0 := rawGet_zero _

theorem pageGet_lt (pg j : Nat) : pageGet pg j < B := rawGet_lt _ _

/-! ### the page tree -/

theorem sel4_same {α : Type} (j : Nat) (a : α) : sel4 j a a a a = a := by
  unfold sel4; simp only [sel_eq]; split <;> split <;> rfl

theorem sel4_0 {α : Type} (a b c d : α) : sel4 0 a b c d = a := rfl
theorem sel4_1 {α : Type} (a b c d : α) : sel4 1 a b c d = b := rfl
theorem sel4_2 {α : Type} (a b c d : α) : sel4 2 a b c d = c := rfl
theorem sel4_3 {α : Type} (a b c d : α) : sel4 3 a b c d = d := rfl

theorem Tree.get_zero (t : Tree) (k : Nat) : Tree.get 0 t k = t.pg := by cases t <;> rfl

theorem Tree.get_leaf (d k : Nat) : Tree.get d .leaf k = 0 := by cases d <;> rfl

/-- the four subtrees as a tuple (specification of `Tree.kids`) -/
def kidsOf : Tree → Tree × Tree × Tree × Tree
  | .node a b c d => (a, b, c, d)
  | _ => (.leaf, .leaf, .leaf, .leaf)

theorem Tree.kids_eq {α : Type} (t : Tree) (c : Tree → Tree → Tree → Tree → α) :
    t.kids c = c (kidsOf t).1 (kidsOf t).2.1 (kidsOf t).2.2.1 (kidsOf t).2.2.2 := by
  cases t <;> rfl

theorem Tree.get_succ (d : Nat) (t : Tree) (k : Nat) :
    Tree.get (d + 1) t k =
      Tree.get d (sel4 (k % 4) (kidsOf t).1 (kidsOf t).2.1 (kidsOf t).2.2.1 (kidsOf t).2.2.2) (k / 4) := by
  cases t with
  | leaf => simp only [kidsOf, sel4_same, Tree.get_leaf]
  | page pg => simp only [kidsOf, sel4_same, Tree.get_leaf]; rfl
  | node a b c e => rfl

theorem Tree.get_node (d : Nat) (a b c e : Tree) (k : Nat) :
    Tree.get (d + 1) (.node a b c e) k = Tree.get d (sel4 (k % 4) a b c e) (k / 4) := rfl

theorem Tree.upd_zero {β : Type} (t : Tree) (k : Nat) (f : Nat → Nat) (c : Tree → β) :
    Tree.upd 0 t k f c = c (.page (f t.pg)) := by
  show (force (f t.pg) fun pg' => c (.page pg')) = _
  rw [force_eq]

theorem Tree.upd_succ {β : Type} (d : Nat) (t : Tree) (k : Nat) (f : Nat → Nat) (c : Tree → β) :
    Tree.upd (d + 1) t k f c =
      t.kids fun a b c' e =>
        sel (Nat.ble (k % 4) 1)
          (sel (Nat.beq (k % 4) 0)
            (Tree.upd d a (k / 4) f fun x => c (.node x b c' e))
            (Tree.upd d b (k / 4) f fun x => c (.node a x c' e)))
          (sel (Nat.beq (k % 4) 2)
            (Tree.upd d c' (k / 4) f fun x => c (.node a b x e))
            (Tree.upd d e (k / 4) f fun x => c (.node a b c' x))) := rfl

theorem mod_pow4_succ (j k d : Nat) :
    (j % 4 ^ (d + 1) = k % 4 ^ (d + 1)) ↔ (j % 4 = k % 4 ∧ (j / 4) % 4 ^ d = (k / 4) % 4 ^ d) := by
  rw [Nat.pow_succ', Nat.mod_mul, Nat.mod_mul]
  have := Nat.mod_lt j (show 0 < 4 by decide)
  have := Nat.mod_lt k (show 0 < 4 by decide)
  omega

/-- `Tree.upd` replaces exactly page number `k` (modulo `4^d`: the tree has `4^d` pages) and calls
    its continuation on the result -/
theorem Tree.upd_spec {β : Type} (d : Nat) : ∀ (t : Tree) (k : Nat) (f : Nat → Nat) (c : Tree → β),
    ∃ t', Tree.upd d t k f c = c t' ∧
      ∀ j, Tree.get d t' j = if j % 4 ^ d = k % 4 ^ d then f (Tree.get d t k) else Tree.get d t j := by
  induction d with
  | zero =>
    intro t k f c
    refine ⟨.page (f t.pg), Tree.upd_zero t k f c, fun j => ?_⟩
    simp only [Tree.get_zero, pow_zero, Nat.mod_one, if_true]
    rfl
  | succ d ih =>
    intro t k f c
    rw [Tree.upd_succ, Tree.kids_eq]
    generalize hk : kidsOf t = ks
    obtain ⟨a, b, c', e⟩ := ks
    have hget : ∀ j, Tree.get (d + 1) t j = Tree.get d (sel4 (j % 4) a b c' e) (j / 4) := by
      intro j; rw [Tree.get_succ, hk]
    have hm : k % 4 = 0 ∨ k % 4 = 1 ∨ k % 4 = 2 ∨ k % 4 = 3 := by omega
    have key : ∀ (n : Tree) (m : Nat) (x : Tree), k % 4 = m →
        (∀ j, Tree.get d x j = if j % 4 ^ d = (k / 4) % 4 ^ d then
            f (Tree.get d (sel4 m a b c' e) (k / 4)) else Tree.get d (sel4 m a b c' e) j) →
        (∀ i, i < 4 → sel4 i (kidsOf n).1 (kidsOf n).2.1 (kidsOf n).2.2.1 (kidsOf n).2.2.2 =
            if i = m then x else sel4 i a b c' e) →
        ∀ j, Tree.get (d + 1) n j =
          if j % 4 ^ (d + 1) = k % 4 ^ (d + 1) then f (Tree.get (d + 1) t k) else Tree.get (d + 1) t j := by
      intro n m x hkm hx hn j
      rw [Tree.get_succ, hn _ (Nat.mod_lt j (by decide)), hget j, hget k, hkm]
      by_cases hjm : j % 4 = m
      · rw [if_pos hjm, hx (j / 4)]
        by_cases hq : (j / 4) % 4 ^ d = (k / 4) % 4 ^ d
        · rw [if_pos hq, if_pos ((mod_pow4_succ j k d).2 ⟨by omega, hq⟩)]
        · rw [if_neg hq, if_neg (fun h => hq ((mod_pow4_succ j k d).1 h).2), hjm]
      · rw [if_neg hjm, if_neg (fun h => hjm (by rw [((mod_pow4_succ j k d).1 h).1, hkm]))]
    rcases hm with h0 | h1 | h2 | h3
    · obtain ⟨x, hx1, hx2⟩ := ih a (k / 4) f (fun x => c (.node x b c' e))
      refine ⟨.node x b c' e, ?_, key (.node x b c' e) 0 x h0 hx2 ?_⟩
      · rw [h0]; exact hx1
      · intro i hi4
        show sel4 i x b c' e = _
        by_cases hi : i = 0
        · subst hi; rfl
        · rw [if_neg hi]; unfold sel4; simp only [sel_eq]
          have : Nat.beq i 0 = false := by
            rw [← Bool.not_eq_true, Nat.beq_eq]; exact hi
          simp [this]
    · obtain ⟨x, hx1, hx2⟩ := ih b (k / 4) f (fun x => c (.node a x c' e))
      refine ⟨.node a x c' e, ?_, key (.node a x c' e) 1 x h1 hx2 ?_⟩
      · rw [h1]; exact hx1
      · intro i hi4
        show sel4 i a x c' e = _
        by_cases hi : i = 1
        · subst hi; rfl
        · rw [if_neg hi]; unfold sel4; simp only [sel_eq]
          by_cases hi0 : i = 0
          · subst hi0; rfl
          · have h1 : Nat.ble i 1 = false := by
              rw [← Bool.not_eq_true, Nat.ble_eq]; omega
            simp [h1]
    · obtain ⟨x, hx1, hx2⟩ := ih c' (k / 4) f (fun x => c (.node a b x e))
      refine ⟨.node a b x e, ?_, key (.node a b x e) 2 x h2 hx2 ?_⟩
      · rw [h2]; exact hx1
      · intro i hi4
        show sel4 i a b x e = _
        by_cases hi : i = 2
        · subst hi; rfl
        · rw [if_neg hi]; unfold sel4; simp only [sel_eq]
          have : Nat.beq i 2 = false := by
            rw [← Bool.not_eq_true, Nat.beq_eq]; exact hi
          simp [this]
    · obtain ⟨x, hx1, hx2⟩ := ih e (k / 4) f (fun x => c (.node a b c' x))
      refine ⟨.node a b c' x, ?_, key (.node a b c' x) 3 x h3 hx2 ?_⟩
      · rw [h3]; exact hx1
      · intro i hi4
        show sel4 i a b c' x = _
        by_cases hi : i = 3
        · subst hi; rfl
        · rw [if_neg hi]; unfold sel4; simp only [sel_eq]
          by_cases hle : i ≤ 1
          · have h1 : Nat.ble i 1 = true := by rw [Nat.ble_eq]; exact hle
            simp [h1]
          · have h1 : Nat.ble i 1 = false := by
              rw [← Bool.not_eq_true, Nat.ble_eq]; exact hle
            by_cases hi2 : i = 2
            · subst hi2; rfl
            · omega

/-! ### the store -/

theorem getS_leaf (s : Nat) : getS .leaf s = 0 := by
  show pageGet (Tree.get 4 .leaf (s % 256)) (s / 256) = 0
  rw [Tree.get_leaf, pageGet_zero]

theorem getS_lt (S : Tree) (s : Nat) : getS S s < B := pageGet_lt _ _

/-- `setS` is a point update of the store and calls its continuation on the result -/
theorem setS_spec {β : Type} (S : Tree) (s v : Nat) (hv : v < B) (c : Tree → β) :
    ∃ S', setS S s v c = c S' ∧ ∀ s', getS S' s' = if s' = s then v else getS S s' := by
  obtain ⟨S', h1, h2⟩ := Tree.upd_spec 4 S (s % 256) (fun pg => pageSet pg (s / 256) v) c
  refine ⟨S', h1, fun s' => ?_⟩
  show pageGet (Tree.get 4 S' (s' % 256)) (s' / 256) = _
  rw [h2]
  have e4 : (4 : Nat) ^ 4 = 256 := by decide
  rw [e4, Nat.mod_mod, Nat.mod_mod]
  by_cases hp : s' % 256 = s % 256
  · rw [if_pos hp, pageGet_pageSet _ _ _ _ hv]
    by_cases hq : s' / 256 = s / 256
    · rw [if_pos hq, if_pos (by omega)]
    · rw [if_neg hq, if_neg (by omega)]
      show _ = pageGet (Tree.get 4 S (s' % 256)) (s' / 256)
      rw [hp]
  · rw [if_neg hp, if_neg (by omega)]
    rfl

end Swiftness.Proofs.AstFast
