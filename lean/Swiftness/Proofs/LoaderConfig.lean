/-
  C19 helpers: decomposition of `convert`, configuration derivation, checked narrowing, public input.
-/
import Swiftness.Proofs.LoaderSegments
import Swiftness.Proofs.LoaderDynamic

namespace Swiftness.Loader
open Swiftness

/-- `convert` succeeds iff all its stages succeed; the proof is assembled from their results and nothing else. -/
theorem convert_ok {r : RawFile} {p : Stark.Proof} (h : convert r = .ok p) :
    ∃ consts dyn items, layoutOf r = .ok (consts, dyn) ∧ configOf r consts = .ok p.config ∧
      publicInputOf r dyn = .ok p.publicInput ∧ parseAnnotations r.annotations = .ok items ∧
      unsentOf items = .ok p.unsent ∧ witnessOf r.friStepList.length items = .ok p.witness := by
  unfold convert at h
  obtain ⟨⟨consts, dyn⟩, h1, h⟩ := bind_eq_ok h
  obtain ⟨cfg, h2, h⟩ := bind_eq_ok h
  obtain ⟨pi, h3, h⟩ := bind_eq_ok h
  obtain ⟨_, _, h⟩ := bind_eq_ok h
  obtain ⟨_, _, h⟩ := bind_eq_ok h
  obtain ⟨items, h4, h⟩ := bind_eq_ok h
  obtain ⟨_, _, h⟩ := bind_eq_ok h
  obtain ⟨u, h5, h⟩ := bind_eq_ok h
  obtain ⟨w, h6, h⟩ := bind_eq_ok h
  cases h
  exact ⟨consts, dyn, items, h1, h2, h3, h4, h5, h6⟩

/-- a converted file's prover messages tile the proof (see `Loader.tiles`) -/
theorem convert_tiles {r : RawFile} {p : Stark.Proof} (h : convert r = .ok p) :
    ∃ n, tiles r.annotations 0 = .ok n ∧ ∀ m, r.proofBytes = some m → n = m := by
  unfold convert at h
  obtain ⟨_, _, h⟩ := bind_eq_ok h
  obtain ⟨_, _, h⟩ := bind_eq_ok h
  obtain ⟨_, _, h⟩ := bind_eq_ok h
  obtain ⟨n, ht, h⟩ := bind_eq_ok h
  obtain ⟨_, hc, _⟩ := bind_eq_ok h
  refine ⟨n, ht, fun m hm => ?_⟩
  unfold coversProof at hc
  rw [hm] at hc
  dsimp only at hc
  split at hc
  · assumption
  · cases hc

/-- a converted file commits to exactly one root per inner FRI layer -/
theorem convert_fri_commit_count {r : RawFile} {p : Stark.Proof} (h : convert r = .ok p) :
    ((r.annotations.filterMap item?).filter isFriCommit).length + 1 = r.friStepList.length := by
  unfold convert at h
  obtain ⟨_, _, h⟩ := bind_eq_ok h
  obtain ⟨_, _, h⟩ := bind_eq_ok h
  obtain ⟨_, _, h⟩ := bind_eq_ok h
  obtain ⟨_, _, h⟩ := bind_eq_ok h
  obtain ⟨_, _, h⟩ := bind_eq_ok h
  obtain ⟨items, h4, h⟩ := bind_eq_ok h
  obtain ⟨_, hc, _⟩ := bind_eq_ok h
  obtain ⟨_, rfl⟩ := parseAnnotations_ok h4
  unfold friCommitCount at hc
  split at hc
  · assumption
  · cases hc

/-- conversely: any failing stage makes `convert` fail (never a partially filled proof) -/
theorem convert_error_of_annotations {r : RawFile} {e : String}
    (h : parseAnnotations r.annotations = .error e) : ∃ e', convert r = .error e' := by
  rcases ok_or_error (convert r) with ⟨p, hp⟩ | he
  · obtain ⟨_, _, items, _, _, _, h4, _⟩ := convert_ok hp
    rw [h] at h4; cases h4
  · exact he

/-! ### powers of two -/

theorem log2Exact?_some {n k : Nat} (h : log2Exact? n = some k) : n = 2 ^ k := by
  unfold log2Exact? at h
  split at h
  · rename_i hn
    cases h
    exact hn.2.symm
  · cases h

theorem log2Exact?_two_pow (k : Nat) : log2Exact? (2 ^ k) = some k := by
  unfold log2Exact?
  have : 2 ^ k ≠ 0 := Nat.pos_iff_ne_zero.1 (Nat.two_pow_pos k)
  simp [Nat.log2_two_pow]

theorem log2Exact?_none {n : Nat} (h : ∀ k, n ≠ 2 ^ k) : log2Exact? n = none := by
  cases hn : log2Exact? n with
  | none => rfl
  | some k => exact absurd (log2Exact?_some hn) (h k)

/-! ### FRI inner layers -/

/-- closed form of the inner layer tables: layer `i` has `2^step_i` columns and height `h − (step_0 + … + step_i)` -/
theorem innerLayersFrom_ok (nf : Nat) : ∀ (l : List Nat) (h : Nat) (out : List Fri.TableConfig),
    innerLayersFrom nf h l = .ok out →
    l.sum ≤ h ∧ (∀ s ∈ l, s < 32) ∧
    out = (List.range l.length).map (fun i =>
      (⟨Felt.ofNat (2 ^ l[i]?.getD 0), ⟨Felt.ofNat (h - (l.take (i + 1)).sum), Felt.ofNat nf⟩⟩ : Fri.TableConfig))
  | [], h, out, hx => by
    simp only [innerLayersFrom] at hx
    cases hx
    simp
  | s :: rest, h, out, hx => by
    simp only [innerLayersFrom] at hx
    split at hx
    · cases hx
    · rename_i hs
      split at hx
      · cases hx
      · rename_i hs32
        split at hx
        · cases hx
        · rename_i ls hls
          cases hx
          obtain ⟨hsum, h32, hout⟩ := innerLayersFrom_ok nf rest (h - s) ls hls
          refine ⟨by simp only [List.sum_cons]; omega, ?_, ?_⟩
          · intro x hx
            rcases List.mem_cons.1 hx with rfl | hx
            · omega
            · exact h32 x hx
          · rw [List.length_cons, List.range_succ_eq_map, List.map_cons, List.map_map, hout]
            congr 1
            simp only [List.map_inj_left, Function.comp, List.getElem?_cons_succ, List.take_succ_cons,
              List.sum_cons]
            intro i _
            rw [Nat.sub_sub]

/-! ### configuration -/

/-- what `configOf` computes, as functions of the step list, `n_steps`, `log_n_cosets` and the layout constants -/
structure ConfigSpec (r : RawFile) (c : LayoutConsts) (cfg : StarkConfig) : Prop where
  /-- narrowing: everything fits the parser's `u32`s, the difficulty fits `u8` -/
  pow_le : r.powBits ≤ 255
  pow_eq : cfg.powBits = r.powBits
  /-- `log_trace_domain_size = log2 (16 · cpu_component_step · n_steps)` -/
  trace : ∃ t, COMPONENT_HEIGHT * c.cpuComponentStep * r.nSteps = 2 ^ t ∧
    cfg.logTraceDomainSize = Felt.ofNat t ∧
    (let e := t + r.logNCosets
     let table (n : Nat) : Fri.TableConfig := ⟨Felt.ofNat n, ⟨Felt.ofNat e, Felt.ofNat r.nFriendly⟩⟩
     cfg.traces.original = table c.numColumnsFirst ∧
     cfg.traces.interaction = table c.numColumnsSecond ∧
     cfg.composition = table c.constraintDegree ∧
     cfg.fri.logInputSize = Felt.ofNat e ∧
     r.friStepList.sum ≤ e ∧
     cfg.fri.innerLayers = (List.range (r.friStepList.length - 1)).map (fun i =>
       (⟨Felt.ofNat (2 ^ r.friStepList[i + 1]?.getD 0),
         ⟨Felt.ofNat (e - (r.friStepList.take (i + 2)).sum), Felt.ofNat r.nFriendly⟩⟩ : Fri.TableConfig)))
  steps_ne : r.friStepList ≠ []
  inner_steps_small : ∀ s ∈ r.friStepList.tail, s < 32
  n_layers : cfg.fri.nLayers = Felt.ofNat r.friStepList.length
  step_sizes : cfg.fri.friStepSizes = r.friStepList.map Felt.ofNat
  last : ∃ b, r.lastLayerDegreeBound = 2 ^ b ∧ cfg.fri.logLastLayerDegreeBound = Felt.ofNat b
  n_queries : cfg.nQueries = Felt.ofNat r.nQueries
  log_n_cosets : cfg.logNCosets = Felt.ofNat r.logNCosets
  n_friendly : cfg.nFriendly = Felt.ofNat r.nFriendly
  u32 : r.nQueries < 2 ^ 32 ∧ r.logNCosets < 2 ^ 32 ∧ r.nFriendly < 2 ^ 32 ∧ r.nSteps < 2 ^ 32 ∧
    r.lastLayerDegreeBound < 2 ^ 32 ∧ (∀ s ∈ r.friStepList, s < 2 ^ 32)

theorem configOf_ok {r : RawFile} {c : LayoutConsts} {cfg : StarkConfig}
    (h : configOf r c = .ok cfg) : ConfigSpec r c cfg := by
  unfold configOf at h
  split at h
  · cases h
  rename_i hu
  split at h
  · cases h
  rename_i hpow
  split at h
  · cases h
  rename_i hsz
  split at h
  · cases h
  rename_i t ht
  simp only at h
  split at h
  · cases h
  rename_i he
  split at h
  · cases h
  rename_i b hb
  split at h
  · cases h
  rename_i s0 rest hsteps
  split at h
  · cases h
  rename_i hs0
  split at h
  · cases h
  rename_i inner hinner
  cases h
  obtain ⟨hsum, h32, hin⟩ := innerLayersFrom_ok _ _ _ _ hinner
  have hu' : ¬ (r.friStepList.any (· ≥ U32)) ∧ r.lastLayerDegreeBound < U32 ∧ r.nQueries < U32 ∧
      r.powBits < U32 ∧ r.logNCosets < U32 ∧ r.nFriendly < U32 ∧ r.nSteps < U32 := by
    simp only [not_or, Nat.not_le] at hu
    exact ⟨by simpa using hu.1, hu.2⟩
  have hU : U32 = 2 ^ 32 := rfl
  refine
    { pow_le := by omega
      pow_eq := rfl
      trace := ⟨t, log2Exact?_some ht, rfl, rfl, rfl, rfl, rfl, ?_, ?_⟩
      steps_ne := by rw [hsteps]; exact List.cons_ne_nil _ _
      inner_steps_small := by rw [hsteps]; exact h32
      n_layers := rfl
      step_sizes := rfl
      last := ⟨b, log2Exact?_some hb, rfl⟩
      n_queries := rfl
      log_n_cosets := rfl
      n_friendly := rfl
      u32 := ?_ }
  · rw [hsteps, List.sum_cons]; omega
  · rw [hin, hsteps]
    simp only [List.length_cons, Nat.add_sub_cancel]
    apply List.map_congr_left
    intro i _
    simp only [List.getElem?_cons_succ, List.take_succ_cons, List.sum_cons]
    congr 3
    omega
  · refine ⟨by omega, by omega, by omega, by omega, by omega, ?_⟩
    intro s hs
    have := hu'.1
    simp only [List.any_eq_true, not_exists, not_and, decide_eq_true_eq] at this
    have := this s hs
    omega

/-! ### the unsent commitment: checked narrowing of the nonce -/

theorem single_ok {what : String} {p : Item → Bool} {items : List Item} {v : Nat}
    (h : single what p items = .ok v) : ∃ it, items.filter p = [it] ∧ it.values = [v] := by
  unfold single at h
  split at h
  · rename_i i hi
    split at h
    · rename_i v' hv
      cases h
      exact ⟨i, hi, hv⟩
    · cases h
  · cases h
  · cases h

structure UnsentSpec (items : List Item) (u : Stark.UnsentCommitment) : Prop where
  original : ∃ it v, items.filter (isTraceCommit 0) = [it] ∧ it.values = [v] ∧ u.tracesOriginal = Felt.ofNat v
  interaction : ∃ it v, items.filter (isTraceCommit 1) = [it] ∧ it.values = [v] ∧ u.tracesInteraction = Felt.ofNat v
  composition : ∃ it v, items.filter (isTraceCommit 2) = [it] ∧ it.values = [v] ∧ u.composition = Felt.ofNat v
  oods : u.oodsValues = felts (collect isOods items)
  fri_layers : u.friInnerLayers = felts (collect isFriCommit items)
  fri_layers_order : (items.filter isFriCommit).map (slotIndex ·.slot) =
    (List.range (items.filter isFriCommit).length).map (· + 1)
  fri_last : u.friLastLayerCoefficients = felts (collect isFriLast items)
  /-- the nonce is the file's number, unreduced, and it fits 64 bits -/
  nonce : ∃ it, items.filter isPow = [it] ∧ it.values = [u.powNonce]
  nonce_lt : u.powNonce < 2 ^ 64

theorem unsentOf_ok {items : List Item} {u : Stark.UnsentCommitment} (h : unsentOf items = .ok u) :
    UnsentSpec items u := by
  unfold unsentOf at h
  obtain ⟨o, ho, h⟩ := bind_eq_ok h
  obtain ⟨i, hi, h⟩ := bind_eq_ok h
  obtain ⟨c, hc, h⟩ := bind_eq_ok h
  obtain ⟨n, hn, h⟩ := bind_eq_ok h
  simp only at h
  split at h
  · cases h
  rename_i hord
  split at h
  · cases h
  rename_i hlt
  cases h
  obtain ⟨io, hio, hvo⟩ := single_ok ho
  obtain ⟨ii, hii, hvi⟩ := single_ok hi
  obtain ⟨ic, hic, hvc⟩ := single_ok hc
  exact
    { original := ⟨io, o, hio, hvo, rfl⟩
      interaction := ⟨ii, i, hii, hvi, rfl⟩
      composition := ⟨ic, c, hic, hvc, rfl⟩
      oods := rfl
      fri_layers := rfl
      fri_layers_order := by simpa using hord
      fri_last := rfl
      nonce := single_ok hn
      nonce_lt := by simpa using hlt }

/-! ### the witness -/

structure WitnessSpec (nLayers : Nat) (items : List Item) (w : Stark.Witness) : Prop where
  original_values : w.tracesOriginalValues = felts (collect (isTraceValue 0) items)
  interaction_values : w.tracesInteractionValues = felts (collect (isTraceValue 1) items)
  composition_values : w.compositionValues = felts (collect (isTraceValue 2) items)
  original_auths : w.tracesOriginalAuths = felts (collect (isTraceAuth 0) items)
  interaction_auths : w.tracesInteractionAuths = felts (collect (isTraceAuth 1) items)
  composition_auths : w.compositionAuths = felts (collect (isTraceAuth 2) items)
  fri : w.friLayers = (List.range (nLayers - 1)).map fun i =>
    (⟨felts (collect (isFriLeaf (i + 1)) items), felts (collect (isFriAuth (i + 1)) items)⟩ : Fri.LayerWitness)
  /-- no decommitment message is lost: every FRI decommitment belongs to one of the layers 1 … nLayers−1 -/
  fri_complete : ∀ it ∈ items, isFriDecommit it = true → slotIndex it.slot < nLayers

theorem witnessOf_ok {n : Nat} {items : List Item} {w : Stark.Witness} (h : witnessOf n items = .ok w) :
    WitnessSpec n items w := by
  unfold witnessOf at h
  split at h
  · cases h
  rename_i hany
  cases h
  refine ⟨rfl, rfl, rfl, rfl, rfl, rfl, rfl, ?_⟩
  intro it hit hd
  simp only [List.any_eq_true, not_exists, not_and, decide_eq_true_eq] at hany
  have := hany it (List.mem_filter.2 ⟨hit, hd⟩)
  omega

/-! ### public input -/

structure PublicInputSpec (r : RawFile) (dyn : Option (List Nat)) (pi : PublicInput) : Prop where
  log_n_steps : ∃ k, r.nSteps = 2 ^ k ∧ pi.logNSteps = Felt.ofNat k
  rc_min : pi.rangeCheckMin = Felt.ofNat r.rcMin
  rc_max : pi.rangeCheckMax = Felt.ofNat r.rcMax
  layout : pi.layout = Felt.ofNat (layoutCode r.layout)
  dynamic : pi.dynamicParams = dyn
  segments : ∃ sorted, sortSegments r.memorySegments = .ok sorted ∧
    pi.segments = sorted.map fun s => ⟨Felt.ofNat s.beginAddr, Felt.ofNat s.stopPtr⟩
  memory : ∃ cells, mapE memCell r.publicMemory = .ok cells ∧
    (∃ first, cells.head? = some first ∧ pi.paddingAddr = first.2.address ∧ pi.paddingValue = first.2.value) ∧
    pi.mainPage = (cells.filter (·.1 = 0)).map (·.2)
  /-- the CLI conversion drops the continuous page headers -/
  no_headers : pi.continuousPageHeaders = []
  u32 : r.rcMin < 2 ^ 32 ∧ r.rcMax < 2 ^ 32 ∧
    ∀ s ∈ r.memorySegments, s.beginAddr < 2 ^ 32 ∧ s.stopPtr < 2 ^ 32

theorem publicInputOf_ok {r : RawFile} {dyn : Option (List Nat)} {pi : PublicInput}
    (h : publicInputOf r dyn = .ok pi) : PublicInputSpec r dyn pi := by
  unfold publicInputOf at h
  split at h
  · cases h
  rename_i hu
  split at h
  · cases h
  rename_i k hk
  split at h
  · cases h
  rename_i hsegs
  split at h
  · cases h
  rename_i sorted hsorted
  split at h
  · cases h
  rename_i cells hcells
  split at h
  · cases h
  rename_i pg first tl
  cases h
  have hU : U32 = 2 ^ 32 := rfl
  simp only [not_or, Nat.not_le] at hu
  exact
    { log_n_steps := ⟨k, log2Exact?_some hk, rfl⟩
      rc_min := rfl
      rc_max := rfl
      layout := rfl
      dynamic := rfl
      segments := ⟨sorted, hsorted, rfl⟩
      memory := ⟨_, hcells, ⟨(pg, first), rfl, rfl, rfl⟩, rfl⟩
      no_headers := rfl
      u32 := by
        refine ⟨by omega, by omega, ?_⟩
        intro s hs
        simp only [List.any_eq_true, not_exists, not_and, decide_eq_true_eq, not_or, Nat.not_le] at hsegs
        have := hsegs s hs
        omega }

/-- a public memory cell: address and page fit `u32`, the value is the hex number reduced mod P -/
theorem memCell_ok {m : RawMem} {pg : Nat} {c : AddrValue} (h : memCell m = .ok (pg, c)) :
    m.address < 2 ^ 32 ∧ m.page < 2 ^ 32 ∧ pg = m.page ∧ c.address = Felt.ofNat m.address ∧
      ∃ v, hexValue? m.value.toList = some v ∧ c.value = Felt.ofNat v := by
  unfold memCell at h
  split at h
  · cases h
  rename_i hu
  split at h
  · cases h
  rename_i v hv
  cases h
  have hU : U32 = 2 ^ 32 := rfl
  simp only [not_or, Nat.not_le] at hu
  exact ⟨by omega, by omega, rfl, rfl, v, hv, rfl⟩

/-! ### layouts -/

/-- static layouts: the VERIFIER's constants, no dynamic parameters -/
theorem layoutOf_static {r : RawFile} {c : LayoutConsts} {d : Option (List Nat)}
    (hl : r.layout ≠ "dynamic") (h : layoutOf r = .ok (c, d)) :
    staticConsts r.layout = some c ∧ d = none ∧ (r.dynamicParams.getD []) = [] := by
  unfold layoutOf at h
  simp only [hl, ↓reduceIte] at h
  split at h
  · cases h
  · rename_i c' hc
    split at h
    · rename_i he
      cases h
      exact ⟨hc, rfl, by simpa using he⟩
    · cases h

/-- dynamic layout: columns and component step come from the file's `dynamic_params`, the constraint degree
    from the verifier's constants, and the values go to the verifier in struct field order -/
theorem layoutOf_dynamic {r : RawFile} {c : LayoutConsts} {d : Option (List Nat)}
    (hl : r.layout = "dynamic") (h : layoutOf r = .ok (c, d)) :
    ∃ dp vals, r.dynamicParams = some dp ∧ dynamicParamsOf dp = .ok vals ∧ d = some vals ∧
      lookupKey "cpu_component_step" dp = some c.cpuComponentStep ∧
      lookupKey "num_columns_first" dp = some c.numColumnsFirst ∧
      lookupKey "num_columns_second" dp = some c.numColumnsSecond ∧
      c.constraintDegree = Gen.Layout.dynamic.CONSTRAINT_DEGREE := by
  unfold layoutOf at h
  simp only [hl, ↓reduceIte] at h
  split at h
  · cases h
  rename_i hne
  split at h
  · cases h
  rename_i vals hvals
  split at h
  · rename_i s n1 n2 hs hn1 hn2
    cases h
    cases hdp : r.dynamicParams with
    | none => simp [hdp] at hne
    | some dp =>
      simp only [hdp, Option.getD_some] at hvals hs hn1 hn2
      exact ⟨dp, vals, rfl, hvals, rfl, hs, hn1, hn2, rfl⟩
  · cases h

end Swiftness.Loader
