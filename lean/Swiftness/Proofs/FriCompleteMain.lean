/-
  C06b (FRI completeness), part 4: configuration, first layer, last layer and the assembly for the
  spec-level prover `friProveSpec`.
-/
import Swiftness.Proofs.FriCompleteInduct

namespace Swiftness.Proofs.FriComplete
open Swiftness Fri FoldSpec Prover
attribute [-instance] Fin.instOfNat

/-! ### the configuration -/

def heightsRec : List ℕ → ℕ → List ℕ
  | [], _ => []
  | s :: ss, L => (L - s) :: heightsRec ss (L - s)

theorem heights_foldl (steps : List ℕ) : ∀ (acc : List ℕ) (L : ℕ),
    (steps.foldl (fun (acc : List Nat × Nat) s => (acc.1 ++ [acc.2 - s], acc.2 - s)) (acc, L)).1
      = acc ++ heightsRec steps L := by
  induction steps with
  | nil => intro acc L; simp [heightsRec]
  | cons s ss ih =>
    intro acc L
    simp only [List.foldl_cons, ih, heightsRec, List.append_assoc, List.singleton_append]

theorem zip_heights (nf : Felt) (steps : List ℕ) : ∀ L : ℕ,
    ((steps.zip (heightsRec steps L)).map
      fun (s, h) => (⟨Felt.ofNat (2 ^ s), ⟨Felt.ofNat h, nf⟩⟩ : TableConfig)) = innerCfgs nf steps L := by
  induction steps with
  | nil => intro L; rfl
  | cons s ss ih => intro L; simp only [heightsRec, List.zip_cons_cons, List.map_cons, innerCfgs, ih]

theorem foldl_add_eq_sum_nat (steps : List ℕ) : steps.foldl (· + ·) 0 = steps.sum :=
  List.sum_eq_foldl.symm

theorem friConfig_eq (nf : Felt) (steps : List ℕ) (lastBound logNCosets : ℕ) :
    friConfig nf steps lastBound logNCosets =
      { logInputSize := Felt.ofNat (steps.sum + lastBound + logNCosets)
        nLayers := Felt.ofNat (steps.length + 1)
        innerLayers := innerCfgs nf steps (steps.sum + lastBound + logNCosets)
        friStepSizes := Felt.ofNat 0 :: steps.map Felt.ofNat
        logLastLayerDegreeBound := Felt.ofNat lastBound } := by
  unfold friConfig
  simp only [foldl_add_eq_sum_nat, heights_foldl, List.nil_append, zip_heights]
  rfl

theorem one_felt' : (@OfNat.ofNat Felt 1 Fin.instOfNat) = (1 : Felt) := by
  rw [felt_ofNat, Nat.cast_one]

theorem ofNat_succ_sub_one_val (n : ℕ) (h : n < 2 ^ 64) :
    (Felt.ofNat (n + 1) - @OfNat.ofNat Felt 1 Fin.instOfNat).val = n := by
  rw [one_felt', Felt.ofNat_eq_cast]
  push_cast
  rw [add_sub_cancel_right]
  exact Felt.val_cast_of_lt (lt_trans h P_gt_two_pow_64)

theorem validateLoop_spec (nf : Felt) (steps : List ℕ) : ∀ (L : ℕ) (sum : Felt),
    (∀ s ∈ steps, 1 ≤ s ∧ s ≤ 4) → steps.sum ≤ L → L ≤ 64 →
    validateLoop nf (steps.map Felt.ofNat) (innerCfgs nf steps L) (Felt.ofNat L) sum
      = .ok (Felt.ofNat (L - steps.sum), sum + Felt.ofNat steps.sum) := by
  induction steps with
  | nil =>
    intro L sum _ _ _
    simp [validateLoop, innerCfgs, Felt.ofNat_eq_cast]
  | cons s ss ih =>
    intro L sum hs hsum hL
    have hk := hs s (List.mem_cons_self ..)
    have hsum' : s + ss.sum ≤ L := by simpa using hsum
    have hval : (Felt.ofNat s).val = s := ofNat_val_of_lt s (by omega)
    have hsub : Felt.ofNat L - Felt.ofNat s = Felt.ofNat (L - s) := by
      simp only [Felt.ofNat_eq_cast]
      rw [Nat.cast_sub (by omega)]
    simp only [List.map_cons, innerCfgs, validateLoop]
    rw [if_neg (by
      rw [hval]
      simp only [MIN_FRI_STEP, MAX_FRI_STEP, Gen.FriConfig.MIN_FRI_STEP, Gen.FriConfig.MAX_FRI_STEP]
      omega)]
    rw [if_neg (by rw [cosetSize_eq s (by omega)]; simp [Felt.ofNat_eq_cast])]
    have hv : Vector.Config.validate ⟨Felt.ofNat (L - s), nf⟩ (Felt.ofNat L - Felt.ofNat s) nf = .ok () := by
      simp [Vector.Config.validate, hsub]
    simp only [hv]
    rw [hsub, ih (L - s) _ (fun x hx => hs x (List.mem_cons_of_mem _ hx)) (by omega) (by omega)]
    simp only [List.sum_cons, Felt.ofNat_eq_cast, Nat.sub_sub]
    push_cast
    rw [add_assoc]

theorem config_validate (nf : Felt) (steps : List ℕ) (lastBound logNCosets : ℕ)
    (hne : steps ≠ []) (hlen : steps.length ≤ 14) (hsteps : ∀ s ∈ steps, 1 ≤ s ∧ s ≤ 4)
    (hlb : lastBound ≤ 15) (hL : steps.sum + lastBound + logNCosets ≤ 64) :
    (friConfig nf steps lastBound logNCosets).validate (Felt.ofNat logNCosets) nf
      = .ok (Felt.ofNat (steps.sum + lastBound)) := by
  have hpos : 1 ≤ steps.length := by
    cases steps with
    | nil => exact absurd rfl hne
    | cons => simp
  have hnl : (Felt.ofNat (steps.length + 1)).val = steps.length + 1 := ofNat_val_of_lt _ (by omega)
  have hlbv : (Felt.ofNat lastBound).val = lastBound := ofNat_val_of_lt _ (by omega)
  rw [friConfig_eq]
  unfold Config.validate
  simp only [hnl, hlbv]
  rw [if_neg (by
    simp only [MIN_FRI_LAYERS, MAX_FRI_LAYERS, Gen.FriConfig.MIN_FRI_LAYERS, Gen.FriConfig.MAX_FRI_LAYERS]
    omega)]
  rw [if_neg (by
    simp only [MAX_LAST_LAYER_LOG_DEGREE_BOUND, Gen.FriConfig.MAX_LAST_LAYER_LOG_DEGREE_BOUND]
    omega)]
  have h0 : ¬ (Felt.ofNat 0 ≠ @OfNat.ofNat Felt 0 Fin.instOfNat) := by
    rw [felt_zero_lit]; simp [Felt.ofNat_eq_cast]
  simp only [h0, if_false]
  rw [if_neg (by simp [innerCfgs_length])]
  have htake1 : (List.drop 1 (Felt.ofNat 0 :: steps.map Felt.ofNat)).take (steps.length + 1 - 1)
      = steps.map Felt.ofNat := by
    simp
  have htake2 : (innerCfgs nf steps (steps.sum + lastBound + logNCosets)).take (steps.length + 1 - 1)
      = innerCfgs nf steps (steps.sum + lastBound + logNCosets) := by
    rw [Nat.add_sub_cancel, List.take_of_length_le (by rw [innerCfgs_length])]
  rw [htake1, htake2, validateLoop_spec nf steps _ _ hsteps (by omega) hL]
  simp only []
  rw [if_neg (by
    simp only [felt_zero_lit, Felt.ofNat_eq_cast, ne_eq, not_not]
    push_cast
    ring)]
  simp only [felt_zero_lit, Felt.ofNat_eq_cast]
  push_cast
  rw [zero_add]

/-! ### (b) the first layer -/

theorem gatherFirstLayer_honest (cs : List Felt) (L : ℕ) (hL : L ≤ 192) (Q : List ℕ) :
    gatherFirstLayer (Q.map Felt.ofNat) (Q.map fun q => evalL cs (layerPoint L q))
        (Q.map fun q => (3 : Felt) * layerPoint L q) = .ok (honestQueries cs L Q) := by
  induction Q with
  | nil => rfl
  | cons q qs ih =>
    have hsh : (3 : Felt) * layerPoint L q * FIELD_GENERATOR_INVERSE = layerPoint L q := by
      linear_combination (layerPoint L q) * field_generator_inverse
    simp only [List.map_cons, gatherFirstLayer, hsh, ih, felt_zero_lit,
      if_neg (layerPoint_ne_zero L hL q), Felt.inv_eq]
    rfl

/-! ### (d) the last layer -/

theorem verifyLastLayer_honest (last : List Felt) (N L : ℕ) (hL : L ≤ 192) (hN : last.length ≤ N)
    (Q : List ℕ) :
    verifyLastLayer (honestQueries last L Q) ((List.range N).map fun i => last.getD i 0) = .ok () := by
  rw [verifyLastLayer_ok_iff]
  · intro q hq
    obtain ⟨idx, _, rfl⟩ := List.mem_map.mp hq
    simp only [inv_inv]
    exact evalL_pad last _ N hN
  · intro q hq
    obtain ⟨idx, _, rfl⟩ := List.mem_map.mp hq
    exact inv_ne_zero (layerPoint_ne_zero L hL idx)

/-! ### assembly -/

section
variable (H : Hashes) (nf : Felt) (steps : List ℕ) (lastBound logNCosets : ℕ) (cs : List Felt)
  (Q : List ℕ) (t : Transcript)

/-- the layer run of `friProveSpec` -/
def specRun := friLayersSpec H nf steps (steps.sum + lastBound + logNCosets) cs Q t

/-- the last-layer coefficients sent by `friProveSpec` -/
def specLastCoefs : List Felt :=
  (List.range (2 ^ lastBound)).map fun i => (specRun H nf steps lastBound logNCosets cs Q t).2.2.2.1.getD i 0

theorem friProveSpec_eq :
    friProveSpec H nf steps lastBound logNCosets cs Q t =
      ⟨(specRun H nf steps lastBound logNCosets cs Q t).1,
       specLastCoefs H nf steps lastBound logNCosets cs Q t,
       (specRun H nf steps lastBound logNCosets cs Q t).2.1,
       Q.map fun q => evalL cs (layerPoint (steps.sum + lastBound + logNCosets) q),
       Q.map fun q => (3 : Felt) * layerPoint (steps.sum + lastBound + logNCosets) q,
       (specRun H nf steps lastBound logNCosets cs Q t).2.2.1,
       (specRun H nf steps lastBound logNCosets cs Q t).2.2.2.2.readFeltVector H
         (specLastCoefs H nf steps lastBound logNCosets cs Q t)⟩ := by
  unfold friProveSpec specLastCoefs specRun
  simp only [foldl_add_eq_sum_nat]

/-- the commitment the verifier derives -/
def specCommitment : Commitment :=
  ⟨friConfig nf steps lastBound logNCosets,
   mkComms (innerCfgs nf steps (steps.sum + lastBound + logNCosets))
     (specRun H nf steps lastBound logNCosets cs Q t).1,
   (specRun H nf steps lastBound logNCosets cs Q t).2.1,
   specLastCoefs H nf steps lastBound logNCosets cs Q t⟩

/-- (a) `fri_commit` replays the prover's transcript: same final transcript state, the verifier's
    evaluation points are the prover's challenges. -/
theorem commit_spec (hlen : steps.length ≤ 14) (hlb : lastBound ≤ 15) :
    Fri.commit H t (friProveSpec H nf steps lastBound logNCosets cs Q t).roots
        (friProveSpec H nf steps lastBound logNCosets cs Q t).lastCoefs
        (friConfig nf steps lastBound logNCosets)
      = .ok ((friProveSpec H nf steps lastBound logNCosets cs Q t).transcript,
             specCommitment H nf steps lastBound logNCosets cs Q t) := by
  have hnl : (Felt.ofNat (steps.length + 1)).val = steps.length + 1 := ofNat_val_of_lt _ (by omega)
  have hnl1 := ofNat_succ_sub_one_val steps.length (by omega)
  rw [friProveSpec_eq]
  unfold Fri.commit specCommitment
  rw [friConfig_eq]
  simp only [hnl, hnl1]
  rw [if_neg (by omega), if_neg (by omega)]
  have := commitRounds_spec H nf steps (steps.sum + lastBound + logNCosets) cs Q t
    (innerCfgs nf steps (steps.sum + lastBound + logNCosets)) (innerCfgs_length ..)
  unfold specRun
  rw [this]
  simp only []
  rw [if_neg (by
    rw [cosetSize_eq lastBound (by omega)]
    simp [specLastCoefs, Felt.ofNat_eq_cast])]

/-- (b)–(d) `fri_verify` accepts the honest decommitment. -/
theorem verify_spec (hlen : steps.length ≤ 14) (hsteps : ∀ s ∈ steps, 1 ≤ s ∧ s ≤ 4)
    (hlb : lastBound ≤ 15) (hL : steps.sum + lastBound + logNCosets ≤ 64)
    (hdeg : cs.length ≤ 2 ^ (steps.sum + lastBound))
    (hQne : Q ≠ []) (hQ : Q.Pairwise (· < ·))
    (hQb : ∀ q ∈ Q, q < 2 ^ (steps.sum + lastBound + logNCosets)) :
    Fri.verify H (Q.map Felt.ofNat) (specCommitment H nf steps lastBound logNCosets cs Q t)
        (friProveSpec H nf steps lastBound logNCosets cs Q t).values
        (friProveSpec H nf steps lastBound logNCosets cs Q t).points
        ((friProveSpec H nf steps lastBound logNCosets cs Q t).layers.map fun l => ⟨l.leaves, l.auths⟩)
      = .ok () := by
  have hnl1 := ofNat_succ_sub_one_val steps.length (by omega)
  obtain ⟨Q', hQ'⟩ := verifyLayers_spec H nf steps (steps.sum + lastBound + logNCosets) cs Q t hsteps
    (by omega) hL hQne hQ hQb
  have hlast := last_length_le H nf steps (steps.sum + lastBound + logNCosets) cs Q t lastBound hdeg
  rw [friProveSpec_eq]
  unfold Fri.verify specCommitment
  rw [friConfig_eq]
  simp only [List.length_map, ne_eq, not_true_eq_false, if_false]
  rw [gatherFirstLayer_honest cs _ (by omega) Q]
  simp only [List.length_cons, hnl1]
  rw [if_neg (by omega), if_neg (by omega)]
  unfold specRun
  simp only [List.drop_one, List.tail_cons]
  rw [hQ']
  simp only []
  rw [if_neg (by
    rw [cosetSize_eq lastBound (by omega)]
    simp [specLastCoefs, Felt.ofNat_eq_cast])]
  have := verifyLastLayer_honest _ (2 ^ lastBound)
    (steps.sum + lastBound + logNCosets - steps.sum) (by omega) hlast Q'
  unfold specLastCoefs specRun
  rw [this]

end

end Swiftness.Proofs.FriComplete
