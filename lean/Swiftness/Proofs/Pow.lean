/-
  Helper lemmas for C09 (proof of work): big-endian byte strings, leading zero bits, the
  no-wrap facts about the 128-bit comparison in `verify_pow`.
-/
import Swiftness.Model.Pow
import Swiftness.Spec.PowSpec
import Swiftness.Proofs.FeltField

namespace Swiftness.Proofs.PowLemmas
open Swiftness Swiftness.Spec
attribute [-instance] Fin.instOfNat

/-! ### big-endian byte strings -/

theorem natOfBytesBE_foldl (bs : List UInt8) (a : ℕ) :
    bs.foldl (fun acc b => acc * 256 + b.toNat) a =
      a * 256 ^ bs.length + Felt.natOfBytesBE bs := by
  unfold Felt.natOfBytesBE
  induction bs generalizing a with
  | nil => simp
  | cons b bs ih =>
    simp only [List.foldl_cons, List.length_cons]
    rw [ih (a * 256 + b.toNat), ih (0 * 256 + b.toNat)]
    ring

theorem natOfBytesBE_nil : Felt.natOfBytesBE [] = 0 := rfl

theorem natOfBytesBE_cons (b : UInt8) (bs : List UInt8) :
    Felt.natOfBytesBE (b :: bs) = b.toNat * 256 ^ bs.length + Felt.natOfBytesBE bs := by
  have h := natOfBytesBE_foldl bs (0 * 256 + b.toNat)
  simpa only [Felt.natOfBytesBE, List.foldl_cons, Nat.zero_mul, Nat.zero_add] using h

theorem natOfBytesBE_append_singleton (bs : List UInt8) (b : UInt8) :
    Felt.natOfBytesBE (bs ++ [b]) = Felt.natOfBytesBE bs * 256 + b.toNat := by
  unfold Felt.natOfBytesBE
  simp [List.foldl_append]

theorem natOfBytesBE_lt (bs : List UInt8) : Felt.natOfBytesBE bs < 256 ^ bs.length := by
  induction bs with
  | nil => simp [natOfBytesBE_nil]
  | cons b bs ih =>
    rw [natOfBytesBE_cons, List.length_cons, pow_succ]
    have hb : b.toNat < 256 := b.toNat_lt
    nlinarith

theorem natToBytesBE_length (len n : ℕ) : (Felt.natToBytesBE len n).length = len := by
  induction len generalizing n with
  | zero => rfl
  | succ k ih => simp [Felt.natToBytesBE, ih]

theorem natOfBytesBE_natToBytesBE (len n : ℕ) :
    Felt.natOfBytesBE (Felt.natToBytesBE len n) = n % 256 ^ len := by
  induction len generalizing n with
  | zero => simp [Felt.natToBytesBE, natOfBytesBE_nil, Nat.mod_one]
  | succ k ih =>
    rw [Felt.natToBytesBE, natOfBytesBE_append_singleton, ih]
    have h1 : (UInt8.ofNat (n % 256)).toNat = n % 256 := by
      rw [UInt8.toNat_ofNat']; omega
    rw [h1, pow_succ, Nat.mul_comm (256 ^ k) 256, Nat.mod_mul]
    ring

theorem be64_length (n : ℕ) : (Pow.be64 n).length = 8 := natToBytesBE_length 8 n

theorem be64_roundtrip (n : ℕ) (h : n < 2 ^ 64) : Felt.natOfBytesBE (Pow.be64 n) = n := by
  unfold Pow.be64
  rw [natOfBytesBE_natToBytesBE]
  exact Nat.mod_eq_of_lt (by norm_num at h ⊢; exact h)

theorem be64_magic : Pow.be64 Pow.MAGIC = [0x01, 0x23, 0x45, 0x67, 0x89, 0xab, 0xcd, 0xed] := by
  decide +kernel

theorem initData_eq (digest : List UInt8) (n : ℕ) :
    Pow.initData digest n =
      [0x01, 0x23, 0x45, 0x67, 0x89, 0xab, 0xcd, 0xed] ++ digest ++ [UInt8.ofNat n] := by
  unfold Pow.initData
  rw [be64_magic]

/-! ### leading zero bits -/

/-- justification of `clz8`: a non-zero byte is below `2^(8-k)` iff it has at least `k` leading zeros -/
theorem clz8_spec (b : UInt8) (hb : b ≠ 0) (k : ℕ) (hk : k ≤ 8) :
    b.toNat < 2 ^ (8 - k) ↔ k ≤ clz8 b := by
  have hb0 : b.toNat ≠ 0 := by
    intro h; apply hb; exact UInt8.toNat_inj.mp (by simpa using h)
  have hlt : b.toNat < 2 ^ 8 := b.toNat_lt
  have h8 : Nat.log2 b.toNat < 8 := (Nat.log2_lt hb0).mpr hlt
  unfold clz8
  rw [← Nat.log2_lt hb0]
  omega

theorem clz8_le (b : UInt8) : clz8 b ≤ 7 := by unfold clz8; omega

/-- key lemma: the first `m` bytes, read big-endian, are below `2^(8m-k)` iff the string starts
    with at least `k` zero bits (`k ≤ 8m ≤ 8·length`). -/
theorem take_lt_iff (bs : List UInt8) (m k : ℕ) (hm : m ≤ bs.length) (hk : k ≤ 8 * m) :
    Felt.natOfBytesBE (bs.take m) < 2 ^ (8 * m - k) ↔ k ≤ leadingZeroBits bs := by
  induction bs generalizing m k with
  | nil =>
    have : m = 0 := by simpa using hm
    subst this
    have : k = 0 := by omega
    subst this
    simp [natOfBytesBE_nil]
  | cons b bs ih =>
    cases m with
    | zero =>
      have : k = 0 := by omega
      subst this
      simp [natOfBytesBE_nil]
    | succ m =>
      have hm' : m ≤ bs.length := by simpa using hm
      rw [List.take_succ_cons, natOfBytesBE_cons]
      have hlen : (bs.take m).length = m := by simp [hm']
      rw [hlen]
      have hr : Felt.natOfBytesBE (bs.take m) < 256 ^ m := by
        have := natOfBytesBE_lt (bs.take m); rwa [hlen] at this
      have h256 : (256 : ℕ) ^ m = 2 ^ (8 * m) := by rw [pow_mul]; norm_num
      rw [h256] at hr ⊢
      unfold leadingZeroBits
      by_cases hb : b = 0
      · subst hb
        simp only [if_true]
        have h0 : (0 : UInt8).toNat = 0 := rfl
        rw [h0, Nat.zero_mul, Nat.zero_add]
        by_cases hk8 : k ≤ 8
        · constructor
          · intro _; omega
          · intro _
            exact lt_of_lt_of_le hr (Nat.pow_le_pow_right (by norm_num) (by omega))
        · have hk' : k - 8 ≤ 8 * m := by omega
          have he : 8 * (m + 1) - k = 8 * m - (k - 8) := by omega
          rw [he, ih m (k - 8) hm' hk']
          omega
      · simp only [if_neg hb]
        have hb0 : b.toNat ≠ 0 := by
          intro h; apply hb; exact UInt8.toNat_inj.mp (by simpa using h)
        have hc := clz8_le b
        by_cases hk8 : k ≤ 8
        · rw [← clz8_spec b hb k hk8]
          have he : 8 * (m + 1) - k = (8 - k) + 8 * m := by omega
          rw [he, pow_add]
          generalize Felt.natOfBytesBE (bs.take m) = r at hr
          generalize (2 : ℕ) ^ (8 * m) = X at hr
          generalize (2 : ℕ) ^ (8 - k) = Y
          constructor
          · intro h
            by_contra hcon
            have : Y ≤ b.toNat := by omega
            have : Y * X ≤ b.toNat * X := Nat.mul_le_mul_right X this
            omega
          · intro h
            have : (b.toNat + 1) * X ≤ Y * X := Nat.mul_le_mul_right X h
            have e : (b.toNat + 1) * X = b.toNat * X + X := by ring
            omega
        · constructor
          · intro h
            exfalso
            have h1 : (2 : ℕ) ^ (8 * (m + 1) - k) ≤ 2 ^ (8 * m) :=
              Nat.pow_le_pow_right (by norm_num) (by omega)
            have h2 : 1 * 2 ^ (8 * m) ≤ b.toNat * 2 ^ (8 * m) :=
              Nat.mul_le_mul_right _ (by omega)
            omega
          · intro h; omega

/-! ### the 128-bit comparison does not wrap -/

theorem two_pow_128_lt_P : (2 : ℕ) ^ 128 < P := by decide +kernel

theorem fromBytesBE_val (bs : List UInt8) (h : bs.length ≤ 16) :
    (Felt.fromBytesBE bs).val = Felt.natOfBytesBE bs := by
  unfold Felt.fromBytesBE
  rw [Felt.ofNat_eq_cast]
  apply Felt.val_cast_of_lt
  have h1 := natOfBytesBE_lt bs
  have h2 : (256 : ℕ) ^ bs.length ≤ 256 ^ 16 := Nat.pow_le_pow_right (by norm_num) h
  have h3 : (256 : ℕ) ^ 16 = 2 ^ 128 := by norm_num
  have := two_pow_128_lt_P
  omega

theorem pow2_val (k : ℕ) (hk : k ≤ 128) :
    (Felt.pow (@OfNat.ofNat Felt 2 Fin.instOfNat) k).val = 2 ^ k := by
  have hk256 : k < 2 ^ 256 := lt_of_le_of_lt hk (by norm_num)
  rw [Felt.pow_eq _ _ hk256, felt_ofNat]
  have : ((2 : ℕ) : Felt) ^ k = ((2 ^ k : ℕ) : Felt) := by push_cast; rfl
  rw [this]
  apply Felt.val_cast_of_lt
  have h2 : (2 : ℕ) ^ k ≤ 2 ^ 128 := Nat.pow_le_pow_right (by norm_num) hk
  have := two_pow_128_lt_P
  omega

/-! ### `verify_pow` -/

theorem verifyPow_eq (H : Hashes) (digest : List UInt8) (n nonce : ℕ) (hn : n ≤ 128) :
    Pow.verifyPow H digest n nonce =
      if Felt.natOfBytesBE ((Pow.finalHash H digest n nonce).take 16) < 2 ^ (128 - n) then .ok ()
      else .err "ProofOfWorkFail" := by
  unfold Pow.verifyPow
  simp only []
  rw [if_neg (by omega), fromBytesBE_val _ (by simp), pow2_val _ (by omega)]

theorem finalHash_length (H : Hashes) (hlen : ∀ x, (H.h256 x).length = 32)
    (digest : List UInt8) (n nonce : ℕ) : (Pow.finalHash H digest n nonce).length = 32 := by
  unfold Pow.finalHash; exact hlen _

theorem verifyPow_ok_iff (H : Hashes) (hlen : ∀ x, (H.h256 x).length = 32)
    (digest : List UInt8) (n nonce : ℕ) (hn : n ≤ 128) :
    Pow.verifyPow H digest n nonce = .ok () ↔
      n ≤ leadingZeroBits (Pow.finalHash H digest n nonce) := by
  rw [verifyPow_eq H digest n nonce hn]
  have hl := finalHash_length H hlen digest n nonce
  have key := take_lt_iff (Pow.finalHash H digest n nonce) 16 n (by omega) (by omega)
  rw [show 8 * 16 - n = 128 - n from by omega] at key
  rw [← key]
  split <;> simp_all

theorem verifyPow_not_ok (H : Hashes) (digest : List UInt8) (n nonce : ℕ) (hn : n ≤ 128)
    (h : Pow.verifyPow H digest n nonce ≠ .ok ()) :
    Pow.verifyPow H digest n nonce = .err "ProofOfWorkFail" := by
  rw [verifyPow_eq H digest n nonce hn] at h ⊢
  split <;> simp_all

theorem verifyPow_panic (H : Hashes) (digest : List UInt8) (n nonce : ℕ) (hn : n > 128) :
    Pow.verifyPow H digest n nonce = .panic "pow.rs:verify_pow:sub_overflow" := by
  unfold Pow.verifyPow
  simp only []
  rw [if_pos hn]

theorem configValidate_eq (n : ℕ) :
    Pow.configValidate n = if 20 ≤ n ∧ n ≤ 50 then .ok () else .err "OutOfBounds" := by
  unfold Pow.configValidate
  have h1 : Pow.MIN_BITS = 20 := rfl
  have h2 : Pow.MAX_BITS = 50 := rfl
  rw [h1, h2]
  by_cases h : 20 ≤ n ∧ n ≤ 50
  · rw [if_pos h, if_neg (by omega)]
  · rw [if_neg h, if_pos (by omega)]

theorem configValidate_ok_iff (n : ℕ) : Pow.configValidate n = .ok () ↔ 20 ≤ n ∧ n ≤ 50 := by
  rw [configValidate_eq]; split <;> simp_all

theorem configValidate_no_panic (n : ℕ) (s : String) : Pow.configValidate n ≠ .panic s := by
  rw [configValidate_eq]; split <;> simp

theorem commit_ok_iff (H : Hashes) (t t' : Transcript) (n nonce : ℕ) :
    Pow.commit H t n nonce = .ok t' ↔
      (Pow.verifyPow H t.digest.toBytesBE n nonce = .ok () ∧ t' = t.readU64 H nonce) := by
  unfold Pow.commit
  cases h : Pow.verifyPow H t.digest.toBytesBE n nonce with
  | ok u => cases u; simp [eq_comm]
  | err e => simp
  | panic s => simp

end Swiftness.Proofs.PowLemmas
