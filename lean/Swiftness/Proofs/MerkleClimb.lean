/-
  `climb`: the pure layer-by-layer evaluation; equals the model walk (`run_eq_climb`), is complete
  for honest inputs (`climb_honest`, Lemma C) and sound down from an equal root up to an explicit
  collision (`climb_sound`, Lemma D).  Core Lean only.
-/
import Swiftness.Proofs.MerkleWalk

namespace Swiftness.Proofs.Merkle

open Swiftness Swiftness.Merkle Swiftness.Vector

variable {H : Hashes} {nf : Felt}

/-- iterate `layerStep` from depth `d` up to the root -/
def climb (H : Hashes) (nf : Felt) : Nat → List Node → List Felt → Option (Felt × List Felt)
  | 0, L, a =>
    match L with
    | [n] => some (n.2, a)
    | _ => none
  | d + 1, L, a =>
    match layerStep H (decide (nf.val ≥ d + 1)) L a with
    | none => none
    | some (L', a') => climb H nf d L' a'

/-- shape of a successful layer step: the parents' indices, and the number of consumed siblings -/
theorem layerStep_shape {fr : Bool} {L : List Node} {a : List Felt} {L' : List Node}
    {a' : List Felt} (hs : layerStep H fr L a = some (L', a')) :
    L'.map Prod.fst = parents (L.map Prod.fst) ∧
      a.length = (siblings (L.map Prod.fst)).length + a'.length := by
  fun_induction layerStep H fr L a generalizing L' a' with
  | case1 a => simp at hs; obtain ⟨rfl, rfl⟩ := hs; simp [parents, siblings]
  | case2 i x => simp at hs
  | case3 i x s a'' =>
    simp at hs; obtain ⟨rfl, rfl⟩ := hs; simp [parents, siblings]; omega
  | case4 i x j y t a hc ih =>
    cases hr : layerStep H fr t a with
    | none => simp [hr] at hs
    | some r =>
      obtain ⟨r1, r2⟩ := r
      simp [hr] at hs; obtain ⟨rfl, rfl⟩ := hs
      have := ih hr
      simp [parents, siblings, hc, this.1, this.2]
  | case5 i x j y t hc => simp at hs
  | case6 i x j y t hc s a'' ih =>
    cases hr : layerStep H fr ((j, y) :: t) a'' with
    | none => simp [hr] at hs
    | some r =>
      obtain ⟨r1, r2⟩ := r
      simp [hr] at hs; obtain ⟨rfl, rfl⟩ := hs
      have := ih hr
      simp only [List.map_cons] at this
      simp [parents, siblings, hc, this.1, this.2]
      omega

theorem ofNat_succ_sub_one {d : Nat} (hd : d + 1 < 2 ^ 251) :
    Felt.ofNat (d + 1) - 1 = Felt.ofNat d := by
  apply Fin.ext
  rw [Fin.val_sub, ofNat_val hd, ofNat_val (by omega), one_val]
  have hP := two251_lt_P
  have : P - 1 + (d + 1) = P + d := by omega
  rw [this, Nat.add_mod_left]
  exact Nat.mod_eq_of_lt (by omega)

theorem lt_two251_of_le {d : Nat} (hd : d ≤ 250) : d + 1 < 2 ^ 251 := by
  have : (251 : Nat) < 2 ^ 251 := by decide +kernel
  omega

/-- the model walk on a nonempty layer of depth `d` is `climb` -/
theorem run_eq_climb : ∀ (d : Nat), d ≤ 250 → ∀ (L : List Node) (a : List Felt),
    L ≠ [] → Layer d (L.map Prod.fst) →
    run H nf (L.map (toQD (Felt.ofNat d))) a =
      match climb H nf d L a with
      | none => .err "IndexInvalid"
      | some (v, _) => .ok v := by
  intro d
  induction d with
  | zero =>
    intro _ L a hne hL
    have h1 := hL.zero_eq (by simpa using hne)
    match L, h1 with
    | [(i, v)], h1 =>
      simp at h1; subst h1
      simp only [climb, List.map_cons, List.map_nil]
      exact run_root (by rfl) _ _
  | succ d ih =>
    intro hd L a hne hL
    have hw := walk_layer (H := H) (nf := nf) (D := d + 1) (by omega) hd (Felt.ofNat (d + 1))
      L a [] hL (by simp)
    simp only [List.append_nil, List.nil_append] at hw
    have hd' : d + 1 < 2 ^ 251 := by have := lt_two251_of_le hd; omega
    rw [hw, ofNat_val hd', ofNat_succ_sub_one hd']
    simp only [climb]
    cases hs : layerStep H (decide (nf.val ≥ d + 1)) L a with
    | none => rfl
    | some r =>
      obtain ⟨L', a'⟩ := r
      simp only
      have hsh := layerStep_shape hs
      have hL' : Layer d (L'.map Prod.fst) := by rw [hsh.1]; exact hL.parents
      have hne' : L' ≠ [] := by
        intro h0
        have : parents (L.map Prod.fst) = [] := by rw [← hsh.1, h0]; rfl
        exact parents_ne_nil (by simpa using hne) this
      exact ih (by omega) L' a' hne' hL'

/-! ### honest inputs (Lemma C) -/

/-- the nodes of the committed tree at the heap indices `I`, `k` levels above the leaves -/
def honest (H : Hashes) (nf : Felt) (h : Nat) (leaf : Nat → Felt) (k : Nat) (I : List Nat) :
    List Node :=
  I.map fun i => (i, nodeAt H nf h leaf k i)

theorem honest_fst {h : Nat} {leaf : Nat → Felt} (k : Nat) (I : List Nat) :
    (honest H nf h leaf k I).map Prod.fst = I := by
  simp [honest, Function.comp_def]

theorem nodeAt_even {h : Nat} {leaf : Nat → Felt} {k i : Nat} {fr : Bool}
    (hfr : decide (nf.val ≥ h - k) = fr) (hi : i % 2 = 0) :
    hashFU H (nodeAt H nf h leaf k i) (nodeAt H nf h leaf k (i + 1)) fr =
      nodeAt H nf h leaf (k + 1) (i / 2) := by
  have h1 : 2 * (i / 2) = i := by omega
  simp only [nodeAt, h1, hfr]

theorem nodeAt_odd {h : Nat} {leaf : Nat → Felt} {k i : Nat} {fr : Bool}
    (hfr : decide (nf.val ≥ h - k) = fr) (hi : ¬ i % 2 = 0) :
    hashFU H (nodeAt H nf h leaf k (i - 1)) (nodeAt H nf h leaf k i) fr =
      nodeAt H nf h leaf (k + 1) (i / 2) := by
  have h1 : 2 * (i / 2) = i - 1 := by omega
  have h2 : i - 1 + 1 = i := by omega
  simp only [nodeAt, h1, h2, hfr]

theorem layerStep_honest {h : Nat} {leaf : Nat → Felt} (k : Nat) (I : List Nat)
    (rest : List Felt) :
    layerStep H (decide (nf.val ≥ h - k)) (honest H nf h leaf k I)
        ((siblings I).map (nodeAt H nf h leaf k) ++ rest) =
      some (honest H nf h leaf (k + 1) (parents I), rest) := by
  generalize hfr : decide (nf.val ≥ h - k) = fr
  fun_induction parents I with
  | case1 => simp [honest, layerStep, siblings]
  | case2 i =>
    by_cases hi : i % 2 = 0
    · simp [honest, layerStep, siblings, sibling, hi, nodeAt_even hfr hi]
    · simp [honest, layerStep, siblings, sibling, hi, nodeAt_odd hfr hi]
  | case3 i j t hc ih =>
    simp only [honest, List.map_cons] at ih ⊢
    simp only [layerStep, siblings, hc, and_self, if_true, ih]
    obtain ⟨hi, rfl⟩ := hc
    simp [nodeAt_even hfr hi]
  | case4 i j t hc ih =>
    simp only [honest, List.map_cons] at ih ⊢
    simp only [layerStep, siblings, hc, if_false, List.map_cons, List.cons_append, ih]
    by_cases hi : i % 2 = 0
    · simp [sibling, hi, nodeAt_even hfr hi]
    · simp [sibling, hi, nodeAt_odd hfr hi]

theorem climb_honest {h : Nat} {leaf : Nat → Felt} : ∀ (d k : Nat), d + k = h →
    ∀ (I : List Nat) (extra : List Felt), I ≠ [] → Layer d I →
    climb H nf d (honest H nf h leaf k I) (authLayers H nf h leaf d k I ++ extra) =
      some (root H nf h leaf, extra) := by
  intro d
  induction d with
  | zero =>
    intro k hk I extra hne hL
    have := hL.zero_eq hne
    subst this
    have : k = h := by omega
    subst this
    simp [climb, honest, authLayers, root]
  | succ d ih =>
    intro k hk I extra hne hL
    have hfr : h - k = d + 1 := by omega
    simp only [climb, authLayers, List.append_assoc]
    rw [← hfr, layerStep_honest]
    exact ih (k + 1) (by omega) _ _ (parents_ne_nil hne) hL.parents

/-! ### soundness (Lemma D) -/

def IsHonest (H : Hashes) (nf : Felt) (h : Nat) (leaf : Nat → Felt) (k : Nat) (L : List Node) :
    Prop :=
  ∀ n ∈ L, n.2 = nodeAt H nf h leaf k n.1

theorem pair_or_collision {x y x' y' : Felt} {f : Bool}
    (he : hashFU H x y f = hashFU H x' y' f) : (x = x' ∧ y = y') ∨ Collision H := by
  by_cases hp : (x, y) = (x', y')
  · left; simpa using hp
  · right; exact ⟨x, y, x', y', f, hp, he⟩

theorem layerStep_sound {h : Nat} {leaf : Nat → Felt} {k : Nat} {L : List Node} {a : List Felt}
    {L' : List Node} {a' : List Felt}
    (hs : layerStep H (decide (nf.val ≥ h - k)) L a = some (L', a'))
    (hh : IsHonest H nf h leaf (k + 1) L') :
    (IsHonest H nf h leaf k L ∧
        a = (siblings (L.map Prod.fst)).map (nodeAt H nf h leaf k) ++ a') ∨ Collision H := by
  generalize hfr : decide (nf.val ≥ h - k) = fr at hs
  fun_induction layerStep H fr L a generalizing L' a' with
  | case1 a =>
    simp at hs; obtain ⟨rfl, rfl⟩ := hs
    left; simp [IsHonest, siblings]
  | case2 i x => simp at hs
  | case3 i x s a'' =>
    simp at hs; obtain ⟨rfl, rfl⟩ := hs
    have hv := hh _ (List.mem_singleton_self _)
    simp only at hv
    by_cases hi : i % 2 = 0
    · simp only [hi, if_true] at hv
      rw [← nodeAt_even hfr hi] at hv
      rcases pair_or_collision hv with ⟨rfl, rfl⟩ | hc
      · left; simp [IsHonest, siblings, sibling, hi]
      · right; exact hc
    · simp only [hi, if_false] at hv
      rw [← nodeAt_odd hfr hi] at hv
      rcases pair_or_collision hv with ⟨rfl, rfl⟩ | hc
      · left; simp [IsHonest, siblings, sibling, hi]
      · right; exact hc
  | case4 i x j y t a hc ih =>
    cases hr : layerStep H fr t a with
    | none => simp [hr] at hs
    | some r =>
      obtain ⟨r1, r2⟩ := r
      simp [hr] at hs; obtain ⟨rfl, rfl⟩ := hs
      have hv := hh _ (List.mem_cons_self ..)
      simp only at hv
      have hh' : IsHonest H nf h leaf (k + 1) r1 := fun n hn => hh n (List.mem_cons_of_mem _ hn)
      obtain ⟨hi, rfl⟩ := hc
      rw [← nodeAt_even hfr hi] at hv
      rcases ih hh' hr with ⟨h1, h2⟩ | hc
      · rcases pair_or_collision hv with ⟨rfl, rfl⟩ | hc
        · left
          refine ⟨?_, ?_⟩
          · intro n hn
            simp only [List.mem_cons] at hn
            rcases hn with rfl | rfl | hn
            · rfl
            · rfl
            · exact h1 n hn
          · simp [siblings, hi, h2]
        · right; exact hc
      · right; exact hc
  | case5 i x j y t hc => simp at hs
  | case6 i x j y t hc s a'' ih =>
    cases hr : layerStep H fr ((j, y) :: t) a'' with
    | none => simp [hr] at hs
    | some r =>
      obtain ⟨r1, r2⟩ := r
      simp [hr] at hs; obtain ⟨rfl, rfl⟩ := hs
      have hv := hh _ (List.mem_cons_self ..)
      simp only at hv
      have hh' : IsHonest H nf h leaf (k + 1) r1 := fun n hn => hh n (List.mem_cons_of_mem _ hn)
      rcases ih hh' hr with ⟨h1, h2⟩ | hcol
      · by_cases hi : i % 2 = 0
        · simp only [hi, if_true] at hv
          rw [← nodeAt_even hfr hi] at hv
          rcases pair_or_collision hv with ⟨rfl, rfl⟩ | hcol
          · left
            refine ⟨?_, ?_⟩
            · intro n hn
              rcases List.mem_cons.1 hn with rfl | hn
              · rfl
              · exact h1 n hn
            · simp only [List.map_cons] at h2
              have hne : ¬ (i + 1 = j) := fun e => hc ⟨hi, e⟩
              simp [siblings, hne, sibling, hi, h2]
          · right; exact hcol
        · simp only [hi, if_false] at hv
          rw [← nodeAt_odd hfr hi] at hv
          rcases pair_or_collision hv with ⟨rfl, rfl⟩ | hcol
          · left
            refine ⟨?_, ?_⟩
            · intro n hn
              rcases List.mem_cons.1 hn with rfl | hn
              · rfl
              · exact h1 n hn
            · simp only [List.map_cons] at h2
              simp [siblings, sibling, hi, h2]
          · right; exact hcol
      · right; exact hcol

theorem climb_sound {h : Nat} {leaf : Nat → Felt} : ∀ (d k : Nat), d + k = h →
    ∀ (L : List Node) (a : List Felt) (rest : List Felt), Layer d (L.map Prod.fst) →
    climb H nf d L a = some (root H nf h leaf, rest) →
    (IsHonest H nf h leaf k L ∧ a = authLayers H nf h leaf d k (L.map Prod.fst) ++ rest) ∨
      Collision H := by
  intro d
  induction d with
  | zero =>
    intro k hk L a rest hL hc
    have : k = h := by omega
    subst this
    match L, hc with
    | [n], hc =>
      simp only [climb, Option.some.injEq, Prod.mk.injEq] at hc
      obtain ⟨h1, rfl⟩ := hc
      have := hL.zero_eq (by simp)
      simp at this
      left
      refine ⟨?_, by simp [authLayers]⟩
      intro m hm
      simp at hm; subst hm
      rw [h1, this]; rfl
  | succ d ih =>
    intro k hk L a rest hL hc
    have hfr : h - k = d + 1 := by omega
    simp only [climb] at hc
    cases hs : layerStep H (decide (nf.val ≥ d + 1)) L a with
    | none => simp [hs] at hc
    | some r =>
      obtain ⟨L', a'⟩ := r
      simp only [hs] at hc
      have hsh := layerStep_shape hs
      have hL' : Layer d (L'.map Prod.fst) := by rw [hsh.1]; exact hL.parents
      rcases ih (k + 1) (by omega) L' a' rest hL' hc with ⟨h1, h2⟩ | hcol
      · rw [← hfr] at hs
        rcases layerStep_sound hs h1 with ⟨h3, h4⟩ | hcol
        · left
          refine ⟨h3, ?_⟩
          rw [h4, h2, hsh.1]
          simp [authLayers]
        · right; exact hcol
      · right; exact hcol

/-- number of siblings consumed by a successful climb -/
theorem climb_length : ∀ (d : Nat) (L : List Node) (a : List Felt) (v : Felt) (rest : List Felt),
    climb H nf d L a = some (v, rest) →
    ∀ (h : Nat) (leaf : Nat → Felt) (k : Nat),
      a.length = (authLayers H nf h leaf d k (L.map Prod.fst)).length + rest.length := by
  intro d
  induction d with
  | zero =>
    intro L a v rest hc h leaf k
    match L, hc with
    | [n], hc =>
      simp only [climb, Option.some.injEq, Prod.mk.injEq] at hc
      simp [authLayers, hc.2]
  | succ d ih =>
    intro L a v rest hc h leaf k
    simp only [climb] at hc
    cases hs : layerStep H (decide (nf.val ≥ d + 1)) L a with
    | none => simp [hs] at hc
    | some r =>
      obtain ⟨L', a'⟩ := r
      simp only [hs] at hc
      have hsh := layerStep_shape hs
      have := ih L' a' v rest hc h leaf (k + 1)
      simp only [authLayers, List.length_append, List.length_map]
      rw [hsh.1] at this
      omega

end Swiftness.Proofs.Merkle
