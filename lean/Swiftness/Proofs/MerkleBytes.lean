/-
  `Felt.toBytesBE` is injective and 32 bytes long; consequences for the masked-hash preimages
  (core Lean only).
-/
import Swiftness.Model.Felt

namespace Swiftness.Proofs.Merkle
open Swiftness

theorem natToBytesBE_length (len n : Nat) : (Felt.natToBytesBE len n).length = len := by
  induction len generalizing n with
  | zero => rfl
  | succ l ih => simp [Felt.natToBytesBE, ih]

theorem natOfBytesBE_append_single (bs : List UInt8) (b : UInt8) :
    Felt.natOfBytesBE (bs ++ [b]) = Felt.natOfBytesBE bs * 256 + b.toNat := by
  simp [Felt.natOfBytesBE, List.foldl_append]

theorem natOfBytesBE_natToBytesBE (len n : Nat) :
    Felt.natOfBytesBE (Felt.natToBytesBE len n) = n % 256 ^ len := by
  induction len generalizing n with
  | zero => simp [Felt.natToBytesBE, Felt.natOfBytesBE, Nat.mod_one]
  | succ l ih =>
    rw [Felt.natToBytesBE, natOfBytesBE_append_single, ih]
    have h1 : (UInt8.ofNat (n % 256)).toNat = n % 256 := by
      simp [UInt8.toNat_ofNat']
    rw [h1, Nat.pow_succ, Nat.mul_comm (256 ^ l) 256, Nat.mod_mul]
    omega

theorem P_lt_256_pow_32 : P < 256 ^ 32 := by decide +kernel

theorem toBytesBE_length (a : Felt) : a.toBytesBE.length = 32 := natToBytesBE_length 32 _

theorem toBytesBE_injective {a b : Felt} (h : a.toBytesBE = b.toBytesBE) : a = b := by
  have := congrArg Felt.natOfBytesBE h
  simp only [Felt.toBytesBE, natOfBytesBE_natToBytesBE] at this
  have ha : a.val < 256 ^ 32 := Nat.lt_trans a.isLt P_lt_256_pow_32
  have hb : b.val < 256 ^ 32 := Nat.lt_trans b.isLt P_lt_256_pow_32
  rw [Nat.mod_eq_of_lt ha, Nat.mod_eq_of_lt hb] at this
  exact Fin.ext this

theorem maskedHash_preimage_injective {x y x' y' : Felt}
    (h : x.toBytesBE ++ y.toBytesBE = x'.toBytesBE ++ y'.toBytesBE) : x = x' ∧ y = y' := by
  have hl : x.toBytesBE.length = x'.toBytesBE.length := by
    rw [toBytesBE_length, toBytesBE_length]
  obtain ⟨h1, h2⟩ := List.append_inj h hl
  exact ⟨toBytesBE_injective h1, toBytesBE_injective h2⟩

/-- for rows of equal length the concatenated encoding determines the row -/
theorem rowPreimage_injective {r r' : List Felt} (hl : r.length = r'.length)
    (h : r.flatMap Felt.toBytesBE = r'.flatMap Felt.toBytesBE) : r = r' := by
  induction r generalizing r' with
  | nil =>
    cases r' with
    | nil => rfl
    | cons b r' => simp at hl
  | cons a r ih =>
    cases r' with
    | nil => simp at hl
    | cons b r' =>
      simp only [List.flatMap_cons] at h
      have hl' : a.toBytesBE.length = b.toBytesBE.length := by
        rw [toBytesBE_length, toBytesBE_length]
      obtain ⟨h1, h2⟩ := List.append_inj h hl'
      rw [toBytesBE_injective h1, ih (by simpa using hl) h2]

end Swiftness.Proofs.Merkle
