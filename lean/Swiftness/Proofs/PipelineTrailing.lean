/-
  C03 helper lemmas (`verify_ignores_trailing`): authentication data is consumed from the front and
  never checked for exhaustion, so trailing elements appended to any authentication list (and
  trailing FRI layer witnesses) do not change an accepted verdict.  Core Lean only.
-/
import Swiftness.Proofs.PipelineUnfold

namespace Swiftness.Proofs.Pipeline
open Swiftness Swiftness.Vector
variable {H : Hashes} {nf : Felt}

theorem computeRoot_append : ∀ (fuel : Nat) (q : List QD) (a : List Felt) (r : Felt) (k : Nat)
    (e : List Felt), computeRoot H nf fuel q a = .ok r →
    computeRoot H nf (fuel + k) q (a ++ e) = .ok r := by
  intro fuel
  induction fuel with
  | zero => intro q a r k e h; simp [computeRoot] at h
  | succ n ih =>
    intro q a r k e h
    rw [show n + 1 + k = (n + k) + 1 by omega]
    unfold computeRoot at h ⊢
    cases q with
    | nil => simp at h
    | cons cur rest =>
      simp only [] at h ⊢
      by_cases h1 : cur.index = 1
      · simpa [h1] using h
      · simp only [if_neg h1] at h ⊢
        cases a with
        | nil =>
          simp only [List.nil_append] at h ⊢
          by_cases hb : cur.index.val % 2 = 0
          · simp only [if_pos hb] at h ⊢
            cases rest with
            | nil => simp at h
            | cons next rest' =>
              simp only [] at h ⊢
              by_cases hadj : cur.index + 1 = next.index
              · simp only [if_pos hadj] at h ⊢
                simpa using ih _ _ r k e h
              · simp [if_neg hadj] at h
          · simp [if_neg hb] at h
        | cons x a' =>
          simp only [List.cons_append] at h ⊢
          by_cases hb : cur.index.val % 2 = 0
          · simp only [if_pos hb] at h ⊢
            cases rest with
            | nil =>
              simp only [] at h ⊢
              exact ih _ _ r k e h
            | cons next rest' =>
              simp only [] at h ⊢
              by_cases hadj : cur.index + 1 = next.index
              · simp only [if_pos hadj] at h ⊢
                simpa using ih _ _ r k e h
              · simp only [if_neg hadj] at h ⊢
                exact ih _ _ r k e h
          · simp only [if_neg hb] at h ⊢
            exact ih _ _ r k e h

theorem vector_decommit_append (c : Vector.Commitment) (qs : List Vector.Query) (a e : List Felt)
    (h : Vector.decommit H c qs a = .ok ()) : Vector.decommit H c qs (a ++ e) = .ok () := by
  unfold Vector.decommit at h ⊢
  simp only [] at h ⊢
  split at h
  · next r hr =>
    have := computeRoot_append _ _ _ r e.length e hr
    rw [List.length_append, show (List.map _ qs).length + (a.length + e.length) + 1 =
      (List.map (fun q => (⟨q.index + Felt.pow 2 c.config.height.val, q.value, c.config.height⟩ : QD)) qs).length + a.length + 1 + e.length by omega, this]
    exact h
  · simp at h
  · simp at h

theorem table_decommit_append (c : Table.Commitment) (qs vs a e : List Felt)
    (h : Table.decommit H c qs vs a = .ok ()) : Table.decommit H c qs vs (a ++ e) = .ok () := by
  unfold Table.decommit at h ⊢
  simp only [] at h ⊢
  split at h
  · simp at h
  · next h1 =>
    rw [if_neg h1]
    split at h
    · simp at h
    · next h2 =>
      rw [if_neg h2]
      exact vector_decommit_append _ _ _ _ h

/-- append `ef[i]` to the authentication list of the `i`-th FRI layer witness -/
def padLayers : List Fri.LayerWitness → List (List Felt) → List Fri.LayerWitness
  | [], _ => []
  | w :: ws, [] => w :: ws
  | w :: ws, e :: es => ⟨w.leaves, w.auths ++ e⟩ :: padLayers ws es

theorem padLayers_cons (w : Fri.LayerWitness) (ws : List Fri.LayerWitness) (ef : List (List Felt)) :
    ∃ e ef', padLayers (w :: ws) ef = ⟨w.leaves, w.auths ++ e⟩ :: padLayers ws ef' := by
  cases ef with
  | nil =>
    refine ⟨[], [], ?_⟩
    have : ∀ l : List Fri.LayerWitness, padLayers l [] = l := by
      intro l; cases l <;> rfl
    simp [padLayers, this]
  | cons e es => exact ⟨e, es, rfl⟩

theorem verifyLayers_pad : ∀ (n : Nat) (cs : List Table.Commitment) (ws : List Fri.LayerWitness)
    (es steps : List Felt) (qs r : List Fri.LayerQuery) (ef : List (List Felt))
    (more : List Fri.LayerWitness),
    Fri.verifyLayers H n cs ws es steps qs = .ok r →
    Fri.verifyLayers H n cs (padLayers ws ef ++ more) es steps qs = .ok r := by
  intro n
  induction n with
  | zero => intro cs ws es steps qs r ef more h; simpa [Fri.verifyLayers] using h
  | succ n ih =>
    intro cs ws es steps qs r ef more h
    cases ws with
    | nil => simp [Fri.verifyLayers] at h
    | cons w ws' =>
      obtain ⟨e, ef', hpad⟩ := padLayers_cons w ws' ef
      rw [hpad, List.cons_append]
      unfold Fri.verifyLayers at h ⊢
      simp only [] at h ⊢
      cases cs with
      | nil => simp at h
      | cons c cs' =>
        cases steps with
        | nil => simp at h
        | cons st steps' =>
          cases es with
          | nil => simp at h
          | cons ev es' =>
            simp only [] at h ⊢
            split at h
            · next nl hnl =>
              split at h
              · next hdec =>
                rw [table_decommit_append _ _ _ _ e hdec]
                exact ih _ _ _ _ _ _ _ _ h
              · simp at h
              · simp at h
            · simp at h
            · simp at h

theorem fri_verify_pad {queries : List Felt} {c : Fri.Commitment} {values points : List Felt}
    {w : List Fri.LayerWitness} (ef : List (List Felt)) (more : List Fri.LayerWitness)
    (h : Fri.verify H queries c values points w = .ok ()) :
    Fri.verify H queries c values points (padLayers w ef ++ more) = .ok () := by
  unfold Fri.verify at h ⊢
  split at h
  · simp at h
  · next hl =>
    rw [if_neg hl]
    split at h
    · next fq hfq =>
      split at h
      · simp at h
      · next h1 =>
        rw [if_neg h1]
        split at h
        · simp at h
        · next h2 =>
          rw [if_neg h2]
          split at h
          · next last hlast =>
            rw [verifyLayers_pad _ _ _ _ _ _ _ ef more hlast]
            exact h
          · simp at h
          · simp at h
    · simp at h
    · simp at h

/-- the proof with trailing authentication data appended -/
def padProof (p : Stark.Proof) (e1 e2 e3 : List Felt) (ef : List (List Felt))
    (more : List Fri.LayerWitness) : Stark.Proof :=
  { p with witness :=
    { p.witness with
      tracesOriginalAuths := p.witness.tracesOriginalAuths ++ e1
      tracesInteractionAuths := p.witness.tracesInteractionAuths ++ e2
      compositionAuths := p.witness.compositionAuths ++ e3
      friLayers := padLayers p.witness.friLayers ef ++ more } }

theorem verify_padProof {L : LayoutOps} {stone6 : Bool} {p : Stark.Proof} {sec : Felt}
    {r : Felt × Felt} (hok : Stark.verify L H stone6 p sec = .ok r) (e1 e2 e3 : List Felt)
    (ef : List (List Felt)) (more : List Fri.LayerWitness) :
    Stark.verify L H stone6 (padProof p e1 e2 e3 ef more) sec = .ok r := by
  obtain ⟨n1, n2, d, t', c, qs, tq, A⟩ := verify_ok_elim hok
  obtain ⟨h1, h2, h3, h4, points, evals, h5, h6, h7⟩ := verifyPhase_ok_elim A.phase
  refine verify_ok_intro (n1 := n1) (n2 := n2) (d := d) (t' := t') (c := c) (queries := qs)
    (tq := tq) ⟨A.cols1, A.cols2, A.config, A.domains, A.publicInput, A.commit, A.sampled, ?_,
      A.result⟩
  exact verifyPhase_ok_intro (points := points) (evals := evals)
    (table_decommit_append _ _ _ _ e1 h1) (table_decommit_append _ _ _ _ e2 h2)
    (table_decommit_append _ _ _ _ e3 h3) h4 h5 h6 (fri_verify_pad ef more h7)

end Swiftness.Proofs.Pipeline
