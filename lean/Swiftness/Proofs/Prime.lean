/-
  `Nat.Prime P` by a Lucas/Pratt certificate, `3` is a primitive root, and the order of
  `3^((P-1)/2^k)` for every `k ≤ 192`.  No enumeration over `k`.
-/
import Swiftness.Model.Felt
import Mathlib.NumberTheory.LucasPrimality
import Mathlib.Tactic.NormNum.Prime
import Mathlib.GroupTheory.OrderOfElement

namespace Swiftness

def powMod (a e m : Nat) : Nat :=
  if h : e = 0 then 1 % m else
    let r := powMod a (e / 2) m
    let r2 := r * r % m
    if e % 2 = 1 then r2 * a % m else r2
termination_by e
decreasing_by omega

theorem powMod_eq (a e m : Nat) : powMod a e m = a ^ e % m := by
  induction e using Nat.strong_induction_on with
  | _ e ih =>
    unfold powMod
    split
    · next h => subst h; simp
    · next h =>
      have hlt : e / 2 < e := by omega
      simp only [ih (e/2) hlt]
      have he : e = 2 * (e / 2) + e % 2 := by omega
      have hsq : a ^ (e/2) % m * (a ^ (e/2) % m) % m = a ^ (2 * (e/2)) % m := by
        rw [← Nat.mul_mod, two_mul, pow_add]
      split
      · next h1 =>
        conv_rhs => rw [he, h1, pow_succ]
        rw [hsq, Nat.mul_mod, Nat.mod_mod, ← Nat.mul_mod]
      · next h1 =>
        have h0 : e % 2 = 0 := by omega
        conv_rhs => rw [he, h0, add_zero]
        rw [hsq]

theorem zpow3 (e : ℕ) : ((3 : ZMod P) ^ e) = ((powMod 3 e P : ℕ) : ZMod P) := by
  rw [powMod_eq]; simp [ZMod.natCast_mod]

theorem P_sub_one_factorisation : P - 1 = 2 ^ 192 * 5 * 7 * 98714381 * 166848103 := by
  decide +kernel

theorem prime_factors_P_sub_one (q : ℕ) (hq : q.Prime) (hdvd : q ∣ P - 1) :
    q = 2 ∨ q = 5 ∨ q = 7 ∨ q = 98714381 ∨ q = 166848103 := by
  rw [P_sub_one_factorisation] at hdvd
  have p1 : Nat.Prime 98714381 := by norm_num
  have p2 : Nat.Prime 166848103 := by norm_num
  rcases (Nat.Prime.dvd_mul hq).mp hdvd with h | h
  · rcases (Nat.Prime.dvd_mul hq).mp h with h | h
    · rcases (Nat.Prime.dvd_mul hq).mp h with h | h
      · rcases (Nat.Prime.dvd_mul hq).mp h with h | h
        · left; exact (Nat.prime_dvd_prime_iff_eq hq Nat.prime_two).mp (hq.dvd_of_dvd_pow h)
        · right; left; exact (Nat.prime_dvd_prime_iff_eq hq (by norm_num)).mp h
      · right; right; left; exact (Nat.prime_dvd_prime_iff_eq hq (by norm_num)).mp h
    · right; right; right; left; exact (Nat.prime_dvd_prime_iff_eq hq p1).mp h
  · right; right; right; right; exact (Nat.prime_dvd_prime_iff_eq hq p2).mp h

private theorem key (e : ℕ) (h1 : powMod 3 e P ≠ 1) (h2 : powMod 3 e P < P) :
    (3 : ZMod P) ^ e ≠ 1 := by
  intro h
  rw [zpow3] at h
  have : ((powMod 3 e P : ℕ) : ZMod P) = ((1 : ℕ) : ZMod P) := by simpa using h
  rw [ZMod.natCast_eq_natCast_iff'] at this
  rw [Nat.mod_eq_of_lt h2, Nat.mod_eq_of_lt (by decide +kernel : 1 < P)] at this
  exact h1 this

theorem three_pow_P_sub_one : (3 : ZMod P) ^ (P - 1) = 1 := by
  rw [zpow3]; have : powMod 3 (P - 1) P = 1 := by decide +kernel
  rw [this]; simp

theorem three_pow_div_ne_one (q : ℕ) (hq : q.Prime) (hdvd : q ∣ P - 1) :
    (3 : ZMod P) ^ ((P - 1) / q) ≠ 1 := by
  rcases prime_factors_P_sub_one q hq hdvd with rfl | rfl | rfl | rfl | rfl
  all_goals (apply key <;> decide +kernel)

theorem P_prime : Nat.Prime P :=
  lucas_primality P (3 : ZMod P) three_pow_P_sub_one three_pow_div_ne_one

instance : Fact P.Prime := ⟨P_prime⟩

theorem three_primitive : orderOf (3 : ZMod P) = P - 1 :=
  orderOf_eq_of_pow_and_pow_div_prime (by decide +kernel) three_pow_P_sub_one three_pow_div_ne_one

theorem two_pow_dvd_P_sub_one (k : ℕ) (hk : k ≤ 192) : 2 ^ k ∣ P - 1 := by
  rw [P_sub_one_factorisation]
  exact Dvd.dvd.mul_right (Dvd.dvd.mul_right (Dvd.dvd.mul_right
    (Dvd.dvd.mul_right (pow_dvd_pow 2 hk) _) _) _) _

/-- the generator of the size-`2^k` subgroup as the code computes it, for every `k ≤ 192`. -/
theorem gen_order (k : ℕ) (hk : k ≤ 192) :
    orderOf ((3 : ZMod P) ^ ((P - 1) / 2 ^ k)) = 2 ^ k := by
  obtain ⟨m, hm⟩ := two_pow_dvd_P_sub_one k hk
  have hpos : 0 < 2 ^ k := by positivity
  have hq : (P - 1) / 2 ^ k = m := by rw [hm]; exact Nat.mul_div_cancel_left m hpos
  have hm0 : 0 < m := by
    rcases Nat.eq_zero_or_pos m with h | h
    · exfalso; rw [h, mul_zero] at hm; revert hm; decide +kernel
    · exact h
  rw [hq, orderOf_pow' _ hm0.ne', three_primitive, hm]
  have : Nat.gcd (2 ^ k * m) m = m := Nat.gcd_eq_right (Dvd.intro_left _ rfl)
  rw [this]
  exact Nat.mul_div_cancel _ hm0

end Swiftness
