/-
  C19 helpers: `Loader.tiles` reads every message line twice (`parseLine` for the item, `lineRange?` for the byte
  range).  The two readings agree on which lines are messages:

  * `parseLine_values_ne_nil`   a parsed message carries at least one value (`parsePayload` never yields `[]`);
  * `lineRange?_of_parseLine`   a line `parseLine` accepts as a message has a range, i.e. the
                                "malformed prover message (range)" branch of `tiles` is dead;
  * `tiles_cons_some`           hence `tiles` on a message line, without the dead branch.
-/
import Swiftness.Proofs.LoaderBasic
import Swiftness.Proofs.LoaderTiles

namespace Swiftness.Loader
open Swiftness

/-! ### payloads are never empty -/

theorem split1_ne_nil (a : Char) : ∀ (cs acc : List Char), split1 a cs acc ≠ []
  | [], acc => by simp [split1]
  | c :: rest, acc => by
    unfold split1
    split
    · simp
    · exact split1_ne_nil a rest (c :: acc)

theorem mapM_option_ne_nil {α β} (f : α → Option β) :
    ∀ {l : List α} {r : List β}, l ≠ [] → l.mapM f = some r → r ≠ []
  | [], _, hl, _ => absurd rfl hl
  | a :: l, r, _, h => by
    rw [List.mapM_cons] at h
    cases hfa : f a with
    | none => rw [hfa] at h; cases h
    | some b =>
      rw [hfa] at h
      cases hl : l.mapM f with
      | none => rw [hl] at h; cases h
      | some bs =>
        rw [hl] at h
        cases h
        exact List.cons_ne_nil _ _

/-- `parsePayload` never yields the empty list: one number for `Hash` / `Field Element` / `Data` / `Number`, and
    for `Field Elements` one number per comma-separated piece, of which there is at least one -/
theorem parsePayload_ne_nil {k : Kind} {cs : List Char} {vs : List Nat}
    (h : parsePayload k cs = some vs) : vs ≠ [] := by
  unfold parsePayload at h
  split at h
  · exact mapM_option_ne_nil _ (split1_ne_nil ',' cs []) h
  · cases hd : decNat? cs with
    | none => rw [hd] at h; cases h
    | some n => rw [hd] at h; cases h; exact List.cons_ne_nil _ _
  · cases hd : hexValue? cs with
    | none => rw [hd] at h; cases h
    | some n => rw [hd] at h; cases h; exact List.cons_ne_nil _ _

/-- (i) a parsed prover message carries at least one value -/
theorem parseLine_values_ne_nil {s : String} {it : Item} (h : parseLine s = .ok (some it)) :
    it.values ≠ [] := by
  obtain ⟨_, _, _, _, _, _, _, payload, _, _, _, _, _, _, _, _, hp⟩ := parseLine_some h
  exact parsePayload_ne_nil hp

theorem parseLine_values_length_pos {s : String} {it : Item} (h : parseLine s = .ok (some it)) :
    0 < it.values.length :=
  List.length_pos_iff.mpr (parseLine_values_ne_nil h)

/-! ### the range is read the same way twice -/

/-- `isRange` is `rangeOf?` succeeding -/
theorem isRange_iff_rangeOf? (cs : List Char) : isRange cs = true ↔ ∃ a b, rangeOf? cs = some (a, b) := by
  unfold isRange rangeOf?
  split
  · next a b _ =>
    split
    · next br _ =>
      cases ha : decNat? a <;> cases hb : decNat? br.reverse <;> simp
    · simp
  · simp

/-- (ii) a line that `parseLine` accepts as a message has a byte range -/
theorem lineRange?_of_parseLine {s : String} {it : Item} (h : parseLine s = .ok (some it)) :
    ∃ a b, lineRange? s = some (a, b) := by
  obtain ⟨rest, rng, path, lbl, more, _, _, _, hrest, hsplit, hrng, _⟩ := parseLine_some h
  unfold lineRange?
  rw [hrest]
  dsimp only
  rw [hsplit]
  exact (isRange_iff_rangeOf? rng).mp hrng

/-- `tiles` on a message line, with the dead "malformed prover message (range)" branch removed: the line has a
    range `[x:y]`, and the check continues from `y` exactly when `x` is the cursor and `y = x + 32·(values)` -/
theorem tiles_cons_some {s : String} (rest : List String) (a : Nat) {it : Item}
    (hl : parseLine s = .ok (some it)) :
    ∃ x y, lineRange? s = some (x, y) ∧
      ((x = a ∧ x + 32 * it.values.length = y) → tiles (s :: rest) a = tiles rest y) ∧
      (¬ (x = a ∧ x + 32 * it.values.length = y) → ∃ e, tiles (s :: rest) a = .error e) := by
  obtain ⟨x, y, hr⟩ := lineRange?_of_parseLine hl
  refine ⟨x, y, hr, ?_, ?_⟩
  · intro hc
    conv => lhs; unfold tiles
    rw [hl]
    dsimp only
    rw [hr]
    dsimp only
    rw [if_pos hc]
  · intro hc
    conv => enter [1, e, 1]; unfold tiles
    rw [hl]
    dsimp only
    rw [hr]
    dsimp only
    rw [if_neg hc]
    exact ⟨_, rfl⟩

/-! ### the tiling theorems without the `values ≠ []` hypotheses -/

theorem removed_message_fails' {l1 l2 : List String} {s : String} {a n : Nat} {it : Item}
    (h : tiles (l1 ++ s :: l2) a = .ok n) (hl : parseLine s = .ok (some it))
    (hm : ∃ t it', t ∈ l2 ∧ parseLine t = .ok (some it')) :
    ∃ e, tiles (l1 ++ l2) a = .error e :=
  removed_message_fails h hl (parseLine_values_ne_nil hl) hm

theorem swapped_messages_fail' {l1 l2 : List String} {s t : String} {a n : Nat} {is it : Item}
    (h : tiles (l1 ++ s :: t :: l2) a = .ok n) (hs : parseLine s = .ok (some is))
    (ht : parseLine t = .ok (some it)) :
    ∃ e, tiles (l1 ++ t :: s :: l2) a = .error e :=
  swapped_messages_fail h hs (parseLine_values_ne_nil hs) ht

end Swiftness.Loader
