/-
  C07: the side conditions of the table decommitment are DERIVED for sorted queries.  If the queries
  entering a layer have strictly increasing indices `< 2^64`, a successful `compute_next_layer` (with
  arbitrary witness leaves) produces strictly increasing coset indices `q.index / n`, which are also
  the indices of the next-layer queries — so sortedness propagates through all layers.  Core Lean only.
-/
import Swiftness.Proofs.FriSoundRows

namespace Swiftness.Proofs.FriSound

open Swiftness Fri

theorem two_pow_65_lt_P : 2 ^ 65 < P := by decide +kernel

theorem val_add_ofNat (s : Felt) (i : Nat) (h : s.val + i < P) :
    (s + Felt.ofNat i).val = s.val + i := by
  have hi : i < P := by omega
  simp only [Fin.val_add, Felt.ofNat, Fin.val_ofNat, Nat.mod_eq_of_lt hi, Nat.mod_eq_of_lt h]

theorem val_ofNat_div (a : Felt) (n : Nat) : (Felt.ofNat (a.val / n)).val = a.val / n := by
  have : a.val / n < P := Nat.lt_of_le_of_lt (Nat.div_le_self _ _) a.isLt
  simp only [Felt.ofNat, Fin.val_ofNat, Nat.mod_eq_of_lt this]

theorem val_div_mul (a n : Felt) : (Felt.ofNat (a.val / n.val) * n).val = a.val / n.val * n.val := by
  have : a.val / n.val * n.val < P := Nat.lt_of_le_of_lt (Nat.div_mul_le_self _ _) a.isLt
  rw [Fin.val_mul, val_ofNat_div, Nat.mod_eq_of_lt this]

/-- in a sorted query list, once a row is complete every remaining query lies beyond the coset -/
theorem RowOf.rest_ge {start : Felt} {rest : List LayerQuery} {i : Nat} {x0 x : Felt}
    {qs : List LayerQuery} {ss row : List Felt} (h : RowOf start rest i x0 qs ss row x)
    (hsorted : ((qs ++ rest).map (·.index.val)).Pairwise (· < ·))
    (hge : ∀ q ∈ qs ++ rest, start.val + i ≤ q.index.val)
    (hwrap : start.val + i + row.length ≤ P) :
    ∀ q ∈ rest, start.val + i + row.length ≤ q.index.val := by
  induction h with
  | nil i x => intro q hq; simpa using hge q (by simpa using hq)
  | @query i x0 x g q0 qs ss row hidx _ _ ih =>
    simp only [List.length_cons] at hwrap ⊢
    have hv : q0.index.val = start.val + i := by rw [hidx]; exact val_add_ofNat _ _ (by omega)
    simp only [List.cons_append, List.map_cons, List.pairwise_cons] at hsorted
    have := ih hsorted.2
      (fun q hq => by
        have := hsorted.1 q.index.val (List.mem_map_of_mem hq)
        omega)
      (by omega)
    intro q hq
    have := this q hq
    omega
  | @sib i x0 x s qs ss row hhead _ ih =>
    simp only [List.length_cons] at hwrap ⊢
    have hge' : ∀ q ∈ qs ++ rest, start.val + (i + 1) ≤ q.index.val := by
      intro q hq
      cases hL : qs ++ rest with
      | nil => rw [hL] at hq; cases hq
      | cons q1 L =>
        rw [hL] at hq hsorted hhead hge
        have h1 : q1.index ≠ start + Felt.ofNat i := hhead q1 (by simp)
        have h2 : q1.index.val ≠ start.val + i := by
          intro he
          apply h1
          apply Fin.ext
          rw [he, val_add_ofNat _ _ (by omega)]
        have h3 := hge q1 (List.mem_cons_self ..)
        rcases List.mem_cons.mp hq with rfl | hq
        · omega
        · simp only [List.map_cons, List.pairwise_cons] at hsorted
          have := hsorted.1 q.index.val (List.mem_map_of_mem hq)
          omega
    have := ih hsorted hge' (by omega)
    intro q hq
    have := this q hq
    omega

/-- sorted queries: the coset indices are strictly increasing and each is `q.index / n` of a query -/
theorem Rows.sorted {n e : Felt} {qs : List LayerQuery} {ss : List Felt} {nq : List LayerQuery}
    {vi vy : List Felt} (h : Rows n e qs ss nq vi vy)
    (hsorted : (qs.map (·.index.val)).Pairwise (· < ·)) (hb : ∀ q ∈ qs, q.index.val < 2 ^ 64) :
    (vi.map (·.val)).Pairwise (· < ·) ∧ ∀ c ∈ vi, ∃ q ∈ qs, c.val = q.index.val / n.val := by
  induction h with
  | nil => exact ⟨List.Pairwise.nil, fun c hc => by cases hc⟩
  | @cons ci xinv y q0 rest qsC qs ssC ss row vi vy nq hn0 hn64 hL hci hrow hlen _ _ ih =>
    have hP := two_pow_65_lt_P
    have hnpos : 0 < n.val := by
      rcases Nat.eq_zero_or_pos n.val with h0 | h0
      · exact absurd (Fin.ext h0) hn0
      · exact h0
    have hq0mem : q0 ∈ qsC ++ qs := by rw [hL]; exact List.mem_cons_self ..
    have hq0b := hb q0 hq0mem
    have hciv : ci.val = q0.index.val / n.val := by rw [hci]; exact val_ofNat_div _ _
    have hstart : (ci * n).val = q0.index.val / n.val * n.val := by rw [hci]; exact val_div_mul _ _
    have hle : q0.index.val / n.val * n.val ≤ q0.index.val := Nat.div_mul_le_self _ _
    have hsorted' := hsorted
    rw [List.map_append, List.pairwise_append] at hsorted'
    have hmin : ∀ q ∈ qsC ++ qs, q0.index.val ≤ q.index.val := by
      intro q hq
      rw [hL] at hq hsorted
      rcases List.mem_cons.mp hq with rfl | hq
      · exact Nat.le_refl _
      · simp only [List.map_cons, List.pairwise_cons] at hsorted
        exact Nat.le_of_lt (hsorted.1 _ (List.mem_map_of_mem hq))
    have hrest := hrow.rest_ge hsorted
      (fun q hq => by have := hmin q hq; omega) (by rw [hlen]; omega)
    rw [hlen, hstart, Nat.add_zero] at hrest
    obtain ⟨ih1, ih2⟩ := ih hsorted'.2.1 (fun q hq => hb q (List.mem_append_right _ hq))
    refine ⟨?_, ?_⟩
    · simp only [List.map_cons, List.pairwise_cons]
      refine ⟨?_, ih1⟩
      intro a ha
      obtain ⟨c, hc, rfl⟩ := List.mem_map.mp ha
      obtain ⟨q, hq, hcq⟩ := ih2 c hc
      rw [hcq, hciv]
      have h1 := hrest q hq
      have h2 : (q0.index.val / n.val + 1) * n.val ≤ q.index.val := by
        rw [Nat.succ_mul]; exact h1
      exact (Nat.le_div_iff_mul_le hnpos).mpr h2
    · intro c hc
      rcases List.mem_cons.mp hc with rfl | hc
      · exact ⟨q0, hq0mem, hciv⟩
      · obtain ⟨q, hq, hcq⟩ := ih2 c hc
        exact ⟨q, List.mem_append_right _ hq, hcq⟩

theorem Rows.nonempty {n e : Felt} {qs : List LayerQuery} {ss : List Felt} {nq : List LayerQuery}
    {vi vy : List Felt} (h : Rows n e qs ss nq vi vy) (hne : qs ≠ []) : vi ≠ [] := by
  cases h with
  | nil => exact absurd rfl hne
  | cons => simp

/-- **Side conditions for free.**  For queries with strictly increasing indices `< 2^64`, every
    successful fold step yields coset indices that are non-empty (if there is a query), strictly
    increasing, each the quotient `q.index / n` of a query, and equal to the indices of the next
    queries (which therefore are again strictly increasing and `< 2^64`). -/
theorem computeNextLayer_indices (qs : List LayerQuery) (sibs : List Felt) (n e : Felt)
    (nl : NextLayer) (h : computeNextLayer qs sibs n e = .ok nl)
    (hsorted : (qs.map (·.index.val)).Pairwise (· < ·)) (hb : ∀ q ∈ qs, q.index.val < 2 ^ 64) :
    (qs ≠ [] → nl.verifyIndices ≠ []) ∧
    (nl.verifyIndices.map (·.val)).Pairwise (· < ·) ∧
    (∀ c ∈ nl.verifyIndices, ∃ q ∈ qs, c.val = q.index.val / n.val) ∧
    nl.nextQueries.map (·.index) = nl.verifyIndices ∧
    (nl.nextQueries.map (·.index.val)).Pairwise (· < ·) ∧
    (∀ q' ∈ nl.nextQueries, ∃ q ∈ qs, q'.index.val = q.index.val / n.val) ∧
    (∀ q' ∈ nl.nextQueries, q'.index.val < 2 ^ 64) := by
  obtain ⟨used, _, hR⟩ := computeNextLayer_rows qs sibs n e nl h
  obtain ⟨h1, h2⟩ := hR.sorted hsorted hb
  have h3 := hR.indices
  have h4 : nl.nextQueries.map (·.index.val) = nl.verifyIndices.map (·.val) := by
    rw [← h3, List.map_map]; rfl
  have h5 : ∀ q' ∈ nl.nextQueries, ∃ q ∈ qs, q'.index.val = q.index.val / n.val := by
    intro q' hq'
    exact h2 q'.index (by rw [← h3]; exact List.mem_map_of_mem hq')
  refine ⟨hR.nonempty, h1, h2, h3, by rw [h4]; exact h1, h5, ?_⟩
  intro q' hq'
  obtain ⟨q, hq, he⟩ := h5 q' hq'
  have := hb q hq
  have := Nat.div_le_self q.index.val n.val
  omega

/-! ### the first layer -/

theorem gatherFirstLayer_spec : ∀ (queries values points : List Felt) (fq : List LayerQuery),
    gatherFirstLayer queries values points = .ok fq →
    fq.map (·.index) = queries ∧ fq.map (·.yValue) = values.take queries.length ∧
      ∀ (j : Nat) (q : LayerQuery), fq[j]? = some q → ∃ x, points[j]? = some x ∧ x * FIELD_GENERATOR_INVERSE ≠ 0 ∧
        q.xInvValue = Felt.inv (x * FIELD_GENERATOR_INVERSE) := by
  intro queries
  induction queries with
  | nil =>
    intro values points fq h
    simp only [gatherFirstLayer, Outcome.ok.injEq] at h
    subst h
    simp
  | cons q qs ih =>
    intro values points fq h
    cases points with
    | nil => simp [gatherFirstLayer] at h
    | cons x xs =>
      cases values with
      | nil => simp [gatherFirstLayer] at h
      | cons y ys =>
        simp only [gatherFirstLayer] at h
        split at h
        · cases h
        · next hx =>
          cases hr : gatherFirstLayer qs ys xs with
          | ok r =>
            simp only [hr, Outcome.ok.injEq] at h
            subst h
            obtain ⟨h1, h2, h3⟩ := ih ys xs r hr
            refine ⟨by simp [h1], by simp [h2], ?_⟩
            intro j q' hj
            cases j with
            | zero =>
              simp only [List.getElem?_cons_zero, Option.some.injEq] at hj
              subst hj
              exact ⟨x, rfl, hx, rfl⟩
            | succ j => simpa using h3 j q' (by simpa using hj)
          | err s => simp [hr] at h
          | panic s => simp [hr] at h

end Swiftness.Proofs.FriSound
