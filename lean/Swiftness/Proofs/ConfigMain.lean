/-
  C11 helper lemmas, part 3: the final equivalence and its corollaries.
-/
import Swiftness.Proofs.ConfigArith

namespace Swiftness.Proofs.ConfigLemmas
open Swiftness Swiftness.Spec
attribute [-instance] Fin.instOfNat

theorem validate_iff (c : StarkConfig) (sec nc1 nc2 : Felt)
    (hcols : 1 ≤ nc1.val ∧ nc1.val ≤ 128 ∧ 1 ≤ nc2.val ∧ nc2.val ≤ 128) :
    c.validate sec nc1 nc2 = .ok () ↔ ConfigOK c sec nc1 nc2 := by
  rw [stark_validate_ok_iff, starkOKFelt_iff_spec c sec nc1 nc2 hcols]

/-- in an accepted FRI configuration the degree-bound exponent is at most `4·14 + 15` -/
theorem friOKNat_t_le (fri : Fri.Config) (lnc nf t : Felt) (h : FriOKNat fri lnc nf t) :
    t.val ≤ 71 := by
  obtain ⟨hn, hl, _, _, hinner, hlis1, hlis2⟩ := h
  have hst : ∀ i, 1 ≤ i → i < fri.nLayers.val → ∀ s, fri.friStepSizes[i]? = some s → s.val ≤ 4 := by
    intro i h1 h2 s hs
    obtain ⟨s', tc, e1, _, _, b, _⟩ := hinner i h1 h2
    rw [hs] at e1; injection e1 with e1; subst e1; exact b
  have hS := stepSum_le fri.friStepSizes fri.nLayers.val (fri.nLayers.val - 1) (le_refl _) hst
  omega

theorem accepted_facts (c : StarkConfig) (sec nc1 nc2 : Felt)
    (h : c.validate sec nc1 nc2 = .ok ()) :
    (1 ≤ c.logNCosets.val ∧
      c.fri.logInputSize.val = c.logTraceDomainSize.val + c.logNCosets.val ∧
      c.fri.validate c.logNCosets c.nFriendly = .ok c.logTraceDomainSize) ∧
    (c.logTraceDomainSize.val ≤ 71 ∧ c.nQueries.val ≤ 48 ∧ c.fri.nLayers.val ≤ 15) := by
  rw [stark_validate_ok_iff] at h
  obtain ⟨_, hc, hq, _, _, _, hfri⟩ := h
  have hfri' := (fri_arith _ _ _ _ hc.2).mp hfri
  exact ⟨⟨hc.1, hfri'.2.2.2.2.2.2, (fri_validate_ok_iff _ _ _ _).mpr hfri⟩,
    friOKNat_t_le _ _ _ _ hfri', hq.2, hfri'.1.2⟩

end Swiftness.Proofs.ConfigLemmas
