/-
  C17: after configuration validation every loop count that the verifier takes from a numeric field
  of the proof is bounded by a constant, and the step count `verifyCost` (`Model/Cost.lean`) is at
  most linear in the size of the proof value.
-/
import Swiftness.Model.Cost
import Swiftness.Proofs.CostLoops
import Swiftness.Proofs.NoPanicStark

namespace Swiftness.Proofs.Cost
open Swiftness Fri
open Swiftness.Proofs.NoPanic (CfgFacts cfgFacts_of_validate two_pow_model_val sub_one_model_val)
attribute [-instance] Fin.instOfNat

/-- numeric facts of an accepted configuration, in the form the cost bound uses -/
structure NumericBounds (c : StarkConfig) : Prop where
  queries : c.nQueries.val ≤ 48
  layers : c.fri.nLayers.val ≤ 15
  rounds : Swiftness.Cost.rounds c.fri ≤ 14
  cosets : ∀ st ∈ (c.fri.friStepSizes.drop 1).take (Swiftness.Cost.rounds c.fri),
    Swiftness.Cost.cosetSize st ≤ 16
  powBits : c.powBits ≤ 50
  logEval : c.logTraceDomainSize.val + c.logNCosets.val ≤ 87

theorem numericBounds_of_validate (c : StarkConfig) (sec nc1 nc2 : Felt)
    (h : c.validate sec nc1 nc2 = .ok ()) : NumericBounds c := by
  have hc := cfgFacts_of_validate c sec nc1 nc2 h
  have hv : Swiftness.Cost.rounds c.fri = c.fri.nLayers.val - 1 :=
    sub_one_model_val c.fri.nLayers (by have := hc.layers; omega)
  refine ⟨hc.queries, hc.layers.2, by rw [hv]; have := hc.layers; omega, ?_, hc.pow,
    by have := hc.trace; have := hc.cosets; omega⟩
  intro st hst
  rw [hv] at hst
  have := hc.steps st hst
  have h2 : Swiftness.Cost.cosetSize st = 2 ∨ Swiftness.Cost.cosetSize st = 4 ∨
      Swiftness.Cost.cosetSize st = 8 ∨ Swiftness.Cost.cosetSize st = 16 :=
    two_pow_model_val st this.1 this.2
  omega

/-- the constant part of one FRI layer's cost for at most 48 queries and coset size at most 16 -/
def layerConst : ℕ := 49 * (16 + 16 + 256) + 48 * 16 + 49

theorem layer_le (nq cs : ℕ) (w : LayerWitness) (hq : nq ≤ 48) (hcs : cs ≤ 16) :
    Swiftness.Cost.layer nq cs w ≤ layerConst + w.size := by
  unfold Swiftness.Cost.layer layerConst LayerWitness.size Swiftness.Cost.F
  have h1 : (nq + 1) * (cs + 16 + 256) ≤ 49 * (16 + 16 + 256) :=
    Nat.mul_le_mul (by omega) (by omega)
  have h2 : nq * cs ≤ 48 * 16 := Nat.mul_le_mul hq hcs
  omega

theorem layers_le (nq : ℕ) (hq : nq ≤ 48) : ∀ (steps : List Felt) (ws : List LayerWitness),
    (∀ st ∈ steps, Swiftness.Cost.cosetSize st ≤ 16) →
    Swiftness.Cost.layers nq steps ws ≤ steps.length * layerConst + (ws.map LayerWitness.size).sum := by
  intro steps
  induction steps with
  | nil => intro ws _; simp [Swiftness.Cost.layers]
  | cons st steps ih =>
    intro ws hst
    cases ws with
    | nil => simp [Swiftness.Cost.layers]
    | cons w ws =>
      simp only [Swiftness.Cost.layers, List.length_cons, List.map_cons, List.sum_cons]
      have h1 := layer_le nq _ w hq (hst st (by simp))
      have h2 := ih ws (fun a ha => hst a (by simp [ha]))
      rw [Nat.add_mul, Nat.one_mul]
      omega

/-- the additive constant of the bound: depends only on the layout's sizes and callback costs -/
def boundA (L : LayoutOps) (K : LayoutCost) : ℕ :=
  K.piA + K.compA + 48 * K.oods + L.nInteractionElements + L.nConstraints + L.maskSize + L.constraintDegree
    + 253070

/-- the per-element constant of the bound -/
def boundB (K : LayoutCost) : ℕ := K.piB + K.compB + 52

theorem cost_le (L : LayoutOps) (K : LayoutCost) (p : Stark.Proof) (hb : NumericBounds p.config) :
    verifyCost L K p ≤ boundA L K + boundB K * p.size := by
  obtain ⟨hq, hl, hn, hcs, _, _⟩ := hb
  have hlay := layers_le p.config.nQueries.val hq _ p.witness.friLayers hcs
  have hlen : ((p.config.fri.friStepSizes.drop 1).take (Swiftness.Cost.rounds p.config.fri)).length ≤ 14 := by
    rw [List.length_take]; omega
  have hlay2 : ((p.config.fri.friStepSizes.drop 1).take (Swiftness.Cost.rounds p.config.fri)).length
      * layerConst ≤ 14 * layerConst := Nat.mul_le_mul_right _ hlen
  have hpi : p.publicInput.size ≤ p.size := by unfold Stark.Proof.size; omega
  have h1 : K.piB * p.publicInput.size ≤ K.piB * p.size := Nat.mul_le_mul_left _ hpi
  have h2 : K.compB * p.publicInput.size ≤ K.compB * p.size := Nat.mul_le_mul_left _ hpi
  have h3 : p.config.nQueries.val * p.config.nQueries.val ≤ 48 * 48 := Nat.mul_le_mul hq hq
  have h4 : p.config.nQueries.val * (64 + Swiftness.Cost.F) ≤ 48 * (64 + Swiftness.Cost.F) :=
    Nat.mul_le_mul_right _ hq
  have h5 : p.config.nQueries.val * K.oods ≤ 48 * K.oods := Nat.mul_le_mul_right _ hq
  have h6 : p.config.nQueries.val * Swiftness.Cost.F ≤ 48 * Swiftness.Cost.F := Nat.mul_le_mul_right _ hq
  have h7 : p.config.nQueries.val * (Swiftness.Cost.F + p.unsent.friLastLayerCoefficients.length)
      ≤ 48 * (Swiftness.Cost.F + p.unsent.friLastLayerCoefficients.length) := Nat.mul_le_mul_right _ hq
  have hB : boundB K * p.size = K.piB * p.size + K.compB * p.size + 52 * p.size := by
    unfold boundB; rw [Nat.add_mul, Nat.add_mul]
  rw [hB]
  unfold verifyCost boundA
  simp only []
  unfold Swiftness.Cost.tableDecommit
  unfold Swiftness.Cost.F at *
  unfold layerConst at hlay hlay2
  unfold Stark.Proof.size Stark.Witness.size Stark.UnsentCommitment.size at *
  omega

end Swiftness.Proofs.Cost
