/-
  Per-layout kernel-checked facts for C16, "no coefficient position is identically zero" (restated in
  `Props/C16.lean`): on the generated witness input the fast shadow run (`Model/AstFast.lean`) executes ALL
  accumulate statements of the generated program and every term is non-zero.  Split over several modules so
  that they build in parallel.  Programs and witnesses are referred to by name only.
-/
import Swiftness.Proofs.AstFast
import Swiftness.Generated.Consts
import Swiftness.Generated.Layout.dex
import Swiftness.Generated.Witness.dex
import Swiftness.Generated.Layout.recursive
import Swiftness.Generated.Witness.recursive
import Swiftness.Generated.Layout.recursive_with_poseidon
import Swiftness.Generated.Witness.recursive_with_poseidon
import Swiftness.Generated.Layout.small
import Swiftness.Generated.Witness.small
import Swiftness.Generated.Layout.starknet
import Swiftness.Generated.Witness.starknet

set_option maxRecDepth 100000

namespace Swiftness.Proofs.AstFast.Facts
open Swiftness Swiftness.Ast Swiftness.Ast.Fast Swiftness.Gen Swiftness.Gen.Layout

theorem nz_dex_composition :
    nzCount dex.witnessComposition dex.witnessCompositionInv dex.composition = some dex.N_CONSTRAINTS := by
  ast_nz dex.composition

theorem nz_dex_oods :
    nzCount dex.witnessOods dex.witnessOodsInv dex.oods = some (dex.MASK_SIZE + dex.CONSTRAINT_DEGREE) := by
  ast_nz dex.oods

theorem nz_recursive_composition :
    nzCount recursive.witnessComposition recursive.witnessCompositionInv recursive.composition = some recursive.N_CONSTRAINTS := by
  ast_nz recursive.composition

theorem nz_recursive_oods :
    nzCount recursive.witnessOods recursive.witnessOodsInv recursive.oods = some (recursive.MASK_SIZE + recursive.CONSTRAINT_DEGREE) := by
  ast_nz recursive.oods

theorem nz_recursive_with_poseidon_composition :
    nzCount recursive_with_poseidon.witnessComposition recursive_with_poseidon.witnessCompositionInv recursive_with_poseidon.composition = some recursive_with_poseidon.N_CONSTRAINTS := by
  ast_nz recursive_with_poseidon.composition

theorem nz_recursive_with_poseidon_oods :
    nzCount recursive_with_poseidon.witnessOods recursive_with_poseidon.witnessOodsInv recursive_with_poseidon.oods = some (recursive_with_poseidon.MASK_SIZE + recursive_with_poseidon.CONSTRAINT_DEGREE) := by
  ast_nz recursive_with_poseidon.oods

theorem nz_small_composition :
    nzCount small.witnessComposition small.witnessCompositionInv small.composition = some small.N_CONSTRAINTS := by
  ast_nz small.composition

theorem nz_small_oods :
    nzCount small.witnessOods small.witnessOodsInv small.oods = some (small.MASK_SIZE + small.CONSTRAINT_DEGREE) := by
  ast_nz small.oods

theorem nz_starknet_composition :
    nzCount starknet.witnessComposition starknet.witnessCompositionInv starknet.composition = some starknet.N_CONSTRAINTS := by
  ast_nz starknet.composition

theorem nz_starknet_oods :
    nzCount starknet.witnessOods starknet.witnessOodsInv starknet.oods = some (starknet.MASK_SIZE + starknet.CONSTRAINT_DEGREE) := by
  ast_nz starknet.oods

end Swiftness.Proofs.AstFast.Facts
