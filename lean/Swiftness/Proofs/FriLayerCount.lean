/-
  C06, per-layer step, sibling accounting: on well-formed query indices (arbitrary values) a successful
  `computeNextLayer` consumes exactly one sibling value per non-queried position of every touched coset;
  with fewer sibling values it does not return `ok` (the Rust panics in `drain`).
-/
import Swiftness.Proofs.FriLayerStep

namespace Swiftness.Proofs
open Swiftness Fri FoldSpec
attribute [-instance] Fin.instOfNat

theorem cosetLoop_count (yv xi : ℕ → Felt) (c n : ℕ) (hn : n ≤ 16) (hb : c * n + n < P)
    (rest : List LayerQuery) (hrest : ∀ q ∈ rest, ∀ j < n, q.index ≠ ((c * n + j : ℕ) : Felt)) :
    ∀ (m i : ℕ), i + m = n → ∀ (A : List ℕ), A.Pairwise (· < ·) →
      (∀ a ∈ A, c * n + i ≤ a ∧ a < c * n + n) →
      ∀ (sibs : List Felt) (x0 : Felt) (acc : List Felt) (r : CosetResult),
      cosetLoop ((c * n : ℕ) : Felt) m i (A.map (mkQ yv xi) ++ rest) sibs x0 acc = .ok r →
      r.queries = rest ∧
      sibs.length
        = ((List.range' i m).filter (fun j => decide (c * n + j ∉ A))).length + r.siblings.length := by
  intro m
  induction m with
  | zero =>
    intro i hi A _ hAr sibs x0 acc r h
    have hA : A = [] := by
      cases A with
      | nil => rfl
      | cons a t => have := hAr a (List.mem_cons_self ..); omega
    subst hA
    simp only [List.map_nil, List.nil_append, cosetLoop, Outcome.ok.injEq] at h
    subst h
    simp
  | succ m ih =>
    intro i hi A hA hAr sibs x0 acc r h
    have hi_lt : i < n := by omega
    rw [List.range'_succ]
    cases A with
    | nil =>
      rw [List.filter_cons_of_pos (by simp)]
      have key := fun sibs' x1 acc1 => ih (i + 1) (by omega) [] List.Pairwise.nil (by simp) sibs' x1 acc1 r
      simp only [List.map_nil, List.nil_append] at key h
      cases rest with
      | nil =>
        simp only [cosetLoop] at h
        cases sibs with
        | nil => cases h
        | cons s sibs' =>
          obtain ⟨h1, h2⟩ := key _ _ _ h
          exact ⟨h1, by simp only [List.length_cons]; omega⟩
      | cons q rq =>
        have hq : ¬ (q.index = ((c * n : ℕ) : Felt) + Felt.ofNat i) := by
          rw [start_add]; exact hrest q (List.mem_cons_self ..) i hi_lt
        simp only [cosetLoop, if_neg hq] at h
        cases sibs with
        | nil => cases h
        | cons s sibs' =>
          obtain ⟨h1, h2⟩ := key _ _ _ h
          exact ⟨h1, by simp only [List.length_cons]; omega⟩
    | cons a A' =>
      have haA := hAr a (List.mem_cons_self ..)
      have hA' : A'.Pairwise (· < ·) := (List.pairwise_cons.mp hA).2
      have hgt : ∀ a' ∈ A', a < a' := (List.pairwise_cons.mp hA).1
      by_cases ha : a = c * n + i
      · subst ha
        have hfil : ((List.range' (i + 1) m).filter (fun j => decide (c * n + j ∉ (c * n + i) :: A')))
            = ((List.range' (i + 1) m).filter (fun j => decide (c * n + j ∉ A'))) := by
          apply List.filter_congr
          intro j hj
          have : i + 1 ≤ j := (List.mem_range'_1.mp hj).1
          have hne : j ≠ i := by omega
          simp [hne]
        rw [List.filter_cons_of_neg (by simp), hfil]
        have hq : (mkQ yv xi (c * n + i)).index = ((c * n : ℕ) : Felt) + Felt.ofNat i := by
          rw [start_add]; rfl
        simp only [List.map_cons, List.cons_append, cosetLoop, if_pos hq,
          friGroup_getElem? i (by omega)] at h
        exact ih (i + 1) (by omega) A' hA'
          (fun a' ha' => ⟨by have := hgt a' ha'; omega, (hAr a' (List.mem_cons_of_mem _ ha')).2⟩)
          _ _ _ r h
      · have hlt : c * n + i < a := by omega
        have hnot : c * n + i ∉ a :: A' := by
          intro hmem
          rcases List.mem_cons.mp hmem with h | h
          · omega
          · have := hgt _ h; omega
        rw [List.filter_cons_of_pos (by simpa using hnot)]
        have hq : ¬ ((mkQ yv xi a).index = ((c * n : ℕ) : Felt) + Felt.ofNat i) := by
          rw [start_add]
          show ¬ (((a : ℕ) : Felt) = _)
          rw [cast_inj_of_lt (by omega) (by omega)]
          omega
        simp only [List.map_cons, List.cons_append, cosetLoop, if_neg hq] at h
        cases sibs with
        | nil => cases h
        | cons s sibs' =>
          obtain ⟨h1, h2⟩ := ih (i + 1) (by omega) (a :: A') hA
            (fun a' ha' => ⟨by
              rcases List.mem_cons.mp ha' with h | h
              · omega
              · have := hgt _ h; omega, (hAr a' ha').2⟩)
            sibs' x0 (s :: acc) r (by simpa only [List.map_cons, List.cons_append] using h)
          exact ⟨h1, by simp only [List.length_cons]; omega⟩

theorem nextLayerLoop_step_count (yv xi : ℕ → Felt) (b : Felt) (c n : ℕ) (hn1 : 1 ≤ n) (hn : n ≤ 16)
    (hb : c * n + n < 2 ^ 65)
    (a0 : ℕ) (A' : List ℕ) (hA : (a0 :: A').Pairwise (· < ·))
    (hAr : ∀ a ∈ a0 :: A', c * n ≤ a ∧ a < c * n + n)
    (rest : List LayerQuery) (hrest : ∀ q ∈ rest, ∀ j < n, q.index ≠ ((c * n + j : ℕ) : Felt))
    (sibs : List Felt) (fuel : ℕ) (nq : List LayerQuery) (vi vy : List Felt) (r : NextLayer)
    (h : nextLayerLoop ((n : ℕ) : Felt) b (fuel + 1) ((a0 :: A').map (mkQ yv xi) ++ rest) sibs nq vi vy
      = .ok r) :
    ∃ sibs' nq' vi' vy',
      sibs.length = ((List.range n).filter (fun j => decide (c * n + j ∉ a0 :: A'))).length
        + sibs'.length ∧
      nextLayerLoop ((n : ℕ) : Felt) b fuel rest sibs' nq' vi' vy' = .ok r := by
  have hP : (2 : ℕ) ^ 65 < P := by decide +kernel
  have hbP : c * n + n < P := lt_trans hb hP
  have hnval : (((n : ℕ) : Felt)).val = n := cast_val_small hn
  have ha0 := hAr a0 (List.mem_cons_self ..)
  have hn0 : ¬ (((n : ℕ) : Felt) = @OfNat.ofNat Felt 0 Fin.instOfNat) := by
    rw [felt_ofNat, cast_inj_of_lt (by omega) (by omega)]; omega
  have hidx : Felt.ofNat ((mkQ yv xi a0).index.val / n) = ((c : ℕ) : Felt) := by
    have h1 : (mkQ yv xi a0).index.val = a0 := Felt.val_cast_of_lt (by omega)
    rw [h1, Felt.ofNat_eq_cast]
    congr 1
    apply Nat.div_eq_of_lt_le ha0.1
    rw [Nat.add_mul, Nat.one_mul]; exact ha0.2
  have hstart : ((c : ℕ) : Felt) * ((n : ℕ) : Felt) = ((c * n : ℕ) : Felt) := by push_cast; rfl
  have hlt64 : ¬ (n ≥ 2 ^ 64) := by omega
  have hcons : (a0 :: A').map (mkQ yv xi) ++ rest
      = mkQ yv xi a0 :: (A'.map (mkQ yv xi) ++ rest) := rfl
  rw [hcons, nextLayerLoop] at h
  simp only [if_neg hn0, cosetElements, hnval, if_neg hlt64] at h
  simp only [hidx, hstart] at h
  rw [← hcons] at h
  split at h
  · next r0 hr0 =>
    have hcnt := cosetLoop_count yv xi c n hn hbP rest hrest n 0 (by omega) (a0 :: A') hA
      (fun a ha => ⟨by have := (hAr a ha).1; omega, (hAr a ha).2⟩) sibs _ _ r0 hr0
    rw [← List.range_eq_range'] at hcnt
    split at h
    · rw [hcnt.1] at h
      exact ⟨_, _, _, _, hcnt.2, h⟩
    · cases h
    · cases h
  · cases h
  · cases h

/-- sibling accounting for the whole loop -/
theorem nextLayerLoop_count (yv xi : ℕ → Felt) (b : Felt) (n : ℕ) (hn1 : 1 ≤ n) (hn : n ≤ 16) :
    ∀ (cidx qi : List ℕ), qi.Pairwise (· < ·) → (∀ q ∈ qi, q < 2 ^ 64) → cidx.Pairwise (· < ·) →
      (∀ c, c ∈ cidx ↔ ∃ q ∈ qi, q / n = c) →
      ∀ (fuel : ℕ) (sibs : List Felt) (nq : List LayerQuery) (vi vy : List Felt) (r : NextLayer),
      nextLayerLoop ((n : ℕ) : Felt) b fuel (qi.map (mkQ yv xi)) sibs nq vi vy = .ok r →
      sibs.length = (expectedSiblings n yv cidx qi).length + r.siblingsLeft.length := by
  intro cidx
  induction cidx with
  | nil =>
    intro qi _ _ _ hmem fuel sibs nq vi vy r h
    have hqi : qi = [] := by
      cases qi with
      | nil => rfl
      | cons q t => exact absurd ((hmem _).mpr ⟨q, List.mem_cons_self .., rfl⟩) (by simp)
    subst hqi
    cases fuel with
    | zero => simp [nextLayerLoop] at h
    | succ f =>
      simp only [List.map_nil, nextLayerLoop, Outcome.ok.injEq] at h
      subst h
      simp [expectedSiblings]
  | cons c cs' ih =>
    intro qi hq hqb hc hmem fuel sibs nq vi vy r h
    obtain ⟨a0, A', B, hsplit, hAsorted, hBsorted, hAr, hb, hB, hmemB, hsibs⟩ :=
      coset_decomp yv n hn1 c cs' qi hq hqb hc hmem
    have hrest := rest_index_ne yv xi n c hn hb qi B hqb hB
    have hmap : qi.map (mkQ yv xi) = (a0 :: A').map (mkQ yv xi) ++ B.map (mkQ yv xi) := by
      rw [← List.map_append, ← hsplit]
    cases fuel with
    | zero => rw [hmap] at h; simp [nextLayerLoop] at h
    | succ f =>
      rw [hmap] at h
      obtain ⟨sibs', nq', vi', vy', hlen, h'⟩ :=
        nextLayerLoop_step_count yv xi b c n hn1 hn (by omega) a0 A' hAsorted hAr
          (B.map (mkQ yv xi)) hrest sibs f nq vi vy r h
      have := ih B hBsorted (fun q hqm => hqb q (hB q hqm).1) (List.pairwise_cons.mp hc).2 hmemB
        f sibs' nq' vi' vy' r h'
      rw [hsibs, List.length_append, List.length_map]
      omega

/-! ### on well-formed indices the only failure is the exhausted sibling witness -/

theorem cosetLoop_wf (yv xi : ℕ → Felt) (c n : ℕ) (hn : n ≤ 16) (hb : c * n + n < P)
    (rest : List LayerQuery) (hrest : ∀ q ∈ rest, ∀ j < n, q.index ≠ ((c * n + j : ℕ) : Felt)) :
    ∀ (m i : ℕ), i + m = n → ∀ (A : List ℕ), A.Pairwise (· < ·) →
      (∀ a ∈ A, c * n + i ≤ a ∧ a < c * n + n) →
      ∀ (sibs : List Felt) (x0 : Felt) (acc : List Felt),
      (∃ r, cosetLoop ((c * n : ℕ) : Felt) m i (A.map (mkQ yv xi) ++ rest) sibs x0 acc = .ok r ∧
          r.elements.length = acc.length + m) ∨
      cosetLoop ((c * n : ℕ) : Felt) m i (A.map (mkQ yv xi) ++ rest) sibs x0 acc
        = .err "SiblingWitnessTooShort" := by
  intro m
  induction m with
  | zero =>
    intro i hi A _ hAr sibs x0 acc
    left
    exact ⟨⟨acc.reverse, x0, A.map (mkQ yv xi) ++ rest, sibs⟩, by simp only [cosetLoop], by simp⟩
  | succ m ih =>
    intro i hi A hA hAr sibs x0 acc
    have hi_lt : i < n := by omega
    have fix : ∀ {o : Outcome CosetResult} {l : ℕ},
        ((∃ r, o = .ok r ∧ r.elements.length = (l + 1) + m) ∨ o = .err "SiblingWitnessTooShort") →
        ((∃ r, o = .ok r ∧ r.elements.length = l + (m + 1)) ∨ o = .err "SiblingWitnessTooShort") := by
      intro o l h
      rcases h with ⟨r, h1, h2⟩ | h
      · exact Or.inl ⟨r, h1, by omega⟩
      · exact Or.inr h
    cases A with
    | nil =>
      have key := fun sibs' x1 acc1 =>
        ih (i + 1) (by omega) [] List.Pairwise.nil (by simp) sibs' x1 acc1
      simp only [List.map_nil, List.nil_append] at key ⊢
      cases rest with
      | nil =>
        simp only [cosetLoop]
        cases sibs with
        | nil => right; rfl
        | cons s sibs' => exact fix (by simpa using key sibs' x0 (s :: acc))
      | cons q rq =>
        have hq : ¬ (q.index = ((c * n : ℕ) : Felt) + Felt.ofNat i) := by
          rw [start_add]; exact hrest q (List.mem_cons_self ..) i hi_lt
        simp only [cosetLoop, if_neg hq]
        cases sibs with
        | nil => right; rfl
        | cons s sibs' => exact fix (by simpa using key sibs' x0 (s :: acc))
    | cons a A' =>
      have haA := hAr a (List.mem_cons_self ..)
      have hA' : A'.Pairwise (· < ·) := (List.pairwise_cons.mp hA).2
      have hgt : ∀ a' ∈ A', a < a' := (List.pairwise_cons.mp hA).1
      by_cases ha : a = c * n + i
      · subst ha
        have hq : (mkQ yv xi (c * n + i)).index = ((c * n : ℕ) : Felt) + Felt.ofNat i := by
          rw [start_add]; rfl
        simp only [List.map_cons, List.cons_append, cosetLoop, if_pos hq,
          friGroup_getElem? i (by omega)]
        exact fix (by
          simpa using ih (i + 1) (by omega) A' hA'
            (fun a' ha' => ⟨by have := hgt a' ha'; omega, (hAr a' (List.mem_cons_of_mem _ ha')).2⟩)
            sibs ((mkQ yv xi (c * n + i)).xInvValue * friGroup.getD i 0)
            ((mkQ yv xi (c * n + i)).yValue :: acc))
      · have hlt : c * n + i < a := by omega
        have hq : ¬ ((mkQ yv xi a).index = ((c * n : ℕ) : Felt) + Felt.ofNat i) := by
          rw [start_add]
          show ¬ (((a : ℕ) : Felt) = _)
          rw [cast_inj_of_lt (by omega) (by omega)]
          omega
        simp only [List.map_cons, List.cons_append, cosetLoop, if_neg hq]
        cases sibs with
        | nil => right; rfl
        | cons s sibs' =>
          exact fix (by
            simpa using ih (i + 1) (by omega) (a :: A') hA
              (fun a' ha' => ⟨by
                rcases List.mem_cons.mp ha' with h | h
                · omega
                · have := hgt _ h; omega, (hAr a' ha').2⟩)
              sibs' x0 (s :: acc))

theorem nextLayerLoop_step_wf (yv xi : ℕ → Felt) (b : Felt) (c k : ℕ) (hk1 : 1 ≤ k) (hk4 : k ≤ 4)
    (hb : c * 2 ^ k + 2 ^ k < 2 ^ 65)
    (a0 : ℕ) (A' : List ℕ) (hA : (a0 :: A').Pairwise (· < ·))
    (hAr : ∀ a ∈ a0 :: A', c * 2 ^ k ≤ a ∧ a < c * 2 ^ k + 2 ^ k)
    (rest : List LayerQuery)
    (hrest : ∀ q ∈ rest, ∀ j < 2 ^ k, q.index ≠ ((c * 2 ^ k + j : ℕ) : Felt))
    (sibs : List Felt) (fuel : ℕ) (nq : List LayerQuery) (vi vy : List Felt) :
    nextLayerLoop ((2 ^ k : ℕ) : Felt) b (fuel + 1) ((a0 :: A').map (mkQ yv xi) ++ rest) sibs nq vi vy
        = .err "SiblingWitnessTooShort" ∨
    ∃ sibs' nq' vi' vy',
      nextLayerLoop ((2 ^ k : ℕ) : Felt) b (fuel + 1) ((a0 :: A').map (mkQ yv xi) ++ rest) sibs nq vi vy
        = nextLayerLoop ((2 ^ k : ℕ) : Felt) b fuel rest sibs' nq' vi' vy' := by
  have hn : 2 ^ k ≤ 16 := Nat.pow_le_pow_right (by norm_num) hk4
  have hn1 : 1 ≤ 2 ^ k := Nat.one_le_two_pow
  generalize hnk : 2 ^ k = n at *
  have hP : (2 : ℕ) ^ 65 < P := by decide +kernel
  have hbP : c * n + n < P := lt_trans hb hP
  have hnval : (((n : ℕ) : Felt)).val = n := cast_val_small hn
  have ha0 := hAr a0 (List.mem_cons_self ..)
  have hn0 : ¬ (((n : ℕ) : Felt) = @OfNat.ofNat Felt 0 Fin.instOfNat) := by
    rw [felt_ofNat, cast_inj_of_lt (by omega) (by omega)]; omega
  have hidx : Felt.ofNat ((mkQ yv xi a0).index.val / n) = ((c : ℕ) : Felt) := by
    have h1 : (mkQ yv xi a0).index.val = a0 := Felt.val_cast_of_lt (by omega)
    rw [h1, Felt.ofNat_eq_cast]
    congr 1
    apply Nat.div_eq_of_lt_le ha0.1
    rw [Nat.add_mul, Nat.one_mul]; exact ha0.2
  have hstart : ((c : ℕ) : Felt) * ((n : ℕ) : Felt) = ((c * n : ℕ) : Felt) := by push_cast; rfl
  have hlt64 : ¬ (n ≥ 2 ^ 64) := by omega
  have hcons : (a0 :: A').map (mkQ yv xi) ++ rest
      = mkQ yv xi a0 :: (A'.map (mkQ yv xi) ++ rest) := rfl
  rw [hcons, nextLayerLoop]
  simp only [if_neg hn0, cosetElements, hnval, if_neg hlt64]
  simp only [hidx, hstart]
  rw [← hcons]
  rcases cosetLoop_wf yv xi c n hn hbP rest hrest n 0 (by omega) (a0 :: A') hA
      (fun a ha => ⟨by have := (hAr a ha).1; omega, (hAr a ha).2⟩) sibs
      (@OfNat.ofNat Felt 0 Fin.instOfNat) [] with ⟨r0, hr0, hlen⟩ | herr
  · right
    have hcnt := cosetLoop_count yv xi c n hn hbP rest hrest n 0 (by omega) (a0 :: A') hA
      (fun a ha => ⟨by have := (hAr a ha).1; omega, (hAr a ha).2⟩) sibs _ _ r0 hr0
    rw [hr0]
    have hl : r0.elements.length = 2 ^ k := by rw [hlen, hnk]; simp
    have hf := friFormula_eq_foldRec k hk1 hk4 r0.elements b r0.xInv hl
    rw [hnk] at hf
    simp only [hf, hcnt.1]
    exact ⟨_, _, _, _, rfl⟩
  · left
    rw [herr]

/-- on well-formed query indices the loop returns `ok` or `err "SiblingWitnessTooShort"` -/
theorem nextLayerLoop_wf (yv xi : ℕ → Felt) (b : Felt) (k : ℕ) (hk1 : 1 ≤ k) (hk4 : k ≤ 4) :
    ∀ (cidx qi : List ℕ), qi.Pairwise (· < ·) → (∀ q ∈ qi, q < 2 ^ 64) → cidx.Pairwise (· < ·) →
      (∀ c, c ∈ cidx ↔ ∃ q ∈ qi, q / 2 ^ k = c) →
      ∀ (fuel : ℕ), qi.length < fuel →
      ∀ (sibs : List Felt) (nq : List LayerQuery) (vi vy : List Felt),
      (∃ r, nextLayerLoop ((2 ^ k : ℕ) : Felt) b fuel (qi.map (mkQ yv xi)) sibs nq vi vy = .ok r) ∨
      nextLayerLoop ((2 ^ k : ℕ) : Felt) b fuel (qi.map (mkQ yv xi)) sibs nq vi vy
        = .err "SiblingWitnessTooShort" := by
  have hn : 2 ^ k ≤ 16 := Nat.pow_le_pow_right (by norm_num) hk4
  have hn1 : 1 ≤ 2 ^ k := Nat.one_le_two_pow
  intro cidx
  induction cidx with
  | nil =>
    intro qi _ _ _ hmem fuel hfuel sibs nq vi vy
    have hqi : qi = [] := by
      cases qi with
      | nil => rfl
      | cons q t => exact absurd ((hmem _).mpr ⟨q, List.mem_cons_self .., rfl⟩) (by simp)
    subst hqi
    obtain ⟨f, rfl⟩ : ∃ f, fuel = f + 1 := ⟨fuel - 1, by omega⟩
    left
    exact ⟨⟨nq.reverse, vi.reverse, vy, sibs⟩, by simp only [List.map_nil, nextLayerLoop]⟩
  | cons c cs' ih =>
    intro qi hq hqb hc hmem fuel hfuel sibs nq vi vy
    obtain ⟨a0, A', B, hsplit, hAsorted, hBsorted, hAr, hb, hB, hmemB, _⟩ :=
      coset_decomp yv (2 ^ k) hn1 c cs' qi hq hqb hc hmem
    have hrest := rest_index_ne yv xi (2 ^ k) c hn hb qi B hqb hB
    have hmap : qi.map (mkQ yv xi) = (a0 :: A').map (mkQ yv xi) ++ B.map (mkQ yv xi) := by
      rw [← List.map_append, ← hsplit]
    obtain ⟨f, rfl⟩ : ∃ f, fuel = f + 1 := ⟨fuel - 1, by omega⟩
    have hlen : B.length < f := by
      have h1 := congrArg List.length hsplit
      rw [List.length_append, List.length_cons] at h1
      omega
    rw [hmap]
    rcases nextLayerLoop_step_wf yv xi b c k hk1 hk4 (by omega) a0 A' hAsorted hAr
        (B.map (mkQ yv xi)) hrest sibs f nq vi vy with herr | ⟨sibs', nq', vi', vy', hstep⟩
    · right; exact herr
    · rw [hstep]
      exact ih B hBsorted (fun q hqm => hqb q (hB q hqm).1) (List.pairwise_cons.mp hc).2 hmemB f hlen
        sibs' nq' vi' vy'

end Swiftness.Proofs
