/-
  C18, FRI part (`formula.rs`, `layer.rs`, `first_layer.rs`, `last_layer.rs`, `fri.rs`): no `.panic`
  branch of `Model/Fri.lean` is reachable once the coset size is one of `2, 4, 8, 16`, the per-layer
  lists have the configured length and every query carries a non-zero `x_inv`.
  The x-inverse invariant (`AllNZ`) is carried through `cosetLoop` / `nextLayerLoop` / `verifyLayers`.
-/
import Swiftness.Proofs.FriLayerFuel
import Swiftness.Proofs.FriLayerLast
import Swiftness.Proofs.Queries
import Swiftness.Proofs.TableProofs
import Swiftness.Proofs.ConfigArith

namespace Swiftness.Proofs.NoPanic
open Swiftness Fri
open Swiftness.Proofs
attribute [-instance] Fin.instOfNat

/-! ### `formula.rs` -/

theorem formula4_no_panic (v : List Felt) (e x : Felt) (s : String) : formula4 v e x ≠ .panic s := by
  unfold formula4; split <;> simp

theorem formula8_no_panic (v : List Felt) (e x : Felt) (s : String) : formula8 v e x ≠ .panic s := by
  unfold formula8
  have h1 := formula4_no_panic (v.take 4) e x s
  have h2 := formula4_no_panic (v.drop 4) e (x * OMEGA_8) s
  generalize formula4 (v.take 4) e x = a at *
  generalize formula4 (v.drop 4) e (x * OMEGA_8) = b at *
  split
  · simp
  · cases a <;> cases b <;> simp_all

theorem formula16_no_panic (v : List Felt) (e x : Felt) (s : String) : formula16 v e x ≠ .panic s := by
  unfold formula16
  have h1 := formula8_no_panic (v.take 8) e x s
  have h2 := formula8_no_panic (v.drop 8) e (x * OMEGA_16) s
  generalize formula8 (v.take 8) e x = a at *
  generalize formula8 (v.drop 8) e (x * OMEGA_16) = b at *
  split
  · simp
  · cases a <;> cases b <;> simp_all

/-- the `panic!` arm of `fri_formula` is unreachable for coset sizes 2, 4, 8, 16 -/
theorem friFormula_no_panic (v : List Felt) (e x n : Felt)
    (hn : n.val = 2 ∨ n.val = 4 ∨ n.val = 8 ∨ n.val = 16) (s : String) :
    friFormula v e x n ≠ .panic s := by
  unfold friFormula
  split
  · simp
  · split
    · split <;> simp
    · split
      · exact formula4_no_panic _ _ _ _
      · split
        · exact formula8_no_panic _ _ _ _
        · split
          · exact formula16_no_panic _ _ _ _
          · omega

/-! ### `layer.rs` -/

/-- every query of the list carries a non-zero `x_inv` -/
def AllNZ (qs : List LayerQuery) : Prop := ∀ q ∈ qs, q.xInvValue ≠ 0

theorem AllNZ_nil : AllNZ [] := fun _ h => by cases h

theorem AllNZ_cons {q : LayerQuery} {qs : List LayerQuery} :
    AllNZ (q :: qs) ↔ q.xInvValue ≠ 0 ∧ AllNZ qs := by
  simp [AllNZ]

theorem AllNZ_reverse {qs : List LayerQuery} (h : AllNZ qs) : AllNZ qs.reverse :=
  fun q hq => h q (List.mem_reverse.mp hq)

/-- `get_fri_group()[i]` is in range for `i < 16` -/
theorem cosetLoop_no_panic (start : Felt) (n i : ℕ) (qs : List LayerQuery) (sibs : List Felt)
    (x : Felt) (acc : List Felt) (hin : i + n ≤ 16) (s : String) :
    cosetLoop start n i qs sibs x acc ≠ .panic s := by
  induction n generalizing i qs sibs x acc with
  | zero => simp [cosetLoop]
  | succ n ih =>
    simp only [cosetLoop]
    split
    · split
      · rw [friGroup_getElem? i (by omega)]
        exact ih _ _ _ _ _ (by omega)
      · split
        · exact ih _ _ _ _ _ (by omega)
        · simp
    · split
      · exact ih _ _ _ _ _ (by omega)
      · simp

/-- the x-inverse bookkeeping of `compute_coset_elements`: the remaining queries are a suffix, and a
    non-zero running `coset_x_inv` stays non-zero -/
theorem cosetLoop_nz (start : Felt) (n i : ℕ) (qs : List LayerQuery) (sibs : List Felt)
    (x : Felt) (acc : List Felt) (r : CosetResult) (hin : i + n ≤ 16) (hq : AllNZ qs)
    (h : cosetLoop start n i qs sibs x acc = .ok r) :
    AllNZ r.queries ∧ (x ≠ 0 → r.xInv ≠ 0) := by
  induction n generalizing i qs sibs x acc with
  | zero =>
    simp only [cosetLoop, Outcome.ok.injEq] at h
    subst h; exact ⟨hq, id⟩
  | succ n ih =>
    simp only [cosetLoop] at h
    split at h
    · next q qs' =>
      split at h
      · rw [friGroup_getElem? i (by omega)] at h
        have hq' := AllNZ_cons.mp hq
        have := ih _ _ _ _ _ (by omega) hq'.2 h
        exact ⟨this.1, fun _ => this.2 (mul_ne_zero hq'.1 (friGroup_ne_zero i (by omega)))⟩
      · split at h
        · exact ih _ _ _ _ _ (by omega) hq h
        · cases h
    · split at h
      · exact ih _ _ _ _ _ (by omega) hq h
      · cases h

/-- the first query of the list lies in the coset, so it is matched and `coset_x_inv` is set to a
    product of non-zero elements -/
theorem cosetLoop_xinv_ne_zero (start : Felt) (n i : ℕ) (q : LayerQuery) (qs : List LayerQuery)
    (sibs : List Felt) (x : Felt) (acc : List Felt) (r : CosetResult) (hin : i + n ≤ 16)
    (hq : AllNZ (q :: qs)) (h : cosetLoop start n i (q :: qs) sibs x acc = .ok r)
    (hj : ∃ j, i ≤ j ∧ j < i + n ∧ q.index = start + Felt.ofNat j) : r.xInv ≠ 0 := by
  induction n generalizing i sibs x acc with
  | zero => obtain ⟨j, h1, h2, _⟩ := hj; omega
  | succ n ih =>
    obtain ⟨j, h1, h2, h3⟩ := hj
    simp only [cosetLoop] at h
    split at h
    · rw [friGroup_getElem? i (by omega)] at h
      have hq' := AllNZ_cons.mp hq
      exact (cosetLoop_nz _ _ _ _ _ _ _ _ (by omega) hq'.2 h).2
        (mul_ne_zero hq'.1 (friGroup_ne_zero i (by omega)))
    · next hne =>
      split at h
      · apply ih _ _ _ _ (by omega) h
        refine ⟨j, ?_, by omega, h3⟩
        rcases Nat.lt_or_ge i j with h | h
        · omega
        · have : i = j := by omega
          subst this; exact absurd h3 hne
      · cases h

theorem cosetElements_no_panic (qs : List LayerQuery) (sibs : List Felt) (cs start : Felt)
    (hcs : cs.val ≤ 16) (s : String) : cosetElements qs sibs cs start ≠ .panic s := by
  unfold cosetElements
  rw [if_neg (by omega)]
  exact cosetLoop_no_panic _ _ _ _ _ _ _ (by omega) _

theorem felt_ne_zero_lit {a : Felt} (h : 0 < a.val) : ¬ a = (@OfNat.ofNat Felt 0 Fin.instOfNat) := by
  rw [felt_zero_lit]
  intro h0; subst h0
  exact absurd h (by simp)

theorem pow_ne_zero_model {a : Felt} (ha : a ≠ 0) (n : Felt) : Felt.pow a n.val ≠ 0 := by
  rw [Felt.pow_val_eq]; exact pow_ne_zero _ ha

/-- `compute_next_layer`: no panic, and the next layer's queries again carry non-zero `x_inv` -/
theorem nextLayerLoop_np (cs e : Felt) (hcs : cs.val = 2 ∨ cs.val = 4 ∨ cs.val = 8 ∨ cs.val = 16) :
    ∀ (fuel : ℕ) (qs : List LayerQuery) (sibs : List Felt) (nq : List LayerQuery) (vi vy : List Felt),
      AllNZ qs → AllNZ nq →
      (∀ s, nextLayerLoop cs e fuel qs sibs nq vi vy ≠ .panic s) ∧
      (∀ r, nextLayerLoop cs e fuel qs sibs nq vi vy = .ok r → AllNZ r.nextQueries) := by
  intro fuel
  induction fuel with
  | zero => intro qs sibs nq vi vy _ _; simp [nextLayerLoop]
  | succ f ih =>
    intro qs sibs nq vi vy hqs hnq
    cases qs with
    | nil =>
      simp only [nextLayerLoop]
      refine ⟨by simp, ?_⟩
      intro r hr; injection hr with hr; subst hr; exact AllNZ_reverse hnq
    | cons q qs' =>
      rw [nextLayerLoop]
      have hpos : 0 < cs.val := by omega
      simp only
      rw [if_neg (felt_ne_zero_lit hpos)]
      split
      · next r hr =>
        split
        · next y hy =>
          have hr' := hr
          unfold cosetElements at hr'
          rw [if_neg (by omega)] at hr'
          have h1 := cosetLoop_nz _ _ _ _ _ _ _ _ (by omega) hqs hr'
          have h2 := cosetLoop_xinv_ne_zero _ _ _ _ _ _ _ _ _ (by omega) hqs hr'
            ⟨q.index.val % cs.val, Nat.zero_le _, by have := Nat.mod_lt q.index.val hpos; omega,
              index_decomp q.index cs⟩
          apply ih _ _ _ _ _ h1.1
          exact AllNZ_cons.mpr ⟨pow_ne_zero_model h2 cs, hnq⟩
        · simp
        · next s hs => exact absurd hs (friFormula_no_panic _ _ _ _ hcs _)
      · simp
      · next s hs => exact absurd hs (cosetElements_no_panic _ _ _ _ (by omega) _)

theorem computeNextLayer_np (qs : List LayerQuery) (sibs : List Felt) (cs e : Felt)
    (hcs : cs.val = 2 ∨ cs.val = 4 ∨ cs.val = 8 ∨ cs.val = 16) (hq : AllNZ qs) :
    (∀ s, computeNextLayer qs sibs cs e ≠ .panic s) ∧
    (∀ r, computeNextLayer qs sibs cs e = .ok r → AllNZ r.nextQueries) :=
  nextLayerLoop_np cs e hcs _ qs sibs [] [] [] hq AllNZ_nil

/-! ### `first_layer.rs`, `last_layer.rs` -/

theorem FGI_ne_zero : FIELD_GENERATOR_INVERSE ≠ 0 := by
  intro h
  have := field_generator_inverse
  rw [h, zero_mul] at this
  exact zero_ne_one this

/-- `gather_first_layer_queries`: the three vectors have the same length (no `unwrap` on `None`) and
    no point is zero (no division by zero) -/
theorem gatherFirstLayer_np (qs evals xs : List Felt) (hle : qs.length ≤ evals.length)
    (hlx : qs.length ≤ xs.length) (hx : ∀ x ∈ xs, x ≠ 0) :
    (∀ s, gatherFirstLayer qs evals xs ≠ .panic s) ∧
    (∀ r, gatherFirstLayer qs evals xs = .ok r → AllNZ r) := by
  induction qs generalizing evals xs with
  | nil =>
    simp only [gatherFirstLayer]
    exact ⟨by simp, fun r hr => by injection hr with hr; subst hr; exact AllNZ_nil⟩
  | cons q qs ih =>
    cases xs with
    | nil => simp at hlx
    | cons x xs' =>
      cases evals with
      | nil => simp at hle
      | cons y evals' =>
        have hx0 : x ≠ 0 := hx x (List.mem_cons_self ..)
        have hsh : x * FIELD_GENERATOR_INVERSE ≠ 0 := mul_ne_zero hx0 FGI_ne_zero
        have ih' := ih evals' xs' (by simpa using hle) (by simpa using hlx)
          (fun a ha => hx a (List.mem_cons_of_mem _ ha))
        simp only [gatherFirstLayer]
        rw [felt_zero_lit, if_neg hsh]
        constructor
        · intro s
          split
          · simp
          · next o hno =>
            intro h
            exact ih'.1 s h
        · intro r hr
          split at hr
          · next r' hr' =>
            injection hr with hr; subst hr
            refine AllNZ_cons.mpr ⟨?_, ih'.2 _ hr'⟩
            show Felt.inv (x * FIELD_GENERATOR_INVERSE) ≠ 0
            rw [Felt.inv_eq]; exact inv_ne_zero hsh
          · next o hno => exact absurd hr (hno _)

theorem verifyLastLayer_no_panic (qs : List LayerQuery) (coefs : List Felt) (hq : AllNZ qs) (s : String) :
    verifyLastLayer qs coefs ≠ .panic s := by
  induction qs with
  | nil => simp [verifyLastLayer]
  | cons q qs ih =>
    have h := AllNZ_cons.mp hq
    simp only [verifyLastLayer]
    rw [felt_zero_lit, if_neg h.1]
    split
    · simp
    · exact ih h.2

/-! ### `fri.rs` -/

theorem two_pow_model_val (st : Felt) (h1 : 1 ≤ st.val) (h4 : st.val ≤ 4) :
    (Felt.pow (@OfNat.ofNat Felt 2 Fin.instOfNat) st.val).val = 2 ∨
    (Felt.pow (@OfNat.ofNat Felt 2 Fin.instOfNat) st.val).val = 4 ∨
    (Felt.pow (@OfNat.ofNat Felt 2 Fin.instOfNat) st.val).val = 8 ∨
    (Felt.pow (@OfNat.ofNat Felt 2 Fin.instOfNat) st.val).val = 16 := by
  rw [pow2_model _ st.isLt, two_pow_val _ (by omega)]
  have : st.val = 1 ∨ st.val = 2 ∨ st.val = 3 ∨ st.val = 4 := by omega
  rcases this with h | h | h | h <;> rw [h] <;> simp

/-- `fri_verify_layers`: the per-layer vectors (commitments, evaluation points, step sizes) have at
    least `n` entries and every step is in `1..=4`; a missing WITNESS layer is an error -/
theorem verifyLayers_np (H : Hashes) (n : ℕ) (cs : List Table.Commitment) (ws : List LayerWitness)
    (es steps : List Felt) (qs : List LayerQuery)
    (hcs : n ≤ cs.length) (hes : n ≤ es.length) (hst : n ≤ steps.length)
    (hsteps : ∀ st ∈ steps.take n, 1 ≤ st.val ∧ st.val ≤ 4) (hq : AllNZ qs) :
    (∀ s, verifyLayers H n cs ws es steps qs ≠ .panic s) ∧
    (∀ r, verifyLayers H n cs ws es steps qs = .ok r → AllNZ r) := by
  induction n generalizing cs ws es steps qs with
  | zero =>
    simp only [verifyLayers]
    exact ⟨by simp, fun r hr => by injection hr with hr; subst hr; exact hq⟩
  | succ n ih =>
    cases ws with
    | nil => simp [verifyLayers]
    | cons w ws' =>
      cases cs with
      | nil => simp at hcs
      | cons c cs' =>
        cases steps with
        | nil => simp at hst
        | cons st steps' =>
          cases es with
          | nil => simp at hes
          | cons e es' =>
            have hst1 := hsteps st (by simp)
            have hcsz := two_pow_model_val st hst1.1 hst1.2
            have hnl := computeNextLayer_np qs w.leaves _ e hcsz hq
            simp only [verifyLayers]
            split
            · next nl hnl' =>
              split
              · apply ih cs' ws' es' steps' _ (by simpa using hcs) (by simpa using hes)
                  (by simpa using hst) _ (hnl.2 _ hnl')
                intro a ha; exact hsteps a (by simp [List.take_succ_cons, ha])
              · simp
              · next s hs => exact absurd hs (Swiftness.Proofs.Table.table_no_panic _ _ _ _ _)
            · simp
            · next s hs => exact absurd hs (hnl.1 s)

theorem sub_one_model_val (a : Felt) (h : 1 ≤ a.val) :
    (a - (@OfNat.ofNat Felt 1 Fin.instOfNat)).val = a.val - 1 := by
  rw [one_felt]
  have := ConfigLemmas.sub_cast_val a 1 h
  simpa using this

/-- `fri_verify` -/
theorem friVerify_no_panic (H : Hashes) (queries : List Felt) (c : Fri.Commitment) (values points : List Felt)
    (witness : List LayerWitness)
    (hn : 1 ≤ c.config.nLayers.val ∧ c.config.nLayers.val ≤ 15)
    (hsl : c.config.nLayers.val ≤ c.config.friStepSizes.length)
    (hsteps : ∀ st ∈ (c.config.friStepSizes.drop 1).take (c.config.nLayers.val - 1), 1 ≤ st.val ∧ st.val ≤ 4)
    (hcs : c.innerLayers.length = c.config.nLayers.val - 1)
    (hes : c.evalPoints.length = c.config.nLayers.val - 1)
    (hpl : queries.length ≤ points.length) (hp : ∀ x ∈ points, x ≠ 0) (s : String) :
    Fri.verify H queries c values points witness ≠ .panic s := by
  unfold Fri.verify
  split
  · simp
  · next hlen =>
    have hlen' : queries.length = values.length := by omega
    have hg := gatherFirstLayer_np queries values points (by omega) hpl hp
    have hv : (c.config.nLayers - (@OfNat.ofNat Felt 1 Fin.instOfNat)).val = c.config.nLayers.val - 1 :=
      sub_one_model_val _ hn.1
    split
    · next fq hfq =>
      rw [if_neg (by omega), hv, if_neg (by omega)]
      have hl := verifyLayers_np H (c.config.nLayers.val - 1) c.innerLayers witness c.evalPoints
        (c.config.friStepSizes.drop 1) fq (by omega) (by omega) (by simp; omega) hsteps (hg.2 _ hfq)
      split
      · next last hlast =>
        split
        · simp
        · split
          · simp
          · simp
          · next s' hs' => exact absurd hs' (verifyLastLayer_no_panic _ _ (hl.2 _ hlast) _)
      · simp
      · next s' hs' => exact absurd hs' (hl.1 _)
    · simp
    · next s' hs' => exact absurd hs' (hg.1 _)

/-! ### `fri_commit` -/

theorem commitRounds_np (H : Hashes) (n : ℕ) (t : Transcript) (cfgs : List TableConfig) (roots : List Felt)
    (hc : n ≤ cfgs.length) (hr : n ≤ roots.length) :
    (∀ s, commitRounds H n t cfgs roots ≠ .panic s) ∧
    (∀ t' cs es, commitRounds H n t cfgs roots = .ok (t', cs, es) → cs.length = n ∧ es.length = n) := by
  induction n generalizing t cfgs roots with
  | zero =>
    simp only [commitRounds]
    refine ⟨by simp, ?_⟩
    intro t' cs es h
    injection h with h
    simp only [Prod.mk.injEq] at h
    obtain ⟨_, h2, h3⟩ := h
    subst h2 h3; simp
  | succ n ih =>
    cases roots with
    | nil => simp at hr
    | cons r roots' =>
      cases cfgs with
      | nil => simp at hc
      | cons c cfgs' =>
        simp only [commitRounds]
        have ih' := ih ((t.readFelt H r).randomFelt H).2 cfgs' roots' (by simpa using hc) (by simpa using hr)
        constructor
        · intro s
          split
          · simp
          · simp
          · next s' hs' => exact absurd hs' (ih'.1 _)
        · intro t' cs es h
          split at h
          · next t3 cs' es' h' =>
            injection h with h
            simp only [Prod.mk.injEq] at h
            obtain ⟨_, h2, h3⟩ := h
            subst h2 h3
            have := ih'.2 _ _ _ h'
            simp [this.1, this.2]
          · cases h
          · cases h

end Swiftness.Proofs.NoPanic
