/-
  C11 helper lemmas, part 1: characterisation of the component validators
  (`Vector.Config.validate`, `TraceConfig.Config.validate`, `Fri.validateLoop`,
  `Fri.Config.validate`) at the level of field (`Felt`) equalities, and their panic-freedom.
-/
import Swiftness.Model.StarkConfig
import Swiftness.Spec.ConfigOK
import Swiftness.Proofs.FeltField
import Swiftness.Proofs.Pow

namespace Swiftness.Proofs.ConfigLemmas
open Swiftness Swiftness.Spec
attribute [-instance] Fin.instOfNat

/-! ### constants -/

theorem MAX_FRI_STEP_eq : Fri.MAX_FRI_STEP = 4 := rfl
theorem MIN_FRI_STEP_eq : Fri.MIN_FRI_STEP = 1 := rfl
theorem MAX_FRI_LAYERS_eq : Fri.MAX_FRI_LAYERS = 15 := rfl
theorem MIN_FRI_LAYERS_eq : Fri.MIN_FRI_LAYERS = 2 := rfl
theorem MAX_LAST_eq : Fri.MAX_LAST_LAYER_LOG_DEGREE_BOUND = 15 := rfl
theorem MAX_N_COLUMNS_eq : TraceConfig.MAX_N_COLUMNS = 128 := rfl
theorem MAX_LOG_BLOWUP_eq : StarkConfig.MAX_LOG_BLOWUP_FACTOR = 16 := rfl
theorem MAX_N_QUERIES_eq : StarkConfig.MAX_N_QUERIES = 48 := rfl

/-! ### `Vector.Config.validate` -/

theorem vector_validate_eq (v : Vector.Config) (h f : Felt) :
    v.validate h f = if v.height = h ∧ v.nFriendly = f then .ok () else .err "MisMatch" := by
  unfold Vector.Config.validate
  by_cases h1 : v.height = h <;> by_cases h2 : v.nFriendly = f <;> simp [h1, h2]

theorem vector_ok_iff (v : Vector.Config) (h f : Felt) :
    v.validate h f = .ok () ↔ v.height = h ∧ v.nFriendly = f := by
  rw [vector_validate_eq]; split <;> simp_all

theorem vector_no_panic (v : Vector.Config) (h f : Felt) (s : String) :
    v.validate h f ≠ .panic s := by
  rw [vector_validate_eq]; split <;> simp

/-! ### `TraceConfig.Config.validate` -/

theorem trace_ok_iff (c : TraceConfig.Config) (le nf n1 n2 : Felt) :
    c.validate le nf n1 n2 = .ok () ↔
      (1 ≤ c.original.nColumns.val ∧ c.original.nColumns.val ≤ 128) ∧
      (1 ≤ c.interaction.nColumns.val ∧ c.interaction.nColumns.val ≤ 128) ∧
      c.original.nColumns = n1 ∧ c.interaction.nColumns = n2 ∧
      (c.original.vector.height = le ∧ c.original.vector.nFriendly = nf) ∧
      (c.interaction.vector.height = le ∧ c.interaction.vector.nFriendly = nf) := by
  unfold TraceConfig.Config.validate
  rw [MAX_N_COLUMNS_eq, vector_validate_eq, vector_validate_eq]
  by_cases h1 : c.original.nColumns.val < 1 ∨ c.original.nColumns.val > 128
  · rw [if_pos h1]; simp; omega
  rw [if_neg h1]
  by_cases h2 : c.interaction.nColumns.val < 1 ∨ c.interaction.nColumns.val > 128
  · rw [if_pos h2]; simp; omega
  rw [if_neg h2]
  have h1' : 1 ≤ c.original.nColumns.val ∧ c.original.nColumns.val ≤ 128 := by omega
  have h2' : 1 ≤ c.interaction.nColumns.val ∧ c.interaction.nColumns.val ≤ 128 := by omega
  simp only [h1', h2', and_self, true_and]
  by_cases h3 : c.original.nColumns = n1
  · by_cases h4 : c.interaction.nColumns = n2
    · by_cases h5 : c.original.vector.height = le ∧ c.original.vector.nFriendly = nf
      · by_cases h6 : c.interaction.vector.height = le ∧ c.interaction.vector.nFriendly = nf
        · simp [h3, h4, h5, h6]
        · simp [h3, h4, h5, h6]
      · simp [h3, h4, h5]
    · simp [h3, h4]
  · simp [h3]

theorem trace_no_panic (c : TraceConfig.Config) (le nf n1 n2 : Felt) (s : String) :
    c.validate le nf n1 n2 ≠ .panic s := by
  unfold TraceConfig.Config.validate
  rw [vector_validate_eq, vector_validate_eq]
  split_ifs <;> simp

/-! ### `Fri.validateLoop` -/

/-- the model's literal `2 : Felt` -/
abbrev two' : Felt := @OfNat.ofNat Felt 2 Fin.instOfNat
/-- the model's literal `0 : Felt` -/
abbrev zero' : Felt := @OfNat.ofNat Felt 0 Fin.instOfNat

theorem zero'_eq : zero' = (0 : Felt) := by
  unfold zero'; rw [felt_ofNat, Nat.cast_zero]

/-- natural-number sum of a list of field elements -/
def natSum (l : List Felt) : ℕ := (l.map (·.val)).sum

theorem natSum_nil : natSum [] = 0 := rfl
theorem natSum_cons (s : Felt) (ss : List Felt) : natSum (s :: ss) = s.val + natSum ss := by
  simp [natSum]

/-- recursive reading of the loop at the field level: every step is in `1..=4`, the table has
    `2^step` columns, and its vector commitment has the running (field) height. -/
def LoopOK (nf : Felt) : List Felt → List Fri.TableConfig → Felt → Prop
  | [], _, _ => True
  | _ :: _, [], _ => False
  | s :: ss, tc :: tcs, lis =>
    (1 ≤ s.val ∧ s.val ≤ 4) ∧ tc.nColumns = Felt.pow two' s.val ∧
    (tc.vector.height = lis - s ∧ tc.vector.nFriendly = nf) ∧ LoopOK nf ss tcs (lis - s)

theorem validateLoop_ok_iff (nf : Felt) (ss : List Felt) (tcs : List Fri.TableConfig)
    (lis sum : Felt) (r : Felt × Felt) :
    Fri.validateLoop nf ss tcs lis sum = .ok r ↔
      LoopOK nf ss tcs lis ∧ r = (lis - ((natSum ss : ℕ) : Felt), sum + ((natSum ss : ℕ) : Felt)) := by
  induction ss generalizing tcs lis sum with
  | nil =>
    simp only [Fri.validateLoop, LoopOK, natSum_nil, Nat.cast_zero, sub_zero, add_zero, true_and]
    constructor
    · intro h; injection h with h; exact h.symm
    · intro h; rw [h]
  | cons s ss ih =>
    cases tcs with
    | nil => simp [Fri.validateLoop, LoopOK]
    | cons tc tcs =>
      unfold Fri.validateLoop LoopOK
      rw [MIN_FRI_STEP_eq, MAX_FRI_STEP_eq]
      simp only []
      rw [vector_validate_eq]
      have hsum : ((natSum (s :: ss) : ℕ) : Felt) = s + ((natSum ss : ℕ) : Felt) := by
        rw [natSum_cons]; push_cast; rw [Felt.cast_val]
      have e1 : lis - s - ((natSum ss : ℕ) : Felt) = lis - ((natSum (s :: ss) : ℕ) : Felt) := by
        rw [hsum]; ring
      have e2 : sum + s + ((natSum ss : ℕ) : Felt) = sum + ((natSum (s :: ss) : ℕ) : Felt) := by
        rw [hsum]; ring
      by_cases h1 : s.val < 1 ∨ s.val > 4
      · rw [if_pos h1]
        have : ¬ (1 ≤ s.val ∧ s.val ≤ 4) := by omega
        simp [this]
      rw [if_neg h1]
      have h1' : 1 ≤ s.val ∧ s.val ≤ 4 := by omega
      by_cases h2 : tc.nColumns = Felt.pow two' s.val
      · rw [if_neg (not_not.mpr h2)]
        by_cases h3 : tc.vector.height = lis - s ∧ tc.vector.nFriendly = nf
        · rw [if_pos h3]
          simp only [ih, e1, e2, h1', h2, h3, and_self, true_and]
        · rw [if_neg h3]
          simp [h3]
      · rw [if_pos h2]
        simp [h2]

theorem LoopOK_length (nf : Felt) (ss : List Felt) (tcs : List Fri.TableConfig) (lis : Felt)
    (h : LoopOK nf ss tcs lis) : ss.length ≤ tcs.length := by
  induction ss generalizing tcs lis with
  | nil => simp
  | cons s ss ih =>
    cases tcs with
    | nil => exact absurd h (by simp [LoopOK])
    | cons tc tcs =>
      have := ih tcs _ h.2.2.2
      simp only [List.length_cons]; omega

theorem validateLoop_no_panic (nf : Felt) (ss : List Felt) (tcs : List Fri.TableConfig)
    (lis sum : Felt) (hlen : ss.length ≤ tcs.length) (site : String) :
    Fri.validateLoop nf ss tcs lis sum ≠ .panic site := by
  induction ss generalizing tcs lis sum with
  | nil => simp [Fri.validateLoop]
  | cons s ss ih =>
    cases tcs with
    | nil => simp at hlen
    | cons tc tcs =>
      have hlen' : ss.length ≤ tcs.length := by simpa using hlen
      unfold Fri.validateLoop
      simp only []
      rw [vector_validate_eq]
      split_ifs
      · simp
      · simp
      · exact ih tcs _ _ hlen'
      · simp

/-! ### `Fri.Config.validate` -/

theorem stepSum_eq (steps : List Felt) (k : ℕ) :
    stepSum steps k = natSum ((steps.drop 1).take k) := rfl

/-- field-level acceptance condition of `fri::Config::validate` -/
def FriOKFelt (c : Fri.Config) (lnc nf deg : Felt) : Prop :=
  (2 ≤ c.nLayers.val ∧ c.nLayers.val ≤ 15) ∧ c.logLastLayerDegreeBound.val ≤ 15 ∧
  c.friStepSizes[0]? = some zero' ∧
  (c.nLayers.val ≤ c.friStepSizes.length ∧ c.nLayers.val - 1 ≤ c.innerLayers.length) ∧
  LoopOK nf ((c.friStepSizes.drop 1).take (c.nLayers.val - 1))
    (c.innerLayers.take (c.nLayers.val - 1)) c.logInputSize ∧
  deg = ((stepSum c.friStepSizes (c.nLayers.val - 1) : ℕ) : Felt) + c.logLastLayerDegreeBound ∧
  deg + lnc = c.logInputSize

theorem fri_validate_ok_iff (c : Fri.Config) (lnc nf deg : Felt) :
    c.validate lnc nf = .ok deg ↔ FriOKFelt c lnc nf deg := by
  rcases c with ⟨lis, n, inner, steps, last⟩
  unfold Fri.Config.validate FriOKFelt
  rw [MIN_FRI_LAYERS_eq, MAX_FRI_LAYERS_eq, MAX_LAST_eq]
  simp only []
  by_cases h1 : n.val < 2 ∨ n.val > 15
  · rw [if_pos h1]
    have : ¬ (2 ≤ n.val ∧ n.val ≤ 15) := by omega
    simp [this]
  rw [if_neg h1]
  have h1' : 2 ≤ n.val ∧ n.val ≤ 15 := by omega
  by_cases h2 : last.val > 15
  · rw [if_pos h2]
    have : ¬ (last.val ≤ 15) := by omega
    simp [this]
  rw [if_neg h2]
  have h2' : last.val ≤ 15 := by omega
  cases steps with
  | nil => simp
  | cons s0 steps =>
    simp only []
    by_cases h3 : s0 = zero'
    · rw [if_neg (not_not.mpr h3)]
      by_cases h4 : (s0 :: steps).length < n.val ∨ inner.length < n.val - 1
      · rw [if_pos h4]
        have : ¬ (n.val ≤ (s0 :: steps).length ∧ n.val - 1 ≤ inner.length) := by omega
        constructor
        · intro h; exact absurd h (by simp)
        · intro h; exact absurd h.2.2.2.1 this
      rw [if_neg h4]
      have h4' : n.val ≤ (s0 :: steps).length ∧ n.val - 1 ≤ inner.length := by omega
      have h3' : (s0 :: steps)[0]? = some zero' := by simp [h3]
      simp only [h1', h2', h3', h4', and_self, true_and]
      cases hL : Fri.validateLoop nf (List.take (n.val - 1) (List.drop 1 (s0 :: steps)))
          (List.take (n.val - 1) inner) lis zero' with
      | ok r =>
        rcases r with ⟨a, sum⟩
        rw [validateLoop_ok_iff] at hL
        obtain ⟨hloop, hr⟩ := hL
        injection hr with _ hsum
        simp only []
        rw [← stepSum_eq, zero'_eq, zero_add] at hsum
        subst hsum
        simp only [hloop, true_and]
        by_cases h5 : ((stepSum (s0 :: steps) (n.val - 1) : ℕ) : Felt) + last + lnc = lis
        · rw [if_neg (not_not.mpr h5)]
          constructor
          · intro h; injection h with h; subst h; exact ⟨rfl, h5⟩
          · rintro ⟨h, _⟩; rw [h]
        · rw [if_pos h5]
          constructor
          · intro h; exact absurd h (by simp)
          · rintro ⟨h, h6⟩; rw [h] at h6; exact absurd h6 h5
      | err e =>
        simp only []
        constructor
        · intro h; exact absurd h (by simp)
        · rintro ⟨hloop, _⟩
          have := (validateLoop_ok_iff nf _ _ lis zero' _).mpr ⟨hloop, rfl⟩
          rw [hL] at this; exact absurd this (by simp)
      | panic e =>
        simp only []
        constructor
        · intro h; exact absurd h (by simp)
        · rintro ⟨hloop, _⟩
          have := (validateLoop_ok_iff nf _ _ lis zero' _).mpr ⟨hloop, rfl⟩
          rw [hL] at this; exact absurd this (by simp)
    · rw [if_pos h3]
      simp [h3]

theorem fri_validate_no_panic (c : Fri.Config) (lnc nf : Felt) (site : String) :
    c.validate lnc nf ≠ .panic site := by
  rcases c with ⟨lis, n, inner, steps, last⟩
  unfold Fri.Config.validate
  simp only []
  by_cases h1 : n.val < Fri.MIN_FRI_LAYERS ∨ n.val > Fri.MAX_FRI_LAYERS
  · rw [if_pos h1]; simp
  rw [if_neg h1]
  by_cases h2 : last.val > Fri.MAX_LAST_LAYER_LOG_DEGREE_BOUND
  · rw [if_pos h2]; simp
  rw [if_neg h2]
  cases steps with
  | nil => simp
  | cons s0 steps =>
    simp only []
    by_cases h3 : s0 = zero'
    · rw [if_neg (not_not.mpr h3)]
      by_cases h4 : (s0 :: steps).length < n.val ∨ inner.length < n.val - 1
      · rw [if_pos h4]; simp
      rw [if_neg h4]
      have hlen : (List.take (n.val - 1) (List.drop 1 (s0 :: steps))).length ≤
          (List.take (n.val - 1) inner).length := by
        simp only [List.length_take]; omega
      cases hL : Fri.validateLoop nf (List.take (n.val - 1) (List.drop 1 (s0 :: steps)))
          (List.take (n.val - 1) inner) lis zero' with
      | ok r => rcases r with ⟨a, sum⟩; simp only []; split_ifs <;> simp
      | err e => simp
      | panic e => exact absurd hL (validateLoop_no_panic nf _ _ _ _ hlen e)
    · rw [if_pos h3]; simp

/-! ### `StarkConfig.validate` -/

/-- field-level acceptance condition of `StarkConfig::validate` -/
def StarkOKFelt (c : StarkConfig) (sec nc1 nc2 : Felt) : Prop :=
  (20 ≤ c.powBits ∧ c.powBits ≤ 50) ∧
  (1 ≤ c.logNCosets.val ∧ c.logNCosets.val ≤ 16) ∧
  (1 ≤ c.nQueries.val ∧ c.nQueries.val ≤ 48) ∧
  sec.val ≤ c.securityBits.val ∧
  ((1 ≤ c.traces.original.nColumns.val ∧ c.traces.original.nColumns.val ≤ 128) ∧
    (1 ≤ c.traces.interaction.nColumns.val ∧ c.traces.interaction.nColumns.val ≤ 128) ∧
    c.traces.original.nColumns = nc1 ∧ c.traces.interaction.nColumns = nc2 ∧
    (c.traces.original.vector.height = c.logTraceDomainSize + c.logNCosets ∧
      c.traces.original.vector.nFriendly = c.nFriendly) ∧
    (c.traces.interaction.vector.height = c.logTraceDomainSize + c.logNCosets ∧
      c.traces.interaction.vector.nFriendly = c.nFriendly)) ∧
  (c.composition.vector.height = c.logTraceDomainSize + c.logNCosets ∧
    c.composition.vector.nFriendly = c.nFriendly) ∧
  FriOKFelt c.fri c.logNCosets c.nFriendly c.logTraceDomainSize

theorem stark_validate_ok_iff (c : StarkConfig) (sec nc1 nc2 : Felt) :
    c.validate sec nc1 nc2 = .ok () ↔ StarkOKFelt c sec nc1 nc2 := by
  unfold StarkConfig.validate StarkOKFelt
  rw [PowLemmas.configValidate_eq, MAX_LOG_BLOWUP_eq, MAX_N_QUERIES_eq]
  by_cases h0 : 20 ≤ c.powBits ∧ c.powBits ≤ 50
  swap
  · rw [if_neg h0]; simp only [h0, false_and]; simp
  rw [if_pos h0]
  simp only []
  by_cases h1 : c.logNCosets.val ≥ 1 ∧ c.logNCosets.val ≤ 16
  swap
  · rw [if_pos h1]
    constructor
    · intro h; exact absurd h (by simp)
    · intro h; exact absurd h.2.1 h1
  rw [if_neg (not_not.mpr h1)]
  by_cases h2 : c.nQueries.val ≥ 1 ∧ c.nQueries.val ≤ 48
  swap
  · rw [if_pos h2]
    constructor
    · intro h; exact absurd h (by simp)
    · intro h; exact absurd h.2.2.1 h2
  rw [if_neg (not_not.mpr h2)]
  by_cases h3 : sec.val ≤ c.securityBits.val
  swap
  · rw [if_pos h3]
    constructor
    · intro h; exact absurd h (by simp)
    · intro h; exact absurd h.2.2.2.1 h3
  rw [if_neg (not_not.mpr h3)]
  have h1' : 1 ≤ c.logNCosets.val ∧ c.logNCosets.val ≤ 16 := h1
  have h2' : 1 ≤ c.nQueries.val ∧ c.nQueries.val ≤ 48 := h2
  simp only [h0, h1', h2', h3, and_self, true_and]
  cases hT : c.traces.validate (c.logTraceDomainSize + c.logNCosets) c.nFriendly nc1 nc2 with
  | err e =>
    simp only []
    constructor
    · intro h; exact absurd h (by simp)
    · intro h
      have := (trace_ok_iff _ _ _ _ _).mpr h.1
      rw [hT] at this; exact absurd this (by simp)
  | panic e =>
    simp only []
    constructor
    · intro h; exact absurd h (by simp)
    · intro h
      have := (trace_ok_iff _ _ _ _ _).mpr h.1
      rw [hT] at this; exact absurd this (by simp)
  | ok u =>
    cases u
    simp only []
    have hT' := (trace_ok_iff _ _ _ _ _).mp hT
    rw [and_iff_right hT', vector_validate_eq]
    by_cases h4 : c.composition.vector.height = c.logTraceDomainSize + c.logNCosets ∧
        c.composition.vector.nFriendly = c.nFriendly
    swap
    · rw [if_neg h4]
      simp only []
      constructor
      · intro h; exact absurd h (by simp)
      · intro h; exact absurd h.1 h4
    rw [if_pos h4, and_iff_right h4]
    cases hF : c.fri.validate c.logNCosets c.nFriendly with
    | err e =>
      simp only []
      constructor
      · intro h; exact absurd h (by simp)
      · intro h
        have := (fri_validate_ok_iff _ _ _ _).mpr h
        rw [hF] at this; exact absurd this (by simp)
    | panic e =>
      simp only []
      constructor
      · intro h; exact absurd h (by simp)
      · intro h
        have := (fri_validate_ok_iff _ _ _ _).mpr h
        rw [hF] at this; exact absurd this (by simp)
    | ok deg =>
      simp only []
      by_cases h5 : deg = c.logTraceDomainSize
      · rw [if_neg (not_not.mpr h5)]
        subst h5
        simp only [true_iff]
        exact (fri_validate_ok_iff _ _ _ _).mp hF
      · rw [if_pos h5]
        constructor
        · intro h; exact absurd h (by simp)
        · intro h
          have := (fri_validate_ok_iff _ _ _ _).mpr h
          rw [hF] at this; injection this with this; exact absurd this h5

theorem stark_validate_no_panic (c : StarkConfig) (sec nc1 nc2 : Felt) (site : String) :
    c.validate sec nc1 nc2 ≠ .panic site := by
  unfold StarkConfig.validate
  rw [PowLemmas.configValidate_eq]
  by_cases h0 : 20 ≤ c.powBits ∧ c.powBits ≤ 50
  swap
  · rw [if_neg h0]; simp
  rw [if_pos h0]
  simp only []
  by_cases h1 : c.logNCosets.val ≥ 1 ∧ c.logNCosets.val ≤ StarkConfig.MAX_LOG_BLOWUP_FACTOR
  swap
  · rw [if_pos h1]; simp
  rw [if_neg (not_not.mpr h1)]
  by_cases h2 : c.nQueries.val ≥ 1 ∧ c.nQueries.val ≤ StarkConfig.MAX_N_QUERIES
  swap
  · rw [if_pos h2]; simp
  rw [if_neg (not_not.mpr h2)]
  by_cases h3 : sec.val ≤ c.securityBits.val
  swap
  · rw [if_pos h3]; simp
  rw [if_neg (not_not.mpr h3)]
  cases hT : c.traces.validate (c.logTraceDomainSize + c.logNCosets) c.nFriendly nc1 nc2 with
  | err e => simp
  | panic e => exact absurd hT (trace_no_panic _ _ _ _ _ _)
  | ok u =>
    cases u
    simp only []
    cases hV : c.composition.vector.validate (c.logTraceDomainSize + c.logNCosets) c.nFriendly with
    | err e => simp
    | panic e => exact absurd hV (vector_no_panic _ _ _ _)
    | ok u =>
      cases u
      simp only []
      cases hF : c.fri.validate c.logNCosets c.nFriendly with
      | err e => simp
      | panic e => exact absurd hF (fri_validate_no_panic _ _ _ _)
      | ok deg =>
        simp only []
        by_cases h5 : deg = c.logTraceDomainSize
        · rw [if_neg (not_not.mpr h5)]; simp
        · rw [if_pos h5]; simp

end Swiftness.Proofs.ConfigLemmas
