/-
  C02 helper lemmas, part 4 (D): trailing elements appended to a FRI layer's witness LEAVES are
  never read either (`compute_next_layer` hands the unconsumed leaves back and nobody looks at
  them), so — together with `Proofs/PipelineTrailing.lean` — trailing elements appended to ANY
  witness vector that is consumed from the front keep an accepted verdict.  Core Lean only.
-/
import Swiftness.Proofs.PipelineTrailing

namespace Swiftness.Proofs.Tamper

open Swiftness Swiftness.Fri Swiftness.Proofs.Pipeline

variable {H : Hashes}

theorem cosetLoop_append (start : Felt) : ∀ (m i : Nat) (qs : List LayerQuery) (s e : List Felt)
    (x : Felt) (acc : List Felt) (r : CosetResult),
    cosetLoop start m i qs s x acc = .ok r →
    cosetLoop start m i qs (s ++ e) x acc = .ok ⟨r.elements, r.xInv, r.queries, r.siblings ++ e⟩ := by
  intro m
  induction m with
  | zero =>
    intro i qs s e x acc r h
    simp only [cosetLoop, Outcome.ok.injEq] at h ⊢
    subst h; rfl
  | succ m ih =>
    intro i qs s e x acc r h
    cases qs with
    | nil =>
      cases s with
      | nil => simp [cosetLoop] at h
      | cons a s' =>
        simp only [cosetLoop, List.cons_append] at h ⊢
        exact ih _ _ _ _ _ _ _ h
    | cons q qs' =>
      simp only [cosetLoop] at h ⊢
      by_cases hq : q.index = start + Felt.ofNat i
      · simp only [hq, if_true] at h ⊢
        cases hg : friGroup[i]? with
        | none => simp [hg] at h
        | some g =>
          simp only [hg] at h ⊢
          exact ih _ _ _ _ _ _ _ h
      · simp only [hq, if_false] at h ⊢
        cases s with
        | nil => simp at h
        | cons a s' =>
          simp only [List.cons_append] at h ⊢
          exact ih _ _ _ _ _ _ _ h

theorem nextLayerLoop_append (n ev : Felt) : ∀ (fuel : Nat) (qs : List LayerQuery) (s e : List Felt)
    (nq : List LayerQuery) (vi vy : List Felt) (r : NextLayer),
    nextLayerLoop n ev fuel qs s nq vi vy = .ok r →
    nextLayerLoop n ev fuel qs (s ++ e) nq vi vy =
      .ok ⟨r.nextQueries, r.verifyIndices, r.verifyYValues, r.siblingsLeft ++ e⟩ := by
  intro fuel
  induction fuel with
  | zero => intro qs s e nq vi vy r h; simp [nextLayerLoop] at h
  | succ fuel ih =>
    intro qs s e nq vi vy r h
    cases qs with
    | nil =>
      simp only [nextLayerLoop, Outcome.ok.injEq] at h ⊢
      subst h; rfl
    | cons q qs' =>
      simp only [nextLayerLoop] at h ⊢
      split at h
      · cases h
      · next hn0 =>
        rw [if_neg hn0]
        cases hc : cosetElements (q :: qs') s n (Felt.ofNat (q.index.val / n.val) * n) with
        | err x => simp [hc] at h
        | panic x => simp [hc] at h
        | ok r0 =>
          simp only [hc] at h
          have hc' : cosetElements (q :: qs') (s ++ e) n (Felt.ofNat (q.index.val / n.val) * n) =
              .ok ⟨r0.elements, r0.xInv, r0.queries, r0.siblings ++ e⟩ := by
            unfold cosetElements at hc ⊢
            split at hc
            · cases hc
            · next hlt =>
              rw [if_neg hlt]
              exact cosetLoop_append _ _ _ _ _ _ _ _ _ hc
          simp only [hc']
          cases hf : friFormula r0.elements ev r0.xInv n with
          | err x => simp [hf] at h
          | panic x => simp [hf] at h
          | ok y =>
            simp only [hf] at h ⊢
            exact ih _ _ _ _ _ _ _ h

/-- appending to the leaves: same next queries, same coset indices, same rows; the appended
    elements are handed back unread -/
theorem computeNextLayer_append (qs : List LayerQuery) (s e : List Felt) (n ev : Felt)
    (r : NextLayer) (h : computeNextLayer qs s n ev = .ok r) :
    computeNextLayer qs (s ++ e) n ev =
      .ok ⟨r.nextQueries, r.verifyIndices, r.verifyYValues, r.siblingsLeft ++ e⟩ :=
  nextLayerLoop_append n ev _ _ _ _ _ _ _ _ h

/-- append `el[i]` to the leaves and `ef[i]` to the authentication nodes of the `i`-th FRI layer
    witness (nothing where the lists are too short) -/
def padWitness : List LayerWitness → List (List Felt) → List (List Felt) → List LayerWitness
  | [], _, _ => []
  | w :: ws, el, ef =>
    ⟨w.leaves ++ el.headD [], w.auths ++ ef.headD []⟩ :: padWitness ws el.tail ef.tail

theorem verifyLayers_padWitness : ∀ (n : Nat) (cs : List Table.Commitment) (ws : List LayerWitness)
    (es steps : List Felt) (qs r : List LayerQuery) (el ef : List (List Felt))
    (more : List LayerWitness),
    verifyLayers H n cs ws es steps qs = .ok r →
    verifyLayers H n cs (padWitness ws el ef ++ more) es steps qs = .ok r := by
  intro n
  induction n with
  | zero => intro cs ws es steps qs r el ef more h; simpa [verifyLayers] using h
  | succ n ih =>
    intro cs ws es steps qs r el ef more h
    cases ws with
    | nil => simp [verifyLayers] at h
    | cons w ws' =>
      simp only [padWitness, List.cons_append]
      unfold verifyLayers at h ⊢
      simp only [] at h ⊢
      cases cs with
      | nil => simp at h
      | cons c cs' =>
        cases steps with
        | nil => simp at h
        | cons st steps' =>
          cases es with
          | nil => simp at h
          | cons ev es' =>
            simp only [] at h ⊢
            split at h
            · next nl hnl =>
              rw [computeNextLayer_append _ _ (el.headD []) _ _ _ hnl]
              simp only []
              split at h
              · next hdec =>
                rw [table_decommit_append _ _ _ _ (ef.headD []) hdec]
                exact ih _ _ _ _ _ _ _ _ _ h
              · simp at h
              · simp at h
            · simp at h
            · simp at h

theorem fri_verify_padWitness {queries : List Felt} {c : Fri.Commitment} {values points : List Felt}
    {w : List LayerWitness} (el ef : List (List Felt)) (more : List LayerWitness)
    (h : Fri.verify H queries c values points w = .ok ()) :
    Fri.verify H queries c values points (padWitness w el ef ++ more) = .ok () := by
  unfold Fri.verify at h ⊢
  split at h
  · simp at h
  · next hl =>
    rw [if_neg hl]
    split at h
    · next fq hfq =>
      split at h
      · simp at h
      · next h1 =>
        rw [if_neg h1]
        split at h
        · simp at h
        · next h2 =>
          rw [if_neg h2]
          split at h
          · next last hlast =>
            rw [verifyLayers_padWitness _ _ _ _ _ _ _ el ef more hlast]
            exact h
          · simp at h
          · simp at h
    · simp at h
    · simp at h

/-- **D.**  Appending arbitrary elements to the three table authentication lists, to the LEAVES
    and to the authentication list of every FRI layer witness, and appending further FRI layer
    witnesses, keeps an accepted verdict (and its result). -/
theorem verify_pad_all {L : LayoutOps} {stone6 : Bool} {p : Stark.Proof} {sec : Felt}
    {r : Felt × Felt} (hok : Stark.verify L H stone6 p sec = .ok r) (e1 e2 e3 : List Felt)
    (el ef : List (List Felt)) (more : List LayerWitness) :
    Stark.verify L H stone6
      { p with witness :=
        { p.witness with
          tracesOriginalAuths := p.witness.tracesOriginalAuths ++ e1
          tracesInteractionAuths := p.witness.tracesInteractionAuths ++ e2
          compositionAuths := p.witness.compositionAuths ++ e3
          friLayers := padWitness p.witness.friLayers el ef ++ more } } sec = .ok r := by
  obtain ⟨n1, n2, d, t', c, qs, tq, A⟩ := verify_ok_elim hok
  obtain ⟨h1, h2, h3, h4, points, evals, h5, h6, h7⟩ := verifyPhase_ok_elim A.phase
  refine verify_ok_intro (n1 := n1) (n2 := n2) (d := d) (t' := t') (c := c) (queries := qs)
    (tq := tq) ⟨A.cols1, A.cols2, A.config, A.domains, A.publicInput, A.commit, A.sampled, ?_,
      A.result⟩
  exact verifyPhase_ok_intro (points := points) (evals := evals)
    (table_decommit_append _ _ _ _ e1 h1) (table_decommit_append _ _ _ _ e2 h2)
    (table_decommit_append _ _ _ _ e3 h3) h4 h5 h6 (fri_verify_padWitness el ef more h7)

/-! ### trailing FRI inner-layer commitments -/

theorem commitRounds_append : ∀ (n : Nat) (t : Transcript) (cfgs : List TableConfig)
    (roots e : List Felt) (res : Transcript × List Table.Commitment × List Felt),
    commitRounds H n t cfgs roots = .ok res → commitRounds H n t cfgs (roots ++ e) = .ok res := by
  intro n
  induction n with
  | zero => intro t cfgs roots e res h; simpa [commitRounds] using h
  | succ n ih =>
    intro t cfgs roots e res h
    unfold commitRounds at h ⊢
    cases roots with
    | nil => simp at h
    | cons r roots' =>
      cases cfgs with
      | nil => simp at h
      | cons c cfgs' =>
        simp only [List.cons_append] at h ⊢
        split at h
        · next t3 cs es heq =>
          rw [ih _ _ _ e _ heq]
          exact h
        · simp at h
        · simp at h

theorem fri_commit_append {t t' : Transcript} {roots coefs : List Felt} {cfg : Config}
    {fc : Commitment} (e : List Felt) (h : Fri.commit H t roots coefs cfg = .ok (t', fc)) :
    Fri.commit H t (roots ++ e) coefs cfg = .ok (t', fc) := by
  unfold Fri.commit at h ⊢
  split at h
  · simp at h
  · next h1 =>
    rw [if_neg h1]
    split at h
    · simp at h
    · next h2 =>
      rw [if_neg h2]
      split at h
      · next t1 cs es heq =>
        rw [commitRounds_append _ _ _ _ e _ heq]
        exact h
      · simp at h
      · simp at h

theorem ofNat_add_one_val' {n : Nat} (h : n + 1 < P) : (Felt.ofNat n + 1).val = n + 1 := by
  have h1 : (1 : Felt).val = 1 := rfl
  have h2 : (Felt.ofNat n).val = n := Nat.mod_eq_of_lt (by omega)
  rw [Fin.val_add, h1, h2]
  exact Nat.mod_eq_of_lt h

/-- unused trailing FRI inner-layer commitments are not read by `stark_commit` -/
theorem commit_append_inner {L : LayoutOps} {t t' : Transcript} {pi : PublicInput}
    {u : Stark.UnsentCommitment} {cfg : StarkConfig} {d : StarkDomains} {c : Stark.Commitment}
    (e : List Felt) (hlen : u.friInnerLayers.length + e.length + 1 < P)
    (h : Stark.commit L H t pi u cfg d = .ok (t', c)) :
    Stark.commit L H t pi { u with friInnerLayers := u.friInnerLayers ++ e } cfg d = .ok (t', c) := by
  unfold Stark.commit at h ⊢
  simp only at h ⊢
  split at h
  · simp at h
  · simp at h
  · split at h
    · simp at h
    · next hshape =>
      have hs := Decidable.not_not.mp hshape
      have hge : (Felt.ofNat (u.friInnerLayers ++ e).length + 1).val ≥ cfg.fri.nLayers.val := by
        rw [List.length_append, ofNat_add_one_val' hlen]
        have := hs.1
        rw [ofNat_add_one_val' (by omega)] at this
        omega
      rw [if_neg (by exact fun hn => hn ⟨hge, hs.2⟩)]
      split at h
      · simp at h
      · simp at h
      · next tf fc hfri =>
        rw [fri_commit_append e hfri]
        exact h

/-- … so appending them keeps an accepted verdict -/
theorem verify_append_inner {L : LayoutOps} {stone6 : Bool} {p : Stark.Proof} {sec : Felt}
    {r : Felt × Felt} (hok : Stark.verify L H stone6 p sec = .ok r) (e : List Felt)
    (hlen : p.unsent.friInnerLayers.length + e.length + 1 < P) :
    Stark.verify L H stone6
      { p with unsent := { p.unsent with friInnerLayers := p.unsent.friInnerLayers ++ e } } sec
      = .ok r := by
  obtain ⟨n1, n2, d, t', c, qs, tq, A⟩ := verify_ok_elim hok
  exact verify_ok_intro (n1 := n1) (n2 := n2) (d := d) (t' := t') (c := c) (queries := qs)
    (tq := tq) ⟨A.cols1, A.cols2, A.config, A.domains, A.publicInput,
      commit_append_inner e hlen A.commit, A.sampled, A.phase, A.result⟩

end Swiftness.Proofs.Tamper
