/-
  C06b (FRI completeness), part 3: induction over the step list.
  * `commitRounds_spec`   — `fri_commit_rounds` replays the prover's transcript;
  * `verifyLayers_spec`   — `fri_verify_layers` accepts every honest layer and ends with the honest
                            queries of the last polynomial;
  * `last_length_le`      — folding keeps the degree bound.
-/
import Swiftness.Proofs.FriCompleteLayer

namespace Swiftness.Proofs.FriComplete
open Swiftness Fri FoldSpec Prover
attribute [-instance] Fin.instOfNat

/-! ### unfolding the prover -/

/-- the committed (spec) root of the layer of `cs` on the domain of log-size `L`, cosets of size `2^k` -/
def layerRoot (H : Hashes) (nf : Felt) (k L : ℕ) (cs : List Felt) : Felt :=
  TableSpec.tableRoot H nf (L - k) (2 ^ k) (fun r c => evalL cs (layerPoint L (r * 2 ^ k + c)))

def layerAuth (H : Hashes) (nf : Felt) (k L : ℕ) (cs : List Felt) (Q : List ℕ) : List Felt :=
  Merkle.authPath H nf (L - k)
    (TableSpec.tableLeaf H nf (L - k) (2 ^ k) (fun r c => evalL cs (layerPoint L (r * 2 ^ k + c))))
    (cosetIdx (2 ^ k) Q)

/-- the challenge drawn after absorbing `root` -/
def challenge (H : Hashes) (t : Transcript) (root : Felt) : Felt := ((t.readFelt H root).randomFelt H).1

/-- the transcript after absorbing `root` and drawing the challenge -/
def afterRound (H : Hashes) (t : Transcript) (root : Felt) : Transcript :=
  ((t.readFelt H root).randomFelt H).2

theorem friLayersSpec_nil (H : Hashes) (nf : Felt) (L : ℕ) (cs : List Felt) (Q : List ℕ)
    (t : Transcript) : friLayersSpec H nf [] L cs Q t = ([], [], [], cs, t) := rfl

theorem friLayersSpec_cons (H : Hashes) (nf : Felt) (k : ℕ) (steps : List ℕ) (L : ℕ) (cs : List Felt)
    (Q : List ℕ) (t : Transcript) :
    friLayersSpec H nf (k :: steps) L cs Q t =
      (layerRoot H nf k L cs ::
        (friLayersSpec H nf steps (L - k) (foldPoly k (challenge H t (layerRoot H nf k L cs)) cs)
          (cosetIdx (2 ^ k) Q) (afterRound H t (layerRoot H nf k L cs))).1,
       challenge H t (layerRoot H nf k L cs) ::
        (friLayersSpec H nf steps (L - k) (foldPoly k (challenge H t (layerRoot H nf k L cs)) cs)
          (cosetIdx (2 ^ k) Q) (afterRound H t (layerRoot H nf k L cs))).2.1,
       ⟨layerRoot H nf k L cs,
        expectedSiblings (2 ^ k) (fun idx => evalL cs (layerPoint L idx)) (cosetIdx (2 ^ k) Q) Q,
        layerAuth H nf k L cs Q⟩ ::
        (friLayersSpec H nf steps (L - k) (foldPoly k (challenge H t (layerRoot H nf k L cs)) cs)
          (cosetIdx (2 ^ k) Q) (afterRound H t (layerRoot H nf k L cs))).2.2.1,
       (friLayersSpec H nf steps (L - k) (foldPoly k (challenge H t (layerRoot H nf k L cs)) cs)
          (cosetIdx (2 ^ k) Q) (afterRound H t (layerRoot H nf k L cs))).2.2.2.1,
       (friLayersSpec H nf steps (L - k) (foldPoly k (challenge H t (layerRoot H nf k L cs)) cs)
          (cosetIdx (2 ^ k) Q) (afterRound H t (layerRoot H nf k L cs))).2.2.2.2) := rfl

/-! ### configuration pieces -/

/-- table configurations of the inner layers: `2^s` columns, height = remaining log-size -/
def innerCfgs (nf : Felt) : List ℕ → ℕ → List TableConfig
  | [], _ => []
  | s :: ss, L => ⟨Felt.ofNat (2 ^ s), ⟨Felt.ofNat (L - s), nf⟩⟩ :: innerCfgs nf ss (L - s)

theorem innerCfgs_length (nf : Felt) (steps : List ℕ) (L : ℕ) :
    (innerCfgs nf steps L).length = steps.length := by
  induction steps generalizing L with
  | nil => rfl
  | cons s ss ih => simp [innerCfgs, ih]

/-- the commitments `fri_commit_rounds` builds from configurations and roots -/
def mkComms : List TableConfig → List Felt → List Table.Commitment
  | c :: cs, r :: rs => ⟨c.nColumns, ⟨c.vector, r⟩⟩ :: mkComms cs rs
  | _, _ => []

/-! ### (a) commit rounds replay the transcript -/

theorem commitRounds_spec (H : Hashes) (nf : Felt) (steps : List ℕ) :
    ∀ (L : ℕ) (cs : List Felt) (Q : List ℕ) (t : Transcript) (tcs : List TableConfig),
      tcs.length = steps.length →
      commitRounds H steps.length t tcs (friLayersSpec H nf steps L cs Q t).1
        = .ok ((friLayersSpec H nf steps L cs Q t).2.2.2.2,
               mkComms tcs (friLayersSpec H nf steps L cs Q t).1,
               (friLayersSpec H nf steps L cs Q t).2.1) := by
  induction steps with
  | nil =>
    intro L cs Q t tcs _
    simp only [friLayersSpec_nil, List.length_nil, commitRounds]
    cases tcs <;> rfl
  | cons k steps ih =>
    intro L cs Q t tcs htcs
    match tcs, htcs with
    | c :: tcs, htcs =>
      have htcs' : tcs.length = steps.length := by simpa using htcs
      rw [friLayersSpec_cons]
      simp only [List.length_cons, commitRounds]
      have := ih (L - k) (foldPoly k (challenge H t (layerRoot H nf k L cs)) cs) (cosetIdx (2 ^ k) Q)
        (afterRound H t (layerRoot H nf k L cs)) tcs htcs'
      simp only [afterRound, challenge] at this ⊢
      rw [this]
      rfl

/-! ### (c) all layers -/

theorem verifyLayers_cons (H : Hashes) (n : ℕ) (c : Table.Commitment) (cs' : List Table.Commitment)
    (w : LayerWitness) (ws' : List LayerWitness) (e : Felt) (es' : List Felt) (st : Felt)
    (steps' : List Felt) (qs : List LayerQuery) (nl : NextLayer)
    (h1 : computeNextLayer qs w.leaves (Felt.pow (@OfNat.ofNat Felt 2 Fin.instOfNat) st.val) e = .ok nl)
    (h2 : Table.decommit H c nl.verifyIndices nl.verifyYValues w.auths = .ok ()) :
    verifyLayers H (n + 1) (c :: cs') (w :: ws') (e :: es') (st :: steps') qs
      = verifyLayers H n cs' ws' es' steps' nl.nextQueries := by
  simp only [verifyLayers, h1, h2]

theorem verifyLayers_spec (H : Hashes) (nf : Felt) (steps : List ℕ) :
    ∀ (L : ℕ) (cs : List Felt) (Q : List ℕ) (t : Transcript),
      (∀ s ∈ steps, 1 ≤ s ∧ s ≤ 4) → steps.sum ≤ L → L ≤ 64 → Q ≠ [] → Q.Pairwise (· < ·) →
      (∀ q ∈ Q, q < 2 ^ L) →
      ∃ Q' : List ℕ,
        verifyLayers H steps.length
          (mkComms (innerCfgs nf steps L) (friLayersSpec H nf steps L cs Q t).1)
          ((friLayersSpec H nf steps L cs Q t).2.2.1.map fun l => ⟨l.leaves, l.auths⟩)
          (friLayersSpec H nf steps L cs Q t).2.1
          (steps.map Felt.ofNat)
          (honestQueries cs L Q)
        = .ok (honestQueries (friLayersSpec H nf steps L cs Q t).2.2.2.1 (L - steps.sum) Q') := by
  induction steps with
  | nil =>
    intro L cs Q t _ _ _ _ _ _
    exact ⟨Q, by simp [friLayersSpec_nil, verifyLayers]⟩
  | cons k steps ih =>
    intro L cs Q t hsteps hsum hL hne hQ hQb
    have hk := hsteps k (List.mem_cons_self ..)
    have hsum' : k + steps.sum ≤ L := by simpa using hsum
    have hkL : k ≤ L := by omega
    obtain ⟨Q', hQ'⟩ := ih (L - k) (foldPoly k (challenge H t (layerRoot H nf k L cs)) cs)
      (cosetIdx (2 ^ k) Q) (afterRound H t (layerRoot H nf k L cs))
      (fun s hs => hsteps s (List.mem_cons_of_mem _ hs)) (by omega) (by omega)
      (cosetIdx_ne_nil _ Q hne) (cosetIdx_pairwise _ Q hQ) (cosetIdx_lt k L hkL Q hQb)
    refine ⟨Q', ?_⟩
    rw [friLayersSpec_cons]
    simp only [List.length_cons, List.map_cons, innerCfgs, mkComms, List.sum_cons]
    have h1 := one_layer_next k L hk.1 hk.2 hkL hL cs (challenge H t (layerRoot H nf k L cs)) Q hQ hQb
    have h2 := one_layer_decommit H nf k L hk.2 hkL hL (fun idx => evalL cs (layerPoint L idx)) Q hne
      hQ hQb
    refine (verifyLayers_cons H steps.length _ _ ⟨_, _⟩ _ _ _ _ _ _ _ h1 h2).trans ?_
    rw [hQ', Nat.sub_sub]

/-! ### the degree bound -/

theorem last_length_le (H : Hashes) (nf : Felt) (steps : List ℕ) :
    ∀ (L : ℕ) (cs : List Felt) (Q : List ℕ) (t : Transcript) (d : ℕ),
      cs.length ≤ 2 ^ (steps.sum + d) →
      (friLayersSpec H nf steps L cs Q t).2.2.2.1.length ≤ 2 ^ d := by
  induction steps with
  | nil =>
    intro L cs Q t d h
    simpa [friLayersSpec_nil] using h
  | cons k steps ih =>
    intro L cs Q t d h
    rw [friLayersSpec_cons]
    apply ih
    apply foldPoly_length_le
    rw [← add_assoc]
    simpa using h

end Swiftness.Proofs.FriComplete
