/-
  Meaning of `checkCoverage` (property C16: "no coefficient position is dropped or shared"), and the
  `++`-homomorphism lemmas that let the kernel check the big generated programs chunk by chunk.
-/
import Swiftness.Model.AstCheck
import Mathlib.Data.List.Nodup
import Mathlib.Data.List.Range

namespace Swiftness.Proofs.AstLinear
open Swiftness Swiftness.Ast

/-! ### `sortNat` is a permutation -/

theorem count_insertNat (x i : Nat) (l : List Nat) :
    (insertNat x l).count i = (x :: l).count i := by
  induction l with
  | nil => rfl
  | cons y ys ih =>
    unfold insertNat
    split
    · rfl
    · simp only [List.count_cons, ih]
      omega

theorem count_sortNat (i : Nat) (l : List Nat) : (sortNat l).count i = l.count i := by
  induction l with
  | nil => rfl
  | cons x xs ih =>
    simp only [sortNat, count_insertNat, List.count_cons, ih]

theorem length_insertNat (x : Nat) (l : List Nat) : (insertNat x l).length = l.length + 1 := by
  induction l with
  | nil => rfl
  | cons y ys ih =>
    unfold insertNat
    split
    · rfl
    · simp only [List.length_cons, ih]

theorem length_sortNat (l : List Nat) : (sortNat l).length = l.length := by
  induction l with
  | nil => rfl
  | cons x xs ih => simp only [sortNat, length_insertNat, List.length_cons, ih]

theorem count_range (n i : Nat) : (List.range n).count i = if i < n then 1 else 0 := by
  split
  · next h => exact List.count_eq_one_of_mem List.nodup_range (List.mem_range.2 h)
  · next h => exact List.count_eq_zero.2 (fun hm => h (List.mem_range.1 hm))

/-- Every coefficient position `i < n` is consumed by exactly one accumulate statement (none
    dropped, none shared), no position `≥ n` is consumed, and there are exactly `n` accumulate
    statements. -/
theorem coverage_spec_full (p : Prog) (n : Nat) (h : checkCoverage p n = true) :
    (∀ i, i < n → (accIndices p).count i = 1) ∧
    (∀ i, n ≤ i → (accIndices p).count i = 0) ∧
    (accIndices p).length = n := by
  unfold checkCoverage isRange at h
  have hs : sortNat (accIndices p) = List.range n := by simpa using h
  have hc : ∀ i, (accIndices p).count i = if i < n then 1 else 0 := by
    intro i
    rw [← count_sortNat, hs, count_range]
  refine ⟨fun i hi => by rw [hc, if_pos hi], fun i hi => by rw [hc, if_neg (by omega)], ?_⟩
  rw [← length_sortNat, hs, List.length_range]

theorem coverage_spec (p : Prog) (n : Nat) (h : checkCoverage p n = true) :
    ∀ i, i < n → (accIndices p).count i = 1 :=
  (coverage_spec_full p n h).1

/-! ### `++` homomorphisms (used to split the kernel evaluation along the generated chunks) -/

theorem accIndices_append (p q : Prog) : accIndices (p ++ q) = accIndices p ++ accIndices q := by
  induction p with
  | nil => rfl
  | cons g rest ih =>
    obtain ⟨gs, st⟩ := g
    cases st with
    | set s e => simpa only [List.cons_append, accIndices] using ih
    | acc dst src i e => simp only [List.cons_append, accIndices, ih]

theorem accGuards_append (p q : Prog) : accGuards (p ++ q) = accGuards p ++ accGuards q := by
  induction p with
  | nil => rfl
  | cons g rest ih =>
    obtain ⟨gs, st⟩ := g
    cases st with
    | set s e => simpa only [List.cons_append, accGuards] using ih
    | acc dst src i e => simp only [List.cons_append, accGuards, ih]

theorem checkLinear_append (p q : Prog) (A res : Nat) :
    checkLinear (p ++ q) A res = (checkLinear p A res && q.all (GStmt.linearOK A)) := by
  simp only [checkLinear, List.all_append, Bool.and_assoc]

/-- In-order streaming coverage check: the `acc` indices of `p` are `k, k+1, …` in program order;
    returns the next expected index.  (All seven layouts accumulate in increasing order, which makes
    the check compositional along `++` with a single natural number of state.) -/
def accFrom : Prog → Nat → Option Nat
  | [], k => some k
  | ⟨_, .acc _ _ i _⟩ :: rest, k => if i = k then accFrom rest (i + 1) else none
  | _ :: rest, k => accFrom rest k

theorem accFrom_append (p q : Prog) (k : Nat) :
    accFrom (p ++ q) k = (accFrom p k).bind (accFrom q) := by
  induction p generalizing k with
  | nil => rfl
  | cons g rest ih =>
    obtain ⟨gs, st⟩ := g
    cases st with
    | set s e => simpa only [List.cons_append, accFrom] using ih k
    | acc dst src i e =>
      simp only [List.cons_append, accFrom]
      split
      · exact ih _
      · rfl

theorem accFrom_spec (p : Prog) (k k' : Nat) (h : accFrom p k = some k') :
    k ≤ k' ∧ accIndices p = List.range' k (k' - k) := by
  induction p generalizing k with
  | nil =>
    simp only [accFrom, Option.some.injEq] at h
    subst h
    simp [accIndices]
  | cons g rest ih =>
    obtain ⟨gs, st⟩ := g
    cases st with
    | set s e => simpa only [accFrom, accIndices] using ih k h
    | acc dst src i e =>
      simp only [accFrom] at h
      split at h
      · next hik =>
        subst hik
        obtain ⟨hle, hrest⟩ := ih (i + 1) h
        refine ⟨by omega, ?_⟩
        simp only [accIndices, hrest]
        have : k' - i = (k' - (i + 1)) + 1 := by omega
        rw [this, List.range'_succ]
      · exact absurd h (by simp)

theorem sortNat_range' (k n : Nat) : sortNat (List.range' k n) = List.range' k n := by
  induction n generalizing k with
  | zero => rfl
  | succ n ih =>
    rw [List.range'_succ]
    simp only [sortNat, ih]
    cases n with
    | zero => rfl
    | succ m =>
      rw [List.range'_succ]
      unfold insertNat
      rw [if_pos (by omega)]

/-- in-order coverage implies `checkCoverage` -/
theorem checkCoverage_of_accFrom (p : Prog) (n : Nat) (h : accFrom p 0 = some n) :
    checkCoverage p n = true := by
  obtain ⟨-, hacc⟩ := accFrom_spec p 0 n h
  unfold checkCoverage isRange
  rw [hacc, sortNat_range', Nat.sub_zero, List.range_eq_range']
  simp

/-! ### guards of the accumulate statements (dynamic layout: the optional-builtin switches) -/

/-- the distinct guard slots under which some coefficient is accumulated, in order of appearance -/
def accGuardSlots (p : Prog) : List Nat := ((accGuards p).flatMap (·.2)).eraseDups

/-- the statements of `p` that write slot `g` -/
def writers (p : Prog) (g : Nat) : Prog :=
  p.filter fun s => match s.stmt with
    | .set d _ => d == g
    | .acc d _ _ _ => d == g

/-- `l` is exactly one unconditional statement `g := felt!(dynamic_params.<field j>)`; returns `j` -/
def isFlagLoad (g : Nat) : Prog → Option Nat
  | [⟨[], .set d (.dp j)⟩] => if d = g then some j else none
  | _ => none

/-- for every guard slot: the index of the dynamic parameter it is (only ever) loaded from, or `none`
    if the slot is written in any other way -/
def accGuardParams (p : Prog) : List (Option Nat) :=
  (accGuardSlots p).map fun g => isFlagLoad g (writers p g)

theorem writers_append (p q : Prog) (g : Nat) : writers (p ++ q) g = writers p g ++ writers q g := by
  simp only [writers, List.filter_append]

/-! ### tactics for the per-layout kernel checks

  The generated programs are `chunk_0 ++ chunk_1 ++ … ++ chunk_k` (left-nested).  Kernel evaluation
  of a list function on such a term costs `O(length · k)`; distributing the function over `++`
  first (by the homomorphism lemmas above, whatever `k` is) makes it linear. -/

/-- `ast_linear f` proves `checkLinear f A res = true` -/
macro "ast_linear " f:ident : tactic =>
  `(tactic| (unfold $f; (try simp only [checkLinear_append]); decide +kernel))

/-- `ast_coverage f` proves `checkCoverage f n = true` -/
macro "ast_coverage " f:ident : tactic =>
  `(tactic| first
    | (apply checkCoverage_of_accFrom; unfold $f; (try simp only [accFrom_append]); decide +kernel)
    | (unfold $f; (try simp only [checkCoverage, accIndices_append]); decide +kernel))

/-- no statement of `p` is conditional -/
def unguarded (p : Prog) : Bool := p.all fun g => g.guards.isEmpty

theorem unguarded_append (p q : Prog) : unguarded (p ++ q) = (unguarded p && unguarded q) := by
  simp only [unguarded, List.all_append]

/-- `ast_unguarded f` proves `unguarded f = true` -/
macro "ast_unguarded " f:ident : tactic =>
  `(tactic| (unfold $f; (try simp only [unguarded_append]); decide +kernel))

end Swiftness.Proofs.AstLinear
