/-
  Table decommitment: reduction to the vector decommitment theorems (C04) plus row-level
  injectivity (Montgomery factor, fixed-length byte encoding) up to explicit row-hash collisions.
-/
import Swiftness.Spec.TableSpec
import Swiftness.Proofs.MerkleDecommit
import Swiftness.Proofs.MerkleBytes
import Swiftness.Proofs.TableMont

namespace Swiftness.Proofs.Table

open Swiftness Swiftness.Merkle Swiftness.TableSpec Swiftness.Proofs.Merkle

variable {H : Hashes}

/-! ### rows -/

theorem montRow_length (cell : Nat → Nat → Felt) (n r : Nat) : (montRow cell n r).length = n := by
  simp [montRow]

theorem montRow_eq_map (cell : Nat → Nat → Felt) (n r : Nat) :
    montRow cell n r = ((List.range n).map (cell r)).map (· * Table.MONTGOMERY_R) := by
  simp [montRow, Function.comp_def]

theorem rowHash_eq_rowLeaf {n : Nat} {fr : Bool} {row : List Felt} (hl : row.length = n) :
    Table.rowHash H n fr row = rowLeaf H fr row := by
  unfold Table.rowHash
  by_cases h1 : n = 1
  · subst h1
    match row, hl with
    | [v], _ => simp [rowLeaf]
  · rw [if_neg h1]
    match row, hl with
    | [], _ => rfl
    | [v], hl => simp at hl; omega
    | a :: b :: t, _ => rfl

theorem map_mont_injective {r r' : List Felt}
    (h : r.map (· * Table.MONTGOMERY_R) = r'.map (· * Table.MONTGOMERY_R)) : r = r' := by
  induction r generalizing r' with
  | nil => cases r' with
    | nil => rfl
    | cons b r' => simp at h
  | cons a r ih => cases r' with
    | nil => simp at h
    | cons b r' =>
      simp only [List.map_cons, List.cons.injEq] at h
      rw [montgomery_injective h.1, ih h.2]

/-- a collision of the row hash actually in use: none for single-column tables, `poseidonMany` for
    a friendly table layer, the masked hash otherwise -/
def RowCollision (H : Hashes) (n : Nat) (fr : Bool) : Prop :=
  n ≠ 1 ∧ if fr then ManyCollision H else MaskedCollision H

theorem RowCollision.weaken {n : Nat} {fr : Bool} (h : RowCollision H n fr) :
    ManyCollision H ∨ MaskedCollision H := by
  cases fr with
  | false => exact Or.inr (by simpa using h.2)
  | true => exact Or.inl (by simpa using h.2)

/-- equal row hashes of two rows of the declared length: equal rows, or an explicit collision -/
theorem rowHash_inj {n : Nat} {fr : Bool} {r r' : List Felt} (hl : r.length = n)
    (hl' : r'.length = n) (he : Table.rowHash H n fr r = Table.rowHash H n fr r') :
    r = r' ∨ RowCollision H n fr := by
  unfold Table.rowHash at he
  by_cases h1 : n = 1
  · subst h1
    match r, r', hl, hl' with
    | [a], [b], _, _ =>
      simp at he
      left; rw [he]
  · rw [if_neg h1, if_neg h1] at he
    cases fr with
    | false =>
      simp only [Bool.false_eq_true, if_false] at he
      by_cases hb : r.flatMap Felt.toBytesBE = r'.flatMap Felt.toBytesBE
      · left; exact rowPreimage_injective (hl.trans hl'.symm) hb
      · right; exact ⟨h1, by simpa using ⟨_, _, hb, he⟩⟩
    | true =>
      simp only [if_true] at he
      by_cases hr : r = r'
      · left; exact hr
      · right; exact ⟨h1, by simpa using ⟨_, _, hr, he⟩⟩

/-! ### `vectorQueries` -/

theorem vectorQueries_index (n : Nat) (fr : Bool) : ∀ (qs vals : List Felt),
    (Table.vectorQueries H n fr qs vals).map (·.index) = qs := by
  intro qs
  induction qs with
  | nil => intro vals; rfl
  | cons q qs ih => intro vals; simp [Table.vectorQueries, ih]

theorem rowValues_length (cell : Nat → Nat → Felt) (n : Nat) (Q : List Nat) :
    (rowValues cell n Q).length = n * Q.length := by
  induction Q with
  | nil => simp [rowValues]
  | cons q Q ih =>
    simp only [rowValues, List.flatMap_cons, List.length_append, List.length_map,
      List.length_range, List.length_cons] at ih ⊢
    rw [ih, Nat.mul_succ]; omega

theorem rowValues_cons (cell : Nat → Nat → Felt) (n q : Nat) (Q : List Nat) :
    rowValues cell n (q :: Q) = (List.range n).map (cell q) ++ rowValues cell n Q := by
  simp [rowValues]

/-- honest values produce the honest vector queries -/
theorem vectorQueries_honest {n : Nat} {fr : Bool} (cell : Nat → Nat → Felt) (leaf : Nat → Felt)
    (hleaf : ∀ r, leaf r = Table.rowHash H n fr (montRow cell n r)) :
    ∀ (Q : List Nat),
      Table.vectorQueries H n fr (Q.map Felt.ofNat)
          ((rowValues cell n Q).map (· * Table.MONTGOMERY_R)) =
        honestQueries leaf Q := by
  intro Q
  induction Q with
  | nil => rfl
  | cons q Q ih =>
    have hlen : (((List.range n).map (cell q)).map (· * Table.MONTGOMERY_R)).length = n := by simp
    simp only [List.map_cons, Table.vectorQueries, rowValues_cons, List.map_append,
      honestQueries]
    rw [List.take_left' hlen, List.drop_left' hlen, ← montRow_eq_map, ← hleaf]
    congr 1

/-- if all vector queries carry committed leaves then all cells are the committed cells, or an
    explicit row-hash collision -/
theorem rows_sound {n : Nat} {fr : Bool} (cell : Nat → Nat → Felt) (leaf : Nat → Felt)
    (hleaf : ∀ r, leaf r = Table.rowHash H n fr (montRow cell n r)) :
    ∀ (qs vals : List Felt), vals.length = n * qs.length →
      (∀ vq ∈ Table.vectorQueries H n fr qs (vals.map (· * Table.MONTGOMERY_R)),
        vq.value = leaf vq.index.val) →
      vals = rowValues cell n (qs.map (·.val)) ∨ RowCollision H n fr := by
  intro qs
  induction qs with
  | nil =>
    intro vals hl _
    left
    simp at hl
    simp [rowValues, hl]
  | cons q qs ih =>
    intro vals hl hv
    simp only [Table.vectorQueries, List.mem_cons, forall_eq_or_imp] at hv
    obtain ⟨h1, h2⟩ := hv
    have hl1 : n ≤ vals.length := by
      rw [hl, List.length_cons, Nat.mul_succ]; omega
    have hl2 : (vals.drop n).length = n * qs.length := by
      rw [List.length_drop, hl, List.length_cons, Nat.mul_succ]; omega
    rw [← List.map_drop] at h2
    rw [hleaf, ← List.map_take] at h1
    have htl : ((vals.take n).map (· * Table.MONTGOMERY_R)).length = n := by
      simp; omega
    rcases rowHash_inj htl (montRow_length cell n q.val) h1 with he | hc
    · rcases ih (vals.drop n) hl2 h2 with he2 | hc
      · left
        rw [montRow_eq_map] at he
        have := map_mont_injective he
        rw [List.map_cons, rowValues_cons, ← this, ← he2, List.take_append_drop]
      · right; exact hc
    · right; exact hc

/-! ### `Table.decommit` -/

theorem bottom_friendly_eq {nf : Felt} {h : Nat} (hh : h ≤ 250) :
    decide (nf.val ≥ (Felt.ofNat h + 1).val) = bottomFriendly nf h := by
  rw [ofNat_add_one_val (by have := lt_two251_of_le hh; omega)]
  rfl

theorem tableLeaf_eq {nf : Felt} {h n : Nat} (cell : Nat → Nat → Felt) (r : Nat) :
    tableLeaf H nf h n cell r = Table.rowHash H n (bottomFriendly nf h) (montRow cell n r) := by
  rw [rowHash_eq_rowLeaf (montRow_length cell n r)]; rfl

theorem table_complete {nf : Felt} {h : Nat} (hh : h ≤ 250) (n : Nat) (hn : n < 2 ^ 32)
    (cell : Nat → Nat → Felt) (Q : List Nat) (extra : List Felt) (hne : Q ≠ [])
    (hs : Q.Pairwise (· < ·)) (hr : ∀ i ∈ Q, i < 2 ^ h) :
    Table.decommit H ⟨Felt.ofNat n, ⟨⟨Felt.ofNat h, nf⟩, tableRoot H nf h n cell⟩⟩
      (Q.map Felt.ofNat) (rowValues cell n Q)
      (authPath H nf h (tableLeaf H nf h n cell) Q ++ extra) = .ok () := by
  have hnv : (Felt.ofNat n).val = n :=
    ofNat_val (Nat.lt_trans hn (Nat.pow_lt_pow_right (by omega) (by omega)))
  unfold Table.decommit
  simp only [hnv, bottom_friendly_eq hh]
  rw [if_neg (by omega), if_neg (by simp [rowValues_length])]
  rw [vectorQueries_honest cell (tableLeaf H nf h n cell) (tableLeaf_eq cell) Q]
  exact decommit_complete hh _ Q extra hne hs hr

theorem table_sound_strong {nf : Felt} {h : Nat} (hh : h ≤ 250) (nc : Felt)
    (cell : Nat → Nat → Felt) (queries values auths : List Felt) (hne : queries ≠ [])
    (hs : (queries.map (·.val)).Pairwise (· < ·)) (hr : ∀ q ∈ queries, q.val < 2 ^ h)
    (hok : Table.decommit H ⟨nc, ⟨⟨Felt.ofNat h, nf⟩, tableRoot H nf h nc.val cell⟩⟩
      queries values auths = .ok ()) :
    values = rowValues cell nc.val (queries.map (·.val)) ∨
      Collision H ∨ RowCollision H nc.val (bottomFriendly nf h) := by
  unfold Table.decommit at hok
  simp only [bottom_friendly_eq hh] at hok
  split at hok
  · simp at hok
  · split at hok
    · simp at hok
    · rename_i _ hlen
      simp only [ne_eq, Decidable.not_not] at hlen
      have hidx := vectorQueries_index (H := H) nc.val (bottomFriendly nf h) queries
        (values.map (· * Table.MONTGOMERY_R))
      have hidx' : (Table.vectorQueries H nc.val (bottomFriendly nf h) queries
          (values.map (· * Table.MONTGOMERY_R))).map (·.index.val) = queries.map (·.val) := by
        conv_rhs => rw [← hidx]
        rw [List.map_map]; rfl
      have := decommit_sound hh (tableLeaf H nf h nc.val cell) _ auths
        (by intro h0; rw [h0] at hidx; exact hne hidx.symm)
        (by rw [hidx']; exact hs)
        (by
          intro vq hvq
          have : vq.index ∈ queries := by rw [← hidx]; exact List.mem_map_of_mem hvq
          exact hr _ this)
        hok
      rcases this with ⟨hv, _⟩ | hc
      · rcases rows_sound cell (tableLeaf H nf h nc.val cell) (tableLeaf_eq cell) queries values
          hlen.symm hv with he | hc
        · left; exact he
        · right; right; exact hc
      · right; left; exact hc


theorem table_sound {nf : Felt} {h : Nat} (hh : h ≤ 250) (nc : Felt)
    (cell : Nat → Nat → Felt) (queries values auths : List Felt) (hne : queries ≠ [])
    (hs : (queries.map (·.val)).Pairwise (· < ·)) (hr : ∀ q ∈ queries, q.val < 2 ^ h)
    (hok : Table.decommit H ⟨nc, ⟨⟨Felt.ofNat h, nf⟩, tableRoot H nf h nc.val cell⟩⟩
      queries values auths = .ok ()) :
    values = rowValues cell nc.val (queries.map (·.val)) ∨
      Collision H ∨ ManyCollision H ∨ MaskedCollision H := by
  rcases table_sound_strong hh nc cell queries values auths hne hs hr hok with h1 | h2 | h3
  · exact Or.inl h1
  · exact Or.inr (Or.inl h2)
  · exact Or.inr (Or.inr h3.weaken)

theorem rowValues_one (cell : Nat → Nat → Felt) (Q : List Nat) :
    rowValues cell 1 Q = Q.map fun r => cell r 0 := by
  induction Q with
  | nil => rfl
  | cons q Q ih => rw [rowValues_cons, ih]; rfl

/-- single-column tables: the (Montgomery-form) cell is the leaf; only the tree hash can collide -/
theorem table_sound_single_column {nf : Felt} {h : Nat} (hh : h ≤ 250) (nc : Felt)
    (hnc : nc.val = 1)
    (cell : Nat → Nat → Felt) (queries values auths : List Felt) (hne : queries ≠ [])
    (hs : (queries.map (·.val)).Pairwise (· < ·)) (hr : ∀ q ∈ queries, q.val < 2 ^ h)
    (hok : Table.decommit H ⟨nc, ⟨⟨Felt.ofNat h, nf⟩, tableRoot H nf h 1 cell⟩⟩
      queries values auths = .ok ()) :
    values = queries.map (fun q => cell q.val 0) ∨ Collision H := by
  rw [← hnc] at hok
  rcases table_sound_strong hh nc cell queries values auths hne hs hr hok with h1 | h2 | h3
  · left
    rw [h1, hnc, rowValues_one, List.map_map]
    rfl
  · exact Or.inr h2
  · exact absurd hnc h3.1

theorem tableLeaf_single_column {nf : Felt} {h : Nat} (cell : Nat → Nat → Felt) (r : Nat) :
    tableLeaf H nf h 1 cell r = cell r 0 * Table.MONTGOMERY_R := by
  simp [tableLeaf, montRow, rowLeaf, List.range_succ]

theorem table_length_of_ok (c : Table.Commitment) (queries values auths : List Felt)
    (hok : Table.decommit H c queries values auths = .ok ()) :
    c.nColumns.val < 2 ^ 32 ∧ values.length = c.nColumns.val * queries.length := by
  unfold Table.decommit at hok
  simp only [] at hok
  split at hok
  · simp at hok
  · split at hok
    · simp at hok
    · rename_i h1 h2
      simp only [ne_eq, Decidable.not_not] at h2
      exact ⟨by omega, h2.symm⟩

theorem table_length_exact (c : Table.Commitment) (queries values auths : List Felt)
    (hl : values.length ≠ c.nColumns.val * queries.length) :
    Table.decommit H c queries values auths = .err "TryFromBigInt" ∨
      Table.decommit H c queries values auths = .err "DecommitmentLength" := by
  unfold Table.decommit
  simp only []
  split
  · left; rfl
  · right; rw [if_pos (fun e => hl e.symm)]

theorem table_ncolumns_u32 (c : Table.Commitment) (queries values auths : List Felt)
    (hn : c.nColumns.val ≥ 2 ^ 32) :
    Table.decommit H c queries values auths = .err "TryFromBigInt" := by
  unfold Table.decommit
  simp only []
  rw [if_pos hn]

theorem table_no_panic (c : Table.Commitment) (queries values auths : List Felt) (s : String) :
    Table.decommit H c queries values auths ≠ .panic s := by
  unfold Table.decommit
  simp only []
  split
  · simp
  · split
    · simp
    · exact decommit_no_panic _ _ _ _

/-- the cell in query position `j`, column `c` of the honest value list -/
theorem rowValues_getElem? (cell : Nat → Nat → Felt) (n : Nat) : ∀ (Q : List Nat) (j c : Nat)
    (hj : j < Q.length), c < n → (rowValues cell n Q)[j * n + c]? = some (cell Q[j] c) := by
  intro Q
  induction Q with
  | nil => intro j c hj; simp at hj
  | cons q Q ih =>
    intro j c hj hc
    rw [rowValues_cons]
    cases j with
    | zero =>
      rw [List.getElem?_append_left (by simpa using hc)]
      simp [hc]
    | succ j =>
      have : (j + 1) * n + c = ((List.range n).map (cell q)).length + (j * n + c) := by
        simp only [List.length_map, List.length_range, Nat.succ_mul]; omega
      rw [this, List.getElem?_append_right (Nat.le_add_right _ _), Nat.add_sub_cancel_left]
      simpa using ih j c (by simpa using hj) hc

end Swiftness.Proofs.Table
