/-
  Soundness of the reflective linearity checker `checkLinear` of `Model/AstCheck.lean` (property C16).

  Lock-step simulation of three runs of the same program whose inputs differ only in the coefficient
  vector, `c3[i] = α·c1[i] + β·c2[i]`:
    * every slot outside the accumulator bitmask `A` holds the SAME value in the three runs,
    * every slot inside `A` satisfies `st3 s = α·st1 s + β·st2 s`.
  `GStmt.linearOK` preserves the invariant, guards are non-`A` slots (so the same statements run),
  and every error/panic is raised in all three runs or in none.
-/
import Swiftness.Model.AstCheck
import Swiftness.Proofs.FeltField

namespace Swiftness.Proofs.AstLinear
open Swiftness Swiftness.Ast
attribute [-instance] Fin.instOfNat

/-! ### expressions that do not look at the coefficients / accumulators -/

theorem Ix.eval_coeff (inp : Inputs) (c : Array Felt) (ix : Ix) :
    ix.eval {inp with coeff := c} = ix.eval inp := by
  induction ix with
  | lit n => rfl
  | dp i => rfl
  | add a b iha ihb => simp only [Ix.eval, iha, ihb]

/-- A `coeffFree`, `A`-avoiding expression evaluates to the same outcome under two stores that
    agree outside `A` and two inputs that differ only in `coeff`. -/
theorem Expr.eval_congr (A : Nat) (inp : Inputs) (c1 c2 : Array Felt) (st1 st2 : Store)
    (hst : ∀ s, A.testBit s = false → st1 s = st2 s) (e : Expr)
    (hcf : e.coeffFree = true) (hav : e.avoids A = true) :
    e.eval {inp with coeff := c1} st1 = e.eval {inp with coeff := c2} st2 := by
  induction e with
  | const n => rfl
  | var s =>
    simp only [Expr.avoids, Bool.not_eq_true'] at hav
    simp only [Expr.eval, hst s hav]
  | gv i => rfl
  | dp i => rfl
  | mask i => rfl
  | oodsv i => rfl
  | coeff i => simp [Expr.coeffFree] at hcf
  | col ix => simp only [Expr.eval, Ix.eval_coeff]
  | point => rfl
  | tgen => rfl
  | oodsPoint => rfl
  | add a b iha ihb =>
    simp only [Expr.coeffFree, Expr.avoids, Bool.and_eq_true] at hcf hav
    simp only [Expr.eval, iha hcf.1 hav.1, ihb hcf.2 hav.2]
  | sub a b iha ihb =>
    simp only [Expr.coeffFree, Expr.avoids, Bool.and_eq_true] at hcf hav
    simp only [Expr.eval, iha hcf.1 hav.1, ihb hcf.2 hav.2]
  | mul a b iha ihb =>
    simp only [Expr.coeffFree, Expr.avoids, Bool.and_eq_true] at hcf hav
    simp only [Expr.eval, iha hcf.1 hav.1, ihb hcf.2 hav.2]
  | neg a iha =>
    simp only [Expr.coeffFree, Expr.avoids] at hcf hav
    simp only [Expr.eval, iha hcf hav]
  | fdiv a b iha ihb =>
    simp only [Expr.coeffFree, Expr.avoids, Bool.and_eq_true] at hcf hav
    simp only [Expr.eval, iha hcf.1 hav.1, ihb hcf.2 hav.2]
  | floorDiv a b iha ihb =>
    simp only [Expr.coeffFree, Expr.avoids, Bool.and_eq_true] at hcf hav
    simp only [Expr.eval, iha hcf.1 hav.1, ihb hcf.2 hav.2]
  | powFelt a b iha ihb =>
    simp only [Expr.coeffFree, Expr.avoids, Bool.and_eq_true] at hcf hav
    simp only [Expr.eval, iha hcf.1 hav.1, ihb hcf.2 hav.2]

/-! ### the simulation relation -/

/-- `c3 = α·c1 + β·c2` pointwise, all three of the same size -/
structure LC (α β : Felt) (c1 c2 c3 : Array Felt) : Prop where
  size12 : c1.size = c2.size
  size13 : c1.size = c3.size
  comb : ∀ i (h1 : i < c1.size) (h2 : i < c2.size) (h3 : i < c3.size),
    c3[i] = α * c1[i] + β * c2[i]

/-- store invariant: accumulator slots combine linearly, all other slots coincide -/
structure Inv (A : Nat) (α β : Felt) (s1 s2 s3 : Store) : Prop where
  acc : ∀ s, A.testBit s = true → s3 s = α * s1 s + β * s2 s
  eq12 : ∀ s, A.testBit s = false → s1 s = s2 s
  eq13 : ∀ s, A.testBit s = false → s1 s = s3 s

/-- three outcomes of the same class, the `ok` payloads related by `R` -/
inductive Sim3 {σ : Type} (R : σ → σ → σ → Prop) : Outcome σ → Outcome σ → Outcome σ → Prop
  | ok {a b c} : R a b c → Sim3 R (.ok a) (.ok b) (.ok c)
  | err (x) : Sim3 R (.err x) (.err x) (.err x)
  | panic (x) : Sim3 R (.panic x) (.panic x) (.panic x)

theorem ofNat_zero : Felt.ofNat 0 = (0 : Felt) := by
  rw [Felt.ofNat_eq_cast, Nat.cast_zero]

theorem zero_core : (@OfNat.ofNat Felt 0 Fin.instOfNat) = (0 : Felt) := by
  rw [felt_ofNat, Nat.cast_zero]

theorem Inv.zero (A : Nat) (α β : Felt) :
    Inv A α β (fun _ => (@OfNat.ofNat Felt 0 Fin.instOfNat)) (fun _ => (@OfNat.ofNat Felt 0 Fin.instOfNat))
      (fun _ => (@OfNat.ofNat Felt 0 Fin.instOfNat)) := by
  refine ⟨?_, fun _ _ => rfl, fun _ _ => rfl⟩
  intro s _
  show (@OfNat.ofNat Felt 0 Fin.instOfNat) =
    α * (@OfNat.ofNat Felt 0 Fin.instOfNat) + β * (@OfNat.ofNat Felt 0 Fin.instOfNat)
  rw [zero_core]
  ring

theorem guards_congr (A : Nat) (s1 s2 : Store) (h : ∀ s, A.testBit s = false → s1 s = s2 s)
    (gs : List Nat) (hg : gs.all (fun s => !A.testBit s) = true) :
    guardsHold s1 gs = guardsHold s2 gs := by
  unfold guardsHold
  induction gs with
  | nil => rfl
  | cons g rest ih =>
    simp only [List.all_cons, Bool.and_eq_true, Bool.not_eq_true'] at hg
    simp only [List.all_cons, h g hg.1]
    rw [ih (by simpa using hg.2)]

theorem idx_sim {α β : Felt} {c1 c2 c3 : Array Felt} (hc : LC α β c1 c2 c3) (i : Nat) (site : String) :
    (∃ x y z, idx c1 i site = .ok x ∧ idx c2 i site = .ok y ∧ idx c3 i site = .ok z ∧
        z = α * x + β * y) ∨
    (idx c1 i site = .panic site ∧ idx c2 i site = .panic site ∧ idx c3 i site = .panic site) := by
  by_cases h : i < c1.size
  · have h2 : i < c2.size := hc.size12 ▸ h
    have h3 : i < c3.size := hc.size13 ▸ h
    left
    refine ⟨c1[i], c2[i], c3[i], ?_, ?_, ?_, hc.comb i h h2 h3⟩
    · simp only [idx, Array.getElem?_eq_getElem h]
    · simp only [idx, Array.getElem?_eq_getElem h2]
    · simp only [idx, Array.getElem?_eq_getElem h3]
  · have h2 : ¬ i < c2.size := hc.size12 ▸ h
    have h3 : ¬ i < c3.size := hc.size13 ▸ h
    right
    refine ⟨?_, ?_, ?_⟩
    · simp only [idx, Array.getElem?_eq_none (Nat.le_of_not_lt h)]
    · simp only [idx, Array.getElem?_eq_none (Nat.le_of_not_lt h2)]
    · simp only [idx, Array.getElem?_eq_none (Nat.le_of_not_lt h3)]

theorem Inv.set_nonacc {A : Nat} {α β : Felt} {s1 s2 s3 : Store} (h : Inv A α β s1 s2 s3)
    (s : Nat) (hs : A.testBit s = false) (v : Felt) :
    Inv A α β (s1.set s v) (s2.set s v) (s3.set s v) := by
  refine ⟨?_, ?_, ?_⟩
  · intro j hj
    have : j ≠ s := by intro e; rw [e, hs] at hj; exact Bool.noConfusion hj
    simp only [Store.set, if_neg this]
    exact h.acc j hj
  · intro j hj
    simp only [Store.set]
    split
    · rfl
    · exact h.eq12 j hj
  · intro j hj
    simp only [Store.set]
    split
    · rfl
    · exact h.eq13 j hj

theorem Inv.set_acc {A : Nat} {α β : Felt} {s1 s2 s3 : Store} (h : Inv A α β s1 s2 s3)
    (s : Nat) (hs : A.testBit s = true) (v1 v2 v3 : Felt) (hv : v3 = α * v1 + β * v2) :
    Inv A α β (s1.set s v1) (s2.set s v2) (s3.set s v3) := by
  refine ⟨?_, ?_, ?_⟩
  · intro j hj
    simp only [Store.set]
    split
    · exact hv
    · exact h.acc j hj
  · intro j hj
    have : j ≠ s := by intro e; rw [e, hs] at hj; exact Bool.noConfusion hj
    simp only [Store.set, if_neg this]
    exact h.eq12 j hj
  · intro j hj
    have : j ≠ s := by intro e; rw [e, hs] at hj; exact Bool.noConfusion hj
    simp only [Store.set, if_neg this]
    exact h.eq13 j hj

/-- one guarded statement preserves the invariant; the three executions have the same class -/
theorem exec_sim {A : Nat} {α β : Felt} {c1 c2 c3 : Array Felt} (hc : LC α β c1 c2 c3)
    (inp : Inputs) {s1 s2 s3 : Store} (h : Inv A α β s1 s2 s3) (st : Stmt) (gs : List Nat)
    (hok : GStmt.linearOK A ⟨gs, st⟩ = true) :
    Sim3 (Inv A α β) (st.exec {inp with coeff := c1} s1) (st.exec {inp with coeff := c2} s2)
      (st.exec {inp with coeff := c3} s3) := by
  simp only [GStmt.linearOK, Bool.and_eq_true] at hok
  obtain ⟨-, hok⟩ := hok
  cases st with
  | acc dst src i e =>
    simp only [Bool.and_eq_true] at hok
    obtain ⟨⟨⟨hdst, hsrc⟩, hcf⟩, hav⟩ := hok
    have e12 := Expr.eval_congr A inp c1 c2 s1 s2 h.eq12 e hcf hav
    have e13 := Expr.eval_congr A inp c1 c3 s1 s3 h.eq13 e hcf hav
    simp only [Stmt.exec]
    rw [← e12, ← e13]
    rcases idx_sim hc i "autogenerated:index:constraint_coefficients" with
      ⟨x, y, z, h1, h2, h3, hz⟩ | ⟨h1, h2, h3⟩
    · rw [h1, h2, h3]
      cases e.eval {inp with coeff := c1} s1 with
      | ok v =>
        refine Sim3.ok (h.set_acc dst hdst _ _ _ ?_)
        rw [h.acc src hsrc, hz]
        ring
      | err x => exact Sim3.err x
      | panic x => exact Sim3.panic x
    · rw [h1, h2, h3]
      exact Sim3.panic _
  | set s e =>
    by_cases hs : A.testBit s = true
    · simp only [hs, if_true] at hok
      cases e with
      | var a =>
        simp only at hok
        simp only [Stmt.exec, Expr.eval]
        exact Sim3.ok (h.set_acc s hs _ _ _ (h.acc a hok))
      | const n =>
        simp only [beq_iff_eq] at hok
        subst hok
        simp only [Stmt.exec, Expr.eval]
        refine Sim3.ok (h.set_acc s hs _ _ _ ?_)
        rw [ofNat_zero]; ring
      | _ => simp at hok
    · have hs' : A.testBit s = false := by simpa using hs
      simp only [hs', Bool.false_eq_true, if_false, Bool.and_eq_true] at hok
      have e12 := Expr.eval_congr A inp c1 c2 s1 s2 h.eq12 e hok.1 hok.2
      have e13 := Expr.eval_congr A inp c1 c3 s1 s3 h.eq13 e hok.1 hok.2
      simp only [Stmt.exec]
      rw [← e12, ← e13]
      cases e.eval {inp with coeff := c1} s1 with
      | ok v => exact Sim3.ok (h.set_nonacc s hs' v)
      | err x => exact Sim3.err x
      | panic x => exact Sim3.panic x

/-- the whole program: lock-step simulation -/
theorem run_sim {A : Nat} {α β : Felt} {c1 c2 c3 : Array Felt} (hc : LC α β c1 c2 c3)
    (inp : Inputs) (p : Prog) (hp : p.all (GStmt.linearOK A) = true) :
    ∀ {s1 s2 s3 : Store}, Inv A α β s1 s2 s3 →
      Sim3 (Inv A α β) (run {inp with coeff := c1} p s1) (run {inp with coeff := c2} p s2)
        (run {inp with coeff := c3} p s3) := by
  induction p with
  | nil => intro s1 s2 s3 h; exact Sim3.ok h
  | cons g rest ih =>
    intro s1 s2 s3 h
    simp only [List.all_cons, Bool.and_eq_true] at hp
    obtain ⟨hg, hrest⟩ := hp
    have hguards : g.guards.all (fun s => !A.testBit s) = true := by
      simp only [GStmt.linearOK, Bool.and_eq_true] at hg
      exact hg.1
    have g12 := guards_congr A s1 s2 h.eq12 g.guards hguards
    have g13 := guards_congr A s1 s3 h.eq13 g.guards hguards
    simp only [run]
    rw [← g12, ← g13]
    by_cases hgd : guardsHold s1 g.guards = true
    · simp only [hgd, if_true]
      have hstep := exec_sim hc inp h g.stmt g.guards hg
      generalize g.stmt.exec {inp with coeff := c1} s1 = o1 at hstep
      generalize g.stmt.exec {inp with coeff := c2} s2 = o2 at hstep
      generalize g.stmt.exec {inp with coeff := c3} s3 = o3 at hstep
      cases hstep with
      | ok hinv => exact ih hrest hinv
      | err x => exact Sim3.err x
      | panic x => exact Sim3.panic x
    · simp only [hgd, Bool.false_eq_true, if_false]
      exact ih hrest h

/-- `evalProg` on linearly related coefficient vectors -/
theorem evalProg_sim {A : Nat} {α β : Felt} {c1 c2 c3 : Array Felt} (hc : LC α β c1 c2 c3)
    (inp : Inputs) (p : Prog) (res : Nat) (hp : checkLinear p A res = true) :
    Sim3 (fun r1 r2 r3 => r3 = α * r1 + β * r2) (evalProg {inp with coeff := c1} p res)
      (evalProg {inp with coeff := c2} p res) (evalProg {inp with coeff := c3} p res) := by
  simp only [checkLinear, Bool.and_eq_true] at hp
  have h := run_sim hc inp p hp.2 (Inv.zero A α β)
  unfold evalProg
  generalize run {inp with coeff := c1} p (fun _ => 0) = o1 at h
  generalize run {inp with coeff := c2} p (fun _ => 0) = o2 at h
  generalize run {inp with coeff := c3} p (fun _ => 0) = o3 at h
  cases h with
  | ok hinv => exact Sim3.ok (hinv.acc res hp.1)
  | err x => exact Sim3.err x
  | panic x => exact Sim3.panic x

/-! ### the three soundness statements -/

theorem LC.add (c1 c2 : Array Felt) (h : c1.size = c2.size) :
    LC 1 1 c1 c2 (Array.zipWith (· + ·) c1 c2) := by
  refine ⟨h, by simp [h], ?_⟩
  intro i h1 h2 h3
  simp only [Array.getElem_zipWith]
  ring

theorem LC.smul (a : Felt) (c : Array Felt) : LC a 0 c c (c.map (a * ·)) := by
  refine ⟨rfl, by simp, ?_⟩
  intro i h1 h2 h3
  simp only [Array.getElem_map]
  ring

/-- general linear combination -/
theorem checkLinear_sound_lc (p : Prog) (A res : Nat) (hp : checkLinear p A res = true)
    (inp : Inputs) (α β : Felt) (c1 c2 c3 : Array Felt) (hc : LC α β c1 c2 c3) (r1 r2 : Felt)
    (h1 : evalProg {inp with coeff := c1} p res = .ok r1)
    (h2 : evalProg {inp with coeff := c2} p res = .ok r2) :
    evalProg {inp with coeff := c3} p res = .ok (α * r1 + β * r2) := by
  have h := evalProg_sim hc inp p res hp
  rw [h1, h2] at h
  generalize evalProg {inp with coeff := c3} p res = o3 at h ⊢
  cases h with
  | ok hr => rw [hr]

theorem checkLinear_sound_add (p : Prog) (A res : Nat) (hp : checkLinear p A res = true)
    (inp : Inputs) (c1 c2 : Array Felt) (hsz : c1.size = c2.size) (r1 r2 : Felt)
    (h1 : evalProg {inp with coeff := c1} p res = .ok r1)
    (h2 : evalProg {inp with coeff := c2} p res = .ok r2) :
    evalProg {inp with coeff := Array.zipWith (· + ·) c1 c2} p res = .ok (r1 + r2) := by
  have := checkLinear_sound_lc p A res hp inp 1 1 c1 c2 _ (LC.add c1 c2 hsz) r1 r2 h1 h2
  rw [this]; congr 1; ring

theorem checkLinear_sound_smul (p : Prog) (A res : Nat) (hp : checkLinear p A res = true)
    (inp : Inputs) (a : Felt) (c : Array Felt) (r : Felt)
    (h : evalProg {inp with coeff := c} p res = .ok r) :
    evalProg {inp with coeff := c.map (a * ·)} p res = .ok (a * r) := by
  have := checkLinear_sound_lc p A res hp inp a 0 c c _ (LC.smul a c) r r h h
  rw [this]; congr 1; ring

/-- The outcome class (ok / the particular error / the particular panic site) does not depend on the
    coefficient values, only on the length of the coefficient vector. -/
theorem checkLinear_outcome_independent (p : Prog) (A res : Nat) (hp : checkLinear p A res = true)
    (inp : Inputs) (c1 c2 : Array Felt) (hsz : c1.size = c2.size) :
    (evalProg {inp with coeff := c1} p res).isOk = (evalProg {inp with coeff := c2} p res).isOk ∧
    (∀ x, evalProg {inp with coeff := c1} p res = .panic x ↔
          evalProg {inp with coeff := c2} p res = .panic x) ∧
    (∀ x, evalProg {inp with coeff := c1} p res = .err x ↔
          evalProg {inp with coeff := c2} p res = .err x) := by
  have h := evalProg_sim (LC.add c1 c2 hsz) inp p res hp
  generalize evalProg {inp with coeff := c1} p res = o1 at h
  generalize evalProg {inp with coeff := c2} p res = o2 at h
  generalize evalProg {inp with coeff := Array.zipWith (· + ·) c1 c2} p res = o3 at h
  cases h with
  | ok _ => exact ⟨rfl, fun x => ⟨fun h => (nomatch h), fun h => (nomatch h)⟩,
      fun x => ⟨fun h => (nomatch h), fun h => (nomatch h)⟩⟩
  | err x => exact ⟨rfl, fun y => Iff.rfl, fun y => Iff.rfl⟩
  | panic x => exact ⟨rfl, fun y => Iff.rfl, fun y => Iff.rfl⟩

end Swiftness.Proofs.AstLinear
