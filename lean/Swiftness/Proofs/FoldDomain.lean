/-
  C06: the bit-reversed layout of the canonical evaluation domains satisfies the coset-layout
  hypothesis of the per-layer step:  `pt idx = s · ω^(bitrev_L idx)` with `ω = 3^((P-1)/2^L)`.
-/
import Swiftness.Proofs.FoldFelt

namespace Swiftness.Proofs
open Swiftness Fri FoldSpec
attribute [-instance] Fin.instOfNat

theorem bitrev_zero (k : ℕ) : bitrev k 0 = 0 := by
  induction k with
  | zero => rfl
  | succ k ih => simp [bitrev, ih]

/-- bit reversal of an index split into coset number `c` and offset `i < 2^k` -/
theorem bitrev_coset (k m c i : ℕ) (hi : i < 2 ^ k) :
    bitrev (k + m) (c * 2 ^ k + i) = 2 ^ m * bitrev k i + bitrev m c := by
  induction k generalizing i with
  | zero =>
    have : i = 0 := by simpa using hi
    subst this
    simp [bitrev]
  | succ k ih =>
    have e : c * 2 ^ (k + 1) = 2 * (c * 2 ^ k) := by rw [pow_succ]; ring
    have h1 : (c * 2 ^ (k + 1) + i) % 2 = i % 2 := by
      rw [e]; omega
    have h2 : (c * 2 ^ (k + 1) + i) / 2 = c * 2 ^ k + i / 2 := by
      rw [e]; omega
    have hi2 : i / 2 < 2 ^ k := by rw [pow_succ] at hi; omega
    rw [show k + 1 + m = (k + m) + 1 by omega]
    simp only [bitrev]
    rw [h1, h2, ih _ hi2, pow_add]
    ring

/-- `(3^((P-1)/2^(a+b)))^(2^b) = 3^((P-1)/2^a)` -/
theorem gen_pow (a b : ℕ) (h : a + b ≤ 192) :
    ((3 : Felt) ^ ((P - 1) / 2 ^ (a + b))) ^ 2 ^ b = (3 : Felt) ^ ((P - 1) / 2 ^ a) := by
  rw [← pow_mul]
  congr 1
  obtain ⟨t, ht⟩ := two_pow_dvd_P_sub_one (a + b) h
  have h1 : 0 < 2 ^ (a + b) := by positivity
  have h2 : 0 < 2 ^ a := by positivity
  rw [ht, Nat.mul_div_cancel_left t h1, pow_add, mul_assoc, Nat.mul_div_cancel_left _ h2, mul_comm]

/-- **Domain layout.**  For the canonical domain of size `2^(k+m)` (any shift `s`), laid out in
    bit-reversed order, the `2^k` points of coset `c` are `pt (c·2^k) · friGroup[i]`, `i < 2^k`. -/
theorem domain_layout (k m : ℕ) (hk4 : k ≤ 4) (hL : k + m ≤ 192) (s : Felt) (c i : ℕ) (hi : i < 2 ^ k) :
    s * ((3 : Felt) ^ ((P - 1) / 2 ^ (k + m))) ^ bitrev (k + m) (c * 2 ^ k + i)
      = s * ((3 : Felt) ^ ((P - 1) / 2 ^ (k + m))) ^ bitrev (k + m) (c * 2 ^ k) * friGroup.getD i 0 := by
  have h0 : bitrev (k + m) (c * 2 ^ k) = bitrev m c := by
    have := bitrev_coset k m c 0 (by positivity)
    simpa [bitrev_zero k] using this
  have hg : friGroup.getD i 0 = ((3 : Felt) ^ ((P - 1) / 2 ^ k)) ^ bitrev k i := by
    rw [friGroup_sub k (by omega) i hi, friGroup_gen]
    have := gen_pow k (4 - k) (by omega)
    rw [show k + (4 - k) = 4 by omega] at this
    rw [this]
  rw [h0, bitrev_coset k m c i hi, pow_add, pow_mul, gen_pow k m hL, hg]
  ring

/-- … and the next layer's points `pt (c·2^k)^(2^k)` are again of this form, for the domain of size
    `2^m` with shift `s^(2^k)`. -/
theorem domain_layout_next (k m : ℕ) (hL : k + m ≤ 192) (s : Felt) (c : ℕ) :
    (s * ((3 : Felt) ^ ((P - 1) / 2 ^ (k + m))) ^ bitrev (k + m) (c * 2 ^ k)) ^ 2 ^ k
      = s ^ 2 ^ k * ((3 : Felt) ^ ((P - 1) / 2 ^ m)) ^ bitrev m c := by
  have h0 : bitrev (k + m) (c * 2 ^ k) = bitrev m c := by
    have := bitrev_coset k m c 0 (by positivity)
    simpa [bitrev_zero k] using this
  have := gen_pow m k (by omega)
  rw [show m + k = k + m by omega] at this
  rw [h0, mul_pow, ← pow_mul, mul_comm (bitrev m c), pow_mul, this]

end Swiftness.Proofs
