/-
  Negative side lemma: a repeated query index is *not* bound by `Vector.decommit` (core Lean only).
  With queries `[(0, leaf 0), (0, b)]` on a height-1 tree the walk consumes one sibling per copy,
  builds two root candidates and returns the first; the second value `b` and its sibling `s` are
  never compared with anything.
-/
import Swiftness.Proofs.MerkleWalk

namespace Swiftness.Proofs.Merkle
open Swiftness Swiftness.Merkle Swiftness.Vector
variable {H : Hashes} {nf : Felt}

theorem duplicate_query_unbound (leaf : Nat → Felt) (b s : Felt) :
    Vector.decommit H ⟨⟨Felt.ofNat 1, nf⟩, root H nf 1 leaf⟩
      [⟨Felt.ofNat 0, leaf 0⟩, ⟨Felt.ofNat 0, b⟩] [leaf 1, s] = .ok () := by
  have e1 : Felt.ofNat 0 + Felt.pow 2 (Felt.ofNat 1).val = Felt.ofNat 2 := by decide +kernel
  have e3 : Felt.ofNat 2 ≠ 1 := by decide +kernel
  have e4 : (Felt.ofNat 2).val = 2 := by decide +kernel
  have e5 : Felt.ofNat 2 + 1 ≠ Felt.ofNat 2 := by decide +kernel
  have e6 : Felt.ofNat 2 + 1 ≠ Felt.ofNat 1 := by decide +kernel
  have e7 : Felt.ofNat 1 = 1 := by decide +kernel
  have e8 : (Felt.ofNat 1).val = 1 := by decide +kernel
  have hrun : run H nf [⟨Felt.ofNat 2, leaf 0, Felt.ofNat 1⟩, ⟨Felt.ofNat 2, b, Felt.ofNat 1⟩]
      [leaf 1, s] = .ok (root H nf 1 leaf) := by
    rw [run_auth e3 (by
      intro _ next rest' hr; simp only [List.cons.injEq] at hr; rw [← hr.1]; exact e5)]
    simp only [List.cons_append, List.nil_append]
    rw [run_auth e3 (by
      intro _ next rest' hr; simp only [List.cons.injEq] at hr; rw [← hr.1]; simp only [e4]; exact e6)]
    simp only [List.cons_append, List.nil_append, e4]
    rw [run_root e7]
    simp [root, nodeAt, e8]
  unfold Vector.decommit
  simp only [List.map_cons, List.map_nil, e1]
  unfold run at hrun
  simp only [List.length_cons, List.length_nil] at hrun ⊢
  rw [hrun]
  simp

end Swiftness.Proofs.Merkle
