/-
  C07, "no query is skipped": a successful `compute_next_layer` / `fri_verify_layers` / `fri_verify`
  processes EVERY query it was given, whatever the length of the prover's sibling witness.

  * `computeNextLayer_covers`       — every input query's coset index `q.index / cosetSize` is the index
                                      of a next-layer query and is handed to the table decommitment;
  * `computeNextLayer_row_of_query` — … and the query's own value sits at offset `q.index % cosetSize`
                                      of the row of that coset (the row that is Merkle-checked and
                                      folded into that next-layer query);
  * `verifyLayers_covers`           — through all layers: the image `q.index / ∏ cosetSizes` of every
                                      first-layer query is the index of a last-layer query;
  * `verify_checks_every_query`     — acceptance of `Fri.verify` implies that the last-layer polynomial
                                      check was applied to the image of every query (file
                                      `FriNoSkipVerify.lean`).

  The only hypothesis is that the query indices do not wrap in the field: `q.index + cosetSize ≤ P`
  for one layer, `q.index + 16 ≤ P` for the chain (real indices are `< 2^64`).  It is needed
  (`covers_needs_nowrap` below): with coset size 2 the query of index `0` is consumed as the sibling
  `(P-1) + 1` of the query of index `P-1`, and its own coset `0` never appears.  Nothing is assumed
  about the coset size (a successful run with at least one query forces it to be 2, 4, 8 or 16), about
  the order of the queries, or about the witness.  Core Lean only.
-/
import Swiftness.Proofs.FriSoundSorted

namespace Swiftness.Proofs.FriNoSkip

open Swiftness Fri
open Swiftness.Proofs.FriSound

/-! ### one layer -/

private theorem getElem?_append_block {row vy : List Felt} {n j p : Nat} (hlen : row.length = n) :
    (row ++ vy)[(j + 1) * n + p]? = vy[j * n + p]? := by
  have : (j + 1) * n + p = row.length + (j * n + p) := by rw [hlen, Nat.succ_mul]; omega
  rw [this, List.getElem?_append_right (Nat.le_add_right _ _), Nat.add_sub_cancel_left]

/-- every query of the layer sits in the row whose coset index is `q.index / n`, at offset
    `q.index % n`, with its own value -/
theorem Rows.covers {n e : Felt} {qs : List LayerQuery} {ss : List Felt} {nq : List LayerQuery}
    {vi vy : List Felt} (h : Rows n e qs ss nq vi vy) (hb : ∀ q ∈ qs, q.index.val + n.val ≤ P) :
    ∀ q ∈ qs, ∃ j, vi[j]? = some (Felt.ofNat (q.index.val / n.val)) ∧
      vy[j * n.val + q.index.val % n.val]? = some q.yValue := by
  induction h with
  | nil => intro q hq; cases hq
  | @cons ci xinv y q0 rest qsC qs ssC ss row vi vy nq hn0 hn64 hL hci hrow hlen _ _ ih =>
    intro q hq
    rcases List.mem_append.mp hq with hq' | hq'
    · obtain ⟨p, h1, h2, h3⟩ := hrow.query_pos q hq'
      have hq0mem : q0 ∈ qsC ++ qs := by rw [hL]; exact List.mem_cons_self ..
      have hq0b := hb q0 hq0mem
      have hstart : (ci * n).val = q0.index.val / n.val * n.val := by rw [hci]; exact val_div_mul _ _
      have hle := Nat.div_mul_le_self q0.index.val n.val
      rw [Nat.zero_add] at h2
      have hp : p < n.val := by omega
      have hv : q.index.val = n.val * (q0.index.val / n.val) + p := by
        rw [h2, val_add_ofNat _ _ (by omega), hstart, Nat.mul_comm]
      have hnpos : 0 < n.val := by omega
      have hdiv : q.index.val / n.val = q0.index.val / n.val := by
        rw [hv, Nat.mul_add_div hnpos, Nat.div_eq_of_lt hp, Nat.add_zero]
      have hmod : q.index.val % n.val = p := by
        rw [hv, Nat.mul_add_mod, Nat.mod_eq_of_lt hp]
      refine ⟨0, ?_, ?_⟩
      · rw [hdiv, hci]; rfl
      · rw [hmod, Nat.zero_mul, Nat.zero_add, List.getElem?_append_left h1]; exact h3
    · obtain ⟨j, h1, h2⟩ := ih (fun q hq => hb q (List.mem_append_right _ hq)) q hq'
      exact ⟨j + 1, by simpa using h1, by rw [getElem?_append_block hlen]; exact h2⟩

/-- every coset index is `q.index / n` of some query (no sortedness needed) -/
theorem Rows.index_of_query {n e : Felt} {qs : List LayerQuery} {ss : List Felt} {nq : List LayerQuery}
    {vi vy : List Felt} (h : Rows n e qs ss nq vi vy) :
    ∀ c ∈ vi, ∃ q ∈ qs, c = Felt.ofNat (q.index.val / n.val) := by
  induction h with
  | nil => intro c hc; cases hc
  | @cons ci xinv y q0 rest qsC qs ssC ss row vi vy nq _ _ hL hci _ _ _ _ ih =>
    intro c hc
    rcases List.mem_cons.mp hc with rfl | hc
    · exact ⟨q0, by rw [hL]; exact List.mem_cons_self .., hci⟩
    · obtain ⟨q, hq, h⟩ := ih c hc
      exact ⟨q, List.mem_append_right _ hq, h⟩

theorem friFormula_ok_size {v : List Felt} {e x n y : Felt} (h : friFormula v e x n = .ok y) :
    n.val = 2 ∨ n.val = 4 ∨ n.val = 8 ∨ n.val = 16 := by
  unfold friFormula at h
  by_cases h2 : n.val = 2
  · exact Or.inl h2
  · by_cases h4 : n.val = 4
    · exact Or.inr (Or.inl h4)
    · by_cases h8 : n.val = 8
      · exact Or.inr (Or.inr (Or.inl h8))
      · by_cases h16 : n.val = 16
        · exact Or.inr (Or.inr (Or.inr h16))
        · simp only [h2, h4, h8, h16, if_false] at h
          split at h <;> cases h

/-- a successful run on at least one query has coset size 2, 4, 8 or 16 -/
theorem Rows.size {n e : Felt} {qs : List LayerQuery} {ss : List Felt} {nq : List LayerQuery}
    {vi vy : List Felt} (h : Rows n e qs ss nq vi vy) (hne : qs ≠ []) :
    n.val = 2 ∨ n.val = 4 ∨ n.val = 8 ∨ n.val = 16 := by
  cases h with
  | nil => exact absurd rfl hne
  | cons _ _ _ _ _ _ hf _ => exact friFormula_ok_size hf

/-- **No query is skipped and the queried value itself is checked and folded.**  For every query `q`
    given to a successful `compute_next_layer` there is a row number `j` such that
    * the `j`-th coset index handed to the table decommitment is `q.index / cosetSize`;
    * `q`'s value sits at offset `q.index % cosetSize` of the `j`-th row of the values handed to the
      table decommitment;
    * the `j`-th next-layer query `q'` has that index, and its value is `fri_formula` of that row. -/
theorem computeNextLayer_row_of_query (qs : List LayerQuery) (sibs : List Felt) (cs e : Felt)
    (r : NextLayer) (h : computeNextLayer qs sibs cs e = .ok r)
    (hb : ∀ q ∈ qs, q.index.val + cs.val ≤ P) :
    ∀ q ∈ qs, ∃ j q', r.verifyIndices[j]? = some (Felt.ofNat (q.index.val / cs.val)) ∧
      r.verifyYValues[j * cs.val + q.index.val % cs.val]? = some q.yValue ∧
      r.nextQueries[j]? = some q' ∧ q'.index.val = q.index.val / cs.val ∧
      ∃ xinv, friFormula ((r.verifyYValues.drop (j * cs.val)).take cs.val) e xinv cs = .ok q'.yValue ∧
        q'.xInvValue = Felt.pow xinv cs.val := by
  obtain ⟨used, _, hR⟩ := computeNextLayer_rows qs sibs cs e r h
  intro q hq
  obtain ⟨j, h1, h2⟩ := Rows.covers hR hb q hq
  have hj : j < r.nextQueries.length := by
    rw [hR.lengths.1]
    exact (List.getElem?_eq_some_iff.mp h1).1
  obtain ⟨xinv, g1, g2, g3⟩ := hR.fold j r.nextQueries[j] (List.getElem?_eq_getElem hj)
  refine ⟨j, r.nextQueries[j], h1, h2, List.getElem?_eq_getElem hj, ?_, xinv, g2, g3⟩
  rw [h1] at g1
  rw [← Option.some.inj g1]
  exact val_ofNat_div _ _

/-- **No query is skipped.**  If `compute_next_layer` succeeds — for any queries, any coset size and a
    sibling witness of ANY length — then for every input query `q` the coset index
    `q.index / cosetSize` is the index of a next-layer query and is one of the indices handed to the
    table decommitment. -/
theorem computeNextLayer_covers (qs : List LayerQuery) (sibs : List Felt) (cs e : Felt)
    (r : NextLayer) (h : computeNextLayer qs sibs cs e = .ok r)
    (hb : ∀ q ∈ qs, q.index.val + cs.val ≤ P) :
    ∀ q ∈ qs, (∃ q' ∈ r.nextQueries, q'.index.val = q.index.val / cs.val) ∧
      Felt.ofNat (q.index.val / cs.val) ∈ r.verifyIndices := by
  intro q hq
  obtain ⟨j, q', h1, _, h3, h4, _⟩ := computeNextLayer_row_of_query qs sibs cs e r h hb q hq
  exact ⟨⟨q', List.mem_of_getElem? h3, h4⟩, List.mem_of_getElem? h1⟩

/-- real query indices are `< 2^64`: then the no-wrap hypothesis holds for every admissible size -/
theorem computeNextLayer_covers_of_lt (qs : List LayerQuery) (sibs : List Felt) (cs e : Felt)
    (r : NextLayer) (h : computeNextLayer qs sibs cs e = .ok r)
    (hb : ∀ q ∈ qs, q.index.val < 2 ^ 64) :
    ∀ q ∈ qs, (∃ q' ∈ r.nextQueries, q'.index.val = q.index.val / cs.val) ∧
      Felt.ofNat (q.index.val / cs.val) ∈ r.verifyIndices := by
  intro q hq
  obtain ⟨used, _, hR⟩ := computeNextLayer_rows qs sibs cs e r h
  have hsz := Rows.size hR (List.ne_nil_of_mem hq)
  have hP := two_pow_65_lt_P
  exact computeNextLayer_covers qs sibs cs e r h
    (fun q hq => by have := hb q hq; omega) q hq

/-! ### the no-wrap hypothesis is needed -/

/-- coset size 2, queries of index `P-1` and `0`, no sibling: accepted, the only coset is `(P-1)/2`;
    the query `0` was consumed as "`(P-1)+1`", its coset `0/2 = 0` is absent -/
theorem covers_needs_nowrap :
    ∃ r, computeNextLayer [⟨Felt.ofNat (P - 1), 5, 1⟩, ⟨Felt.ofNat 0, 7, 1⟩] [] (Felt.ofNat 2) 3 = .ok r ∧
      Felt.ofNat ((Felt.ofNat 0 : Felt).val / (Felt.ofNat 2 : Felt).val) ∉ r.verifyIndices := by
  have h : (match computeNextLayer [⟨Felt.ofNat (P - 1), 5, 1⟩, ⟨Felt.ofNat 0, 7, 1⟩] []
      (Felt.ofNat 2) 3 with
      | .ok r => decide (Felt.ofNat ((Felt.ofNat 0 : Felt).val / (Felt.ofNat 2 : Felt).val)
          ∉ r.verifyIndices)
      | _ => false) = true := by decide +kernel
  split at h
  · next r hr => exact ⟨r, hr, of_decide_eq_true h⟩
  · cases h

/-! ### all layers -/

/-- product of the coset sizes of the first `n` steps, as the verifier computes them
    (`2^step` in the field; `= 2^step` in `ℕ` for the validated steps `≤ 4`) -/
def cosetProd : Nat → List Felt → Nat
  | 0, _ => 1
  | _ + 1, [] => 1
  | n + 1, st :: steps => (Felt.pow 2 st.val).val * cosetProd n steps

/-- **No query is skipped through the layers.**  If `fri_verify_layers` succeeds then every query `q`
    entering the first of the `n` layers has its image — the index divided by the product of the `n`
    coset sizes — among the indices of the resulting last-layer queries. -/
theorem verifyLayers_covers (H : Hashes) : ∀ (n : Nat) (cs : List Table.Commitment)
    (ws : List LayerWitness) (es steps : List Felt) (qs last : List LayerQuery),
    verifyLayers H n cs ws es steps qs = .ok last → (∀ q ∈ qs, q.index.val + 16 ≤ P) →
    ∀ q ∈ qs, ∃ q' ∈ last, q'.index.val = q.index.val / cosetProd n steps := by
  intro n
  induction n with
  | zero =>
    intro cs ws es steps qs last h _ q hq
    simp only [verifyLayers, Outcome.ok.injEq] at h
    subst h
    exact ⟨q, hq, by simp [cosetProd]⟩
  | succ n ih =>
    intro cs ws es steps qs last h hb q hq
    rw [verifyLayers_ok_iff] at h
    match cs, ws, es, steps, h with
    | c :: cs, w :: ws, e :: es, st :: steps, h =>
      obtain ⟨nl, h1, _, h3⟩ := h
      rw [← verifyLayers_ok_iff] at h3
      obtain ⟨used, _, hR⟩ := computeNextLayer_rows _ _ _ _ _ h1
      have hsz := Rows.size hR (List.ne_nil_of_mem hq)
      have hb1 : ∀ q ∈ qs, q.index.val + (Felt.pow 2 st.val).val ≤ P := by
        intro q hq; have := hb q hq; omega
      obtain ⟨⟨q1, hq1, hv1⟩, _⟩ := computeNextLayer_covers _ _ _ _ _ h1 hb1 q hq
      have hb2 : ∀ q' ∈ nl.nextQueries, q'.index.val + 16 ≤ P := by
        intro q' hq'
        have hmem : q'.index ∈ nl.verifyIndices := by
          rw [← hR.indices]; exact List.mem_map_of_mem hq'
        obtain ⟨q0, hq0, hc⟩ := Rows.index_of_query hR _ hmem
        have hv : q'.index.val = q0.index.val / (Felt.pow 2 st.val).val := by
          rw [hc]; exact val_ofNat_div _ _
        have := hb q0 hq0
        have := Nat.div_le_self q0.index.val (Felt.pow 2 st.val).val
        omega
      obtain ⟨q2, hq2, hv2⟩ := ih cs ws es steps nl.nextQueries last h3 hb2 q1 hq1
      refine ⟨q2, hq2, ?_⟩
      rw [hv2, hv1, Nat.div_div_eq_div_mul]
      rfl

end Swiftness.Proofs.FriNoSkip
