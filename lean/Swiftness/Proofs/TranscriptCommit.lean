/-
  C08: the commitment phase (`Stark.commit`, `Fri.commit`, `Pow.commit`) performs exactly the
  transcript operations of `Spec.commitScript`, in that order.
-/
import Swiftness.Proofs.Transcript

namespace Swiftness.Proofs.Tr
open Swiftness Swiftness.Transcript Swiftness.Spec
attribute [-instance] Fin.instOfNat

variable (H : Hashes)

/-- `squeezeN` is `n` squeeze operations -/
theorem squeezeN_run (n : ℕ) (t : Transcript) :
    run H t (List.replicate n .squeeze) = ((Stark.squeezeN H n t).2, (Stark.squeezeN H n t).1) := by
  induction n generalizing t with
  | zero => rfl
  | succ n ih =>
    rw [List.replicate_succ, run_squeeze, ih]
    rfl

theorem squeezeN_length (n : ℕ) (t : Transcript) : (Stark.squeezeN H n t).1.length = n := by
  induction n generalizing t with
  | zero => rfl
  | succ n ih =>
    show ((randomFelt H t).1 :: (Stark.squeezeN H n (randomFelt H t).2).1).length = n + 1
    simp [ih]

/-- `fri_commit_rounds` for `n` rounds is: absorb root, squeeze, `n` times, over the first `n`
    roots (all present) -/
theorem commitRounds_run (n : ℕ) (t t3 : Transcript) (cfgs : List Fri.TableConfig) (roots : List Felt)
    (cs : List Table.Commitment) (es : List Felt)
    (h : Fri.commitRounds H n t cfgs roots = .ok (t3, cs, es)) :
    n ≤ roots.length ∧ es.length = n ∧ run H t (friRoundsScript (roots.take n)) = (t3, es) := by
  induction n generalizing t t3 cfgs roots cs es with
  | zero =>
    simp only [Fri.commitRounds, Outcome.ok.injEq, Prod.mk.injEq] at h
    obtain ⟨rfl, _, rfl⟩ := h
    simp [friRoundsScript]
  | succ n ih =>
    unfold Fri.commitRounds at h
    cases roots with
    | nil => simp at h
    | cons r roots' =>
      cases cfgs with
      | nil => simp at h
      | cons c cfgs' =>
        simp only at h
        split at h
        · next t3' cs' es' heq =>
          simp only [Outcome.ok.injEq, Prod.mk.injEq] at h
          obtain ⟨rfl, _, rfl⟩ := h
          obtain ⟨h1, h2, h3⟩ := ih _ _ _ _ _ _ heq
          refine ⟨by simpa using h1, by simp [h2], ?_⟩
          simp only [List.take_succ_cons, friRoundsScript, List.flatMap_cons, List.cons_append,
            List.nil_append, run_absorbFelt, run_squeeze]
          simp only [friRoundsScript] at h3
          rw [h3]
        · simp at h
        · simp at h

/-- what an accepting `fri_commit` did to the transcript -/
theorem friCommit_run (t t' : Transcript) (roots lastCoefs : List Felt) (cfg : Fri.Config)
    (fc : Fri.Commitment) (h : Fri.commit H t roots lastCoefs cfg = .ok (t', fc)) :
    (cfg.nLayers - 1).val ≤ roots.length ∧ fc.evalPoints.length = (cfg.nLayers - 1).val ∧
    fc.lastLayerCoefficients = lastCoefs ∧ fc.config = cfg ∧
    run H t (friRoundsScript (roots.take (cfg.nLayers - 1).val) ++ [.absorbVec lastCoefs]) =
      (t', fc.evalPoints) := by
  unfold Fri.commit at h
  split at h
  · simp at h
  split at h
  · simp at h
  split at h
  · next t1 cs es heq =>
    split at h
    · simp at h
    · simp only [Outcome.ok.injEq, Prod.mk.injEq] at h
      obtain ⟨rfl, rfl⟩ := h
      obtain ⟨h1, h2, h3⟩ := commitRounds_run H _ _ _ _ _ _ _ heq
      refine ⟨h1, h2, rfl, rfl, ?_⟩
      rw [run_append, h3]
      simp
  · simp at h
  · simp at h

/-- what an accepting proof-of-work commit did -/
theorem powCommit_run (t t' : Transcript) (nBits nonce : ℕ)
    (h : Pow.commit H t nBits nonce = .ok t') :
    Pow.verifyPow H t.digest.toBytesBE nBits nonce = .ok () ∧ t' = readU64 H t nonce := by
  unfold Pow.commit at h
  split at h
  · next heq =>
    simp only [Outcome.ok.injEq] at h
    exact ⟨heq, h.symm⟩
  · simp at h
  · simp at h

/-- everything an accepting `stark_commit` returns, expressed through the run of the script up to
    (excluding) the nonce. -/
theorem commit_run (L : LayoutOps) (t t' : Transcript) (pi : PublicInput)
    (u : Stark.UnsentCommitment) (cfg : StarkConfig) (d : StarkDomains) (c : Stark.Commitment)
    (h : Stark.commit L H t pi u cfg d = .ok (t', c)) :
    let n := L.nInteractionElements
    let a := compositionAlpha H t n u.tracesOriginal u.tracesInteraction
    let b := oodsAlpha H t n u.tracesOriginal u.tracesInteraction u.composition u.oodsValues
    ∃ s : Transcript,
      run H t (commitScriptBeforeNonce L u cfg) =
        (s, c.interactionElements ++ [a, c.interactionAfterComposition, b] ++ c.fri.evalPoints) ∧
      Pow.verifyPow H s.digest.toBytesBE cfg.powBits u.powNonce = .ok () ∧
      t' = readU64 H s u.powNonce ∧
      c.interactionElements = interactionElements H t n u.tracesOriginal ∧
      c.interactionElements.length = n ∧
      c.interactionAfterComposition =
        oodsPoint H t n u.tracesOriginal u.tracesInteraction u.composition ∧
      c.fri.evalPoints.length = (cfg.fri.nLayers - 1).val ∧
      (cfg.fri.nLayers - 1).val ≤ u.friInnerLayers.length ∧
      c.oodsValues = u.oodsValues ∧
      c.fri.lastLayerCoefficients = u.friLastLayerCoefficients ∧
      c.interactionAfterOods = Stark.powersArray (L.maskSize + L.constraintDegree) 1 b ∧
      Stark.verifyOods L u.oodsValues c.interactionElements pi
        (Stark.powersArray L.nConstraints 1 a) c.interactionAfterComposition
        d.traceDomainSize d.traceGenerator = .ok () := by
  have hst : stateAfterTraces H t L.nInteractionElements u.tracesOriginal u.tracesInteraction =
      readFelt H (Stark.squeezeN H L.nInteractionElements (readFelt H t u.tracesOriginal)).2
        u.tracesInteraction := by
    simp only [stateAfterTraces, List.cons_append, List.nil_append, run_absorbFelt]
    rw [run_append, squeezeN_run]
    simp only [run_absorbFelt, run_nil]
  have hie : interactionElements H t L.nInteractionElements u.tracesOriginal =
      (Stark.squeezeN H L.nInteractionElements (readFelt H t u.tracesOriginal)).1 := by
    simp only [interactionElements, List.cons_append, List.nil_append, run_absorbFelt]
    rw [squeezeN_run]
  unfold Stark.commit at h
  simp only at h
  split at h
  · simp at h
  · simp at h
  · next hoods =>
    split at h
    · simp at h
    · split at h
      · simp at h
      · simp at h
      · next tf fc hfri =>
        split at h
        · simp at h
        · simp at h
        · next tp hpow =>
          simp only [Outcome.ok.injEq, Prod.mk.injEq] at h
          obtain ⟨rfl, rfl⟩ := h
          obtain ⟨hp1, hp2⟩ := powCommit_run H _ _ _ _ hpow
          obtain ⟨hf1, hf2, hf3, _, hf5⟩ := friCommit_run H _ _ _ _ _ _ hfri
          have hA : compositionAlpha H t L.nInteractionElements u.tracesOriginal u.tracesInteraction
              = (randomFelt H (readFelt H (Stark.squeezeN H L.nInteractionElements
                  (readFelt H t u.tracesOriginal)).2 u.tracesInteraction)).1 := by
            simp only [compositionAlpha, hst]
          have hP : oodsPoint H t L.nInteractionElements u.tracesOriginal u.tracesInteraction
              u.composition = (randomFelt H (readFelt H (randomFelt H (readFelt H
                (Stark.squeezeN H L.nInteractionElements (readFelt H t u.tracesOriginal)).2
                u.tracesInteraction)).2 u.composition)).1 := by
            simp only [oodsPoint, stateAfterComposition, hst]
          have hB : oodsAlpha H t L.nInteractionElements u.tracesOriginal u.tracesInteraction
              u.composition u.oodsValues = (randomFelt H (readFeltVector H (randomFelt H (readFelt H
                (randomFelt H (readFelt H (Stark.squeezeN H L.nInteractionElements
                  (readFelt H t u.tracesOriginal)).2 u.tracesInteraction)).2 u.composition)).2
                u.oodsValues)).1 := by
            simp only [oodsAlpha, stateAfterOodsValues, stateAfterComposition, hst]
          intro n a b
          simp only [n, a, b]
          rw [hA, hB, hP, hie]
          refine ⟨tf, ?_, hp1, hp2, rfl, squeezeN_length H _ _, rfl, hf2, hf1, trivial, hf3,
            rfl, hoods⟩
          simp only [commitScriptBeforeNonce, scriptToComposition, List.append_assoc,
            List.cons_append, List.nil_append, run_absorbFelt]
          rw [run_append, squeezeN_run]
          simp only [run_absorbFelt, run_squeeze, run_absorbVec]
          rw [hf5]

theorem commitScript_eq (L : LayoutOps) (u : Stark.UnsentCommitment) (cfg : StarkConfig) :
    commitScript L u cfg = commitScriptBeforeNonce L u cfg ++ [.absorbU64 u.powNonce] := by
  simp [commitScript, commitScriptBeforeNonce, scriptToComposition]

/-- `StarkProof::verify` samples its queries from the state `stark_commit` returned -/
theorem verify_queries_state (L : LayoutOps) (stone6 : Bool) (p : Stark.Proof) (sb : Felt)
    (r : Felt × Felt) (h : Stark.verify L H stone6 p sb = .ok r) :
    ∃ d t' c qs tq,
      Stark.commit L H (Transcript.new (p.publicInput.getHash H stone6 p.config.nFriendly))
        p.publicInput p.unsent p.config d = .ok (t', c) ∧
      Queries.generateQueries H t' p.config.nQueries d.evalDomainSize = .ok (qs, tq) := by
  unfold Stark.verify at h
  split at h
  · split at h
    · simp at h
    · simp at h
    · split at h
      · simp at h
      · simp at h
      · next d _ =>
        split at h
        · simp at h
        · simp at h
        · simp only at h
          split at h
          · simp at h
          · simp at h
          · next t' c hc =>
            split at h
            · simp at h
            · simp at h
            · next qs tq hq => exact ⟨d, t', c, qs, tq, hc, hq⟩
  · simp at h

end Swiftness.Proofs.Tr
