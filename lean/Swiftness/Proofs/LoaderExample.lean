/-
  C19 non-vacuity: a small Stone-format proof file, the values recorded in it (`exampleRaw`), and the
  verifier-side proof it must load to (`exampleProof`, written by hand from the meaning of the format).
-/
import Swiftness.Proofs.LoaderConfig

namespace Swiftness.Loader
open Swiftness

def exampleJson : String := r#"
{
  "version": "example",
  "proof_parameters": {
    "stark": {
      "fri": { "fri_step_list": [0, 2, 1], "last_layer_degree_bound": 4, "n_queries": 2, "proof_of_work_bits": 5 },
      "log_n_cosets": 2
    },
    "n_verifier_friendly_commitment_layers": 3
  },
  "public_input": {
    "layout": "recursive",
    "dynamic_params": null,
    "memory_segments": {
      "range_check": { "begin_addr": 7, "stop_ptr": 8 },
      "execution": { "begin_addr": 3, "stop_ptr": 4 },
      "program": { "begin_addr": 1, "stop_ptr": 2 },
      "output": { "begin_addr": 5, "stop_ptr": 6 }
    },
    "n_steps": 16, "rc_min": 10, "rc_max": 20,
    "public_memory": [
      { "address": 1, "page": 0, "value": "0xa" },
      { "address": 9, "page": 1, "value": "0xb" },
      { "address": 2, "page": 0, "value": "0xc" }
    ]
  },
  "annotations": [
    "title cpu air Proof Protocol",
    "",
    "P->V[0:32]: /cpu air/STARK/Original/Commit on Trace: Commitment: Hash(0x11)",
    "V->P: /cpu air/STARK/Interaction: Interaction element #0: Field Element(0x99)",
    "P->V[32:64]: /cpu air/STARK/Interaction/Commit on Trace: Commitment: Hash(0x12)",
    "P->V[64:96]: /cpu air/STARK/Out Of Domain Sampling/Commit on Trace: Commitment: Hash(0x13)",
    "P->V[96:160]: /cpu air/STARK/Out Of Domain Sampling/OODS values: : Field Elements(0x21, 0x22)",
    "P->V[160:192]: /cpu air/STARK/FRI/Commitment/Layer 1: Commitment: Hash(0x31)",
    "V->P: /cpu air/STARK/FRI/Commitment/Layer 2: Evaluation point: Field Element(0x98)",
    "P->V[192:224]: /cpu air/STARK/FRI/Commitment/Layer 2: Commitment: Hash(0x32)",
    "P->V[224:352]: /cpu air/STARK/FRI/Commitment/Last Layer: Coefficients: Field Elements(0x41, 0x42, 0x43, 0x44)",
    "P->V[352:384]: /cpu air/STARK/FRI/Proof of Work: POW: Data(0xffffffffffffffff)",
    "V->P: /cpu air/STARK/FRI/QueryIndices: 0: Number(5)",
    "P->V[384:416]: /cpu air/STARK/FRI/Decommitment/Layer 0/Virtual Oracle/Trace 0: Row 5, Column 0: Field Element(0x51)",
    "P->V[416:448]: /cpu air/STARK/FRI/Decommitment/Layer 0/Virtual Oracle/Trace 1: Row 5, Column 0: Field Element(0x61)",
    "P->V[448:480]: /cpu air/STARK/FRI/Decommitment/Layer 0/Virtual Oracle/Trace 2: Row 5, Column 0: Field Element(0x71)",
    "P->V[480:512]: /cpu air/STARK/FRI/Decommitment/Layer 0/Virtual Oracle/Trace 0: For node 9: Hash(0x52)",
    "P->V[512:544]: /cpu air/STARK/FRI/Decommitment/Layer 0/Virtual Oracle/Trace 1: To complete packages, element #4: Data(0x62)",
    "P->V[544:576]: /cpu air/STARK/FRI/Decommitment/Layer 0/Virtual Oracle/Trace 1: For node 9: Hash(0x63)",
    "P->V[576:608]: /cpu air/STARK/FRI/Decommitment/Layer 0/Virtual Oracle/Trace 2: For node 9: Hash(0x72)",
    "P->V[608:640]: /cpu air/STARK/FRI/Decommitment/Layer 1: Row 1, Column 1: Field Element(0x81)",
    "P->V[640:672]: /cpu air/STARK/FRI/Decommitment/Layer 1: For node 3: Hash(0x82)",
    "P->V[672:704]: /cpu air/STARK/FRI/Decommitment/Layer 2: Row 0, Column 1: Field Element(0x91)",
    "P->V[704:736]: /cpu air/STARK/FRI/Decommitment/Layer 2: For node 2: Hash(0x92)",
    "Proof Statistics:",
    "Byte count: 736"
  ]
}
"#

/-- the values recorded in `exampleJson` (object members in key order) -/
def exampleRaw : RawFile where
  friStepList := [0, 2, 1]
  lastLayerDegreeBound := 4
  nQueries := 2
  powBits := 5
  logNCosets := 2
  nFriendly := 3
  layout := "recursive"
  dynamicParams := none
  memorySegments := [⟨"execution", 3, 4⟩, ⟨"output", 5, 6⟩, ⟨"program", 1, 2⟩, ⟨"range_check", 7, 8⟩]
  nSteps := 16
  rcMin := 10
  rcMax := 20
  publicMemory := [⟨1, 0, "0xa"⟩, ⟨9, 1, "0xb"⟩, ⟨2, 0, "0xc"⟩]
  annotations :=
    ["title cpu air Proof Protocol",
     "",
     "P->V[0:32]: /cpu air/STARK/Original/Commit on Trace: Commitment: Hash(0x11)",
     "V->P: /cpu air/STARK/Interaction: Interaction element #0: Field Element(0x99)",
     "P->V[32:64]: /cpu air/STARK/Interaction/Commit on Trace: Commitment: Hash(0x12)",
     "P->V[64:96]: /cpu air/STARK/Out Of Domain Sampling/Commit on Trace: Commitment: Hash(0x13)",
     "P->V[96:160]: /cpu air/STARK/Out Of Domain Sampling/OODS values: : Field Elements(0x21, 0x22)",
     "P->V[160:192]: /cpu air/STARK/FRI/Commitment/Layer 1: Commitment: Hash(0x31)",
     "V->P: /cpu air/STARK/FRI/Commitment/Layer 2: Evaluation point: Field Element(0x98)",
     "P->V[192:224]: /cpu air/STARK/FRI/Commitment/Layer 2: Commitment: Hash(0x32)",
     "P->V[224:352]: /cpu air/STARK/FRI/Commitment/Last Layer: Coefficients: Field Elements(0x41, 0x42, 0x43, 0x44)",
     "P->V[352:384]: /cpu air/STARK/FRI/Proof of Work: POW: Data(0xffffffffffffffff)",
     "V->P: /cpu air/STARK/FRI/QueryIndices: 0: Number(5)",
     "P->V[384:416]: /cpu air/STARK/FRI/Decommitment/Layer 0/Virtual Oracle/Trace 0: Row 5, Column 0: Field Element(0x51)",
     "P->V[416:448]: /cpu air/STARK/FRI/Decommitment/Layer 0/Virtual Oracle/Trace 1: Row 5, Column 0: Field Element(0x61)",
     "P->V[448:480]: /cpu air/STARK/FRI/Decommitment/Layer 0/Virtual Oracle/Trace 2: Row 5, Column 0: Field Element(0x71)",
     "P->V[480:512]: /cpu air/STARK/FRI/Decommitment/Layer 0/Virtual Oracle/Trace 0: For node 9: Hash(0x52)",
     "P->V[512:544]: /cpu air/STARK/FRI/Decommitment/Layer 0/Virtual Oracle/Trace 1: To complete packages, element #4: Data(0x62)",
     "P->V[544:576]: /cpu air/STARK/FRI/Decommitment/Layer 0/Virtual Oracle/Trace 1: For node 9: Hash(0x63)",
     "P->V[576:608]: /cpu air/STARK/FRI/Decommitment/Layer 0/Virtual Oracle/Trace 2: For node 9: Hash(0x72)",
     "P->V[608:640]: /cpu air/STARK/FRI/Decommitment/Layer 1: Row 1, Column 1: Field Element(0x81)",
     "P->V[640:672]: /cpu air/STARK/FRI/Decommitment/Layer 1: For node 3: Hash(0x82)",
     "P->V[672:704]: /cpu air/STARK/FRI/Decommitment/Layer 2: Row 0, Column 1: Field Element(0x91)",
     "P->V[704:736]: /cpu air/STARK/FRI/Decommitment/Layer 2: For node 2: Hash(0x92)",
     "Proof Statistics:",
     "Byte count: 736"]

/-- the prover messages of the example, in stream order -/
def exampleItems : List Item :=
  [⟨.traceCommit 0, .hash, [0x11]⟩, ⟨.traceCommit 1, .hash, [0x12]⟩, ⟨.traceCommit 2, .hash, [0x13]⟩,
   ⟨.oods, .fieldElements, [0x21, 0x22]⟩, ⟨.friCommit 1, .hash, [0x31]⟩, ⟨.friCommit 2, .hash, [0x32]⟩,
   ⟨.friLast, .fieldElements, [0x41, 0x42, 0x43, 0x44]⟩, ⟨.pow, .data, [0xffffffffffffffff]⟩,
   ⟨.traceDecommit 0, .fieldElement, [0x51]⟩, ⟨.traceDecommit 1, .fieldElement, [0x61]⟩,
   ⟨.traceDecommit 2, .fieldElement, [0x71]⟩, ⟨.traceDecommit 0, .hash, [0x52]⟩,
   ⟨.traceDecommit 1, .data, [0x62]⟩, ⟨.traceDecommit 1, .hash, [0x63]⟩, ⟨.traceDecommit 2, .hash, [0x72]⟩,
   ⟨.friDecommit 1, .fieldElement, [0x81]⟩, ⟨.friDecommit 1, .hash, [0x82]⟩,
   ⟨.friDecommit 2, .fieldElement, [0x91]⟩, ⟨.friDecommit 2, .hash, [0x92]⟩]

/-- what the verifier must receive -/
def exampleProof : Stark.Proof where
  config :=
    { traces := ⟨⟨7, ⟨10, 3⟩⟩, ⟨3, ⟨10, 3⟩⟩⟩          -- recursive: 7 + 3 columns, height 8 + 2
      composition := ⟨2, ⟨10, 3⟩⟩
      fri := { logInputSize := 10, nLayers := 3
               innerLayers := [⟨4, ⟨8, 3⟩⟩, ⟨2, ⟨7, 3⟩⟩]  -- 2^2 columns at 10-0-2, 2^1 columns at 10-0-2-1
               friStepSizes := [0, 2, 1], logLastLayerDegreeBound := 2 }
      powBits := 5
      logTraceDomainSize := 8                             -- 16 · 1 · 16 = 2^8
      nQueries := 2, logNCosets := 2, nFriendly := 3 }
  publicInput :=
    { logNSteps := 4, rangeCheckMin := 10, rangeCheckMax := 20
      layout := 0x726563757273697665                      -- "recursive"
      dynamicParams := none
      segments := [⟨1, 2⟩, ⟨3, 4⟩, ⟨5, 6⟩, ⟨7, 8⟩]          -- program, execution, output, range_check
      paddingAddr := 1, paddingValue := 0xa
      mainPage := [⟨1, 0xa⟩, ⟨2, 0xc⟩]
      continuousPageHeaders := [] }
  unsent :=
    { tracesOriginal := 0x11, tracesInteraction := 0x12, composition := 0x13
      oodsValues := [0x21, 0x22], friInnerLayers := [0x31, 0x32]
      friLastLayerCoefficients := [0x41, 0x42, 0x43, 0x44], powNonce := 0xffffffffffffffff }
  witness :=
    { tracesOriginalValues := [0x51], tracesInteractionValues := [0x61]
      tracesOriginalAuths := [0x52], tracesInteractionAuths := [0x62, 0x63]
      compositionValues := [0x71], compositionAuths := [0x72]
      friLayers := [⟨[0x81], [0x82]⟩, ⟨[0x91], [0x92]⟩] }

/-- string ↦ proof, evaluated by the compiler (Lean's JSON parser is `partial`, the kernel cannot run it) -/
def loadsTo (s : String) (p : Stark.Proof) : Bool :=
  match loadProof s with
  | .ok q => decide (q = p)
  | .error _ => false

def loadFails (s : String) : Bool :=
  match loadProof s with
  | .ok _ => false
  | .error _ => true

def decodesTo (s : String) (r : RawFile) : Bool :=
  match Lean.Json.parse s with
  | .ok j => (match decode j with | .ok q => decide (q = r) | .error _ => false)
  | .error _ => false

#guard decodesTo exampleJson exampleRaw
#guard loadsTo exampleJson exampleProof

-- errors, never a truncated proof
#guard loadFails (exampleJson.replace "\"proof_of_work_bits\": 5" "\"proof_of_work_bits\": 256")
#guard loadsTo (exampleJson.replace "\"proof_of_work_bits\": 5" "\"proof_of_work_bits\": 255")
      { exampleProof with config := { exampleProof.config with powBits := 255 } }
#guard loadFails (exampleJson.replace "Data(0xffffffffffffffff)" "Data(0x10000000000000000)")
#guard loadFails (exampleJson.replace "\"range_check\"" "\"range_chk\"")
#guard loadFails (exampleJson.replace "\"n_steps\": 16" "\"n_steps\": 17")
#guard loadFails (exampleJson.replace "\"n_steps\": 16" "\"n_steps\": 4294967296")
#guard loadFails (exampleJson.replace "\"last_layer_degree_bound\": 4" "\"last_layer_degree_bound\": 5")
#guard loadFails (exampleJson.replace "[0, 2, 1]" "[0, 2, 9]")
#guard loadFails (exampleJson.replace "[0, 2, 1]" "[]")
#guard loadFails (exampleJson.replace "Field Element(0x81)" "Field Element(0xzz)")      -- unparsable payload
#guard loadFails (exampleJson.replace "Field Elements(0x21, 0x22)" "Field Elements()")
#guard loadFails (exampleJson.replace "Layer 2: Row 0" "Layer 3: Row 0")                 -- layer beyond n_layers
#guard loadFails (exampleJson.replace "Layer 2: Row 0" "Layer 2/x: Row 0")               -- unknown path
#guard loadFails (exampleJson.replace "Layer 1: Commitment" "Layer 3: Commitment")       -- layers out of order
#guard loadFails (exampleJson.replace "Interaction/Commit on Trace" "Original/Commit on Trace")  -- duplicate
#guard loadFails (exampleJson.replace "\"layout\": \"recursive\"" "\"layout\": \"plain\"")
#guard loadFails (exampleJson.replace "\"value\": \"0xa\"" "\"value\": \"a\"")
#guard loadFails (exampleJson.replace "\"public_memory\": [" "\"public_memory\": [], \"x\": [")
#guard loadFails (exampleJson.replace "\"annotations\"" "\"annotation\"")
#guard loadFails (exampleJson.dropEnd 3).toString
#guard loadFails ""

/-! kernel-checked: from the recorded values to the proof -/

instance instDecEqExcept {ε α} [DecidableEq ε] [DecidableEq α] : DecidableEq (Except ε α)
  | .ok a, .ok b => if h : a = b then isTrue (by rw [h]) else isFalse (by intro h'; cases h'; exact h rfl)
  | .error a, .error b => if h : a = b then isTrue (by rw [h]) else isFalse (by intro h'; cases h'; exact h rfl)
  | .ok _, .error _ => isFalse (by intro h; cases h)
  | .error _, .ok _ => isFalse (by intro h; cases h)

theorem example_annotations : parseAnnotations exampleRaw.annotations = .ok exampleItems := by
  decide +kernel

theorem example_convert : convert exampleRaw = .ok exampleProof := by
  unfold convert
  rw [example_annotations]
  decide +kernel

/-- in the example no `Hash` line precedes a `Data` line: stream order = the real parser's order -/
example : ∀ j, j < 3 → noHashBeforeData j exampleItems = true := by decide

end Swiftness.Loader
