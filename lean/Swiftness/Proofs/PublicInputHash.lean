/-
  C13 helper lemmas: the list hashed by `PublicInput::get_hash` determines every bound field
  (given the shape), and the Pedersen chain over the main page binds the page (or exhibits a
  collision).
-/
import Swiftness.Spec.TranscriptSpec
import Swiftness.Proofs.FeltField

namespace Swiftness.Proofs.PIH
open Swiftness Swiftness.PublicInput Swiftness.Spec
attribute [-instance] Fin.instOfNat

theorem two_pow_64_lt_P : 2 ^ 64 < P := by decide +kernel
theorem two_pow_65_lt_P : 2 ^ 65 < P := by decide +kernel

theorem ofNat_inj {m n : ℕ} (hm : m < P) (hn : n < P) (h : Felt.ofNat m = Felt.ofNat n) : m = n := by
  have := congrArg Fin.val h
  simp only [Felt.ofNat_eq_cast] at this
  rwa [Felt.val_cast_of_lt hm, Felt.val_cast_of_lt hn] at this

theorem ofNat_inj64 {m n : ℕ} (hm : m < 2 ^ 64) (hn : n < 2 ^ 64)
    (h : Felt.ofNat m = Felt.ofNat n) : m = n :=
  ofNat_inj (lt_trans hm two_pow_64_lt_P) (lt_trans hn two_pow_64_lt_P) h

/-- `2 * len` (the model's literal `2`) is injective on `usize` lengths -/
theorem two_mul_inj {m n : ℕ} (hm : m < 2 ^ 64) (hn : n < 2 ^ 64)
    (h : (@OfNat.ofNat Felt 2 Fin.instOfNat) * Felt.ofNat m =
      (@OfNat.ofNat Felt 2 Fin.instOfNat) * Felt.ofNat n) : m = n := by
  simp only [felt_ofNat, Felt.ofNat_eq_cast] at h
  have h2 : ((2 * m : ℕ) : Felt) = ((2 * n : ℕ) : Felt) := by push_cast; exact h
  have hP := two_pow_65_lt_P
  have := ofNat_inj (m := 2 * m) (n := 2 * n) (by omega) (by omega) h2
  omega

theorem map_ofNat_inj : ∀ {l l' : List ℕ}, (∀ d ∈ l, d < 2 ^ 64) → (∀ d ∈ l', d < 2 ^ 64) →
    l.map Felt.ofNat = l'.map Felt.ofNat → l = l'
  | [], [], _, _, _ => rfl
  | [], _ :: _, _, _, h => by simp at h
  | _ :: _, [], _, _, h => by simp at h
  | x :: l, y :: l', hl, hl', h => by
    simp only [List.map_cons, List.cons.injEq] at h
    have hx := ofNat_inj64 (hl x (by simp)) (hl' y (by simp)) h.1
    have := map_ofNat_inj (fun d hd => hl d (by simp [hd])) (fun d hd => hl' d (by simp [hd])) h.2
    rw [hx, this]

/-! ### the Pedersen chain over the main page -/

section chain
variable (H : Hashes)

/-- one cell of the chain -/
def cellStep (h : Felt) (c : AddrValue) : Felt := H.pedersen (H.pedersen h c.address) c.value

theorem cellStep_inj (h h' : Felt) (c c' : AddrValue) (he : cellStep H h c = cellStep H h' c') :
    (h = h' ∧ c = c') ∨ PedersenCollision H := by
  unfold cellStep at he
  by_cases h1 : (H.pedersen h c.address, c.value) = (H.pedersen h' c'.address, c'.value)
  · obtain ⟨h1a, h1b⟩ := Prod.mk.inj h1
    by_cases h2 : (h, c.address) = (h', c'.address)
    · obtain ⟨h2a, h2b⟩ := Prod.mk.inj h2
      left
      refine ⟨h2a, ?_⟩
      cases c; cases c'; simp_all
    · right; exact ⟨_, _, _, _, h2, h1a⟩
  · right; exact ⟨_, _, _, _, h1, he⟩

/-- the chain is injective in (start value, page) for pages of equal length, or a collision -/
theorem chain_inj : ∀ (p q : List AddrValue) (h h' : Felt), p.length = q.length →
    p.foldl (cellStep H) h = q.foldl (cellStep H) h' → (h = h' ∧ p = q) ∨ PedersenCollision H
  | [], [], h, h', _, he => Or.inl ⟨he, rfl⟩
  | [], _ :: _, _, _, hl, _ => by simp at hl
  | _ :: _, [], _, _, hl, _ => by simp at hl
  | x :: p, y :: q, h, h', hl, he => by
    simp only [List.foldl_cons] at he
    rcases chain_inj p q _ _ (by simpa using hl) he with ⟨h1, h2⟩ | hc
    · rcases cellStep_inj H h h' x y h1 with ⟨h3, h4⟩ | hc
      · left; exact ⟨h3, by rw [h4, h2]⟩
      · right; exact hc
    · right; exact hc

theorem mainPageHash_eq (p : List AddrValue) :
    mainPageHash H p =
      H.pedersen (p.foldl (cellStep H) (@OfNat.ofNat Felt 0 Fin.instOfNat))
        ((@OfNat.ofNat Felt 2 Fin.instOfNat) * Felt.ofNat p.length) := rfl

/-- equal main-page hashes: equal pages, or an explicit Pedersen collision -/
theorem mainPageHash_inj (p q : List AddrValue) (hp : p.length < 2 ^ 64) (hq : q.length < 2 ^ 64)
    (he : mainPageHash H p = mainPageHash H q) : p = q ∨ PedersenCollision H := by
  rw [mainPageHash_eq, mainPageHash_eq] at he
  by_cases h1 : (p.foldl (cellStep H) (@OfNat.ofNat Felt 0 Fin.instOfNat),
        (@OfNat.ofNat Felt 2 Fin.instOfNat) * Felt.ofNat p.length) =
      (q.foldl (cellStep H) (@OfNat.ofNat Felt 0 Fin.instOfNat),
        (@OfNat.ofNat Felt 2 Fin.instOfNat) * Felt.ofNat q.length)
  · obtain ⟨h1a, h1b⟩ := Prod.mk.inj h1
    have hl := two_mul_inj hp hq h1b
    rcases chain_inj H p q _ _ hl h1a with ⟨_, h2⟩ | hc
    · left; exact h2
    · right; exact hc
  · right; exact ⟨_, _, _, _, h1, he⟩

end chain

/-! ### the hashed list -/

def segFelts (s : SegmentInfo) : List Felt := [s.beginAddr, s.stopPtr]
def hdrFelts (h : ContinuousPageHeader) : List Felt := [h.startAddress, h.size, h.hash]

theorem flatMap_seg_length (l : List SegmentInfo) : (l.flatMap segFelts).length = 2 * l.length := by
  induction l with
  | nil => rfl
  | cons x l ih => simp only [List.flatMap_cons, List.length_append, ih, segFelts]; simp; omega

theorem flatMap_seg_inj : ∀ {l l' : List SegmentInfo}, l.flatMap segFelts = l'.flatMap segFelts → l = l'
  | [], [], _ => rfl
  | [], y :: l', h => by simp [segFelts] at h
  | x :: l, [], h => by simp [segFelts] at h
  | x :: l, y :: l', h => by
    simp only [List.flatMap_cons, segFelts, List.cons_append, List.nil_append, List.cons.injEq] at h
    obtain ⟨h1, h2, h3⟩ := h
    have := flatMap_seg_inj (l := l) (l' := l') h3
    cases x; cases y; simp_all

theorem flatMap_hdr_inj : ∀ {l l' : List ContinuousPageHeader},
    l.flatMap hdrFelts = l'.flatMap hdrFelts → l.map headerKey = l'.map headerKey
  | [], [], _ => rfl
  | [], y :: l', h => by simp [hdrFelts] at h
  | x :: l, [], h => by simp [hdrFelts] at h
  | x :: l, y :: l', h => by
    simp only [List.flatMap_cons, hdrFelts, List.cons_append, List.nil_append, List.cons.injEq] at h
    obtain ⟨h1, h2, h3, h4⟩ := h
    have := flatMap_hdr_inj (l := l) (l' := l') h4
    simp only [List.map_cons, headerKey, h1, h2, h3, this]

/-- `hashData`, right-nested -/
theorem hashData_eq (H : Hashes) (s : Bool) (nf : Felt) (pi : PublicInput) :
    hashData H s nf pi =
      (if s then [nf] else []) ++
      ([pi.logNSteps, pi.rangeCheckMin, pi.rangeCheckMax, pi.layout] ++
      ((pi.dynamicParams.getD []).map Felt.ofNat ++
      (pi.segments.flatMap segFelts ++
      ([pi.paddingAddr, pi.paddingValue, Felt.ofNat (pi.continuousPageHeaders.length + 1),
        Felt.ofNat pi.mainPage.length, mainPageHash H pi.mainPage] ++
      pi.continuousPageHeaders.flatMap hdrFelts)))) := by
  unfold hashData
  cases pi.dynamicParams <;> simp [List.append_assoc] <;> rfl

theorem dyn_eq_of {a b : Option (List ℕ)} (hlen : a.map List.length = b.map List.length)
    (h : a.getD [] = b.getD []) : a = b := by
  cases a <;> cases b <;> simp_all

theorem dyn_length_eq {a b : Option (List ℕ)} (hlen : a.map List.length = b.map List.length) :
    (a.getD []).length = (b.getD []).length := by
  cases a <;> cases b <;> simp_all

/-- the hashed list determines every bound field, given the shape -/
theorem hashData_inj (H : Hashes) (s : Bool) (nfA nfB : Felt) (a b : PublicInput)
    (hseg : a.segments.length = b.segments.length)
    (hdyn : a.dynamicParams.map List.length = b.dynamicParams.map List.length)
    (hda : ∀ d ∈ a.dynamicParams.getD [], d < 2 ^ 64)
    (hdb : ∀ d ∈ b.dynamicParams.getD [], d < 2 ^ 64)
    (hma : a.mainPage.length < 2 ^ 64) (hmb : b.mainPage.length < 2 ^ 64)
    (he : hashData H s nfA a = hashData H s nfB b) :
    a.logNSteps = b.logNSteps ∧ a.rangeCheckMin = b.rangeCheckMin ∧
    a.rangeCheckMax = b.rangeCheckMax ∧ a.layout = b.layout ∧
    a.dynamicParams = b.dynamicParams ∧ a.segments = b.segments ∧
    a.paddingAddr = b.paddingAddr ∧ a.paddingValue = b.paddingValue ∧
    a.continuousPageHeaders.length = b.continuousPageHeaders.length ∧
    a.continuousPageHeaders.map headerKey = b.continuousPageHeaders.map headerKey ∧
    a.mainPage.length = b.mainPage.length ∧
    mainPageHash H a.mainPage = mainPageHash H b.mainPage ∧
    (s = true → nfA = nfB) := by
  rw [hashData_eq, hashData_eq] at he
  obtain ⟨h0, he⟩ := List.append_inj he (by cases s <;> rfl)
  obtain ⟨h1, he⟩ := List.append_inj he rfl
  obtain ⟨h2, he⟩ := List.append_inj he (by simp only [List.length_map]; exact dyn_length_eq hdyn)
  obtain ⟨h3, he⟩ := List.append_inj he (by rw [flatMap_seg_length, flatMap_seg_length, hseg])
  obtain ⟨h4, h5⟩ := List.append_inj he rfl
  simp only [List.cons.injEq, and_true] at h1 h4
  obtain ⟨e1, e2, e3, e4⟩ := h1
  obtain ⟨e5, e6, _, e8, e9⟩ := h4
  have hk := flatMap_hdr_inj h5
  refine ⟨e1, e2, e3, e4, dyn_eq_of hdyn (map_ofNat_inj hda hdb h2), flatMap_seg_inj h3, e5, e6,
    ?_, hk, ofNat_inj64 hma hmb e8, e9, ?_⟩
  · simpa using congrArg List.length hk
  · intro hs; subst hs; simpa using h0

end Swiftness.Proofs.PIH
