/-
  Per-layout kernel-checked facts for C16 (restated in `Props/C16.lean`); split over several modules so
  that they build in parallel.  The generated programs are referred to by name only.
-/
import Swiftness.Proofs.AstLinearCover
import Swiftness.Proofs.AstChain
import Swiftness.Proofs.AstChainFlags
import Swiftness.Proofs.AstScope
import Swiftness.Generated.Consts
import Swiftness.Generated.DynamicParams
import Swiftness.Generated.Layout.starknet_with_keccak

set_option maxRecDepth 100000

namespace Swiftness.Proofs.AstLinear.Facts
open Swiftness Swiftness.Ast Swiftness.Gen Swiftness.Gen.Layout

theorem linear_starknet_with_keccak_composition :
    checkLinear starknet_with_keccak.composition starknet_with_keccak.compositionAcc starknet_with_keccak.compositionRes = true := by
  ast_linear starknet_with_keccak.composition

theorem linear_starknet_with_keccak_oods :
    checkLinear starknet_with_keccak.oods starknet_with_keccak.oodsAcc starknet_with_keccak.oodsRes = true := by
  ast_linear starknet_with_keccak.oods

theorem coverage_starknet_with_keccak_composition :
    checkCoverage starknet_with_keccak.composition starknet_with_keccak.N_CONSTRAINTS = true := by
  ast_coverage starknet_with_keccak.composition

theorem coverage_starknet_with_keccak_oods :
    checkCoverage starknet_with_keccak.oods (starknet_with_keccak.MASK_SIZE + starknet_with_keccak.CONSTRAINT_DEGREE) = true := by
  ast_coverage starknet_with_keccak.oods

theorem chain_starknet_with_keccak_composition :
    checkChain starknet_with_keccak.composition starknet_with_keccak.compositionAcc starknet_with_keccak.compositionRes = true := by
  ast_chain starknet_with_keccak.composition

theorem chain_starknet_with_keccak_oods :
    checkChain starknet_with_keccak.oods starknet_with_keccak.oodsAcc starknet_with_keccak.oodsRes = true := by
  ast_chain starknet_with_keccak.oods

theorem scope_starknet_with_keccak_composition : checkScope starknet_with_keccak.composition starknet_with_keccak.compositionAcc = true := by
  ast_scope starknet_with_keccak.composition

theorem scope_starknet_with_keccak_oods : checkScope starknet_with_keccak.oods starknet_with_keccak.oodsAcc = true := by
  ast_scope starknet_with_keccak.oods

theorem flagdisc_starknet_with_keccak_oods : (flagMap starknet_with_keccak.oods).isSome = true := by
  ast_flags starknet_with_keccak.oods

theorem unguarded_starknet_with_keccak : unguarded starknet_with_keccak.composition = true ∧ unguarded starknet_with_keccak.oods = true := by
  constructor
  · ast_unguarded starknet_with_keccak.composition
  · ast_unguarded starknet_with_keccak.oods

theorem flagdisc_starknet_with_keccak_composition : (flagMap starknet_with_keccak.composition).isSome = true := by
  ast_flags starknet_with_keccak.composition

end Swiftness.Proofs.AstLinear.Facts
