/-
  C01 / C03 non-vacuity: two tiny but complete proofs that `StarkProof::verify` (the model) ACCEPTS,
  one for a hand-made `LayoutOps`, one for a hand-made `LayoutData` run through the static-layout
  code (`LayoutData.ops`: `validate_public_input`, `verify_public_input`, the public-memory
  product, the AST evaluators).  Core Lean only; everything is checked by kernel evaluation.

  The instance: trace domain `2^2`, blow-up `2^1` (evaluation domain `2^3`), one query, 30 PoW
  bits, two trace tables of one column (all cells `1`, resp. `2`), a composition table of two
  columns (all rows `(2, 0)`), DEEP combination "sum of the opened cells" (= `5` everywhere), one FRI
  layer of coset size 2 (all rows `(5, 5)`, folding to the constant `10`), last layer `10 + 0·x`.
  All ten Merkle layers are verifier-friendly for the toy `poseidon2`; the authentication paths are
  computed by the executable specification (`Merkle.authPath`).
-/
import Swiftness.Model.LayoutStatic
import Swiftness.Spec.TableSpec

namespace Swiftness.Proofs.Pipeline.Toy
open Swiftness

/-- a toy instance of the hash functions (natural-number arithmetic only; the 256-bit hash is
    constant zero, so the proof of work is trivially met) -/
def toyH : Hashes where
  poseidon2 x y := Felt.ofNat (x.val + 3 * y.val + 1)
  poseidonMany l := Felt.ofNat (l.foldl (fun a x => 31 * a + x.val + 1) 7)
  pedersen x y := Felt.ofNat (x.val + 5 * y.val + 2)
  h256 _ := List.replicate 32 0
  maskBytes := 20

/-- a toy layout: the composition "polynomial" is the first mask value, the DEEP combination is
    the sum of the opened cells -/
def toyL : LayoutOps where
  nInteractionElements := 2
  nConstraints := 3
  maskSize := 1
  constraintDegree := 2
  numColumnsFirst _ := some 1
  numColumnsSecond _ := some 1
  evalComposition _ _ mask _ _ _ _ := .ok (mask.headD 0)
  evalOods _ cols _ _ _ _ _ := .ok (cols.foldl (· + ·) 0)
  validatePublicInput _ _ := .ok ()
  verifyPublicInput pi := .ok (pi.logNSteps, pi.layout)

/-- the same layout as DATA for the static-layout code: two interaction elements (the public
    memory `z`, `alpha`), two global values, one-statement programs -/
def toyD : LayoutData where
  name := "toy"
  consts := [("PM_MAX_LOG_N_STEPS", 50), ("PM_MAX_RANGE_CHECK", 65535), ("PM_MAX_ADDRESS", 2 ^ 64),
    ("PM_INITIAL_PC", 1), ("CPU_COMPONENT_HEIGHT", 1), ("CPU_COMPONENT_STEP", 1),
    ("PUBLIC_MEMORY_STEP", 1), ("NUM_COLUMNS_FIRST", 1), ("NUM_COLUMNS_SECOND", 1),
    ("N_CONSTRAINTS", 3), ("MASK_SIZE", 1), ("CONSTRAINT_DEGREE", 2), ("LAYOUT_CODE", 77),
    ("SEG_N_SEGMENTS", 3), ("SEG_PROGRAM", 0), ("SEG_EXECUTION", 1), ("SEG_OUTPUT", 2)]
  builtins := []
  gvFields := ["trace_length", "initial_pc"]
  interactionFields := ["memory_multi_column_perm_perm_interaction_elm",
    "memory_multi_column_perm_hash_interaction_elm0"]
  composition := ([⟨[], .set 0 (.mask 0)⟩], 0)
  oods := ([⟨[], .set 0 (.add (.add (.col (.lit 0)) (.col (.lit 1)))
    (.add (.col (.lit 2)) (.col (.lit 3))))⟩], 0)
  periodic := []

def nf : Felt := Felt.ofNat 10
def vec (h : Nat) : Vector.Config := ⟨Felt.ofNat h, nf⟩

def cellsC (_ c : Nat) : Felt := if c = 0 then Felt.ofNat 2 else Felt.ofNat 0

/-- committed roots: constant tables -/
def root1 (v : Nat) : Felt := TableSpec.tableRoot toyH nf 3 1 (fun _ _ => Felt.ofNat v)
def rootC : Felt := TableSpec.tableRoot toyH nf 3 2 cellsC
def rootF : Felt := TableSpec.tableRoot toyH nf 2 2 (fun _ _ => Felt.ofNat 5)

def toyCfg : StarkConfig :=
  { traces := ⟨⟨Felt.ofNat 1, vec 3⟩, ⟨Felt.ofNat 1, vec 3⟩⟩
    composition := ⟨Felt.ofNat 2, vec 3⟩
    fri := ⟨Felt.ofNat 3, Felt.ofNat 2, [⟨Felt.ofNat 2, vec 2⟩], [Felt.ofNat 0, Felt.ofNat 1],
      Felt.ofNat 1⟩
    powBits := 30, logTraceDomainSize := Felt.ofNat 2, nQueries := Felt.ofNat 1
    logNCosets := Felt.ofNat 1, nFriendly := nf }

def toyU : Stark.UnsentCommitment :=
  ⟨root1 1, root1 2, rootC, [Felt.ofNat 7, Felt.ofNat 7, Felt.ofNat 0], [rootF],
   [Felt.ofNat 10, Felt.ofNat 0], 99⟩

def auth1 (q v : Nat) : List Felt :=
  Merkle.authPath toyH nf 3 (TableSpec.tableLeaf toyH nf 3 1 (fun _ _ => Felt.ofNat v)) [q]
def authC (q : Nat) : List Felt :=
  Merkle.authPath toyH nf 3 (TableSpec.tableLeaf toyH nf 3 2 cellsC) [q]
def authF (q : Nat) : List Felt :=
  Merkle.authPath toyH nf 2 (TableSpec.tableLeaf toyH nf 2 2 (fun _ _ => Felt.ofNat 5)) [q / 2]

/-- the witness for query index `q` -/
def toyW (q : Nat) : Stark.Witness :=
  ⟨[Felt.ofNat 1], [Felt.ofNat 2], auth1 q 1, auth1 q 2, [Felt.ofNat 2, Felt.ofNat 0], authC q,
   [⟨[Felt.ofNat 5], authF q⟩]⟩

/-- public input for `toyL` (nothing is checked there) -/
def toyPI : PublicInput :=
  ⟨Felt.ofNat 1, Felt.ofNat 0, Felt.ofNat 1, Felt.ofNat 77, none, [], Felt.ofNat 0, Felt.ofNat 0,
   [], []⟩

/-- public input for `toyD`: `2^2` steps, program cells at `1, 2` (`initial_ap = 5`), one output
    cell at `10` -/
def toyPID : PublicInput where
  logNSteps := Felt.ofNat 2
  rangeCheckMin := Felt.ofNat 0
  rangeCheckMax := Felt.ofNat 1
  layout := Felt.ofNat 77
  dynamicParams := none
  segments := [⟨Felt.ofNat 1, Felt.ofNat 5⟩, ⟨Felt.ofNat 5, Felt.ofNat 9⟩, ⟨Felt.ofNat 10, Felt.ofNat 11⟩]
  paddingAddr := Felt.ofNat 1
  paddingValue := Felt.ofNat 100
  mainPage := [⟨Felt.ofNat 1, Felt.ofNat 100⟩, ⟨Felt.ofNat 2, Felt.ofNat 200⟩,
    ⟨Felt.ofNat 10, Felt.ofNat 42⟩]
  continuousPageHeaders := []

/-- with `toyPI` the transcript draws query index 5 -/
def toyP : Stark.Proof := ⟨toyCfg, toyPI, toyU, toyW 5⟩

/-- with `toyPID` the transcript draws query index 0 -/
def toyPD : Stark.Proof := ⟨toyCfg, toyPID, toyU, toyW 0⟩

/-! ### acceptance -/

theorem toy_accepts :
    Stark.verify toyL toyH false toyP (Felt.ofNat 31) = .ok (Felt.ofNat 1, Felt.ofNat 77) := by
  decide +kernel

theorem toyD_accepts :
    Stark.verify (toyD.ops toyH) toyH false toyPD (Felt.ofNat 31) =
      .ok (Felt.ofNat 1516, Felt.ofNat 219) := by
  decide +kernel

/-- … and the returned pair is the pair of Pedersen chains of the program and output values -/
theorem toyD_result :
    LayoutData.hashChain toyH [Felt.ofNat 100, Felt.ofNat 200] = Felt.ofNat 1516 ∧
    LayoutData.hashChain toyH [Felt.ofNat 42] = Felt.ofNat 219 := by
  decide +kernel

/-! ### every tampering below is rejected (the checks are not vacuous) -/

/-- one more security bit than the configuration provides -/
theorem toy_rejects_security :
    Stark.verify toyL toyH false toyP (Felt.ofNat 32) = .err "InsufficientSecurity" := by
  decide +kernel

/-- an OODS composition value that does not match the composition evaluated from the mask -/
theorem toy_rejects_oods :
    Stark.verify toyL toyH false
      { toyP with unsent := { toyU with oodsValues := [Felt.ofNat 7, Felt.ofNat 8, Felt.ofNat 0] } }
      (Felt.ofNat 31) = .err "EvaluationInvalid" := by
  decide +kernel

/-- an extra OODS value -/
theorem toy_rejects_oods_length :
    Stark.verify toyL toyH false
      { toyP with unsent := { toyU with
          oodsValues := [Felt.ofNat 7, Felt.ofNat 7, Felt.ofNat 0, Felt.ofNat 0] } }
      (Felt.ofNat 31) = .err "InvalidLength" := by
  decide +kernel

/-- a composition table declared with ONE column (the configuration check does not look at this
    number): the decommitment length check of the table catches it … -/
theorem toy_rejects_composition_columns :
    Stark.verify toyL toyH false
      { toyP with config := { toyCfg with composition := ⟨Felt.ofNat 1, vec 3⟩ } }
      (Felt.ofNat 31) = .err "DecommitmentLength" := by
  decide +kernel

/-- … and if the decommitment is shortened to match, the length check of
    `eval_oods_boundary_poly_at_points` does (the single-column leaf happens to be rejected by the
    Merkle check first here, so the root is adapted too) -/
theorem toy_rejects_composition_columns' :
    Stark.verify toyL toyH false
      { config := { toyCfg with composition := ⟨Felt.ofNat 1, vec 3⟩ }
        publicInput := toyPI
        unsent := { toyU with composition := root1 2 }
        witness := { toyW 1 with compositionValues := [Felt.ofNat 2], compositionAuths := auth1 1 2 } }
      (Felt.ofNat 31) = .err "InvalidDecommitmentLength" := by
  decide +kernel

/-- an opened trace cell that is not the committed one -/
theorem toy_rejects_cell :
    Stark.verify toyL toyH false
      { toyP with witness := { toyW 5 with tracesOriginalValues := [Felt.ofNat 3] } }
      (Felt.ofNat 31) = .err "MisMatch" := by
  decide +kernel

/-- a FRI input size that is not the evaluation-domain size -/
theorem toy_rejects_fri_input_size :
    Stark.verify toyL toyH false
      { toyP with config := { toyCfg with fri := { toyCfg.fri with logInputSize := Felt.ofNat 4 } } }
      (Felt.ofNat 31) = .err "MisMatch" := by
  decide +kernel

/-- a blow-up exponent of zero -/
theorem toy_rejects_no_blowup :
    Stark.verify toyL toyH false
      { toyP with config := { toyCfg with logNCosets := Felt.ofNat 0 } }
      (Felt.ofNat 31) = .err "OutOfBounds" := by
  decide +kernel

/-- a last layer that is not the fold of the first -/
theorem toy_rejects_last_layer :
    (Stark.verify toyL toyH false
      { toyP with unsent := { toyU with friLastLayerCoefficients := [Felt.ofNat 11, Felt.ofNat 0] } }
      (Felt.ofNat 31)).isOk = false := by
  decide +kernel

/-- the static layout refuses another layout's code … -/
theorem toyD_rejects_layout_code :
    Stark.verify (toyD.ops toyH) toyH false
      { toyPD with publicInput := { toyPID with layout := Felt.ofNat 78 } }
      (Felt.ofNat 31) = .err "LayoutCodeInvalid" := by
  decide +kernel

/-- … and a program cell at the wrong address -/
theorem toyD_rejects_address :
    (Stark.verify (toyD.ops toyH) toyH false
      { toyPD with publicInput := { toyPID with
          mainPage := [⟨Felt.ofNat 1, Felt.ofNat 100⟩, ⟨Felt.ofNat 3, Felt.ofNat 200⟩,
            ⟨Felt.ofNat 10, Felt.ofNat 42⟩] } }
      (Felt.ofNat 31)).isOk = false := by
  decide +kernel

end Swiftness.Proofs.Pipeline.Toy
