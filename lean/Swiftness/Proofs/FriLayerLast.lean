/-
  C06, last layer: `hornerEval` is polynomial evaluation, `verifyLastLayer` accepts exactly when the
  committed coefficient list evaluates to every query value, and a single wrong coefficient is detected
  by every query.
-/
import Swiftness.Model.Fri
import Swiftness.Proofs.Fold
import Swiftness.Proofs.FeltField

namespace Swiftness.Proofs
open Swiftness Fri FoldSpec
attribute [-instance] Fin.instOfNat

theorem felt_zero_lit : (@OfNat.ofNat Felt 0 Fin.instOfNat) = (0 : Felt) := by
  rw [felt_ofNat, Nat.cast_zero]

theorem hornerEval_eq (cs : List Felt) (x : Felt) : hornerEval cs x = evalL cs x := by
  unfold hornerEval
  induction cs with
  | nil => simp only [List.foldr_nil, evalL, felt_zero_lit]
  | cons c cs ih => simp only [List.foldr_cons, evalL, ih]; ring

theorem verifyLastLayer_ok_iff (qs : List LayerQuery) (cs : List Felt)
    (hq : ∀ q ∈ qs, q.xInvValue ≠ 0) :
    verifyLastLayer qs cs = .ok () ↔ ∀ q ∈ qs, evalL cs (q.xInvValue)⁻¹ = q.yValue := by
  induction qs with
  | nil => simp [verifyLastLayer]
  | cons q qs ih =>
    have h0 : q.xInvValue ≠ 0 := hq q (List.mem_cons_self ..)
    have ih' := ih (fun q' hq' => hq q' (List.mem_cons_of_mem _ hq'))
    unfold verifyLastLayer
    rw [felt_zero_lit, if_neg h0, hornerEval_eq, Felt.inv_eq]
    by_cases hy : evalL cs (q.xInvValue)⁻¹ = q.yValue
    · simp only [hy, ne_eq, not_true_eq_false, if_false, ih', List.mem_cons, forall_eq_or_imp,
        true_and]
    · simp only [ne_eq, hy, not_false_eq_true, if_true, List.mem_cons, forall_eq_or_imp,
        false_and, iff_false]
      intro h; cases h

section generic
variable {F : Type} [Field F]

theorem evalL_set (cs : List F) (j : ℕ) (hj : j < cs.length) (δ y : F) :
    evalL (cs.set j (cs[j] + δ)) y = evalL cs y + δ * y ^ j := by
  induction cs generalizing j with
  | nil => simp at hj
  | cons c cs ih =>
    cases j with
    | zero => simp only [List.set_cons_zero, List.getElem_cons_zero, evalL, pow_zero]; ring
    | succ j =>
      have hj' : j < cs.length := by simpa using hj
      simp only [List.set_cons_succ, List.getElem_cons_succ, evalL, ih j hj', pow_succ]
      ring

/-- two coefficient lists of equal length which agree everywhere except at position `j`, where they
    differ by `δ`, evaluate to values differing by `δ·y^j`. -/
theorem evalL_differ (cs cs' : List F) (j : ℕ) (δ : F) (_hlen : cs'.length = cs.length)
    (hj : j < cs.length) (hsame : ∀ i, i ≠ j → cs'[i]? = cs[i]?)
    (hdiff : cs'[j]? = some (cs[j] + δ)) (y : F) :
    evalL cs' y = evalL cs y + δ * y ^ j := by
  have : cs' = cs.set j (cs[j] + δ) := by
    apply List.ext_getElem?
    intro i
    by_cases hij : i = j
    · subst hij
      rw [hdiff, List.getElem?_set_self hj]
    · rw [hsame i hij, List.getElem?_set_ne (Ne.symm hij)]
  rw [this, evalL_set cs j hj]

end generic

theorem last_layer_coeff_sensitive (cs cs' : List Felt) (j : ℕ) (δ : Felt)
    (hlen : cs'.length = cs.length) (hj : j < cs.length) (hsame : ∀ i, i ≠ j → cs'[i]? = cs[i]?)
    (hdiff : cs'[j]? = some (cs[j] + δ)) (hδ : δ ≠ 0) :
    (∀ y : Felt, y ≠ 0 → evalL cs' y ≠ evalL cs y) ∧
    ∀ qs : List LayerQuery, qs ≠ [] → (∀ q ∈ qs, q.xInvValue ≠ 0) →
      ¬ (verifyLastLayer qs cs = .ok () ∧ verifyLastLayer qs cs' = .ok ()) := by
  have h1 : ∀ y : Felt, y ≠ 0 → evalL cs' y ≠ evalL cs y := by
    intro y hy h
    rw [evalL_differ cs cs' j δ hlen hj hsame hdiff y] at h
    have : δ * y ^ j = 0 := by linear_combination h
    rcases mul_eq_zero.mp this with h | h
    · exact hδ h
    · exact pow_ne_zero j hy h
  refine ⟨h1, ?_⟩
  intro qs hne hq ⟨ha, hb⟩
  rw [verifyLastLayer_ok_iff qs cs hq] at ha
  rw [verifyLastLayer_ok_iff qs cs' hq] at hb
  obtain ⟨q, hqm⟩ := List.exists_mem_of_ne_nil qs hne
  exact h1 _ (inv_ne_zero (hq q hqm)) ((hb q hqm).trans (ha q hqm).symm)

end Swiftness.Proofs
