/-
  Per-layout kernel-checked facts for C16 (restated in `Props/C16.lean`); split over several modules so
  that they build in parallel.  The generated programs are referred to by name only.
-/
import Swiftness.Proofs.AstLinearCover
import Swiftness.Proofs.AstChain
import Swiftness.Proofs.AstChainFlags
import Swiftness.Proofs.AstScope
import Swiftness.Generated.Consts
import Swiftness.Generated.DynamicParams
import Swiftness.Generated.Layout.dex
import Swiftness.Generated.Layout.recursive
import Swiftness.Generated.Layout.recursive_with_poseidon
import Swiftness.Generated.Layout.small
import Swiftness.Generated.Layout.starknet

set_option maxRecDepth 100000

namespace Swiftness.Proofs.AstLinear.Facts
open Swiftness Swiftness.Ast Swiftness.Gen Swiftness.Gen.Layout

theorem linear_dex_composition :
    checkLinear dex.composition dex.compositionAcc dex.compositionRes = true := by
  ast_linear dex.composition

theorem linear_dex_oods :
    checkLinear dex.oods dex.oodsAcc dex.oodsRes = true := by
  ast_linear dex.oods

theorem coverage_dex_composition :
    checkCoverage dex.composition dex.N_CONSTRAINTS = true := by
  ast_coverage dex.composition

theorem coverage_dex_oods :
    checkCoverage dex.oods (dex.MASK_SIZE + dex.CONSTRAINT_DEGREE) = true := by
  ast_coverage dex.oods

theorem chain_dex_composition :
    checkChain dex.composition dex.compositionAcc dex.compositionRes = true := by
  ast_chain dex.composition

theorem chain_dex_oods :
    checkChain dex.oods dex.oodsAcc dex.oodsRes = true := by
  ast_chain dex.oods

theorem scope_dex_composition : checkScope dex.composition dex.compositionAcc = true := by
  ast_scope dex.composition

theorem scope_dex_oods : checkScope dex.oods dex.oodsAcc = true := by
  ast_scope dex.oods

theorem flagdisc_dex_oods : (flagMap dex.oods).isSome = true := by
  ast_flags dex.oods

theorem unguarded_dex : unguarded dex.composition = true ∧ unguarded dex.oods = true := by
  constructor
  · ast_unguarded dex.composition
  · ast_unguarded dex.oods

theorem flagdisc_dex_composition : (flagMap dex.composition).isSome = true := by
  ast_flags dex.composition

theorem linear_recursive_composition :
    checkLinear recursive.composition recursive.compositionAcc recursive.compositionRes = true := by
  ast_linear recursive.composition

theorem linear_recursive_oods :
    checkLinear recursive.oods recursive.oodsAcc recursive.oodsRes = true := by
  ast_linear recursive.oods

theorem coverage_recursive_composition :
    checkCoverage recursive.composition recursive.N_CONSTRAINTS = true := by
  ast_coverage recursive.composition

theorem coverage_recursive_oods :
    checkCoverage recursive.oods (recursive.MASK_SIZE + recursive.CONSTRAINT_DEGREE) = true := by
  ast_coverage recursive.oods

theorem chain_recursive_composition :
    checkChain recursive.composition recursive.compositionAcc recursive.compositionRes = true := by
  ast_chain recursive.composition

theorem chain_recursive_oods :
    checkChain recursive.oods recursive.oodsAcc recursive.oodsRes = true := by
  ast_chain recursive.oods

theorem scope_recursive_composition : checkScope recursive.composition recursive.compositionAcc = true := by
  ast_scope recursive.composition

theorem scope_recursive_oods : checkScope recursive.oods recursive.oodsAcc = true := by
  ast_scope recursive.oods

theorem flagdisc_recursive_oods : (flagMap recursive.oods).isSome = true := by
  ast_flags recursive.oods

theorem unguarded_recursive : unguarded recursive.composition = true ∧ unguarded recursive.oods = true := by
  constructor
  · ast_unguarded recursive.composition
  · ast_unguarded recursive.oods

theorem flagdisc_recursive_composition : (flagMap recursive.composition).isSome = true := by
  ast_flags recursive.composition

theorem linear_recursive_with_poseidon_composition :
    checkLinear recursive_with_poseidon.composition recursive_with_poseidon.compositionAcc recursive_with_poseidon.compositionRes = true := by
  ast_linear recursive_with_poseidon.composition

theorem linear_recursive_with_poseidon_oods :
    checkLinear recursive_with_poseidon.oods recursive_with_poseidon.oodsAcc recursive_with_poseidon.oodsRes = true := by
  ast_linear recursive_with_poseidon.oods

theorem coverage_recursive_with_poseidon_composition :
    checkCoverage recursive_with_poseidon.composition recursive_with_poseidon.N_CONSTRAINTS = true := by
  ast_coverage recursive_with_poseidon.composition

theorem coverage_recursive_with_poseidon_oods :
    checkCoverage recursive_with_poseidon.oods (recursive_with_poseidon.MASK_SIZE + recursive_with_poseidon.CONSTRAINT_DEGREE) = true := by
  ast_coverage recursive_with_poseidon.oods

theorem chain_recursive_with_poseidon_composition :
    checkChain recursive_with_poseidon.composition recursive_with_poseidon.compositionAcc recursive_with_poseidon.compositionRes = true := by
  ast_chain recursive_with_poseidon.composition

theorem chain_recursive_with_poseidon_oods :
    checkChain recursive_with_poseidon.oods recursive_with_poseidon.oodsAcc recursive_with_poseidon.oodsRes = true := by
  ast_chain recursive_with_poseidon.oods

theorem scope_recursive_with_poseidon_composition : checkScope recursive_with_poseidon.composition recursive_with_poseidon.compositionAcc = true := by
  ast_scope recursive_with_poseidon.composition

theorem scope_recursive_with_poseidon_oods : checkScope recursive_with_poseidon.oods recursive_with_poseidon.oodsAcc = true := by
  ast_scope recursive_with_poseidon.oods

theorem flagdisc_recursive_with_poseidon_oods : (flagMap recursive_with_poseidon.oods).isSome = true := by
  ast_flags recursive_with_poseidon.oods

theorem unguarded_recursive_with_poseidon : unguarded recursive_with_poseidon.composition = true ∧ unguarded recursive_with_poseidon.oods = true := by
  constructor
  · ast_unguarded recursive_with_poseidon.composition
  · ast_unguarded recursive_with_poseidon.oods

theorem flagdisc_recursive_with_poseidon_composition : (flagMap recursive_with_poseidon.composition).isSome = true := by
  ast_flags recursive_with_poseidon.composition

theorem linear_small_composition :
    checkLinear small.composition small.compositionAcc small.compositionRes = true := by
  ast_linear small.composition

theorem linear_small_oods :
    checkLinear small.oods small.oodsAcc small.oodsRes = true := by
  ast_linear small.oods

theorem coverage_small_composition :
    checkCoverage small.composition small.N_CONSTRAINTS = true := by
  ast_coverage small.composition

theorem coverage_small_oods :
    checkCoverage small.oods (small.MASK_SIZE + small.CONSTRAINT_DEGREE) = true := by
  ast_coverage small.oods

theorem chain_small_composition :
    checkChain small.composition small.compositionAcc small.compositionRes = true := by
  ast_chain small.composition

theorem chain_small_oods :
    checkChain small.oods small.oodsAcc small.oodsRes = true := by
  ast_chain small.oods

theorem scope_small_composition : checkScope small.composition small.compositionAcc = true := by
  ast_scope small.composition

theorem scope_small_oods : checkScope small.oods small.oodsAcc = true := by
  ast_scope small.oods

theorem flagdisc_small_oods : (flagMap small.oods).isSome = true := by
  ast_flags small.oods

theorem unguarded_small : unguarded small.composition = true ∧ unguarded small.oods = true := by
  constructor
  · ast_unguarded small.composition
  · ast_unguarded small.oods

theorem flagdisc_small_composition : (flagMap small.composition).isSome = true := by
  ast_flags small.composition

theorem linear_starknet_composition :
    checkLinear starknet.composition starknet.compositionAcc starknet.compositionRes = true := by
  ast_linear starknet.composition

theorem linear_starknet_oods :
    checkLinear starknet.oods starknet.oodsAcc starknet.oodsRes = true := by
  ast_linear starknet.oods

theorem coverage_starknet_composition :
    checkCoverage starknet.composition starknet.N_CONSTRAINTS = true := by
  ast_coverage starknet.composition

theorem coverage_starknet_oods :
    checkCoverage starknet.oods (starknet.MASK_SIZE + starknet.CONSTRAINT_DEGREE) = true := by
  ast_coverage starknet.oods

theorem chain_starknet_composition :
    checkChain starknet.composition starknet.compositionAcc starknet.compositionRes = true := by
  ast_chain starknet.composition

theorem chain_starknet_oods :
    checkChain starknet.oods starknet.oodsAcc starknet.oodsRes = true := by
  ast_chain starknet.oods

theorem scope_starknet_composition : checkScope starknet.composition starknet.compositionAcc = true := by
  ast_scope starknet.composition

theorem scope_starknet_oods : checkScope starknet.oods starknet.oodsAcc = true := by
  ast_scope starknet.oods

theorem flagdisc_starknet_oods : (flagMap starknet.oods).isSome = true := by
  ast_flags starknet.oods

theorem unguarded_starknet : unguarded starknet.composition = true ∧ unguarded starknet.oods = true := by
  constructor
  · ast_unguarded starknet.composition
  · ast_unguarded starknet.oods

theorem flagdisc_starknet_composition : (flagMap starknet.composition).isSome = true := by
  ast_flags starknet.composition

end Swiftness.Proofs.AstLinear.Facts
