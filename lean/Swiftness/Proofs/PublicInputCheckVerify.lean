/-
  C14 helper lemmas, part 3: `verify_public_input` of the static layouts (address checks of the
  program and output cells, the two Pedersen chains) and the binding of the Pedersen chain.
-/
import Swiftness.Spec.PublicInputOK
import Swiftness.Proofs.PublicInputHash

namespace Swiftness.Proofs.PIC
open Swiftness Swiftness.LayoutData Swiftness.Spec
attribute [-instance] Fin.instOfNat

/-! ### `addressesFrom` -/

theorem addressesFrom_iff (start : Felt) (cells : List AddrValue) (i : ℕ) :
    addressesFrom start cells i = true ↔
      ∀ j, j < cells.length → (cells[j]?).map (·.address) = some (start + Felt.ofNat (i + j)) := by
  induction cells generalizing i with
  | nil => simp [addressesFrom]
  | cons c cs ih =>
    simp only [addressesFrom, Bool.and_eq_true, beq_iff_eq, ih, List.length_cons]
    constructor
    · rintro ⟨h0, h1⟩ j hj
      cases j with
      | zero => simp [h0]
      | succ j =>
        have := h1 j (by omega)
        simp only [List.getElem?_cons_succ]
        rw [this]; congr 3; omega
    · intro h
      refine ⟨?_, fun j hj => ?_⟩
      · have := h 0 (by omega)
        simpa using this
      · have := h (j + 1) (by omega)
        simp only [List.getElem?_cons_succ] at this
        rw [this]; congr 3; omega

theorem addresses_take (start : Felt) (page : List AddrValue) (n : ℕ) (hn : n ≤ page.length) :
    addressesFrom start (page.take n) 0 = true ↔
      ∀ i, i < n → (page[i]?).map (·.address) = some (start + Felt.ofNat i) := by
  rw [addressesFrom_iff, List.length_take, Nat.min_eq_left hn]
  constructor
  · intro h i hi
    have := h i hi
    rwa [List.getElem?_take_of_lt hi, Nat.zero_add] at this
  · intro h i hi
    rw [List.getElem?_take_of_lt hi, Nat.zero_add]
    exact h i hi

theorem addresses_drop (start : Felt) (page : List AddrValue) (n : ℕ) (hn : n ≤ page.length) :
    addressesFrom start (page.drop (page.length - n)) 0 = true ↔
      ∀ i, i < n → (page[page.length - n + i]?).map (·.address) = some (start + Felt.ofNat i) := by
  rw [addressesFrom_iff, List.length_drop]
  have : page.length - (page.length - n) = n := by omega
  rw [this]
  constructor
  · intro h i hi
    have := h i hi
    rwa [List.getElem?_drop, Nat.zero_add] at this
  · intro h i hi
    rw [List.getElem?_drop, Nat.zero_add]
    exact h i hi

/-! ### `verify_public_input` -/

theorem verify_ne_panic (D : LayoutData) (H : Hashes) (pi : PublicInput) (s : String) :
    D.verifyPublicInput H pi ≠ .panic s := by
  unfold verifyPublicInput
  split
  · simp only [ne_eq, ite_not]
    split_ifs <;> simp
  · simp

/-- the model's `verify_public_input` as a conjunction of its own tests -/
theorem verify_eq (D : LayoutData) (H : Hashes) (pi : PublicInput) (a b : Felt) :
    D.verifyPublicInput H pi = .ok (a, b) ↔
      ∃ prog exec out,
        pi.segments[D.constD "SEG_PROGRAM"]? = some prog ∧
        pi.segments[D.constD "SEG_EXECUTION"]? = some exec ∧
        pi.segments[D.constD "SEG_OUTPUT"]? = some out ∧
        exec.beginAddr.val < D.MAX_ADDRESS ∧
        exec.stopPtr.val < D.MAX_ADDRESS ∧
        pi.continuousPageHeaders = [] ∧
        prog.beginAddr = Felt.ofNat D.INITIAL_PC ∧
        prog.stopPtr = Felt.ofNat D.INITIAL_PC + @OfNat.ofNat Felt 4 Fin.instOfNat ∧
        (exec.beginAddr - @OfNat.ofNat Felt 2 Fin.instOfNat - prog.beginAddr).val < 2 ^ 64 ∧
        (out.stopPtr - out.beginAddr).val < 2 ^ 64 ∧
        (exec.beginAddr - @OfNat.ofNat Felt 2 Fin.instOfNat - prog.beginAddr).val +
          (out.stopPtr - out.beginAddr).val < 2 ^ 64 ∧
        (exec.beginAddr - @OfNat.ofNat Felt 2 Fin.instOfNat - prog.beginAddr).val +
          (out.stopPtr - out.beginAddr).val ≤ pi.mainPage.length ∧
        addressesFrom prog.beginAddr
          (pi.mainPage.take (exec.beginAddr - @OfNat.ofNat Felt 2 Fin.instOfNat - prog.beginAddr).val) 0 = true ∧
        addressesFrom out.beginAddr
          (pi.mainPage.drop (pi.mainPage.length - (out.stopPtr - out.beginAddr).val)) 0 = true ∧
        hashChain H ((pi.mainPage.take
          (exec.beginAddr - @OfNat.ofNat Felt 2 Fin.instOfNat - prog.beginAddr).val).map (·.value)) = a ∧
        hashChain H ((pi.mainPage.drop
          (pi.mainPage.length - (out.stopPtr - out.beginAddr).val)).map (·.value)) = b := by
  unfold verifyPublicInput seg?
  split
  · next prog exec out hp he ho =>
    simp only [hp, he, ho, Option.some.injEq, exists_and_left, exists_eq_left', ne_eq, ite_not]
    split_ifs <;> simp_all
  · next hnone =>
    constructor
    · intro h; cases h
    · rintro ⟨prog, exec, out, hp, he, ho, _⟩
      exact absurd ho (hnone prog exec out hp he)

theorem verify_iff (D : LayoutData) (H : Hashes) (pi : PublicInput) (a b : Felt) :
    D.verifyPublicInput H pi = .ok (a, b) ↔ VerifyOK D H pi a b := by
  rw [verify_eq]
  unfold VerifyOK programLen usage
  constructor
  · rintro ⟨prog, exec, out, hp, he, ho, h1, h2, h3, h4, h5, h6, h7, h8, h9, hA, hB, ha, hb⟩
    refine ⟨prog, exec, out, hp, he, ho, h1, h2, h3, h4, h5, h6, h7, h8, h9, ?_, ?_, ha.symm, hb.symm⟩
    · exact (addresses_take _ _ _ (Nat.le_trans (Nat.le_add_right _ _) h9)).mp hA
    · exact (addresses_drop _ _ _ (Nat.le_trans (Nat.le_add_left _ _) h9)).mp hB
  · rintro ⟨prog, exec, out, hp, he, ho, h1, h2, h3, h4, h5, h6, h7, h8, h9, hA, hB, ha, hb⟩
    refine ⟨prog, exec, out, hp, he, ho, h1, h2, h3, h4, h5, h6, h7, h8, h9, ?_, ?_, ha.symm, hb.symm⟩
    · exact (addresses_take _ _ _ (Nat.le_trans (Nat.le_add_right _ _) h9)).mpr hA
    · exact (addresses_drop _ _ _ (Nat.le_trans (Nat.le_add_left _ _) h9)).mpr hB

/-! ### the Pedersen chain `hashChain` -/

section chain
variable (H : Hashes)

theorem fold_inj : ∀ (p q : List Felt) (h h' : Felt), p.length = q.length →
    p.foldl (fun acc v => H.pedersen acc v) h = q.foldl (fun acc v => H.pedersen acc v) h' →
    (h = h' ∧ p = q) ∨ PedersenCollision H
  | [], [], h, h', _, he => Or.inl ⟨he, rfl⟩
  | [], _ :: _, _, _, hl, _ => by simp at hl
  | _ :: _, [], _, _, hl, _ => by simp at hl
  | x :: p, y :: q, h, h', hl, he => by
    simp only [List.foldl_cons] at he
    rcases fold_inj p q _ _ (by simpa using hl) he with ⟨h1, h2⟩ | hc
    · by_cases h3 : (h, x) = (h', y)
      · obtain ⟨h3a, h3b⟩ := Prod.mk.inj h3
        left; exact ⟨h3a, by rw [h3b, h2]⟩
      · right; exact ⟨_, _, _, _, h3, h1⟩
    · right; exact hc

theorem hashChain_inj (v w : List Felt) (hv : v.length < 2 ^ 64) (hw : w.length < 2 ^ 64)
    (he : hashChain H v = hashChain H w) : v = w ∨ PedersenCollision H := by
  unfold hashChain at he
  by_cases h1 : (v.foldl (fun acc x => H.pedersen acc x) (@OfNat.ofNat Felt 0 Fin.instOfNat),
        Felt.ofNat v.length) =
      (w.foldl (fun acc x => H.pedersen acc x) (@OfNat.ofNat Felt 0 Fin.instOfNat), Felt.ofNat w.length)
  · obtain ⟨h1a, h1b⟩ := Prod.mk.inj h1
    have hl := PIH.ofNat_inj64 hv hw h1b
    rcases fold_inj H v w _ _ hl h1a with ⟨_, h2⟩ | hc
    · left; exact h2
    · right; exact hc
  · right; exact ⟨_, _, _, _, h1, he⟩

end chain

end Swiftness.Proofs.PIC
