/-
  C18, the dynamic layout's generated programs: `dynamic.composition` passes the static bounds check
  `Ast.boundsOK` (its indices into `mask_values`, `constraint_coefficients`, `global_values` are literals,
  it reads no column; dynamic parameters below `N_DYNAMIC_PARAMS`), and `dynamic.oods` passes the dynamic
  check `Ast.dynBoundsOK` against the generated assertion list (every `column_values[dynamic_params.X]`
  has an UNGUARDED bounding assertion).  The generated data is mentioned BY NAME only; each fact is a
  kernel evaluation distributed over the chunk structure of the program.
-/
import Swiftness.Proofs.NoPanicDynAst
import Swiftness.Proofs.DynValidateFacts
import Swiftness.Generated.Consts
import Swiftness.Generated.Layout.dynamic

set_option maxRecDepth 100000

namespace Swiftness.Proofs.NoPanic
open Swiftness Swiftness.Ast Swiftness.Gen Swiftness.Gen.Layout

theorem bounds_dynamic_composition :
    boundsOK dynamic.composition dynamic.MASK_SIZE 0 0 dynamic.N_CONSTRAINTS
      dynamic.globalValueFields.length dynamic.N_DYNAMIC_PARAMS = true := by
  ast_bounds dynamic.composition

/-- indices of `num_columns_first`, `num_columns_second` in the generated parameter order -/
theorem num_columns_idx :
    DynData.genIdx "num_columns_first" = 269 ∧ DynData.genIdx "num_columns_second" = 270 := by
  decide +kernel

theorem bounds_dynamic_oods :
    dynBoundsOK dynamic.asserts (DynData.genIdx "num_columns_first") (DynData.genIdx "num_columns_second")
      dynamic.CONSTRAINT_DEGREE dynamic.oods 0 (dynamic.MASK_SIZE + dynamic.CONSTRAINT_DEGREE)
      (dynamic.MASK_SIZE + dynamic.CONSTRAINT_DEGREE) 0 dynamic.N_DYNAMIC_PARAMS = true := by
  rw [num_columns_idx.1, num_columns_idx.2]
  unfold dynBoundsOK dynamic.oods
  simp only [boundsOKWith_append]
  decide +kernel

theorem n_dynamic_params : dynamic.N_DYNAMIC_PARAMS = 340 ∧ Gen.DynamicParams.toVecOrder.length = 340 := by
  decide +kernel

end Swiftness.Proofs.NoPanic
