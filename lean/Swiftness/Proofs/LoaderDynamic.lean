/-
  C19 helpers: dynamic parameters.  Rust's `BTreeMap<String, u32>` iterates the Stone keys in byte-wise
  ascending order; the CLI conversion feeds the values, in that order, to `DynamicParams::from(Vec<usize>)`,
  which assigns them to the struct fields by POSITION.  So the sorted Stone keys must line up with the struct
  fields.  Stone writes `add_mod__a0_suboffset` where the struct has `add_mod_a0_suboffset`.

  Kernel note: `String.toList` of a literal costs the kernel ~0.15 s (UTF-8 encode + decode), so the 340 keys
  are turned into `List Char` literals at elaboration time (`charLists%`); `String.ofList l = "literal"` is cheap.
-/
import Lean
import Swiftness.Proofs.LoaderBasic

namespace Swiftness.Loader
open Swiftness

/-- `charLists% ["ab", "c"]` elaborates to the literal `[['a','b'], ['c']]` -/
syntax (name := charListsStx) "charLists% " "[" str,* "]" : term

open Lean Elab Term in
@[term_elab charListsStx] def elabCharLists : TermElab := fun stx _ => do
  match stx with
  | `(charLists% [ $ss,* ]) =>
    let l : List (List Char) := ss.getElems.toList.map fun s => s.getString.toList
    return toExpr l
  | _ => throwUnsupportedSyntax

/-- The 340 keys of `public_input.dynamic_params`, in FILE order, copied from
    `/repo/examples/proofs/dynamic/cairo0_stone6_example_proof.json`
    (extracted with `json.loads(..., object_pairs_hook=...)`, i.e. without re-ordering), as `List Char`s. -/
def stoneKeyChars : List (List Char) := charLists%
  ["add_mod__a0_suboffset", "add_mod__a1_suboffset", "add_mod__a2_suboffset", "add_mod__a3_suboffset",
   "add_mod__a_offset_suboffset", "add_mod__b0_suboffset", "add_mod__b1_suboffset", "add_mod__b2_suboffset",
   "add_mod__b3_suboffset", "add_mod__b_offset_suboffset", "add_mod__c0_suboffset", "add_mod__c1_suboffset",
   "add_mod__c2_suboffset", "add_mod__c3_suboffset", "add_mod__c_offset_suboffset",
   "add_mod__carry1_bit_column", "add_mod__carry1_bit_offset", "add_mod__carry1_sign_column",
   "add_mod__carry1_sign_offset", "add_mod__carry2_bit_column", "add_mod__carry2_bit_offset",
   "add_mod__carry2_sign_column", "add_mod__carry2_sign_offset", "add_mod__carry3_bit_column",
   "add_mod__carry3_bit_offset", "add_mod__carry3_sign_column", "add_mod__carry3_sign_offset",
   "add_mod__n_suboffset", "add_mod__offsets_ptr_suboffset", "add_mod__p0_suboffset",
   "add_mod__p1_suboffset", "add_mod__p2_suboffset", "add_mod__p3_suboffset", "add_mod__row_ratio",
   "add_mod__sub_p_bit_column", "add_mod__sub_p_bit_offset", "add_mod__values_ptr_suboffset",
   "bitwise__diluted_var_pool_suboffset", "bitwise__row_ratio", "bitwise__trim_unpacking192_suboffset",
   "bitwise__trim_unpacking193_suboffset", "bitwise__trim_unpacking194_suboffset",
   "bitwise__trim_unpacking195_suboffset", "bitwise__var_pool_suboffset", "bitwise__x_or_y_suboffset",
   "cpu__decode__mem_inst_suboffset", "cpu__decode__off0_suboffset", "cpu__decode__off1_suboffset",
   "cpu__decode__off2_suboffset", "cpu__decode__opcode_range_check__column_column",
   "cpu__decode__opcode_range_check__column_offset", "cpu__operands__mem_dst_suboffset",
   "cpu__operands__mem_op0_suboffset", "cpu__operands__mem_op1_suboffset", "cpu__operands__ops_mul_column",
   "cpu__operands__ops_mul_offset", "cpu__operands__res_column", "cpu__operands__res_offset",
   "cpu__registers__ap_column", "cpu__registers__ap_offset", "cpu__registers__fp_column",
   "cpu__registers__fp_offset", "cpu__update_registers__update_pc__tmp0_column",
   "cpu__update_registers__update_pc__tmp0_offset", "cpu__update_registers__update_pc__tmp1_column",
   "cpu__update_registers__update_pc__tmp1_offset", "cpu_component_step",
   "diluted_check__cumulative_value_column", "diluted_check__cumulative_value_offset",
   "diluted_check__permutation__cum_prod0_column", "diluted_check__permutation__cum_prod0_offset",
   "diluted_check__permuted_values_column", "diluted_check__permuted_values_offset", "diluted_pool_column",
   "diluted_pool_offset", "diluted_units_row_ratio", "ec_op__doubled_points__x_column",
   "ec_op__doubled_points__x_offset", "ec_op__doubled_points__y_column", "ec_op__doubled_points__y_offset",
   "ec_op__doubling_slope_column", "ec_op__doubling_slope_offset",
   "ec_op__ec_subset_sum__bit_unpacking__prod_ones192_column",
   "ec_op__ec_subset_sum__bit_unpacking__prod_ones192_offset",
   "ec_op__ec_subset_sum__bit_unpacking__prod_ones196_column",
   "ec_op__ec_subset_sum__bit_unpacking__prod_ones196_offset", "ec_op__ec_subset_sum__partial_sum__x_column",
   "ec_op__ec_subset_sum__partial_sum__x_offset", "ec_op__ec_subset_sum__partial_sum__y_column",
   "ec_op__ec_subset_sum__partial_sum__y_offset", "ec_op__ec_subset_sum__selector_column",
   "ec_op__ec_subset_sum__selector_offset", "ec_op__ec_subset_sum__slope_column",
   "ec_op__ec_subset_sum__slope_offset", "ec_op__ec_subset_sum__x_diff_inv_column",
   "ec_op__ec_subset_sum__x_diff_inv_offset", "ec_op__m_suboffset", "ec_op__p_x_suboffset",
   "ec_op__p_y_suboffset", "ec_op__q_x_suboffset", "ec_op__q_y_suboffset", "ec_op__r_x_suboffset",
   "ec_op__r_y_suboffset", "ec_op_builtin_row_ratio", "ecdsa__message_suboffset", "ecdsa__pubkey_suboffset",
   "ecdsa__signature0__add_results_inv_column", "ecdsa__signature0__add_results_inv_offset",
   "ecdsa__signature0__add_results_slope_column", "ecdsa__signature0__add_results_slope_offset",
   "ecdsa__signature0__doubling_slope_column", "ecdsa__signature0__doubling_slope_offset",
   "ecdsa__signature0__exponentiate_generator__partial_sum__x_column",
   "ecdsa__signature0__exponentiate_generator__partial_sum__x_offset",
   "ecdsa__signature0__exponentiate_generator__partial_sum__y_column",
   "ecdsa__signature0__exponentiate_generator__partial_sum__y_offset",
   "ecdsa__signature0__exponentiate_generator__selector_column",
   "ecdsa__signature0__exponentiate_generator__selector_offset",
   "ecdsa__signature0__exponentiate_generator__slope_column",
   "ecdsa__signature0__exponentiate_generator__slope_offset",
   "ecdsa__signature0__exponentiate_generator__x_diff_inv_column",
   "ecdsa__signature0__exponentiate_generator__x_diff_inv_offset",
   "ecdsa__signature0__exponentiate_key__partial_sum__x_column",
   "ecdsa__signature0__exponentiate_key__partial_sum__x_offset",
   "ecdsa__signature0__exponentiate_key__partial_sum__y_column",
   "ecdsa__signature0__exponentiate_key__partial_sum__y_offset",
   "ecdsa__signature0__exponentiate_key__selector_column",
   "ecdsa__signature0__exponentiate_key__selector_offset",
   "ecdsa__signature0__exponentiate_key__slope_column", "ecdsa__signature0__exponentiate_key__slope_offset",
   "ecdsa__signature0__exponentiate_key__x_diff_inv_column",
   "ecdsa__signature0__exponentiate_key__x_diff_inv_offset", "ecdsa__signature0__extract_r_inv_column",
   "ecdsa__signature0__extract_r_inv_offset", "ecdsa__signature0__extract_r_slope_column",
   "ecdsa__signature0__extract_r_slope_offset", "ecdsa__signature0__key_points__x_column",
   "ecdsa__signature0__key_points__x_offset", "ecdsa__signature0__key_points__y_column",
   "ecdsa__signature0__key_points__y_offset", "ecdsa__signature0__q_x_squared_column",
   "ecdsa__signature0__q_x_squared_offset", "ecdsa__signature0__r_w_inv_column",
   "ecdsa__signature0__r_w_inv_offset", "ecdsa__signature0__z_inv_column", "ecdsa__signature0__z_inv_offset",
   "ecdsa_builtin_row_ratio", "keccak__input_output_suboffset", "keccak__keccak__diluted_column0_suboffset",
   "keccak__keccak__diluted_column1_suboffset", "keccak__keccak__diluted_column2_suboffset",
   "keccak__keccak__diluted_column3_suboffset", "keccak__keccak__parse_to_diluted__cumulative_sum_column",
   "keccak__keccak__parse_to_diluted__cumulative_sum_offset",
   "keccak__keccak__parse_to_diluted__final_reshaped_input_column",
   "keccak__keccak__parse_to_diluted__final_reshaped_input_offset",
   "keccak__keccak__parse_to_diluted__reshaped_intermediate_column",
   "keccak__keccak__parse_to_diluted__reshaped_intermediate_offset",
   "keccak__keccak__rotated_parity0_column", "keccak__keccak__rotated_parity0_offset",
   "keccak__keccak__rotated_parity1_column", "keccak__keccak__rotated_parity1_offset",
   "keccak__keccak__rotated_parity2_column", "keccak__keccak__rotated_parity2_offset",
   "keccak__keccak__rotated_parity3_column", "keccak__keccak__rotated_parity3_offset",
   "keccak__keccak__rotated_parity4_column", "keccak__keccak__rotated_parity4_offset", "keccak__row_ratio",
   "mem_pool__addr_column", "mem_pool__addr_offset", "mem_pool__value_column", "mem_pool__value_offset",
   "memory__multi_column_perm__perm__cum_prod0_column", "memory__multi_column_perm__perm__cum_prod0_offset",
   "memory__sorted__addr_column", "memory__sorted__addr_offset", "memory__sorted__value_column",
   "memory__sorted__value_offset", "memory_units_row_ratio", "mul_mod__a0_suboffset",
   "mul_mod__a1_suboffset", "mul_mod__a2_suboffset", "mul_mod__a3_suboffset", "mul_mod__a_offset_suboffset",
   "mul_mod__b0_suboffset", "mul_mod__b1_suboffset", "mul_mod__b2_suboffset", "mul_mod__b3_suboffset",
   "mul_mod__b_offset_suboffset", "mul_mod__c0_suboffset", "mul_mod__c1_suboffset", "mul_mod__c2_suboffset",
   "mul_mod__c3_suboffset", "mul_mod__c_offset_suboffset", "mul_mod__carry0__part0_suboffset",
   "mul_mod__carry0__part1_suboffset", "mul_mod__carry0__part2_suboffset",
   "mul_mod__carry0__part3_suboffset", "mul_mod__carry0__part4_suboffset",
   "mul_mod__carry0__part5_suboffset", "mul_mod__carry0__part6_suboffset",
   "mul_mod__carry1__part0_suboffset", "mul_mod__carry1__part1_suboffset",
   "mul_mod__carry1__part2_suboffset", "mul_mod__carry1__part3_suboffset",
   "mul_mod__carry1__part4_suboffset", "mul_mod__carry1__part5_suboffset",
   "mul_mod__carry1__part6_suboffset", "mul_mod__carry2__part0_suboffset",
   "mul_mod__carry2__part1_suboffset", "mul_mod__carry2__part2_suboffset",
   "mul_mod__carry2__part3_suboffset", "mul_mod__carry2__part4_suboffset",
   "mul_mod__carry2__part5_suboffset", "mul_mod__carry2__part6_suboffset",
   "mul_mod__carry3__part0_suboffset", "mul_mod__carry3__part1_suboffset",
   "mul_mod__carry3__part2_suboffset", "mul_mod__carry3__part3_suboffset",
   "mul_mod__carry3__part4_suboffset", "mul_mod__carry3__part5_suboffset",
   "mul_mod__carry3__part6_suboffset", "mul_mod__carry4__part0_suboffset",
   "mul_mod__carry4__part1_suboffset", "mul_mod__carry4__part2_suboffset",
   "mul_mod__carry4__part3_suboffset", "mul_mod__carry4__part4_suboffset",
   "mul_mod__carry4__part5_suboffset", "mul_mod__carry4__part6_suboffset",
   "mul_mod__carry5__part0_suboffset", "mul_mod__carry5__part1_suboffset",
   "mul_mod__carry5__part2_suboffset", "mul_mod__carry5__part3_suboffset",
   "mul_mod__carry5__part4_suboffset", "mul_mod__carry5__part5_suboffset",
   "mul_mod__carry5__part6_suboffset", "mul_mod__n_suboffset", "mul_mod__offsets_ptr_suboffset",
   "mul_mod__p0_suboffset", "mul_mod__p1_suboffset", "mul_mod__p2_suboffset", "mul_mod__p3_suboffset",
   "mul_mod__p_multiplier0__part0_suboffset", "mul_mod__p_multiplier0__part1_suboffset",
   "mul_mod__p_multiplier0__part2_suboffset", "mul_mod__p_multiplier0__part3_suboffset",
   "mul_mod__p_multiplier0__part4_suboffset", "mul_mod__p_multiplier0__part5_suboffset",
   "mul_mod__p_multiplier1__part0_suboffset", "mul_mod__p_multiplier1__part1_suboffset",
   "mul_mod__p_multiplier1__part2_suboffset", "mul_mod__p_multiplier1__part3_suboffset",
   "mul_mod__p_multiplier1__part4_suboffset", "mul_mod__p_multiplier1__part5_suboffset",
   "mul_mod__p_multiplier2__part0_suboffset", "mul_mod__p_multiplier2__part1_suboffset",
   "mul_mod__p_multiplier2__part2_suboffset", "mul_mod__p_multiplier2__part3_suboffset",
   "mul_mod__p_multiplier2__part4_suboffset", "mul_mod__p_multiplier2__part5_suboffset",
   "mul_mod__p_multiplier3__part0_suboffset", "mul_mod__p_multiplier3__part1_suboffset",
   "mul_mod__p_multiplier3__part2_suboffset", "mul_mod__p_multiplier3__part3_suboffset",
   "mul_mod__p_multiplier3__part4_suboffset", "mul_mod__p_multiplier3__part5_suboffset",
   "mul_mod__row_ratio", "mul_mod__values_ptr_suboffset", "num_columns_first", "num_columns_second",
   "orig__public_memory_suboffset", "pedersen__hash0__ec_subset_sum__bit_unpacking__prod_ones192_column",
   "pedersen__hash0__ec_subset_sum__bit_unpacking__prod_ones192_offset",
   "pedersen__hash0__ec_subset_sum__bit_unpacking__prod_ones196_column",
   "pedersen__hash0__ec_subset_sum__bit_unpacking__prod_ones196_offset",
   "pedersen__hash0__ec_subset_sum__partial_sum__x_column",
   "pedersen__hash0__ec_subset_sum__partial_sum__x_offset",
   "pedersen__hash0__ec_subset_sum__partial_sum__y_column",
   "pedersen__hash0__ec_subset_sum__partial_sum__y_offset",
   "pedersen__hash0__ec_subset_sum__selector_column", "pedersen__hash0__ec_subset_sum__selector_offset",
   "pedersen__hash0__ec_subset_sum__slope_column", "pedersen__hash0__ec_subset_sum__slope_offset",
   "pedersen__input0_suboffset", "pedersen__input1_suboffset", "pedersen__output_suboffset",
   "pedersen_builtin_row_ratio", "poseidon__param_0__input_output_suboffset",
   "poseidon__param_1__input_output_suboffset", "poseidon__param_2__input_output_suboffset",
   "poseidon__poseidon__full_rounds_state0_column", "poseidon__poseidon__full_rounds_state0_offset",
   "poseidon__poseidon__full_rounds_state0_squared_column",
   "poseidon__poseidon__full_rounds_state0_squared_offset", "poseidon__poseidon__full_rounds_state1_column",
   "poseidon__poseidon__full_rounds_state1_offset", "poseidon__poseidon__full_rounds_state1_squared_column",
   "poseidon__poseidon__full_rounds_state1_squared_offset", "poseidon__poseidon__full_rounds_state2_column",
   "poseidon__poseidon__full_rounds_state2_offset", "poseidon__poseidon__full_rounds_state2_squared_column",
   "poseidon__poseidon__full_rounds_state2_squared_offset",
   "poseidon__poseidon__partial_rounds_state0_column", "poseidon__poseidon__partial_rounds_state0_offset",
   "poseidon__poseidon__partial_rounds_state0_squared_column",
   "poseidon__poseidon__partial_rounds_state0_squared_offset",
   "poseidon__poseidon__partial_rounds_state1_column", "poseidon__poseidon__partial_rounds_state1_offset",
   "poseidon__poseidon__partial_rounds_state1_squared_column",
   "poseidon__poseidon__partial_rounds_state1_squared_offset", "poseidon__row_ratio",
   "range_check16__perm__cum_prod0_column", "range_check16__perm__cum_prod0_offset",
   "range_check16__sorted_column", "range_check16__sorted_offset", "range_check16_pool_column",
   "range_check16_pool_offset", "range_check96_builtin__inner_range_check0_suboffset",
   "range_check96_builtin__inner_range_check1_suboffset",
   "range_check96_builtin__inner_range_check2_suboffset",
   "range_check96_builtin__inner_range_check3_suboffset",
   "range_check96_builtin__inner_range_check4_suboffset",
   "range_check96_builtin__inner_range_check5_suboffset", "range_check96_builtin__mem_suboffset",
   "range_check96_builtin_row_ratio", "range_check_builtin__inner_range_check_suboffset",
   "range_check_builtin__mem_suboffset", "range_check_builtin_row_ratio", "range_check_units_row_ratio",
   "uses_add_mod_builtin", "uses_bitwise_builtin", "uses_ec_op_builtin", "uses_ecdsa_builtin",
   "uses_keccak_builtin", "uses_mul_mod_builtin", "uses_pedersen_builtin", "uses_poseidon_builtin",
   "uses_range_check96_builtin", "uses_range_check_builtin"]

/-- the same keys as strings -/
def stoneDynamicKeys : List String := stoneKeyChars.map String.ofList

theorem stoneDynamicKeys_length : stoneDynamicKeys.length = 340 := by
  simp only [stoneDynamicKeys, List.length_map]
  decide +kernel

/-- spot check that the elaborator produced the strings written above -/
example : stoneDynamicKeys.take 2 = ["add_mod__a0_suboffset", "add_mod__a1_suboffset"] ∧
    stoneDynamicKeys.getLast? = some "uses_range_check_builtin" := by decide +kernel

theorem stoneDynamicKeys_toList : stoneDynamicKeys.map String.toList = stoneKeyChars := by
  simp only [stoneDynamicKeys, List.map_map]
  have : (String.toList ∘ String.ofList) = id := by
    funext l; simp
  rw [this, List.map_id]

/-- the sorted keys as the verifier's field names: what `dynamicParamsOf` compares with the struct fields -/
def sortedFieldNames (ks : List String) : List String :=
  (sortKeys (ks.map fun k => (k.toList, 0))).map fun kv => fieldName kv.1

/-! ### insertion sort facts -/

theorem insertKey_perm (x : List Char × Nat) : ∀ l, (insertKey x l).Perm (x :: l)
  | [] => List.Perm.refl _
  | y :: ys => by
    unfold insertKey
    split
    · exact List.Perm.refl _
    · exact ((insertKey_perm x ys).cons y).trans (List.Perm.swap x y ys)

theorem sortKeys_perm : ∀ l, (sortKeys l).Perm l
  | [] => List.Perm.refl _
  | x :: xs => (insertKey_perm x (sortKeys xs)).trans ((sortKeys_perm xs).cons x)

theorem leChars_total : ∀ a b : List Char, leChars a b = true ∨ leChars b a = true
  | [], _ => .inl rfl
  | _ :: _, [] => .inr rfl
  | a :: as, b :: bs => by
    unfold leChars
    by_cases h1 : a.toNat < b.toNat
    · simp [h1]
    · by_cases h2 : b.toNat < a.toNat
      · simp [h2]
      · simp only [h1, h2, ↓reduceIte]
        exact leChars_total as bs

theorem leChars_trans : ∀ {a b c : List Char}, leChars a b = true → leChars b c = true → leChars a c = true
  | [], _, _, _, _ => rfl
  | _ :: _, [], _, h, _ => by simp [leChars] at h
  | _ :: _, _ :: _, [], _, h => by simp [leChars] at h
  | a :: as, b :: bs, c :: cs, h1, h2 => by
    unfold leChars at h1 h2 ⊢
    by_cases hab : a.toNat < b.toNat
    · by_cases hbc : b.toNat < c.toNat
      · have : a.toNat < c.toNat := by omega
        simp [this]
      · by_cases hcb : c.toNat < b.toNat
        · simp [hbc, hcb] at h2
        · have : a.toNat < c.toNat := by omega
          simp [this]
    · by_cases hba : b.toNat < a.toNat
      · simp [hab, hba] at h1
      · simp only [hab, hba, ↓reduceIte] at h1
        by_cases hbc : b.toNat < c.toNat
        · have : a.toNat < c.toNat := by omega
          simp [this]
        · by_cases hcb : c.toNat < b.toNat
          · simp [hbc, hcb] at h2
          · simp only [hbc, hcb, ↓reduceIte] at h2
            have h3 : ¬ a.toNat < c.toNat := by omega
            have h4 : ¬ c.toNat < a.toNat := by omega
            simp only [h3, h4, ↓reduceIte]
            exact leChars_trans h1 h2

theorem insertKey_sorted (x : List Char × Nat) : ∀ l, l.Pairwise (fun a b => leChars a.1 b.1 = true) →
    (insertKey x l).Pairwise (fun a b => leChars a.1 b.1 = true)
  | [], _ => List.pairwise_singleton _ _
  | y :: ys, h => by
    have h' := List.pairwise_cons.1 h
    unfold insertKey
    split
    · rename_i hxy
      refine List.pairwise_cons.2 ⟨?_, h⟩
      intro z hz
      rcases List.mem_cons.1 hz with rfl | hz
      · exact hxy
      · exact leChars_trans hxy (h'.1 z hz)
    · rename_i hxy
      have hyx : leChars y.1 x.1 = true := (leChars_total x.1 y.1).resolve_left hxy
      refine List.pairwise_cons.2 ⟨?_, insertKey_sorted x ys h'.2⟩
      intro z hz
      rcases List.mem_cons.1 ((insertKey_perm x ys).subset hz) with rfl | hz
      · exact hyx
      · exact h'.1 z hz

/-- the result of `sortKeys` is sorted by key (ascending: Rust `BTreeMap` iteration order) -/
theorem sortKeys_sorted : ∀ l, (sortKeys l).Pairwise (fun a b => leChars a.1 b.1 = true)
  | [] => List.Pairwise.nil
  | x :: xs => insertKey_sorted x _ (sortKeys_sorted xs)

/-- THE ORDER FACT: the Stone keys, sorted as Rust's `BTreeMap` iterates them and with `__` replaced by `_`,
    are exactly the verifier's `DynamicParams` struct fields in struct order. -/
theorem dynamic_param_order_keys : sortedFieldNames stoneDynamicKeys = Gen.DynamicParams.fields := by
  have h : (stoneDynamicKeys.map fun k => (k.toList, 0)) = stoneKeyChars.map fun c => (c, 0) := by
    rw [← stoneDynamicKeys_toList, List.map_map]; rfl
  unfold sortedFieldNames
  rw [h]
  decide +kernel

/-- the file's own order is already the sorted order -/
theorem stoneKeyChars_sorted :
    (sortKeys (stoneKeyChars.map fun c => (c, 0))).map (·.1) = stoneKeyChars := by
  decide +kernel

/-- A successful `dynamicParamsOf`: the values are those of a permutation of the entries which is sorted by
    key, whose renamed keys are the struct fields in struct order — i.e. field number `i` of the verifier's
    struct receives the value of the Stone key that is (up to `__`) its name. -/
theorem dynamicParamsOf_ok {dp : List (String × Nat)} {vals : List Nat}
    (h : dynamicParamsOf dp = .ok vals) :
    ∃ sorted : List (List Char × Nat), sorted.Perm (dp.map fun kv => (kv.1.toList, kv.2)) ∧
      sorted.Pairwise (fun a b => leChars a.1 b.1 = true) ∧
      sorted.map (fun kv => fieldName kv.1) = Gen.DynamicParams.fields ∧
      vals = sorted.map (·.2) ∧ (∀ v ∈ vals, v < 2 ^ 32) ∧
      List.zip Gen.DynamicParams.fields vals = sorted.map (fun kv => (fieldName kv.1, kv.2)) := by
  unfold dynamicParamsOf at h
  simp only at h
  split at h
  · cases h
  · rename_i hk
    split at h
    · cases h
    · rename_i hv
      cases h
      have hk' : (sortKeys (dp.map fun kv => (kv.1.toList, kv.2))).map (fun kv => fieldName kv.1)
          = Gen.DynamicParams.fields := by
        simpa using hk
      refine ⟨_, sortKeys_perm _, sortKeys_sorted _, hk', rfl, ?_, ?_⟩
      · intro v hv'
        obtain ⟨kv, hkv, rfl⟩ := List.mem_map.1 hv'
        have hall : ∀ kv ∈ sortKeys (dp.map fun kv => (kv.1.toList, kv.2)), ¬ kv.2 ≥ U32 := by
          simpa [List.any_eq_true] using hv
        have := hall kv hkv
        simp only [U32] at this
        omega
      · rw [← hk', List.zip_map']

end Swiftness.Loader
