/-
  C08 helper lemmas about the transcript model (`Model/Transcript.lean`): histories compose,
  counters, consecutive challenges, and the binding of the digest to everything absorbed.
-/
import Swiftness.Spec.TranscriptSpec
import Swiftness.Proofs.FeltField

namespace Swiftness.Proofs.Tr
open Swiftness Swiftness.Transcript Swiftness.Spec
attribute [-instance] Fin.instOfNat

variable (H : Hashes)

/-! ### `run` computes step by step and composes -/

@[simp] theorem run_nil (t : Transcript) : run H t [] = (t, []) := rfl

theorem run_cons (t : Transcript) (op : Op) (ops : List Op) :
    run H t (op :: ops) =
      ((run H (step H t op).1 ops).1,
        (match (step H t op).2 with
          | some x => x :: (run H (step H t op).1 ops).2
          | none => (run H (step H t op).1 ops).2)) := rfl

@[simp] theorem run_absorbFelt (t : Transcript) (v : Felt) (ops : List Op) :
    run H t (.absorbFelt v :: ops) = run H (readFelt H t v) ops := rfl

@[simp] theorem run_absorbVec (t : Transcript) (vs : List Felt) (ops : List Op) :
    run H t (.absorbVec vs :: ops) = run H (readFeltVector H t vs) ops := rfl

@[simp] theorem run_absorbU64 (t : Transcript) (n : ℕ) (ops : List Op) :
    run H t (.absorbU64 n :: ops) = run H (readU64 H t n) ops := rfl

@[simp] theorem run_squeeze (t : Transcript) (ops : List Op) :
    run H t (.squeeze :: ops) =
      ((run H (randomFelt H t).2 ops).1, (randomFelt H t).1 :: (run H (randomFelt H t).2 ops).2) := rfl

theorem run_append (t : Transcript) (h l : List Op) :
    run H t (h ++ l) =
      ((run H (run H t h).1 l).1, (run H t h).2 ++ (run H (run H t h).1 l).2) := by
  induction h generalizing t with
  | nil => simp
  | cons op ops ih =>
    cases op <;> simp [ih]

theorem run_append_let (t : Transcript) (h l : List Op) :
    run H t (h ++ l) =
      (let (t', cs) := run H t h
       let (t'', cs') := run H t' l
       (t'', cs ++ cs')) := run_append H t h l

theorem challenge_prefix (t : Transcript) (h later : List Op) :
    (run H t h).2 <+: (run H t (h ++ later)).2 := by
  rw [run_append]; exact List.prefix_append _ _

/-! ### counters -/

/-- an operation that absorbs something -/
def IsAbsorb (op : Op) : Prop := op ≠ .squeeze

theorem step_absorb_counter (t : Transcript) (op : Op) (h : op ≠ .squeeze) :
    (step H t op).1.counter = 0 := by
  cases op <;> first | rfl | exact absurd rfl h

theorem step_absorb_digest (t : Transcript) (op : Op) (m : List Felt) (hm : Op.message op = some m) :
    (step H t op).1.digest = H.poseidonMany ((t.digest + 1) :: m) := by
  cases op <;> simp [Op.message] at hm <;> subst hm <;> rfl

theorem step_squeeze (t : Transcript) :
    step H t .squeeze = (⟨t.digest, t.counter + 1⟩, some (H.poseidon2 t.digest t.counter)) := rfl

theorem ofNat_succ (k : ℕ) : Felt.ofNat (k + 1) = Felt.ofNat k + 1 := by
  simp only [Felt.ofNat_eq_cast]; push_cast; rfl

theorem ofNat_zero : Felt.ofNat 0 = 0 := by
  simp only [Felt.ofNat_eq_cast]; push_cast

/-- `k` consecutive squeezes: the digest is unchanged, the counter advances by `k`, and the
    challenges are `poseidon2 digest (counter + j)`, `j = 0 … k-1`. -/
theorem run_replicate_squeeze (t : Transcript) (k : ℕ) :
    run H t (List.replicate k .squeeze) =
      (⟨t.digest, t.counter + Felt.ofNat k⟩,
        (List.range k).map (fun j => H.poseidon2 t.digest (t.counter + Felt.ofNat j))) := by
  induction k generalizing t with
  | zero => simp [ofNat_zero]
  | succ k ih =>
    rw [List.replicate_succ, run_squeeze, ih, List.range_succ_eq_map]
    simp only [randomFelt, List.map_cons, List.map_map, ofNat_zero, add_zero]
    refine Prod.ext ?_ ?_
    · simp only [ofNat_succ]
      congr 1; ring
    · simp only [List.cons.injEq, true_and]
      apply List.map_congr_left
      intro j _
      simp only [Function.comp, ofNat_succ]
      congr 1; ring

theorem ofNat_injOn {i j : ℕ} (hi : i < P) (hj : j < P) (h : Felt.ofNat i = Felt.ofNat j) : i = j := by
  have := congrArg Fin.val h
  simp only [Felt.ofNat_eq_cast] at this
  rwa [Felt.val_cast_of_lt hi, Felt.val_cast_of_lt hj] at this

theorem counter_inputs_distinct (t : Transcript) {i j : ℕ} (hij : i < j) (hj : j < P) :
    (t.digest, t.counter + Felt.ofNat i) ≠ (t.digest, t.counter + Felt.ofNat j) := by
  intro h
  have h2 := (Prod.mk.injEq _ _ _ _ ▸ h : _ ∧ _).2
  have := ofNat_injOn (lt_trans hij hj) hj (add_left_cancel h2)
  omega

theorem consecutive_collision (t : Transcript) (k : ℕ) (hk : k ≤ P)
    (hdup : ¬ (run H t (List.replicate k .squeeze)).2.Nodup) : Poseidon2Collision H := by
  rw [run_replicate_squeeze] at hdup
  simp only at hdup
  by_contra hc
  apply hdup
  rw [List.nodup_map_iff_inj_on List.nodup_range]
  intro i hi j hj he
  rw [List.mem_range] at hi hj
  by_contra hne
  apply hc
  rcases Nat.lt_or_gt_of_ne hne with h | h
  · exact ⟨_, _, _, _, counter_inputs_distinct t h (lt_of_lt_of_le hj hk), he⟩
  · exact ⟨_, _, _, _, counter_inputs_distinct t h (lt_of_lt_of_le hi hk), he.symm⟩

/-! ### binding -/

theorem sameKind_message {op op' : Op} (h : Op.sameKind op op') :
    (Op.message op = none ∧ Op.message op' = none ∧ op = .squeeze ∧ op' = .squeeze) ∨
    (∃ m m', Op.message op = some m ∧ Op.message op' = some m') := by
  cases op <;> cases op' <;>
    first | exact False.elim h | exact Or.inl ⟨rfl, rfl, rfl, rfl⟩ | exact Or.inr ⟨_, _, rfl, rfl⟩

theorem sameShape_sameKind {op op' : Op} (h : Op.sameShape op op') : Op.sameKind op op' := by
  cases op <;> cases op' <;> first | exact False.elim h | exact True.intro

theorem SameShape.sameKind : ∀ {h h' : List Op}, SameShape h h' → SameKind h h'
  | [], [], _ => trivial
  | _ :: _, _ :: _, hs => ⟨sameShape_sameKind hs.1, SameShape.sameKind hs.2⟩
  | [], _ :: _, hs => hs.elim
  | _ :: _, [], hs => hs.elim

/-- one step keeps two digests apart (or exhibits a collision) -/
theorem step_digest_ne (t t' : Transcript) (op op' : Op) (hk : Op.sameKind op op')
    (hd : t.digest ≠ t'.digest) :
    (step H t op).1.digest ≠ (step H t' op').1.digest ∨ PoseidonManyCollision H := by
  rcases sameKind_message hk with ⟨_, _, rfl, rfl⟩ | ⟨m, m', hm, hm'⟩
  · left; exact hd
  · rw [step_absorb_digest H t op m hm, step_absorb_digest H t' op' m' hm']
    by_cases he : H.poseidonMany ((t.digest + 1) :: m) = H.poseidonMany ((t'.digest + 1) :: m')
    · right
      refine ⟨_, _, ?_, he⟩
      intro hl
      exact hd (add_right_cancel (List.cons.inj hl).1)
    · left; exact he

/-- the step at which the messages differ separates the digests (or exhibits a collision),
    whatever the two states were before -/
theorem step_message_ne (t t' : Transcript) (op op' : Op) (hk : Op.sameKind op op')
    (hm : Op.message op ≠ Op.message op') :
    (step H t op).1.digest ≠ (step H t' op').1.digest ∨ PoseidonManyCollision H := by
  rcases sameKind_message hk with ⟨h1, h2, _, _⟩ | ⟨m, m', hm1, hm2⟩
  · exact absurd (h1.trans h2.symm) hm
  · rw [step_absorb_digest H t op m hm1, step_absorb_digest H t' op' m' hm2]
    by_cases he : H.poseidonMany ((t.digest + 1) :: m) = H.poseidonMany ((t'.digest + 1) :: m')
    · right
      refine ⟨_, _, ?_, he⟩
      intro hl
      apply hm
      rw [hm1, hm2, (List.cons.inj hl).2]
    · left; exact he

theorem run_cons_fst (t : Transcript) (op : Op) (ops : List Op) :
    (run H t (op :: ops)).1 = (run H (step H t op).1 ops).1 := rfl

/-- different digests stay different through any two histories of the same kind sequence -/
theorem run_digest_ne : ∀ (t t' : Transcript) (h h' : List Op), SameKind h h' →
    t.digest ≠ t'.digest →
    (run H t h).1.digest ≠ (run H t' h').1.digest ∨ PoseidonManyCollision H
  | _, _, [], [], _, hd => Or.inl hd
  | t, t', op :: ops, op' :: ops', hk, hd => by
    rw [run_cons_fst, run_cons_fst]
    rcases step_digest_ne H t t' _ _ hk.1 hd with h1 | h1
    · exact run_digest_ne _ _ ops ops' hk.2 h1
    · right; exact h1
  | _, _, [], _ :: _, hk, _ => hk.elim
  | _, _, _ :: _, [], hk, _ => hk.elim

/-- decomposed form of history binding: no assumption at all on what happened before the differing
    message -/
theorem history_binding_decomposed (t t' : Transcript) (pre pre' post post' : List Op) (op op' : Op)
    (hk : Op.sameKind op op') (hm : Op.message op ≠ Op.message op') (hpost : SameKind post post') :
    (run H t (pre ++ op :: post)).1.digest ≠ (run H t' (pre' ++ op' :: post')).1.digest ∨
      PoseidonManyCollision H := by
  rw [run_append, run_append]
  simp only [run_cons_fst]
  rcases step_message_ne H (run H t pre).1 (run H t' pre').1 op op' hk hm with h1 | h1
  · exact run_digest_ne H _ _ _ _ hpost h1
  · right; exact h1

theorem SameKind.take : ∀ {h h' : List Op}, SameKind h h' → ∀ n : ℕ,
    SameKind (h.take n) (h'.take n)
  | [], [], _, n => by simp [SameKind]
  | _ :: _, _ :: _, _, 0 => by simp [SameKind]
  | _ :: _, _ :: _, hs, n + 1 => by
    simp only [List.take_succ_cons]; exact ⟨hs.1, SameKind.take hs.2 n⟩
  | [], _ :: _, hs, _ => hs.elim
  | _ :: _, [], hs, _ => hs.elim

theorem SameKind.drop : ∀ {h h' : List Op}, SameKind h h' → ∀ n : ℕ,
    SameKind (h.drop n) (h'.drop n)
  | [], [], _, n => by simp [SameKind]
  | _ :: _, _ :: _, hs, 0 => by simpa using hs
  | _ :: _, _ :: _, hs, n + 1 => by
    simp only [List.drop_succ_cons]; exact SameKind.drop hs.2 n
  | [], _ :: _, hs, _ => hs.elim
  | _ :: _, [], hs, _ => hs.elim

theorem SameKind.getElem : ∀ {h h' : List Op}, SameKind h h' → ∀ (i : ℕ) (hi : i < h.length)
    (hi' : i < h'.length), Op.sameKind h[i] h'[i]
  | _ :: _, _ :: _, hs, 0, _, _ => by simpa using hs.1
  | _ :: _, _ :: _, hs, i + 1, hi, hi' => by
    simpa using SameKind.getElem hs.2 i (by simpa using hi) (by simpa using hi')
  | [], _, _, _, hi, _ => by simp at hi
  | _ :: _, [], _, _, _, hi' => by simp at hi'

theorem SameKind.length_eq : ∀ {h h' : List Op}, SameKind h h' → h.length = h'.length
  | [], [], _ => rfl
  | _ :: _, _ :: _, hs => by simp [SameKind.length_eq hs.2]
  | [], _ :: _, hs => hs.elim
  | _ :: _, [], hs => hs.elim

theorem take_split (h : List Op) (i n : ℕ) (hi : i < h.length) (hn : i < n) :
    h.take n = h.take i ++ h[i] :: (h.drop (i + 1)).take (n - (i + 1)) := by
  have h1 : n = i + ((n - (i + 1)) + 1) := by omega
  conv_lhs => rw [h1, List.take_add, List.drop_eq_getElem_cons hi, List.take_succ_cons]

/-- indexed form: two histories of the same kind sequence from the same state whose `i`-th
    operations absorb different messages have different digests after any `n > i` operations,
    or a `poseidon_hash_many` collision exists -/
theorem history_binding (t : Transcript) (h h' : List Op) (hs : SameKind h h') (i : ℕ)
    (hi : i < h.length) (hi' : i < h'.length) (hm : Op.message h[i] ≠ Op.message h'[i])
    (n : ℕ) (hn : i < n) :
    (run H t (h.take n)).1.digest ≠ (run H t (h'.take n)).1.digest ∨ PoseidonManyCollision H := by
  rw [take_split h i n hi hn, take_split h' i n hi' hn]
  exact history_binding_decomposed H t t _ _ _ _ _ _ (SameKind.getElem hs i hi hi') hm
    (SameKind.take (SameKind.drop hs (i + 1)) _)

/-- a challenge squeezed from two states with different digests: equal values are a
    `poseidon_hash` collision -/
theorem challenge_ne_of_digest_ne (s s' : Transcript) (hd : s.digest ≠ s'.digest)
    (he : (randomFelt H s).1 = (randomFelt H s').1) : Poseidon2Collision H :=
  ⟨s.digest, s.counter, s'.digest, s'.counter,
    fun h => hd (Prod.mk.inj h).1, he⟩

theorem later_challenge_changes (t : Transcript) (h h' : List Op) (hs : SameKind h h') (i : ℕ)
    (hi : i < h.length) (hi' : i < h'.length) (hm : Op.message h[i] ≠ Op.message h'[i])
    (n : ℕ) (hn : i < n)
    (he : (randomFelt H (run H t (h.take n)).1).1 = (randomFelt H (run H t (h'.take n)).1).1) :
    Poseidon2Collision H ∨ PoseidonManyCollision H := by
  rcases history_binding H t h h' hs i hi hi' hm n hn with hd | hc
  · left; exact challenge_ne_of_digest_ne H _ _ hd he
  · right; exact hc

/-- the challenge of a squeeze appended to a history is the last challenge of the run -/
theorem squeeze_last (t : Transcript) (h : List Op) :
    (run H t (h ++ [.squeeze])).2 = (run H t h).2 ++ [(randomFelt H (run H t h).1).1] := by
  rw [run_append]; rfl

end Swiftness.Proofs.Tr
