/-
  C07, vocabulary and the unfolding of `Fri.verify` / `Fri.verifyLayers` (core Lean only; numerals are
  the model's, so every term below is syntactically the model's term).

  * `LayersOk`      — recursive reading of `verifyLayers … = .ok last`;
  * `LayerOk`       — the two checks of layer `i` of a run of `Fri.verify` (fold step, table decommitment);
  * `AcceptTrace`   — the whole accepting run: first-layer queries, every per-layer check, the chaining of
                      the query lists and the last-layer check.
-/
import Swiftness.Model.Fri

namespace Swiftness.Proofs.FriSound

open Swiftness Fri

/-- `verifyLayers H n cs ws es steps qs = .ok last`, read recursively. -/
def LayersOk (H : Hashes) : Nat → List Table.Commitment → List LayerWitness → List Felt → List Felt →
    List LayerQuery → List LayerQuery → Prop
  | 0, _, _, _, _, qs, last => last = qs
  | n + 1, c :: cs, w :: ws, e :: es, st :: steps, qs, last =>
    ∃ nl, computeNextLayer qs w.leaves (Felt.pow 2 st.val) e = .ok nl ∧
      Table.decommit H c nl.verifyIndices nl.verifyYValues w.auths = .ok () ∧
      LayersOk H n cs ws es steps nl.nextQueries last
  | _ + 1, _, _, _, _, _, _ => False

/-- The checks of inner layer `i` in a run of `Fri.verify` on commitment `c` and witness `ws`, entered
    with the query list `qi`: the fold step (`compute_next_layer` with coset size `2^step_{i+1}` and
    evaluation point `i`) succeeds with result `nl`, and the table decommitment of `nl`'s coset rows
    against commitment `i` with the witness' authentication nodes is accepted. -/
def LayerOk (H : Hashes) (c : Commitment) (ws : List LayerWitness) (i : Nat) (qi : List LayerQuery)
    (nl : NextLayer) : Prop :=
  ∃ ci wi ei sti, c.innerLayers[i]? = some ci ∧ ws[i]? = some wi ∧ c.evalPoints[i]? = some ei ∧
    c.config.friStepSizes[i + 1]? = some sti ∧
    computeNextLayer qi wi.leaves (Felt.pow 2 sti.val) ei = .ok nl ∧
    Table.decommit H ci nl.verifyIndices nl.verifyYValues wi.auths = .ok ()

/-- An accepting run of `Fri.verify`: `q i` is the query list entering layer `i`
    (`q 0` = the first-layer queries, `q m` = the last-layer queries, `m = n_layers - 1`),
    `nl i` the result of the fold step of layer `i`. -/
structure AcceptTrace (H : Hashes) (queries : List Felt) (c : Commitment) (values points : List Felt)
    (ws : List LayerWitness) (q : Nat → List LayerQuery) (nl : Nat → NextLayer) : Prop where
  first : gatherFirstLayer queries values points = .ok (q 0)
  layer : ∀ i, i < (c.config.nLayers - 1).val → LayerOk H c ws i (q i) (nl i)
  next : ∀ i, i < (c.config.nLayers - 1).val → q (i + 1) = (nl i).nextQueries
  last : verifyLastLayer (q (c.config.nLayers - 1).val) c.lastLayerCoefficients = .ok ()

/-! ### `verifyLayers` -/

theorem verifyLayers_ok_iff (H : Hashes) : ∀ (n : Nat) (cs : List Table.Commitment)
    (ws : List LayerWitness) (es steps : List Felt) (qs last : List LayerQuery),
    verifyLayers H n cs ws es steps qs = .ok last ↔ LayersOk H n cs ws es steps qs last := by
  intro n
  induction n with
  | zero =>
    intro cs ws es steps qs last
    simp only [verifyLayers, LayersOk, Outcome.ok.injEq]
    exact eq_comm
  | succ n ih =>
    intro cs ws es steps qs last
    cases ws with
    | nil => simp [verifyLayers, LayersOk]
    | cons w ws =>
      cases cs with
      | nil => simp [verifyLayers, LayersOk]
      | cons c cs =>
        cases steps with
        | nil => simp [verifyLayers, LayersOk]
        | cons st steps =>
          cases es with
          | nil => simp [verifyLayers, LayersOk]
          | cons e es =>
            simp only [verifyLayers, LayersOk]
            cases hnl : computeNextLayer qs w.leaves (Felt.pow 2 st.val) e with
            | ok nl =>
              simp only [Outcome.ok.injEq, exists_eq_left']
              cases hd : Table.decommit H c nl.verifyIndices nl.verifyYValues w.auths with
              | ok u => simp only [true_and]; exact ih cs ws es steps nl.nextQueries last
              | err x => simp
              | panic s => simp
            | err x => simp
            | panic s => simp

/-- indexed reading of `LayersOk` -/
theorem layersOk_trace (H : Hashes) : ∀ (n : Nat) (cs : List Table.Commitment)
    (ws : List LayerWitness) (es steps : List Felt) (qs last : List LayerQuery),
    LayersOk H n cs ws es steps qs last →
    ∃ (q : Nat → List LayerQuery) (nl : Nat → NextLayer), q 0 = qs ∧ q n = last ∧
      ∀ i, i < n → (∃ ci wi ei sti, cs[i]? = some ci ∧ ws[i]? = some wi ∧ es[i]? = some ei ∧
        steps[i]? = some sti ∧ computeNextLayer (q i) wi.leaves (Felt.pow 2 sti.val) ei = .ok (nl i) ∧
        Table.decommit H ci (nl i).verifyIndices (nl i).verifyYValues wi.auths = .ok ()) ∧
        q (i + 1) = (nl i).nextQueries := by
  intro n
  induction n with
  | zero =>
    intro cs ws es steps qs last h
    exact ⟨fun _ => qs, fun _ => ⟨[], [], [], []⟩, rfl, h.symm, fun i hi => absurd hi (Nat.not_lt_zero _)⟩
  | succ n ih =>
    intro cs ws es steps qs last h
    match cs, ws, es, steps, h with
    | c :: cs, w :: ws, e :: es, st :: steps, h =>
      obtain ⟨nl0, h1, h2, h3⟩ := h
      obtain ⟨q', nl', hq0, hqn, hstep⟩ := ih cs ws es steps nl0.nextQueries last h3
      refine ⟨fun i => match i with | 0 => qs | i + 1 => q' i,
        fun i => match i with | 0 => nl0 | i + 1 => nl' i, rfl, hqn, ?_⟩
      intro i hi
      cases i with
      | zero => exact ⟨⟨c, w, e, st, rfl, rfl, rfl, rfl, h1, h2⟩, hq0⟩
      | succ i =>
        have := hstep i (Nat.lt_of_succ_lt_succ hi)
        simpa only [List.getElem?_cons_succ] using this

/-- … and back. -/
theorem layersOk_of_trace (H : Hashes) : ∀ (n : Nat) (cs : List Table.Commitment)
    (ws : List LayerWitness) (es steps : List Felt) (q : Nat → List LayerQuery) (nl : Nat → NextLayer),
    (∀ i, i < n → (∃ ci wi ei sti, cs[i]? = some ci ∧ ws[i]? = some wi ∧ es[i]? = some ei ∧
        steps[i]? = some sti ∧ computeNextLayer (q i) wi.leaves (Felt.pow 2 sti.val) ei = .ok (nl i) ∧
        Table.decommit H ci (nl i).verifyIndices (nl i).verifyYValues wi.auths = .ok ()) ∧
        q (i + 1) = (nl i).nextQueries) →
    LayersOk H n cs ws es steps (q 0) (q n) := by
  intro n
  induction n with
  | zero => intro cs ws es steps q nl _; rfl
  | succ n ih =>
    intro cs ws es steps q nl h
    obtain ⟨⟨ci, wi, ei, sti, h1, h2, h3, h4, h5, h6⟩, h7⟩ := h 0 (Nat.succ_pos _)
    match cs, ws, es, steps, h1, h2, h3, h4 with
    | c :: cs, w :: ws, e :: es, st :: steps, h1, h2, h3, h4 =>
      simp only [List.getElem?_cons_zero, Option.some.injEq] at h1 h2 h3 h4
      subst h1 h2 h3 h4
      refine ⟨nl 0, h5, h6, ?_⟩
      rw [← h7]
      apply ih cs ws es steps (fun i => q (i + 1)) (fun i => nl (i + 1))
      intro i hi
      have := h (i + 1) (Nat.succ_lt_succ hi)
      simpa only [List.getElem?_cons_succ] using this

/-! ### `verify` -/

/-- `Fri.verify` accepts iff every one of its checks passes. -/
theorem verify_ok_iff (H : Hashes) (queries : List Felt) (c : Commitment) (values points : List Felt)
    (ws : List LayerWitness) :
    verify H queries c values points ws = .ok () ↔
      queries.length = values.length ∧ 1 ≤ c.config.friStepSizes.length ∧
      (c.config.nLayers - 1).val < 2 ^ 64 ∧
      Felt.ofNat c.lastLayerCoefficients.length = Felt.pow 2 c.config.logLastLayerDegreeBound.val ∧
      ∃ fq last, gatherFirstLayer queries values points = .ok fq ∧
        verifyLayers H (c.config.nLayers - 1).val c.innerLayers ws c.evalPoints
          (c.config.friStepSizes.drop 1) fq = .ok last ∧
        verifyLastLayer last c.lastLayerCoefficients = .ok () := by
  unfold verify
  by_cases hl : queries.length = values.length
  · simp only [hl, ne_eq, not_true_eq_false, if_false, true_and]
    cases hg : gatherFirstLayer queries values points with
    | ok fq =>
      simp only [Outcome.ok.injEq, exists_and_left, exists_eq_left']
      by_cases h1 : c.config.friStepSizes.length < 1
      · simp only [h1, if_true, reduceCtorEq, false_iff]
        intro h; omega
      · simp only [h1, if_false]
        have h1' : 1 ≤ c.config.friStepSizes.length := by omega
        simp only [h1', true_and]
        by_cases h2 : (c.config.nLayers - 1).val ≥ 2 ^ 64
        · simp only [h2, if_true, reduceCtorEq, false_iff]
          intro h; omega
        · simp only [h2, if_false]
          have h2' : (c.config.nLayers - 1).val < 2 ^ 64 := by omega
          simp only [h2', true_and]
          cases hv : verifyLayers H (c.config.nLayers - 1).val c.innerLayers ws c.evalPoints
              (c.config.friStepSizes.drop 1) fq with
          | ok last =>
            simp only [Outcome.ok.injEq, exists_eq_left']
            by_cases h3 : Felt.ofNat c.lastLayerCoefficients.length
                = Felt.pow 2 c.config.logLastLayerDegreeBound.val
            · simp only [h3, not_true_eq_false, if_false, true_and]
              cases hll : verifyLastLayer last c.lastLayerCoefficients with
              | ok u => simp
              | err x => simp
              | panic s => simp
            · simp [h3]
          | err x => simp
          | panic s => simp
    | err x => simp
    | panic s => simp
  · simp [hl]

/-- acceptance, as an indexed trace: every per-layer check passes — and conversely. -/
theorem verify_ok_iff_trace (H : Hashes) (queries : List Felt) (c : Commitment)
    (values points : List Felt) (ws : List LayerWitness) :
    verify H queries c values points ws = .ok () ↔
      queries.length = values.length ∧ 1 ≤ c.config.friStepSizes.length ∧
      (c.config.nLayers - 1).val < 2 ^ 64 ∧
      Felt.ofNat c.lastLayerCoefficients.length = Felt.pow 2 c.config.logLastLayerDegreeBound.val ∧
      ∃ q nl, AcceptTrace H queries c values points ws q nl := by
  rw [verify_ok_iff]
  refine and_congr_right fun _ => and_congr_right fun _ => and_congr_right fun _ =>
    and_congr_right fun _ => ?_
  constructor
  · rintro ⟨fq, last, hg, hv, hll⟩
    rw [verifyLayers_ok_iff] at hv
    obtain ⟨q, nl, hq0, hqn, hstep⟩ := layersOk_trace H _ _ _ _ _ _ _ hv
    refine ⟨q, nl, ?_, ?_, fun i hi => (hstep i hi).2, ?_⟩
    · rw [hq0]; exact hg
    · intro i hi
      obtain ⟨⟨ci, wi, ei, sti, h1, h2, h3, h4, h5, h6⟩, _⟩ := hstep i hi
      refine ⟨ci, wi, ei, sti, h1, h2, h3, ?_, h5, h6⟩
      rw [List.getElem?_drop, Nat.add_comm] at h4
      exact h4
    · rw [hqn]; exact hll
  · rintro ⟨q, nl, ht⟩
    refine ⟨q 0, q (c.config.nLayers - 1).val, ht.first, ?_, ht.last⟩
    rw [verifyLayers_ok_iff]
    apply layersOk_of_trace H _ _ _ _ _ q nl
    intro i hi
    obtain ⟨ci, wi, ei, sti, h1, h2, h3, h4, h5, h6⟩ := ht.layer i hi
    refine ⟨⟨ci, wi, ei, sti, h1, h2, h3, ?_, h5, h6⟩, ht.next i hi⟩
    rw [List.getElem?_drop, Nat.add_comm]
    exact h4

end Swiftness.Proofs.FriSound
