/-
  Unit-vector decomposition for programs accepted by `checkLinear`: the result on an arbitrary
  coefficient vector is the coefficient-weighted sum of the results on the unit vectors.
-/
import Swiftness.Proofs.AstLinear

namespace Swiftness.Proofs.AstLinear
open Swiftness Swiftness.Ast
attribute [-instance] Fin.instOfNat

/-- `i`-th unit vector of length `n` -/
def unitVec (n i : Nat) : Array Felt := Array.ofFn (n := n) fun j => if j.val = i then 1 else 0

/-- first `k` entries of `c`, zero afterwards -/
def truncVec (c : Array Felt) (k : Nat) : Array Felt :=
  Array.ofFn (n := c.size) fun j => if j.val < k then c[j.val] else 0

theorem unitVec_size (n i : Nat) : (unitVec n i).size = n := by simp [unitVec]

theorem truncVec_size (c : Array Felt) (k : Nat) : (truncVec c k).size = c.size := by
  simp [truncVec]

theorem truncVec_full (c : Array Felt) : truncVec c c.size = c := by
  apply Array.ext
  · simp [truncVec]
  · intro i h1 h2
    simp only [truncVec, Array.getElem_ofFn, if_pos h2]

theorem LC.trunc_zero (c : Array Felt) :
    LC 0 0 (unitVec c.size 0) (unitVec c.size 0) (truncVec c 0) := by
  refine ⟨rfl, by simp [unitVec, truncVec], ?_⟩
  intro i h1 h2 h3
  simp only [truncVec, Array.getElem_ofFn, Nat.not_lt_zero, if_false]
  ring

theorem LC.trunc_succ (c : Array Felt) (k : Nat) (hk : k < c.size) :
    LC 1 c[k] (truncVec c k) (unitVec c.size k) (truncVec c (k + 1)) := by
  refine ⟨by simp [unitVec, truncVec], by simp [truncVec], ?_⟩
  intro i h1 h2 h3
  simp only [truncVec, unitVec, Array.getElem_ofFn]
  rcases Nat.lt_trichotomy i k with h | h | h
  · rw [if_pos (by omega), if_pos h, if_neg (by omega)]; ring
  · subst h
    rw [if_pos (by omega), if_neg (by omega), if_pos rfl]; ring
  · rw [if_neg (by omega), if_neg (by omega), if_neg (by omega)]; ring

theorem evalProg_trunc (p : Prog) (A res : Nat) (hp : checkLinear p A res = true) (inp : Inputs)
    (c : Array Felt) (hpos : 0 < c.size) (w : Nat → Felt)
    (hw : ∀ i, i < c.size → evalProg {inp with coeff := unitVec c.size i} p res = .ok (w i)) :
    ∀ k, k ≤ c.size →
      evalProg {inp with coeff := truncVec c k} p res =
        .ok (∑ i ∈ Finset.range k, c.getD i 0 * w i) := by
  intro k
  induction k with
  | zero =>
    intro _
    have := checkLinear_sound_lc p A res hp inp 0 0 _ _ _ (LC.trunc_zero c) (w 0) (w 0)
      (hw 0 hpos) (hw 0 hpos)
    rw [this]; congr 1
    simp
  | succ k ih =>
    intro hk
    have hk' : k < c.size := hk
    have := checkLinear_sound_lc p A res hp inp 1 c[k] _ _ _ (LC.trunc_succ c k hk') _ (w k)
      (ih (Nat.le_of_lt hk')) (hw k hk')
    rw [this]; congr 1
    rw [Finset.sum_range_succ]
    have : c.getD k 0 = c[k] := by simp [Array.getD, hk']
    rw [this]; ring

/-- Unit-vector decomposition.  (`0 < n` is needed: with an empty coefficient vector there is no
    unit run to witness that the coefficient-independent part of the program does not panic.) -/
theorem unit_decomposition (p : Prog) (A res : Nat) (hp : checkLinear p A res = true) (inp : Inputs)
    (n : Nat) (hn : 0 < n) (c : Array Felt) (hc : c.size = n) (w : Nat → Felt)
    (hw : ∀ i, i < n → evalProg {inp with coeff := unitVec n i} p res = .ok (w i)) :
    evalProg {inp with coeff := c} p res = .ok (∑ i ∈ Finset.range n, c.getD i 0 * w i) := by
  subst hc
  have := evalProg_trunc p A res hp inp c hn w hw c.size (Nat.le_refl _)
  rwa [truncVec_full] at this

/-- What "the result slot `res` of `p` is a linear function of the coefficient vector" means
    (bundles the four generic statements; `Props/C16.lean` instantiates it per layout). -/
structure LinearInCoeff (p : Prog) (res : Nat) : Prop where
  /-- additivity -/
  add : ∀ (inp : Inputs) (c1 c2 : Array Felt), c1.size = c2.size → ∀ r1 r2 : Felt,
    evalProg {inp with coeff := c1} p res = .ok r1 →
    evalProg {inp with coeff := c2} p res = .ok r2 →
    evalProg {inp with coeff := Array.zipWith (· + ·) c1 c2} p res = .ok (r1 + r2)
  /-- homogeneity -/
  smul : ∀ (inp : Inputs) (a : Felt) (c : Array Felt) (r : Felt),
    evalProg {inp with coeff := c} p res = .ok r →
    evalProg {inp with coeff := c.map (a * ·)} p res = .ok (a * r)
  /-- ok / err / panic (and which one) depends only on the length of the coefficient vector -/
  outcome : ∀ (inp : Inputs) (c1 c2 : Array Felt), c1.size = c2.size →
    (evalProg {inp with coeff := c1} p res).isOk = (evalProg {inp with coeff := c2} p res).isOk ∧
    (∀ x, evalProg {inp with coeff := c1} p res = .panic x ↔
          evalProg {inp with coeff := c2} p res = .panic x) ∧
    (∀ x, evalProg {inp with coeff := c1} p res = .err x ↔
          evalProg {inp with coeff := c2} p res = .err x)
  /-- the result is the coefficient-weighted sum of the unit-vector results -/
  unit : ∀ (inp : Inputs) (n : Nat), 0 < n → ∀ (c : Array Felt), c.size = n → ∀ w : Nat → Felt,
    (∀ i, i < n → evalProg {inp with coeff := unitVec n i} p res = .ok (w i)) →
    evalProg {inp with coeff := c} p res = .ok (∑ i ∈ Finset.range n, c.getD i 0 * w i)

theorem linearInCoeff_of_check (p : Prog) (A res : Nat) (hp : checkLinear p A res = true) :
    LinearInCoeff p res :=
  ⟨checkLinear_sound_add p A res hp, checkLinear_sound_smul p A res hp,
   checkLinear_outcome_independent p A res hp, unit_decomposition p A res hp⟩

end Swiftness.Proofs.AstLinear
