/-
  C07, item 3: one inner FRI layer is bound to the committed table.  `table_sound` (C05) re-proved with
  the authentication-path conclusion of `decommit_sound` (C04) kept, then combined with the structure
  of `compute_next_layer` (`FriSoundRows`).
-/
import Swiftness.Proofs.TableProofs
import Swiftness.Proofs.FriSoundRows

namespace Swiftness.Proofs.FriSound

open Swiftness Fri Swiftness.Merkle Swiftness.TableSpec Swiftness.Proofs.Merkle Swiftness.Proofs.Table

variable {H : Hashes}

/-- `table_sound_strong` with the second half of `decommit_sound`: the consumed authentication nodes
    are the committed authentication path. -/
theorem table_sound_auth {nf : Felt} {h : Nat} (hh : h ≤ 250) (nc : Felt)
    (cell : Nat → Nat → Felt) (queries values auths : List Felt) (hne : queries ≠ [])
    (hs : (queries.map (·.val)).Pairwise (· < ·)) (hr : ∀ q ∈ queries, q.val < 2 ^ h)
    (hok : Table.decommit H ⟨nc, ⟨⟨Felt.ofNat h, nf⟩, tableRoot H nf h nc.val cell⟩⟩
      queries values auths = .ok ()) :
    (values = rowValues cell nc.val (queries.map (·.val)) ∧
      ∃ extra, auths =
        authPath H nf h (tableLeaf H nf h nc.val cell) (queries.map (·.val)) ++ extra) ∨
      Collision H ∨ RowCollision H nc.val (bottomFriendly nf h) := by
  unfold Table.decommit at hok
  simp only [bottom_friendly_eq hh] at hok
  split at hok
  · simp at hok
  · split at hok
    · simp at hok
    · rename_i _ hlen
      simp only [ne_eq, Decidable.not_not] at hlen
      have hidx := vectorQueries_index (H := H) nc.val (bottomFriendly nf h) queries
        (values.map (· * Table.MONTGOMERY_R))
      have hidx' : (Table.vectorQueries H nc.val (bottomFriendly nf h) queries
          (values.map (· * Table.MONTGOMERY_R))).map (·.index.val) = queries.map (·.val) := by
        conv_rhs => rw [← hidx]
        rw [List.map_map]; rfl
      have := decommit_sound hh (tableLeaf H nf h nc.val cell) _ auths
        (by intro h0; rw [h0] at hidx; exact hne hidx.symm)
        (by rw [hidx']; exact hs)
        (by
          intro vq hvq
          have : vq.index ∈ queries := by rw [← hidx]; exact List.mem_map_of_mem hvq
          exact hr _ this)
        hok
      rcases this with ⟨hv, ha⟩ | hc
      · rcases rows_sound cell (tableLeaf H nf h nc.val cell) (tableLeaf_eq cell) queries values
          hlen.symm hv with he | hc
        · left
          rw [hidx'] at ha
          exact ⟨he, ha⟩
        · right; right; exact hc
      · right; left; exact hc

/-- the honest decommitment of a table against any other root is rejected (no collision clause):
    C04 `rejects_wrong_root` through the table layer -/
theorem table_rejects_wrong_root {nf : Felt} {h : Nat} (hh : h ≤ 250) (n : Nat) (hn : n < 2 ^ 32)
    (r : Felt) (cell : Nat → Nat → Felt) (Q : List Nat) (extra : List Felt) (hne : Q ≠ [])
    (hs : Q.Pairwise (· < ·)) (hr : ∀ i ∈ Q, i < 2 ^ h) (hroot : r ≠ tableRoot H nf h n cell) :
    Table.decommit H ⟨Felt.ofNat n, ⟨⟨Felt.ofNat h, nf⟩, r⟩⟩
      (Q.map Felt.ofNat) (rowValues cell n Q)
      (authPath H nf h (tableLeaf H nf h n cell) Q ++ extra) = .err "MisMatch" := by
  have hnv : (Felt.ofNat n).val = n :=
    ofNat_val (Nat.lt_trans hn (Nat.pow_lt_pow_right (by omega) (by omega)))
  unfold Table.decommit
  simp only [hnv, bottom_friendly_eq hh]
  rw [if_neg (by omega), if_neg (by simp [rowValues_length])]
  rw [vectorQueries_honest cell (tableLeaf H nf h n cell) (tableLeaf_eq cell) Q]
  exact rejects_wrong_root hh r _ Q extra hne hs hr hroot


/-- the `j`-th `n`-block of `rowValues` is the committed row `Q[j]` -/
theorem rowValues_block (cell : Nat → Nat → Felt) (n : Nat) : ∀ (Q : List Nat) (j r : Nat),
    Q[j]? = some r → ((rowValues cell n Q).drop (j * n)).take n = (List.range n).map (cell r) := by
  intro Q
  induction Q with
  | nil => intro j r h; simp at h
  | cons q Q ih =>
    intro j r h
    have hlen : ((List.range n).map (cell q)).length = n := by simp
    rw [rowValues_cons]
    cases j with
    | zero =>
      simp only [List.getElem?_cons_zero, Option.some.injEq] at h
      subst h
      rw [Nat.zero_mul, List.drop_zero, List.take_left' hlen]
    | succ j =>
      have : (j + 1) * n = ((List.range n).map (cell q)).length + j * n := by
        rw [hlen, Nat.succ_mul]; omega
      rw [this, ← List.drop_drop, List.drop_left]
      exact ih j r (by simpa using h)

/-- What acceptance of layer `i` means when commitment `i` is the commitment of the table `cell`. -/
structure LayerBound (nc : Felt) (cell : Nat → Nat → Felt) (qs : List LayerQuery)
    (leaves : List Felt) (cosetSize e : Felt) (nl : NextLayer) : Prop where
  /-- the column count is the coset size -/
  ncols : nc.val = cosetSize.val
  /-- every coset row the verifier folded is the committed row -/
  rows : nl.verifyYValues = rowValues cell nc.val (nl.verifyIndices.map (·.val))
  /-- every query of the layer carries the committed cell at its position
      (row = coset index, column = offset in the coset) -/
  queries : ∀ q ∈ qs, ∃ ci p, ci ∈ nl.verifyIndices ∧ p < cosetSize.val ∧
      q.index = ci * cosetSize + Felt.ofNat p ∧ q.yValue = cell ci.val p
  /-- every consumed witness leaf is a committed cell of a folded row -/
  leaves : ∃ used, leaves = used ++ nl.siblingsLeft ∧
      ∀ s ∈ used, ∃ ci p, ci ∈ nl.verifyIndices ∧ p < cosetSize.val ∧ s = cell ci.val p
  /-- every next-layer query is the fold of a committed row -/
  fold : ∀ nq ∈ nl.nextQueries, nq.index ∈ nl.verifyIndices ∧ ∃ xinv,
      friFormula ((List.range cosetSize.val).map (cell nq.index.val)) e xinv cosetSize = .ok nq.yValue ∧
      nq.xInvValue = Felt.pow xinv cosetSize.val

theorem layer_bound_of_rows {nc : Felt} {cell : Nat → Nat → Felt} {qs : List LayerQuery}
    {leaves : List Felt} {cosetSize e : Felt} {nl : NextLayer}
    (hnl : computeNextLayer qs leaves cosetSize e = .ok nl) (hne : nl.verifyIndices ≠ [])
    (hlen : nl.verifyYValues.length = nc.val * nl.verifyIndices.length)
    (hrows : nl.verifyYValues = rowValues cell nc.val (nl.verifyIndices.map (·.val))) :
    LayerBound nc cell qs leaves cosetSize e nl := by
  obtain ⟨used, hused, hR⟩ := computeNextLayer_rows qs leaves cosetSize e nl hnl
  have hpos : 0 < nl.verifyIndices.length := List.length_pos_iff.mpr hne
  have hnc : nc.val = cosetSize.val := by
    have h2 := hR.lengths.2
    rw [hlen] at h2
    exact Nat.eq_of_mul_eq_mul_right hpos h2
  -- reading a cell of the decommitted values
  have hcell : ∀ (j p : Nat) (ci v : Felt), nl.verifyIndices[j]? = some ci → p < cosetSize.val →
      nl.verifyYValues[j * cosetSize.val + p]? = some v → v = cell ci.val p := by
    intro j p ci v hj hp hv
    have hjl : j < (nl.verifyIndices.map (·.val)).length := by
      rw [List.length_map]
      exact (List.getElem?_eq_some_iff.mp hj).1
    have := rowValues_getElem? cell nc.val (nl.verifyIndices.map (·.val)) j p hjl (by omega)
    rw [← hrows, hnc, hv] at this
    have hci : (nl.verifyIndices.map (·.val))[j] = ci.val := by
      have h1 : (nl.verifyIndices.map (·.val))[j]? = some ci.val := by
        rw [List.getElem?_map, hj]; rfl
      exact (List.getElem?_eq_some_iff.mp h1).2
    rw [hci] at this
    exact Option.some.inj this
  refine ⟨hnc, hrows, ?_, ⟨used, hused, ?_⟩, ?_⟩
  · intro q hq
    obtain ⟨j, p, ci, h1, h2, h3, h4⟩ := hR.query_pos q hq
    exact ⟨ci, p, List.mem_of_getElem? h2, h1, h3, hcell j p ci _ h2 h1 h4⟩
  · intro s hs
    obtain ⟨j, p, h1, h2, h3⟩ := hR.sib_pos s hs
    have hj : nl.verifyIndices[j]? = some nl.verifyIndices[j] := List.getElem?_eq_getElem h1
    exact ⟨_, p, List.mem_of_getElem? hj, h2, hcell j p _ _ hj h2 h3⟩
  · intro nq hnq
    obtain ⟨j, hj⟩ := List.getElem?_of_mem hnq
    obtain ⟨xinv, h1, h2, h3⟩ := hR.fold j nq hj
    refine ⟨List.mem_of_getElem? h1, xinv, ?_, h3⟩
    have hb := rowValues_block cell nc.val (nl.verifyIndices.map (·.val)) j nq.index.val
      (by rw [List.getElem?_map, h1]; rfl)
    rw [← hrows, hnc] at hb
    rw [hb] at h2
    exact h2

/-- **One FRI layer is sound**: the fold step succeeded with result `nl`, the table decommitment of
    `nl` against the commitment of the table `cell` was accepted, and the coset indices are non-empty,
    strictly increasing and in range.  Then the layer is bound to `cell` and the consumed
    authentication nodes are the committed path — or there is an explicit collision. -/
theorem fri_layer_sound {nf : Felt} {h : Nat} (hh : h ≤ 250) (nc : Felt) (cell : Nat → Nat → Felt)
    (qs : List LayerQuery) (leaves auths : List Felt) (cosetSize e : Felt) (nl : NextLayer)
    (hnl : computeNextLayer qs leaves cosetSize e = .ok nl)
    (hne : nl.verifyIndices ≠ [])
    (hs : (nl.verifyIndices.map (·.val)).Pairwise (· < ·))
    (hr : ∀ i ∈ nl.verifyIndices, i.val < 2 ^ h)
    (hdec : Table.decommit H ⟨nc, ⟨⟨Felt.ofNat h, nf⟩, tableRoot H nf h nc.val cell⟩⟩
      nl.verifyIndices nl.verifyYValues auths = .ok ()) :
    (LayerBound nc cell qs leaves cosetSize e nl ∧
      ∃ extra, auths = authPath H nf h (tableLeaf H nf h nc.val cell)
        (nl.verifyIndices.map (·.val)) ++ extra) ∨
      Collision H ∨ ManyCollision H ∨ MaskedCollision H := by
  rcases table_sound_auth hh nc cell _ _ auths hne hs hr hdec with ⟨h1, h2⟩ | h3 | h4
  · left
    have hlen := (table_length_of_ok (H := H) _ _ _ _ hdec).2
    exact ⟨layer_bound_of_rows hnl hne hlen h1, h2⟩
  · exact Or.inr (Or.inl h3)
  · exact Or.inr (Or.inr h4.weaken)

end Swiftness.Proofs.FriSound
