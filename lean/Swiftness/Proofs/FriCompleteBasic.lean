/-
  C06b (FRI completeness), part 1: algebra of the honest prover's objects.
  * `evalL` as a finite sum, `foldPoly_eval`, `foldPoly_length_le`;
  * `layerPoint` as a field power, nonzero, coset layout, next-layer identity;
  * `cosetIdx` is the strictly increasing list of touched cosets.
-/
import Swiftness.Prover.FriProver
import Swiftness.Proofs.FoldDomain
import Swiftness.Proofs.FriLayerLast

namespace Swiftness.Proofs.FriComplete
open Swiftness Fri FoldSpec Prover
attribute [-instance] Fin.instOfNat

/-! ### `evalL` as a sum -/

theorem evalL_eq_sum (l : List Felt) (y : Felt) (N : ℕ) (hN : l.length ≤ N) :
    evalL l y = ∑ m ∈ Finset.range N, l.getD m 0 * y ^ m := by
  induction l generalizing N with
  | nil => simp [evalL]
  | cons c cs ih =>
    obtain ⟨N', rfl⟩ : ∃ N', N = N' + 1 := ⟨N - 1, by simp at hN; omega⟩
    have hN' : cs.length ≤ N' := by simpa using hN
    rw [Finset.sum_range_succ', evalL, ih N' hN', Finset.mul_sum]
    simp only [List.getD_cons_succ, List.getD_cons_zero, pow_zero, mul_one, pow_succ]
    rw [add_comm]
    congr 1
    apply Finset.sum_congr rfl
    intro m _
    ring

theorem evalL_map_range (f : ℕ → Felt) (y : Felt) (N : ℕ) :
    evalL ((List.range N).map f) y = ∑ m ∈ Finset.range N, f m * y ^ m := by
  rw [evalL_eq_sum _ y N (by simp)]
  apply Finset.sum_congr rfl
  intro m hm
  have hm' : m < N := Finset.mem_range.mp hm
  simp [List.getD, hm']

/-- padding with zeros (or not truncating) does not change the value -/
theorem evalL_pad (l : List Felt) (y : Felt) (N : ℕ) (hN : l.length ≤ N) :
    evalL ((List.range N).map fun i => l.getD i 0) y = evalL l y := by
  rw [evalL_map_range, evalL_eq_sum l y N hN]

theorem foldl_add_eq_sum (f : ℕ → Felt) (n : ℕ) :
    (List.range n).foldl (fun acc j => acc + f j) 0 = ∑ j ∈ Finset.range n, f j := by
  induction n with
  | zero => simp
  | succ n ih => rw [List.range_succ, List.foldl_append, ih, Finset.sum_range_succ]; rfl

/-! ### lengths -/

theorem evens_length {α : Type} (l : List α) : (evens l).length = (l.length + 1) / 2 := by
  induction l using evens.induct with
  | case1 => simp [evens]
  | case2 a => simp [evens]
  | case3 a b t ih => simp only [evens, List.length_cons, ih]; omega

theorem odds_length {α : Type} (l : List α) : (odds l).length = l.length / 2 := by
  induction l using odds.induct with
  | case1 => simp [odds]
  | case2 a => simp [odds]
  | case3 a b t ih => simp only [odds, List.length_cons, ih]; omega

theorem split_length_le {α : Type} (k d : ℕ) (cs : List α) (j : ℕ) (h : cs.length ≤ 2 ^ (k + d)) :
    (split k cs j).length ≤ 2 ^ d := by
  induction k generalizing d j with
  | zero => simpa [split] using h
  | succ k ih =>
    have h' : cs.length ≤ 2 ^ (k + (d + 1)) := by
      rw [show k + (d + 1) = k + 1 + d by omega]; exact h
    unfold split
    split
    · have := ih (d + 1) j h'
      rw [evens_length, pow_succ] at *
      omega
    · have := ih (d + 1) (j - 2 ^ k) h'
      rw [odds_length, pow_succ] at *
      omega

theorem foldl_max_le {α : Type} (ps : List (List α)) (m B : ℕ) (hm : m ≤ B)
    (h : ∀ p ∈ ps, p.length ≤ B) : ps.foldl (fun m p => max m p.length) m ≤ B := by
  induction ps generalizing m with
  | nil => simpa using hm
  | cons p ps ih =>
    simp only [List.foldl_cons]
    apply ih
    · exact max_le hm (h p (List.mem_cons_self ..))
    · intro q hq; exact h q (List.mem_cons_of_mem _ hq)

theorem le_foldl_max {α : Type} (ps : List (List α)) (m : ℕ) :
    m ≤ ps.foldl (fun m p => max m p.length) m ∧
      ∀ p ∈ ps, p.length ≤ ps.foldl (fun m p => max m p.length) m := by
  induction ps generalizing m with
  | nil => simp
  | cons p ps ih =>
    simp only [List.foldl_cons, List.mem_cons, forall_eq_or_imp]
    have := ih (max m p.length)
    refine ⟨le_trans (le_max_left _ _) this.1, le_trans (le_max_right _ _) this.1, this.2⟩

/-! ### the folded polynomial -/

theorem foldPoly_length_le (k d : ℕ) (b : Felt) (cs : List Felt) (h : cs.length ≤ 2 ^ (k + d)) :
    (foldPoly k b cs).length ≤ 2 ^ d := by
  unfold foldPoly
  simp only [List.length_map, List.length_range]
  apply foldl_max_le _ _ _ (Nat.zero_le _)
  intro p hp
  obtain ⟨j, _, rfl⟩ := List.mem_map.mp hp
  exact split_length_le k d cs j h

/-- the prover's folded polynomial is `2^k · Σ_j b^j · P_j` -/
theorem foldPoly_eval (k : ℕ) (hk : k ≤ 4) (b : Felt) (cs : List Felt) (y : Felt) :
    evalL (foldPoly k b cs) y
      = ((2 ^ k : ℕ) : Felt) * ∑ j ∈ Finset.range (2 ^ k), b ^ j * evalL (split k cs j) y := by
  unfold foldPoly
  simp only []
  set parts := (List.range (2 ^ k)).map fun j => split k cs j with hparts
  set len := parts.foldl (fun m p => max m p.length) 0 with hlen
  have hpj : ∀ j < 2 ^ k, parts.getD j [] = split k cs j := by
    intro j hj
    simp [hparts, List.getD, hj]
  have hle : ∀ j < 2 ^ k, (split k cs j).length ≤ len := by
    intro j hj
    apply (le_foldl_max parts 0).2
    rw [hparts]
    exact List.mem_map.mpr ⟨j, List.mem_range.mpr hj, rfl⟩
  rw [evalL_map_range]
  simp only [foldl_add_eq_sum, Felt.ofNat_eq_cast]
  have h16 : 2 ^ k ≤ 16 := Nat.pow_le_pow_right (by norm_num) hk
  calc ∑ m ∈ Finset.range len, ((2 ^ k : ℕ) : Felt) *
          (∑ j ∈ Finset.range (2 ^ k), Felt.pow b j * (parts.getD j []).getD m 0) * y ^ m
      = ∑ m ∈ Finset.range len, ∑ j ∈ Finset.range (2 ^ k),
          ((2 ^ k : ℕ) : Felt) * (b ^ j * ((split k cs j).getD m 0 * y ^ m)) := by
        apply Finset.sum_congr rfl
        intro m _
        rw [Finset.mul_sum, Finset.sum_mul]
        apply Finset.sum_congr rfl
        intro j hj
        have hj' : j < 2 ^ k := Finset.mem_range.mp hj
        rw [hpj j hj', Felt.pow_eq b j (by omega)]
        ring
    _ = ∑ j ∈ Finset.range (2 ^ k), ((2 ^ k : ℕ) : Felt) *
          (b ^ j * ∑ m ∈ Finset.range len, (split k cs j).getD m 0 * y ^ m) := by
        rw [Finset.sum_comm]
        apply Finset.sum_congr rfl
        intro j _
        rw [Finset.mul_sum, Finset.mul_sum]
    _ = _ := by
        rw [Finset.mul_sum]
        apply Finset.sum_congr rfl
        intro j hj
        rw [← evalL_eq_sum _ y len (hle j (Finset.mem_range.mp hj))]

/-! ### the layer domain -/

theorem bitrev_lt (k i : ℕ) : bitrev k i < 2 ^ k := by
  induction k generalizing i with
  | zero => simp [bitrev]
  | succ k ih =>
    have := ih (i / 2)
    have h2 : i % 2 < 2 := Nat.mod_lt _ (by norm_num)
    simp only [bitrev, pow_succ]
    nlinarith

theorem three_felt : (@OfNat.ofNat Felt 3 Fin.instOfNat) = (3 : Felt) := by
  rw [felt_ofNat]; norm_num

theorem three_ne_zero : (3 : Felt) ≠ 0 := by decide +kernel

theorem layerPoint_eq (L : ℕ) (hL : L ≤ 192) (idx : ℕ) :
    layerPoint L idx = ((3 : Felt) ^ ((P - 1) / 2 ^ L)) ^ bitrev L idx := by
  unfold layerPoint
  have h1 : (P - 1) / 2 ^ L < 2 ^ 256 :=
    lt_of_le_of_lt (Nat.div_le_self _ _) (lt_of_le_of_lt (Nat.sub_le _ _) P_lt_two_pow_256)
  have h2 : bitrev L idx < 2 ^ 256 :=
    lt_trans (bitrev_lt L idx) (Nat.pow_lt_pow_right (by norm_num) (by omega))
  rw [Felt.pow_eq _ _ h2, Felt.pow_eq _ _ h1, three_felt]

theorem layerPoint_ne_zero (L : ℕ) (hL : L ≤ 192) (idx : ℕ) : layerPoint L idx ≠ 0 := by
  rw [layerPoint_eq L hL]
  exact pow_ne_zero _ (pow_ne_zero _ three_ne_zero)

/-- coset layout of the layer domain (hypothesis `hpt` of `next_layer_step`) -/
theorem layerPoint_coset (k L : ℕ) (hk4 : k ≤ 4) (hkL : k ≤ L) (hL : L ≤ 192) (c i : ℕ)
    (hi : i < 2 ^ k) :
    layerPoint L (c * 2 ^ k + i) = layerPoint L (c * 2 ^ k) * friGroup.getD i 0 := by
  have h := domain_layout k (L - k) hk4 (by omega) 1 c i hi
  rw [show k + (L - k) = L by omega] at h
  rw [layerPoint_eq L hL, layerPoint_eq L hL]
  simpa using h

/-- the next layer's points are the `2^k`-th powers of the coset representatives -/
theorem layerPoint_next (k L : ℕ) (hkL : k ≤ L) (hL : L ≤ 192) (c : ℕ) :
    layerPoint (L - k) c = layerPoint L (c * 2 ^ k) ^ 2 ^ k := by
  have h := domain_layout_next k (L - k) (by omega) 1 c
  rw [show k + (L - k) = L by omega] at h
  rw [layerPoint_eq L hL, layerPoint_eq (L - k) (by omega)]
  simpa using h.symm

/-! ### `cosetIdx` -/

theorem cosetIdx_mem (n : ℕ) (Q : List ℕ) : ∀ c, c ∈ cosetIdx n Q ↔ ∃ q ∈ Q, q / n = c := by
  induction Q with
  | nil => simp [cosetIdx]
  | cons q qs ih =>
    intro c
    simp only [cosetIdx]
    split
    · next c0 tl heq =>
      split
      · next hc0 =>
        rw [ih]
        simp only [List.mem_cons, exists_eq_or_imp]
        constructor
        · intro h; exact Or.inr h
        · rintro (h | h)
          · refine (ih c).mp ?_
            rw [← h, ← hc0, heq]; exact List.mem_cons_self ..
          · exact h
      · rw [List.mem_cons, ih]
        simp only [List.mem_cons, exists_eq_or_imp]
        constructor
        · rintro (h | h)
          · exact Or.inl h.symm
          · exact Or.inr h
        · rintro (h | h)
          · exact Or.inl h.symm
          · exact Or.inr h
    · next heq =>
      rw [heq] at ih
      simp only [List.mem_cons, exists_eq_or_imp, List.not_mem_nil, or_false]
      constructor
      · intro h; exact Or.inl h.symm
      · rintro (h | h)
        · exact h.symm
        · exact absurd ((ih c).mpr h) (by simp)

theorem cosetIdx_pairwise (n : ℕ) (Q : List ℕ) (hQ : Q.Pairwise (· < ·)) :
    (cosetIdx n Q).Pairwise (· < ·) := by
  induction Q with
  | nil => simp [cosetIdx]
  | cons q qs ih =>
    have hqs := (List.pairwise_cons.mp hQ)
    have ih' := ih hqs.2
    have hmem := cosetIdx_mem n qs
    simp only [cosetIdx]
    split
    · next c0 tl heq =>
      split
      · exact ih'
      · next hne =>
        rw [List.pairwise_cons]
        refine ⟨?_, ih'⟩
        rw [heq] at ih' hmem ⊢
        have hc0 : q / n < c0 := by
          obtain ⟨q', hq', hq'c⟩ := (hmem c0).mp (List.mem_cons_self ..)
          have : q / n ≤ q' / n := Nat.div_le_div_right (le_of_lt (hqs.1 q' hq'))
          omega
        intro x hx
        rcases List.mem_cons.mp hx with rfl | hx
        · exact hc0
        · exact lt_trans hc0 ((List.pairwise_cons.mp ih').1 x hx)
    · simp

theorem cosetIdx_ne_nil (n : ℕ) (Q : List ℕ) (hQ : Q ≠ []) : cosetIdx n Q ≠ [] := by
  obtain ⟨q, hq⟩ := List.exists_mem_of_ne_nil Q hQ
  intro h
  have := (cosetIdx_mem n Q (q / n)).mpr ⟨q, hq, rfl⟩
  rw [h] at this
  simp at this

theorem cosetIdx_lt (k L : ℕ) (hkL : k ≤ L) (Q : List ℕ) (hQ : ∀ q ∈ Q, q < 2 ^ L) :
    ∀ c ∈ cosetIdx (2 ^ k) Q, c < 2 ^ (L - k) := by
  intro c hc
  obtain ⟨q, hq, rfl⟩ := (cosetIdx_mem _ Q c).mp hc
  have := hQ q hq
  rw [Nat.div_lt_iff_lt_mul (by positivity), ← pow_add, show L - k + k = L by omega]
  exact this

end Swiftness.Proofs.FriComplete
