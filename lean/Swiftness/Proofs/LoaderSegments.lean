/-
  C19 helpers: memory segments are the file's entries permuted into builtin order.
-/
import Swiftness.Proofs.LoaderBasic

namespace Swiftness.Loader
open Swiftness

/-- two disjoint classes: filtering them separately and concatenating is a permutation of filtering their union -/
theorem filter_append_perm_of_disjoint {α} (p q : α → Bool) :
    ∀ (l : List α), (∀ a ∈ l, ¬ (p a = true ∧ q a = true)) →
      (l.filter p ++ l.filter q).Perm (l.filter fun a => p a || q a)
  | [], _ => by simp
  | a :: t, h => by
    have ih := filter_append_perm_of_disjoint p q t (fun b hb => h b (List.mem_cons_of_mem _ hb))
    have ha := h a List.mem_cons_self
    cases hp : p a <;> cases hq : q a
    · simpa [List.filter_cons, hp, hq] using ih
    · simp only [List.filter_cons, hp, hq, Bool.false_eq_true, ↓reduceIte, Bool.or_true]
      exact List.perm_middle.trans (ih.cons a)
    · simp only [List.filter_cons, hp, hq, Bool.false_eq_true, ↓reduceIte, Bool.or_false,
        List.cons_append]
      exact ih.cons a
    · exact absurd ⟨hp, hq⟩ ha

/-- grouping by the names of a duplicate-free list -/
theorem group_perm (segs : List RawSegment) : ∀ (names : List String), names.Nodup →
    (names.flatMap fun b => segs.filter (·.name = b)).Perm (segs.filter fun s => names.contains s.name)
  | [], _ => by simp
  | b :: bs, hnd => by
    have hnd' := List.nodup_cons.1 hnd
    have ih := group_perm segs bs hnd'.2
    rw [List.flatMap_cons]
    refine (List.Perm.append_left _ ih).trans ?_
    refine (filter_append_perm_of_disjoint _ _ segs ?_).trans ?_
    · intro s _ ⟨h1, h2⟩
      have h1' : s.name = b := by simpa using h1
      have h2' : s.name ∈ bs := by simpa using h2
      exact hnd'.1 (h1' ▸ h2')
    · apply List.Perm.of_eq
      congr 1

theorem builtinOrder_nodup : builtinOrder.Nodup := by decide

/-- position of a segment in the verifier's fixed order -/
def builtinIndex (s : RawSegment) : Nat := builtinOrder.idxOf s.name

theorem builtinOrder_strict :
    builtinOrder.Pairwise (fun a b => builtinOrder.idxOf a < builtinOrder.idxOf b) := by decide

/-- `sortSegments` succeeds iff every name is a builtin name, and then the result is the explicit grouping,
    a permutation of the input, sorted by builtin index. -/
theorem sortSegments_ok {segs out : List RawSegment} (h : sortSegments segs = .ok out) :
    (∀ s ∈ segs, s.name ∈ builtinOrder) ∧
    out = builtinOrder.flatMap (fun b => segs.filter (·.name = b)) ∧
    out.Perm segs ∧
    out.Pairwise (fun a b => builtinIndex a ≤ builtinIndex b) := by
  unfold sortSegments at h
  split at h
  · rename_i hall
    cases h
    have hmem : ∀ s ∈ segs, s.name ∈ builtinOrder := by
      intro s hs
      have := List.all_eq_true.1 hall s hs
      simpa using this
    refine ⟨hmem, rfl, ?_, ?_⟩
    · refine (group_perm segs builtinOrder builtinOrder_nodup).trans (List.Perm.of_eq ?_)
      rw [List.filter_eq_self]
      intro s hs
      simpa using hmem s hs
    · rw [List.pairwise_flatMap]
      constructor
      · intro b _
        rw [List.pairwise_iff_forall_sublist]
        intro x y hxy
        have hx : x.name = b := by
          have := hxy.subset (List.mem_cons_self)
          simpa using (List.mem_filter.1 this).2
        have hy : y.name = b := by
          have := hxy.subset (List.mem_cons_of_mem _ List.mem_cons_self)
          simpa using (List.mem_filter.1 this).2
        simp [builtinIndex, hx, hy]
      · refine builtinOrder_strict.imp ?_
        intro a b hab x hx y hy
        have hx' : x.name = a := by simpa using (List.mem_filter.1 hx).2
        have hy' : y.name = b := by simpa using (List.mem_filter.1 hy).2
        simp only [builtinIndex, hx', hy']
        exact Nat.le_of_lt hab
  · cases h

theorem sortSegments_error {segs : List RawSegment} {s : RawSegment} (hs : s ∈ segs)
    (hn : s.name ∉ builtinOrder) : ∃ e, sortSegments segs = .error e := by
  unfold sortSegments
  split
  · rename_i hall
    have := List.all_eq_true.1 hall s hs
    exact absurd (by simpa using this) hn
  · exact ⟨_, rfl⟩

end Swiftness.Loader
