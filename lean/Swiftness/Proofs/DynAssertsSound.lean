/-
  Soundness of the syntactic checker `DynAsserts.guardsOK` (`Model/DynAssertsCheck.lean`): a list of
  guarded assertions it accepts is evaluated by `DynAsserts.check` without ever reaching the
  `DynAsserts.floor_div` panic site, for all dynamic parameters that are `u64` values and every trace
  length.  Also: general facts about `check` (membership: an accepted list makes each of its active
  assertions hold).  Core Lean only (no Mathlib needed).
-/
import Swiftness.Model.DynAssertsCheck

namespace Swiftness.DynAsserts

/-! ### small facts about the field representatives -/

theorem two_pow_128_lt_P : 2 ^ 128 < P := by decide +kernel

theorem ofNat_val (n : Nat) : (Felt.ofNat n).val = n % P := rfl

theorem ofNat_val_of_lt {n : Nat} (h : n < P) : (Felt.ofNat n).val = n := by
  rw [ofNat_val, Nat.mod_eq_of_lt h]

theorem isPow2_ne_zero {n : Nat} (h : isPow2 n = true) : n ≠ 0 := by
  unfold isPow2 at h
  intro h0
  subst h0
  simp at h

/-! ### guards -/

/-- the guard `g` lets the assertion run -/
def activeG (dp : Array Nat) : Option Nat → Bool
  | none => true
  | some j => dpAt dp j != 0

theorem active_eq (dp : Array Nat) (a : Assert) : active dp a = activeG dp a.guard := by
  unfold active activeG
  cases a.guard <;> rfl

theorem usable_active {dp : Array Nat} {g' g : Option Nat} (hu : usable g' g = true)
    (hg : activeG dp g = true) : activeG dp g' = true := by
  unfold usable at hu
  simp only [Bool.or_eq_true, beq_iff_eq] at hu
  rcases hu with h | h
  · subst h; rfl
  · subst h; exact hg

/-! ### the semantic reading of a knowledge list -/

/-- every recorded pair `(g, e)`: when `g` lets assertions run, `e` evaluates to a non-zero value -/
def KOK (dp : Array Nat) (tl : Felt) (K : Knowledge) : Prop :=
  ∀ k ∈ K, activeG dp k.1 = true → ∃ x, eval dp tl k.2 = .ok x ∧ x.val ≠ 0

theorem KOK_nil (dp : Array Nat) (tl : Felt) : KOK dp tl [] := by
  intro k hk; cases hk

theorem KOK_cons {dp : Array Nat} {tl : Felt} {K : Knowledge} {g : Option Nat} {e : AExpr}
    (h : activeG dp g = true → ∃ x, eval dp tl e = .ok x ∧ x.val ≠ 0) (hK : KOK dp tl K) :
    KOK dp tl ((g, e) :: K) := by
  intro k hk
  rcases List.mem_cons.mp hk with rfl | hk
  · exact h
  · exact hK k hk

theorem known_sound {dp : Array Nat} {tl : Felt} {K : Knowledge} (hK : KOK dp tl K) {g : Option Nat}
    {e : AExpr} (h : known K g e = true) (hg : activeG dp g = true) :
    ∃ x, eval dp tl e = .ok x ∧ x.val ≠ 0 := by
  unfold known at h
  obtain ⟨k, hk, hk2⟩ := List.any_eq_true.mp h
  simp only [Bool.and_eq_true, beq_iff_eq] at hk2
  obtain ⟨hu, he⟩ := hk2
  subst he
  exact hK k hk (usable_active hu hg)

/-- rule (iii): a small non-zero constant times a non-zero `u64` parameter is non-zero in the field -/
theorem mul_lit_dp_ne_zero {dp : Array Nat} (hdp : ∀ i, dp.getD i 0 < 2 ^ 64) {c i : Nat}
    (hc0 : 0 < c) (hc : c < 2 ^ 64) (hnz : (dpAt dp i).val ≠ 0) :
    (Felt.ofNat c * dpAt dp i).val ≠ 0 ∧ (dpAt dp i * Felt.ofNat c).val ≠ 0 := by
  have hP := two_pow_128_lt_P
  have hd := hdp i
  have hcP : c < P := by omega
  have hdP : dp.getD i 0 < P := by omega
  have hdv : (dpAt dp i).val = dp.getD i 0 := ofNat_val_of_lt hdP
  have hcv : (Felt.ofNat c).val = c := ofNat_val_of_lt hcP
  rw [hdv] at hnz
  have hprod : c * dp.getD i 0 < 2 ^ 128 := by
    calc c * dp.getD i 0 < 2 ^ 64 * 2 ^ 64 := Nat.mul_lt_mul'' hc hd
      _ = 2 ^ 128 := by decide
  have hpos : 0 < c * dp.getD i 0 := Nat.mul_pos hc0 (Nat.pos_of_ne_zero hnz)
  constructor
  · rw [Fin.val_mul, hdv, hcv, Nat.mod_eq_of_lt (by omega)]; omega
  · rw [Fin.val_mul, hdv, hcv, Nat.mul_comm, Nat.mod_eq_of_lt (by omega)]; omega

theorem eval_dp (dp : Array Nat) (tl : Felt) (i : Nat) : eval dp tl (.dp i) = .ok (dpAt dp i) := rfl
theorem eval_lit (dp : Array Nat) (tl : Felt) (c : Nat) : eval dp tl (.lit c) = .ok (Felt.ofNat c) := rfl

theorem known_dp {dp : Array Nat} {tl : Felt} {K : Knowledge} (hK : KOK dp tl K) {g : Option Nat}
    {i : Nat} (h : known K g (.dp i) = true) (hg : activeG dp g = true) : (dpAt dp i).val ≠ 0 := by
  obtain ⟨x, hx, hnz⟩ := known_sound hK h hg
  rw [eval_dp] at hx
  cases hx
  exact hnz

theorem nzOK_sound {dp : Array Nat} (hdp : ∀ i, dp.getD i 0 < 2 ^ 64) {tl : Felt} {K : Knowledge}
    (hK : KOK dp tl K) {g : Option Nat} {b : AExpr} (h : nzOK K g b = true)
    (hg : activeG dp g = true) : ∃ x, eval dp tl b = .ok x ∧ x.val ≠ 0 := by
  unfold nzOK at h
  split at h
  · next c =>
    refine ⟨Felt.ofNat c, rfl, ?_⟩
    rw [ofNat_val]
    simpa using h
  · next c i =>
    simp only [Bool.or_eq_true, Bool.and_eq_true, decide_eq_true_eq] at h
    rcases h with h | ⟨⟨hc0, hc⟩, hk⟩
    · exact known_sound hK h hg
    · refine ⟨Felt.ofNat c * dpAt dp i, ?_, (mul_lit_dp_ne_zero hdp hc0 hc (known_dp hK hk hg)).1⟩
      simp only [eval]
  · next i c =>
    simp only [Bool.or_eq_true, Bool.and_eq_true, decide_eq_true_eq] at h
    rcases h with h | ⟨⟨hc0, hc⟩, hk⟩
    · exact known_sound hK h hg
    · refine ⟨dpAt dp i * Felt.ofNat c, ?_, (mul_lit_dp_ne_zero hdp hc0 hc (known_dp hK hk hg)).2⟩
      simp only [eval]
  · exact known_sound hK h hg

/-! ### evaluation of an expression whose divisors are all justified -/

theorem eval_fdiv_ok {dp : Array Nat} {tl : Felt} {a b : AExpr} {x y : Felt}
    (ha : eval dp tl a = .ok x) (hb : eval dp tl b = .ok y) (hy : y.val ≠ 0) :
    eval dp tl (.fdiv a b) = .ok (Felt.ofNat (x.val / y.val)) := by
  simp only [eval, ha, hb, if_neg hy]

theorem divsOK_sound {dp : Array Nat} (hdp : ∀ i, dp.getD i 0 < 2 ^ 64) {tl : Felt} {K : Knowledge}
    (hK : KOK dp tl K) {g : Option Nat} (hg : activeG dp g = true) :
    ∀ e : AExpr, divsOK K g e = true → ∃ x, eval dp tl e = .ok x
  | .tlen, _ => ⟨tl, rfl⟩
  | .dp i, _ => ⟨dpAt dp i, rfl⟩
  | .lit c, _ => ⟨Felt.ofNat c, rfl⟩
  | .add a b, h => by
    simp only [divsOK, Bool.and_eq_true] at h
    obtain ⟨x, hx⟩ := divsOK_sound hdp hK hg a h.1
    obtain ⟨y, hy⟩ := divsOK_sound hdp hK hg b h.2
    exact ⟨x + y, by simp only [eval, hx, hy]⟩
  | .sub a b, h => by
    simp only [divsOK, Bool.and_eq_true] at h
    obtain ⟨x, hx⟩ := divsOK_sound hdp hK hg a h.1
    obtain ⟨y, hy⟩ := divsOK_sound hdp hK hg b h.2
    exact ⟨x - y, by simp only [eval, hx, hy]⟩
  | .mul a b, h => by
    simp only [divsOK, Bool.and_eq_true] at h
    obtain ⟨x, hx⟩ := divsOK_sound hdp hK hg a h.1
    obtain ⟨y, hy⟩ := divsOK_sound hdp hK hg b h.2
    exact ⟨x * y, by simp only [eval, hx, hy]⟩
  | .fdiv a b, h => by
    simp only [divsOK, Bool.and_eq_true] at h
    obtain ⟨x, hx⟩ := divsOK_sound hdp hK hg a h.1.1
    obtain ⟨y, hy, hnz⟩ := nzOK_sound hdp hK h.2 hg
    exact ⟨_, eval_fdiv_ok hx hy hnz⟩

/-- inversion of a successful `floor_div` -/
theorem eval_fdiv_inv {dp : Array Nat} {tl : Felt} {a b : AExpr} {z : Felt}
    (h : eval dp tl (.fdiv a b) = .ok z) :
    ∃ x y, eval dp tl a = .ok x ∧ eval dp tl b = .ok y ∧ y.val ≠ 0 ∧ z = Felt.ofNat (x.val / y.val) := by
  cases ha : eval dp tl a with
  | ok x =>
    cases hb : eval dp tl b with
    | ok y =>
      simp only [eval, ha, hb] at h
      split at h
      · cases h
      · next hnz => cases h; exact ⟨x, y, rfl, rfl, hnz, rfl⟩
    | err e => simp only [eval, ha, hb] at h; cases h
    | panic s => simp only [eval, ha, hb] at h; cases h
  | err e => simp only [eval, ha] at h; cases h
  | panic s => simp only [eval, ha] at h; cases h

/-! ### learning from a passed assertion -/

theorem learn_sound {u : Nat} {dp : Array Nat} {tl : Felt} {K : Knowledge} (hK : KOK dp tl K)
    {a : Assert} {x : Felt} (hx : eval dp tl a.e = .ok x) (hh : holds u a.kind x = true) :
    KOK dp tl (learn K a) := by
  unfold learn
  split
  · next hk =>
    rw [hk] at hh
    have hxnz : x.val ≠ 0 := isPow2_ne_zero hh
    split
    · next p q he =>
      rw [he] at hx
      obtain ⟨xp, xq, hp, hq, hqnz, hz⟩ := eval_fdiv_inv hx
      refine KOK_cons (fun _ => ⟨xp, hp, ?_⟩) (KOK_cons (fun _ => ⟨x, he ▸ hx, hxnz⟩) hK)
      intro h0
      apply hxnz
      rw [hz, h0, Nat.zero_div]
      rfl
    · exact KOK_cons (fun _ => ⟨x, hx, hxnz⟩) hK
  · exact hK

/-! ### main theorem -/

theorem guardsFrom_sound (u : Nat) (dp : Array Nat) (hdp : ∀ i, dp.getD i 0 < 2 ^ 64) (tl : Felt) :
    ∀ (l : List Assert) (K : Knowledge), KOK dp tl K → (guardsFrom K l).isSome = true →
      (check u dp tl l).isPanic = false
  | [], _, _, _ => rfl
  | a :: rest, K, hK, h => by
    unfold guardsFrom at h
    split at h
    · next hd =>
      unfold check
      split
      · next hact =>
        rw [active_eq] at hact
        obtain ⟨x, hx⟩ := divsOK_sound hdp hK hact a.e hd
        rw [hx]
        dsimp only
        split
        · next hh => exact guardsFrom_sound u dp hdp tl rest _ (learn_sound hK hx hh) h
        · rfl
      · next hact =>
        -- the assertion does not run: what it would have taught is recorded under its own guard,
        -- which is off
        refine guardsFrom_sound u dp hdp tl rest (learn K a) ?_ h
        have hoff : activeG dp a.guard = false := by
          rw [← active_eq]; simpa using hact
        unfold learn
        split
        · split
          · exact KOK_cons (fun hg => by rw [hoff] at hg; cases hg)
              (KOK_cons (fun hg => by rw [hoff] at hg; cases hg) hK)
          · exact KOK_cons (fun hg => by rw [hoff] at hg; cases hg) hK
        · exact hK
    · cases h

/-- MAIN: an accepted list never reaches the `floor_div` panic site (it has no other one). -/
theorem guardsOK_sound (u : Nat) (l : List Assert) (h : guardsOK l = true) (dp : Array Nat)
    (hdp : ∀ i, dp.getD i 0 < 2 ^ 64) (tl : Felt) : (check u dp tl l).isPanic = false :=
  guardsFrom_sound u dp hdp tl l [] (KOK_nil dp tl) h

/-- streaming: the checker on an append -/
theorem guardsFrom_append (K : Knowledge) (l₁ l₂ : List Assert) :
    guardsFrom K (l₁ ++ l₂) = (guardsFrom K l₁).bind (guardsFrom · l₂) := by
  induction l₁ generalizing K with
  | nil => rfl
  | cons a rest ih =>
    simp only [List.cons_append, guardsFrom]
    split
    · exact ih _
    · rfl

/-! ### general facts about `check` -/

/-- an accepted list: every active member evaluates and holds -/
theorem check_ok_mem {u : Nat} {dp : Array Nat} {tl : Felt} :
    ∀ {l : List Assert}, check u dp tl l = .ok () → ∀ a ∈ l, active dp a = true →
      ∃ x, eval dp tl a.e = .ok x ∧ holds u a.kind x = true
  | [], _, a, ha, _ => by cases ha
  | b :: rest, h, a, ha, hact => by
    unfold check at h
    split at h
    · next hb =>
      split at h
      · next x hx =>
        split at h
        · next hh =>
          rcases List.mem_cons.mp ha with rfl | ha
          · exact ⟨x, hx, hh⟩
          · exact check_ok_mem h a ha hact
        · cases h
      · cases h
      · cases h
    · next hb =>
      rcases List.mem_cons.mp ha with rfl | ha
      · exact absurd hact hb
      · exact check_ok_mem h a ha hact

/-- conversely: if every active member evaluates and holds, the list is accepted -/
theorem check_ok_of_forall {u : Nat} {dp : Array Nat} {tl : Felt} :
    ∀ {l : List Assert}, (∀ a ∈ l, active dp a = true →
      ∃ x, eval dp tl a.e = .ok x ∧ holds u a.kind x = true) → check u dp tl l = .ok ()
  | [], _ => rfl
  | b :: rest, h => by
    have hrest := check_ok_of_forall (l := rest) (fun a ha => h a (List.mem_cons_of_mem _ ha))
    unfold check
    split
    · next hb =>
      obtain ⟨x, hx, hh⟩ := h b List.mem_cons_self hb
      rw [hx]
      simp only [hh, if_true]
      exact hrest
    · exact hrest

theorem check_ok_iff {u : Nat} {dp : Array Nat} {tl : Felt} {l : List Assert} :
    check u dp tl l = .ok () ↔ ∀ a ∈ l, active dp a = true →
      ∃ x, eval dp tl a.e = .ok x ∧ holds u a.kind x = true :=
  ⟨fun h a ha hact => check_ok_mem h a ha hact, check_ok_of_forall⟩

end Swiftness.DynAsserts
