/-
  C19 helpers: the TILING check of the annotation stream (`Loader.tiles`), for arbitrary line lists.

  * `tiles_append`            the check of a concatenation is the check of the first part, continued from its cursor;
  * `tiles_ge`, `tiles_bytes` the returned cursor is the start plus 32 bytes per value carried by the message lines;
  * `tiles_cursor_unique`     a list containing a message line is accepted from at most one cursor;
  * `removed_message_fails`, `swapped_messages_fail`, `shifted_range_fails`.
-/
import Swiftness.Proofs.LoaderBasic

namespace Swiftness.Loader
open Swiftness

/-! ### one line -/

theorem tiles_nil (a : Nat) : tiles [] a = .ok a := by
  unfold tiles; rfl

theorem tiles_cons_none {s : String} (rest : List String) (a : Nat) (hl : parseLine s = .ok none) :
    tiles (s :: rest) a = tiles rest a := by
  conv => lhs; unfold tiles
  rw [hl]

theorem tiles_cons_error {s : String} (rest : List String) (a : Nat) {e : String}
    (hl : parseLine s = .error e) : tiles (s :: rest) a = .error e := by
  conv => lhs; unfold tiles
  rw [hl]

/-- a message line is accepted only when its range is `[cursor : cursor + 32·(number of values)]` -/
theorem tiles_cons_some_ok {s : String} {rest : List String} {a n : Nat} {it : Item}
    (hl : parseLine s = .ok (some it)) (h : tiles (s :: rest) a = .ok n) :
    lineRange? s = some (a, a + 32 * it.values.length) ∧ tiles rest (a + 32 * it.values.length) = .ok n := by
  unfold tiles at h
  rw [hl] at h
  dsimp only at h
  cases hr : lineRange? s with
  | none => rw [hr] at h; cases h
  | some ab =>
    obtain ⟨x, b⟩ := ab
    rw [hr] at h
    dsimp only at h
    by_cases hc : x = a ∧ x + 32 * it.values.length = b
    · rw [if_pos hc] at h
      obtain ⟨rfl, rfl⟩ := hc
      exact ⟨rfl, h⟩
    · rw [if_neg hc] at h; cases h

/-- … and then the cursor moves to the end of the range -/
theorem tiles_cons_some_eq {s : String} (rest : List String) {a : Nat} {it : Item}
    (hl : parseLine s = .ok (some it)) (hr : lineRange? s = some (a, a + 32 * it.values.length)) :
    tiles (s :: rest) a = tiles rest (a + 32 * it.values.length) := by
  conv => lhs; unfold tiles
  rw [hl]
  dsimp only
  rw [hr]
  dsimp only
  rw [if_pos ⟨rfl, rfl⟩]

/-- a message line whose range is anything else is an error -/
theorem tiles_cons_some_error {s : String} (rest : List String) {a : Nat} {it : Item}
    (hl : parseLine s = .ok (some it)) (hr : lineRange? s ≠ some (a, a + 32 * it.values.length)) :
    ∃ e, tiles (s :: rest) a = .error e := by
  rcases ok_or_error (tiles (s :: rest) a) with ⟨n, hn⟩ | he
  · exact absurd (tiles_cons_some_ok hl hn).1 hr
  · exact he

/-! ### concatenation -/

/-- the head line first, then the rest from the cursor it leaves -/
theorem tiles_cons (s : String) (rest : List String) (a : Nat) :
    tiles (s :: rest) a = (tiles [s] a).bind (fun b => tiles rest b) := by
  cases hl : parseLine s with
  | error e => rw [tiles_cons_error rest a hl, tiles_cons_error [] a hl]; rfl
  | ok o =>
    cases o with
    | none => rw [tiles_cons_none rest a hl, tiles_cons_none [] a hl, tiles_nil]; rfl
    | some it =>
      by_cases hr : lineRange? s = some (a, a + 32 * it.values.length)
      · rw [tiles_cons_some_eq rest hl hr, tiles_cons_some_eq [] hl hr, tiles_nil]; rfl
      · obtain ⟨e, he⟩ := tiles_cons_some_error [] hl hr
        have : tiles (s :: rest) a = .error e := by
          -- the same error: both sides take the same branch of `tiles`
          conv => lhs; unfold tiles
          conv at he => lhs; unfold tiles
          rw [hl] at he ⊢
          dsimp only at he ⊢
          cases hr' : lineRange? s with
          | none => rw [hr'] at he; exact he
          | some ab =>
            obtain ⟨x, b⟩ := ab
            rw [hr'] at he
            dsimp only at he ⊢
            by_cases hc : x = a ∧ x + 32 * it.values.length = b
            · obtain ⟨rfl, rfl⟩ := hc
              exact absurd hr' hr
            · rw [if_neg hc] at he ⊢; exact he
        rw [this, he]; rfl

/-- 1. THE CHECK OF A CONCATENATION: `l1` is checked from `a`; `l2` from the cursor `l1` leaves; an error in `l1`
    is the error of the whole. -/
theorem tiles_append (l1 l2 : List String) (a : Nat) :
    tiles (l1 ++ l2) a = (tiles l1 a).bind (fun b => tiles l2 b) := by
  induction l1 generalizing a with
  | nil => rw [List.nil_append, tiles_nil]; rfl
  | cons s l1 ih =>
    rw [List.cons_append, tiles_cons s (l1 ++ l2), tiles_cons s l1]
    cases tiles [s] a with
    | error e => rfl
    | ok b => exact ih b

theorem tiles_append_ok {l1 l2 : List String} {a n : Nat} (h : tiles (l1 ++ l2) a = .ok n) :
    ∃ b, tiles l1 a = .ok b ∧ tiles l2 b = .ok n := by
  rw [tiles_append] at h
  cases h1 : tiles l1 a with
  | error e => rw [h1] at h; cases h
  | ok b => rw [h1] at h; exact ⟨b, rfl, h⟩

theorem tiles_append_of_ok {l1 : List String} (l2 : List String) {a b : Nat} (h : tiles l1 a = .ok b) :
    tiles (l1 ++ l2) a = tiles l2 b := by
  rw [tiles_append, h]; rfl

/-! ### the number of bytes covered -/

theorem item?_of_some {s : String} {it : Item} (hl : parseLine s = .ok (some it)) : item? s = some it := by
  unfold item?; rw [hl]

theorem item?_of_none {s : String} (hl : parseLine s = .ok none) : item? s = none := by
  unfold item?; rw [hl]

/-- 2a. the cursor never moves backwards -/
theorem tiles_ge {l : List String} {a n : Nat} (h : tiles l a = .ok n) : a ≤ n := by
  induction l generalizing a with
  | nil => rw [tiles_nil] at h; cases h; exact Nat.le_refl _
  | cons s l ih =>
    cases hl : parseLine s with
    | error e => rw [tiles_cons_error l a hl] at h; cases h
    | ok o =>
      cases o with
      | none => rw [tiles_cons_none l a hl] at h; exact ih h
      | some it =>
        have := ih (tiles_cons_some_ok hl h).2
        omega

/-- 2b. THE BYTES COVERED: an accepted list moves the cursor by exactly 32 bytes per value carried by its prover
    messages (`filterMap item?` = the messages, in stream order). -/
theorem tiles_bytes {l : List String} {a n : Nat} (h : tiles l a = .ok n) :
    n = a + 32 * ((l.filterMap item?).map (·.values.length)).sum := by
  induction l generalizing a with
  | nil => rw [tiles_nil] at h; cases h; simp
  | cons s l ih =>
    cases hl : parseLine s with
    | error e => rw [tiles_cons_error l a hl] at h; cases h
    | ok o =>
      cases o with
      | none =>
        rw [tiles_cons_none l a hl] at h
        rw [List.filterMap_cons_none (item?_of_none hl)]
        exact ih h
      | some it =>
        have := ih (tiles_cons_some_ok hl h).2
        rw [List.filterMap_cons_some (item?_of_some hl), List.map_cons, List.sum_cons]
        omega

/-! ### the cursor is determined by the first message line -/

/-- A list that contains a prover message is accepted from AT MOST ONE cursor: its first message line carries its
    start byte. -/
theorem tiles_cursor_unique {l : List String} {a a' n n' : Nat} (h : tiles l a = .ok n) (h' : tiles l a' = .ok n')
    (hm : ∃ t it, t ∈ l ∧ parseLine t = .ok (some it)) : a = a' := by
  induction l generalizing a a' with
  | nil => obtain ⟨t, _, ht, _⟩ := hm; cases ht
  | cons s l ih =>
    cases hl : parseLine s with
    | error e => rw [tiles_cons_error l a hl] at h; cases h
    | ok o =>
      cases o with
      | none =>
        rw [tiles_cons_none l a hl] at h
        rw [tiles_cons_none l a' hl] at h'
        refine ih h h' ?_
        obtain ⟨t, it, ht, hp⟩ := hm
        rcases List.mem_cons.1 ht with rfl | ht
        · rw [hl] at hp; cases hp
        · exact ⟨t, it, ht, hp⟩
      | some it =>
        have h1 := (tiles_cons_some_ok hl h).1
        have h2 := (tiles_cons_some_ok hl h').1
        rw [h1] at h2
        injection h2 with h2
        injection h2

/-! ### removal, swap, shifted range -/

/-- 3. A REMOVED MESSAGE LINE (carrying at least one value) is detected by the tiling whenever a later message
    line exists: that line would have to start where the removed one started.

    (The hypothesis on `l2` needs only *a message line*, with or without values.  When `s` is the LAST message
    of the stream its removal is NOT detectable by the tiling alone — the remaining lines tile a shorter proof;
    `tiles_bytes` says by how much shorter — so this is not claimed.) -/
theorem removed_message_fails {l1 l2 : List String} {s : String} {a n : Nat} {it : Item}
    (h : tiles (l1 ++ s :: l2) a = .ok n) (hl : parseLine s = .ok (some it)) (hv : it.values ≠ [])
    (hm : ∃ t it', t ∈ l2 ∧ parseLine t = .ok (some it')) :
    ∃ e, tiles (l1 ++ l2) a = .error e := by
  rcases ok_or_error (tiles (l1 ++ l2) a) with ⟨m, hm'⟩ | he
  · exfalso
    obtain ⟨b, hb, h2⟩ := tiles_append_ok h
    obtain ⟨b', hb', h2'⟩ := tiles_append_ok hm'
    rw [hb] at hb'; cases hb'
    have h3 := (tiles_cons_some_ok hl h2).2
    have := tiles_cursor_unique h2' h3 hm
    have hlen : 0 < it.values.length := List.length_pos_iff.mpr hv
    omega
  · exact he

/-- 4. TWO ADJACENT MESSAGE LINES SWAPPED: if `… s t …` tiles, `… t s …` does not (`s` carries at least one value;
    `t` is any message line). -/
theorem swapped_messages_fail {l1 l2 : List String} {s t : String} {a n : Nat} {is it : Item}
    (h : tiles (l1 ++ s :: t :: l2) a = .ok n) (hs : parseLine s = .ok (some is)) (hv : is.values ≠ [])
    (ht : parseLine t = .ok (some it)) :
    ∃ e, tiles (l1 ++ t :: s :: l2) a = .error e := by
  rcases ok_or_error (tiles (l1 ++ t :: s :: l2) a) with ⟨m, hm'⟩ | he
  · exfalso
    obtain ⟨b, hb, h2⟩ := tiles_append_ok h
    obtain ⟨b', hb', h2'⟩ := tiles_append_ok hm'
    rw [hb] at hb'; cases hb'
    obtain ⟨_, h3⟩ := tiles_cons_some_ok hs h2
    have r1 := (tiles_cons_some_ok ht h3).1
    have r2 := (tiles_cons_some_ok ht h2').1
    rw [r1] at r2
    injection r2 with r2
    injection r2 with r2
    have hlen : 0 < is.values.length := List.length_pos_iff.mpr hv
    omega
  · exact he

/-- acceptance of a message line in context pins its range: it is `[b : b + 32·k]` where `b` is the cursor the
    preceding lines leave and `k` the number of values of the line -/
theorem tiles_range_forced {l1 l2 : List String} {s : String} {a n : Nat} {it : Item}
    (h : tiles (l1 ++ s :: l2) a = .ok n) (hl : parseLine s = .ok (some it)) :
    ∃ b, tiles l1 a = .ok b ∧ lineRange? s = some (b, b + 32 * it.values.length) := by
  obtain ⟨b, hb, h2⟩ := tiles_append_ok h
  exact ⟨b, hb, (tiles_cons_some_ok hl h2).1⟩

/-- 5. A SHIFTED RANGE: replace an accepted message line `s` by a message line `s'` carrying the same number of
    values but a different range — the stream no longer tiles. -/
theorem shifted_range_fails {l1 l2 : List String} {s s' : String} {a n : Nat} {it it' : Item}
    (h : tiles (l1 ++ s :: l2) a = .ok n) (hl : parseLine s = .ok (some it))
    (hl' : parseLine s' = .ok (some it')) (hk : it'.values.length = it.values.length)
    (hr : lineRange? s' ≠ lineRange? s) :
    ∃ e, tiles (l1 ++ s' :: l2) a = .error e := by
  rcases ok_or_error (tiles (l1 ++ s' :: l2) a) with ⟨m, hm'⟩ | he
  · exfalso
    obtain ⟨b, hb, r⟩ := tiles_range_forced h hl
    obtain ⟨b', hb', r'⟩ := tiles_range_forced hm' hl'
    rw [hb] at hb'; cases hb'
    rw [hk, ← r] at r'
    exact hr r'
  · exact he

end Swiftness.Loader
