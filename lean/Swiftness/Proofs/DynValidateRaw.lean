/-
  C14 (dynamic layout) helper lemmas, part 1: the model's `validate_public_input`
  (`Model/LayoutDynamic.lean`) as a conjunction of its own tests.  Core Lean only.
-/
import Swiftness.Model.LayoutDynamic

namespace Swiftness.DynData
open Swiftness LayoutData

/-- the three budget sums of the model (field arithmetic) -/
def memSum (D : DynData) (pi : PublicInput) (mu : Felt) (cs : List Felt) : Felt :=
  Felt.ofNat 4 * Felt.pow 2 pi.logNSteps.val +
    Felt.ofNat (mu.val / (Felt.ofNat (D.base.constD "PUBLIC_MEMORY_FRACTION")).val) +
    dot [3, 1, 2, 5, 7, 16, 6, 1, 7, 7] cs

def rcSum (pi : PublicInput) (cs : List Felt) : Felt :=
  Felt.ofNat 3 * Felt.pow 2 pi.logNSteps.val + Felt.ofNat 8 * cs.getD 1 0 + Felt.ofNat 6 * cs.getD 7 0 +
    Felt.ofNat 66 * cs.getD 9 0

def dSum (cs : List Felt) : Felt := Felt.ofNat 68 * cs.getD 3 0 + Felt.ofNat 16384 * cs.getD 5 0

/-- the tests of `validate_public_input`, in source order, for a given parameter array -/
def RawOK (D : DynData) (pi : PublicInput) (d : StarkDomains) (dp : Array Nat) : Prop :=
  pi.logNSteps.val < D.base.MAX_LOG_N_STEPS ∧
  Felt.pow 2 pi.logNSteps.val * Felt.ofNat (D.base.constD "CPU_COMPONENT_HEIGHT") * D.dpf dp "cpu_component_step" =
    d.traceDomainSize ∧
  pi.segments.length = D.base.constD "SEG_N_SEGMENTS" ∧
  pi.rangeCheckMin.val < pi.rangeCheckMax.val ∧
  pi.rangeCheckMax.val ≤ D.base.MAX_RANGE_CHECK ∧
  pi.layout = Felt.ofNat (D.base.constD "LAYOUT_CODE") ∧
  (∃ out, seg? pi (D.base.constD "SEG_OUTPUT") = some out ∧ (out.stopPtr - out.beginAddr).val ≤ U128_MAX) ∧
  ∃ cs, D.allCopies pi dp d.traceDomainSize builtinTable = .ok cs ∧
  ∃ mu, fieldDivTry d.traceDomainSize (D.dpf dp "memory_units_row_ratio") = .ok mu ∧
    Felt.ofNat (D.base.constD "PUBLIC_MEMORY_FRACTION") ≠ 0 ∧
    (memSum D pi mu cs).val ≤ mu.val ∧
  ∃ ru, fieldDivTry d.traceDomainSize (D.dpf dp "range_check_units_row_ratio") = .ok ru ∧
    (rcSum pi cs).val ≤ ru.val ∧
  ∃ du, fieldDivTry d.traceDomainSize (D.dpf dp "diluted_units_row_ratio") = .ok du ∧
    (dSum cs).val ≤ du.val ∧
  DynAsserts.check D.usizeMax dp d.traceDomainSize D.asserts = .ok ()

theorem validate_ok_raw (D : DynData) (pi : PublicInput) (d : StarkDomains) :
    D.validatePublicInput pi d = .ok () ↔ ∃ dpl, pi.dynamicParams = some dpl ∧ RawOK D pi d dpl.toArray := by
  constructor
  · intro h
    unfold validatePublicInput at h
    split at h
    · cases h
    next dpl hdpl =>
    refine ⟨dpl, hdpl, ?_⟩
    unfold RawOK memSum rcSum dSum
    generalize builtinTable = bt at h ⊢
    dsimp only at h
    by_cases c1 : ¬ (pi.logNSteps.val < D.base.MAX_LOG_N_STEPS)
    · rw [if_pos c1] at h; cases h
    rw [if_neg c1] at h
    by_cases c2 : Felt.pow 2 pi.logNSteps.val * Felt.ofNat (D.base.constD "CPU_COMPONENT_HEIGHT") * D.dpf dpl.toArray "cpu_component_step" ≠ d.traceDomainSize
    · rw [if_pos c2] at h; cases h
    rw [if_neg c2] at h
    by_cases c3 : pi.segments.length ≠ D.base.constD "SEG_N_SEGMENTS"
    · rw [if_pos c3] at h; cases h
    rw [if_neg c3] at h
    by_cases c4 : ¬ (pi.rangeCheckMin.val < pi.rangeCheckMax.val)
    · rw [if_pos c4] at h; cases h
    rw [if_neg c4] at h
    by_cases c5 : ¬ (pi.rangeCheckMax.val ≤ D.base.MAX_RANGE_CHECK)
    · rw [if_pos c5] at h; cases h
    rw [if_neg c5] at h
    by_cases c6 : pi.layout ≠ Felt.ofNat (D.base.constD "LAYOUT_CODE")
    · rw [if_pos c6] at h; cases h
    rw [if_neg c6] at h
    cases hout : seg? pi (D.base.constD "SEG_OUTPUT") with
    | none => rw [hout] at h; cases h
    | some out =>
    rw [hout] at h; dsimp only at h
    by_cases c7 : ¬ ((out.stopPtr - out.beginAddr).val ≤ U128_MAX)
    · rw [if_pos c7] at h; cases h
    rw [if_neg c7] at h
    cases hcs : D.allCopies pi dpl.toArray d.traceDomainSize bt with
    | err e => rw [hcs] at h; cases h
    | panic s' => rw [hcs] at h; cases h
    | ok cs =>
    rw [hcs] at h; dsimp only at h
    cases hmu : fieldDivTry d.traceDomainSize (D.dpf dpl.toArray "memory_units_row_ratio") with
    | err e => rw [hmu] at h; cases h
    | panic s' => rw [hmu] at h; cases h
    | ok mu =>
    rw [hmu] at h; dsimp only at h
    by_cases c8 : Felt.ofNat (D.base.constD "PUBLIC_MEMORY_FRACTION") = 0
    · rw [if_pos c8] at h; cases h
    rw [if_neg c8] at h
    split at h
    · cases h
    next c9 =>
    cases hru : fieldDivTry d.traceDomainSize (D.dpf dpl.toArray "range_check_units_row_ratio") with
    | err e => rw [hru] at h; cases h
    | panic s' => rw [hru] at h; cases h
    | ok ru =>
    rw [hru] at h; dsimp only at h
    split at h
    · cases h
    next c10 =>
    cases hdu : fieldDivTry d.traceDomainSize (D.dpf dpl.toArray "diluted_units_row_ratio") with
    | err e => rw [hdu] at h; cases h
    | panic s' => rw [hdu] at h; cases h
    | ok du =>
    rw [hdu] at h; dsimp only at h
    split at h
    · cases h
    next c11 =>
    exact ⟨Decidable.not_not.mp c1, Decidable.not_not.mp c2, Decidable.not_not.mp c3, Decidable.not_not.mp c4,
      Decidable.not_not.mp c5, Decidable.not_not.mp c6, ⟨out, rfl, Decidable.not_not.mp c7⟩,
      cs, rfl, mu, rfl, c8, Decidable.not_not.mp c9, ru, rfl, Decidable.not_not.mp c10, du, rfl,
      Decidable.not_not.mp c11, h⟩
  · rintro ⟨dpl, hdpl, c1, c2, c3, c4, c5, c6, ⟨out, hout, c7⟩, cs, hcs, mu, hmu, c8, c9, ru, hru, c10,
      du, hdu, c11, hC⟩
    unfold memSum at c9
    unfold rcSum at c10
    unfold dSum at c11
    unfold validatePublicInput
    rw [hdpl]
    generalize builtinTable = bt at hcs ⊢
    dsimp only
    rw [if_neg (not_not_intro c1), if_neg (not_not_intro c2), if_neg (not_not_intro c3),
      if_neg (not_not_intro c4), if_neg (not_not_intro c5), if_neg (not_not_intro c6), hout]
    dsimp only
    rw [if_neg (not_not_intro c7), hcs]
    dsimp only
    rw [hmu]
    dsimp only
    rw [if_neg c8, if_neg (not_not_intro c9), hru]
    dsimp only
    rw [if_neg (not_not_intro c10), hdu]
    dsimp only
    rw [if_neg (not_not_intro c11)]
    exact hC

end Swiftness.DynData
