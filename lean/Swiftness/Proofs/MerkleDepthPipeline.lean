/-
  Recursion depth of the Merkle walk, part 3: every walk started by `Stark.verifyPhase` (three trace /
  composition tables, one table per FRI inner layer) makes at most `1 + 48 * 87` recursive calls, for an
  accepted configuration and queries drawn by `Queries.generateQueries` on the evaluation domain —
  whatever the witness (authentication vectors, leaves, row values) looks like.
-/
import Swiftness.Proofs.MerkleDepth
import Swiftness.Proofs.FriSoundSorted
import Swiftness.Proofs.PipelineMain
import Swiftness.Proofs.TamperMain

namespace Swiftness.Proofs.MerkleDepth
open Swiftness Swiftness.Fri Swiftness.Spec

variable {H : Hashes}

/-! ### a FRI layer never has more coset indices than queries -/

theorem nextLayerLoop_length (n e : Felt) : ∀ (fuel : ℕ) (qs : List LayerQuery) (sibs : List Felt)
    (nq : List LayerQuery) (vi vy : List Felt) (r : NextLayer),
    nextLayerLoop n e fuel qs sibs nq vi vy = .ok r → r.verifyIndices.length + 1 ≤ vi.length + fuel := by
  intro fuel
  induction fuel with
  | zero => intro qs sibs nq vi vy r h; simp [nextLayerLoop] at h
  | succ f ih =>
    intro qs sibs nq vi vy r h
    cases qs with
    | nil =>
      simp only [nextLayerLoop, Outcome.ok.injEq] at h
      subst h
      simp
    | cons q qs' =>
      simp only [nextLayerLoop] at h
      split at h
      · cases h
      · split at h
        · split at h
          · have := ih _ _ _ _ _ _ h
            simp only [List.length_cons] at this
            omega
          · cases h
          · cases h
        · cases h
        · cases h

theorem computeNextLayer_length (qs : List LayerQuery) (sibs : List Felt) (n e : Felt) (nl : NextLayer)
    (h : computeNextLayer qs sibs n e = .ok nl) : nl.verifyIndices.length ≤ qs.length := by
  have := nextLayerLoop_length n e _ _ _ _ _ _ _ h
  simp only [List.length_nil] at this
  omega

/-! ### `fri_verify_layers`, `fri_verify` -/

/-- Every layer table reached by `Fri.verifyLayers`: at most `1 + N * M` calls, when the layer queries
    are strictly increasing, `< 2^64` and at most `N`, and the layer commitments have height `≤ M`
    (`64 ≤ M ≤ 250`).  No hypothesis on the witnesses. -/
theorem verifyLayersCalls_le (N M : ℕ) (hM64 : 64 ≤ M) (hM : M ≤ 250) : ∀ (n : ℕ)
    (cs : List Table.Commitment) (ws : List LayerWitness) (es steps : List Felt) (qs : List LayerQuery),
    (qs.map (·.index.val)).Pairwise (· < ·) → (∀ q ∈ qs, q.index.val < 2 ^ 64) → qs.length ≤ N →
    (∀ c ∈ cs, c.vector.config.height.val ≤ M) →
    ∀ k ∈ verifyLayersCalls H n cs ws es steps qs, k ≤ 1 + N * M := by
  intro n
  induction n with
  | zero => intro cs ws es steps qs _ _ _ _ k hk; simp [verifyLayersCalls] at hk
  | succ n ih =>
    intro cs ws es steps qs hsorted hb hlen hcs k hk
    cases ws with
    | nil => simp [verifyLayersCalls] at hk
    | cons w ws' =>
    cases cs with
    | nil => simp [verifyLayersCalls] at hk
    | cons c cs' =>
    cases steps with
    | nil => simp [verifyLayersCalls] at hk
    | cons st steps' =>
    cases es with
    | nil => simp [verifyLayersCalls] at hk
    | cons e es' =>
      simp only [verifyLayersCalls] at hk
      cases hnl : computeNextLayer qs w.leaves (Felt.pow 2 st.val) e with
      | err x => simp [hnl] at hk
      | panic x => simp [hnl] at hk
      | ok nl =>
        simp only [hnl] at hk
        obtain ⟨_, _, _, h4, h5, _, h7⟩ := FriSound.computeNextLayer_indices qs w.leaves _ e nl hnl hsorted hb
        have hlenV := computeNextLayer_length qs w.leaves _ e nl hnl
        have hlenQ : nl.nextQueries.length = nl.verifyIndices.length := by
          rw [← h4, List.length_map]
        have hV : ∀ x ∈ nl.verifyIndices, x.val < 2 ^ M := by
          intro x hx
          rw [← h4, List.mem_map] at hx
          obtain ⟨q', hq', rfl⟩ := hx
          exact Nat.lt_of_lt_of_le (h7 q' hq') (Nat.pow_le_pow_right (by omega) hM64)
        rw [List.mem_cons] at hk
        rcases hk with rfl | hk
        · exact tableDecommit_calls_le_const c nl.verifyIndices nl.verifyYValues w.auths N M hM
            (hcs c (by simp)) (by omega) hV
        · cases hdec : Table.decommit H c nl.verifyIndices nl.verifyYValues w.auths with
          | err x => simp [hdec] at hk
          | panic x => simp [hdec] at hk
          | ok u =>
            simp only [hdec] at hk
            exact ih cs' ws' es' steps' nl.nextQueries h5 h7 (by omega)
              (fun c' hc' => hcs c' (by simp [hc'])) k hk

/-- the same for `Fri.verify`, in terms of the query indices it is given -/
theorem friVerifyCalls_le (N M : ℕ) (hM64 : 64 ≤ M) (hM : M ≤ 250) (queries : List Felt)
    (c : Fri.Commitment) (values points : List Felt) (witness : List LayerWitness)
    (hsorted : queries.Pairwise (fun a b => a.val < b.val)) (hb : ∀ q ∈ queries, q.val < 2 ^ 64)
    (hlen : queries.length ≤ N) (hcs : ∀ ci ∈ c.innerLayers, ci.vector.config.height.val ≤ M) :
    ∀ k ∈ friVerifyCalls H queries c values points witness, k ≤ 1 + N * M := by
  intro k hk
  unfold friVerifyCalls at hk
  split at hk
  · simp at hk
  · cases hfq : gatherFirstLayer queries values points with
    | err x => simp [hfq] at hk
    | panic x => simp [hfq] at hk
    | ok fq =>
      simp only [hfq] at hk
      split at hk
      · simp at hk
      · split at hk
        · simp at hk
        · obtain ⟨hidx, _, _⟩ := FriSound.gatherFirstLayer_spec queries values points fq hfq
          have h1 : (fq.map (·.index.val)).Pairwise (· < ·) := by
            have : fq.map (·.index.val) = queries.map (·.val) := by
              rw [← hidx, List.map_map]; rfl
            rw [this, List.pairwise_map]; exact hsorted
          have h2 : ∀ q ∈ fq, q.index.val < 2 ^ 64 := by
            intro q hq
            exact hb q.index (by rw [← hidx]; exact List.mem_map_of_mem hq)
          have h3 : fq.length ≤ N := by
            have : fq.length = queries.length := by rw [← hidx, List.length_map]
            omega
          exact verifyLayersCalls_le N M hM64 hM _ _ _ _ _ fq h1 h2 h3 hcs k hk

/-! ### heights of the commitments produced by `stark_commit` under an accepted configuration -/

theorem commit_heights {L : LayoutOps} {t t' : Transcript} {pi : PublicInput}
    {u : Stark.UnsentCommitment} {cfg : StarkConfig} {d : StarkDomains} {c : Stark.Commitment}
    {sec nc1 nc2 : Felt} (hcfg : cfg.validate sec nc1 nc2 = .ok ())
    (hc : Stark.commit L H t pi u cfg d = .ok (t', c)) :
    c.tracesOriginal.vector.config.height.val = cfg.logTraceDomainSize.val + cfg.logNCosets.val ∧
    c.tracesInteraction.vector.config.height.val = cfg.logTraceDomainSize.val + cfg.logNCosets.val ∧
    c.composition.vector.config.height.val = cfg.logTraceDomainSize.val + cfg.logNCosets.val ∧
    ∀ ci ∈ c.fri.innerLayers,
      ci.vector.config.height.val ≤ cfg.logTraceDomainSize.val + cfg.logNCosets.val := by
  obtain ⟨_, _, _, _, _, _, v1, v2, v3, hn, _, _, _, hinner, _, _, hlis⟩ := Pipeline.config_ok hcfg
  obtain ⟨_, _, s3, s4, s5, _⟩ := Pipeline.commit_fri_shape hc
  refine ⟨by rw [s3]; exact v1.1, by rw [s4]; exact v2.1, by rw [s5]; exact v3.1, ?_⟩
  intro ci hci
  obtain ⟨t0, tf, hfc⟩ := Tamper.commit_fri_commit hc
  obtain ⟨_, hlayers⟩ := Tamper.friCommit_layers hfc
  obtain ⟨i, hi⟩ := List.mem_iff_getElem?.mp hci
  obtain ⟨tc, rt, htc, _, rfl⟩ := hlayers i ci hi
  -- the commitment list has `n_layers - 1` entries
  have hlenC : c.fri.innerLayers.length = cfg.fri.nLayers.val - 1 := by
    unfold Fri.commit at hfc
    split at hfc
    · cases hfc
    split at hfc
    · cases hfc
    split at hfc
    · next t1 cs es heq =>
      split at hfc
      · cases hfc
      · simp only [Outcome.ok.injEq, Prod.mk.injEq] at hfc
        obtain ⟨_, hfri⟩ := hfc
        rw [← hfri]
        have hv : (cfg.fri.nLayers - (@OfNat.ofNat Felt 1 Fin.instOfNat)).val = cfg.fri.nLayers.val - 1 := by
          have h1 : (@OfNat.ofNat Felt 1 Fin.instOfNat).val = 1 := rfl
          rw [Fin.sub_val_of_le (by rw [Fin.le_def, h1]; omega), h1]
        have hcl : ∀ (n : ℕ) (t : Transcript) (cfgs : List TableConfig) (roots : List Felt)
            (t3 : Transcript) (cs : List Table.Commitment) (es : List Felt),
            commitRounds H n t cfgs roots = .ok (t3, cs, es) → cs.length = n := by
          intro n
          induction n with
          | zero =>
            intro t cfgs roots t3 cs es h
            simp only [commitRounds, Outcome.ok.injEq, Prod.mk.injEq] at h
            obtain ⟨_, rfl, _⟩ := h; rfl
          | succ n ih =>
            intro t cfgs roots t3 cs es h
            unfold commitRounds at h
            cases roots with
            | nil => simp at h
            | cons rt roots' =>
              cases cfgs with
              | nil => simp at h
              | cons tc cfgs' =>
                simp only at h
                split at h
                · next t3' cs' es' heq' =>
                  simp only [Outcome.ok.injEq, Prod.mk.injEq] at h
                  obtain ⟨_, rfl, _⟩ := h
                  simp [ih _ _ _ _ _ _ heq']
                · simp at h
                · simp at h
        have := hcl _ _ _ _ _ _ _ heq
        show cs.length = _
        rw [this, hv]
    · cases hfc
    · cases hfc
  have hi' : i < cfg.fri.nLayers.val - 1 := by
    have := (List.getElem?_eq_some_iff.mp hi).1
    omega
  obtain ⟨st, tc', _, x2, _, _, _, x6, _⟩ := hinner (i + 1) (by omega) (by omega)
  simp only [Nat.add_sub_cancel] at x2
  rw [htc] at x2
  injection x2 with x2
  subst x2
  show tc.vector.height.val ≤ _
  omega

/-! ### the pipeline -/

/-- the bound: at most 48 queries, evaluation domain of at most `2^87` points -/
def walkDepthBound : ℕ := 1 + 48 * 87

/-- what the pipeline's checks give: heights, and the shape of the query list -/
theorem pipeline_side (L : LayoutOps) (pi : PublicInput) (cfg : StarkConfig)
    (sec nc1 nc2 : Felt) (hcfg : cfg.validate sec nc1 nc2 = .ok ())
    (d : StarkDomains) (hd : StarkDomains.new cfg.logTraceDomainSize cfg.logNCosets = .ok d)
    (t t' tq : Transcript) (u : Stark.UnsentCommitment) (c : Stark.Commitment)
    (hc : Stark.commit L H t pi u cfg d = .ok (t', c))
    (queries : List Felt)
    (hq : Queries.generateQueries H t' cfg.nQueries d.evalDomainSize = .ok (queries, tq)) :
    c.tracesOriginal.vector.config.height.val ≤ 87 ∧ c.tracesInteraction.vector.config.height.val ≤ 87 ∧
    c.composition.vector.config.height.val ≤ 87 ∧
    (∀ ci ∈ c.fri.innerLayers, ci.vector.config.height.val ≤ 87) ∧
    queries.length ≤ 48 ∧ queries.Pairwise (fun a b => a.val < b.val) ∧
    (∀ x ∈ queries, x.val < 2 ^ d.logEvalDomainSize.val) ∧ d.logEvalDomainSize.val ≤ 87 := by
  obtain ⟨⟨_, _, _⟩, htrace, hnq, _⟩ := ConfigLemmas.accepted_facts cfg sec nc1 nc2 hcfg
  obtain ⟨_, hcos, _⟩ := Pipeline.config_ok hcfg
  have h87 : cfg.logTraceDomainSize.val + cfg.logNCosets.val ≤ 87 := by
    have := hcos.2; omega
  obtain ⟨hsz, _, hlog, _⟩ := Proofs.sizes_eq _ _ (by omega) d hd
  have hb0 : d.evalDomainSize ≠ 0 := by
    intro h0
    have : d.evalDomainSize.val = 0 := by rw [h0]; rfl
    have : 0 < 2 ^ (cfg.logTraceDomainSize.val + cfg.logNCosets.val) := Nat.pow_pos (by omega)
    omega
  obtain ⟨e1, e2, e3, e4⟩ := commit_heights hcfg hc
  refine ⟨by omega, by omega, by omega, fun ci hci => Nat.le_trans (e4 ci hci) h87,
    Nat.le_trans (Proofs.queries_length_le hq hb0) hnq, Proofs.queries_strict hq hb0, ?_, by omega⟩
  intro x hx
  rw [hlog, ← hsz]
  exact Proofs.queries_in_range hq hb0 x hx

/-- the three trace / composition decommitments of `stark_verify`, for ANY values and authentication
    nodes: at most `1 + 48 * 87` recursive calls each -/
theorem verifyPhase_tables_le (L : LayoutOps) (pi : PublicInput) (cfg : StarkConfig)
    (sec nc1 nc2 : Felt) (hcfg : cfg.validate sec nc1 nc2 = .ok ())
    (d : StarkDomains) (hd : StarkDomains.new cfg.logTraceDomainSize cfg.logNCosets = .ok d)
    (t t' tq : Transcript) (u : Stark.UnsentCommitment) (c : Stark.Commitment)
    (hc : Stark.commit L H t pi u cfg d = .ok (t', c))
    (queries : List Felt)
    (hq : Queries.generateQueries H t' cfg.nQueries d.evalDomainSize = .ok (queries, tq))
    (values auths : List Felt) :
    tableDecommitCalls H c.tracesOriginal queries values auths ≤ walkDepthBound ∧
    tableDecommitCalls H c.tracesInteraction queries values auths ≤ walkDepthBound ∧
    tableDecommitCalls H c.composition queries values auths ≤ walkDepthBound := by
  obtain ⟨h1, h2, h3, _, hlen, _, hrange, hle⟩ :=
    pipeline_side L pi cfg sec nc1 nc2 hcfg d hd t t' tq u c hc queries hq
  have hr87 : ∀ x ∈ queries, x.val < 2 ^ 87 := fun x hx =>
    Nat.lt_of_lt_of_le (hrange x hx) (Nat.pow_le_pow_right (by omega) hle)
  exact ⟨tableDecommit_calls_le_const _ queries values auths 48 87 (by omega) h1 hlen hr87,
    tableDecommit_calls_le_const _ queries values auths 48 87 (by omega) h2 hlen hr87,
    tableDecommit_calls_le_const _ queries values auths 48 87 (by omega) h3 hlen hr87⟩

/-- **C18, recursion depth.**  Accepted configuration, domains as built by `StarkDomains::new`, the
    commitment returned by `stark_commit`, queries drawn by `generate_queries` on the evaluation
    domain (exactly the data flow of `Stark.verify`): every Merkle walk that `stark_verify` starts —
    original trace, interaction trace, composition, every FRI inner layer that is reached — makes at most
    `1 + 48 * 87 = 4177` recursive calls, for ANY witness `w`. -/
theorem verifyPhaseCalls_le (L : LayoutOps) (n1 n2 : ℕ) (pi : PublicInput) (cfg : StarkConfig)
    (sec nc1 nc2 : Felt) (hcfg : cfg.validate sec nc1 nc2 = .ok ())
    (d : StarkDomains) (hd : StarkDomains.new cfg.logTraceDomainSize cfg.logNCosets = .ok d)
    (t t' tq : Transcript) (u : Stark.UnsentCommitment) (c : Stark.Commitment)
    (hc : Stark.commit L H t pi u cfg d = .ok (t', c))
    (queries : List Felt)
    (hq : Queries.generateQueries H t' cfg.nQueries d.evalDomainSize = .ok (queries, tq))
    (w : Stark.Witness) :
    ∀ k ∈ verifyPhaseCalls L H n1 n2 pi queries c w d, k ≤ walkDepthBound := by
  obtain ⟨_, _, _, e4, hlen, hsorted, hrange, _⟩ :=
    pipeline_side L pi cfg sec nc1 nc2 hcfg d hd t t' tq u c hc queries hq
  have hk := verifyPhase_tables_le L pi cfg sec nc1 nc2 hcfg d hd t t' tq u c hc queries hq
  intro k hk'
  unfold verifyPhaseCalls at hk'
  simp only [] at hk'
  split at hk'
  · simp only [List.mem_cons] at hk'
    rcases hk' with rfl | rfl | rfl | hk'
    · exact (hk _ _).1
    · exact (hk _ _).2.1
    · exact (hk _ _).2.2
    · split at hk'
      · split at hk'
        · simp at hk'
        · next hle =>
          split at hk'
          · split at hk'
            · refine friVerifyCalls_le 48 87 (by omega) (by omega) queries c.fri _ _ _ hsorted ?_ hlen
                e4 k hk'
              intro x hx
              exact Nat.lt_of_lt_of_le (hrange x hx) (Nat.pow_le_pow_right (by omega) (by omega))
            · simp at hk'
          · simp at hk'
      · simp at hk'
  · simp only [List.mem_cons, List.not_mem_nil, or_false] at hk'
    rcases hk' with rfl | rfl
    · exact (hk _ _).1
    · exact (hk _ _).2.1

end Swiftness.Proofs.MerkleDepth
