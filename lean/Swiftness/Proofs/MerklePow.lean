/-
  The shift `2^height` computed by the model in `Felt` is the natural number `2^h` for `h ≤ 250`.
  (The only Merkle lemma that needs the field structure; kept in its own file.)
-/
import Swiftness.Proofs.FeltField

namespace Swiftness.Proofs.Merkle
open Swiftness

theorem pow_two_val (h : ℕ) (hh : h ≤ 250) : (Felt.pow (Felt.ofNat 2) h).val = 2 ^ h := by
  have hlt : 2 ^ h < P :=
    calc 2 ^ h ≤ 2 ^ 250 := Nat.pow_le_pow_right (by norm_num) hh
      _ < P := by decide +kernel
  rw [Felt.pow_eq _ _ (lt_trans (by omega : h < 251) (by norm_num)), Felt.ofNat_eq_cast]
  have : (((2 : ℕ) : Felt)) ^ h = ((2 ^ h : ℕ) : Felt) := by push_cast; rfl
  rw [this]
  exact Felt.val_cast_of_lt hlt

end Swiftness.Proofs.Merkle
