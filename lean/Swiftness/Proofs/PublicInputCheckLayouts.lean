/-
  C14 helper lemmas, part 5: a COMPUTABLE well-formedness check `wellFormedB` for the translator-read
  layout data (sound and complete for `Spec.WellFormed`), and the generated data of ALL SIX static
  layouts (`Generated/Consts.lean`, `Generated/Layout/<L>.lean`: dex, recursive,
  recursive_with_poseidon, small, starknet, starknet_with_keccak) passes it.  Nothing here mentions a
  concrete builtin row: when the generated tables change, the proofs are re-run by evaluation.
-/
import Swiftness.Spec.PublicInputOK
import Swiftness.Proofs.PublicInputCheckExample
import Swiftness.Generated.Consts
import Swiftness.Generated.Layout.dex
import Swiftness.Generated.Layout.recursive
import Swiftness.Generated.Layout.recursive_with_poseidon
import Swiftness.Generated.Layout.small
import Swiftness.Generated.Layout.starknet
import Swiftness.Generated.Layout.starknet_with_keccak

namespace Swiftness.Proofs.PIC
open Swiftness Swiftness.LayoutData Swiftness.Spec

/-! ### the computable check -/

/-- one builtin row `(segment, ratio, cells)`: `1 ≤ cells ≤ 16`, `ratio ∈ {2^0, …, 2^20}` -/
def rowB (row : Nat × Nat × Nat) : Bool :=
  decide (1 ≤ row.2.2) && decide (row.2.2 ≤ 16) && (List.range 21).any (fun r => row.2.1 == 2 ^ r)

/-- `WellFormed`, as a program -/
def wellFormedB (D : LayoutData) : Bool :=
  D.MAX_LOG_N_STEPS == 80 && D.MAX_RANGE_CHECK == 65535 &&
  decide (D.constD "CPU_COMPONENT_HEIGHT" * D.constD "CPU_COMPONENT_STEP" < 2 ^ 32) &&
  D.builtins.all rowB

theorem rowB_iff (row : Nat × Nat × Nat) :
    rowB row = true ↔ (1 ≤ row.2.2 ∧ row.2.2 ≤ 16 ∧ ∃ r, r ≤ 20 ∧ row.2.1 = 2 ^ r) := by
  unfold rowB
  simp only [Bool.and_eq_true, decide_eq_true_eq, List.any_eq_true, List.mem_range, beq_iff_eq]
  constructor
  · rintro ⟨⟨h1, h2⟩, r, hr, he⟩
    exact ⟨h1, h2, r, by omega, he⟩
  · rintro ⟨h1, h2, r, hr, he⟩
    exact ⟨⟨h1, h2⟩, r, by omega, he⟩

theorem wellFormedB_iff (D : LayoutData) : wellFormedB D = true ↔ WellFormed D := by
  unfold wellFormedB
  simp only [Bool.and_eq_true, decide_eq_true_eq, List.all_eq_true, beq_iff_eq, rowB_iff]
  constructor
  · rintro ⟨⟨⟨h1, h2⟩, h3⟩, h4⟩
    exact ⟨h1, h2, h3, h4⟩
  · rintro ⟨h1, h2, h3, h4⟩
    exact ⟨⟨⟨h1, h2⟩, h3⟩, h4⟩

/-- SOUNDNESS of the check -/
theorem wellFormedB_sound {D : LayoutData} (h : wellFormedB D = true) : WellFormed D :=
  (wellFormedB_iff D).mp h

/-! ### the six static layouts' generated data

  Built exactly like `recursiveData` (`PublicInputCheckExample.lean`): the part of `LayoutData` that
  `validate_public_input` / `verify_public_input` read. -/

def dexData : LayoutData where
  name := "dex"
  consts := [("CPU_COMPONENT_HEIGHT", Gen.Layout.dex.CPU_COMPONENT_HEIGHT),
    ("CPU_COMPONENT_STEP", Gen.Layout.dex.CPU_COMPONENT_STEP),
    ("LAYOUT_CODE", Gen.Layout.dex.LAYOUT_CODE),
    ("SEG_N_SEGMENTS", Gen.Layout.dex.SEG_N_SEGMENTS),
    ("SEG_OUTPUT", Gen.Layout.dex.SEG_OUTPUT),
    ("SEG_PROGRAM", Gen.Layout.dex.SEG_PROGRAM),
    ("SEG_EXECUTION", Gen.Layout.dex.SEG_EXECUTION),
    ("PM_MAX_LOG_N_STEPS", Gen.PublicMemory.MAX_LOG_N_STEPS),
    ("PM_MAX_RANGE_CHECK", Gen.PublicMemory.MAX_RANGE_CHECK),
    ("PM_MAX_ADDRESS", Gen.PublicMemory.MAX_ADDRESS),
    ("PM_INITIAL_PC", Gen.PublicMemory.INITIAL_PC)]
  builtins := Gen.Layout.dex.builtinTable
  gvFields := []
  interactionFields := []
  composition := ([], 0)
  oods := ([], 0)
  periodic := []

def recursiveWithPoseidonData : LayoutData where
  name := "recursive_with_poseidon"
  consts := [("CPU_COMPONENT_HEIGHT", Gen.Layout.recursive_with_poseidon.CPU_COMPONENT_HEIGHT),
    ("CPU_COMPONENT_STEP", Gen.Layout.recursive_with_poseidon.CPU_COMPONENT_STEP),
    ("LAYOUT_CODE", Gen.Layout.recursive_with_poseidon.LAYOUT_CODE),
    ("SEG_N_SEGMENTS", Gen.Layout.recursive_with_poseidon.SEG_N_SEGMENTS),
    ("SEG_OUTPUT", Gen.Layout.recursive_with_poseidon.SEG_OUTPUT),
    ("SEG_PROGRAM", Gen.Layout.recursive_with_poseidon.SEG_PROGRAM),
    ("SEG_EXECUTION", Gen.Layout.recursive_with_poseidon.SEG_EXECUTION),
    ("PM_MAX_LOG_N_STEPS", Gen.PublicMemory.MAX_LOG_N_STEPS),
    ("PM_MAX_RANGE_CHECK", Gen.PublicMemory.MAX_RANGE_CHECK),
    ("PM_MAX_ADDRESS", Gen.PublicMemory.MAX_ADDRESS),
    ("PM_INITIAL_PC", Gen.PublicMemory.INITIAL_PC)]
  builtins := Gen.Layout.recursive_with_poseidon.builtinTable
  gvFields := []
  interactionFields := []
  composition := ([], 0)
  oods := ([], 0)
  periodic := []

def smallData : LayoutData where
  name := "small"
  consts := [("CPU_COMPONENT_HEIGHT", Gen.Layout.small.CPU_COMPONENT_HEIGHT),
    ("CPU_COMPONENT_STEP", Gen.Layout.small.CPU_COMPONENT_STEP),
    ("LAYOUT_CODE", Gen.Layout.small.LAYOUT_CODE),
    ("SEG_N_SEGMENTS", Gen.Layout.small.SEG_N_SEGMENTS),
    ("SEG_OUTPUT", Gen.Layout.small.SEG_OUTPUT),
    ("SEG_PROGRAM", Gen.Layout.small.SEG_PROGRAM),
    ("SEG_EXECUTION", Gen.Layout.small.SEG_EXECUTION),
    ("PM_MAX_LOG_N_STEPS", Gen.PublicMemory.MAX_LOG_N_STEPS),
    ("PM_MAX_RANGE_CHECK", Gen.PublicMemory.MAX_RANGE_CHECK),
    ("PM_MAX_ADDRESS", Gen.PublicMemory.MAX_ADDRESS),
    ("PM_INITIAL_PC", Gen.PublicMemory.INITIAL_PC)]
  builtins := Gen.Layout.small.builtinTable
  gvFields := []
  interactionFields := []
  composition := ([], 0)
  oods := ([], 0)
  periodic := []

def starknetData : LayoutData where
  name := "starknet"
  consts := [("CPU_COMPONENT_HEIGHT", Gen.Layout.starknet.CPU_COMPONENT_HEIGHT),
    ("CPU_COMPONENT_STEP", Gen.Layout.starknet.CPU_COMPONENT_STEP),
    ("LAYOUT_CODE", Gen.Layout.starknet.LAYOUT_CODE),
    ("SEG_N_SEGMENTS", Gen.Layout.starknet.SEG_N_SEGMENTS),
    ("SEG_OUTPUT", Gen.Layout.starknet.SEG_OUTPUT),
    ("SEG_PROGRAM", Gen.Layout.starknet.SEG_PROGRAM),
    ("SEG_EXECUTION", Gen.Layout.starknet.SEG_EXECUTION),
    ("PM_MAX_LOG_N_STEPS", Gen.PublicMemory.MAX_LOG_N_STEPS),
    ("PM_MAX_RANGE_CHECK", Gen.PublicMemory.MAX_RANGE_CHECK),
    ("PM_MAX_ADDRESS", Gen.PublicMemory.MAX_ADDRESS),
    ("PM_INITIAL_PC", Gen.PublicMemory.INITIAL_PC)]
  builtins := Gen.Layout.starknet.builtinTable
  gvFields := []
  interactionFields := []
  composition := ([], 0)
  oods := ([], 0)
  periodic := []

def starknetWithKeccakData : LayoutData where
  name := "starknet_with_keccak"
  consts := [("CPU_COMPONENT_HEIGHT", Gen.Layout.starknet_with_keccak.CPU_COMPONENT_HEIGHT),
    ("CPU_COMPONENT_STEP", Gen.Layout.starknet_with_keccak.CPU_COMPONENT_STEP),
    ("LAYOUT_CODE", Gen.Layout.starknet_with_keccak.LAYOUT_CODE),
    ("SEG_N_SEGMENTS", Gen.Layout.starknet_with_keccak.SEG_N_SEGMENTS),
    ("SEG_OUTPUT", Gen.Layout.starknet_with_keccak.SEG_OUTPUT),
    ("SEG_PROGRAM", Gen.Layout.starknet_with_keccak.SEG_PROGRAM),
    ("SEG_EXECUTION", Gen.Layout.starknet_with_keccak.SEG_EXECUTION),
    ("PM_MAX_LOG_N_STEPS", Gen.PublicMemory.MAX_LOG_N_STEPS),
    ("PM_MAX_RANGE_CHECK", Gen.PublicMemory.MAX_RANGE_CHECK),
    ("PM_MAX_ADDRESS", Gen.PublicMemory.MAX_ADDRESS),
    ("PM_INITIAL_PC", Gen.PublicMemory.INITIAL_PC)]
  builtins := Gen.Layout.starknet_with_keccak.builtinTable
  gvFields := []
  interactionFields := []
  composition := ([], 0)
  oods := ([], 0)
  periodic := []

/-- the six static layouts' data, in alphabetical order (`recursiveData` is the one of
    `PublicInputCheckExample.lean`) -/
def staticLayoutData : List LayoutData :=
  [dexData, recursiveData, recursiveWithPoseidonData, smallData, starknetData, starknetWithKeccakData]

theorem dexData_wellFormed : WellFormed dexData := wellFormedB_sound (by decide)
/-- the same fact as `recursiveData_wellFormed`, this time by evaluation of the check -/
theorem recursiveData_wellFormed' : WellFormed recursiveData := wellFormedB_sound (by decide)
theorem recursiveWithPoseidonData_wellFormed : WellFormed recursiveWithPoseidonData :=
  wellFormedB_sound (by decide)
theorem smallData_wellFormed : WellFormed smallData := wellFormedB_sound (by decide)
theorem starknetData_wellFormed : WellFormed starknetData := wellFormedB_sound (by decide)
theorem starknetWithKeccakData_wellFormed : WellFormed starknetWithKeccakData :=
  wellFormedB_sound (by decide)

theorem staticLayoutData_wellFormed : ∀ D ∈ staticLayoutData, WellFormed D := by
  intro D hD
  simp only [staticLayoutData, List.mem_cons, List.not_mem_nil, or_false] at hD
  rcases hD with rfl | rfl | rfl | rfl | rfl | rfl
  · exact dexData_wellFormed
  · exact recursiveData_wellFormed
  · exact recursiveWithPoseidonData_wellFormed
  · exact smallData_wellFormed
  · exact starknetData_wellFormed
  · exact starknetWithKeccakData_wellFormed

/-- `Felt.ofNat` of a representative is the element itself -/
theorem felt_ofNat_val (x : Felt) : Felt.ofNat x.val = x := by
  apply Fin.ext
  show x.val % P = x.val
  exact Nat.mod_eq_of_lt x.isLt

/-! ### non-vacuity on the largest table (starknet_with_keccak: seven builtins) -/

/-- an honest input for starknet_with_keccak: `2^11` steps (trace length `32768`, the largest row
    ratio), and exactly one instance of each builtin (Pedersen 3 cells, range-check 16 cells of 128
    available, ECDSA 2, bitwise 5, EC-op 7, Keccak 16, Poseidon 6) -/
def keccakGoodPi : PublicInput :=
  { goodPi with
    logNSteps := Felt.ofNat 11
    layout := Felt.ofNat Gen.Layout.starknet_with_keccak.LAYOUT_CODE
    segments := [seg 1 5, seg 5 9, seg 20 21, seg 100 103, seg 200 216, seg 300 302, seg 400 405,
      seg 500 507, seg 600 616, seg 700 706] }

theorem keccakGoodPi_validate :
    starknetWithKeccakData.validatePublicInput keccakGoodPi (mkDomains 32768) = .ok () := by
  decide +kernel

/-- the same with a half Keccak instance (8 of 16 cells): rejected -/
def keccakHalfPi : PublicInput :=
  { keccakGoodPi with
    segments := [seg 1 5, seg 5 9, seg 20 21, seg 100 103, seg 200 216, seg 300 302, seg 400 405,
      seg 500 507, seg 600 608, seg 700 706] }

theorem keccakHalfPi_validate :
    starknetWithKeccakData.validatePublicInput keccakHalfPi (mkDomains 32768) = .err "UsesInvalid" := by
  decide +kernel

end Swiftness.Proofs.PIC
