/-
  C17, instrumented semantics: after configuration validation the corrected step count `verifyCost'`
  (hence the tick count of the instrumented verifier) is at most `A + B · size`, with `A`, `B`
  depending only on the layout.
-/
import Swiftness.Proofs.TickedBoundsStark
import Swiftness.Proofs.Cost

namespace Swiftness.Ticked
open Swiftness Fri
open Swiftness.Proofs.Cost (NumericBounds numericBounds_of_validate)

theorem Cost'.sampling_mono {a b : ℕ} (h : a ≤ b) : Cost'.sampling a ≤ Cost'.sampling b := by
  unfold Cost'.sampling
  have := Nat.mul_le_mul h h
  omega

/-- a table decommitment for at most 48 queries -/
theorem Cost'.tableDecommit_le (nq nv na : ℕ) (hq : nq ≤ 48) :
    Cost'.tableDecommit nq nv na ≤ 2852 + 4 * nv + 50 * na := by
  refine Nat.le_trans (Cost'.tableDecommit_mono hq (Nat.le_refl nv) (Nat.le_refl na)) ?_
  unfold Cost'.tableDecommit Cost'.vectorDecommit Cost.F
  omega

/-- the constant part of one FRI layer's cost for at most 48 queries and coset size at most 16 -/
def layerConst' : ℕ := 62875

theorem Cost'.layer_le (nq cs : ℕ) (w : LayerWitness) (hq : nq ≤ 48) (hcs : cs ≤ 16) :
    Cost'.layer nq cs w ≤ layerConst' + 50 * w.size := by
  unfold Cost'.layer
  have h1 := Cost'.nextLayer_mono hq hcs
  have h2 := Cost'.tableDecommit_le nq (nq * cs) w.auths.length hq
  have h3 : nq * cs ≤ 48 * 16 := Nat.mul_le_mul hq hcs
  have h4 : Cost'.nextLayer 48 16 = 56694 := by decide
  unfold layerConst' LayerWitness.size Cost.F
  omega

theorem Cost'.layers_le (nq : ℕ) (hq : nq ≤ 48) : ∀ (steps : List Felt) (ws : List LayerWitness),
    (∀ st ∈ steps, Cost.cosetSize st ≤ 16) →
    Cost'.layers nq steps ws ≤ steps.length * layerConst' + 50 * (ws.map LayerWitness.size).sum := by
  intro steps
  induction steps with
  | nil => intro ws _; simp [Cost'.layers]
  | cons st steps ih =>
    intro ws hst
    cases ws with
    | nil => simp [Cost'.layers]
    | cons w ws =>
      simp only [Cost'.layers, List.length_cons, List.map_cons, List.sum_cons]
      have h1 := Cost'.layer_le nq _ w hq (hst st (by simp))
      have h2 := ih ws (fun a ha => hst a (by simp [ha]))
      rw [Nat.add_mul, Nat.one_mul]
      omega

/-- the additive constant: depends only on the layout's sizes and callback costs -/
def boundA' (L : LayoutOps) (K : LayoutCost) : ℕ :=
  K.piA + K.compA + 48 * K.oods + 2 * L.nInteractionElements + L.nConstraints + L.maskSize
    + L.constraintDegree + 938307

/-- the per-element constant -/
def boundB' (K : LayoutCost) : ℕ := K.piB + K.compB + 50

theorem verifyCost'_le (L : LayoutOps) (K : LayoutCost) (p : Stark.Proof) (hb : NumericBounds p.config) :
    verifyCost' L K p ≤ boundA' L K + boundB' K * p.size := by
  obtain ⟨hq, hl, hn, hcs, _, _⟩ := hb
  have hlay := Cost'.layers_le p.config.nQueries.val hq _ p.witness.friLayers hcs
  have hlen : ((p.config.fri.friStepSizes.drop 1).take (Cost.rounds p.config.fri)).length ≤ 14 := by
    rw [List.length_take]; omega
  have hlay2 : ((p.config.fri.friStepSizes.drop 1).take (Cost.rounds p.config.fri)).length
      * layerConst' ≤ 14 * layerConst' := Nat.mul_le_mul_right _ hlen
  have hpi : p.publicInput.size ≤ p.size := by unfold Stark.Proof.size; omega
  have h1 : K.piB * p.publicInput.size ≤ K.piB * p.size := Nat.mul_le_mul_left _ hpi
  have h2 : K.compB * p.publicInput.size ≤ K.compB * p.size := Nat.mul_le_mul_left _ hpi
  have h3 : Cost'.sampling p.config.nQueries.val ≤ 2497 := Nat.le_trans (Cost'.sampling_mono hq) (by decide)
  have h4 : Cost'.points p.config.nQueries.val ≤ 15665 := Nat.le_trans (Cost'.points_mono hq) (by decide)
  have h5 : p.config.nQueries.val * (1 + K.oods) ≤ 48 * (1 + K.oods) := Nat.mul_le_mul_right _ hq
  have h6 : p.config.nQueries.val * (1 + Cost.F) ≤ 48 * (1 + Cost.F) := Nat.mul_le_mul_right _ hq
  have h7 : p.config.nQueries.val * (1 + Cost.F + p.unsent.friLastLayerCoefficients.length)
      ≤ 48 * (1 + Cost.F + p.unsent.friLastLayerCoefficients.length) := Nat.mul_le_mul_right _ hq
  have h8 : p.config.fri.nLayers.val * (4 + Cost.F) ≤ 15 * (4 + Cost.F) := Nat.mul_le_mul_right _ hl
  have t1 := Cost'.tableDecommit_le _ p.witness.tracesOriginalValues.length
    p.witness.tracesOriginalAuths.length hq
  have t2 := Cost'.tableDecommit_le _ p.witness.tracesInteractionValues.length
    p.witness.tracesInteractionAuths.length hq
  have t3 := Cost'.tableDecommit_le _ p.witness.compositionValues.length
    p.witness.compositionAuths.length hq
  have hB : boundB' K * p.size = K.piB * p.size + K.compB * p.size + 50 * p.size := by
    unfold boundB'; rw [Nat.add_mul, Nat.add_mul]
  rw [hB]
  unfold verifyCost' boundA' Cost'.phase Cost'.config Cost'.domains Cost'.pubHash Cost'.commit Cost'.friVerify
  simp only []
  unfold Cost.F at *
  unfold layerConst' at hlay hlay2
  unfold Stark.Proof.size Stark.Witness.size Stark.UnsentCommitment.size at *
  omega

/-- HEADLINE: the tick count of the instrumented verifier is at most linear in the size of the proof
    value once `StarkConfig::validate` has accepted the configuration -/
theorem verifyT_ticks_linear (L : LayoutOps) (KF : LayoutCostFn) (K : LayoutCost) (hK : KF.BoundedBy K)
    (H : Hashes) (stone6 : Bool) (p : Stark.Proof) (sec sec' n1 n2 : Felt)
    (h : p.config.validate sec' n1 n2 = .ok ()) :
    (verifyT L KF H stone6 p sec).ticks ≤ boundA' L K + boundB' K * p.size :=
  Nat.le_trans (verifyT_ticks_le L KF K hK H stone6 p sec)
    (verifyCost'_le L K p (numericBounds_of_validate p.config sec' n1 n2 h))

end Swiftness.Ticked
