/-
  Soundness of the kernel-friendly evaluator `Model/AstFast.lean` (property C16, "no coefficient
  position is identically zero").

  For ALL programs, inputs and hint lists: if `nzCount inp hints p = some k`, then the
  coefficient-free shadow run that defines `executedTerms inp p` (`Proofs/AstChain.lean`) executes
  exactly `k` accumulate statements and every one of their terms is non-zero (`nzCount_sound`).
  Combined with `checkCoverage p n` (the accumulate statements of `p` are exactly the coefficient
  positions `0 … n-1`) a successful run with `k = n` shows that on this input every accumulate
  statement is executed and every position `i < n` has a non-zero term (`nonvanishing_of_nzCount`).

  The proof is a simulation: the page-tree store agrees with the function store on every slot
  (`getS S s = (st s).val`, `Proofs/AstFastStore.lean`), packed input vectors agree with the input
  arrays (`FIRel`), `evalK` calls its continuation on `(e.eval …).val` (`evalK_sound`), a checked
  inverse hint is the inverse (`hint_inv`), and `nzGo` follows `termsFrom` statement by statement.
  `nzGo_append` lets the kernel evaluate the generated programs chunk by chunk.
-/
import Swiftness.Proofs.AstFastStore
import Swiftness.Proofs.AstChain
import Swiftness.Proofs.AstLinearCover
import Swiftness.Proofs.FeltField

namespace Swiftness.Proofs.AstFast
open Swiftness Swiftness.Ast Swiftness.Ast.Fast
open Swiftness.Proofs.AstLinear (execFree termOf termsFrom executedTerms)

/-! ### field arithmetic on representatives -/

theorem addP_val (a b : Felt) : addP a.val b.val = (a + b).val := rfl
theorem subP_val (a b : Felt) : subP a.val b.val = (a - b).val := rfl
theorem mulP_val (a b : Felt) : mulP a.val b.val = (a * b).val := rfl
theorem negP_val (a : Felt) : negP a.val = (-a).val := rfl

theorem P_lt_B : P < B := by decide

theorem val_lt_B (a : Felt) : a.val < B := Nat.lt_trans a.isLt P_lt_B

theorem powN_zero (a e : Nat) : powN 0 a e = 1 % P := rfl

theorem powN_succ (fuel a e : Nat) :
    powN (fuel + 1) a e =
      if e = 0 then 1 % P else
        if e % 2 = 1 then mulP a (powN fuel (mulP a a) (e / 2)) else powN fuel (mulP a a) (e / 2) := by
  have raw : powN (fuel + 1) a e = sel (Nat.beq e 0) (Nat.mod 1 P)
      (force (mulP a a) fun a2 => force (Nat.div e 2) fun e2 => force (powN fuel a2 e2) fun r =>
        sel (Nat.beq (Nat.mod e 2) 1) (mulP a r) r) := rfl
  rw [raw]
  simp only [force_eq, sel_eq, Nat.beq_eq]
  rfl

theorem powN_val (fuel : Nat) : ∀ (a : Felt) (e : Nat), powN fuel a.val e = (Felt.powAux fuel a e).val := by
  induction fuel with
  | zero => intro a e; rfl
  | succ fuel ih =>
    intro a e
    rw [powN_succ, Felt.powAux]
    by_cases he : e = 0
    · simp only [he, if_true]; rfl
    · simp only [he, if_false]
      rw [mulP_val, ih]
      by_cases ho : e % 2 = 1
      · simp only [ho, if_true]; rfl
      · simp only [ho, if_false]

theorem invN_val (a : Felt) : invN a.val = (Felt.inv a).val := powN_val 256 a (P - 2)


/-- a checked hint IS the inverse -/
theorem hint_inv (y : Felt) (h : Nat) (h1 : mulP y.val h = 1) (h2 : h < P) :
    y ≠ 0 ∧ (Felt.inv y).val = h := by
  have hmul : y * (⟨h, h2⟩ : Felt) = 1 := by
    apply Fin.ext
    have : (y * (⟨h, h2⟩ : Felt)).val = mulP y.val h := rfl
    rw [this, h1]
    rfl
  refine ⟨fun h0 => ?_, ?_⟩
  · rw [h0, zero_mul] at hmul
    exact zero_ne_one hmul
  · rw [Felt.inv_eq, ← eq_inv_of_mul_eq_one_right hmul]

theorem fdivK_sound {β : Type} (x y : Felt) (hs : List Nat) (c : K β) (r : β)
    (h : fdivK x.val y.val hs c = some r) :
    y ≠ 0 ∧ ∃ hs', c (x * Felt.inv y).val hs' = some r := by
  cases hs with
  | nil =>
    have h' : sel (Nat.beq y.val 0) none (force (mulP x.val (invN y.val)) fun v => c v []) = some r := h
    rw [sel_eq, force_eq] at h'
    by_cases hy : y.val = 0
    · have : Nat.beq y.val 0 = true := by rw [Nat.beq_eq]; exact hy
      rw [this] at h'; simp at h'
    · have : Nat.beq y.val 0 = false := by rw [← Bool.not_eq_true, Nat.beq_eq]; exact hy
      rw [this, invN_val, mulP_val] at h'
      exact ⟨fun h0 => hy (by rw [h0]; rfl), [], by simpa using h'⟩
  | cons hh hs' =>
    have h' : sel (Nat.beq (mulP y.val hh) 1)
        (sel (Nat.blt hh P) (force (mulP x.val hh) fun v => c v hs') none) none = some r := h
    rw [sel_eq, sel_eq, force_eq] at h'
    by_cases h1 : mulP y.val hh = 1
    · by_cases h2 : hh < P
      · have e1 : Nat.beq (mulP y.val hh) 1 = true := by rw [Nat.beq_eq]; exact h1
        have e2 : Nat.blt hh P = true := by rw [Nat.blt_eq]; exact h2
        rw [e1, e2] at h'
        obtain ⟨hy, hinv⟩ := hint_inv y hh h1 h2
        rw [← hinv, mulP_val] at h'
        exact ⟨hy, hs', by simpa using h'⟩
      · have e2 : Nat.blt hh P = false := by rw [← Bool.not_eq_true, Nat.blt_eq]; exact h2
        rw [e2] at h'; simp at h'
    · have e1 : Nat.beq (mulP y.val hh) 1 = false := by rw [← Bool.not_eq_true, Nat.beq_eq]; exact h1
      rw [e1] at h'; simp at h'

/-! ### the packed inputs -/

/-- `S` (with length `n`) packs the field vector `a` -/
def VecRel (a : Array Felt) (S n : Nat) : Prop :=
  n = a.size ∧ ∀ i (h : i < a.size), rawGet S i = a[i].val

/-- `S` (with length `n`) packs the vector `a` of natural numbers -/
def NatVecRel (a : Array Nat) (S n : Nat) : Prop :=
  n = a.size ∧ ∀ i (h : i < a.size), rawGet S i = a[i]

structure FIRel (inp : Inputs) (fi : FInputs) : Prop where
  mask : VecRel inp.mask fi.mask fi.maskN
  col : VecRel inp.col fi.col fi.colN
  oodsv : VecRel inp.oodsv fi.oodsv fi.oodsvN
  gv : VecRel inp.gv fi.gv fi.gvN
  dp : NatVecRel inp.dp fi.dp fi.dpN
  point : fi.point = inp.point.val
  tgen : fi.tgen = inp.tgen.val
  oodsPoint : fi.oodsPoint = inp.oodsPoint.val

theorem pack_felts {β : Type} (a : Array Felt) (c : Nat → Option β) (r : β)
    (h : packAux (feltVals a) 0 0 c = some r) :
    ∃ S, c S = some r ∧ VecRel a S (listLen (feltVals a) 0) := by
  obtain ⟨S, hc, hS⟩ := packAux_sound _ _ _ _ _ h
  refine ⟨S, hc, ?_, fun i hi => ?_⟩
  · rw [listLen_eq]; simp [feltVals]
  · rw [hS i]
    have hl : (feltVals a).length = a.size := by simp [feltVals]
    rw [if_pos ⟨Nat.zero_le _, by omega⟩]
    simp [feltVals, List.getD_eq_getElem?_getD, hi]

theorem pack_nats {β : Type} (a : Array Nat) (c : Nat → Option β) (r : β)
    (h : packAux a.toList 0 0 c = some r) :
    ∃ S, c S = some r ∧ NatVecRel a S (listLen a.toList 0) := by
  obtain ⟨S, hc, hS⟩ := packAux_sound _ _ _ _ _ h
  refine ⟨S, hc, ?_, fun i hi => ?_⟩
  · rw [listLen_eq]; simp
  · rw [hS i]
    rw [if_pos ⟨Nat.zero_le _, by simpa using hi⟩]
    simp [List.getD_eq_getElem?_getD, hi]

theorem withInputs_sound {β : Type} (inp : Inputs) (c : FInputs → Option β) (r : β)
    (h : withInputs inp c = some r) : ∃ fi, c fi = some r ∧ FIRel inp fi := by
  unfold withInputs at h
  obtain ⟨mask, h, hmask⟩ := pack_felts _ _ _ h
  obtain ⟨col, h, hcol⟩ := pack_felts _ _ _ h
  obtain ⟨oodsv, h, hoodsv⟩ := pack_felts _ _ _ h
  obtain ⟨gv, h, hgv⟩ := pack_felts _ _ _ h
  obtain ⟨dp, h, hdp⟩ := pack_nats _ _ _ h
  simp only [force_eq] at h
  exact ⟨_, h, ⟨hmask, hcol, hoodsv, hgv, hdp, rfl, rfl, rfl⟩⟩

theorem idxK_sound {β : Type} (a : Array Felt) (S n : Nat) (hr : VecRel a S n) (i : Nat)
    (hs : List Nat) (c : K β) (r : β) (h : idxK S n i hs c = some r) :
    ∃ v, a[i]? = some v ∧ c v.val hs = some r := by
  unfold idxK at h
  rw [sel_eq, force_eq] at h
  by_cases hi : i < n
  · have e : Nat.blt i n = true := by rw [Nat.blt_eq]; exact hi
    rw [e, if_pos rfl] at h
    have hi' : i < a.size := hr.1 ▸ hi
    refine ⟨a[i], by simp [hi'], ?_⟩
    rw [← hr.2 i hi']; exact h
  · have e : Nat.blt i n = false := by rw [← Bool.not_eq_true, Nat.blt_eq]; exact hi
    rw [e] at h; simp at h

theorem idx_ok_of {a : Array Felt} {i : Nat} {v : Felt} (site : String) (h : a[i]? = some v) :
    idx a i site = .ok v := by
  unfold idx; rw [h]


/-! ### expressions -/

/-- operands of a binary node -/
theorem bin_sound {β : Type} (inp : Inputs) (st : Store) (op : Nat → Nat → Nat) (ea eb : Expr) (fa fb : List Nat → K β → Option β)
    (iha : ∀ (hs : List Nat) (c : K β) (r : β), fa hs c = some r →
      ∃ v hs', ea.eval {inp with coeff := #[]} st = .ok v ∧ c v.val hs' = some r)
    (ihb : ∀ (hs : List Nat) (c : K β) (r : β), fb hs c = some r →
      ∃ v hs', eb.eval {inp with coeff := #[]} st = .ok v ∧ c v.val hs' = some r)
    (hs : List Nat) (c : K β) (r : β) (h : bin op fa fb hs c = some r) :
    ∃ x y hs', ea.eval {inp with coeff := #[]} st = .ok x ∧
      eb.eval {inp with coeff := #[]} st = .ok y ∧ c (op x.val y.val) hs' = some r := by
  unfold bin at h
  obtain ⟨x, hs1, hx, h1⟩ := iha _ _ _ h
  obtain ⟨y, hs2, hy, h2⟩ := ihb _ _ _ h1
  rw [force_eq] at h2
  exact ⟨x, y, hs2, hx, hy, h2⟩

section eval
variable {β : Type} (inp : Inputs) (fi : FInputs) (hfi : FIRel inp fi)
include hfi

theorem ixK_sound (ix : Ix) : ∀ (c : Nat → Option β) (r : β), ixK fi ix c = some r →
    ∃ n, ix.eval {inp with coeff := #[]} = some n ∧ c n = some r := by
  induction ix with
  | lit n => intro c r h; exact ⟨n, rfl, h⟩
  | dp i =>
    intro c r h
    have h' : sel (Nat.blt i fi.dpN) (force (rawGet fi.dp i) c) none = some r := h
    rw [sel_eq, force_eq] at h'
    by_cases hi : i < fi.dpN
    · have e : Nat.blt i fi.dpN = true := by rw [Nat.blt_eq]; exact hi
      rw [e, if_pos rfl] at h'
      have hi' : i < inp.dp.size := hfi.dp.1 ▸ hi
      refine ⟨inp.dp[i], by simp [Ix.eval, hi'], ?_⟩
      rw [← hfi.dp.2 i hi']; exact h'
    · have e : Nat.blt i fi.dpN = false := by rw [← Bool.not_eq_true, Nat.blt_eq]; exact hi
      rw [e] at h'; simp at h'
  | add a b iha ihb =>
    intro c r h
    have h' : ixK fi a (fun x => ixK fi b fun y => force (Nat.add x y) c) = some r := h
    obtain ⟨x, hx, h1⟩ := iha _ _ h'
    obtain ⟨y, hy, h2⟩ := ihb _ _ h1
    rw [force_eq] at h2
    exact ⟨x + y, by simp only [Ix.eval, hx, hy], h2⟩

variable (S : Tree) (st : Store) (hS : ∀ s, getS S s = (st s).val)
include hS

/-- **Soundness of `evalK`**: if the fast evaluation succeeds, the model evaluation (against the
    empty coefficient vector) returns a value `v`, and the continuation was called on `v.val`. -/
theorem evalK_sound (e : Expr) : ∀ (hs : List Nat) (c : K β) (r : β),
    evalK fi S e hs c = some r →
    ∃ v hs', e.eval {inp with coeff := #[]} st = .ok v ∧ c v.val hs' = some r := by
  induction e with
  | const n =>
    intro hs c r h
    have h' : (force (Nat.mod n P) fun v => c v hs) = some r := h
    rw [force_eq] at h'
    exact ⟨Felt.ofNat n, hs, rfl, h'⟩
  | var s =>
    intro hs c r h
    have h' : (force (getS S s) fun v => c v hs) = some r := h
    rw [force_eq, hS s] at h'
    exact ⟨st s, hs, rfl, h'⟩
  | gv i =>
    intro hs c r h
    obtain ⟨v, hv, hc⟩ := idxK_sound _ _ _ hfi.gv i hs c r h
    exact ⟨v, hs, idx_ok_of _ hv, hc⟩
  | dp i =>
    intro hs c r h
    have h' : idxK fi.dp fi.dpN i hs (fun v hs' => force (Nat.mod v P) fun w => c w hs') = some r := h
    unfold idxK at h'
    rw [sel_eq, force_eq] at h'
    by_cases hi : i < fi.dpN
    · have e : Nat.blt i fi.dpN = true := by rw [Nat.blt_eq]; exact hi
      rw [e, if_pos rfl] at h'
      simp only [force_eq] at h'
      have hi' : i < inp.dp.size := hfi.dp.1 ▸ hi
      rw [hfi.dp.2 i hi'] at h'
      refine ⟨Felt.ofNat inp.dp[i], hs, ?_, h'⟩
      simp [Expr.eval, hi']
    · have e : Nat.blt i fi.dpN = false := by rw [← Bool.not_eq_true, Nat.blt_eq]; exact hi
      rw [e] at h'; simp at h'
  | mask i =>
    intro hs c r h
    obtain ⟨v, hv, hc⟩ := idxK_sound _ _ _ hfi.mask i hs c r h
    exact ⟨v, hs, idx_ok_of _ hv, hc⟩
  | oodsv i =>
    intro hs c r h
    obtain ⟨v, hv, hc⟩ := idxK_sound _ _ _ hfi.oodsv i hs c r h
    exact ⟨v, hs, idx_ok_of _ hv, hc⟩
  | coeff i => intro hs c r h; cases h
  | col ix =>
    intro hs c r h
    have h' : ixK fi ix (fun i => idxK fi.col fi.colN i hs c) = some r := h
    obtain ⟨n, hn, h1⟩ := ixK_sound inp fi hfi ix _ _ h'
    obtain ⟨v, hv, hc⟩ := idxK_sound _ _ _ hfi.col n hs c r h1
    refine ⟨v, hs, ?_, hc⟩
    simp only [Expr.eval, hn]
    exact idx_ok_of _ hv
  | point =>
    intro hs c r h
    have h' : c fi.point hs = some r := h
    rw [hfi.point] at h'
    exact ⟨inp.point, hs, rfl, h'⟩
  | tgen =>
    intro hs c r h
    have h' : c fi.tgen hs = some r := h
    rw [hfi.tgen] at h'
    exact ⟨inp.tgen, hs, rfl, h'⟩
  | oodsPoint =>
    intro hs c r h
    have h' : c fi.oodsPoint hs = some r := h
    rw [hfi.oodsPoint] at h'
    exact ⟨inp.oodsPoint, hs, rfl, h'⟩
  | add a b iha ihb =>
    intro hs c r h
    obtain ⟨x, y, hs', hx, hy, hc⟩ := bin_sound inp st addP a b _ _ iha ihb hs c r h
    exact ⟨x + y, hs', by simp only [Expr.eval, hx, hy], hc⟩
  | sub a b iha ihb =>
    intro hs c r h
    obtain ⟨x, y, hs', hx, hy, hc⟩ := bin_sound inp st subP a b _ _ iha ihb hs c r h
    exact ⟨x - y, hs', by simp only [Expr.eval, hx, hy], hc⟩
  | mul a b iha ihb =>
    intro hs c r h
    obtain ⟨x, y, hs', hx, hy, hc⟩ := bin_sound inp st mulP a b _ _ iha ihb hs c r h
    exact ⟨x * y, hs', by simp only [Expr.eval, hx, hy], hc⟩
  | neg a iha =>
    intro hs c r h
    have h' : evalK fi S a hs (fun x hs1 => force (negP x) fun v => c v hs1) = some r := h
    obtain ⟨x, hs1, hx, h1⟩ := iha _ _ _ h'
    rw [force_eq] at h1
    exact ⟨-x, hs1, by simp only [Expr.eval, hx], h1⟩
  | fdiv a b iha ihb =>
    intro hs c r h
    have h' : evalK fi S a hs (fun x hs1 => evalK fi S b hs1 fun y hs2 => fdivK x y hs2 c) = some r := h
    obtain ⟨x, hs1, hx, h1⟩ := iha _ _ _ h'
    obtain ⟨y, hs2, hy, h2⟩ := ihb _ _ _ h1
    obtain ⟨hy0, hs', hc⟩ := fdivK_sound x y hs2 c r h2
    exact ⟨x * Felt.inv y, hs', by simp only [Expr.eval, hx, hy, if_neg hy0], hc⟩
  | floorDiv a b iha ihb =>
    intro hs c r h
    obtain ⟨x, y, hs', hx, hy, hc⟩ :=
      bin_sound inp st (fun x y => Nat.mod (Nat.div x y) P) a b _ _ iha ihb hs c r h
    exact ⟨Felt.ofNat (x.val / y.val), hs', by simp only [Expr.eval, hx, hy], hc⟩
  | powFelt a b iha ihb =>
    intro hs c r h
    obtain ⟨x, y, hs', hx, hy, hc⟩ :=
      bin_sound inp st (fun x y => powN 256 x y) a b _ _ iha ihb hs c r h
    simp only [powN_val] at hc
    exact ⟨Felt.pow x y.val, hs', by simp only [Expr.eval, hx, hy], hc⟩

end eval

theorem guardsN_eq (S : Tree) (st : Store) (hS : ∀ s, getS S s = (st s).val) (gs : List Nat) : guardsN S gs = guardsHold st gs := by
  induction gs with
  | nil => rfl
  | cons g gs ih =>
    have h' : guardsN S (g :: gs) = sel (Nat.beq (getS S g) 0) false (guardsN S gs) := rfl
    rw [h', sel_eq, ih, hS g]
    unfold guardsHold
    simp only [List.all_cons]
    by_cases h0 : st g = 0
    · simp [h0]
    · have hv : (st g).val ≠ 0 := fun hv => h0 (Fin.ext hv)
      have : Nat.beq (st g).val 0 = false := by rw [← Bool.not_eq_true, Nat.beq_eq]; exact hv
      simp [this, h0]



/-! ### programs -/

theorem nzGo_nil {β : Type} (fi : FInputs) (S : Tree) (hs : List Nat) (k : Nat) (c : KS β) :
    nzGo fi [] S hs k c = c S hs k := rfl

theorem nzGo_cons {β : Type} (fi : FInputs) (g : GStmt) (rest : Prog) (S : Tree) (hs : List Nat)
    (k : Nat) (c : KS β) :
    nzGo fi (g :: rest) S hs k c =
      sel (guardsN S g.guards)
        (stmtK fi g.stmt S hs k fun S' hs' k' => nzGo fi rest S' hs' k' c)
        (nzGo fi rest S hs k c) := rfl

/-- the run distributes over `++` (used to evaluate the generated programs chunk by chunk) -/
theorem nzGo_append {β : Type} (fi : FInputs) (p q : Prog) : ∀ (S : Tree) (hs : List Nat) (k : Nat)
    (c : KS β), nzGo fi (p ++ q) S hs k c = nzGo fi p S hs k (fun S' hs' k' => nzGo fi q S' hs' k' c) := by
  induction p with
  | nil => intro S hs k c; rfl
  | cons g rest ih =>
    intro S hs k c
    rw [List.cons_append, nzGo_cons, nzGo_cons, ih]
    congr 1
    congr 1
    funext S' hs' k'
    rw [ih]

theorem zero_val : (0 : Felt).val = 0 := rfl

/-- one executed statement -/
theorem stmtK_sound {β : Type} (inp : Inputs) (fi : FInputs) (hfi : FIRel inp fi) (S : Tree)
    (st : Store) (hS : ∀ s, getS S s = (st s).val) (s : Stmt) (hs : List Nat) (k : Nat)
    (c : KS β) (r : β) (h : stmtK fi s S hs k c = some r) :
    ∃ S' st' hs' k', execFree {inp with coeff := #[]} st s = .ok st' ∧
      (∀ x, getS S' x = (st' x).val) ∧ c S' hs' k' = some r ∧
      k' = k + (termOf {inp with coeff := #[]} st s).length ∧
      ∀ iv ∈ termOf {inp with coeff := #[]} st s, iv.2 ≠ 0 := by
  cases s with
  | set x e =>
    have h' : evalK fi S e hs (fun v hs' => setS S x v fun S' => c S' hs' k) = some r := h
    obtain ⟨v, hs', hv, h1⟩ := evalK_sound inp fi hfi S st hS e _ _ _ h'
    obtain ⟨S', h2, hS'⟩ := setS_spec S x v.val (val_lt_B v) (fun S' => c S' hs' k)
    rw [h2] at h1
    refine ⟨S', st.set x v, hs', k, by simp only [execFree, hv], fun y => ?_, h1, by simp [termOf],
      by simp [termOf]⟩
    rw [hS' y]
    unfold Store.set
    by_cases hy : y = x
    · rw [if_pos hy, if_pos hy]
    · rw [if_neg hy, if_neg hy, hS y]
  | acc dst src i e =>
    have h' : evalK fi S e hs (fun v hs' => sel (Nat.beq v 0) none
        (force (Nat.succ k) fun k' => setS S dst 0 fun S' => c S' hs' k')) = some r := h
    obtain ⟨v, hs', hv, h1⟩ := evalK_sound inp fi hfi S st hS e _ _ _ h'
    rw [sel_eq, force_eq] at h1
    by_cases hv0 : v.val = 0
    · have e0 : Nat.beq v.val 0 = true := by rw [Nat.beq_eq]; exact hv0
      rw [e0] at h1; simp at h1
    · have e0 : Nat.beq v.val 0 = false := by rw [← Bool.not_eq_true, Nat.beq_eq]; exact hv0
      rw [e0] at h1
      simp only [Bool.false_eq_true, if_false] at h1
      obtain ⟨S', h2, hS'⟩ := setS_spec S dst 0 (by decide) (fun S' => c S' hs' (Nat.succ k))
      rw [h2] at h1
      refine ⟨S', st.set dst 0, hs', k + 1, by simp only [execFree, hv], fun y => ?_, h1,
        by simp [termOf, hv], ?_⟩
      · rw [hS' y]
        unfold Store.set
        by_cases hy : y = dst
        · rw [if_pos hy, if_pos hy]; rfl
        · rw [if_neg hy, if_neg hy, hS y]
      · intro iv hiv
        simp only [termOf, hv, List.mem_singleton] at hiv
        subst hiv
        exact fun h0 => hv0 (by rw [show v = 0 from h0]; rfl)

/-- **Soundness of `nzGo`**: a successful fast run follows the shadow run `termsFrom`; the counter
    advances by the number of executed accumulate statements and all their terms are non-zero. -/
theorem nzGo_sound {β : Type} (inp : Inputs) (fi : FInputs) (hfi : FIRel inp fi) (p : Prog) :
    ∀ (S : Tree) (st : Store) (hs : List Nat) (k : Nat) (c : KS β) (r : β),
      (∀ s, getS S s = (st s).val) → nzGo fi p S hs k c = some r →
      ∃ S' hs' k', c S' hs' k' = some r ∧
        k' = k + (termsFrom {inp with coeff := #[]} p st).length ∧
        ∀ iv ∈ termsFrom {inp with coeff := #[]} p st, iv.2 ≠ 0 := by
  induction p with
  | nil =>
    intro S st hs k c r _ h
    exact ⟨S, hs, k, h, by simp [termsFrom], by simp [termsFrom]⟩
  | cons g rest ih =>
    intro S st hs k c r hS h
    rw [nzGo_cons, sel_eq, guardsN_eq S st hS] at h
    simp only [termsFrom]
    by_cases hg : guardsHold st g.guards = true
    · rw [hg, if_pos rfl] at h
      rw [if_pos hg]
      obtain ⟨S1, st1, hs1, k1, hex, hS1, h1, hk1, hnz1⟩ :=
        stmtK_sound inp fi hfi S st hS g.stmt hs k _ r h
      obtain ⟨S', hs', k', hc, hk', hnz⟩ := ih S1 st1 hs1 k1 c r hS1 h1
      refine ⟨S', hs', k', hc, ?_, ?_⟩
      · simp only [hex, List.length_append]; omega
      · simp only [hex]
        intro iv hiv
        rcases List.mem_append.1 hiv with h | h
        · exact hnz1 iv h
        · exact hnz iv h
    · have hg' : guardsHold st g.guards = false := by simpa using hg
      rw [hg'] at h
      simp only [Bool.false_eq_true, if_false] at h
      rw [if_neg hg]
      exact ih S st hs k c r hS h

/-- **Soundness of `nzCount`** (all programs, inputs, hint lists): the shadow run executes exactly
    `k` accumulate statements and each of their terms is non-zero. -/
theorem nzCount_sound (inp : Inputs) (hints : List Nat) (p : Prog) (k : Nat)
    (h : nzCount inp hints p = some k) :
    (executedTerms inp p).length = k ∧ ∀ iv ∈ executedTerms inp p, iv.2 ≠ 0 := by
  unfold nzCount at h
  obtain ⟨fi, h1, hfi⟩ := withInputs_sound inp _ _ h
  obtain ⟨S', hs', k', hc, hk', hnz⟩ :=
    nzGo_sound inp fi hfi p .leaf (fun _ => 0) hints 0 _ k (fun s => by rw [getS_leaf]; rfl) h1
  simp only [Option.some.injEq] at hc
  subst hc
  exact ⟨by unfold executedTerms; omega, hnz⟩

/-! ### every coefficient position has a non-zero term -/

open Swiftness.Proofs.AstLinear in
/-- the indices of the executed accumulate statements are a subsequence of all accumulate indices -/
theorem termsFrom_idx_sublist (inp : Inputs) (p : Prog) : ∀ st : Store,
    ((termsFrom inp p st).map (·.1)).Sublist (accIndices p) := by
  induction p with
  | nil => intro st; simp [termsFrom, accIndices]
  | cons g rest ih =>
    intro st
    obtain ⟨gs, s⟩ := g
    simp only [termsFrom]
    cases s with
    | set x e =>
      simp only [accIndices]
      split
      · cases hex : execFree inp st (.set x e) with
        | ok st' => simpa [termOf] using ih st'
        | err x => simp
        | panic x => simp
      · exact ih st
    | acc dst src i e =>
      simp only [accIndices]
      split
      · cases hv : e.eval inp st with
        | ok v =>
          simp only [execFree, termOf, hv, List.map_cons, List.singleton_append]
          exact (ih _).cons_cons i
        | err x => simp [execFree, hv]
        | panic x => simp [execFree, hv]
      · exact (ih st).cons i

/-- **Non-vanishing from one witness**: if the fast run on the input `W` executes `n` accumulate
    statements with non-zero terms and `p` has exactly the `n` coefficient positions `0 … n-1`
    (`checkCoverage`), then on `W` EVERY accumulate statement is executed, and every coefficient
    position `i < n` has an executed term with a non-zero value — so no position's term is the zero
    polynomial. -/
theorem nonvanishing_of_nzCount (W : Inputs) (hints : List Nat) (p : Prog) (n : Nat)
    (h : nzCount W hints p = some n) (hcov : checkCoverage p n = true) :
    (executedTerms W p).map (·.1) = accIndices p ∧
    ∀ i, i < n → ∃ v, (i, v) ∈ executedTerms W p ∧ v ≠ 0 := by
  obtain ⟨hlen, hnz⟩ := nzCount_sound W hints p n h
  obtain ⟨hcount, -, hacc⟩ := AstLinear.coverage_spec_full p n hcov
  have hsub := termsFrom_idx_sublist {W with coeff := #[]} p (fun _ => 0)
  have heq : (executedTerms W p).map (·.1) = accIndices p := by
    apply hsub.eq_of_length
    rw [List.length_map, hacc]
    exact hlen
  refine ⟨heq, fun i hi => ?_⟩
  have hmem : i ∈ (executedTerms W p).map (·.1) := by
    rw [heq]
    exact List.count_pos_iff.1 (by rw [hcount i hi]; exact Nat.one_pos)
  obtain ⟨⟨i', v⟩, hiv, rfl⟩ := List.mem_map.1 hmem
  exact ⟨v, hiv, hnz _ hiv⟩

/-- `ast_nz f` proves `nzCount W hints f = some n` by kernel evaluation, chunk by chunk -/
macro "ast_nz " f:ident : tactic =>
  `(tactic| (unfold Swiftness.Ast.Fast.nzCount $f; (try simp only [nzGo_append]); decide +kernel))

end Swiftness.Proofs.AstFast
