/-
  C07, items 4 and 5 on `Felt`: sensitivity of the fold to the evaluation point, and binding of the
  last layer (two different coefficient lists of length `L` cannot both pass `L` distinct query points).
-/
import Swiftness.Proofs.FriSoundPoly
import Swiftness.Proofs.FriLayerLast
import Swiftness.Proofs.FoldFelt

namespace Swiftness.Proofs.FriSound

open Swiftness Fri FoldSpec Polynomial
attribute [-instance] Fin.instOfNat

/-! ### evaluation point -/

theorem eval_point_sensitive (fx fmx e e' xinv : Felt) :
    formula2 fx fmx e xinv = formula2 fx fmx e' xinv ↔ (e = e' ∨ xinv = 0 ∨ fx = fmx) := by
  unfold formula2
  constructor
  · intro h
    have h0 : (e - e') * xinv * (fx - fmx) = 0 := by linear_combination h
    rcases mul_eq_zero.mp h0 with h1 | h1
    · rcases mul_eq_zero.mp h1 with h2 | h2
      · exact Or.inl (sub_eq_zero.mp h2)
      · exact Or.inr (Or.inl h2)
    · exact Or.inr (Or.inr (sub_eq_zero.mp h1))
  · rintro (rfl | rfl | rfl) <;> ring

section generic
variable {F : Type} [Field F]

/-- a polynomial `a · Σ_{j<n} c_j b^j` in `b` that takes the same value at `n` distinct points is
    constant: `c_j = 0` for `1 ≤ j < n` -/
theorem const_of_many_agree (c : ℕ → F) (n : ℕ) (a : F) (ha : a ≠ 0) (S : Finset F) (v : F)
    (hS : ∀ b ∈ S, a * ∑ j ∈ Finset.range n, b ^ j * c j = v) (hcard : n ≤ S.card) :
    ∀ j, 1 ≤ j → j < n → c j = 0 := by
  intro j hj1 hjn
  let g : F[X] := C a * (∑ i ∈ Finset.range n, C (c i) * X ^ i) - C v
  have hdeg : g.natDegree ≤ n - 1 := by
    refine (natDegree_sub_le _ _).trans (max_le ?_ (by simp))
    refine (natDegree_C_mul_le _ _).trans ?_
    apply natDegree_sum_le_of_forall_le
    intro i hi
    have := Finset.mem_range.mp hi
    exact (natDegree_C_mul_X_pow_le _ _).trans (by omega)
  have heval : ∀ b ∈ S, g.eval b = 0 := by
    intro b hb
    simp only [g, eval_sub, eval_mul, eval_C, eval_finsetSum, eval_pow, eval_X]
    rw [← hS b hb, sub_eq_zero]
    congr 1
    apply Finset.sum_congr rfl
    intro i _; ring
  have hg : g = 0 := eq_zero_of_natDegree_lt_card_of_eval_eq_zero' g S heval (by omega)
  have hc := congrArg (fun p => p.coeff j) hg
  simp only [g, coeff_sub, coeff_C_mul, finsetSum_coeff, coeff_X_pow, coeff_zero] at hc
  rw [Finset.sum_eq_single j] at hc
  · have hCv : (C v : F[X]).coeff j = 0 := coeff_C_of_ne_zero (by omega)
    rw [hCv] at hc
    simp only [if_true, mul_one, sub_zero] at hc
    exact (mul_eq_zero.mp hc).resolve_left ha
  · intro i _ hne; simp [Ne.symm hne]
  · intro h; exact absurd (Finset.mem_range.mpr hjn) h

end generic

theorem two_felt_ne_zero : (2 : Felt) ≠ 0 := by decide +kernel

/-- `fri_formula` on a coset of size `2^k` (`k = 1 … 4`), as a function of the evaluation point: it
    is the polynomial `2^k · Σ_j P_j(x^(2^k)) · e^j` of degree `< 2^k` in `e` (C06 `fold_identity`);
    so if `2^k` distinct evaluation points give one and the same folded value then the fold does not
    depend on `e` at all: `P_j(x^(2^k)) = 0` for all `1 ≤ j < 2^k`.  For `k = 1` this is the exception
    `fx = fmx` of `eval_point_sensitive`. -/
theorem eval_point_sensitive_coset (k : ℕ) (hk1 : 1 ≤ k) (hk4 : k ≤ 4) (cs : List Felt) (x : Felt)
    (hx : x ≠ 0) (S : Finset Felt) (v : Felt)
    (hS : ∀ b ∈ S, friFormula (List.ofFn (fun j : Fin (2 ^ k) => evalL cs (x * friGroup.getD j.val 0)))
      b x⁻¹ ((2 ^ k : ℕ) : Felt) = .ok v)
    (hcard : 2 ^ k ≤ S.card) :
    ∀ j, 1 ≤ j → j < 2 ^ k → evalL (split k cs j) (x ^ 2 ^ k) = 0 := by
  have ha : ((2 ^ k : ℕ) : Felt) ≠ 0 := by
    rw [Nat.cast_pow]; exact pow_ne_zero _ (by exact_mod_cast two_felt_ne_zero)
  apply const_of_many_agree (fun j => evalL (split k cs j) (x ^ 2 ^ k)) (2 ^ k) _ ha S v _ hcard
  intro b hb
  have h1 := hS b hb
  rw [Proofs.fold_identity k hk1 hk4 cs x x⁻¹ b (mul_inv_cancel₀ hx)] at h1
  exact Outcome.ok.inj h1

/-! ### last layer -/

theorem verifyLastLayer_ok_imp (qs : List LayerQuery) (cs : List Felt)
    (h : verifyLastLayer qs cs = .ok ()) :
    ∀ q ∈ qs, q.xInvValue ≠ 0 ∧ evalL cs (q.xInvValue)⁻¹ = q.yValue := by
  have hne : ∀ q ∈ qs, q.xInvValue ≠ 0 := by
    induction qs with
    | nil => intro q hq; cases hq
    | cons q0 qs ih =>
      unfold verifyLastLayer at h
      rw [felt_zero_lit] at h
      split at h
      · cases h
      · next h0 =>
        split at h
        · cases h
        · intro q hq
          rcases List.mem_cons.mp hq with rfl | hq
          · exact h0
          · exact ih h q hq
  intro q hq
  exact ⟨hne q hq, (verifyLastLayer_ok_iff qs cs hne).mp h q hq⟩

/-- **The last layer is binding.**  If two coefficient lists of the same length are both accepted on
    the same queries, they evaluate equally at every query point (so their difference polynomial
    vanishes there), and if they are different lists the queries contain fewer distinct points than
    the common length. -/
theorem last_layer_binding (cs cs' : List Felt) (qs : List LayerQuery)
    (hlen : cs.length = cs'.length)
    (h1 : verifyLastLayer qs cs = .ok ()) (h2 : verifyLastLayer qs cs' = .ok ()) :
    (∀ q ∈ qs, evalL (List.zipWith (· - ·) cs cs') (q.xInvValue)⁻¹ = 0) ∧
    (cs ≠ cs' → (qs.map (·.xInvValue)).toFinset.card < cs.length) := by
  have g1 := verifyLastLayer_ok_imp qs cs h1
  have g2 := verifyLastLayer_ok_imp qs cs' h2
  refine ⟨?_, ?_⟩
  · intro q hq
    rw [evalL_zipWith_sub cs cs' hlen, (g1 q hq).2, (g2 q hq).2, sub_self]
  · intro hne
    by_contra hcard
    apply hne
    have hinj : Function.Injective (fun a : Felt => a⁻¹) := inv_injective
    apply evalL_agree_eq cs cs' hlen ((qs.map (·.xInvValue)).toFinset.image (fun a => a⁻¹))
    · intro y hy
      obtain ⟨a, ha, rfl⟩ := Finset.mem_image.mp hy
      obtain ⟨q, hq, rfl⟩ := List.mem_map.mp (List.mem_toFinset.mp ha)
      rw [(g1 q hq).2, (g2 q hq).2]
    · rw [Finset.card_image_of_injective _ hinj]
      omega

end Swiftness.Proofs.FriSound
