/-
  C02 helper lemmas, part 5: TWO accepting runs of `Fri.verify` on the same queries, the same input
  values and the same FRI commitment, with different layer witnesses.  The fold step is a
  deterministic function of the query list and of the witness leaves it consumes
  (`rowOf_two`, `friRows_two`), the rows it hands to the table decommitment are bound by the layer's
  commitment (`table_two_openings`), hence layer by layer: same coset indices, same rows (queried
  values AND consumed witness leaves), same next-layer queries, same consumed leaves, same
  consumed authentication nodes — or an explicit collision.
-/
import Swiftness.Proofs.TamperMerkle
import Swiftness.Proofs.FriSoundChain

namespace Swiftness.Proofs.Tamper

open Swiftness Swiftness.Fri Swiftness.Merkle Swiftness.TableSpec Swiftness.Proofs.FriSound

variable {H : Hashes}

/-! ### the fold step is deterministic in the consumed leaves -/

/-- two rows built at the same offset from the same remaining query list, of the same length:
    the same queries are consumed, the same coset x-inverse results, and if the rows are equal the
    consumed witness leaves are equal -/
theorem rowOf_two {start : Felt} {rest : List LayerQuery} {i : Nat} {x0 : Felt}
    {qsC : List LayerQuery} {ss row : List Felt} {x : Felt}
    (h1 : RowOf start rest i x0 qsC ss row x) :
    ∀ {rest' qsC' : List LayerQuery} {ss' row' : List Felt} {x' : Felt},
      RowOf start rest' i x0 qsC' ss' row' x' → qsC ++ rest = qsC' ++ rest' →
      row.length = row'.length →
      qsC = qsC' ∧ rest = rest' ∧ x = x' ∧ (row = row' → ss = ss') := by
  induction h1 with
  | nil i x =>
    intro rest' qsC' ss' row' x' h2 hT hl
    cases h2 with
    | nil => exact ⟨rfl, by simpa using hT, rfl, fun _ => rfl⟩
    | query _ _ _ => simp at hl
    | sib _ _ => simp at hl
  | @query i x0 x g q qs ss row hq hg hrec ih =>
    intro rest' qsC' ss' row' x' h2 hT hl
    cases h2 with
    | nil => simp at hl
    | @query _ _ _ g' q' qs' _ row0' hq' hg' hrec' =>
      simp only [List.cons_append, List.cons.injEq] at hT
      obtain ⟨rfl, hT⟩ := hT
      have hgg : g = g' := Option.some.inj (hg.symm.trans hg')
      subst hgg
      obtain ⟨e1, e2, e3, e4⟩ := ih hrec' hT (by simpa using hl)
      refine ⟨by rw [e1], e2, e3, ?_⟩
      intro he
      simp only [List.cons.injEq, true_and] at he
      exact e4 he
    | sib hne' _ =>
      exfalso
      rw [← hT] at hne'
      exact hne' q (by simp) hq
  | @sib i x0 x s qs ss row hne hrec ih =>
    intro rest' qsC' ss' row' x' h2 hT hl
    cases h2 with
    | nil => simp at hl
    | @query _ _ _ g' q' qs' _ row0' hq' hg' hrec' =>
      exfalso
      rw [hT] at hne
      exact hne q' (by simp) hq'
    | @sib _ _ _ s' _ ss0' row0' hne' hrec' =>
      obtain ⟨e1, e2, e3, e4⟩ := ih hrec' hT (by simpa using hl)
      refine ⟨e1, e2, e3, ?_⟩
      intro he
      simp only [List.cons.injEq] at he
      rw [he.1, e4 he.2]

/-- two successful fold steps on the same query list: same coset indices, rows of the same total
    length, and if the rows are equal then the same witness leaves were consumed and the same
    next-layer queries result -/
theorem friRows_two {n e : Felt} {Q : List LayerQuery} {used : List Felt} {nq : List LayerQuery}
    {vi vy : List Felt} (h1 : Rows n e Q used nq vi vy) :
    ∀ {used' : List Felt} {nq' : List LayerQuery} {vi' vy' : List Felt},
      Rows n e Q used' nq' vi' vy' →
      vi = vi' ∧ vy.length = vy'.length ∧ (vy = vy' → used = used' ∧ nq = nq') := by
  induction h1 with
  | nil =>
    intro used' nq' vi' vy' h2
    generalize hQ : ([] : List LayerQuery) = Q' at h2
    cases h2 with
    | nil => exact ⟨rfl, rfl, fun _ => ⟨rfl, rfl⟩⟩
    | cons _ _ hsplit _ _ _ _ _ => rw [← hQ] at hsplit; cases hsplit
  | @cons ci xinv y q0 rest qsC qs ssC ss row vi vy nq hn0 hlt hsplit hci hrow hlen hf hrest ih =>
    intro used' nq' vi' vy' h2
    generalize hQ : qsC ++ qs = Q' at h2
    cases h2 with
    | nil => rw [hsplit] at hQ; cases hQ
    | @cons ci' xinv' y' q0' rest' qsC' qs' ssC' ss' row' vi0' vy0' nq0' _ _ hsplit' hci' hrow' hlen'
        hf' hrest' =>
      have hq0 : q0 = q0' := by
        have := hsplit.symm.trans (hQ.trans hsplit')
        exact (List.cons.inj this).1
      subst hq0
      have hcc : ci = ci' := hci.trans hci'.symm
      subst hcc
      obtain ⟨e1, e2, e3, e4⟩ := rowOf_two hrow hrow' hQ (hlen.trans hlen'.symm)
      subst e1 e2 e3
      obtain ⟨f1, f2, f3⟩ := ih hrest'
      refine ⟨by rw [f1], by simp only [List.length_append, hlen, hlen', f2], ?_⟩
      intro he
      obtain ⟨r1, r2⟩ := List.append_inj he (hlen.trans hlen'.symm)
      subst r1
      obtain ⟨g1, g2⟩ := f3 r2
      have hy : y = y' := by
        rw [hf] at hf'; exact Outcome.ok.inj hf'
      rw [e4 rfl, g1, g2, hy]
      exact ⟨rfl, rfl⟩

/-- `compute_next_layer` on the same queries with two leaf lists -/
theorem computeNextLayer_two {qs : List LayerQuery} {s s' : List Felt} {n e : Felt}
    {nl nl' : NextLayer} (h : computeNextLayer qs s n e = .ok nl)
    (h' : computeNextLayer qs s' n e = .ok nl') :
    nl.verifyIndices = nl'.verifyIndices ∧
    (nl.verifyYValues = nl'.verifyYValues →
      nl.nextQueries = nl'.nextQueries ∧
      ∃ used, s = used ++ nl.siblingsLeft ∧ s' = used ++ nl'.siblingsLeft) := by
  obtain ⟨used, hu, hR⟩ := computeNextLayer_rows _ _ _ _ _ h
  obtain ⟨used', hu', hR'⟩ := computeNextLayer_rows _ _ _ _ _ h'
  obtain ⟨e1, _, e3⟩ := friRows_two hR hR'
  refine ⟨e1, fun he => ?_⟩
  obtain ⟨g1, g2⟩ := e3 he
  exact ⟨g2, used, hu, by rw [g1]; exact hu'⟩

/-! ### one layer, all layers -/

/-- what two accepted runs agree on in layer `i` -/
structure LayerAgree (c : Fri.Commitment) (w w' : List LayerWitness) (i : Nat)
    (nl nl' : NextLayer) : Prop where
  /-- the coset indices sent to the table decommitment -/
  indices : nl.verifyIndices = nl'.verifyIndices
  /-- the coset rows: queried values and witness leaves, in position -/
  rows : nl.verifyYValues = nl'.verifyYValues
  /-- the next layer's queries (index, folded value, x-inverse) -/
  next : nl.nextQueries = nl'.nextQueries
  /-- the consumed witness leaves are the same list; what is left over is unread -/
  leaves : ∃ wi wi' used, w[i]? = some wi ∧ w'[i]? = some wi' ∧
    wi.leaves = used ++ nl.siblingsLeft ∧ wi'.leaves = used ++ nl'.siblingsLeft
  /-- the consumed authentication nodes are the same list (of the length the coset indices
      need); what is left over is unread -/
  auths : ∃ wi wi' ci pre ra rb, w[i]? = some wi ∧ w'[i]? = some wi' ∧
    c.innerLayers[i]? = some ci ∧ wi.auths = pre ++ ra ∧ wi'.auths = pre ++ rb ∧
    pre.length = authCount ci.vector.config.height.val (nl.verifyIndices.map (·.val))

theorem layer_two {c : Fri.Commitment} {w w' : List LayerWitness} {i : Nat}
    {qi : List LayerQuery} {nl nl' : NextLayer}
    (h : LayerOk H c w i qi nl) (h' : LayerOk H c w' i qi nl')
    (hne : nl.verifyIndices ≠ []) (hs : (nl.verifyIndices.map (·.val)).Pairwise (· < ·))
    (hht : ∀ ci, c.innerLayers[i]? = some ci → ci.vector.config.height.val ≤ 250 ∧
      ∀ x ∈ nl.verifyIndices, x.val < 2 ^ ci.vector.config.height.val) :
    LayerAgree c w w' i nl nl' ∨ Collision H ∨ ManyCollision H ∨ MaskedCollision H := by
  obtain ⟨ci, wi, ei, sti, a1, a2, a3, a4, a5, a6⟩ := h
  obtain ⟨ci', wi', ei', sti', b1, b2, b3, b4, b5, b6⟩ := h'
  rw [a1] at b1; rw [a3] at b3; rw [a4] at b4
  cases b1; cases b3; cases b4
  obtain ⟨hh, hr⟩ := hht ci a1
  obtain ⟨e1, e2⟩ := computeNextLayer_two a5 b5
  rw [← e1] at b6
  rcases table_two_openings ci hh _ _ _ _ _ hne hs hr a6 b6 with ⟨hv, pre, ra, rb, p1, p2, p3⟩ | hcol
  · left
    obtain ⟨g1, used, g2, g3⟩ := e2 hv
    exact ⟨e1, hv, g1, ⟨wi, wi', used, a2, b2, g2, g3⟩, ⟨wi, wi', ci, pre, ra, rb, a2, b2, a1, p1, p2, p3⟩⟩
  · exact Or.inr hcol

/-- **Two accepting runs of `Fri.verify`** (same queries, input values, points, commitment; witnesses
    `w`, `w'`) with traces `(q, nl)`, `(q', nl')`: the query lists of all layers coincide and every
    layer agrees (`LayerAgree`), or a collision is exhibited.  `hht` bounds the committed heights and
    the coset indices (for a validated configuration: `Tamper.accept_fri_heights`). -/
theorem fri_two_runs {queries : List Felt} {c : Fri.Commitment} {values points : List Felt}
    {w w' : List LayerWitness} {q q' : Nat → List LayerQuery} {nl nl' : Nat → NextLayer}
    (ht : AcceptTrace H queries c values points w q nl)
    (ht' : AcceptTrace H queries c values points w' q' nl')
    (hne : queries ≠ []) (hs : (queries.map (·.val)).Pairwise (· < ·))
    (hb : ∀ x ∈ queries, x.val < 2 ^ 64)
    (hht : ∀ i, i < (c.config.nLayers - 1).val → ∀ ci, c.innerLayers[i]? = some ci →
      ci.vector.config.height.val ≤ 250 ∧
      ∀ x ∈ (nl i).verifyIndices, x.val < 2 ^ ci.vector.config.height.val) :
    ((∀ i, i ≤ (c.config.nLayers - 1).val → q i = q' i) ∧
      ∀ i, i < (c.config.nLayers - 1).val → LayerAgree c w w' i (nl i) (nl' i)) ∨
      Collision H ∨ ManyCollision H ∨ MaskedCollision H := by
  by_cases hcol : Collision H ∨ ManyCollision H ∨ MaskedCollision H
  · exact Or.inr hcol
  left
  have hidx := trace_verifyIndices ht hne hs hb
  have hq : ∀ i, i ≤ (c.config.nLayers - 1).val → q i = q' i := by
    intro i
    induction i with
    | zero =>
      intro _
      have := ht.first
      rw [ht'.first] at this
      exact (Outcome.ok.inj this).symm
    | succ i ih =>
      intro hi
      have hqi := ih (by omega)
      have h1 := ht.layer i (by omega)
      have h2 := ht'.layer i (by omega)
      rw [← hqi] at h2
      obtain ⟨g1, g2, _⟩ := hidx i (by omega)
      rcases layer_two h1 h2 g1 g2 (hht i (by omega)) with ha | hc
      · rw [ht.next i (by omega), ht'.next i (by omega), ha.next]
      · exact absurd hc hcol
  refine ⟨hq, fun i hi => ?_⟩
  have h1 := ht.layer i hi
  have h2 := ht'.layer i hi
  rw [← hq i (by omega)] at h2
  obtain ⟨g1, g2, _⟩ := hidx i hi
  rcases layer_two h1 h2 g1 g2 (hht i hi) with ha | hc
  · exact ha
  · exact absurd hc hcol

end Swiftness.Proofs.Tamper
