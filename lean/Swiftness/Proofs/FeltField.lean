/-
  The model's `Felt = Fin P` is Mathlib's `ZMod P`; bridge lemmas between the executable
  operations of `Model/Felt.lean` and the field structure.
-/
import Swiftness.Proofs.Prime
import Mathlib.Algebra.Field.ZMod
import Mathlib.FieldTheory.Finite.Basic
import Mathlib.Tactic.Ring
import Mathlib.Tactic.LinearCombination

namespace Swiftness

instance : Field Felt := inferInstanceAs (Field (ZMod P))

theorem felt_eq_zmod : Felt = ZMod P := rfl

/-- core `OfNat` literals of `Fin P` are natural-number casts in the field -/
theorem felt_ofNat (n : ℕ) : (@OfNat.ofNat Felt n Fin.instOfNat) = ((n : ℕ) : Felt) := by
  simp [OfNat.ofNat]
  rfl

theorem Felt.ofNat_eq_cast (n : ℕ) : Felt.ofNat n = ((n : ℕ) : Felt) := rfl

theorem Felt.val_cast_of_lt {n : ℕ} (h : n < P) : ((n : ℕ) : Felt).val = n :=
  ZMod.val_cast_of_lt (n := P) h

theorem Felt.cast_val (a : Felt) : ((a.val : ℕ) : Felt) = a := ZMod.natCast_zmod_val (n := P) a

theorem Felt.one_eq : (1 : Felt) = @OfNat.ofNat Felt 1 Fin.instOfNat := by
  rw [felt_ofNat, Nat.cast_one]

theorem Felt.powAux_eq (fuel : ℕ) (a : Felt) (e : ℕ) (h : e < 2 ^ fuel) :
    Felt.powAux fuel a e = a ^ e := by
  induction fuel generalizing a e with
  | zero =>
    have : e = 0 := by simpa using h
    subst this
    simp only [Felt.powAux, pow_zero]
  | succ n ih =>
    unfold Felt.powAux
    split
    · next h0 => subst h0; simp only [pow_zero]
    · next h0 =>
      have hlt : e / 2 < 2 ^ n := by
        rw [pow_succ] at h; omega
      simp only [ih (a * a) (e / 2) hlt]
      have he : e = 2 * (e / 2) + e % 2 := by omega
      have hsq : (a * a) ^ (e / 2) = a ^ (2 * (e / 2)) := by
        rw [pow_mul, pow_two]
      split
      · next h1 =>
        conv_rhs => rw [he, h1, pow_succ]
        rw [hsq]; ring
      · next h1 =>
        have h2 : e % 2 = 0 := by omega
        conv_rhs => rw [he, h2, add_zero]
        rw [hsq]

theorem Felt.pow_eq (a : Felt) (e : ℕ) (h : e < 2 ^ 256) : Felt.pow a e = a ^ e :=
  Felt.powAux_eq 256 a e h

theorem P_lt_two_pow_256 : P < 2 ^ 256 := by decide +kernel

theorem Felt.pow_val_eq (a e : Felt) : Felt.pow a e.val = a ^ e.val :=
  Felt.pow_eq a e.val (lt_trans e.isLt P_lt_two_pow_256)

theorem Felt.inv_eq (a : Felt) : Felt.inv a = a⁻¹ := by
  unfold Felt.inv
  rw [Felt.pow_eq _ _ (lt_of_le_of_lt (Nat.sub_le _ _) P_lt_two_pow_256)]
  by_cases ha : a = 0
  · subst ha
    have : P - 2 ≠ 0 := by decide +kernel
    simp [zero_pow this]
  · have h1 : a ^ (P - 1) = 1 := ZMod.pow_card_sub_one_eq_one (p := P) ha
    have h2 : a ^ (P - 2) * a = 1 := by
      rw [← pow_succ]
      have : P - 2 + 1 = P - 1 := by decide +kernel
      rw [this]; exact h1
    exact eq_inv_of_mul_eq_one_left h2

end Swiftness
