/-
  C19 helpers: the annotation stream.  `mapE`, `parseLine`, `parseAnnotations`, extraction classes,
  the Data/Hash ordering lemma.
-/
import Swiftness.Model.Loader

namespace Swiftness.Loader
open Swiftness

/-! ### `Except` plumbing -/

theorem bind_eq_ok {ε α β} {x : Except ε α} {f : α → Except ε β} {b : β}
    (h : (x >>= f) = .ok b) : ∃ a, x = .ok a ∧ f a = .ok b := by
  cases x with
  | error e => cases h
  | ok a => exact ⟨a, rfl, h⟩

theorem ok_or_error {ε α} (x : Except ε α) : (∃ a, x = .ok a) ∨ (∃ e, x = .error e) := by
  cases x with
  | error e => exact .inr ⟨e, rfl⟩
  | ok a => exact .inl ⟨a, rfl⟩

/-! ### `mapE` -/

section mapE
variable {ε α β : Type} {f : α → Except ε β}

theorem mapE_cons_ok {a : α} {l : List α} {rs : List β} (h : mapE f (a :: l) = .ok rs) :
    ∃ b bs, f a = .ok b ∧ mapE f l = .ok bs ∧ rs = b :: bs := by
  simp only [mapE] at h
  split at h
  · cases h
  · rename_i b hb
    split at h
    · cases h
    · rename_i bs hbs
      cases h
      exact ⟨b, bs, hb, hbs, rfl⟩

/-- every element was converted … -/
theorem mapE_ok_mem : ∀ {l : List α} {rs : List β}, mapE f l = .ok rs → ∀ a ∈ l, ∃ b, f a = .ok b
  | [], _, _, a, ha => by cases ha
  | x :: l, rs, h, a, ha => by
    obtain ⟨b, bs, hb, hbs, _⟩ := mapE_cons_ok h
    rcases List.mem_cons.1 ha with rfl | ha
    · exact ⟨b, hb⟩
    · exact mapE_ok_mem hbs a ha

/-- … and the results are the images, in order. -/
theorem mapE_ok_eq : ∀ {l : List α} {rs : List β}, mapE f l = .ok rs →
    rs = l.filterMap (fun a => (f a).toOption)
  | [], rs, h => by simp only [mapE] at h; cases h; rfl
  | x :: l, rs, h => by
    obtain ⟨b, bs, hb, hbs, rfl⟩ := mapE_cons_ok h
    have ih := mapE_ok_eq hbs
    rw [List.filterMap_cons, hb]
    show b :: bs = b :: List.filterMap (fun a => (f a).toOption) l
    rw [← ih]

theorem mapE_ok_length : ∀ {l : List α} {rs : List β}, mapE f l = .ok rs → rs.length = l.length
  | [], rs, h => by simp only [mapE] at h; cases h; rfl
  | x :: l, rs, h => by
    obtain ⟨b, bs, _, hbs, rfl⟩ := mapE_cons_ok h
    simp [mapE_ok_length hbs]

/-- one failing element makes the whole `mapE` fail -/
theorem mapE_error_of_mem : ∀ {l : List α} {a : α} {e : ε}, a ∈ l → f a = .error e →
    ∃ e', mapE f l = .error e'
  | x :: l, a, e, ha, he => by
    rcases ok_or_error (mapE f (x :: l)) with ⟨rs, h⟩ | h
    · obtain ⟨b, hb⟩ := mapE_ok_mem h a ha
      rw [he] at hb; cases hb
    · exact h

end mapE

/-! ### lines -/

/-- what a line contributes -/
def item? (l : String) : Option Item :=
  match parseLine l with
  | .ok (some i) => some i
  | _ => none

/-- NOTHING DROPPED: the only lines `parseLine` skips are those that do not start with `P->V[`
    (titles, statistics, verifier messages); a line that starts with `P->V[` gives an item or an error. -/
theorem parseLine_none_iff (s : String) :
    parseLine s = .ok none ↔ stripPrefix? "P->V[".toList s.toList = none := by
  unfold parseLine
  constructor
  · intro h
    split at h
    · assumption
    · exfalso
      repeat' split at h
      all_goals first | cases h | skip
  · intro h
    rw [h]

/-- Where an item comes from: the line is `P->V[<range>: /cpu air/<path>: <label…>: <Kind>(<payload>)`; slot, kind
    and values are `parsePath path`, `parseKind Kind` and `parsePayload kind payload`, and the kind is one the
    path may carry.  In particular a line of a known class whose payload does not parse is an ERROR
    (it can be neither `ok none`, by `parseLine_none_iff`, nor `ok (some _)`, by this lemma). -/
theorem parseLine_some {s : String} {it : Item} (h : parseLine s = .ok (some it)) :
    ∃ rest rng path lbl more p kn payload,
      stripPrefix? "P->V[".toList s.toList = some rest ∧
      split2 ':' ' ' rest [] = rng :: path :: lbl :: more ∧ isRange rng = true ∧
      stripPrefix? "/cpu air/".toList path = some p ∧
      splitKindPayload ((lbl :: more).getLast?.getD []) = some (kn, payload) ∧
      parsePath p = some it.slot ∧ parseKind kn = some it.kind ∧ kindAllowed it.slot it.kind = true ∧
      parsePayload it.kind payload = some it.values := by
  unfold parseLine at h
  split at h
  · cases h
  rename_i rest hrest
  split at h
  · rename_i rng path lbl more hsplit
    split at h
    · cases h
    rename_i hrng
    split at h
    · cases h
    rename_i p hp
    split at h
    · cases h
    rename_i slot hslot
    split at h
    · cases h
    rename_i kn payload hkp
    split at h
    · cases h
    rename_i kind hkind
    split at h
    · cases h
    rename_i hallowed
    split at h
    · cases h
    rename_i vs hvs
    cases h
    exact ⟨rest, rng, path, lbl, more, p, kn, payload, hrest, hsplit, by simpa using hrng, hp, hkp, hslot, hkind,
      by simpa using hallowed, hvs⟩
  · cases h

theorem parseAnnotations_ok {lines : List String} {items : List Item}
    (h : parseAnnotations lines = .ok items) :
    (∀ l ∈ lines, ∃ r, parseLine l = .ok r) ∧ items = lines.filterMap item? := by
  unfold parseAnnotations at h
  split at h
  · cases h
  · rename_i rs hrs
    cases h
    refine ⟨mapE_ok_mem hrs, ?_⟩
    rw [mapE_ok_eq hrs, List.filterMap_filterMap]
    congr 1
    funext l
    unfold item?
    cases parseLine l with
    | error e => rfl
    | ok r => cases r <;> rfl

theorem parseAnnotations_error {lines : List String} {l : String} {e : String}
    (hl : l ∈ lines) (he : parseLine l = .error e) : ∃ e', parseAnnotations lines = .error e' := by
  obtain ⟨e', h⟩ := mapE_error_of_mem (f := parseLine) hl he
  exact ⟨e', by unfold parseAnnotations; rw [h]⟩

/-! ### Data / Hash order -/

/-- a list of `Data`/`Hash` messages in which no `Hash` precedes a `Data` is its `Data` messages followed by
    its `Hash` messages -/
theorem data_then_hash_split : ∀ (l : List Item),
    (∀ i ∈ l, i.kind = .data ∨ i.kind = .hash) →
    l.Pairwise (fun a b => ¬ (a.kind = .hash ∧ b.kind = .data)) →
    l = l.filter (fun i => i.kind = .data) ++ l.filter (fun i => i.kind = .hash)
  | [], _, _ => rfl
  | a :: t, hk, hp => by
    have hp' := List.pairwise_cons.1 hp
    have ih := data_then_hash_split t (fun i hi => hk i (List.mem_cons_of_mem _ hi)) hp'.2
    rcases hk a List.mem_cons_self with ha | ha
    · -- `a` is Data
      have h1 : (a :: t).filter (fun i => i.kind = .data) = a :: t.filter (fun i => i.kind = .data) := by
        simp [ha]
      have h2 : (a :: t).filter (fun i => i.kind = .hash) = t.filter (fun i => i.kind = .hash) := by
        simp [ha]
      rw [h1, h2, List.cons_append, ← ih]
    · -- `a` is Hash: nothing after it is Data
      have hnd : ∀ i ∈ t, i.kind = .hash := by
        intro i hi
        rcases hk i (List.mem_cons_of_mem _ hi) with hd | hh
        · exact absurd ⟨ha, hd⟩ (hp'.1 i hi)
        · exact hh
      have h1 : (a :: t).filter (fun i => i.kind = .data) = [] := by
        rw [List.filter_eq_nil_iff]
        intro i hi
        rcases List.mem_cons.1 hi with rfl | hi
        · simp [ha]
        · simp [hnd i hi]
      have h2 : (a :: t).filter (fun i => i.kind = .hash) = a :: t := by
        rw [List.filter_eq_self]
        intro i hi
        rcases List.mem_cons.1 hi with rfl | hi
        · simp [ha]
        · simp [hnd i hi]
      rw [h1, h2, List.nil_append]

/-- The real parser's order (all `Data`, then all `Hash`) coincides with the stream order used here as soon
    as no `Hash` line of the table precedes a `Data` line of the same table. -/
theorem collect_auth_eq_dataThenHash (j : Nat) (items : List Item)
    (h : (items.filter (isTraceAuth j)).Pairwise (fun a b => ¬ (a.kind = .hash ∧ b.kind = .data))) :
    collect (isTraceAuth j) items = authsDataThenHash j items := by
  unfold authsDataThenHash collect
  have hk : ∀ i ∈ items.filter (isTraceAuth j), i.kind = .data ∨ i.kind = .hash := by
    intro i hi
    have := (List.mem_filter.1 hi).2
    simp only [isTraceAuth, Bool.and_eq_true, Bool.or_eq_true, decide_eq_true_eq] at this
    exact this.2
  have hd : items.filter (isTraceAuthData j) =
      (items.filter (isTraceAuth j)).filter (fun i => i.kind = .data) := by
    rw [List.filter_filter]
    congr 1
    funext i
    simp only [isTraceAuthData, isTraceAuth]
    cases hs : decide (i.slot = .traceDecommit j) <;> cases hkd : decide (i.kind = .data) <;> simp
  have hh : items.filter (isTraceAuthHash j) =
      (items.filter (isTraceAuth j)).filter (fun i => i.kind = .hash) := by
    rw [List.filter_filter]
    congr 1
    funext i
    simp only [isTraceAuthHash, isTraceAuth]
    cases hs : decide (i.slot = .traceDecommit j) <;> cases hkd : decide (i.kind = .hash) <;> simp
  rw [hd, hh, ← List.flatMap_append, ← data_then_hash_split _ hk h]

/-- executable form of the hypothesis -/
def noHashBeforeData (j : Nat) (items : List Item) : Bool :=
  decide ((items.filter (isTraceAuth j)).Pairwise (fun a b => ¬ (a.kind = .hash ∧ b.kind = .data)))

end Swiftness.Loader
