/-
  C07, items 5 and 6 (generic algebra): coefficient lists as Mathlib polynomials.
  * `ofCoeffs`, with `eval_ofCoeffs` (bridge to `evalL`) and `coeff_ofCoeffs`;
  * two coefficient lists of the same length `L` that agree at `L` distinct points are equal;
  * `foldCoeff k cs b m`: the `m`-th coefficient of the folded polynomial `2^k · Σ_j b^j · P_j`, and
    `fold_degree`: if `cs` has a non-zero coefficient at a position `≥ 2^k·d`, the fold has a non-zero
    coefficient at a position `≥ d` for all but at most `2^k - 1` challenges `b`.
-/
import Mathlib.Algebra.Polynomial.Roots
import Swiftness.Proofs.Fold

namespace Swiftness.Proofs.FriSound

open Swiftness FoldSpec Polynomial

section generic
variable {F : Type} [Field F]

/-- the polynomial with coefficient list `cs` (lowest degree first) -/
noncomputable def ofCoeffs : List F → F[X]
  | [] => 0
  | c :: cs => C c + X * ofCoeffs cs

theorem eval_ofCoeffs (cs : List F) (x : F) : (ofCoeffs cs).eval x = evalL cs x := by
  induction cs with
  | nil => simp [ofCoeffs, evalL]
  | cons c cs ih => simp [ofCoeffs, evalL, ih]

theorem coeff_ofCoeffs (cs : List F) (i : ℕ) : (ofCoeffs cs).coeff i = cs.getD i 0 := by
  induction cs generalizing i with
  | nil => simp [ofCoeffs]
  | cons c cs ih =>
    cases i with
    | zero => simp [ofCoeffs]
    | succ i => simp [ofCoeffs, coeff_X_mul, coeff_C_succ, ih]

theorem natDegree_ofCoeffs_lt (cs : List F) (hne : cs ≠ []) : (ofCoeffs cs).natDegree < cs.length := by
  have hpos : 0 < cs.length := List.length_pos_iff.mpr hne
  have : (ofCoeffs cs).natDegree ≤ cs.length - 1 := by
    rw [natDegree_le_iff_coeff_eq_zero]
    intro N hN
    rw [coeff_ofCoeffs, List.getD_eq_getElem?_getD, List.getElem?_eq_none (by omega)]
    rfl
  omega

theorem ofCoeffs_injective (cs cs' : List F) (hlen : cs.length = cs'.length)
    (h : ofCoeffs cs = ofCoeffs cs') : cs = cs' := by
  apply List.ext_getElem hlen
  intro i h1 h2
  have := congrArg (fun p => p.coeff i) h
  simp only [coeff_ofCoeffs, List.getD_eq_getElem?_getD, List.getElem?_eq_getElem h1,
    List.getElem?_eq_getElem h2, Option.getD_some] at this
  exact this

/-- two polynomials of degree `< L`, given by coefficient lists of length `L`, that agree on `L`
    distinct points are the same list -/
theorem evalL_agree_eq (cs cs' : List F) (hlen : cs.length = cs'.length) (S : Finset F)
    (hS : ∀ x ∈ S, evalL cs x = evalL cs' x) (hcard : cs.length ≤ S.card) : cs = cs' := by
  by_cases hne : cs = []
  · subst hne
    exact (List.length_eq_zero_iff.mp hlen.symm).symm
  · have hne' : cs' ≠ [] := by
      intro h0; rw [h0] at hlen; exact hne (List.length_eq_zero_iff.mp hlen)
    apply ofCoeffs_injective cs cs' hlen
    apply eq_of_natDegree_lt_card_of_eval_eq' _ _ S
    · intro x hx
      rw [eval_ofCoeffs, eval_ofCoeffs]
      exact hS x hx
    · have h1 := natDegree_ofCoeffs_lt cs hne
      have h2 := natDegree_ofCoeffs_lt cs' hne'
      rw [max_lt_iff]
      constructor <;> omega

theorem evalL_zipWith_sub (cs cs' : List F) (hlen : cs.length = cs'.length) (x : F) :
    evalL (List.zipWith (· - ·) cs cs') x = evalL cs x - evalL cs' x := by
  induction cs generalizing cs' with
  | nil =>
    cases cs' with
    | nil => simp [evalL]
    | cons b t => simp at hlen
  | cons a s ih =>
    cases cs' with
    | nil => simp at hlen
    | cons b t =>
      simp only [List.zipWith_cons_cons, evalL, ih t (by simpa using hlen)]
      ring

/-! ### the folded polynomial -/

/-- `m`-th coefficient of `2^k · Σ_{j<2^k} b^j · P_j` where `P_j = split k cs j` -/
def foldCoeff (k : ℕ) (cs : List F) (b : F) (m : ℕ) : F :=
  ((2 ^ k : ℕ) : F) * ∑ j ∈ Finset.range (2 ^ k), b ^ j * cs.getD (j + 2 ^ k * m) 0

noncomputable def foldP (k : ℕ) (cs : List F) (b : F) : F[X] :=
  C ((2 ^ k : ℕ) : F) * ∑ j ∈ Finset.range (2 ^ k), C (b ^ j) * ofCoeffs (split k cs j)

theorem eval_foldP (k : ℕ) (cs : List F) (b y : F) :
    (foldP k cs b).eval y
      = ((2 ^ k : ℕ) : F) * ∑ j ∈ Finset.range (2 ^ k), b ^ j * evalL (split k cs j) y := by
  simp only [foldP, eval_mul, eval_C, eval_finsetSum, eval_ofCoeffs]

theorem coeff_foldP (k : ℕ) (cs : List F) (b : F) (m : ℕ) :
    (foldP k cs b).coeff m = foldCoeff k cs b m := by
  simp only [foldP, foldCoeff, coeff_C_mul, finsetSum_coeff, coeff_ofCoeffs]
  congr 1
  apply Finset.sum_congr rfl
  intro j hj
  rw [List.getD_eq_getElem?_getD, split_getElem? k cs j m (Finset.mem_range.mp hj),
    ← List.getD_eq_getElem?_getD]

/-- the list of the first `M` fold coefficients IS the folded polynomial as soon as `2^k·M` covers
    `cs`: it evaluates to `2^k · Σ_j b^j · P_j(y)` (the right-hand side of C06 `fold_identity`) -/
theorem foldCoeff_spec (k : ℕ) (cs : List F) (b : F) (M : ℕ) (hM : cs.length ≤ 2 ^ k * M) (y : F) :
    evalL ((List.range M).map (foldCoeff k cs b)) y
      = ((2 ^ k : ℕ) : F) * ∑ j ∈ Finset.range (2 ^ k), b ^ j * evalL (split k cs j) y := by
  rw [← eval_foldP, ← eval_ofCoeffs]
  congr 1
  ext m
  rw [coeff_ofCoeffs, coeff_foldP]
  by_cases hm : m < M
  · rw [List.getD_eq_getElem?_getD, List.getElem?_map, List.getElem?_range hm]
    rfl
  · rw [List.getD_eq_getElem?_getD, List.getElem?_eq_none (by simpa using hm)]
    simp only [Option.getD_none, foldCoeff]
    symm
    apply mul_eq_zero_of_right
    apply Finset.sum_eq_zero
    intro j _
    have : cs.length ≤ j + 2 ^ k * m := by
      have : 2 ^ k * M ≤ 2 ^ k * m := Nat.mul_le_mul_left _ (by omega)
      omega
    rw [List.getD_eq_getElem?_getD, List.getElem?_eq_none this]
    simp

/-- **Folding does not lower the degree below the bound, for most challenges.**  If `cs` has a
    non-zero coefficient at some position `i ≥ 2^k·d`, then the set of challenges `b` for which all
    fold coefficients at positions `≥ d` vanish has at most `2^k - 1` elements (they are roots of a
    non-zero polynomial of degree `≤ 2^k - 1`). -/
theorem fold_degree (h2 : (2 : F) ≠ 0) (k d : ℕ) (cs : List F) (i : ℕ) (hi : 2 ^ k * d ≤ i)
    (hci : cs.getD i 0 ≠ 0) (S : Finset F)
    (hS : ∀ b ∈ S, ∀ m, d ≤ m → foldCoeff k cs b m = 0) : S.card ≤ 2 ^ k - 1 := by
  have hpos : 0 < 2 ^ k := Nat.pos_of_ne_zero (by positivity)
  set m := i / 2 ^ k with hm
  set j0 := i % 2 ^ k with hj0
  have hdm : d ≤ m := (Nat.le_div_iff_mul_le hpos).mpr (by rw [Nat.mul_comm]; exact hi)
  have hj0lt : j0 < 2 ^ k := Nat.mod_lt _ hpos
  have hi' : j0 + 2 ^ k * m = i := by rw [hj0, hm, Nat.add_comm]; exact Nat.div_add_mod i (2 ^ k)
  -- the polynomial in `b`
  let g : F[X] := ∑ j ∈ Finset.range (2 ^ k), C (cs.getD (j + 2 ^ k * m) 0) * X ^ j
  have hgcoeff : g.coeff j0 = cs.getD i 0 := by
    simp only [g, finsetSum_coeff, coeff_C_mul, coeff_X_pow]
    rw [Finset.sum_eq_single j0]
    · simp [hi']
    · intro j _ hne; simp [Ne.symm hne]
    · intro h; exact absurd (Finset.mem_range.mpr hj0lt) h
  have hg0 : g ≠ 0 := by
    intro h0
    rw [h0, coeff_zero] at hgcoeff
    exact hci hgcoeff.symm
  have hgdeg : g.natDegree ≤ 2 ^ k - 1 := by
    apply natDegree_sum_le_of_forall_le
    intro j hj
    have := Finset.mem_range.mp hj
    exact (natDegree_C_mul_X_pow_le _ _).trans (by omega)
  have hgeval : ∀ b ∈ S, g.eval b = 0 := by
    intro b hb
    have h := hS b hb m hdm
    unfold foldCoeff at h
    have h2k : ((2 ^ k : ℕ) : F) ≠ 0 := by
      rw [Nat.cast_pow]; exact pow_ne_zero _ (by simpa using h2)
    have := (mul_eq_zero.mp h).resolve_left h2k
    simp only [g, eval_finsetSum, eval_mul, eval_C, eval_pow, eval_X]
    refine Eq.trans ?_ this
    apply Finset.sum_congr rfl
    intro j _; ring
  by_contra hcard
  exact hg0 (eq_zero_of_natDegree_lt_card_of_eval_eq_zero' g S hgeval (by omega))

end generic

end Swiftness.Proofs.FriSound
