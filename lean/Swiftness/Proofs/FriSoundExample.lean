/-
  C07, non-vacuity: an ACCEPTED run of `Fri.verify` with one inner layer, for an arbitrary `H`.
  Input layer: the degree-1 polynomial `c0 + c1·X` on the canonical size-8 domain (bit-reversed order,
  shifted by the field generator 3), queries `2, 5`; one fold of step 1 (coset size 2) with evaluation
  point `b`, committed as a table of 4 rows × 2 columns; last layer the constant `2·(c0 + b·c1)`.
-/
import Swiftness.Proofs.FriSoundChain
import Swiftness.Proofs.FriSoundVerify
import Swiftness.Proofs.FriSoundLast
import Swiftness.Props.C06

namespace Swiftness.Proofs.FriSound

open Swiftness Fri FoldSpec Swiftness.Merkle Swiftness.TableSpec

/-! closed facts about the example configuration, stated with the model's numerals -/
theorem ex_nlayers : (Felt.ofNat 2 - 1 : Felt).val = 1 := by decide +kernel
theorem ex_lastlen : Felt.ofNat 1 = Felt.pow 2 (Felt.ofNat 0).val := by decide +kernel

/-- a one-layer configuration (no inner layers): last layer = the constant polynomial `5` -/
def exCommitment : Commitment :=
  { config := { logInputSize := 0, nLayers := 1, innerLayers := [], friStepSizes := [0],
                logLastLayerDegreeBound := 0 },
    innerLayers := [], evalPoints := [], lastLayerCoefficients := [5] }

attribute [-instance] Fin.instOfNat

/-- the honest first-layer queries: point `3·pt i` (the verifier divides by the generator 3) -/
theorem gatherFirstLayer_honest (yv pt : ℕ → Felt) (hpt : ∀ i, pt i ≠ 0) (idxs : List ℕ) :
    gatherFirstLayer (idxs.map fun i : ℕ => (i : Felt)) (idxs.map yv) (idxs.map fun i => 3 * pt i)
      = .ok (idxs.map fun i : ℕ => (⟨(i : Felt), yv i, (pt i)⁻¹⟩ : LayerQuery)) := by
  induction idxs with
  | nil => rfl
  | cons i t ih =>
    have hs : 3 * pt i * FIELD_GENERATOR_INVERSE = pt i := by
      have := field_generator_inverse
      linear_combination pt i * this
    simp only [List.map_cons, gatherFirstLayer, hs, felt_zero_lit, if_neg (hpt i), ih, Felt.inv_eq]

/-- the fold of `c0 + c1·X` with step 1 is the constant `2·(c0 + b·c1)` (any field) -/
theorem ex_fold_generic {F : Type} [Field F] (c0 c1 b y z : F) :
    evalL [2 * (c0 + b * c1)] z
      = ((2 ^ 1 : ℕ) : F) * ∑ j ∈ Finset.range (2 ^ 1), b ^ j * evalL (split 1 [c0, c1] j) y := by
  simp [evalL, split, evens, odds, Finset.sum_range_succ]

/-- canonical size-8 domain, bit-reversed -/
noncomputable def exPt (idx : ℕ) : Felt :=
  ((3 : Felt) ^ ((P - 1) / 2 ^ (1 + 2))) ^ bitrev (1 + 2) idx

/-- the committed inner layer: row = coset, column = offset -/
noncomputable def exCell (c0 c1 : Felt) (c i : ℕ) : Felt := evalL [c0, c1] (exPt (c * 2 ^ 1 + i))

noncomputable def exCom (H : Hashes) (nf c0 c1 b : Felt) : Commitment :=
  { config := { logInputSize := Felt.ofNat 3, nLayers := Felt.ofNat 2,
                innerLayers := [⟨Felt.ofNat 2, ⟨Felt.ofNat 2, nf⟩⟩],
                friStepSizes := [Felt.ofNat 0, Felt.ofNat 1],
                logLastLayerDegreeBound := Felt.ofNat 0 },
    innerLayers := [⟨Felt.ofNat 2, ⟨⟨Felt.ofNat 2, nf⟩, tableRoot H nf 2 2 (exCell c0 c1)⟩⟩],
    evalPoints := [b], lastLayerCoefficients := [2 * (c0 + b * c1)] }

noncomputable def exWitness (H : Hashes) (nf c0 c1 : Felt) : List LayerWitness :=
  [⟨expectedSiblings (2 ^ 1) (fun idx => evalL [c0, c1] (exPt idx)) [1, 2] [2, 5] ++ [],
    authPath H nf 2 (tableLeaf H nf 2 2 (exCell c0 c1)) [1, 2] ++ []⟩]

theorem example_accepted (H : Hashes) (nf c0 c1 b : Felt) :
    Fri.verify H [((2 : ℕ) : Felt), ((5 : ℕ) : Felt)] (exCom H nf c0 c1 b)
      [evalL [c0, c1] (exPt 2), evalL [c0, c1] (exPt 5)] [3 * exPt 2, 3 * exPt 5]
      (exWitness H nf c0 c1) = .ok () := by
  have h3 : (3 : Felt) ≠ 0 := by decide +kernel
  have hpt0 : ∀ idx, exPt idx ≠ 0 := fun idx => pow_ne_zero _ (pow_ne_zero _ h3)
  -- the fold step (C06)
  let nlres : NextLayer :=
    ⟨[1, 2].map fun c : ℕ => (⟨(c : Felt),
        ((2 ^ 1 : ℕ) : Felt) * ∑ j ∈ Finset.range (2 ^ 1),
          b ^ j * evalL (split 1 [c0, c1] j) (exPt (c * 2 ^ 1) ^ 2 ^ 1),
        ((exPt (c * 2 ^ 1))⁻¹) ^ 2 ^ 1⟩ : LayerQuery),
     [1, 2].map (fun c : ℕ => (c : Felt)),
     cosetValues (2 ^ 1) (fun idx => evalL [c0, c1] (exPt idx)) [1, 2], []⟩
  have hstep : computeNextLayer
      ([2, 5].map fun idx : ℕ => (⟨(idx : Felt), evalL [c0, c1] (exPt idx), (exPt idx)⁻¹⟩ : LayerQuery))
      (expectedSiblings (2 ^ 1) (fun idx => evalL [c0, c1] (exPt idx)) [1, 2] [2, 5] ++ [])
      ((2 ^ 1 : ℕ) : Felt) b = .ok nlres :=
    C06.next_layer_step 1 (le_refl _) (by norm_num) [c0, c1] b exPt hpt0
      (by
        intro c i hi
        have := C06.domain_layout 1 2 (by norm_num) (by norm_num) 1 c i hi
        simpa [exPt] using this)
      [2, 5] [1, 2] (by simp) (by simp) (by simp) (by intro c; simp; omega) []
  -- the table decommitment (C05)
  have hdec := Proofs.Table.table_complete (H := H) (nf := nf) (h := 2) (by omega) 2 (by omega)
    (exCell c0 c1) [1, 2] [] (by simp) (by decide) (by decide)
  have hfirst := gatherFirstLayer_honest (fun idx => evalL [c0, c1] (exPt idx)) exPt hpt0 [2, 5]
  have h1v : (Felt.ofNat 1).val = 1 := by decide +kernel
  let q0 : List LayerQuery :=
    [2, 5].map fun idx : ℕ => (⟨(idx : Felt), evalL [c0, c1] (exPt idx), (exPt idx)⁻¹⟩ : LayerQuery)
  rw [verify_ok_iff_trace]
  simp only [exCom, exWitness, List.length_cons, List.length_nil, Nat.zero_add, ex_nlayers]
  refine ⟨trivial, by omega, by omega, ex_lastlen,
    fun i => if i = 0 then q0 else nlres.nextQueries, fun _ => nlres, ?_, ?_, ?_, ?_⟩
  · exact hfirst
  · intro i hi
    have hi' : i < 1 := lt_of_lt_of_eq hi ex_nlayers
    have : i = 0 := by omega
    subst this
    refine ⟨_, _, _, _, rfl, rfl, rfl, rfl, ?_, ?_⟩
    · simp only [if_true]
      rw [pow_two_eq_cast, h1v]
      exact hstep
    · exact hdec
  · intro i hi
    have hi' : i < 1 := lt_of_lt_of_eq hi ex_nlayers
    have : i = 0 := by omega
    subst this
    rfl
  · rw [if_neg (ne_of_eq_of_ne ex_nlayers Nat.one_ne_zero)]
    apply (verifyLastLayer_ok_iff _ _ ?_).mpr
    · intro q hq
      simp only [nlres, List.map_cons, List.map_nil, List.mem_cons, List.not_mem_nil, or_false] at hq
      rcases hq with rfl | rfl <;> exact ex_fold_generic c0 c1 b _ _
    · intro q hq
      simp only [nlres, List.map_cons, List.map_nil, List.mem_cons, List.not_mem_nil, or_false] at hq
      rcases hq with rfl | rfl <;> exact pow_ne_zero _ (inv_ne_zero (hpt0 _))

end Swiftness.Proofs.FriSound
