/-
  C17, instrumented semantics: tick bounds for `crates/fri`, part 1 (loops of `layer.rs`,
  `first_layer.rs`, `last_layer.rs`, `fri_commit_rounds`).  Core Lean only.
-/
import Swiftness.Proofs.TickedFri
import Swiftness.Proofs.TickedBoundsA

namespace Swiftness.Ticked
open Swiftness Fri

/-! ### `compute_coset_elements` -/

theorem cosetLoop_elements_length (start : Felt) (n i : Nat) (qs : List LayerQuery) (sibs : List Felt)
    (x : Felt) (acc : List Felt) (r : CosetResult) (h : cosetLoop start n i qs sibs x acc = .ok r) :
    r.elements.length = acc.length + n := by
  induction n generalizing i qs sibs x acc with
  | zero => simp only [cosetLoop, Outcome.ok.injEq] at h; subst h; simp
  | succ n ih =>
    simp only [cosetLoop] at h
    repeat' split at h
    all_goals first
      | cases h
      | (rw [ih _ _ _ _ _ h]; simp only [List.length_cons]; omega)

theorem cosetElements_elements_length (qs : List LayerQuery) (sibs : List Felt) (cs start : Felt)
    (r : CosetResult) (h : cosetElements qs sibs cs start = .ok r) : r.elements.length = cs.val := by
  unfold cosetElements at h
  split at h
  · cases h
  · simpa using cosetLoop_elements_length _ _ _ _ _ _ _ _ h

/-- `n` iterations and the final `reverse` of the `acc.length + n` collected elements -/
theorem cosetLoopT_ticks (start : Felt) (n i : Nat) (qs : List LayerQuery) (sibs : List Felt)
    (x : Felt) (acc : List Felt) : (cosetLoopT start n i qs sibs x acc).ticks ≤ 2 * n + acc.length := by
  induction n generalizing i qs sibs x acc with
  | zero => simp [cosetLoopT]
  | succ n ih =>
    simp only [cosetLoopT, TO.bind_ticks, TO.tick_ticks, TO.tick_out, TO.rest_ok]
    repeat' split
    all_goals first
      | (simp only [TO.panic_ticks, TO.err_ticks]; omega)
      | (refine Nat.le_trans (Nat.add_le_add_left (ih _ _ _ _ _) 1) ?_
         simp only [List.length_cons]; omega)

theorem cosetElementsT_ticks (qs : List LayerQuery) (sibs : List Felt) (cs start : Felt) :
    (cosetElementsT qs sibs cs start).ticks ≤ 1 + 2 * cs.val := by
  simp only [cosetElementsT, TO.bind_ticks, TO.tick_ticks, TO.tick_out, TO.rest_ok]
  split
  · simp
  · have := cosetLoopT_ticks start cs.val 0 qs sibs 0 []
    simp only [List.length_nil] at this
    omega

/-! ### `compute_next_layer` -/

/-- at most `fuel` iterations; iteration `k` costs the coset loop (`1 + 2 cs`), `fri_formula` (`FF`), one
    exponentiation (`F`) and the `extend` of `verify_y_values`, which by then holds at most
    `vy.length + k·cs` values; the two final `reverse`s handle at most `fuel` more items each -/
theorem nextLayerLoopT_ticks (cs e : Felt) (fuel : Nat) : ∀ (qs : List LayerQuery) (sibs : List Felt)
    (nq : List LayerQuery) (vi vy : List Felt),
    (nextLayerLoopT cs e fuel qs sibs nq vi vy).ticks ≤
      fuel * (FF + Cost.F + 3 + 3 * cs.val + vy.length + fuel * cs.val) + nq.length + vi.length + 2 * fuel := by
  induction fuel with
  | zero => intro qs sibs nq vi vy; simp [nextLayerLoopT]
  | succ f ih =>
    intro qs sibs nq vi vy
    have e : (f + 1) * (FF + Cost.F + 3 + 3 * cs.val + vy.length + (f + 1) * cs.val) =
        f * (FF + Cost.F + 3 + 3 * cs.val + (vy.length + cs.val) + f * cs.val)
          + (FF + Cost.F + 3 + 3 * cs.val + vy.length + f * cs.val + cs.val) := by grind
    rw [e]
    simp only [nextLayerLoopT, TO.bind_ticks, TO.tick_ticks, TO.tick_out, TO.rest_ok]
    split
    · simp only [TO.bind_ticks, TO.monadLift_ticks, TO.monadLift_out, TO.rest_ok, reverseT_ticks,
        TO.pure_ticks]
      omega
    · split
      · simp only [TO.panic_ticks]; omega
      · simp only [TO.bind_ticks]
        rename_i q tl hcs
        refine Nat.le_trans (Nat.add_le_add_left (Nat.add_le_add
          (cosetElementsT_ticks (q :: tl) sibs cs (Felt.ofNat (q.index.val / cs.val) * cs))
          (TO.rest_le _ _
            (FF + (Cost.F + ((vy.length + cs.val) +
              (f * (FF + Cost.F + 3 + 3 * cs.val + (vy.length + cs.val) + f * cs.val)
                + (nq.length + 1) + (vi.length + 1) + 2 * f)))) ?_)) 1) ?_
        · intro r hr
          rw [cosetElementsT_out] at hr
          have hel := cosetElements_elements_length _ _ _ _ _ hr
          simp only [TO.bind_ticks, friFormulaT_ticks]
          refine Nat.add_le_add_left (TO.rest_le _ _ _ ?_) _
          intro y _
          simp only [TO.bind_ticks, TO.monadLift_ticks, TO.monadLift_out, TO.rest_ok, powT_ticks,
            appendT_ticks, appendT_val]
          have := ih r.queries r.siblings (⟨Felt.ofNat (q.index.val / cs.val), y, (powT r.xInv cs.val).val⟩ :: nq)
            (Felt.ofNat (q.index.val / cs.val) :: vi) (vy ++ r.elements)
          simp only [List.length_append, List.length_cons, hel] at this
          omega
        · generalize f * (FF + Cost.F + 3 + 3 * cs.val + (vy.length + cs.val) + f * cs.val) = A
          omega

/-- `compute_next_layer` for `nq` queries and coset size `cs` (fuel `nq + 1`) -/
def Cost'.nextLayer (nq cs : Nat) : Nat :=
  1 + ((nq + 1) * (FF + Cost.F + 3 + 3 * cs + (nq + 1) * cs) + 2 * (nq + 1))

theorem computeNextLayerT_ticks (qs : List LayerQuery) (sibs : List Felt) (cs e : Felt) :
    (computeNextLayerT qs sibs cs e).ticks ≤ Cost'.nextLayer qs.length cs.val := by
  unfold Cost'.nextLayer
  simp only [computeNextLayerT, TO.bind_ticks, TO.tick_ticks, TO.tick_out, TO.rest_ok]
  have := nextLayerLoopT_ticks cs e (qs.length + 1) qs sibs [] [] []
  simp only [List.length_nil, Nat.add_zero] at this
  omega

theorem Cost'.nextLayer_mono {a a' b b' : Nat} (ha : a ≤ a') (hb : b ≤ b') :
    Cost'.nextLayer a b ≤ Cost'.nextLayer a' b' := by
  unfold Cost'.nextLayer
  have h1 : (a + 1) * b ≤ (a' + 1) * b' := Nat.mul_le_mul (by omega) hb
  have : (a + 1) * (FF + Cost.F + 3 + 3 * b + (a + 1) * b) ≤ (a' + 1) * (FF + Cost.F + 3 + 3 * b' + (a' + 1) * b') :=
    Nat.mul_le_mul (by omega) (by omega)
  omega

/-! ### first layer, last layer, commit rounds -/

theorem gatherFirstLayerT_ticks (qs evals xs : List Felt) :
    (gatherFirstLayerT qs evals xs).ticks ≤ qs.length * (1 + Cost.F) := by
  induction qs generalizing evals xs with
  | nil => simp [gatherFirstLayerT]
  | cons q qs ih =>
    simp only [gatherFirstLayerT, TO.bind_ticks, TO.tick_ticks, TO.tick_out, TO.rest_ok, List.length_cons]
    rw [Nat.add_mul, Nat.one_mul]
    repeat' split
    all_goals first
      | (simp only [TO.panic_ticks]; omega)
      | (simp only [TO.bind_ticks]
         refine Nat.le_trans (Nat.add_le_add_left (Nat.add_le_add (ih _ _) (TO.rest_le _ _ Cost.F ?_)) 1) (by omega)
         intro r _; simp)

theorem hornerEvalT_ticks (coefs : List Felt) (point : Felt) : (hornerEvalT coefs point).ticks = coefs.length := by
  induction coefs with
  | nil => rfl
  | cons c cs ih => simp [hornerEvalT, ih]; omega

theorem verifyLastLayerT_ticks (qs : List LayerQuery) (coefs : List Felt) :
    (verifyLastLayerT qs coefs).ticks ≤ qs.length * (1 + Cost.F + coefs.length) := by
  induction qs with
  | nil => simp [verifyLastLayerT]
  | cons q qs ih =>
    simp only [verifyLastLayerT, TO.bind_ticks, TO.tick_ticks, TO.tick_out, TO.rest_ok, List.length_cons]
    rw [Nat.add_mul, Nat.one_mul]
    split
    · simp only [TO.panic_ticks]; omega
    · simp only [TO.bind_ticks, TO.monadLift_ticks, TO.monadLift_out, TO.rest_ok, invT_ticks,
        hornerEvalT_ticks]
      split
      · simp only [TO.err_ticks]; omega
      · omega

theorem commitRoundsT_ticks (H : Hashes) (n : Nat) (t : Transcript) (cfgs : List TableConfig)
    (roots : List Felt) : (commitRoundsT H n t cfgs roots).ticks ≤ 5 * n := by
  induction n generalizing t cfgs roots with
  | zero => simp [commitRoundsT]
  | succ n ih =>
    simp only [commitRoundsT, TO.bind_ticks, TO.tick_ticks, TO.tick_out, TO.rest_ok]
    repeat' split
    all_goals first
      | (simp only [TO.panic_ticks]; omega)
      | (simp only [TO.bind_ticks, TO.monadLift_ticks, TO.monadLift_out, TO.rest_ok, readFeltT_ticks,
           randomFeltT_ticks]
         refine Nat.le_trans (Nat.add_le_add_left (Nat.add_le_add_left (Nat.add_le_add_left
           (Nat.add_le_add (ih _ _ _) (TO.rest_le _ _ 0 ?_)) 1) 3) 1) (by omega)
         intro r _; simp)

/-- `fri_commit`: the rounds, the absorbed last layer, one exponentiation -/
theorem friCommitT_ticks (H : Hashes) (t : Transcript) (roots lc : List Felt) (cfg : Config) :
    (friCommitT H t roots lc cfg).ticks ≤ 1 + 5 * Cost.rounds cfg + (lc.length + 2) + Cost.F := by
  have hr : Cost.rounds cfg = (cfg.nLayers - 1).val := rfl
  rw [hr]
  simp only [friCommitT, TO.bind_ticks, TO.tick_ticks, TO.tick_out, TO.rest_ok]
  repeat' split
  all_goals try (simp only [TO.panic_ticks]; omega)
  simp only [TO.bind_ticks]
  have h1 := commitRoundsT_ticks H (cfg.nLayers - 1).val t cfg.innerLayers roots
  refine Nat.le_trans (Nat.add_le_add_left (Nat.add_le_add h1
    (TO.rest_le _ _ ((lc.length + 2) + Cost.F) ?_)) 1) (by omega)
  intro r _
  simp only [TO.bind_ticks, TO.monadLift_ticks, TO.monadLift_out, TO.rest_ok, readFeltVectorT_ticks,
    powT_ticks]
  split <;> simp

end Swiftness.Ticked
