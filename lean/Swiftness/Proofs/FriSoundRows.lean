/-
  C07, structure of a successful `compute_next_layer`, for ARBITRARY inputs (no well-formedness of the
  queries, no hypothesis on the coset size): the run is described by the inductive relations
  * `RowOf`  — one coset row: offset by offset, either the next query sits at this offset (its value is
               used and it is consumed) or the next witness leaf is used;
  * `Rows`   — the sequence of coset rows: row `j` has coset index `vi[j]`, its `n` values are the `j`-th
               `n`-block of `vy` (what goes to the table decommitment) and the `j`-th next-layer query is
               `⟨vi[j], fri_formula(row j), x_inv^n⟩`.
  Consequences: every query value and every consumed witness leaf sits at a definite position of the
  value list handed to the table decommitment, and every next-layer value is the fold of such a row.
  Core Lean only.
-/
import Swiftness.Proofs.FriSoundDefs

namespace Swiftness.Proofs.FriSound

open Swiftness Fri

/-- `RowOf start rest i x0 qs ss row x`: starting at offset `i` with coset x-inverse `x0`, the queries
    `qs` (followed in the query list by `rest`, which stay unconsumed) and the witness leaves `ss` are
    consumed to produce the row elements `row` (offsets `i, i+1, …`); `x` is the final coset x-inverse.
    A witness leaf is used only when the next query is not at the current offset. -/
inductive RowOf (start : Felt) (rest : List LayerQuery) :
    Nat → Felt → List LayerQuery → List Felt → List Felt → Felt → Prop
  | nil (i : Nat) (x : Felt) : RowOf start rest i x [] [] [] x
  | query {i : Nat} {x0 x g : Felt} {q : LayerQuery} {qs : List LayerQuery} {ss row : List Felt} :
      q.index = start + Felt.ofNat i → friGroup[i]? = some g →
      RowOf start rest (i + 1) (q.xInvValue * g) qs ss row x →
      RowOf start rest i x0 (q :: qs) ss (q.yValue :: row) x
  | sib {i : Nat} {x0 x s : Felt} {qs : List LayerQuery} {ss row : List Felt} :
      (∀ q ∈ (qs ++ rest).head?, q.index ≠ start + Felt.ofNat i) →
      RowOf start rest (i + 1) x0 qs ss row x → RowOf start rest i x0 qs (s :: ss) (s :: row) x

/-- `Rows n e qs ss nq vi vy`: the queries `qs` and witness leaves `ss` are consumed coset by coset;
    `vi` are the coset indices, `vy` the concatenated rows, `nq` the next-layer queries. -/
inductive Rows (n e : Felt) :
    List LayerQuery → List Felt → List LayerQuery → List Felt → List Felt → Prop
  | nil : Rows n e [] [] [] [] []
  | cons {ci xinv y : Felt} {q0 : LayerQuery} {rest qsC qs : List LayerQuery}
      {ssC ss row vi vy : List Felt} {nq : List LayerQuery} :
      n ≠ 0 → n.val < 2 ^ 64 →
      qsC ++ qs = q0 :: rest → ci = Felt.ofNat (q0.index.val / n.val) →
      RowOf (ci * n) qs 0 0 qsC ssC row xinv → row.length = n.val →
      friFormula row e xinv n = .ok y →
      Rows n e qs ss nq vi vy →
      Rows n e (qsC ++ qs) (ssC ++ ss) (⟨ci, y, Felt.pow xinv n.val⟩ :: nq) (ci :: vi) (row ++ vy)

/-! ### the loops satisfy the relations -/

theorem cosetLoop_rowOf (start : Felt) : ∀ (m i : Nat) (qs : List LayerQuery) (sibs : List Felt)
    (x0 : Felt) (acc : List Felt) (r : CosetResult),
    cosetLoop start m i qs sibs x0 acc = .ok r →
    ∃ qsC ssC row, qs = qsC ++ r.queries ∧ sibs = ssC ++ r.siblings ∧
      r.elements = acc.reverse ++ row ∧ row.length = m ∧
      RowOf start r.queries i x0 qsC ssC row r.xInv := by
  intro m
  induction m with
  | zero =>
    intro i qs sibs x0 acc r h
    simp only [cosetLoop, Outcome.ok.injEq] at h
    subst h
    exact ⟨[], [], [], rfl, rfl, by simp, rfl, RowOf.nil i x0⟩
  | succ m ih =>
    intro i qs sibs x0 acc r h
    have sibCase : ∀ (s : Felt) (sibs' : List Felt),
        (∀ q ∈ qs.head?, q.index ≠ start + Felt.ofNat i) →
        cosetLoop start m (i + 1) qs sibs' x0 (s :: acc) = .ok r →
        ∃ qsC ssC row, qs = qsC ++ r.queries ∧ s :: sibs' = ssC ++ r.siblings ∧
          r.elements = acc.reverse ++ row ∧ row.length = m + 1 ∧
          RowOf start r.queries i x0 qsC ssC row r.xInv := by
      intro s sibs' hhead h'
      obtain ⟨qsC, ssC, row, h1, h2, h3, h4, h5⟩ := ih _ _ _ _ _ _ h'
      refine ⟨qsC, s :: ssC, s :: row, h1, by rw [h2]; rfl, ?_, by simp [h4],
        RowOf.sib (by rw [← h1]; exact hhead) h5⟩
      rw [h3]; simp
    cases qs with
    | nil =>
      cases sibs with
      | nil => simp [cosetLoop] at h
      | cons s sibs' =>
        simp only [cosetLoop] at h
        exact sibCase s sibs' (by simp) h
    | cons q qs' =>
      simp only [cosetLoop] at h
      by_cases hq : q.index = start + Felt.ofNat i
      · simp only [hq, if_true] at h
        cases hg : friGroup[i]? with
        | none => simp [hg] at h
        | some g =>
          simp only [hg] at h
          obtain ⟨qsC, ssC, row, h1, h2, h3, h4, h5⟩ := ih _ _ _ _ _ _ h
          refine ⟨q :: qsC, ssC, q.yValue :: row, by rw [h1]; rfl, h2, ?_, by simp [h4],
            RowOf.query hq hg h5⟩
          rw [h3]; simp
      · simp only [hq, if_false] at h
        cases sibs with
        | nil => simp at h
        | cons s sibs' => exact sibCase s sibs' (by simpa using hq) h

theorem nextLayerLoop_rows (n e : Felt) : ∀ (fuel : Nat) (qs : List LayerQuery) (sibs : List Felt)
    (nq : List LayerQuery) (vi vy : List Felt) (r : NextLayer),
    nextLayerLoop n e fuel qs sibs nq vi vy = .ok r →
    ∃ used nq' vi' vy', sibs = used ++ r.siblingsLeft ∧ r.nextQueries = nq.reverse ++ nq' ∧
      r.verifyIndices = vi.reverse ++ vi' ∧ r.verifyYValues = vy ++ vy' ∧
      Rows n e qs used nq' vi' vy' := by
  intro fuel
  induction fuel with
  | zero => intro qs sibs nq vi vy r h; simp [nextLayerLoop] at h
  | succ fuel ih =>
    intro qs sibs nq vi vy r h
    cases qs with
    | nil =>
      simp only [nextLayerLoop, Outcome.ok.injEq] at h
      subst h
      exact ⟨[], [], [], [], by simp, by simp, by simp, by simp, Rows.nil⟩
    | cons q qs' =>
      simp only [nextLayerLoop] at h
      split at h
      · cases h
      · cases hc : cosetElements (q :: qs') sibs n (Felt.ofNat (q.index.val / n.val) * n) with
        | err x => simp [hc] at h
        | panic s => simp [hc] at h
        | ok r0 =>
          simp only [hc] at h
          cases hf : friFormula r0.elements e r0.xInv n with
          | err x => simp [hf] at h
          | panic s => simp [hf] at h
          | ok y =>
            simp only [hf] at h
            obtain ⟨used, nq', vi', vy', h1, h2, h3, h4, h5⟩ := ih _ _ _ _ _ _ h
            unfold cosetElements at hc
            split at hc
            · cases hc
            · obtain ⟨qsC, ssC, row, g1, g2, g3, g4, g5⟩ := cosetLoop_rowOf _ _ _ _ _ _ _ _ hc
              simp only [List.reverse_nil, List.nil_append] at g3
              rw [g3] at hf h4
              refine ⟨ssC ++ used,
                ⟨Felt.ofNat (q.index.val / n.val), y, Felt.pow r0.xInv n.val⟩ :: nq',
                Felt.ofNat (q.index.val / n.val) :: vi', row ++ vy', ?_, ?_, ?_, ?_, ?_⟩
              · rw [g2, h1, List.append_assoc]
              · rw [h2]; simp
              · rw [h3]; simp
              · rw [h4, List.append_assoc]
              · rw [g1]
                exact Rows.cons ‹_› (by omega) g1.symm rfl g5 g4 hf h5

theorem computeNextLayer_rows (qs : List LayerQuery) (sibs : List Felt) (n e : Felt) (nl : NextLayer)
    (h : computeNextLayer qs sibs n e = .ok nl) :
    ∃ used, sibs = used ++ nl.siblingsLeft ∧
      Rows n e qs used nl.nextQueries nl.verifyIndices nl.verifyYValues := by
  obtain ⟨used, nq', vi', vy', h1, h2, h3, h4, h5⟩ := nextLayerLoop_rows n e _ _ _ _ _ _ _ h
  simp only [List.reverse_nil, List.nil_append] at h2 h3 h4
  rw [h2, h3, h4]
  exact ⟨used, h1, h5⟩

/-! ### consequences -/

theorem RowOf.length_eq {start : Felt} {rest : List LayerQuery} {i : Nat} {x0 x : Felt} {qs : List LayerQuery}
    {ss row : List Felt} (h : RowOf start rest i x0 qs ss row x) :
    row.length = qs.length + ss.length := by
  induction h with
  | nil => rfl
  | query _ _ _ ih => simp only [List.length_cons, ih]; omega
  | sib _ _ ih => simp only [List.length_cons, ih]; omega

/-- each consumed query sits at its own offset of the row, with its own value -/
theorem RowOf.query_pos {start : Felt} {rest : List LayerQuery} {i : Nat} {x0 x : Felt} {qs : List LayerQuery}
    {ss row : List Felt} (h : RowOf start rest i x0 qs ss row x) :
    ∀ q ∈ qs, ∃ p, p < row.length ∧ q.index = start + Felt.ofNat (i + p) ∧
      row[p]? = some q.yValue := by
  induction h with
  | nil => intro q hq; cases hq
  | @query i x0 x g q0 qs ss row hidx _ _ ih =>
    intro q hq
    rcases List.mem_cons.mp hq with rfl | hq
    · exact ⟨0, by simp, hidx, rfl⟩
    · obtain ⟨p, h1, h2, h3⟩ := ih q hq
      refine ⟨p + 1, by simp [h1], ?_, by simpa using h3⟩
      rw [h2]; congr 2; omega
  | sib _ _ ih =>
    intro q hq
    obtain ⟨p, h1, h2, h3⟩ := ih q hq
    refine ⟨p + 1, by simp [h1], ?_, by simpa using h3⟩
    rw [h2]; congr 2; omega

/-- each consumed witness leaf sits at some offset of the row -/
theorem RowOf.sib_pos {start : Felt} {rest : List LayerQuery} {i : Nat} {x0 x : Felt} {qs : List LayerQuery}
    {ss row : List Felt} (h : RowOf start rest i x0 qs ss row x) :
    ∀ s ∈ ss, ∃ p, p < row.length ∧ row[p]? = some s := by
  induction h with
  | nil => intro s hs; cases hs
  | query _ _ _ ih =>
    intro s hs
    obtain ⟨p, h1, h2⟩ := ih s hs
    exact ⟨p + 1, by simp [h1], by simpa using h2⟩
  | sib _ _ ih =>
    intro s hs
    rcases List.mem_cons.mp hs with rfl | hs
    · exact ⟨0, by simp, rfl⟩
    · obtain ⟨p, h1, h2⟩ := ih s hs
      exact ⟨p + 1, by simp [h1], by simpa using h2⟩

theorem Rows.lengths {n e : Felt} {qs : List LayerQuery} {ss : List Felt} {nq : List LayerQuery}
    {vi vy : List Felt} (h : Rows n e qs ss nq vi vy) :
    nq.length = vi.length ∧ vy.length = n.val * vi.length := by
  induction h with
  | nil => exact ⟨rfl, rfl⟩
  | cons _ _ _ _ _ hlen _ _ ih =>
    refine ⟨by simp [ih.1], ?_⟩
    rw [List.length_append, List.length_cons, hlen, ih.2, Nat.mul_succ]; omega

/-- the coset indices handed to the decommitment are the indices of the next-layer queries -/
theorem Rows.indices {n e : Felt} {qs : List LayerQuery} {ss : List Felt} {nq : List LayerQuery}
    {vi vy : List Felt} (h : Rows n e qs ss nq vi vy) : nq.map (·.index) = vi := by
  induction h with
  | nil => rfl
  | cons _ _ _ _ _ _ _ _ ih => simp [ih]

private theorem getElem?_append_block {row vy : List Felt} {n j p : Nat} (hlen : row.length = n) :
    (row ++ vy)[(j + 1) * n + p]? = vy[j * n + p]? := by
  have : (j + 1) * n + p = row.length + (j * n + p) := by rw [hlen, Nat.succ_mul]; omega
  rw [this, List.getElem?_append_right (Nat.le_add_right _ _), Nat.add_sub_cancel_left]

/-- **every query** of the layer sits at row `j`, offset `p` of the decommitted values, where its index
    is `vi[j] * n + p` (field arithmetic, as the verifier computes it), with its own value -/
theorem Rows.query_pos {n e : Felt} {qs : List LayerQuery} {ss : List Felt} {nq : List LayerQuery}
    {vi vy : List Felt} (h : Rows n e qs ss nq vi vy) :
    ∀ q ∈ qs, ∃ j p ci, p < n.val ∧ vi[j]? = some ci ∧ q.index = ci * n + Felt.ofNat p ∧
      vy[j * n.val + p]? = some q.yValue := by
  induction h with
  | nil => intro q hq; cases hq
  | @cons ci xinv y q0 rest qsC qs ssC ss row vi vy nq _ _ _ _ hrow hlen _ _ ih =>
    intro q hq
    rcases List.mem_append.mp hq with hq | hq
    · obtain ⟨p, h1, h2, h3⟩ := hrow.query_pos q hq
      refine ⟨0, p, ci, by omega, rfl, by simpa using h2, ?_⟩
      rw [Nat.zero_mul, Nat.zero_add, List.getElem?_append_left h1]
      exact h3
    · obtain ⟨j, p, c, h1, h2, h3, h4⟩ := ih q hq
      exact ⟨j + 1, p, c, h1, by simpa using h2, h3, by rw [getElem?_append_block hlen]; exact h4⟩

/-- **every consumed witness leaf** sits at some row `j`, offset `p` of the decommitted values -/
theorem Rows.sib_pos {n e : Felt} {qs : List LayerQuery} {ss : List Felt} {nq : List LayerQuery}
    {vi vy : List Felt} (h : Rows n e qs ss nq vi vy) :
    ∀ s ∈ ss, ∃ j p, j < vi.length ∧ p < n.val ∧ vy[j * n.val + p]? = some s := by
  induction h with
  | nil => intro s hs; cases hs
  | @cons ci xinv y q0 rest qsC qs ssC ss row vi vy nq _ _ _ _ hrow hlen _ _ ih =>
    intro s hs
    rcases List.mem_append.mp hs with hs | hs
    · obtain ⟨p, h1, h2⟩ := hrow.sib_pos s hs
      refine ⟨0, p, by simp, by omega, ?_⟩
      rw [Nat.zero_mul, Nat.zero_add, List.getElem?_append_left h1]
      exact h2
    · obtain ⟨j, p, h1, h2, h3⟩ := ih s hs
      exact ⟨j + 1, p, by simpa using h1, h2, by rw [getElem?_append_block hlen]; exact h3⟩

private theorem drop_take_block {row vy : List Felt} {n j : Nat} (hlen : row.length = n) :
    ((row ++ vy).drop ((j + 1) * n)).take n = (vy.drop (j * n)).take n := by
  have : (j + 1) * n = row.length + j * n := by rw [hlen, Nat.succ_mul]; omega
  rw [this, ← List.drop_drop, List.drop_left]

/-- **every next-layer query** is `⟨vi[j], fold of row j, x_inv^n⟩` where row `j` is the `j`-th
    `n`-block of the decommitted values -/
theorem Rows.fold {n e : Felt} {qs : List LayerQuery} {ss : List Felt} {nq : List LayerQuery}
    {vi vy : List Felt} (h : Rows n e qs ss nq vi vy) :
    ∀ j nqj, nq[j]? = some nqj → ∃ xinv, vi[j]? = some nqj.index ∧
      friFormula ((vy.drop (j * n.val)).take n.val) e xinv n = .ok nqj.yValue ∧
      nqj.xInvValue = Felt.pow xinv n.val := by
  induction h with
  | nil => intro j nqj hj; simp at hj
  | @cons ci xinv y q0 rest qsC qs ssC ss row vi vy nq _ _ _ _ hrow hlen hf _ ih =>
    intro j nqj hj
    cases j with
    | zero =>
      simp only [List.getElem?_cons_zero, Option.some.injEq] at hj
      subst hj
      refine ⟨xinv, rfl, ?_, rfl⟩
      rw [Nat.zero_mul, List.drop_zero, ← hlen, List.take_left]
      exact hf
    | succ j =>
      obtain ⟨x, h1, h2, h3⟩ := ih j nqj (by simpa using hj)
      exact ⟨x, by simpa using h1, by rw [drop_take_block hlen]; exact h2, h3⟩

end Swiftness.Proofs.FriSound
