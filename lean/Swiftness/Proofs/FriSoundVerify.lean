/-
  C07, item 1: the shape facts implied by acceptance of `Fri.verify` — in particular the last layer has
  exactly `2^bound` coefficients (as a natural number, when nothing wraps in the field).
-/
import Swiftness.Proofs.FriSoundDefs
import Swiftness.Proofs.FeltField
import Swiftness.Proofs.FriLayerCoset

namespace Swiftness.Proofs.FriSound

open Swiftness Fri

theorem two_pow_251_lt_P : 2 ^ 251 < P := by decide +kernel

/-- the model's `Felt.pow 2 b.val` (core numeral `2`) is the cast of the natural number `2^b.val` -/
theorem pow_two_eq_cast (b : Felt) : Felt.pow 2 b.val = ((2 ^ b.val : ℕ) : Felt) := by
  rw [Felt.pow_val_eq, felt_ofNat, Nat.cast_pow]

/-- the field equation checked by `fri_verify` / `fri_commit` is an equation of natural numbers as
    soon as neither side wraps: `bound ≤ 251` and `len < P`. -/
theorem len_eq_of_felt_eq (len : ℕ) (b : Felt) (hb : b.val ≤ 251) (hlen : len < P)
    (h : Felt.ofNat len = Felt.pow 2 b.val) : len = 2 ^ b.val := by
  rw [pow_two_eq_cast, Felt.ofNat_eq_cast] at h
  have h2 : 2 ^ b.val < P :=
    lt_of_le_of_lt (Nat.pow_le_pow_right (by norm_num) hb) two_pow_251_lt_P
  exact (cast_inj_of_lt hlen h2).mp h

theorem verify_accept_shape (H : Hashes) (queries : List Felt) (c : Commitment)
    (values points : List Felt) (ws : List LayerWitness)
    (hok : verify H queries c values points ws = .ok ()) :
    queries.length = values.length ∧
      Felt.ofNat c.lastLayerCoefficients.length = Felt.pow 2 c.config.logLastLayerDegreeBound.val ∧
      1 ≤ c.config.friStepSizes.length ∧ (c.config.nLayers - 1).val < 2 ^ 64 := by
  obtain ⟨h1, h2, h3, h4, _⟩ := (verify_ok_iff H queries c values points ws).mp hok
  exact ⟨h1, h4, h2, h3⟩

theorem verify_accept_len (H : Hashes) (queries : List Felt) (c : Commitment)
    (values points : List Felt) (ws : List LayerWitness)
    (hb : c.config.logLastLayerDegreeBound.val ≤ 251) (hlen : c.lastLayerCoefficients.length < P)
    (hok : verify H queries c values points ws = .ok ()) :
    c.lastLayerCoefficients.length = 2 ^ c.config.logLastLayerDegreeBound.val :=
  len_eq_of_felt_eq _ _ hb hlen (verify_accept_shape H queries c values points ws hok).2.1

/-- the same check in `fri_commit` (there it is an `assert!`) -/
theorem commit_accept_len (H : Hashes) (t : Transcript) (roots coefs : List Felt) (cfg : Config)
    (t' : Transcript) (c : Commitment) (hok : Fri.commit H t roots coefs cfg = .ok (t', c)) :
    c.config = cfg ∧ c.lastLayerCoefficients = coefs ∧
      Felt.ofNat coefs.length = Felt.pow 2 cfg.logLastLayerDegreeBound.val := by
  unfold Fri.commit at hok
  split at hok
  · cases hok
  · split at hok
    · cases hok
    · split at hok
      · split at hok
        · cases hok
        · next hne =>
          simp only [Outcome.ok.injEq, Prod.mk.injEq] at hok
          obtain ⟨_, rfl⟩ := hok
          simp only [ne_eq, Decidable.not_not] at hne
          exact ⟨rfl, rfl, hne.symm⟩
      · cases hok
      · cases hok

end Swiftness.Proofs.FriSound
