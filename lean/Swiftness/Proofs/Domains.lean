import Swiftness.Model.Domains
import Swiftness.Proofs.FeltField

namespace Swiftness.Proofs
open Swiftness
attribute [-instance] Fin.instOfNat

theorem two_felt : (@OfNat.ofNat Felt 2 Fin.instOfNat) = (2 : Felt) := by
  rw [felt_ofNat]; norm_num

theorem zero_felt : (@OfNat.ofNat Felt 0 Fin.instOfNat) = (0 : Felt) := by
  rw [felt_ofNat, Nat.cast_zero]

theorem two_ne_zero_felt : (2 : Felt) ≠ 0 := by
  intro h
  have h2 : ((2 : ℕ) : ZMod P) = 0 := by exact_mod_cast h
  rw [ZMod.natCast_eq_zero_iff] at h2
  have : ¬ (P ∣ 2) := by decide +kernel
  exact this h2

theorem FIELD_GENERATOR_eq : StarkDomains.FIELD_GENERATOR = (3 : Felt) := by
  have : StarkDomains.FIELD_GENERATOR = ((3 : ℕ) : Felt) := rfl
  rw [this]; norm_num

theorem SPM1_eq : StarkDomains.STARK_PRIME_MINUS_ONE = ((P - 1 : ℕ) : Felt) := rfl

/-- exact division in the field: `(P-1) / 2^k` for `k ≤ 192` is the natural quotient. -/
theorem field_div_exact (k : ℕ) (hk : k ≤ 192) :
    StarkDomains.STARK_PRIME_MINUS_ONE * Felt.inv ((2 : Felt) ^ k) = (((P - 1) / 2 ^ k : ℕ) : Felt) := by
  rw [SPM1_eq, Felt.inv_eq]
  obtain ⟨m, hm⟩ := two_pow_dvd_P_sub_one k hk
  have hpos : 0 < 2 ^ k := by positivity
  have hq : (P - 1) / 2 ^ k = m := by rw [hm]; exact Nat.mul_div_cancel_left m hpos
  rw [hq, hm]
  push_cast
  have h2 : ((2 : Felt) ^ k) ≠ 0 := pow_ne_zero _ two_ne_zero_felt
  field_simp

theorem div_val (k : ℕ) (hk : k ≤ 192) :
    (StarkDomains.STARK_PRIME_MINUS_ONE * Felt.inv ((2 : Felt) ^ k)).val = (P - 1) / 2 ^ k := by
  rw [field_div_exact k hk]
  apply Felt.val_cast_of_lt
  have : (P - 1) / 2 ^ k ≤ P - 1 := Nat.div_le_self _ _
  have : 0 < P := by decide +kernel
  omega

theorem add_val_of_le (t c : Felt) (h : t.val + c.val ≤ 192) : (t + c).val = t.val + c.val := by
  have : t.val + c.val < P := lt_of_le_of_lt h (by decide +kernel)
  exact Fin.val_add_eq_of_add_lt this

theorem pow2_model (k : ℕ) (hk : k < P) :
    Felt.pow (@OfNat.ofNat Felt 2 Fin.instOfNat) k = (2 : Felt) ^ k := by
  rw [Felt.pow_eq _ _ (lt_trans hk P_lt_two_pow_256), two_felt]

theorem domains_new_eq (t c : Felt) :
    StarkDomains.new t c = .ok {
      logEvalDomainSize := t + c
      evalDomainSize := (2 : Felt) ^ (t + c).val
      evalGenerator := (3 : Felt) ^ (StarkDomains.STARK_PRIME_MINUS_ONE * Felt.inv ((2 : Felt) ^ (t + c).val)).val
      logTraceDomainSize := t
      traceDomainSize := (2 : Felt) ^ t.val
      traceGenerator := (3 : Felt) ^ (StarkDomains.STARK_PRIME_MINUS_ONE * Felt.inv ((2 : Felt) ^ t.val)).val } := by
  unfold StarkDomains.new
  simp only [pow2_model _ (t + c).isLt, pow2_model _ t.isLt, Felt.pow_val_eq, FIELD_GENERATOR_eq]
  rw [zero_felt, if_neg (pow_ne_zero _ two_ne_zero_felt), if_neg (pow_ne_zero _ two_ne_zero_felt)]

theorem domains_new_ok (t c : Felt) : ∃ d, StarkDomains.new t c = .ok d :=
  ⟨_, domains_new_eq t c⟩

theorem eval_generator_order (t c : Felt) (h : t.val + c.val ≤ 192) (d : StarkDomains)
    (hd : StarkDomains.new t c = .ok d) :
    orderOf d.evalGenerator = 2 ^ (t.val + c.val) := by
  rw [domains_new_eq] at hd
  injection hd with hd; subst hd
  simp only
  rw [add_val_of_le t c h, div_val _ h]
  exact gen_order _ h

theorem trace_generator_order (t c : Felt) (h : t.val + c.val ≤ 192) (d : StarkDomains)
    (hd : StarkDomains.new t c = .ok d) :
    orderOf d.traceGenerator = 2 ^ t.val := by
  rw [domains_new_eq] at hd
  injection hd with hd; subst hd
  simp only
  have ht : t.val ≤ 192 := by omega
  rw [div_val _ ht]
  exact gen_order _ ht

theorem trace_eq_eval_pow (t c : Felt) (h : t.val + c.val ≤ 192) (d : StarkDomains)
    (hd : StarkDomains.new t c = .ok d) :
    d.traceGenerator = d.evalGenerator ^ (2 ^ c.val) := by
  rw [domains_new_eq] at hd
  injection hd with hd; subst hd
  simp only
  have ht : t.val ≤ 192 := by omega
  rw [add_val_of_le t c h, div_val _ h, div_val _ ht, ← pow_mul]
  congr 1
  obtain ⟨m, hm⟩ := two_pow_dvd_P_sub_one _ h
  rw [hm, pow_add]
  have h1 : 0 < 2 ^ t.val := by positivity
  have h2 : 0 < 2 ^ c.val := by positivity
  rw [Nat.mul_div_cancel_left m (Nat.mul_pos h1 h2)]
  rw [mul_assoc, Nat.mul_div_cancel_left _ h1, mul_comm]

theorem sizes_eq (t c : Felt) (h : t.val + c.val ≤ 192) (d : StarkDomains)
    (hd : StarkDomains.new t c = .ok d) :
    d.evalDomainSize.val = 2 ^ (t.val + c.val) ∧ d.traceDomainSize.val = 2 ^ t.val ∧
    d.logEvalDomainSize.val = t.val + c.val ∧ d.logTraceDomainSize = t := by
  rw [domains_new_eq] at hd
  injection hd with hd; subst hd
  simp only
  have hlt : ∀ k, k ≤ 192 → ((2 : Felt) ^ k).val = 2 ^ k := by
    intro k hk
    have : ((2 : Felt) ^ k) = ((2 ^ k : ℕ) : Felt) := by push_cast; rfl
    rw [this]
    apply Felt.val_cast_of_lt
    calc 2 ^ k ≤ 2 ^ 192 := Nat.pow_le_pow_right (by norm_num) hk
      _ < P := by decide +kernel
  refine ⟨?_, ?_, add_val_of_le t c h, trivial⟩
  · rw [add_val_of_le t c h]; exact hlt _ h
  · exact hlt _ (by omega)

end Swiftness.Proofs
