/-
  Index-level lemmas for the Merkle walk: `parents` of a strictly increasing layer is a strictly
  increasing layer one level up (core Lean only).
-/
import Swiftness.Spec.Merkle

namespace Swiftness.Proofs.Merkle

open Swiftness Swiftness.Merkle

/-- `L` is a strictly increasing list of heap indices of depth `d` -/
def Layer (d : Nat) (L : List Nat) : Prop :=
  L.Pairwise (· < ·) ∧ ∀ i ∈ L, 2 ^ d ≤ i ∧ i < 2 ^ (d + 1)

theorem Layer.tail {d i L} (h : Layer d (i :: L)) : Layer d L :=
  ⟨(List.pairwise_cons.1 h.1).2, fun x hx => h.2 x (List.mem_cons_of_mem _ hx)⟩

theorem Layer.tail2 {d i j L} (h : Layer d (i :: j :: L)) : Layer d L := h.tail.tail

theorem Layer.head {d i L} (h : Layer d (i :: L)) : 2 ^ d ≤ i ∧ i < 2 ^ (d + 1) :=
  h.2 i (List.mem_cons_self ..)

theorem Layer.lt {d i j L} (h : Layer d (i :: j :: L)) : i < j :=
  (List.pairwise_cons.1 h.1).1 j (List.mem_cons_self ..)

theorem Layer.lt_of_mem {d i L x} (h : Layer d (i :: L)) (hx : x ∈ L) : i < x :=
  (List.pairwise_cons.1 h.1).1 x hx

theorem mem_parents {L : List Nat} {p : Nat} (hp : p ∈ parents L) : ∃ m ∈ L, p = m / 2 := by
  fun_induction parents L with
  | case1 => simp at hp
  | case2 i => simp at hp; exact ⟨i, by simp, hp⟩
  | case3 i j t hc ih =>
    rcases List.mem_cons.1 hp with rfl | hp
    · exact ⟨i, by simp, rfl⟩
    · obtain ⟨m, hm, rfl⟩ := ih hp
      exact ⟨m, by simp [hm], rfl⟩
  | case4 i j t hc ih =>
    rcases List.mem_cons.1 hp with rfl | hp
    · exact ⟨i, by simp, rfl⟩
    · obtain ⟨m, hm, rfl⟩ := ih hp
      exact ⟨m, List.mem_cons_of_mem _ hm, rfl⟩

theorem parents_ne_nil {L : List Nat} (h : L ≠ []) : parents L ≠ [] := by
  fun_induction parents L <;> simp_all

theorem parents_length_le (L : List Nat) : (parents L).length ≤ L.length := by
  fun_induction parents L <;> simp_all <;> omega

/-- Lemma B: sortedness and range are preserved one level up. -/
theorem Layer.parents {d : Nat} {L : List Nat} (h : Layer (d + 1) L) : Layer d (parents L) := by
  fun_induction Merkle.parents L with
  | case1 => exact ⟨List.Pairwise.nil, by simp⟩
  | case2 i =>
    refine ⟨List.pairwise_singleton _ _, ?_⟩
    intro x hx
    have := h.head
    simp at hx; subst hx
    rw [Nat.pow_succ] at this; rw [Nat.pow_succ] at this
    rw [Nat.pow_succ]; omega
  | case3 i j t hc ih =>
    have ht := ih h.tail2
    have hi := h.head
    refine ⟨List.pairwise_cons.2 ⟨?_, ht.1⟩, ?_⟩
    · intro p hp
      obtain ⟨m, hm, rfl⟩ := mem_parents hp
      have h1 : j < m := h.tail.lt_of_mem hm
      omega
    · intro x hx
      rcases List.mem_cons.1 hx with rfl | hx
      · rw [Nat.pow_succ] at hi; rw [Nat.pow_succ] at hi
        rw [Nat.pow_succ]; omega
      · exact ht.2 x hx
  | case4 i j t hc ih =>
    have ht := ih h.tail
    have hi := h.head
    have hij := h.lt
    refine ⟨List.pairwise_cons.2 ⟨?_, ht.1⟩, ?_⟩
    · intro p hp
      obtain ⟨m, hm, rfl⟩ := mem_parents hp
      have h1 : j ≤ m := by
        rcases List.mem_cons.1 hm with rfl | hm
        · exact Nat.le_refl _
        · exact Nat.le_of_lt (h.tail.lt_of_mem hm)
      omega
    · intro x hx
      rcases List.mem_cons.1 hx with rfl | hx
      · rw [Nat.pow_succ] at hi; rw [Nat.pow_succ] at hi
        rw [Nat.pow_succ]; omega
      · exact ht.2 x hx

/-- a nonempty layer of depth 0 is `[1]` -/
theorem Layer.zero_eq {L : List Nat} (h : Layer 0 L) (hne : L ≠ []) : L = [1] := by
  match L, hne with
  | [i], _ =>
    have := h.head
    simp at this
    have : i = 1 := by omega
    subst this; rfl
  | i :: j :: t, _ =>
    have h1 := h.head
    have h2 := h.tail.head
    have h3 := h.lt
    simp at h1 h2
    omega

/-- the shifted query indices form a layer of depth `h` -/
theorem layer_of_queries {h : Nat} {Q : List Nat} (hs : Q.Pairwise (· < ·))
    (hr : ∀ i ∈ Q, i < 2 ^ h) : Layer h (Q.map (· + 2 ^ h)) := by
  refine ⟨?_, ?_⟩
  · rw [List.pairwise_map]
    exact hs.imp (by intro a b hab; omega)
  · intro i hi
    obtain ⟨q, hq, rfl⟩ := List.mem_map.1 hi
    have := hr q hq
    rw [Nat.pow_succ]; omega

end Swiftness.Proofs.Merkle
