/-
  `Vector.decommit` in terms of `climb`, and the C04 theorems at the `Proofs` level.
-/
import Swiftness.Proofs.MerkleClimb
import Swiftness.Proofs.MerklePow
import Swiftness.Proofs.MerkleFuel

namespace Swiftness.Proofs.Merkle

open Swiftness Swiftness.Merkle Swiftness.Vector

variable {H : Hashes} {nf : Felt} {h : Nat}

theorem pow_le_250 (hh : h ≤ 250) : 2 ^ h + 2 ^ h ≤ 2 ^ 251 := by
  have : 2 ^ (h + 1) ≤ 2 ^ 251 := Nat.pow_le_pow_right (by omega) (by omega)
  rw [Nat.pow_succ] at this; omega

/-- the heap nodes presented by a query list -/
def nodesOf (h : Nat) (queries : List Query) : List Node :=
  queries.map fun q => (q.index.val + 2 ^ h, q.value)

theorem nodesOf_fst (queries : List Query) :
    (nodesOf h queries).map Prod.fst = (queries.map (·.index.val)).map (· + 2 ^ h) := by
  simp [nodesOf, Function.comp_def]

/-- the single place where the model's `Felt` index arithmetic is turned into `Nat` arithmetic -/
theorem decommit_eq (hh : h ≤ 250) (r : Felt) (queries : List Query) (auths : List Felt)
    (hne : queries ≠ []) (hs : (queries.map (·.index.val)).Pairwise (· < ·))
    (hr : ∀ q ∈ queries, q.index.val < 2 ^ h) :
    Vector.decommit H ⟨⟨Felt.ofNat h, nf⟩, r⟩ queries auths =
      match climb H nf h (nodesOf h queries) auths with
      | none => .err "IndexInvalid"
      | some (v, _) => if r ≠ v then .err "MisMatch" else .ok () := by
  have h251 := pow_le_250 hh
  have hhv : (Felt.ofNat h).val = h := ofNat_val (by have := lt_two251_of_le hh; omega)
  unfold Vector.decommit
  simp only []
  generalize hS : Felt.pow _ (Felt.ofNat h).val = S
  have hSv : S.val = 2 ^ h := by
    rw [← hS, hhv]; exact pow_two_val h hh
  have hmap : (queries.map fun q => (⟨q.index + S, q.value, Felt.ofNat h⟩ : QD)) =
      (nodesOf h queries).map (toQD (Felt.ofNat h)) := by
    simp only [nodesOf, List.map_map]
    apply List.map_congr_left
    intro q hq
    have hq := hr q hq
    simp only [Function.comp, toQD]
    congr 1
    apply Fin.ext
    rw [Fin.val_add, hSv, ofNat_val (by omega)]
    exact Nat.mod_eq_of_lt (by have := two251_lt_P; omega)
  rw [hmap]
  have hrun := run_eq_climb (H := H) (nf := nf) h hh (nodesOf h queries) auths
    (by simpa [nodesOf] using hne)
    (by rw [nodesOf_fst]; exact layer_of_queries hs (by simpa using hr))
  unfold run at hrun
  rw [hrun]
  cases climb H nf h (nodesOf h queries) auths with
  | none => rfl
  | some r' => rfl

/-- honest queries for the leaf numbers `Q` -/
def honestQueries (leaf : Nat → Felt) (Q : List Nat) : List Query :=
  Q.map fun i => ⟨Felt.ofNat i, leaf i⟩

theorem honestQueries_idx (hh : h ≤ 250) {leaf : Nat → Felt} {Q : List Nat}
    (hr : ∀ i ∈ Q, i < 2 ^ h) : (honestQueries leaf Q).map (·.index.val) = Q := by
  have h251 := pow_le_250 hh
  simp only [honestQueries, List.map_map]
  conv_rhs => rw [← List.map_id Q]
  apply List.map_congr_left
  intro i hi
  have := hr i hi
  simp only [Function.comp, id]
  exact ofNat_val (by omega)

theorem honestQueries_nodes (hh : h ≤ 250) {leaf : Nat → Felt} {Q : List Nat}
    (hr : ∀ i ∈ Q, i < 2 ^ h) :
    nodesOf h (honestQueries leaf Q) = honest H nf h leaf 0 (Q.map (· + 2 ^ h)) := by
  have h251 := pow_le_250 hh
  simp only [nodesOf, honestQueries, honest, List.map_map]
  apply List.map_congr_left
  intro i hi
  have := hr i hi
  simp only [Function.comp, nodeAt, Nat.add_sub_cancel]
  rw [ofNat_val (by omega)]

theorem honestQueries_ok (hh : h ≤ 250) {leaf : Nat → Felt} {Q : List Nat} (hne : Q ≠ [])
    (hs : Q.Pairwise (· < ·)) (hr : ∀ i ∈ Q, i < 2 ^ h) :
    honestQueries leaf Q ≠ [] ∧ ((honestQueries leaf Q).map (·.index.val)).Pairwise (· < ·) ∧
      ∀ q ∈ honestQueries leaf Q, q.index.val < 2 ^ h := by
  refine ⟨by simpa [honestQueries] using hne, by rw [honestQueries_idx hh hr]; exact hs, ?_⟩
  intro q hq
  have : q.index.val ∈ (honestQueries leaf Q).map (·.index.val) := List.mem_map_of_mem hq
  rw [honestQueries_idx hh hr] at this
  exact hr _ this

/-- the result of decommitting the honest witness against an arbitrary root `r` -/
theorem decommit_honest (hh : h ≤ 250) (r : Felt) (leaf : Nat → Felt) (Q : List Nat)
    (extra : List Felt) (hne : Q ≠ []) (hs : Q.Pairwise (· < ·)) (hr : ∀ i ∈ Q, i < 2 ^ h) :
    Vector.decommit H ⟨⟨Felt.ofNat h, nf⟩, r⟩ (honestQueries leaf Q)
        (authPath H nf h leaf Q ++ extra) =
      if r ≠ root H nf h leaf then .err "MisMatch" else .ok () := by
  obtain ⟨h1, h2, h3⟩ := honestQueries_ok hh (leaf := leaf) hne hs hr
  rw [decommit_eq hh r _ _ h1 h2 h3, honestQueries_nodes (H := H) (nf := nf) hh hr]
  unfold authPath
  rw [climb_honest (h := h) h 0 (Nat.add_zero h) _ extra (by simpa using hne) (layer_of_queries hs hr)]

theorem decommit_complete (hh : h ≤ 250) (leaf : Nat → Felt) (Q : List Nat)
    (extra : List Felt) (hne : Q ≠ []) (hs : Q.Pairwise (· < ·)) (hr : ∀ i ∈ Q, i < 2 ^ h) :
    Vector.decommit H ⟨⟨Felt.ofNat h, nf⟩, root H nf h leaf⟩ (honestQueries leaf Q)
        (authPath H nf h leaf Q ++ extra) = .ok () := by
  rw [decommit_honest hh _ leaf Q extra hne hs hr]
  simp

theorem rejects_wrong_root (hh : h ≤ 250) (r : Felt) (leaf : Nat → Felt) (Q : List Nat)
    (extra : List Felt) (hne : Q ≠ []) (hs : Q.Pairwise (· < ·)) (hr : ∀ i ∈ Q, i < 2 ^ h)
    (hroot : r ≠ root H nf h leaf) :
    Vector.decommit H ⟨⟨Felt.ofNat h, nf⟩, r⟩ (honestQueries leaf Q)
        (authPath H nf h leaf Q ++ extra) = .err "MisMatch" := by
  rw [decommit_honest hh _ leaf Q extra hne hs hr]
  simp [hroot]

/-- too few authentication nodes: for any root, any presented values -/
theorem decommit_too_few (hh : h ≤ 250) (r : Felt) (leaf : Nat → Felt) (queries : List Query)
    (auths : List Felt) (hne : queries ≠ [])
    (hs : (queries.map (·.index.val)).Pairwise (· < ·))
    (hr : ∀ q ∈ queries, q.index.val < 2 ^ h)
    (hlen : auths.length < (authPath H nf h leaf (queries.map (·.index.val))).length) :
    Vector.decommit H ⟨⟨Felt.ofNat h, nf⟩, r⟩ queries auths = .err "IndexInvalid" := by
  rw [decommit_eq hh r _ _ hne hs hr]
  cases hc : climb H nf h (nodesOf h queries) auths with
  | none => rfl
  | some p =>
    obtain ⟨v, rest⟩ := p
    have := climb_length h _ _ v rest hc h leaf 0
    rw [nodesOf_fst] at this
    unfold authPath at hlen
    omega

theorem decommit_missing_sibling (hh : h ≤ 250) (leaf : Nat → Felt) (Q : List Nat)
    (pre missing : List Felt) (hne : Q ≠ []) (hs : Q.Pairwise (· < ·))
    (hr : ∀ i ∈ Q, i < 2 ^ h) (hm : missing ≠ [])
    (hp : authPath H nf h leaf Q = pre ++ missing) :
    Vector.decommit H ⟨⟨Felt.ofNat h, nf⟩, root H nf h leaf⟩ (honestQueries leaf Q) pre =
      .err "IndexInvalid" := by
  obtain ⟨h1, h2, h3⟩ := honestQueries_ok hh (leaf := leaf) hne hs hr
  apply decommit_too_few hh _ leaf _ _ h1 h2 h3
  rw [honestQueries_idx hh hr, hp, List.length_append]
  have : 0 < missing.length := List.length_pos_iff.2 hm
  omega

theorem decommit_sound (hh : h ≤ 250) (leaf : Nat → Felt) (queries : List Query)
    (auths : List Felt) (hne : queries ≠ [])
    (hs : (queries.map (·.index.val)).Pairwise (· < ·))
    (hr : ∀ q ∈ queries, q.index.val < 2 ^ h)
    (hok : Vector.decommit H ⟨⟨Felt.ofNat h, nf⟩, root H nf h leaf⟩ queries auths = .ok ()) :
    ((∀ q ∈ queries, q.value = leaf q.index.val) ∧
        ∃ extra, auths = authPath H nf h leaf (queries.map (·.index.val)) ++ extra) ∨
      Collision H := by
  rw [decommit_eq hh _ _ _ hne hs hr] at hok
  cases hc : climb H nf h (nodesOf h queries) auths with
  | none => simp [hc] at hok
  | some p =>
    obtain ⟨v, rest⟩ := p
    simp only [hc] at hok
    have hv : root H nf h leaf = v := by
      by_cases hv : root H nf h leaf = v
      · exact hv
      · simp [hv] at hok
    subst hv
    have hL : Layer h ((nodesOf h queries).map Prod.fst) := by
      rw [nodesOf_fst]; exact layer_of_queries hs (by simpa using hr)
    rcases climb_sound (h := h) h 0 (Nat.add_zero h) _ _ rest hL hc with ⟨h1, h2⟩ | hcol
    · left
      refine ⟨?_, rest, ?_⟩
      · intro q hq
        have := h1 (q.index.val + 2 ^ h, q.value)
          (by simp only [nodesOf]; exact List.mem_map_of_mem (f := fun q : Query => (q.index.val + 2 ^ h, q.value)) hq)
        simpa [nodeAt] using this
      · rw [h2, nodesOf_fst]; rfl
    · right; exact hcol

end Swiftness.Proofs.Merkle
