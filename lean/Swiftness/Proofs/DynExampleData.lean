/-
  Concrete data for the dynamic layout (non-vacuity of C14dyn / C18dyn): the part of the layout data that
  `validate_public_input` reads (generated constants, generated dynamic-parameter order, generated assertion
  list) and the public input of the shipped dynamic example proof
  (`examples/proofs/dynamic/cairo0_stone6_example_proof.json`: 2048 steps, `cpu_component_step = 4`, trace
  length `2^17`, Pedersen and range-check builtins switched on with row ratio 2048).  Core Lean only.
-/
import Swiftness.Model.LayoutDynamic
import Swiftness.Generated.Consts
import Swiftness.Generated.DynamicParams
import Swiftness.Generated.Layout.dynamic_asserts

namespace Swiftness.Proofs.DynEx
open Swiftness

/-- what the driver loads for the dynamic layout, restricted to what `validate_public_input` reads
    (evaluator programs and field lists are irrelevant here and left empty) -/
def dynBase : LayoutData where
  name := "dynamic"
  consts := [("CPU_COMPONENT_HEIGHT", Gen.Layout.dynamic.CPU_COMPONENT_HEIGHT),
    ("PUBLIC_MEMORY_FRACTION", Gen.Layout.dynamic.PUBLIC_MEMORY_FRACTION),
    ("LAYOUT_CODE", Gen.Layout.dynamic.LAYOUT_CODE),
    ("SEG_N_SEGMENTS", Gen.Layout.dynamic.SEG_N_SEGMENTS),
    ("SEG_OUTPUT", Gen.Layout.dynamic.SEG_OUTPUT),
    ("SEG_PROGRAM", Gen.Layout.dynamic.SEG_PROGRAM),
    ("SEG_EXECUTION", Gen.Layout.dynamic.SEG_EXECUTION),
    ("SEG_PEDERSEN", Gen.Layout.dynamic.SEG_PEDERSEN),
    ("SEG_RANGE_CHECK", Gen.Layout.dynamic.SEG_RANGE_CHECK),
    ("SEG_ECDSA", Gen.Layout.dynamic.SEG_ECDSA),
    ("SEG_BITWISE", Gen.Layout.dynamic.SEG_BITWISE),
    ("SEG_EC_OP", Gen.Layout.dynamic.SEG_EC_OP),
    ("SEG_KECCAK", Gen.Layout.dynamic.SEG_KECCAK),
    ("SEG_POSEIDON", Gen.Layout.dynamic.SEG_POSEIDON),
    ("SEG_RANGE_CHECK96", Gen.Layout.dynamic.SEG_RANGE_CHECK96),
    ("SEG_ADD_MOD", Gen.Layout.dynamic.SEG_ADD_MOD),
    ("SEG_MUL_MOD", Gen.Layout.dynamic.SEG_MUL_MOD),
    ("PM_MAX_LOG_N_STEPS", Gen.PublicMemory.MAX_LOG_N_STEPS),
    ("PM_MAX_RANGE_CHECK", Gen.PublicMemory.MAX_RANGE_CHECK),
    ("PM_MAX_ADDRESS", Gen.PublicMemory.MAX_ADDRESS),
    ("PM_INITIAL_PC", Gen.PublicMemory.INITIAL_PC)]
  builtins := []
  gvFields := []
  interactionFields := []
  composition := ([], 0)
  oods := ([], 0)
  periodic := []

def dynData : DynData where
  base := dynBase
  dpFields := Gen.DynamicParams.toVecOrder
  usizeMax := Gen.Layout.dynamic.usizeMax
  asserts := Gen.Layout.dynamic.asserts

/-- `dynamic_params` of the shipped example proof, in `Vec<usize>` order -/
def shippedDp : List Nat := [
  0, 0, 0, 0, 0, 0, 0, 0, 0, 0, 0, 0, 0, 0, 0, 0, 0, 0, 0, 0, 0, 0, 0, 0, 0, 0, 0, 0, 0, 0, 0, 0, 0, 0, 0, 0, 0, 0, 0, 0,
  0, 0, 0, 0, 0, 0, 0, 32, 16, 3, 0, 4, 2, 6, 4, 19, 4, 51, 4, 3, 4, 35, 4, 11, 4, 43, 4, 6, 0, 6, 1, 2, 1, 2, 0, 2, 0, 0, 0, 0,
  0, 0, 0, 0, 0, 0, 0, 0, 0, 0, 0, 0, 0, 0, 0, 0, 0, 0, 0, 0, 0, 0, 0, 0, 0, 0, 0, 0, 0, 0, 0, 0, 0, 0, 0, 0, 0, 0, 0, 0,
  0, 0, 0, 0, 0, 0, 0, 0, 0, 0, 0, 0, 0, 0, 0, 0, 0, 0, 0, 0, 0, 0, 0, 0, 0, 0, 0, 0, 0, 0, 0, 0, 0, 0, 0, 0, 0, 0, 0, 0,
  0, 0, 0, 0, 0, 0, 0, 0, 0, 4, 2, 4, 6, 7, 0, 4, 1, 4, 5, 8, 0, 0, 0, 0, 0, 0, 0, 0, 0, 0, 0, 0, 0, 0, 0, 0, 0, 0, 0, 0,
  0, 0, 0, 0, 0, 0, 0, 0, 0, 0, 0, 0, 0, 0, 0, 0, 0, 0, 0, 0, 0, 0, 0, 0, 0, 0, 0, 0, 0, 0, 0, 0, 0, 0, 0, 0, 0, 0, 0, 0,
  0, 0, 0, 0, 0, 0, 0, 0, 0, 0, 0, 0, 0, 0, 0, 0, 0, 0, 0, 0, 0, 0, 0, 0, 0, 0, 0, 0, 0, 5, 3, 1, 4, 27, 4, 1020, 3, 2, 3, 1,
  3, 3, 4, 0, 5, 133, 69, 2048, 0, 0, 0, 0, 0, 0, 0, 0, 0, 0, 0, 0, 0, 0, 0, 0, 0, 0, 0, 0, 0, 0, 0, 0, 5, 0, 1, 0, 0, 0, 0, 0,
  0, 0, 0, 0, 0, 0, 48, 197, 2048, 1, 0, 0, 0, 0, 0, 0, 1, 0, 0, 1]

def seg (b s : Nat) : SegmentInfo := ⟨Felt.ofNat b, Felt.ofNat s⟩

def mkDomains (traceLen : Nat) : StarkDomains :=
  ⟨Felt.ofNat 0, Felt.ofNat 0, Felt.ofNat 0, Felt.ofNat 0, Felt.ofNat traceLen, Felt.ofNat 0⟩

/-- the shipped proof's public input (header and segments; the pages are not read by
    `validate_public_input`) -/
def shippedPi : PublicInput where
  logNSteps := Felt.ofNat 11
  rangeCheckMin := Felt.ofNat 0
  rangeCheckMax := Felt.ofNat 32802
  layout := Felt.ofNat Gen.Layout.dynamic.LAYOUT_CODE
  dynamicParams := some shippedDp
  segments := [seg 1 5, seg 454 1568, seg 1568 1572, seg 1572 1620, seg 1764 1775, seg 1828 1828,
    seg 1828 1828, seg 1828 1828, seg 1828 1828, seg 1828 1828, seg 1828 1828, seg 1828 1828, seg 1828 1828]
  paddingAddr := Felt.ofNat 1
  paddingValue := Felt.ofNat 0
  mainPage := []
  continuousPageHeaders := []

end Swiftness.Proofs.DynEx
