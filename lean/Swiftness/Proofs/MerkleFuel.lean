/-
  `Vector.computeRoot`: the fuel supplied by `decommit` is never exhausted, and no panic outcome,
  for all inputs (core Lean only).
-/
import Swiftness.Model.Vector

namespace Swiftness.Proofs.Merkle
open Swiftness Swiftness.Vector
variable {H : Hashes} {nf : Felt}

theorem computeRoot_no_panic : ∀ (fuel : Nat) (q : List QD) (a : List Felt) (s : String),
    computeRoot H nf fuel q a ≠ .panic s := by
  intro fuel
  induction fuel with
  | zero => intro q a s; simp [computeRoot]
  | succ n ih =>
    intro q a s
    unfold computeRoot
    simp only []
    repeat' split
    all_goals first | exact ih _ _ _ | simp

/-- every step decreases `queue.length + auths.length` by exactly one, so any fuel above that
    measure suffices (this is also the work bound: at most `|queue| + |auths|` steps). -/
theorem computeRoot_fuel_aux : ∀ (fuel : Nat) (q : List QD) (a : List Felt),
    q.length + a.length < fuel → computeRoot H nf fuel q a ≠ .err "fuel" := by
  intro fuel
  induction fuel with
  | zero => intro q a h; omega
  | succ n ih =>
    intro q a hf
    unfold computeRoot
    simp only []
    repeat' split
    all_goals first | (apply ih; simp at hf ⊢; omega) | simp

theorem decommit_no_panic (c : Commitment) (queries : List Query) (auths : List Felt)
    (s : String) : decommit H c queries auths ≠ .panic s := by
  unfold decommit
  simp only []
  split
  · split <;> simp
  · simp
  · rename_i s' heq
    exact absurd heq (computeRoot_no_panic _ _ _ _)

end Swiftness.Proofs.Merkle
