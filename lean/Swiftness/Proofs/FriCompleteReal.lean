/-
  C06b (FRI completeness), part 5: the executable prover `Prover.friProve` (with the executable Merkle
  builder) IS the spec-level prover `friProveSpec` on well-formed inputs, hence completeness for the
  real prover.
-/
import Swiftness.Proofs.FriCompleteMain
import Swiftness.Proofs.FriCompleteMerkle

namespace Swiftness.Proofs.FriComplete
open Swiftness Fri FoldSpec Prover
attribute [-instance] Fin.instOfNat

theorem friLayers_nil (H : Hashes) (nf : Felt) (L : ℕ) (cs : List Felt) (Q : List ℕ)
    (t : Transcript) : friLayers H nf [] L cs Q t = ([], [], [], cs, t) := rfl

/-- unfolding of `Prover.friLayers`, in projection form -/
theorem friLayers_cons (H : Hashes) (nf : Felt) (k : ℕ) (steps : List ℕ) (L : ℕ) (cs : List Felt)
    (Q : List ℕ) (t : Transcript) (bt : Felt × List Felt × List Felt)
    (hbt : buildTableAuth H nf (L - k)
      (Array.ofFn (n := 2 ^ (L - k)) fun r =>
        (List.range (2 ^ k)).map fun i => evalL cs (layerPoint L (r.val * 2 ^ k + i)))
      (cosetIdx (2 ^ k) Q) = bt) :
    friLayers H nf (k :: steps) L cs Q t =
      (bt.1 ::
        (friLayers H nf steps (L - k) (foldPoly k (challenge H t bt.1) cs)
          (cosetIdx (2 ^ k) Q) (afterRound H t bt.1)).1,
       challenge H t bt.1 ::
        (friLayers H nf steps (L - k) (foldPoly k (challenge H t bt.1) cs)
          (cosetIdx (2 ^ k) Q) (afterRound H t bt.1)).2.1,
       ⟨bt.1,
        expectedSiblings (2 ^ k) (fun idx => evalL cs (layerPoint L idx)) (cosetIdx (2 ^ k) Q) Q,
        bt.2.2⟩ ::
        (friLayers H nf steps (L - k) (foldPoly k (challenge H t bt.1) cs)
          (cosetIdx (2 ^ k) Q) (afterRound H t bt.1)).2.2.1,
       (friLayers H nf steps (L - k) (foldPoly k (challenge H t bt.1) cs)
          (cosetIdx (2 ^ k) Q) (afterRound H t bt.1)).2.2.2.1,
       (friLayers H nf steps (L - k) (foldPoly k (challenge H t bt.1) cs)
          (cosetIdx (2 ^ k) Q) (afterRound H t bt.1)).2.2.2.2) := by
  subst hbt
  rfl

/-- on well-formed inputs the executable layer prover equals the spec-level one -/
theorem friLayers_eq_spec (H : Hashes) (nf : Felt) (steps : List ℕ) :
    ∀ (L : ℕ) (cs : List Felt) (Q : List ℕ) (t : Transcript),
      steps.sum ≤ L → Q.Pairwise (· < ·) → (∀ q ∈ Q, q < 2 ^ L) →
      friLayers H nf steps L cs Q t = friLayersSpec H nf steps L cs Q t := by
  induction steps with
  | nil => intro L cs Q t _ _ _; rfl
  | cons k steps ih =>
    intro L cs Q t hsum hQ hQb
    have hsum' : k + steps.sum ≤ L := by simpa using hsum
    have hkL : k ≤ L := by omega
    have hbt := buildTableAuth_spec H nf (L - k) (2 ^ k)
      (fun r i => evalL cs (layerPoint L (r * 2 ^ k + i))) (cosetIdx (2 ^ k) Q)
      (cosetIdx_pairwise _ Q hQ) (cosetIdx_lt k L hkL Q hQb)
    rw [friLayers_cons H nf k steps L cs Q t _ hbt, friLayersSpec_cons]
    simp only []
    rw [ih (L - k) _ _ _ (by omega) (cosetIdx_pairwise _ Q hQ) (cosetIdx_lt k L hkL Q hQb)]
    rfl

/-- on well-formed inputs the executable prover equals the spec-level one -/
theorem friProve_eq_spec (H : Hashes) (nf : Felt) (steps : List ℕ) (lastBound logNCosets : ℕ)
    (cs : List Felt) (Q : List ℕ) (t : Transcript) (hQ : Q.Pairwise (· < ·))
    (hQb : ∀ q ∈ Q, q < 2 ^ (steps.sum + lastBound + logNCosets)) :
    friProve H nf steps lastBound logNCosets cs Q t
      = friProveSpec H nf steps lastBound logNCosets cs Q t := by
  have h := friLayers_eq_spec H nf steps (steps.sum + lastBound + logNCosets) cs Q t (by omega) hQ hQb
  unfold friProve friProveSpec
  simp only [foldl_add_eq_sum_nat]
  rw [h]
  rfl

end Swiftness.Proofs.FriComplete
