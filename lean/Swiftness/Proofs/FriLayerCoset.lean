/-
  C06, per-layer step, part 1: `cosetLoop` / `cosetElements` on a well-formed coset.
-/
import Swiftness.Model.Fri
import Swiftness.Proofs.FoldFelt

namespace Swiftness.Proofs
open Swiftness Fri FoldSpec
attribute [-instance] Fin.instOfNat

/-- the layer query at index `idx` for value function `yv` and x-inverse function `xi` -/
def mkQ (yv xi : ℕ → Felt) (idx : ℕ) : LayerQuery := ⟨(idx : Felt), yv idx, xi idx⟩

theorem cast_inj_of_lt {a b : ℕ} (ha : a < P) (hb : b < P) :
    ((a : ℕ) : Felt) = ((b : ℕ) : Felt) ↔ a = b := by
  constructor
  · intro h
    have h2 := congrArg Fin.val h
    rwa [Felt.val_cast_of_lt ha, Felt.val_cast_of_lt hb] at h2
  · rintro rfl; rfl

theorem friGroup_getElem? (i : ℕ) (h : i < 16) : friGroup[i]? = some (friGroup.getD i 0) := by
  have hl : i < friGroup.length := by rw [friGroup_length]; exact h
  simp [List.getD, List.getElem?_eq_getElem hl]

theorem start_add (c n i : ℕ) :
    ((c * n : ℕ) : Felt) + Felt.ofNat i = ((c * n + i : ℕ) : Felt) := by
  rw [Felt.ofNat_eq_cast]; push_cast; rfl

/-- `cosetLoop` from offset `i` with `m` offsets left, on the queries `A` of coset `c` (followed by
    queries of other cosets) and exactly the sibling values of the non-queried offsets. -/
theorem cosetLoop_spec (yv xi : ℕ → Felt) (c n : ℕ) (hn : n ≤ 16) (hb : c * n + n < P) (X : Felt)
    (hX : ∀ i < n, xi (c * n + i) * friGroup.getD i 0 = X)
    (rest : List LayerQuery) (hrest : ∀ q ∈ rest, ∀ j < n, q.index ≠ ((c * n + j : ℕ) : Felt))
    (sibs' : List Felt) :
    ∀ (m i : ℕ), i + m = n → ∀ (A : List ℕ), A.Pairwise (· < ·) →
      (∀ a ∈ A, c * n + i ≤ a ∧ a < c * n + n) → ∀ (x0 : Felt) (acc : List Felt),
      cosetLoop ((c * n : ℕ) : Felt) m i (A.map (mkQ yv xi) ++ rest)
        (((List.range' i m).filter (fun j => decide (c * n + j ∉ A))).map (fun j => yv (c * n + j))
          ++ sibs') x0 acc
      = .ok ⟨acc.reverse ++ (List.range' i m).map (fun j => yv (c * n + j)),
          if A = [] then x0 else X, rest, sibs'⟩ := by
  intro m
  induction m with
  | zero =>
    intro i hi A _ hAr x0 acc
    have hA : A = [] := by
      cases A with
      | nil => rfl
      | cons a t => have := hAr a (List.mem_cons_self ..); omega
    subst hA
    simp [cosetLoop]
  | succ m ih =>
    intro i hi A hA hAr x0 acc
    have hi_lt : i < n := by omega
    rw [List.range'_succ]
    cases A with
    | nil =>
      have key := ih (i + 1) (by omega) [] List.Pairwise.nil (by simp) x0 (yv (c * n + i) :: acc)
      simp only [List.map_nil, List.nil_append, List.not_mem_nil, not_false_eq_true, decide_true,
        List.filter_true, if_true, List.reverse_cons, List.append_assoc,
        List.filter_cons_of_pos, List.map_cons, List.cons_append] at key ⊢
      cases rest with
      | nil => simp only [cosetLoop]; exact key
      | cons q r =>
        have hq : ¬ (q.index = ((c * n : ℕ) : Felt) + Felt.ofNat i) := by
          rw [start_add]; exact hrest q (List.mem_cons_self ..) i hi_lt
        simp only [cosetLoop, if_neg hq]; exact key
    | cons a A' =>
      have haA := hAr a (List.mem_cons_self ..)
      have hA' : A'.Pairwise (· < ·) := (List.pairwise_cons.mp hA).2
      have hgt : ∀ a' ∈ A', a < a' := (List.pairwise_cons.mp hA).1
      by_cases ha : a = c * n + i
      · subst ha
        have hfil : ((List.range' (i + 1) m).filter (fun j => decide (c * n + j ∉ (c * n + i) :: A')))
            = ((List.range' (i + 1) m).filter (fun j => decide (c * n + j ∉ A'))) := by
          apply List.filter_congr
          intro j hj
          have : i + 1 ≤ j := (List.mem_range'_1.mp hj).1
          have hne : j ≠ i := by omega
          simp [hne]
        have key := ih (i + 1) (by omega) A' hA'
          (fun a' ha' => ⟨by have := hgt a' ha'; omega, (hAr a' (List.mem_cons_of_mem _ ha')).2⟩)
          X (yv (c * n + i) :: acc)
        rw [List.filter_cons_of_neg (by simp), hfil]
        have hq : (mkQ yv xi (c * n + i)).index = ((c * n : ℕ) : Felt) + Felt.ofNat i := by
          rw [start_add]; rfl
        simp only [List.map_cons, List.cons_append, cosetLoop, if_pos hq,
          friGroup_getElem? i (by omega)]
        have hx : (mkQ yv xi (c * n + i)).xInvValue * friGroup.getD i 0 = X := hX i hi_lt
        have hy : (mkQ yv xi (c * n + i)).yValue = yv (c * n + i) := rfl
        rw [hx, hy, key]
        simp
      · have hlt : c * n + i < a := by omega
        have hnot : c * n + i ∉ a :: A' := by
          intro hmem
          rcases List.mem_cons.mp hmem with h | h
          · omega
          · have := hgt _ h; omega
        have key := ih (i + 1) (by omega) (a :: A') hA
          (fun a' ha' => ⟨by
            rcases List.mem_cons.mp ha' with h | h
            · omega
            · have := hgt _ h; omega, (hAr a' ha').2⟩)
          x0 (yv (c * n + i) :: acc)
        rw [List.filter_cons_of_pos (by simpa using hnot)]
        have hq : ¬ ((mkQ yv xi a).index = ((c * n : ℕ) : Felt) + Felt.ofNat i) := by
          rw [start_add]
          show ¬ (((a : ℕ) : Felt) = _)
          rw [cast_inj_of_lt (by omega) (by omega)]
          omega
        simp only [List.map_cons, List.cons_append, cosetLoop, if_neg hq]
        simp only [List.map_cons, List.cons_append] at key
        rw [key]
        simp

theorem cast_val_small {n : ℕ} (hn : n ≤ 16) : (((n : ℕ) : Felt)).val = n :=
  Felt.val_cast_of_lt (lt_of_le_of_lt hn (by decide +kernel))

/-- one iteration of the `compute_next_layer` while-loop on a well-formed coset -/
theorem nextLayerLoop_step (yv xi : ℕ → Felt) (b : Felt) (c n : ℕ) (hn1 : 1 ≤ n) (hn : n ≤ 16)
    (hb : c * n + n < 2 ^ 65)
    (hX : ∀ i < n, xi (c * n + i) * friGroup.getD i 0 = xi (c * n))
    (a0 : ℕ) (A' : List ℕ) (hA : (a0 :: A').Pairwise (· < ·))
    (hAr : ∀ a ∈ a0 :: A', c * n ≤ a ∧ a < c * n + n)
    (rest : List LayerQuery) (hrest : ∀ q ∈ rest, ∀ j < n, q.index ≠ ((c * n + j : ℕ) : Felt))
    (fvc : Felt)
    (hfv : friFormula ((List.range n).map (fun i => yv (c * n + i))) b (xi (c * n)) ((n : ℕ) : Felt)
      = .ok fvc)
    (sibs' : List Felt) (fuel : ℕ) (nq : List LayerQuery) (vi vy : List Felt) :
    nextLayerLoop ((n : ℕ) : Felt) b (fuel + 1) ((a0 :: A').map (mkQ yv xi) ++ rest)
      (((List.range n).filter (fun j => decide (c * n + j ∉ a0 :: A'))).map (fun j => yv (c * n + j))
        ++ sibs') nq vi vy
    = nextLayerLoop ((n : ℕ) : Felt) b fuel rest sibs'
        (⟨((c : ℕ) : Felt), fvc, xi (c * n) ^ n⟩ :: nq) (((c : ℕ) : Felt) :: vi)
        (vy ++ (List.range n).map (fun i => yv (c * n + i))) := by
  have hP : (2 : ℕ) ^ 65 < P := by decide +kernel
  have hbP : c * n + n < P := lt_trans hb hP
  have hnval : (((n : ℕ) : Felt)).val = n := cast_val_small hn
  have ha0 := hAr a0 (List.mem_cons_self ..)
  have hn0 : ¬ (((n : ℕ) : Felt) = @OfNat.ofNat Felt 0 Fin.instOfNat) := by
    rw [felt_ofNat, cast_inj_of_lt (by omega) (by omega)]; omega
  have hidx : Felt.ofNat ((mkQ yv xi a0).index.val / n) = ((c : ℕ) : Felt) := by
    have h1 : (mkQ yv xi a0).index.val = a0 := Felt.val_cast_of_lt (by omega)
    rw [h1, Felt.ofNat_eq_cast]
    congr 1
    apply Nat.div_eq_of_lt_le ha0.1
    rw [Nat.add_mul, Nat.one_mul]; exact ha0.2
  have hstart : ((c : ℕ) : Felt) * ((n : ℕ) : Felt) = ((c * n : ℕ) : Felt) := by push_cast; rfl
  have hloop := cosetLoop_spec yv xi c n hn hbP (xi (c * n)) hX rest hrest sibs' n 0 (by omega)
    (a0 :: A') hA (fun a ha => ⟨by have := (hAr a ha).1; omega, (hAr a ha).2⟩)
    (@OfNat.ofNat Felt 0 Fin.instOfNat) []
  rw [← List.range_eq_range'] at hloop
  have hlt64 : ¬ (n ≥ 2 ^ 64) := by omega
  have hcons : (a0 :: A').map (mkQ yv xi) ++ rest
      = mkQ yv xi a0 :: (A'.map (mkQ yv xi) ++ rest) := rfl
  have hpow : Felt.pow (xi (c * n)) n = xi (c * n) ^ n := Felt.pow_eq _ _ (by omega)
  rw [hcons, nextLayerLoop]
  simp only [if_neg hn0, cosetElements, hnval, if_neg hlt64]
  simp only [hidx, hstart]
  rw [← hcons, hloop]
  simp only [List.reverse_nil, List.nil_append, reduceCtorEq, if_false, hfv, hpow]

end Swiftness.Proofs
