/-
  C14 helper lemmas, part 1: field division versus natural division.
  `field_div` (multiplication by the inverse) followed by `<=` against a small bound enforces exact
  divisibility; the field quotient of a non-multiple is never small.
-/
import Swiftness.Proofs.FeltField

namespace Swiftness.Proofs.PIC
open Swiftness
attribute [-instance] Fin.instOfNat

theorem P_pos : 0 < P := by decide +kernel
theorem two_pow_128_lt_P : 2 ^ 128 < P := by decide +kernel
theorem two_pow_250_lt_P : 2 ^ 250 < P := by decide +kernel

theorem cast_ne_zero {k : ℕ} (hk : 0 < k) (hkP : k < P) : ((k : ℕ) : Felt) ≠ 0 := by
  intro h
  have h2 : ((k : ℕ) : ZMod P) = 0 := h
  rw [ZMod.natCast_eq_zero_iff] at h2
  exact absurd (Nat.le_of_dvd hk h2) (not_le.mpr hkP)

theorem cast_inj {m n : ℕ} (hm : m < P) (hn : n < P) (h : ((m : ℕ) : Felt) = ((n : ℕ) : Felt)) :
    m = n := by
  have := congrArg Fin.val h
  rwa [Felt.val_cast_of_lt hm, Felt.val_cast_of_lt hn] at this

/-- a field quotient `d / k` whose representative `q` satisfies `q * k < P` is an exact natural
    quotient -/
theorem field_div_small {k : ℕ} (hk : 0 < k) (hkP : k < P) (d : Felt) {m : ℕ} (hm : m * k < P)
    (h : (d * (((k : ℕ) : Felt))⁻¹).val ≤ m) :
    d.val = (d * (((k : ℕ) : Felt))⁻¹).val * k := by
  have hk0 : ((k : ℕ) : Felt) ≠ 0 := cast_ne_zero hk hkP
  have hqk : (d * (((k : ℕ) : Felt))⁻¹).val * k < P := lt_of_le_of_lt (Nat.mul_le_mul_right k h) hm
  have h1 : ((((d * (((k : ℕ) : Felt))⁻¹).val * k : ℕ)) : Felt) = d := by
    rw [Nat.cast_mul, Felt.cast_val]
    field_simp
  have h2 := congrArg Fin.val h1
  rw [Felt.val_cast_of_lt hqk] at h2
  exact h2.symm

/-- an exact natural quotient is the field quotient -/
theorem field_div_of_dvd {k : ℕ} (hk : 0 < k) (hkP : k < P) (d : Felt) {c : ℕ} (hc : d.val = k * c) :
    (d * (((k : ℕ) : Felt))⁻¹).val = c := by
  have hk0 : ((k : ℕ) : Felt) ≠ 0 := cast_ne_zero hk hkP
  have hcP : c < P := by
    have : c ≤ k * c := Nat.le_mul_of_pos_left c hk
    have := d.isLt
    omega
  have h1 : d = ((k : ℕ) : Felt) * ((c : ℕ) : Felt) := by
    rw [← Felt.cast_val d, hc, Nat.cast_mul]
  have h2 : d * (((k : ℕ) : Felt))⁻¹ = ((c : ℕ) : Felt) := by
    rw [h1]; field_simp
  rw [h2, Felt.val_cast_of_lt hcP]

/-- THE KEY FACT: `field_div(d, k) <= m` (with `m * k < P`) holds exactly when `k` divides the
    representative of `d` and the natural quotient is `≤ m`. -/
theorem uses_field_div (k : ℕ) (hk : 0 < k) (hkP : k < P) (d : Felt) (m : ℕ) (hm : m * k < P) :
    (d * Felt.inv (Felt.ofNat k)).val ≤ m ↔ (k ∣ d.val ∧ d.val / k ≤ m) := by
  rw [Felt.inv_eq, Felt.ofNat_eq_cast]
  constructor
  · intro h
    have h2 := field_div_small hk hkP d hm h
    refine ⟨⟨_, by rw [mul_comm]; exact h2⟩, ?_⟩
    rw [h2, Nat.mul_div_cancel _ hk]; exact h
  · rintro ⟨⟨c, hc⟩, h⟩
    rw [hc, Nat.mul_div_cancel_left _ hk] at h
    rw [field_div_of_dvd hk hkP d hc]; exact h

/-- number of builtin instances the trace holds: exact when the row ratio divides the length -/
theorem copies_exact_gen (T ratio : ℕ) (hr : 0 < ratio) (hT : T < P) (hdvd : ratio ∣ T) :
    (Felt.ofNat T * Felt.inv (Felt.ofNat ratio)).val = T / ratio := by
  rw [Felt.inv_eq, Felt.ofNat_eq_cast, Felt.ofNat_eq_cast]
  rcases Nat.eq_zero_or_pos T with h0 | hpos
  · subst h0
    rw [Nat.cast_zero, zero_mul, Nat.zero_div]; rfl
  · have hrP : ratio < P := lt_of_le_of_lt (Nat.le_of_dvd hpos hdvd) hT
    obtain ⟨c, hc⟩ := hdvd
    have hv : (((T : ℕ) : Felt)).val = ratio * c := by rw [Felt.val_cast_of_lt hT, hc]
    rw [field_div_of_dvd hr hrP _ hv, hc, Nat.mul_div_cancel_left _ hr]

/-- a SMALL field quotient `T / ratio` forces `ratio ∣ T` -/
theorem copies_small_dvd (T ratio : ℕ) (hr : 0 < ratio) (hrP : ratio < P) (hT : T < P) (m : ℕ)
    (hm : m * ratio < P) (h : (Felt.ofNat T * Felt.inv (Felt.ofNat ratio)).val ≤ m) : ratio ∣ T := by
  have := (uses_field_div ratio hr hrP (Felt.ofNat T) m hm).mp h
  rw [Felt.ofNat_eq_cast, Felt.val_cast_of_lt hT] at this
  exact this.1

/-- contrapositive: when the row ratio does not divide the trace length, the field quotient
    `copies` is NOT small (so `uses <= copies` is no constraint on small `uses`) -/
theorem copies_large_of_not_dvd (T ratio : ℕ) (hr : 0 < ratio) (hrP : ratio < P) (hT : T < P) (m : ℕ)
    (hm : m * ratio < P) (h : ¬ ratio ∣ T) : m < (Felt.ofNat T * Felt.inv (Felt.ofNat ratio)).val := by
  by_contra hc
  exact h (copies_small_dvd T ratio hr hrP hT m hm (not_lt.mp hc))

theorem two_pow_lt_P {t : ℕ} (ht : t ≤ 250) : 2 ^ t < P :=
  lt_of_le_of_lt (Nat.pow_le_pow_right (by norm_num) ht) two_pow_250_lt_P

/-- `copies` for a power-of-two trace of length `2^t` and a power-of-two row ratio `2^r ≤ 2^t` -/
theorem copies_exact (t r : ℕ) (hrt : r ≤ t) (ht : t ≤ 192) :
    (Felt.ofNat (2 ^ t) * Felt.inv (Felt.ofNat (2 ^ r))).val = 2 ^ (t - r) := by
  rw [copies_exact_gen (2 ^ t) (2 ^ r) (by positivity) (two_pow_lt_P (by omega))
    (pow_dvd_pow 2 hrt), Nat.pow_div hrt (by norm_num)]

/-- a power-of-two trace `2^t`, `t ≤ 71`, and any ratio `< 2^64`: a `u128`-small `copies` forces the
    ratio to divide the trace length -/
theorem copies_small_iff (t ratio : ℕ) (ht : t ≤ 71) (hr : 0 < ratio) (hr64 : ratio < 2 ^ 64)
    (h : (Felt.ofNat (2 ^ t) * Felt.inv (Felt.ofNat ratio)).val < 2 ^ 128) : ratio ∣ 2 ^ t := by
  have h192 : (2 : ℕ) ^ 128 * 2 ^ 64 < P := by decide +kernel
  have h64 : (2 : ℕ) ^ 64 < P := by decide +kernel
  refine copies_small_dvd (2 ^ t) ratio hr (by omega) (two_pow_lt_P (by omega)) (2 ^ 128) ?_ (le_of_lt h)
  calc 2 ^ 128 * ratio ≤ 2 ^ 128 * 2 ^ 64 := Nat.mul_le_mul_left _ (le_of_lt hr64)
    _ < P := h192

/-- `2^j · (P - (P-1)/2^j) ≡ 1`: the inverse of `2^j`, `1 ≤ j ≤ 192`, is `P - (P-1)/2^j ≥ (P+1)/2` -/
theorem inv_two_pow_val (j : ℕ) (hj1 : 1 ≤ j) (hj : j ≤ 192) :
    (Felt.inv (Felt.ofNat (2 ^ j))).val = P - (P - 1) / 2 ^ j := by
  have hdvd : 2 ^ j ∣ P - 1 := by
    have h192 : 2 ^ 192 ∣ P - 1 := by decide +kernel
    exact dvd_trans (pow_dvd_pow 2 hj) h192
  obtain ⟨c, hc⟩ := hdvd
  have hpos : 0 < 2 ^ j := by positivity
  have hq : (P - 1) / 2 ^ j = c := by rw [hc]; exact Nat.mul_div_cancel_left c hpos
  have hP := P_pos
  have hcP : c < P := by
    have : c ≤ 2 ^ j * c := Nat.le_mul_of_pos_left c hpos
    omega
  have h2j : 2 ^ j < P := two_pow_lt_P (by omega)
  have hk0 : (((2 ^ j : ℕ)) : Felt) ≠ 0 := cast_ne_zero hpos h2j
  rw [hq, Felt.inv_eq, Felt.ofNat_eq_cast]
  have hPc : ((P : ℕ) : Felt) = 0 := by
    have : ((P : ℕ) : ZMod P) = 0 := ZMod.natCast_self P
    exact this
  have h1 : (((2 ^ j : ℕ)) : Felt) * (((P - c : ℕ)) : Felt) = 1 := by
    rw [Nat.cast_sub (le_of_lt hcP), hPc, zero_sub, mul_neg, ← Nat.cast_mul, ← hc,
      Nat.cast_sub (by omega), hPc, Nat.cast_one]
    ring
  have h2 : ((((2 ^ j : ℕ)) : Felt))⁻¹ = (((P - c : ℕ)) : Felt) := by
    rw [eq_comm, ← mul_eq_one_iff_eq_inv₀ hk0, mul_comm]; exact h1
  have h1P : 1 < P := by decide +kernel
  have hc0 : 0 < c := by
    rcases Nat.eq_zero_or_pos c with h0 | h0
    · subst h0; omega
    · exact h0
  rw [h2, Felt.val_cast_of_lt (by omega)]

/-- SHORT TRACE: for a trace `2^t` shorter than the row ratio `2^r` the field quotient `copies`
    is `P - (P-1)/2^(r-t)`, at least `(P+1)/2` -/
theorem copies_short (t r : ℕ) (htr : t < r) (hr : r ≤ 192) :
    (Felt.ofNat (2 ^ t) * Felt.inv (Felt.ofNat (2 ^ r))).val = P - (P - 1) / 2 ^ (r - t) := by
  rw [← inv_two_pow_val (r - t) (by omega) (by omega)]
  have key : Felt.ofNat (2 ^ t) * Felt.inv (Felt.ofNat (2 ^ r)) = Felt.inv (Felt.ofNat (2 ^ (r - t))) := by
    rw [Felt.inv_eq, Felt.inv_eq, Felt.ofNat_eq_cast, Felt.ofNat_eq_cast, Felt.ofNat_eq_cast]
    have h1 : (((2 ^ r : ℕ)) : Felt) = (((2 ^ t : ℕ)) : Felt) * (((2 ^ (r - t) : ℕ)) : Felt) := by
      rw [← Nat.cast_mul, ← pow_add]; congr 2; omega
    have ha : (((2 ^ t : ℕ)) : Felt) ≠ 0 := cast_ne_zero (by positivity) (two_pow_lt_P (by omega))
    have hb : (((2 ^ (r - t) : ℕ)) : Felt) ≠ 0 := cast_ne_zero (by positivity) (two_pow_lt_P (by omega))
    rw [h1]; field_simp
  rw [key]

theorem copies_short_ge (t r : ℕ) (htr : t < r) (hr : r ≤ 192) :
    2 ^ 250 ≤ (Felt.ofNat (2 ^ t) * Felt.inv (Felt.ofNat (2 ^ r))).val := by
  rw [copies_short t r htr hr]
  have h1 : (P - 1) / 2 ^ (r - t) ≤ (P - 1) / 2 :=
    Nat.div_le_div_left (by calc 2 = 2 ^ 1 := rfl
                               _ ≤ 2 ^ (r - t) := Nat.pow_le_pow_right (by norm_num) (by omega)) (by norm_num)
  have h2 : 2 ^ 250 ≤ P - (P - 1) / 2 := by decide +kernel
  omega

end Swiftness.Proofs.PIC
