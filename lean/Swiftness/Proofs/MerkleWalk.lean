/-
  The queue walk of `Vector.computeRoot` processes the tree layer by layer (core Lean only).
  `run` is `computeRoot` with exactly the fuel `decommit` supplies; `layerStep` is the pure
  one-layer function; `walk_layer` (Lemma A) relates them.
-/
import Swiftness.Proofs.MerkleIdx

namespace Swiftness.Proofs.Merkle

open Swiftness Swiftness.Merkle Swiftness.Vector

theorem two251_lt_P : 2 ^ 251 < P := by decide +kernel

theorem ofNat_val {i : Nat} (hi : i < 2 ^ 251) : (Felt.ofNat i).val = i := by
  show i % P = i
  exact Nat.mod_eq_of_lt (Nat.lt_trans hi two251_lt_P)

theorem one_val : (1 : Felt).val = 1 := by decide +kernel

theorem ofNat_ne_one {i : Nat} (hi : i < 2 ^ 251) (h2 : 2 ≤ i) : Felt.ofNat i ≠ 1 := by
  intro h
  have := congrArg Fin.val h
  rw [ofNat_val hi, one_val] at this
  omega

theorem ofNat_add_one_val {i : Nat} (hi : i < 2 ^ 251) : (Felt.ofNat i + 1).val = i + 1 := by
  rw [Fin.val_add, ofNat_val hi, one_val]
  exact Nat.mod_eq_of_lt (by have := two251_lt_P; omega)

/-- `computeRoot` with the fuel used by `decommit` -/
def run (H : Hashes) (nf : Felt) (q : List QD) (a : List Felt) : Outcome Felt :=
  computeRoot H nf (q.length + a.length + 1) q a

variable {H : Hashes} {nf : Felt}

theorem run_nil (a : List Felt) : run H nf [] a = .err "IndexInvalid" := by
  simp [run, computeRoot]

theorem run_root {cur : QD} (h1 : cur.index = 1) (rest : List QD) (a : List Felt) :
    run H nf (cur :: rest) a = .ok cur.value := by
  simp [run, computeRoot, h1]

theorem run_merge {cur next : QD} (h1 : cur.index ≠ 1) (hb : cur.index.val % 2 = 0)
    (hn : cur.index + 1 = next.index) (rest : List QD) (a : List Felt) :
    run H nf (cur :: next :: rest) a =
      run H nf (rest ++ [⟨Felt.ofNat (cur.index.val / 2),
        hashFU H cur.value next.value (decide (nf.val ≥ cur.depth.val)), cur.depth - 1⟩]) a := by
  unfold run
  rw [computeRoot]
  simp only [h1, hb, hn, if_true, if_false]
  congr 1
  simp only [List.length_cons, List.length_append, List.length_nil]
  omega

theorem run_auth {cur : QD} {rest : List QD} (h1 : cur.index ≠ 1)
    (hn : cur.index.val % 2 = 0 → ∀ next rest', rest = next :: rest' → cur.index + 1 ≠ next.index)
    (s : Felt) (a : List Felt) :
    run H nf (cur :: rest) (s :: a) =
      run H nf (rest ++ [⟨Felt.ofNat (cur.index.val / 2),
        if cur.index.val % 2 = 0 then hashFU H cur.value s (decide (nf.val ≥ cur.depth.val))
        else hashFU H s cur.value (decide (nf.val ≥ cur.depth.val)), cur.depth - 1⟩]) a := by
  have hfuel : (cur :: rest).length + (s :: a).length =
      (rest ++ [(⟨Felt.ofNat (cur.index.val / 2),
        if cur.index.val % 2 = 0 then hashFU H cur.value s (decide (nf.val ≥ cur.depth.val))
        else hashFU H s cur.value (decide (nf.val ≥ cur.depth.val)), cur.depth - 1⟩ : QD)]).length
        + a.length + 1 := by
    simp only [List.length_cons, List.length_append, List.length_nil]; omega
  unfold run
  rw [computeRoot]
  simp only [h1, if_false]
  by_cases hb : cur.index.val % 2 = 0
  · simp only [hb, if_true]
    match rest, hn hb with
    | [], _ => simp only; rw [hfuel]; simp [hb]
    | next :: rest', hn' =>
      simp only [hn' next rest' rfl, if_false]; rw [hfuel]; simp [hb]
  · simp only [hb, if_false]; rw [hfuel]; simp [hb]

theorem run_noauth {cur : QD} {rest : List QD} (h1 : cur.index ≠ 1)
    (hn : cur.index.val % 2 = 0 → ∀ next rest', rest = next :: rest' → cur.index + 1 ≠ next.index) :
    run H nf (cur :: rest) [] = .err "IndexInvalid" := by
  unfold run
  rw [computeRoot]
  simp only [h1, if_false]
  by_cases hb : cur.index.val % 2 = 0
  · simp only [hb, if_true]
    match rest, hn hb with
    | [], _ => rfl
    | next :: rest', hn' => simp only [hn' next rest' rfl, if_false]
  · simp only [hb, if_false]

/-! ### the pure one-layer step -/

abbrev Node := Nat × Felt

/-- process one layer: `(i,x) (i+1,y)` with `i` even are merged; otherwise one sibling is consumed. -/
def layerStep (H : Hashes) (fr : Bool) : List Node → List Felt → Option (List Node × List Felt)
  | [], a => some ([], a)
  | [(i, x)], a =>
    match a with
    | [] => none
    | s :: a' => some ([(i / 2, if i % 2 = 0 then hashFU H x s fr else hashFU H s x fr)], a')
  | (i, x) :: (j, y) :: t, a =>
    if i % 2 = 0 ∧ i + 1 = j then
      (layerStep H fr t a).map fun r => ((i / 2, hashFU H x y fr) :: r.1, r.2)
    else
      match a with
      | [] => none
      | s :: a' =>
        (layerStep H fr ((j, y) :: t) a').map fun r =>
          ((i / 2, if i % 2 = 0 then hashFU H x s fr else hashFU H s x fr) :: r.1, r.2)

def toQD (dF : Felt) (n : Node) : QD := ⟨Felt.ofNat n.1, n.2, dF⟩

/-- Lemma A. -/
theorem walk_layer {D : Nat} (hD1 : 1 ≤ D) (hD : D ≤ 250) (dF : Felt) :
    ∀ (L : List Node) (a : List Felt) (acc : List QD), Layer D (L.map Prod.fst) →
      (∀ q ∈ acc, q.index.val < 2 ^ D) →
      run H nf (L.map (toQD dF) ++ acc) a =
        match layerStep H (decide (nf.val ≥ dF.val)) L a with
        | none => .err "IndexInvalid"
        | some (L', a') => run H nf (acc ++ L'.map (toQD (dF - 1))) a' := by
  have hpow : 2 ^ (D + 1) ≤ 2 ^ 251 := Nat.pow_le_pow_right (by omega) (by omega)
  have hpow2 : 2 ≤ 2 ^ D := by
    calc 2 = 2 ^ 1 := rfl
      _ ≤ 2 ^ D := Nat.pow_le_pow_right (by omega) hD1
  intro L a
  fun_induction layerStep H (decide (nf.val ≥ dF.val)) L a with
  | case1 a =>
    intro acc _ _
    simp
  | case2 i x =>
    intro acc hL hacc
    have hi := Layer.head hL
    have hlt : i < 2 ^ 251 := by omega
    apply run_noauth
    · exact ofNat_ne_one hlt (by omega)
    · intro _ next rest' hr heq
      have hm : next ∈ acc := by simp at hr; rw [hr]; simp
      have := hacc next hm
      have h2 := congrArg Fin.val heq
      simp only [toQD] at h2
      rw [ofNat_add_one_val hlt] at h2
      omega
  | case3 i x s a' =>
    intro acc hL hacc
    have hi := Layer.head hL
    have hlt : i < 2 ^ 251 := by omega
    simp only [List.map_cons, List.map_nil, List.cons_append, List.nil_append]
    rw [run_auth]
    · simp only [toQD, ofNat_val hlt]
      rfl
    · exact ofNat_ne_one hlt (by omega)
    · intro _ next rest' hr heq
      have hm : next ∈ acc := by rw [hr]; simp
      have := hacc next hm
      have h2 := congrArg Fin.val heq
      simp only [toQD] at h2
      rw [ofNat_add_one_val hlt] at h2
      omega
  | case4 i x j y t a hc ih =>
    intro acc hL hacc
    have hi := Layer.head hL
    have hlt : i < 2 ^ 251 := by omega
    have hpar : i / 2 < 2 ^ D := by rw [Nat.pow_succ] at hi; omega
    simp only [List.map_cons, List.cons_append]
    rw [run_merge]
    · rw [List.append_assoc]
      simp only [toQD, ofNat_val hlt]
      rw [ih]
      · cases layerStep H (decide (nf.val ≥ dF.val)) t a with
        | none => rfl
        | some r => simp [toQD]
      · exact Layer.tail2 hL
      · intro q hq
        rcases List.mem_append.1 hq with hq | hq
        · exact hacc q hq
        · simp at hq; subst hq
          simp only
          rw [ofNat_val (by omega)]; exact hpar
    · exact ofNat_ne_one hlt (by omega)
    · simp only [toQD, ofNat_val hlt]; exact hc.1
    · simp only [toQD]
      apply Fin.ext
      have hj := (Layer.tail hL).head
      rw [ofNat_add_one_val hlt, ofNat_val (by omega)]
      exact hc.2
  | case5 i x j y t hc =>
    intro acc hL hacc
    have hi := Layer.head hL
    have hj := (Layer.tail hL).head
    have hlt : i < 2 ^ 251 := by omega
    simp only [List.map_cons, List.cons_append]
    apply run_noauth
    · exact ofNat_ne_one hlt (by omega)
    · intro hb next rest' hr heq
      simp only [toQD, ofNat_val hlt] at hb
      simp only [List.cons.injEq] at hr
      rw [← hr.1] at heq
      have h2 := congrArg Fin.val heq
      simp only [toQD] at h2
      rw [ofNat_add_one_val hlt, ofNat_val (by omega)] at h2
      exact hc ⟨hb, h2⟩
  | case6 i x j y t hc s a' ih =>
    intro acc hL hacc
    have hi := Layer.head hL
    have hj := (Layer.tail hL).head
    have hlt : i < 2 ^ 251 := by omega
    have hpar : i / 2 < 2 ^ D := by rw [Nat.pow_succ] at hi; omega
    simp only [List.map_cons, List.cons_append]
    rw [run_auth]
    · rw [← List.cons_append, List.append_assoc]
      have := ih (acc ++ [⟨Felt.ofNat ((toQD dF (i, x)).index.val / 2),
        if (toQD dF (i, x)).index.val % 2 = 0 then
          hashFU H (toQD dF (i, x)).value s (decide (nf.val ≥ (toQD dF (i, x)).depth.val))
        else hashFU H s (toQD dF (i, x)).value (decide (nf.val ≥ (toQD dF (i, x)).depth.val)),
        (toQD dF (i, x)).depth - 1⟩]) (Layer.tail hL) (by
          intro q hq
          rcases List.mem_append.1 hq with hq | hq
          · exact hacc q hq
          · simp at hq; subst hq
            simp only [toQD, ofNat_val hlt]
            rw [ofNat_val (by omega)]; exact hpar)
      simp only [List.map_cons] at this
      rw [this]
      cases layerStep H (decide (nf.val ≥ dF.val)) ((j, y) :: t) a' with
      | none => rfl
      | some r => simp [toQD, ofNat_val hlt]
    · exact ofNat_ne_one hlt (by omega)
    · intro hb next rest' hr heq
      simp only [toQD, ofNat_val hlt] at hb
      simp only [List.cons.injEq] at hr
      rw [← hr.1] at heq
      have h2 := congrArg Fin.val heq
      simp only [toQD] at h2
      rw [ofNat_add_one_val hlt, ofNat_val (by omega)] at h2
      exact hc ⟨hb, h2⟩

end Swiftness.Proofs.Merkle
