/-
  C17, instrumented semantics: tick bounds for configuration validation, domains, the public-input
  hash, `stark_commit`, `stark_verify`; the corrected step count `verifyCost'`; and the headline
  `verifyT_ticks_le : (verifyT L KF H stone6 p sec).ticks ≤ verifyCost' L K p` (for EVERY proof value —
  the value-driven factors of `verifyCost'` are written as the field's value).
-/
import Swiftness.Proofs.TickedStark
import Swiftness.Proofs.TickedBoundsLayers

namespace Swiftness.Ticked
open Swiftness

/-! ### configuration validation, domains -/

theorem validateLoopT_ticks (nf : Felt) (steps : List Felt) (tcs : List Fri.TableConfig) (lis sum : Felt) :
    (validateLoopT nf steps tcs lis sum).ticks ≤ steps.length * (2 + Cost.F) := by
  induction steps generalizing tcs lis sum with
  | nil => simp [validateLoopT]
  | cons step steps ih =>
    rw [List.length_cons, Nat.add_mul, Nat.one_mul]
    cases tcs with
    | nil => simp [validateLoopT]; omega
    | cons tc tcs =>
      simp only [validateLoopT, TO.bind_ticks, TO.tick_ticks, TO.tick_out, TO.rest_ok]
      split
      · simp only [TO.err_ticks]; omega
      · simp only [TO.bind_ticks, TO.monadLift_ticks, TO.monadLift_out, TO.rest_ok, powT_ticks]
        split
        · simp only [TO.err_ticks]; omega
        · simp only [TO.bind_ticks, TO.ofOutcome_ticks]
          refine Nat.le_trans (Nat.add_le_add_left (Nat.add_le_add_left (Nat.add_le_add_left
            (TO.rest_le _ _ (steps.length * (2 + Cost.F)) ?_) 1) _) 1) (by omega)
          intro _ _
          exact ih _ _ _

/-- `StarkConfig::validate`: constant work plus one exponentiation and three slice elements per FRI
    layer announced by `n_layers` (value-driven; the slices `take (n_layers - 1)`) -/
def Cost'.config (c : StarkConfig) : Nat := 7 + c.fri.nLayers.val * (4 + Cost.F)

theorem friConfigValidateT_ticks (c : Fri.Config) (lnc nf : Felt) :
    (friConfigValidateT c lnc nf).ticks ≤ 2 + c.nLayers.val * (4 + Cost.F) := by
  simp only [friConfigValidateT, TO.bind_ticks, TO.tick_ticks, TO.tick_out, TO.rest_ok]
  repeat' split
  all_goals try (simp only [TO.err_ticks]; omega)
  simp only [TO.bind_ticks, TO.monadLift_ticks, TO.monadLift_out, TO.rest_ok, dropT_ticks, dropT_val,
    takeT_ticks, takeT_val]
  have h1 := validateLoopT_ticks nf ((c.friStepSizes.drop 1).take (c.nLayers.val - 1))
    (c.innerLayers.take (c.nLayers.val - 1)) c.logInputSize 0
  have h2 : ((c.friStepSizes.drop 1).take (c.nLayers.val - 1)).length ≤ c.nLayers.val - 1 := by
    rw [List.length_take]; exact Nat.min_le_left _ _
  have h3 : ((c.friStepSizes.drop 1).take (c.nLayers.val - 1)).length * (2 + Cost.F)
      ≤ (c.nLayers.val - 1) * (2 + Cost.F) := Nat.mul_le_mul_right _ h2
  have h4 : c.nLayers.val * (4 + Cost.F) = c.nLayers.val * 4 + c.nLayers.val * Cost.F := Nat.mul_add _ _ _
  have h5 : (c.nLayers.val - 1) * (2 + Cost.F) = (c.nLayers.val - 1) * 2 + (c.nLayers.val - 1) * Cost.F :=
    Nat.mul_add _ _ _
  have h6 : (c.nLayers.val - 1) * Cost.F ≤ c.nLayers.val * Cost.F := Nat.mul_le_mul_right _ (by omega)
  refine Nat.le_trans (Nat.add_le_add_left (Nat.add_le_add (Nat.min_le_left _ _) (Nat.add_le_add
    (Nat.min_le_left _ _) (Nat.add_le_add (Nat.min_le_left _ _) (Nat.add_le_add h1
      (TO.rest_le _ _ 0 ?_))))) 1) (by omega)
  intro r _
  split <;> simp

theorem configValidateT_ticks (c : StarkConfig) (sec n1 n2 : Felt) :
    (configValidateT c sec n1 n2).ticks ≤ Cost'.config c := by
  unfold Cost'.config
  simp only [configValidateT, TO.bind_ticks, TO.tick_ticks, TO.tick_out, TO.rest_ok, TO.ofOutcome_ticks,
    TO.ofOutcome_out]
  refine Nat.le_trans (Nat.add_le_add_left (Nat.add_le_add_left (TO.rest_le _ _
    (5 + c.fri.nLayers.val * (4 + Cost.F)) ?_) 1) 1) (by omega)
  intro _ _
  repeat' split
  all_goals try (simp only [TO.err_ticks]; omega)
  simp only [TO.bind_ticks, TO.ofOutcome_ticks, TO.ofOutcome_out]
  refine Nat.le_trans (Nat.add_le_add_left (TO.rest_le _ _ (4 + c.fri.nLayers.val * (4 + Cost.F)) ?_) 1) (by omega)
  intro _ _
  simp only [TO.bind_ticks, TO.ofOutcome_ticks, TO.ofOutcome_out]
  refine Nat.le_trans (Nat.add_le_add_left (TO.rest_le _ _ (2 + c.fri.nLayers.val * (4 + Cost.F)) ?_) 1) (by omega)
  intro _ _
  simp only [TO.bind_ticks]
  refine Nat.le_trans (Nat.add_le_add (friConfigValidateT_ticks _ _ _) (TO.rest_le _ _ 0 ?_)) (by omega)
  intro _ _
  split <;> simp

/-- `StarkDomains::new`: six exponentiations / inversions -/
def Cost'.domains : Nat := 1 + 6 * Cost.F

theorem domainsNewT_ticks (lt lnc : Felt) : (domainsNewT lt lnc).ticks ≤ Cost'.domains := by
  unfold Cost'.domains
  simp only [domainsNewT, TO.bind_ticks, TO.tick_ticks, TO.tick_out, TO.rest_ok, TO.monadLift_ticks,
    TO.monadLift_out, powT_ticks]
  repeat' split
  all_goals (simp; try omega)

/-! ### public-input hash -/

theorem mainPageLoopT_ticks (H : Hashes) (page : List AddrValue) (h : Felt) :
    (mainPageLoopT H page h).ticks = 3 * page.length := by
  induction page generalizing h with
  | nil => rfl
  | cons c cs ih => simp [mainPageLoopT, ih]; omega

theorem length_flatMap_segments (l : List SegmentInfo) :
    (l.flatMap fun s => [s.beginAddr, s.stopPtr]).length = 2 * l.length := by
  induction l with
  | nil => rfl
  | cons a l ih => simp [List.flatMap_cons, ih]; omega

theorem length_flatMap_headers (l : List ContinuousPageHeader) :
    (l.flatMap fun h => [h.startAddress, h.size, h.hash]).length = 3 * l.length := by
  induction l with
  | nil => rfl
  | cons a l ih => simp [List.flatMap_cons, ih]; omega

/-- `PublicInput::get_hash`: the Pedersen chain over the main page (3 per cell), the lists that make up
    the hashed data, and the Poseidon hash of that data -/
def Cost'.pubHash (pi : PublicInput) : Nat := 47 + 6 * pi.size

theorem getHashT_ticks (H : Hashes) (stone6 : Bool) (nf : Felt) (pi : PublicInput) :
    (getHashT H stone6 nf pi).ticks ≤ Cost'.pubHash pi := by
  unfold Cost'.pubHash PublicInput.size
  simp only [getHashT, hashDataT, mainPageHashT, Tk.bind_ticks, Tk.bind_val, appendT_ticks, appendT_val,
    flatMapT_ticks, flatMapT_val, poseidonManyT_ticks, pedersenT_ticks, mainPageLoopT_ticks,
    length_flatMap_segments, length_flatMap_headers, List.length_append, List.length_cons, List.length_nil]
  cases pi.dynamicParams <;> cases stone6 <;> simp <;> omega

/-! ### `stark_commit` -/

theorem powersArrayT_ticks (n : Nat) (v a : Felt) : (powersArrayT n v a).ticks = n := by
  induction n generalizing v with
  | zero => rfl
  | succ n ih => simp [powersArrayT, ih]; omega

theorem squeezeNT_ticks (H : Hashes) (n : Nat) (t : Transcript) : (squeezeNT H n t).ticks = 2 * n := by
  induction n generalizing t with
  | zero => rfl
  | succ n ih => simp [squeezeNT, ih]; omega

theorem verifyOodsT_ticks (L : LayoutOps) (KF : LayoutCostFn) (K : LayoutCost) (hK : KF.BoundedBy K)
    (oods ie : List Felt) (pi : PublicInput) (coefs : List Felt) (z tds tg : Felt) :
    (verifyOodsT L KF oods ie pi coefs z tds tg).ticks ≤ 1 + (oods.length + (K.compA + K.compB * pi.size)) := by
  simp only [verifyOodsT, TO.bind_ticks, TO.tick_ticks, TO.tick_out, TO.rest_ok]
  split
  · simp only [TO.err_ticks]; omega
  · simp only [TO.bind_ticks, TO.monadLift_ticks, TO.monadLift_out, TO.rest_ok, takeT_ticks, takeT_val,
      TO.ofOutcome_ticks, TO.ofOutcome_out]
    refine Nat.add_le_add_left (Nat.add_le_add (Nat.min_le_right _ _) (Nat.le_trans (Nat.add_le_add
      (hK.comp _ _ _ _ _ _ _) (TO.rest_le _ _ 0 ?_)) (Nat.le_of_eq (Nat.add_zero _)))) 1
    intro _ _
    repeat' split
    all_goals simp

theorem powCommitT_ticks (H : Hashes) (t : Transcript) (nBits nonce : Nat) :
    (powCommitT H t nBits nonce).ticks ≤ 6 + Cost.F := by
  simp only [powCommitT, TO.bind_ticks, TO.tick_ticks, TO.tick_out, TO.rest_ok, TO.ofOutcome_ticks,
    TO.ofOutcome_out]
  refine Nat.le_trans (Nat.add_le_add_left (Nat.add_le_add_left (TO.rest_le _ _ 3 ?_) _) 1) (by omega)
  intro _ _
  simp

/-- `stark_commit`: transcript traffic, the two `powers_array`s, `verify_oods` (with the layout's
    composition evaluator), `fri_commit` (value-driven: `n_layers - 1` rounds), proof of work -/
def Cost'.commit (L : LayoutOps) (K : LayoutCost) (p : Stark.Proof) : Nat :=
  28 + 2 * L.nInteractionElements + L.nConstraints + 2 * p.unsent.oodsValues.length
    + (K.compA + K.compB * p.publicInput.size) + (L.maskSize + L.constraintDegree) + 3 * Cost.F
    + 5 * Cost.rounds p.config.fri + p.unsent.friLastLayerCoefficients.length

theorem starkCommitT_ticks (L : LayoutOps) (KF : LayoutCostFn) (K : LayoutCost) (hK : KF.BoundedBy K)
    (H : Hashes) (t : Transcript) (p : Stark.Proof) (d : StarkDomains) :
    (starkCommitT L KF H t p.publicInput p.unsent p.config d).ticks ≤ Cost'.commit L K p := by
  unfold Cost'.commit
  simp only [starkCommitT, TO.bind_ticks, TO.tick_ticks, TO.tick_out, TO.rest_ok, TO.monadLift_ticks,
    TO.monadLift_out, readFeltT_ticks, readFeltT_val, squeezeNT_ticks, squeezeNT_val, randomFeltT_ticks,
    randomFeltT_val, powersArrayT_ticks, powersArrayT_val, readFeltVectorT_ticks, readFeltVectorT_val]
  refine Nat.le_trans (Nat.add_le_add_left (Nat.add_le_add_left (Nat.add_le_add_left (Nat.add_le_add_left
    (Nat.add_le_add_left (Nat.add_le_add_left (Nat.add_le_add_left (Nat.add_le_add_left (Nat.add_le_add_left
    (Nat.add_le_add (verifyOodsT_ticks L KF K hK _ _ _ _ _ _ _) (TO.rest_le _ _
      (1 + (L.maskSize + L.constraintDegree) + Cost.F
        + ((1 + 5 * Cost.rounds p.config.fri + (p.unsent.friLastLayerCoefficients.length + 2) + Cost.F)
          + (6 + Cost.F))) ?_)) _) _) _) _) _) _) _) _) _) (by omega)
  intro _ _
  simp only [TO.bind_ticks, TO.monadLift_ticks, TO.monadLift_out, TO.rest_ok, randomFeltT_ticks,
    randomFeltT_val, powersArrayT_ticks, powersArrayT_val, powT_ticks, powT_val]
  refine Nat.le_trans (Nat.add_le_add_left (Nat.add_le_add_left (Nat.add_le_add_left (?_ : _ ≤
    (1 + 5 * Cost.rounds p.config.fri + (p.unsent.friLastLayerCoefficients.length + 2) + Cost.F)
          + (6 + Cost.F)) _) _) _) (by omega)
  split
  · simp
  · simp only [TO.bind_ticks]
    refine Nat.add_le_add (friCommitT_ticks _ _ _ _ _) (TO.rest_le _ _ _ ?_)
    intro r _
    simp only [TO.bind_ticks]
    refine Nat.le_trans (Nat.add_le_add (powCommitT_ticks _ _ _ _) (TO.rest_le _ _ 0 ?_)) (by omega)
    intro _ _
    simp

/-- what the later phases need to know about the commitment returned by `stark_commit` -/
theorem commit_fri {L : LayoutOps} {H : Hashes} {t t' : Transcript} {pi : PublicInput}
    {u : Stark.UnsentCommitment} {cfg : StarkConfig} {d : StarkDomains} {c : Stark.Commitment}
    (h : Stark.commit L H t pi u cfg d = .ok (t', c)) :
    c.fri.config = cfg.fri ∧ c.fri.lastLayerCoefficients = u.friLastLayerCoefficients := by
  unfold Stark.commit at h
  simp only at h
  repeat' split at h
  all_goals try (simp at h; done)
  rename_i hfri _ _ _
  simp only [Outcome.ok.injEq, Prod.mk.injEq] at h
  obtain ⟨_, rfl⟩ := h
  unfold Fri.commit at hfri
  repeat' split at hfri
  all_goals try (simp at hfri; done)
  simp only [Outcome.ok.injEq, Prod.mk.injEq] at hfri
  obtain ⟨_, rfl⟩ := hfri
  exact ⟨rfl, rfl⟩

/-! ### `stark_verify` -/

theorem oodsEvalLoopT_ticks (L : LayoutOps) (KF : LayoutCostFn) (K : LayoutCost) (hK : KF.BoundedBy K)
    (pi : PublicInput) (n1 n2 : Nat) (ov coefs : List Felt) (z tg : Felt) (ps v1 v2 v3 : List Felt) :
    (oodsEvalLoopT L KF pi n1 n2 ov coefs z tg ps v1 v2 v3).ticks ≤
      ps.length * (1 + K.oods) + 4 * (v1.length + v2.length + v3.length) := by
  induction ps generalizing v1 v2 v3 with
  | nil => simp [oodsEvalLoopT]
  | cons p ps ih =>
    rw [List.length_cons, Nat.add_mul, Nat.one_mul]
    simp only [oodsEvalLoopT, TO.bind_ticks, TO.tick_ticks, TO.tick_out, TO.rest_ok, TO.monadLift_ticks,
      TO.monadLift_out, takeT_ticks, takeT_val, appendT_ticks, appendT_val, TO.mapErr_ticks,
      TO.ofOutcome_ticks, List.length_take, List.length_append]
    refine Nat.le_trans (Nat.add_le_add_left (Nat.add_le_add_left (Nat.add_le_add_left (Nat.add_le_add_left
      (Nat.add_le_add_left (Nat.add_le_add_left (Nat.add_le_add (hK.oods _ _ _ _ _ _ _) (TO.rest_le _ _
        (min n1 v1.length + (min n2 v2.length + (min L.constraintDegree v3.length
          + (ps.length * (1 + K.oods) + 4 * ((v1.length - n1) + (v2.length - n2)
            + (v3.length - L.constraintDegree)))))) ?_)) _) _) _) _) _) 1) (by omega)
    intro y _
    simp only [TO.bind_ticks, TO.monadLift_ticks, TO.monadLift_out, TO.rest_ok, dropT_ticks, dropT_val]
    refine Nat.add_le_add_left (Nat.add_le_add_left (Nat.add_le_add_left (Nat.le_trans (Nat.add_le_add
      (ih _ _ _) (TO.rest_le _ _ 0 ?_)) (by simp only [List.length_drop]; omega)) _) _) _
    intro _ _; simp

theorem evalOodsBoundaryT_ticks (L : LayoutOps) (KF : LayoutCostFn) (K : LayoutCost) (hK : KF.BoundedBy K)
    (n1 n2 : Nat) (pi : PublicInput) (ov coefs : List Felt) (z tg : Felt) (ps v1 v2 v3 : List Felt) :
    (evalOodsBoundaryT L KF n1 n2 pi ov coefs z tg ps v1 v2 v3).ticks ≤
      1 + (ps.length * (1 + K.oods) + 4 * (v1.length + v2.length + v3.length)) := by
  simp only [evalOodsBoundaryT, TO.bind_ticks, TO.tick_ticks, TO.tick_out, TO.rest_ok]
  repeat' split
  all_goals try (simp only [TO.err_ticks]; omega)
  exact Nat.add_le_add_left (oodsEvalLoopT_ticks L KF K hK _ _ _ _ _ _ _ _ _ _ _) 1

theorem pointsLoop_length (shift g : Felt) (qs ps : List Felt)
    (h : Queries.pointsLoop shift g qs = .ok ps) : ps.length = qs.length := by
  induction qs generalizing ps with
  | nil => simp [Queries.pointsLoop] at h; subst h; rfl
  | cons q qs ih =>
    simp only [Queries.pointsLoop] at h
    repeat' split at h
    all_goals try (simp at h; done)
    rename_i ps' hps
    simp only [Outcome.ok.injEq] at h
    subst h
    simp [ih _ hps]

theorem queriesToPoints_length (qs ps : List Felt) (d : StarkDomains)
    (h : Queries.queriesToPoints qs d = .ok ps) : ps.length = qs.length := by
  unfold Queries.queriesToPoints at h
  split at h
  · cases h
  · exact pointsLoop_length _ _ _ _ h

/-- `stark_verify` for at most `q` queries: the three table decommitments, `queries_to_points`,
    `eval_oods_boundary_poly_at_points` (one layout call per query, every decommitted value sliced),
    `fri_verify` -/
def Cost'.phase (K : LayoutCost) (p : Stark.Proof) : Nat :=
  let q := p.config.nQueries.val
  let w := p.witness
  1 + ((Cost'.tableDecommit q w.tracesOriginalValues.length w.tracesOriginalAuths.length
      + Cost'.tableDecommit q w.tracesInteractionValues.length w.tracesInteractionAuths.length)
    + (Cost'.tableDecommit q w.compositionValues.length w.compositionAuths.length
      + (Cost'.points q
        + ((1 + (q * (1 + K.oods) + 4 * (w.tracesOriginalValues.length + w.tracesInteractionValues.length
              + w.compositionValues.length)))
          + Cost'.friVerify q p.config.fri w.friLayers p.unsent.friLastLayerCoefficients.length))))

theorem Cost'.points_mono {a b : Nat} (h : a ≤ b) : Cost'.points a ≤ Cost'.points b := by
  unfold Cost'.points
  have := Nat.mul_le_mul_right (65 + Cost.F) h
  omega

theorem verifyPhaseT_ticks (L : LayoutOps) (KF : LayoutCostFn) (K : LayoutCost) (hK : KF.BoundedBy K)
    (H : Hashes) (n1 n2 : Nat) (p : Stark.Proof) (queries : List Felt) (c : Stark.Commitment)
    (d : StarkDomains) (hq : queries.length ≤ p.config.nQueries.val) (hc : c.fri.config = p.config.fri)
    (hl : c.fri.lastLayerCoefficients = p.unsent.friLastLayerCoefficients) :
    (verifyPhaseT L KF H n1 n2 p.publicInput queries c p.witness d).ticks ≤ Cost'.phase K p := by
  unfold Cost'.phase
  simp only [verifyPhaseT, TO.bind_ticks, TO.tick_ticks, TO.tick_out, TO.rest_ok, TO.both_ticks]
  have td := fun (cm : Table.Commitment) (vs as : List Felt) =>
    Nat.le_trans (tableDecommitT_ticks H cm queries vs as)
      (Cost'.tableDecommit_mono hq (Nat.le_refl _) (Nat.le_refl _))
  refine Nat.add_le_add_left (Nat.add_le_add (Nat.add_le_add (td _ _ _) (td _ _ _))
    (TO.rest_le _ _ _ ?_)) 1
  intro _ _
  simp only [TO.bind_ticks]
  refine Nat.add_le_add (td _ _ _) (TO.rest_le _ _ _ ?_)
  intro _ _
  split
  · simp
  · simp only [TO.bind_ticks]
    refine Nat.add_le_add (Nat.le_trans (queriesToPointsT_ticks _ _) (Cost'.points_mono hq))
      (TO.rest_le _ _ _ ?_)
    intro points hp
    rw [queriesToPointsT_out] at hp
    have hpl := queriesToPoints_length _ _ _ hp
    simp only [TO.bind_ticks]
    have hmul : points.length * (1 + K.oods) ≤ p.config.nQueries.val * (1 + K.oods) :=
      Nat.mul_le_mul_right _ (by omega)
    refine Nat.add_le_add (Nat.le_trans (evalOodsBoundaryT_ticks L KF K hK _ _ _ _ _ _ _ _ _ _ _) (by omega))
      (TO.rest_le _ _ _ ?_)
    intro evals _
    have := friVerifyT_ticks H queries c.fri evals points p.witness.friLayers p.config.nQueries.val hq
    rw [hc, hl] at this
    exact this

/-! ### `StarkProof::verify` -/

/-- CORRECTED step count of `Stark.verify L H stone6 p sec` under the charging scheme of
    `Proofs/TickedBasic.lean` (compare `verifyCost` in `Model/Cost.lean`).  Value-driven loop counts are
    written as the field's value: `n_queries`, `n_layers`, `2^step`. -/
def verifyCost' (L : LayoutOps) (K : LayoutCost) (p : Stark.Proof) : Nat :=
  1 + Cost'.config p.config + Cost'.domains + (K.piA + K.piB * p.publicInput.size)
    + Cost'.pubHash p.publicInput + Cost'.commit L K p + Cost'.sampling p.config.nQueries.val
    + Cost'.phase K p

/-- HEADLINE (unconditional form): the instrumented verifier never takes more than `verifyCost'` steps -/
theorem verifyT_ticks_le (L : LayoutOps) (KF : LayoutCostFn) (K : LayoutCost) (hK : KF.BoundedBy K)
    (H : Hashes) (stone6 : Bool) (p : Stark.Proof) (sec : Felt) :
    (verifyT L KF H stone6 p sec).ticks ≤ verifyCost' L K p := by
  unfold verifyCost'
  have hV : KF.verifyPublicInput p.publicInput ≤ K.piA + K.piB * p.publicInput.size := by
    have := hK.pub p.publicInput ⟨0, 0, 0, 0, 0, 0⟩
    omega
  simp only [verifyT, TO.bind_ticks, TO.tick_ticks, TO.tick_out, TO.rest_ok]
  split
  · simp only [TO.bind_ticks]
    refine Nat.le_trans (Nat.add_le_add_left (Nat.add_le_add (configValidateT_ticks _ _ _ _)
      (TO.rest_le _ _ (Cost'.domains + ((K.piA + K.piB * p.publicInput.size - KF.verifyPublicInput p.publicInput)
        + (Cost'.pubHash p.publicInput + (Cost'.commit L K p + (Cost'.sampling p.config.nQueries.val
          + (Cost'.phase K p + KF.verifyPublicInput p.publicInput)))))) ?_)) 1) (by omega)
    intro _ _
    simp only [TO.bind_ticks]
    refine Nat.add_le_add (domainsNewT_ticks _ _) (TO.rest_le _ _ _ ?_)
    intro d _
    simp only [TO.bind_ticks, TO.ofOutcome_ticks, TO.ofOutcome_out]
    refine Nat.add_le_add (by have := hK.pub p.publicInput d; omega) (TO.rest_le _ _ _ ?_)
    intro _ _
    simp only [TO.bind_ticks, TO.monadLift_ticks, TO.monadLift_out, TO.rest_ok]
    refine Nat.add_le_add (getHashT_ticks _ _ _ _) ?_
    refine Nat.add_le_add (starkCommitT_ticks L KF K hK H _ p d) (TO.rest_le _ _ _ ?_)
    rintro ⟨t, c⟩ hcm
    rw [starkCommitT_out] at hcm
    obtain ⟨hc, hl⟩ := commit_fri hcm
    simp only [TO.bind_ticks]
    refine Nat.add_le_add (generateQueriesT_ticks _ _ _ _) (TO.rest_le _ _ _ ?_)
    rintro ⟨queries, tq⟩ hqs
    rw [generateQueriesT_out] at hqs
    have hq := generateQueries_length hqs
    simp only [TO.bind_ticks]
    refine Nat.add_le_add (verifyPhaseT_ticks L KF K hK H _ _ p queries c d hq hc hl) (TO.rest_le _ _ _ ?_)
    intro _ _
    exact Nat.le_refl _
  · simp only [TO.err_ticks]; omega

end Swiftness.Ticked
