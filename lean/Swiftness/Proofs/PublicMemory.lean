/-
  C15 (second half): the public-memory product ratio
  (`crates/air/src/public_memory.rs`, `types.rs`).
-/
import Swiftness.Model.PublicInput
import Swiftness.Proofs.FeltField
import Swiftness.Proofs.Domains
import Mathlib.Algebra.BigOperators.Group.List.Basic

/-!
  NOTE on notation: on `Felt = Fin P` the symbol `/` elaborates to core's `Fin.instDiv`
  (truncated division of representatives), NOT to field division.  Field quotients are therefore
  written `a * b⁻¹` throughout (`⁻¹` has no core instance on `Fin`, so it is the field inverse).
-/

namespace Swiftness.Proofs
open Swiftness Swiftness.PublicInput
attribute [-instance] Fin.instOfNat

/-- the factor contributed by one public-memory cell: `z - (address + alpha * value)` -/
def cellFactor (z alpha : Felt) (c : AddrValue) : Felt := z - (c.address + alpha * c.value)

/-- `Σ header.size` plus the main-page length, in the field (as the Rust computes it) -/
def totalLength (pi : PublicInput) : Felt :=
  (pi.mainPage.length : Felt) + (pi.continuousPageHeaders.map (·.size)).sum

/-- the padding-cell factor -/
def padFactor (pi : PublicInput) (z alpha : Felt) : Felt :=
  cellFactor z alpha ⟨pi.paddingAddr, pi.paddingValue⟩

theorem foldl_mul_eq {α : Type} (f : α → Felt) (a : Felt) (l : List α) :
    l.foldl (fun r c => r * f c) a = a * (l.map f).prod := by
  induction l generalizing a with
  | nil => simp
  | cons x xs ih => rw [List.foldl_cons, ih, List.map_cons, List.prod_cons, mul_assoc]

theorem pageProduct_eq (z alpha : Felt) (page : List AddrValue) :
    pageProduct z alpha page = (page.map (cellFactor z alpha)).prod := by
  unfold pageProduct
  rw [← Felt.one_eq]
  have := foldl_mul_eq (cellFactor z alpha) 1 page
  rw [one_mul] at this
  exact this

theorem foldl_pair_eq (hs : List ContinuousPageHeader) (a b : Felt) :
    hs.foldl (fun (r : Felt × Felt) h => (r.1 * h.prod, r.2 + h.size)) (a, b)
      = (a * (hs.map (·.prod)).prod, b + (hs.map (·.size)).sum) := by
  induction hs generalizing a b with
  | nil => simp
  | cons x xs ih =>
    rw [List.foldl_cons, ih, List.map_cons, List.prod_cons, List.map_cons, List.sum_cons,
      mul_assoc, add_assoc]

theorem continuousPagesProduct_eq (hs : List ContinuousPageHeader) :
    continuousPagesProduct hs = ((hs.map (·.prod)).prod, (hs.map (·.size)).sum) := by
  unfold continuousPagesProduct
  rw [← Felt.one_eq, zero_felt, foldl_pair_eq, one_mul, zero_add]

theorem publicMemoryProduct_eq (pi : PublicInput) (z alpha : Felt) :
    publicMemoryProduct pi z alpha =
      ((pi.mainPage.map (cellFactor z alpha)).prod * (pi.continuousPageHeaders.map (·.prod)).prod,
        totalLength pi) := by
  unfold publicMemoryProduct
  rw [continuousPagesProduct_eq, pageProduct_eq]
  rfl

/-- the model with all arithmetic in field notation -/
theorem ratio_unfold (pi : PublicInput) (z alpha size : Felt) :
    publicMemoryProductRatio pi z alpha size =
      if ¬ ((totalLength pi).val ≤ size.val) then
        .err "None:total_length"
      else if (pi.mainPage.map (cellFactor z alpha)).prod
          * (pi.continuousPageHeaders.map (·.prod)).prod = 0 then
        .err "None:pages_product"
      else if padFactor pi z alpha ^ (size - totalLength pi).val = 0 then
        .err "None:denominator_pad"
      else .ok (z ^ size.val *
        ((pi.mainPage.map (cellFactor z alpha)).prod
          * (pi.continuousPageHeaders.map (·.prod)).prod
          * padFactor pi z alpha ^ (size - totalLength pi).val)⁻¹) := by
  unfold publicMemoryProductRatio
  rw [publicMemoryProduct_eq]
  simp only [Felt.pow_val_eq, Felt.inv_eq, zero_felt]
  have e : z - (pi.paddingAddr + alpha * pi.paddingValue) = padFactor pi z alpha := rfl
  rw [e]
  split
  · rfl
  · split
    · rfl
    · split
      · rfl
      · congr 1
        rw [mul_inv, mul_inv, mul_inv, mul_assoc, mul_assoc]

theorem memory_ratio (pi : PublicInput) (z alpha size : Felt)
    (htot : (totalLength pi).val ≤ size.val)
    (hprod : (pi.mainPage.map (cellFactor z alpha)).prod
      * (pi.continuousPageHeaders.map (·.prod)).prod ≠ 0)
    (hpad : padFactor pi z alpha ^ (size - totalLength pi).val ≠ 0) :
    publicMemoryProductRatio pi z alpha size =
      .ok (z ^ size.val *
        ((pi.mainPage.map (cellFactor z alpha)).prod
          * (pi.continuousPageHeaders.map (·.prod)).prod
          * padFactor pi z alpha ^ (size - totalLength pi).val)⁻¹) := by
  rw [ratio_unfold, if_neg (not_not.2 htot), if_neg hprod, if_neg hpad]

theorem memory_ratio_no_panic (pi : PublicInput) (z alpha size : Felt) (e : String) :
    publicMemoryProductRatio pi z alpha size ≠ .panic e := by
  rw [ratio_unfold]
  split
  · simp
  · split
    · simp
    · split <;> simp

theorem memory_ratio_err_iff (pi : PublicInput) (z alpha size : Felt) :
    (∃ s, publicMemoryProductRatio pi z alpha size = .err s) ↔
      (size.val < (totalLength pi).val
        ∨ (pi.mainPage.map (cellFactor z alpha)).prod
            * (pi.continuousPageHeaders.map (·.prod)).prod = 0
        ∨ padFactor pi z alpha ^ (size - totalLength pi).val = 0) := by
  rw [ratio_unfold]
  by_cases h1 : (totalLength pi).val ≤ size.val
  · rw [if_neg (not_not.2 h1)]
    by_cases h2 : (pi.mainPage.map (cellFactor z alpha)).prod
        * (pi.continuousPageHeaders.map (·.prod)).prod = 0
    · rw [if_pos h2]
      exact ⟨fun _ => Or.inr (Or.inl h2), fun _ => ⟨_, rfl⟩⟩
    · rw [if_neg h2]
      by_cases h3 : padFactor pi z alpha ^ (size - totalLength pi).val = 0
      · rw [if_pos h3]
        exact ⟨fun _ => Or.inr (Or.inr h3), fun _ => ⟨_, rfl⟩⟩
      · rw [if_neg h3]
        constructor
        · rintro ⟨s, hs⟩; cases hs
        · rintro (h | h | h)
          · omega
          · exact absurd h h2
          · exact absurd h h3
  · rw [if_pos h1]
    exact ⟨fun _ => Or.inl (by omega), fun _ => ⟨_, rfl⟩⟩

/-! ### no continuous pages: the denominator is the product over the padded column -/

theorem totalLength_of_nil (pi : PublicInput) (hc : pi.continuousPageHeaders = []) :
    totalLength pi = (pi.mainPage.length : Felt) := by
  unfold totalLength
  rw [hc]; simp

theorem padded_facts (pi : PublicInput) (size : Felt) (hc : pi.continuousPageHeaders = [])
    (hlen : pi.mainPage.length ≤ size.val) :
    (totalLength pi).val = pi.mainPage.length ∧
      (size - totalLength pi).val = size.val - pi.mainPage.length := by
  have hP : size.val < P := size.isLt
  have hv : (totalLength pi).val = pi.mainPage.length := by
    rw [totalLength_of_nil pi hc]
    exact Felt.val_cast_of_lt (by omega)
  refine ⟨hv, ?_⟩
  have hle : totalLength pi ≤ size := by rw [Fin.le_def, hv]; exact hlen
  rw [Fin.sub_val_of_le hle, hv]

/-- the padded public-memory column: the main page followed by copies of the padding cell -/
def paddedColumn (pi : PublicInput) (size : Felt) : List AddrValue :=
  pi.mainPage ++ List.replicate (size.val - pi.mainPage.length) ⟨pi.paddingAddr, pi.paddingValue⟩

theorem paddedColumn_length (pi : PublicInput) (size : Felt)
    (hlen : pi.mainPage.length ≤ size.val) : (paddedColumn pi size).length = size.val := by
  simp [paddedColumn]; omega

theorem paddedColumn_prod (pi : PublicInput) (z alpha size : Felt) :
    ((paddedColumn pi size).map (cellFactor z alpha)).prod =
      (pi.mainPage.map (cellFactor z alpha)).prod
        * padFactor pi z alpha ^ (size.val - pi.mainPage.length) := by
  simp [paddedColumn, padFactor]

theorem memory_ratio_padded (pi : PublicInput) (z alpha size : Felt)
    (hc : pi.continuousPageHeaders = []) (hlen : pi.mainPage.length ≤ size.val)
    (hne : ((paddedColumn pi size).map (cellFactor z alpha)).prod ≠ 0) :
    publicMemoryProductRatio pi z alpha size =
      .ok (z ^ size.val * (((paddedColumn pi size).map (cellFactor z alpha)).prod)⁻¹) := by
  obtain ⟨hv, hs⟩ := padded_facts pi size hc hlen
  rw [paddedColumn_prod] at hne ⊢
  have h1 := left_ne_zero_of_mul hne
  have h2 := right_ne_zero_of_mul hne
  rw [memory_ratio pi z alpha size (by rw [hv]; exact hlen) (by rw [hc]; simpa using h1)
    (by rw [hs]; exact h2), hs, hc]
  simp

theorem memory_ratio_padded_err (pi : PublicInput) (z alpha size : Felt)
    (hc : pi.continuousPageHeaders = []) (hlen : pi.mainPage.length ≤ size.val)
    (h0 : ((paddedColumn pi size).map (cellFactor z alpha)).prod = 0) :
    ∃ s, publicMemoryProductRatio pi z alpha size = .err s := by
  obtain ⟨hv, hs⟩ := padded_facts pi size hc hlen
  rw [paddedColumn_prod] at h0
  rw [memory_ratio_err_iff, hs, hc]
  rcases mul_eq_zero.1 h0 with h | h
  · exact Or.inr (Or.inl (by simpa using h))
  · exact Or.inr (Or.inr h)

end Swiftness.Proofs
